import Rn.Basic
/-! C13, stages 2-3 of rename detection and the final result, as a function of the matches that were reported.

  Which deleted file is paired with which added file depends on two unstable sorts, on which of the two concurrent
  matchers wins and on the timeout, so the pairs are an *observed choice* (DESIGN.md section 4): the model replays the
  reported pairs, checks that each one was legal when it was made (both files still unmatched) and computes what is
  left.  `applyMatches_perm` quantifies over every legal match sequence, hence over every schedule, winner and
  timeout: the result is always a re-pairing.  Files are numbers (their position in the change list). -/
namespace Rn

/-- replay the reported (deleted, added) pairs; `none` if a pair uses a file that is not (or no longer) available -/
def applyMatches : List Nat → List Nat → List (Nat × Nat) → Option (List Nat × List Nat)
  | del, add, [] => some (del, add)
  | del, add, (d, a) :: ms =>
    if del.contains d && add.contains a then applyMatches (del.erase d) (add.erase a) ms else none

/-- **C13 (re-pairing)**: whatever legal pairs are reported, every deleted path appears exactly once — as the source
    of a rename or as a remaining deletion — and every added path exactly once — as a target or a remaining addition -/
theorem applyMatches_perm (del add : List Nat) (ms : List (Nat × Nat)) (del' add' : List Nat)
    (h : applyMatches del add ms = some (del', add')) :
    (ms.map (·.1) ++ del').Perm del ∧ (ms.map (·.2) ++ add').Perm add := by
  induction ms generalizing del add with
  | nil =>
    simp only [applyMatches, Option.some.injEq, Prod.mk.injEq] at h
    obtain ⟨rfl, rfl⟩ := h
    simp
  | cons m ms ih =>
    obtain ⟨d, a⟩ := m
    simp only [applyMatches] at h
    split at h
    · rename_i hc
      simp only [Bool.and_eq_true, List.contains_iff_mem] at hc
      obtain ⟨h1, h2⟩ := ih _ _ h
      constructor
      · simp only [List.map_cons, List.cons_append]
        exact (List.Perm.cons d h1).trans (List.perm_cons_erase hc.1).symm
      · simp only [List.map_cons, List.cons_append]
        exact (List.Perm.cons a h2).trans (List.perm_cons_erase hc.2).symm
    · exact absurd h (by simp)

/-- number of reported pairs whose two files carry hash `x` -/
def exactPairs (hd ha : Nat → Nat) (ms : List (Nat × Nat)) (x : Nat) : Nat :=
  (ms.filter fun m => hd m.1 = x && ha m.2 = x).length

/-- the complete check of one `Consume` result: pairs legal, and for every content hash occurring on both sides as
    many exact renames as the smaller count (`hashes` = the hashes to check) -/
def resultOK (del add : List Nat) (hd ha : Nat → Nat) (ms : List (Nat × Nat)) (hashes : List Nat) : Bool :=
  (applyMatches del add ms).isSome &&
  hashes.all fun x => exactPairs hd ha ms x == min (del.map hd |>.count x) (add.map ha |>.count x)

end Rn
