/-! C13, stage 1 of rename detection: the merge scan over hash-sorted additions and deletions.
    A hash is a natural number (the big-endian value of the 20 bytes, so `<` is the lexicographic order). -/
namespace Rn

/-- (matched hashes, still added, still deleted) -/
def scan : List Nat → List Nat → List Nat × List Nat × List Nat
  | [], d => ([], [], d)
  | x :: a, [] => ([], x :: a, [])
  | x :: a, y :: d =>
    if x = y then (x :: (scan a d).1, (scan a d).2.1, (scan a d).2.2)
    else if x < y then ((scan a (y :: d)).1, x :: (scan a (y :: d)).2.1, (scan a (y :: d)).2.2)
    else ((scan (x :: a) d).1, (scan (x :: a) d).2.1, y :: (scan (x :: a) d).2.2)
termination_by a d => a.length + d.length

abbrev SortedLE (l : List Nat) : Prop := l.Pairwise (· ≤ ·)

theorem count_zero_of_lt {x : Nat} {l : List Nat} {y : Nat} (hs : SortedLE (y :: l)) (h : x < y) :
    List.count x (y :: l) = 0 := by
  rw [List.count_eq_zero]
  intro hm
  rcases List.mem_cons.mp hm with rfl | hm
  · omega
  · have := (List.pairwise_cons.mp hs).1 x hm; omega

/-- **C13-T1**: for every content hash, as many exact renames as the smaller of the two counts -/
theorem scan_count (a d : List Nat) (ha : SortedLE a) (hd : SortedLE d) (h : Nat) :
    List.count h (scan a d).1 = min (List.count h a) (List.count h d) := by
  fun_induction scan a d with
  | case1 d => simp
  | case2 x a => simp
  | case3 a x d ih =>
    have := ih (List.pairwise_cons.mp ha).2 (List.pairwise_cons.mp hd).2
    simp only [List.count_cons, this]
    by_cases hh : x = h
    · simp [hh]
    · simp [hh]
  | case4 x a y d hne hlt ih =>
    have := ih (List.pairwise_cons.mp ha).2 hd
    simp only
    rw [this]
    by_cases hh : x = h
    · subst hh
      rw [count_zero_of_lt hd hlt]; simp
    · simp [List.count_cons, hh]
  | case5 x a y d hne hnlt ih =>
    have hlt : y < x := by omega
    have := ih ha (List.pairwise_cons.mp hd).2
    simp only
    rw [this]
    by_cases hh : y = h
    · subst hh
      rw [count_zero_of_lt ha hlt]; simp
    · simp [List.count_cons, hh]

/-- the scan only re-pairs: every addition is matched or still added, every deletion matched or still deleted -/
theorem scan_partition (a d : List Nat) (h : Nat) :
    List.count h a = List.count h (scan a d).1 + List.count h (scan a d).2.1 ∧
    List.count h d = List.count h (scan a d).1 + List.count h (scan a d).2.2 := by
  fun_induction scan a d with
  | case1 d => simp
  | case2 x a => simp
  | case3 a x d ih =>
    simp only [List.count_cons]
    constructor <;> (have := ih; omega)
  | case4 x a y d hne hlt ih =>
    simp only [List.count_cons] at ih ⊢
    constructor <;> omega
  | case5 x a y d hne hnlt ih =>
    simp only [List.count_cons] at ih ⊢
    constructor <;> omega

/-- the pinned comparison "some byte is smaller" on two-byte hashes is not even asymmetric -/
def badLess (a b : List Nat) : Bool := (a.zip b).any fun p => p.1 < p.2
example : badLess [1, 2] [2, 1] = true ∧ badLess [2, 1] [1, 2] = true := by decide

end Rn
