import Rn.Protocol
import Gen.Facts
/-! Tie of the protocol model to the current source: `harness/cmd/facts` re-reads internal/plumbing/renames.go (go/ast) on
    every run and regenerates `Gen/Facts.lean`; the statement below is what `Rn/Protocol.lean` assumes about the code.
    It no longer type-checks when a channel capacity changes, when a matcher gets another way to return (the model has
    exactly: run to the end and send `finishedX`; return on a received `finished` message; the error path), or when the
    `finishedX` send is no longer the last statement of the matcher. -/
namespace RnP

theorem protocol_facts :
    Gen.renameChanCaps = [("finished", 2), ("finishedA", 1), ("finishedB", 1)] ∧
    Gen.renameUnbufferedChans = ["errs"] ∧
    Gen.rename_matchA = [("deferred sends to finished", 1), ("polls of finished", 1), ("returns on a received message", 1),
      ("returns after an error send", 1), ("other returns", 0)] ∧
    Gen.rename_matchA_lastSend = "finishedA" ∧
    Gen.rename_matchB = [("deferred sends to finished", 1), ("polls of finished", 1), ("returns on a received message", 1),
      ("returns after an error send", 1), ("other returns", 0)] ∧
    Gen.rename_matchB_lastSend = "finishedB" := by
  refine ⟨rfl, rfl, rfl, rfl, rfl, rfl⟩

end RnP
