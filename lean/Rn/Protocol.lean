/-! C13: the hand-off protocol of the two concurrent matchers of `RenameAnalysis.Consume` as a transition system.

  Channels of the code: `finished` (capacity 2: one message per matcher, sent by the deferred function when the matcher
  returns), `finishedA` / `finishedB` (capacity 1: sent when the matcher ran to the end of its outer loop — by exhausting
  its list or its time budget).  Inside its candidate loop a matcher polls `finished` without blocking; when it receives
  a message it returns at once (its own result is abandoned).  The main goroutine waits for both, then takes the result
  of a matcher whose `finishedX` is set and panics ("Impossible happened") if neither is.

  The model keeps exactly this bookkeeping; what the matchers compute is irrelevant here (any number of `work` steps in
  any interleaving).  `reachable_inv` is an induction over all schedules: no send can block (never more than two
  messages in `finished`, at most one in each `finishedX`), a matcher can only abandon after the other one returned, and
  the first matcher to return has completed — so when both have returned, a completed result exists and the panic is
  unreachable. -/
namespace RnP

inductive Phase | running | completed | abandoned
  deriving DecidableEq, Repr

structure St where
  a : Phase
  b : Phase
  tokens : Nat          -- messages waiting in `finished`
  deriving Repr

def init : St := ⟨.running, .running, 0⟩

inductive Who | A | B
  deriving DecidableEq, Repr

inductive Ev
  | work (w : Who)       -- any computation, incl. a poll of `finished` that finds it empty
  | complete (w : Who)   -- end of the outer loop: `finishedX <- true`, return (deferred `finished <- true`)
  | abandon (w : Who)    -- a poll of `finished` received a message: return (deferred `finished <- true`)
  deriving Repr

def phase (s : St) : Who → Phase | .A => s.a | .B => s.b
def setPhase (s : St) (w : Who) (p : Phase) : St := match w with | .A => { s with a := p } | .B => { s with b := p }

/-- one step; `none` = the event is not enabled in this state -/
def step (s : St) : Ev → Option St
  | .work w => if phase s w = .running then some s else none
  | .complete w => if phase s w = .running then some { setPhase s w .completed with tokens := s.tokens + 1 } else none
  | .abandon w =>
    if phase s w = .running ∧ 0 < s.tokens then
      -- one message is received, and the deferred function sends one
      some { setPhase s w .abandoned with tokens := s.tokens - 1 + 1 }
    else none

def returned (p : Phase) : Nat := if p = .running then 0 else 1

@[simp] theorem returned_running : returned .running = 0 := rfl
@[simp] theorem returned_completed : returned .completed = 1 := rfl
@[simp] theorem returned_abandoned : returned .abandoned = 1 := rfl
theorem returned_le (p : Phase) : returned p ≤ 1 := by cases p <;> simp
theorem returned_of_ne {p : Phase} (h : p ≠ .running) : returned p = 1 := by cases p <;> simp at h ⊢

structure Inv (s : St) : Prop where
  /-- messages in `finished` never exceed the matchers that returned (capacity 2 suffices, no send blocks) -/
  cap : s.tokens ≤ returned s.a + returned s.b
  /-- a message is there as soon as somebody returned -/
  some_token : (s.a ≠ .running ∨ s.b ≠ .running) → 0 < s.tokens
  /-- whoever returned first has completed -/
  first_completed : (s.a ≠ .running ∨ s.b ≠ .running) → (s.a = .completed ∨ s.b = .completed)

theorem inv_init : Inv init := ⟨by decide, by decide, by decide⟩

theorem step_inv (s s' : St) (e : Ev) (h : Inv s) (hs : step s e = some s') : Inv s' := by
  obtain ⟨hc, ht, hf⟩ := h
  cases e with
  | work w =>
    simp only [step] at hs
    split at hs
    · simp only [Option.some.injEq] at hs; subst hs; exact ⟨hc, ht, hf⟩
    · simp at hs
  | complete w =>
    simp only [step] at hs
    split at hs
    · rename_i hr
      simp only [Option.some.injEq] at hs; subst hs
      cases w <;> simp only [phase] at hr <;> simp only [setPhase]
      · refine ⟨?_, fun _ => Nat.succ_pos _, fun _ => Or.inl rfl⟩
        rw [hr] at hc; simp only [returned_running, returned_completed] at hc ⊢; omega
      · refine ⟨?_, fun _ => Nat.succ_pos _, fun _ => Or.inr rfl⟩
        rw [hr] at hc; simp only [returned_running, returned_completed] at hc ⊢; omega
    · simp at hs
  | abandon w =>
    simp only [step] at hs
    split at hs
    · rename_i hr
      obtain ⟨hr, hpos⟩ := hr
      simp only [Option.some.injEq] at hs; subst hs
      cases w <;> simp only [phase] at hr <;> simp only [setPhase]
      · -- A abandons: a message was there, so B had returned, and B - the first to return - completed
        have hb : s.b ≠ .running := by
          intro hb
          rw [hr, hb] at hc; simp only [returned_running] at hc; omega
        have hcomp := hf (Or.inr hb)
        refine ⟨?_, fun _ => Nat.succ_pos _, fun _ => ?_⟩
        · rw [hr] at hc; simp only [returned_running, returned_abandoned, returned_of_ne hb] at hc ⊢; omega
        · rcases hcomp with h | h
          · rw [hr] at h; cases h
          · exact Or.inr h
      · have ha : s.a ≠ .running := by
          intro ha
          simp only [returned, hr, ha] at hc; simp at hc; omega
        have hcomp := hf (Or.inl ha)
        refine ⟨?_, fun _ => Nat.succ_pos _, fun _ => ?_⟩
        · rw [hr] at hc; simp only [returned_running, returned_abandoned, returned_of_ne ha] at hc ⊢; omega
        · rcases hcomp with h | h
          · exact Or.inl h
          · rw [hr] at h; cases h
    · simp at hs

/-- run a schedule; events that are not enabled are skipped (a goroutine that returned does nothing more) -/
def run (s : St) : List Ev → St
  | [] => s
  | e :: es => match step s e with
    | some s' => run s' es
    | none => run s es

/-- **every schedule**: the invariant holds in every reachable state -/
theorem reachable_inv (es : List Ev) : Inv (run init es) := by
  suffices ∀ s, Inv s → Inv (run s es) from this init inv_init
  induction es with
  | nil => intro s h; exact h
  | cons e es ih =>
    intro s h
    simp only [run]
    cases hs : step s e with
    | none => exact ih s h
    | some s' => exact ih s' (step_inv s s' e h hs)

/-- **C13, hand-off**: whenever both matchers have returned, at least one ran to completion (its `finishedX` message is
there for the main goroutine: the "Impossible happened" panic is unreachable), and `finished` never held more than its
two slots -/
theorem handoff_safe (es : List Ev) (ha : (run init es).a ≠ .running) (hb : (run init es).b ≠ .running) :
    ((run init es).a = .completed ∨ (run init es).b = .completed) ∧ (run init es).tokens ≤ 2 := by
  have h := reachable_inv es
  refine ⟨h.first_completed (Or.inl ha), ?_⟩
  have := h.cap
  have := returned_le (run init es).a
  have := returned_le (run init es).b
  omega

/-- progress: while a matcher is running, `work` and `complete` are always enabled for it (no step of a matcher waits
for the other one: there is no deadlock in the protocol) -/
theorem never_blocked (s : St) (w : Who) (h : phase s w = .running) :
    (step s (.work w)).isSome ∧ (step s (.complete w)).isSome := by
  simp [step, h]

/-- non-vacuity: B completes, A abandons on B's message; and both completing -/
example : (run init [.work .A, .complete .B, .abandon .A]).a = .abandoned ∧
          (run init [.work .A, .complete .B, .abandon .A]).b = .completed := by decide
example : (run init [.complete .A, .complete .B]).tokens = 2 := by decide
/-- the seeded slip "return on timeout inside the candidate loop without the hand-over" is exactly an abandon without a
received message; the model shows why it is fatal: both abandoned -/
example : ¬ ∃ es, (run init es).a = .abandoned ∧ (run init es).b = .abandoned := by
  rintro ⟨es, ha, hb⟩
  have := (handoff_safe es (by rw [ha]; decide) (by rw [hb]; decide)).1
  rcases this with h | h
  · rw [ha] at h; cases h
  · rw [hb] at h; cases h

end RnP
