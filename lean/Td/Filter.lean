import Td.Apply
namespace Td

/-- the path filter a configuration denotes (vendor + blacklisted prefixes + whitelist regexp) -/
def pass (cfg : Cfg) (vend rxm : String → Bool) (p : String) : Bool :=
  !(!cfg.skip.isEmpty && vend p) && !(cfg.skip.any fun d => d.isPrefixOf p) && (!cfg.hasRx || rxm p)

/-- configurations for which the filter is a function of the path: no empty prefix (any whitelist regexp is fine,
    also one that matches the empty string: the absent side of an insertion or deletion is not matched) -/
def Sane (cfg : Cfg) : Prop := ∀ d ∈ cfg.skip, d.isEmpty = false

def Facts (vend rxm : String → Bool) (l : List File) : Prop :=
  ∀ f ∈ l, f.vendor = vend f.path ∧ f.rx = rxm f.path

theorem any_or_isEmpty (l : List String) (h : ∀ d ∈ l, d.isEmpty = false) (q : String → Bool) :
    (l.any fun d => d.isEmpty || q d) = l.any q := by
  induction l with
  | nil => rfl
  | cons d ds ih => simp [h d (by simp), ih (fun d' hd' => h d' (by simp [hd']))]

theorem find?_congr' {α : Type} (l : List α) (p q : α → Bool) (h : ∀ a ∈ l, p a = q a) :
    l.find? p = l.find? q := by
  induction l with
  | nil => rfl
  | cons a l ih =>
    simp only [List.find?_cons, h a (by simp)]
    rw [ih (fun b hb => h b (by simp [hb]))]

theorem mem_diffTree {prev cur : List File} {c : Change} (h : c ∈ diffTree prev cur) :
    (∃ f ∈ prev, c = ⟨some f, none⟩) ∨ (∃ g ∈ cur, c = ⟨none, some g⟩) ∨
    (∃ f ∈ prev, ∃ g ∈ cur, f.path = g.path ∧ c = ⟨some f, some g⟩) := by
  unfold diffTree at h
  rcases List.mem_append.1 h with h | h
  · obtain ⟨f, hf, hc⟩ := List.mem_filterMap.1 h
    split at hc
    · simp at hc; exact .inl ⟨f, hf, hc.symm⟩
    · rename_i g hg
      split at hc <;> simp at hc
      refine .inr (.inr ⟨f, hf, g, List.mem_of_find?_eq_some hg, (find_path hg).symm, hc.symm⟩)
  · obtain ⟨g, hg, hc⟩ := List.mem_filterMap.1 h
    split at hc <;> simp at hc
    exact .inr (.inl ⟨g, hg, hc.symm⟩)

theorem any_false_of_sane {cfg : Cfg} (hs : Sane cfg) : (cfg.skip.any fun d => d.isEmpty) = false := by
  rw [List.any_eq_false]; intro d hd; simp [hs d hd]

theorem keep_eq_pass (cfg : Cfg) (vend rxm : String → Bool) (hs : Sane cfg) (prev cur : List File)
    (hfp : Facts vend rxm prev) (hfc : Facts vend rxm cur) (c : Change) (hc : c ∈ diffTree prev cur) :
    keep cfg c = pass cfg vend rxm c.name := by
  have hany1 := any_or_isEmpty cfg.skip hs
  have hany2 : ∀ q : String → Bool, (cfg.skip.any fun d => q d || d.isEmpty) = cfg.skip.any q := by
    intro q; rw [← hany1 q]; congr 1; funext d; exact Bool.or_comm _ _
  rcases mem_diffTree hc with ⟨f, hf, rfl⟩ | ⟨g, hg, rfl⟩ | ⟨f, hf, g, hg, hfg, rfl⟩
  · obtain ⟨v, r⟩ := hfp f hf
    cases hrx : cfg.hasRx with
    | false => simp [keep, pass, Change.name, sideVendor, sidePrefix, sideRx, v, r, hrx, hany1, hany2]
    | true => simp [keep, pass, Change.name, sideVendor, sidePrefix, sideRx, v, r, hrx, hany1, hany2]
  · obtain ⟨v, r⟩ := hfc g hg
    cases hrx : cfg.hasRx with
    | false => simp [keep, pass, Change.name, sideVendor, sidePrefix, sideRx, v, r, hrx, hany1, hany2]
    | true => simp [keep, pass, Change.name, sideVendor, sidePrefix, sideRx, v, r, hrx, hany1, hany2]
  · obtain ⟨v, r⟩ := hfp f hf
    obtain ⟨v', r'⟩ := hfc g hg
    simp [keep, pass, Change.name, sideVendor, sidePrefix, sideRx, v, r, v', r', hfg]

theorem find_filter_pass (l : List File) (q : String → Bool) (p : String) :
    find (l.filter fun f => q f.path) p = if q p then find l p else none := by
  unfold find
  rw [List.find?_filter]
  split
  · rename_i h
    apply find?_congr'
    intro f _
    by_cases e : f.path = p <;> simp [e, h]
  · rename_i h
    rw [List.find?_eq_none]
    intro f _
    by_cases e : f.path = p <;> simp [e]
    simpa using h

/-- **C20-T1 with filters**: for every sane configuration the filtered changes, applied to the filtered
    previous file set, give exactly the filtered current file set. -/
theorem filtered_applies (cfg : Cfg) (vend rxm : String → Bool) (hs : Sane cfg) (prev cur : List File)
    (hp : (prev.map (·.path)).Nodup) (hc : (cur.map (·.path)).Nodup)
    (hfp : Facts vend rxm prev) (hfc : Facts vend rxm cur) (p : String) :
    after (prev.filter fun f => pass cfg vend rxm f.path) ((diffTree prev cur).filter (keep cfg)) p =
      (find (cur.filter fun f => pass cfg vend rxm f.path) p).map hm := by
  have hk : (diffTree prev cur).filter (keep cfg) =
      (diffTree prev cur).filter (fun c => pass cfg vend rxm c.name) := by
    apply List.filter_congr
    intro c hc'
    exact keep_eq_pass cfg vend rxm hs prev cur hfp hfc c hc'
  rw [hk]
  unfold after
  rw [List.find?_filter, find_filter_pass, find_filter_pass]
  by_cases hq : pass cfg vend rxm p = true
  · have : (diffTree prev cur).find? (fun a => decide (pass cfg vend rxm a.name = true ∧ decide (a.name = p) = true)) =
        (diffTree prev cur).find? (fun a => decide (a.name = p)) := by
      apply find?_congr'
      intro c _
      by_cases e : c.name = p <;> simp [e, hq]
    rw [this]
    simp only [hq, if_true]
    exact diffTree_applies prev cur hp hc p
  · have : (diffTree prev cur).find? (fun a => decide (pass cfg vend rxm a.name = true ∧ decide (a.name = p) = true)) = none := by
      rw [List.find?_eq_none]
      intro c _
      by_cases e : c.name = p <;> simp [e]
      simpa using hq
    rw [this]
    simp [hq]

end Td
