import Td.Basic
namespace Td

def hm (f : File) : Nat × Nat := (f.hash, f.mode)

/-- the downstream view of path `p` after applying a change list to `prev` -/
def after (prev : List File) (chs : List Change) (p : String) : Option (Nat × Nat) :=
  match chs.find? (fun c => c.name = p) with
  | some c => c.dst.map hm
  | none => (find prev p).map hm

theorem find_path {l : List File} {p : String} {f : File} (h : find l p = some f) : f.path = p := by
  have := List.find?_some h
  simpa using this

theorem find_none_of_not_mem {l : List File} {p : String} (h : p ∉ l.map (·.path)) : find l p = none := by
  unfold find
  rw [List.find?_eq_none]
  intro f hf
  simp only [decide_eq_true_eq]
  intro e
  exact h (by rw [← e]; exact List.mem_map_of_mem hf)

theorem find_filterMap (l : List File) (F : File → Option Change)
    (hF : ∀ f c, F f = some c → c.name = f.path) (hn : (l.map (·.path)).Nodup) (p : String) :
    (l.filterMap F).find? (fun c => c.name = p) = (find l p).bind F := by
  induction l with
  | nil => rfl
  | cons g rest ih =>
    simp only [List.map_cons, List.nodup_cons] at hn
    by_cases hp : g.path = p
    · have hfind : find (g :: rest) p = some g := by simp [find, List.find?_cons, hp]
      rw [hfind]
      simp only [Option.bind_some]
      cases hg : F g with
      | none =>
        simp only [List.filterMap_cons, hg]
        rw [ih hn.2, find_none_of_not_mem (by rw [← hp]; exact hn.1)]
        rfl
      | some c =>
        simp only [List.filterMap_cons, hg, List.find?_cons]
        have : c.name = p := by rw [hF g c hg, hp]
        simp [this]
    · have hfind : find (g :: rest) p = find rest p := by simp [find, List.find?_cons, hp]
      rw [hfind]
      cases hg : F g with
      | none => simp only [List.filterMap_cons, hg]; exact ih hn.2
      | some c =>
        simp only [List.filterMap_cons, hg, List.find?_cons]
        have : ¬ c.name = p := by rw [hF g c hg]; exact hp
        simp only [this, decide_false]
        exact ih hn.2

/-- **C20-T1 (core)**: applying the reported changes to the previous file set gives the current file
    set, path by path (hash and mode), for all pairs of trees with unique paths. -/
theorem diffTree_applies (prev cur : List File)
    (hp : (prev.map (·.path)).Nodup) (hc : (cur.map (·.path)).Nodup) (p : String) :
    after prev (diffTree prev cur) p = (find cur p).map hm := by
  unfold after diffTree
  rw [List.find?_append]
  rw [find_filterMap prev _ ?_ hp p, find_filterMap cur _ ?_ hc p]
  · cases h1 : find prev p with
    | none =>
      cases h2 : find cur p with
      | none => simp
      | some g =>
        have := find_path h2
        simp [this, h1]
    | some f =>
      have e1 := find_path h1
      cases h2 : find cur p with
      | none => simp [e1, h2]
      | some g =>
        have e2 := find_path h2
        simp only [Option.bind_some, e1, e2, h1, h2]
        by_cases same : f.hash = g.hash ∧ f.mode = g.mode
        · simp [same, hm]
        · simp [same]
  · intro g c h
    split at h <;> simp at h
    subst h; rfl
  · intro f c h
    split at h
    · simp at h; subst h; rfl
    · split at h <;> simp at h
      subst h
      rename_i g hg _
      simp [Change.name]
      exact find_path hg

end Td
