import Td.Filter
open Td
#print axioms diffTree_applies
#print axioms filtered_applies
-- non-vacuity
example : Sane ⟨["vendor/", "dir/sub"], true, true⟩ := by
  intro d hd; simp at hd; rcases hd with rfl | rfl <;> decide
-- the `^$` whitelist (matches only the empty name): since fix D17 an insertion whose path fails the filter is dropped
example : keep ⟨[], true, true⟩ ⟨none, some ⟨"a.go", 1, 33188, false, false, false⟩⟩ = false := by decide
