import Td.Filter
open Td
#print axioms diffTree_applies
#print axioms filtered_applies
-- non-vacuity
example : Sane ⟨["vendor/", "dir/sub"], true, false⟩ := by
  refine ⟨?_, fun _ => rfl⟩
  intro d hd; simp at hd; rcases hd with rfl | rfl <;> decide
-- the `^$` whitelist: a configuration that is NOT sane lets an insertion through although its path fails the filter
example : keep ⟨[], true, true⟩ ⟨none, some ⟨"a.go", 1, 33188, false, false, false⟩⟩ = true := by decide
