/-! Model of BlobCache.Consume (internal/plumbing/blob_cache.go).  The object store is a per-entry fact:
    `present` = the repository has the blob, `sub` = the tree entry is a submodule, `corrupt` = the blob is there but
    cannot be read completely (`CachedBlob.Cache` fails). -/
namespace Bc

structure Ent where
  hash : Nat
  sub : Bool
  present : Bool
  corrupt : Bool := false
  deriving Repr, DecidableEq

inductive Chg | ins (to : Ent) | del (src : Ent) | mod (src to : Ent)
  deriving Repr

/-- what a cache slot holds: the blob (real bytes, or the empty placeholder) or a zero `CachedBlob{}` -/
inductive Slot | blob | zero
  deriving Repr, DecidableEq

abbrev Cache := List (Nat × Slot)

def put (c : Cache) (h : Nat) (s : Slot) : Cache := (h, s) :: c.filter (·.1 ≠ h)
def get (c : Cache) (h : Nat) : Option Slot := (c.find? (·.1 = h)).map (·.2)

/-- getBlob followed by Cache(): found and read completely; or a missing submodule entry → placeholder; or an error -/
def getBlob (e : Ent) : Option Unit :=
  if (e.present && !e.corrupt) || (e.sub && !e.present) then some () else none

structure St where
  out : Cache        -- `cache` handed downstream
  next : Cache       -- `newCache`

/-- one change; `none` = Consume returns an error -/
def stepChg (prev : Cache) (s : St) : Chg → Option St
  | .ins to =>
    match getBlob to with
    | some _ => some ⟨put s.out to.hash .blob, put s.next to.hash .blob⟩
    | none => none
  | .del src =>
    match get prev src.hash with
    | some v => some { s with out := put s.out src.hash v }
    | none =>
      -- loaded, or the dummy for a missing object; a blob that is there but cannot be read is an error
      if src.present && src.corrupt then none else some { s with out := put s.out src.hash .blob }
  | .mod src to =>
    let toOk := (getBlob to).isSome
    let s1 : St := ⟨put s.out to.hash (if toOk then .blob else .zero), put s.next to.hash (if toOk then .blob else .zero)⟩
    match get prev src.hash with
    | some v => if toOk then some { s1 with out := put s1.out src.hash v } else none
    | none =>
      -- an error of either side makes Consume fail (fix D18: the "to" error is no longer overwritten)
      match getBlob src with
      | some _ => if toOk then some { s1 with out := put s1.out src.hash .blob } else none
      | none => none

def consume (prev : Cache) (chs : List Chg) : Option St := chs.foldlM (stepChg prev) ⟨[], []⟩

end Bc
