/-! Model of TreeDiff.Consume / filterDiffs (internal/plumbing/tree_diff.go) over flat file sets.
    go-git's tree diff, enry.IsVendor and the regexp are inputs (per-file facts). -/
namespace Td

structure File where
  path : String
  hash : Nat
  mode : Nat
  sub : Bool        -- submodule entry
  vendor : Bool     -- enry.IsVendor(path)
  rx : Bool         -- NameFilter matches path
  deriving Repr, DecidableEq

structure Cfg where
  skip : List String          -- SkipFiles (non-empty ⇒ vendor filter on as well)
  hasRx : Bool                -- NameFilter set
  rxEmpty : Bool              -- NameFilter matches "" (without influence since fix D17: the absent side is not matched)
  deriving Repr

structure Change where
  src : Option File
  dst : Option File
  deriving Repr, DecidableEq

def Change.name (c : Change) : String :=
  match c.dst, c.src with | some f, _ => f.path | none, some f => f.path | none, none => ""

def find (fs : List File) (p : String) : Option File := fs.find? (·.path = p)

/-- object.DiffTree on flat sets: deletions, insertions, modifications (hash or mode differs) -/
def diffTree (prev cur : List File) : List Change :=
  (prev.filterMap fun f => match find cur f.path with
    | none => some ⟨some f, none⟩
    | some g => if f.hash = g.hash ∧ f.mode = g.mode then none else some ⟨some f, some g⟩) ++
  (cur.filterMap fun g => match find prev g.path with
    | none => some ⟨none, some g⟩
    | some _ => none)

def sideVendor (o : Option File) : Bool := match o with | some f => f.vendor | none => false
def sidePrefix (o : Option File) (d : String) : Bool :=
  match o with | some f => d.isPrefixOf f.path | none => d.isEmpty
def sideRx (_cfg : Cfg) (o : Option File) : Bool := match o with | some f => f.rx | none => false

def keep (cfg : Cfg) (c : Change) : Bool :=
  !(!cfg.skip.isEmpty && (sideVendor c.dst || sideVendor c.src)) &&
  !(cfg.skip.any fun d => sidePrefix c.dst d || sidePrefix c.src d) &&
  (!cfg.hasRx || sideRx cfg c.dst || sideRx cfg c.src)

structure St where
  prevTree : Option (List File)
  prevCommit : Option Nat

def consume (cfg : Cfg) (s : St) (commit : Nat) (parents : List Nat) (tree : List File) :
    Except String (St × List Change) :=
  let pass := match s.prevCommit with | none => true | some p => parents.contains p
  if !pass then .error "wrong-parent" else
  let diffs : List Change := match s.prevTree with
    | some prev => diffTree prev tree
    | none => (tree.filter (fun (f : File) => !f.sub)).map fun (f : File) => (⟨none, some f⟩ : Change)     -- tree.Files() skips submodules
  .ok (⟨some tree, some commit⟩, diffs.filter (keep cfg))

end Td
