import Td.Blob
namespace Bc

def Chg.ents : Chg → List Ent
  | .ins t => [t] | .del s => [s] | .mod s t => [s, t]

def Healthy (chs : List Chg) : Prop := ∀ c ∈ chs, ∀ e ∈ c.ents, getBlob e = some ()
def AllBlob (c : Cache) : Prop := ∀ p ∈ c, p.2 = Slot.blob

theorem find_filter_ne (c : Cache) (h h' : Nat) (e : ¬ h = h') :
    (c.filter (fun x => decide (x.1 ≠ h))).find? (fun x => decide (x.1 = h')) = c.find? (fun x => decide (x.1 = h')) := by
  induction c with
  | nil => rfl
  | cons a c ih =>
    by_cases h1 : a.1 = h
    · have hd : decide (a.1 ≠ h) = false := by simp [h1]
      have h2 : decide (a.1 = h') = false := by
        simp only [decide_eq_false_iff_not]; intro h3; exact e (h1 ▸ h3)
      rw [List.filter_cons, hd]
      simp only [Bool.false_eq_true, if_false, List.find?_cons, h2]
      exact ih
    · have hd : decide (a.1 ≠ h) = true := by simp [h1]
      rw [List.filter_cons, hd]
      simp only [if_true, List.find?_cons]
      rw [ih]

theorem get_put (c : Cache) (h h' : Nat) (s : Slot) :
    get (put c h s) h' = if h = h' then some s else get c h' := by
  unfold get put
  by_cases e : h = h'
  · subst e; simp
  · simp only [List.find?_cons, e, decide_false, if_neg e]
    rw [find_filter_ne c h h' e]
    rfl

theorem allBlob_put {c : Cache} (hc : AllBlob c) (h : Nat) : AllBlob (put c h .blob) := by
  intro p hp
  simp only [put, List.mem_cons] at hp
  rcases hp with rfl | hp
  · rfl
  · exact hc p (List.mem_filter.1 hp).1

theorem get_allBlob {c : Cache} (hc : AllBlob c) {h : Nat} {v : Slot} (hg : get c h = some v) : v = .blob := by
  unfold get at hg
  cases hf : c.find? (·.1 = h) with
  | none => simp [hf] at hg
  | some p =>
    simp [hf] at hg
    have := hc p (List.mem_of_find?_eq_some hf)
    rw [← hg]; exact this

/-- invariant of the fold: both maps only hold real slots, and every entry seen so far is in `out` -/
structure Inv (s : St) (seen : List Nat) : Prop where
  out : AllBlob s.out
  next : AllBlob s.next
  has : ∀ h ∈ seen, get s.out h = some .blob

theorem step_healthy (prev : Cache) (hp : AllBlob prev) (s : St) (seen : List Nat) (hi : Inv s seen) (c : Chg)
    (hc : ∀ e ∈ c.ents, getBlob e = some ()) :
    ∃ s', stepChg prev s c = some s' ∧ Inv s' (seen ++ c.ents.map (·.hash)) := by
  cases c with
  | ins t =>
    have ht := hc t (by simp [Chg.ents])
    refine ⟨⟨put s.out t.hash .blob, put s.next t.hash .blob⟩, by simp [stepChg, ht], allBlob_put hi.out _, allBlob_put hi.next _, ?_⟩
    intro h hh
    simp only [Chg.ents, List.map_cons, List.map_nil, List.mem_append, List.mem_singleton] at hh
    rw [get_put]
    split
    · rfl
    · rcases hh with hh | hh
      · exact hi.has h hh
      · rename_i hne; exact absurd hh.symm hne
  | del src =>
    cases hg : get prev src.hash with
    | some v =>
      have hv := get_allBlob hp hg
      subst hv
      refine ⟨⟨put s.out src.hash .blob, s.next⟩, by simp [stepChg, hg], allBlob_put hi.out _, hi.next, ?_⟩
      intro h hh
      simp only [Chg.ents, List.map_cons, List.map_nil, List.mem_append, List.mem_singleton] at hh
      simp only [get_put]
      split
      · rfl
      · rcases hh with hh | hh
        · exact hi.has h hh
        · rename_i hne; exact absurd hh.symm hne
    | none =>
      have hs := hc src (by simp [Chg.ents])
      have hnc : (src.present && src.corrupt) = false := by
        unfold getBlob at hs
        cases hp' : src.present <;> cases hc' : src.corrupt <;> simp [hp', hc'] at hs ⊢
      refine ⟨⟨put s.out src.hash .blob, s.next⟩, by simp [stepChg, hg, hnc], allBlob_put hi.out _, hi.next, ?_⟩
      intro h hh
      simp only [Chg.ents, List.map_cons, List.map_nil, List.mem_append, List.mem_singleton] at hh
      simp only [get_put]
      split
      · rfl
      · rcases hh with hh | hh
        · exact hi.has h hh
        · rename_i hne; exact absurd hh.symm hne
  | mod src to =>
    have ht := hc to (by simp [Chg.ents])
    have hs := hc src (by simp [Chg.ents])
    have hfin : ∀ (v : Slot), v = .blob →
        Inv ⟨put (put s.out to.hash .blob) src.hash v, put s.next to.hash .blob⟩
          (seen ++ [src.hash, to.hash]) := by
      intro v hv; subst hv
      refine ⟨allBlob_put (allBlob_put hi.out _) _, allBlob_put hi.next _, ?_⟩
      intro h hh
      simp only [List.mem_append, List.mem_cons, List.not_mem_nil, or_false] at hh
      simp only [get_put]
      split
      · rfl
      · split
        · rfl
        · rename_i h1 h2
          rcases hh with hh | hh | hh
          · exact hi.has h hh
          · exact absurd hh.symm h1
          · exact absurd hh.symm h2
    cases hg : get prev src.hash with
    | some v =>
      have hv := get_allBlob hp hg
      exact ⟨⟨put (put s.out to.hash .blob) src.hash v, put s.next to.hash .blob⟩, by simp [stepChg, hg, ht], by simpa [Chg.ents] using hfin v hv⟩
    | none =>
      exact ⟨⟨put (put s.out to.hash .blob) src.hash .blob, put s.next to.hash .blob⟩, by simp [stepChg, hg, ht, hs], by simpa [Chg.ents] using hfin .blob rfl⟩

/-- **C20 (blob availability)**: on a repository that has every referenced blob (submodule entries excepted),
    `Consume` succeeds, hands a real slot downstream for every blob a change refers to, and keeps only real
    slots for the next step. -/
theorem consume_healthy (prev : Cache) (hp : AllBlob prev) (chs : List Chg) (hh : Healthy chs) :
    ∃ st, consume prev chs = some st ∧ AllBlob st.next ∧
      ∀ c ∈ chs, ∀ e ∈ c.ents, get st.out e.hash = some .blob := by
  unfold consume
  suffices hs : ∀ (chs : List Chg) (s : St) (seen : List Nat), Inv s seen → Healthy chs →
      ∃ st, chs.foldlM (stepChg prev) s = some st ∧ Inv st (seen ++ chs.flatMap fun c => c.ents.map (·.hash)) by
    obtain ⟨st, h1, h2⟩ := hs chs ⟨[], []⟩ [] ⟨by intro p hp; simp at hp, by intro p hp; simp at hp, by simp⟩ hh
    refine ⟨st, h1, h2.next, ?_⟩
    intro c hc e he
    apply h2.has
    simp only [List.nil_append, List.mem_flatMap, List.mem_map]
    exact ⟨c, hc, e, he, rfl⟩
  intro chs
  induction chs with
  | nil => intro s seen hi _; exact ⟨s, rfl, by simpa using hi⟩
  | cons c chs ih =>
    intro s seen hi hh
    obtain ⟨s', h1, h2⟩ := step_healthy prev hp s seen hi c (hh c (by simp))
    obtain ⟨st, h3, h4⟩ := ih s' _ h2 (fun c' hc' => hh c' (by simp [hc']))
    refine ⟨st, by simp [List.foldlM_cons, h1, h3], ?_⟩
    simpa [List.flatMap_cons, List.append_assoc] using h4

end Bc
