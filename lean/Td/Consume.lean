import Td.Filter
/-! C20 on the stateful item: `TreeDiff.Consume` as compared with the real code (model `Td.consume`). -/
namespace Td

/-- **parent check**: a commit whose parents do not include the branch's previous commit is refused — and that is the
only refusal -/
theorem consume_refuses_iff (cfg : Cfg) (s : St) (commit : Nat) (parents : List Nat) (tree : List File) :
    (∃ e, consume cfg s commit parents tree = .error e) ↔ ∃ p, s.prevCommit = some p ∧ p ∉ parents := by
  unfold consume
  cases hp : s.prevCommit with
  | none => simp
  | some p =>
    by_cases hm : p ∈ parents
    · simp [hm]
    · simp [hm]

/-- the state after an accepted commit remembers exactly this commit and its tree -/
theorem consume_state (cfg : Cfg) (s s' : St) (commit : Nat) (parents : List Nat) (tree : List File) (chs : List Change)
    (h : consume cfg s commit parents tree = .ok (s', chs)) : s' = ⟨some tree, some commit⟩ := by
  unfold consume at h
  cases hp : s.prevCommit with
  | none => simp [hp] at h; exact h.1.symm
  | some p =>
    by_cases hm : p ∈ parents
    · simp [hp, hm] at h; exact h.1.symm
    · simp [hp, hm] at h

/-- **first commit of a branch**: every file that passes the filters is reported as an addition, and nothing else is
reported (submodule entries are not listed by `tree.Files()`: recorded finding D15) -/
theorem consume_first (cfg : Cfg) (commit : Nat) (parents : List Nat) (tree : List File) :
    consume cfg ⟨none, none⟩ commit parents tree =
      .ok (⟨some tree, some commit⟩,
           ((tree.filter fun f => !f.sub).map fun f => (⟨none, some f⟩ : Change)).filter (keep cfg)) := by
  simp [consume]

/-- **a later commit of a branch**: under a sane configuration the reported changes, applied to the filtered file set
of the branch's previous commit, give the filtered file set of this commit -/
theorem consume_step (cfg : Cfg) (vend rxm : String → Bool) (hs : Sane cfg) (prev tree : List File) (pc commit : Nat)
    (parents : List Nat) (hpar : pc ∈ parents)
    (hp : (prev.map (·.path)).Nodup) (hc : (tree.map (·.path)).Nodup)
    (hfp : Facts vend rxm prev) (hfc : Facts vend rxm tree) :
    ∃ chs, consume cfg ⟨some prev, some pc⟩ commit parents tree = .ok (⟨some tree, some commit⟩, chs) ∧
      ∀ p, after (prev.filter fun f => pass cfg vend rxm f.path) chs p =
        (find (tree.filter fun f => pass cfg vend rxm f.path) p).map hm := by
  refine ⟨(diffTree prev tree).filter (keep cfg), ?_, ?_⟩
  · simp [consume, hpar]
  · intro p
    exact filtered_applies cfg vend rxm hs prev tree hp hc hfp hfc p

/-- a branch: commits `(id, parents, tree)` replayed one after the other from a state -/
def replay (cfg : Cfg) : St → List (Nat × List Nat × List File) → Except String (List (List Change))
  | _, [] => .ok []
  | s, (c, ps, t) :: rest =>
    match consume cfg s c ps t with
    | .error e => .error e
    | .ok (s', chs) => match replay cfg s' rest with
      | .error e => .error e
      | .ok out => .ok (chs :: out)

/-- consecutive commits: each lists the one before it among its parents -/
def Chained : Nat → List (Nat × List Nat × List File) → Prop
  | _, [] => True
  | pc, (c, ps, _) :: rest => pc ∈ ps ∧ Chained c rest

/-- **C20 along a branch**: for consecutive commits replayed on a branch (each a child of the previous one) under a sane
configuration, every replay succeeds, and the changes reported for each commit turn the filtered file set of the
previous commit into the filtered file set of that commit -/
theorem replay_applies (cfg : Cfg) (vend rxm : String → Bool) (hs : Sane cfg) :
    ∀ (rest : List (Nat × List Nat × List File)) (prev : List File) (pc : Nat),
    Chained pc rest → (prev.map (·.path)).Nodup → Facts vend rxm prev →
    (∀ x ∈ rest, (x.2.2.map (·.path)).Nodup ∧ Facts vend rxm x.2.2) →
    ∃ out, replay cfg ⟨some prev, some pc⟩ rest = .ok out ∧ out.length = rest.length ∧
      ∀ i (hi : i < rest.length) (ho : i < out.length) (p : String),
        after (((if i = 0 then prev else (rest[i - 1]'(by omega)).2.2)).filter fun f => pass cfg vend rxm f.path) (out[i]'ho) p =
          (find ((rest[i]'hi).2.2.filter fun f => pass cfg vend rxm f.path) p).map hm := by
  intro rest
  induction rest with
  | nil => intro prev pc _ _ _ _; exact ⟨[], rfl, rfl, fun i hi => absurd hi (by simp)⟩
  | cons x rest ih =>
    obtain ⟨c, ps, t⟩ := x
    intro prev pc hch hpn hpf hall
    obtain ⟨hpar, hch'⟩ := hch
    obtain ⟨htn, htf⟩ := hall (c, ps, t) List.mem_cons_self
    obtain ⟨chs, hcons, happ⟩ := consume_step cfg vend rxm hs prev t pc c ps hpar hpn htn hpf htf
    obtain ⟨out, hrep, hlen, hall'⟩ := ih t c hch' htn htf (fun y hy => hall y (List.mem_cons_of_mem _ hy))
    refine ⟨chs :: out, ?_, by simp [hlen], ?_⟩
    · simp only [replay, hcons, hrep]
    · intro i hi ho p
      cases i with
      | zero => simpa using happ p
      | succ j =>
        have hj : j < rest.length := by simpa using hi
        have hoj : j < out.length := by simpa using ho
        have := hall' j hj hoj p
        simp only [List.getElem_cons_succ, Nat.add_sub_cancel, Nat.succ_ne_zero, if_false]
        cases j with
        | zero => simpa using this
        | succ k =>
          simp only [Nat.succ_ne_zero, if_false, Nat.add_sub_cancel] at this
          simpa using this

end Td
