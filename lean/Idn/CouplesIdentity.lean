import Idn.CouplesMergeSpec
import Idn.MergeIndex
/-! C18: the developer re-indexing of the couples merge follows the merged identity (connects `CmM.pidx` with the component
    theorems of `MergeReversedDictsIdentities`). -/
namespace CmM
open IdnM

theorem lookupFinal_of (idx : List (String × MI)) (k : String) (mi : MI) (h : lookupMI idx k = some mi) :
    lookupFinal idx k = mi.final := by
  unfold lookupFinal
  unfold lookupMI at h
  cases hf : idx.find? (·.1 = k) with
  | none => simp [hf] at h
  | some e => simp only [hf, Option.map_some, Option.some.injEq] at h; simp [h]

/-- two developers of the two inputs are added into the same merged row exactly when their identities are connected -/
theorem pmap_same_iff (r1 r2 : Res) (h1 : Disj r1.people) (h2 : Disj r2.people)
    (hne : ∀ a ∈ r1.people ++ r2.people, a ≠ [])
    (hj : ∀ a ∈ r1.people ++ r2.people, ∀ b ∈ r1.people ++ r2.people, join a = join b → a = b)
    (i j : Nat) (a b : Ident) (ha : r1.people[i]? = some a) (hb : r2.people[j]? = some b) :
    pmap1 r1 r2 i = pmap2 r1 r2 j ↔ ∀ p ∈ a, ∀ q ∈ b, Conn r1.people r2.people p q := by
  obtain ⟨ma, mb, hla, hlb, hiff⟩ := same_index_iff r1.people r2.people h1 h2 hne hj a b
    (List.mem_append_left _ (List.mem_of_getElem? ha)) (List.mem_append_right _ (List.mem_of_getElem? hb))
  have hi : i < r1.people.length := (List.getElem?_eq_some_iff.mp ha).1
  have hjl : j < r2.people.length := (List.getElem?_eq_some_iff.mp hb).1
  have ea : r1.people.getD i [] = a := by simp [List.getD, ha]
  have eb : r2.people.getD j [] = b := by simp [List.getD, hb]
  unfold pmap1 pmap2 pidx
  simp only [hi, hjl, if_true, ea, eb]
  rw [show "|".intercalate a = join a from rfl, show "|".intercalate b = join b from rfl,
    lookupFinal_of _ _ ma hla, lookupFinal_of _ _ mb hlb]
  exact hiff

/-- a developer's merged row is a real merged developer (below the unmatched-author row) and its walk holds the
developer's names and e-mails -/
theorem pmap1_walk (r1 r2 : Res) (h1 : Disj r1.people) (h2 : Disj r2.people)
    (hne : ∀ a ∈ r1.people ++ r2.people, a ≠ [])
    (hj : ∀ a ∈ r1.people ++ r2.people, ∀ b ∈ r1.people ++ r2.people, join a = join b → a = b)
    (i : Nat) (a : Ident) (ha : r1.people[i]? = some a) :
    ∃ w, (walks r1.people r2.people)[pmap1 r1 r2 i]? = some w ∧ ∀ p ∈ a, p ∈ w := by
  obtain ⟨hA, _⟩ := mergeDicts_index r1.people r2.people h1 h2 hne hj
  obtain ⟨mi, hl, _, hw⟩ := hA i a ha
  have hi : i < r1.people.length := (List.getElem?_eq_some_iff.mp ha).1
  have ea : r1.people.getD i [] = a := by simp [List.getD, ha]
  unfold pmap1 pidx
  simp only [hi, if_true, ea]
  rw [show "|".intercalate a = join a from rfl, lookupFinal_of _ _ mi hl]
  exact hw

end CmM
