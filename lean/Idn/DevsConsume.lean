import Idn.DevsSum
import Pl.OneShot
/-! C12: model of `DevsAnalysis.Consume` (leaves/devs.go) over a sequence of replays: the one-shot merge processor decides
    whether a replay is counted; a counted replay adds one commit to (tick, author), and — unless it is flagged as a
    merge — the line statistics of its files, in total and per language. -/
namespace DevsC
open DevsM

structure Cin where
  hash : Nat
  parents : Nat
  author : Nat
  tick : Nat
  nChanges : Nat
  mergeFlag : Bool
  stats : List (String × LS)      -- per changed file: detected language and line statistics
  deriving Repr

structure DSt where
  seen : List Nat
  ticks : Ticks
  deriving Repr

def sumLS (l : List (String × LS)) : LS := l.foldl (fun a kv => a.add kv.2) ⟨0, 0, 0⟩

/-- does this replay count? (one-shot for merge commits; empty commits only when configured) -/
def counts (ce : Bool) (seen : List Nat) (c : Cin) : Bool :=
  (OneShot.should seen c.hash c.parents).1 && !(c.nChanges = 0 && !ce)

def delta (c : Cin) : DT := if c.mergeFlag then ⟨1, ⟨0, 0, 0⟩, []⟩ else ⟨1, sumLS c.stats, c.stats⟩

def consume (ce : Bool) (s : DSt) (c : Cin) : DSt :=
  let r := OneShot.should s.seen c.hash c.parents
  if counts ce s.seen c then ⟨r.2, addInto s.ticks (c.tick, c.author) (delta c)⟩ else ⟨r.2, s.ticks⟩

def run (ce : Bool) (cs : List Cin) : DSt := cs.foldl (consume ce) ⟨[], []⟩

/-! ### every counted replay adds exactly its own contribution -/

def countedFrom (ce : Bool) : List Nat → List Cin → List Cin
  | _, [] => []
  | seen, c :: rest =>
    (if counts ce seen c then [c] else []) ++ countedFrom ce (OneShot.should seen c.hash c.parents).2 rest

theorem fold_sum (f : DT → Int) (hf : Additive f) (ce : Bool) : ∀ (cs : List Cin) (s : DSt), (Keys s.ticks).Nodup →
    sumF f (cs.foldl (consume ce) s).ticks = sumF f s.ticks + ((countedFrom ce s.seen cs).map fun c => f (delta c)).sum ∧
    (Keys (cs.foldl (consume ce) s).ticks).Nodup := by
  intro cs
  induction cs with
  | nil => intro s h; simp [countedFrom, h]
  | cons c cs ih =>
    intro s h
    simp only [List.foldl_cons, countedFrom]
    by_cases hc : counts ce s.seen c = true
    · have hstep : consume ce s c = ⟨(OneShot.should s.seen c.hash c.parents).2, addInto s.ticks (c.tick, c.author) (delta c)⟩ := by
        simp [consume, hc]
      obtain ⟨h1, h2⟩ := addInto_spec f hf s.ticks (c.tick, c.author) (delta c) h
      obtain ⟨i1, i2⟩ := ih (consume ce s c) (by rw [hstep]; exact h2)
      refine ⟨?_, i2⟩
      rw [i1, hstep]
      simp only [hc, if_true, List.cons_append, List.nil_append, List.map_cons, List.sum_cons]
      rw [h1]; omega
    · have hstep : consume ce s c = ⟨(OneShot.should s.seen c.hash c.parents).2, s.ticks⟩ := by
        simp [consume, hc]
      obtain ⟨i1, i2⟩ := ih (consume ce s c) (by rw [hstep]; exact h)
      refine ⟨?_, i2⟩
      rw [i1, hstep]
      simp [hc]

/-- **C12, attribution**: for every additive statistic (commits, added, removed, changed lines) the total over all
ticks and developers is the sum of the contributions of exactly the counted replays -/
theorem run_sum (f : DT → Int) (hf : Additive f) (ce : Bool) (cs : List Cin) :
    sumF f (run ce cs).ticks = ((countedFrom ce [] cs).map fun c => f (delta c)).sum := by
  have := (fold_sum f hf ce cs ⟨[], []⟩ (by simp [Keys])).1
  simpa [run, sumF] using this

/-- … in particular the number of commits attributed is the number of counted replays -/
theorem run_commits (ce : Bool) (cs : List Cin) :
    sumF (fun d => d.commits) (run ce cs).ticks = (countedFrom ce [] cs).length := by
  rw [run_sum _ additive_commits]
  have : ∀ l : List Cin, (l.map fun c => (delta c).commits).sum = (l.length : Int) := by
    intro l
    induction l with
    | nil => rfl
    | cons c l ih =>
      simp only [List.map_cons, List.sum_cons, List.length_cons, ih]
      have : (delta c).commits = 1 := by unfold delta; split <;> rfl
      rw [this]; omega
  exact this _

/-- **at most once**: however often a merge commit is replayed, at most one of its replays is counted (none if it was
counted before) -/
theorem counted_merge_once (ce : Bool) (h : Nat) : ∀ (cs : List Cin) (seen : List Nat),
    (∀ c ∈ cs, c.hash = h → 1 < c.parents) →
    ((countedFrom ce seen cs).filter (fun c => c.hash = h)).length ≤ (if h ∈ seen then 0 else 1) := by
  intro cs
  induction cs with
  | nil => intro seen _; simp [countedFrom]
  | cons c cs ih =>
    intro seen hp
    have hp' : ∀ c' ∈ cs, c'.hash = h → 1 < c'.parents := fun c' hc' => hp c' (List.mem_cons_of_mem _ hc')
    simp only [countedFrom, List.filter_append, List.length_append]
    by_cases hch : c.hash = h
    · subst hch
      have hpar : ¬ c.parents ≤ 1 := by have := hp c List.mem_cons_self rfl; omega
      by_cases hs : c.hash ∈ seen
      · have hshould : OneShot.should seen c.hash c.parents = (false, seen) := by
          simp [OneShot.should, hpar, hs]
        have := ih seen hp'
        simp only [counts, hshould, Bool.false_and, Bool.false_eq_true, if_false, List.filter_nil, List.length_nil, hs, if_true] at this ⊢
        omega
      · have hshould : OneShot.should seen c.hash c.parents = (true, c.hash :: seen) := by
          simp [OneShot.should, hpar, hs]
        have := ih (c.hash :: seen) hp'
        rw [hshould]
        simp only [List.mem_cons, true_or, if_true] at this
        simp only [hs, if_false]
        have hle : ((if counts ce seen c = true then [c] else []).filter (fun c' => decide (c'.hash = c.hash))).length ≤ 1 := by
          split <;> simp
        omega
    · have hfil : ((if counts ce seen c = true then [c] else []).filter (fun c => decide (c.hash = h))).length = 0 := by
        split <;> simp [List.filter_cons, hch]
      have hmem : (h ∈ (OneShot.should seen c.hash c.parents).2) ↔ h ∈ seen := by
        unfold OneShot.should
        split
        · rfl
        · split
          · rfl
          · simp only [List.mem_cons]
            constructor
            · rintro (e | e); exact absurd e.symm hch; exact e
            · intro e; exact Or.inr e
      have := ih (OneShot.should seen c.hash c.parents).2 hp'
      rw [hfil]
      by_cases hs : h ∈ seen
      · simp only [hmem.2 hs, if_true] at this; simp only [hs, if_true]; omega
      · have : ¬ h ∈ (OneShot.should seen c.hash c.parents).2 := fun e => hs (hmem.1 e)
        rename_i this0
        simp only [this, if_false] at this0; simp only [hs, if_false]; omega

/-! ### per-language figures sum to the totals -/

theorem LS.ext' {a b : LS} (h1 : a.added = b.added) (h2 : a.removed = b.removed) (h3 : a.changed = b.changed) : a = b := by
  cases a; cases b; simp_all

theorem LS.add_assoc (a b c : LS) : (a.add b).add c = a.add (b.add c) := by
  apply LS.ext' <;> simp [LS.add] <;> omega

theorem LS.add_comm (a b : LS) : a.add b = b.add a := by
  apply LS.ext' <;> simp [LS.add] <;> omega

theorem LS.zero_add (a : LS) : (⟨0, 0, 0⟩ : LS).add a = a := by
  apply LS.ext' <;> simp [LS.add]

theorem foldl_add_init (l : List (String × LS)) (init : LS) :
    l.foldl (fun (a : LS) (kv : String × LS) => a.add kv.2) init = init.add (sumLS l) := by
  unfold sumLS
  induction l generalizing init with
  | nil => apply LS.ext' <;> simp [LS.add]
  | cons x l ih =>
    simp only [List.foldl_cons]
    rw [ih, ih (LS.add ⟨0, 0, 0⟩ x.2), LS.zero_add, LS.add_assoc]

theorem sumLS_cons (x : String × LS) (l : List (String × LS)) : sumLS (x :: l) = x.2.add (sumLS l) := by
  show (x :: l).foldl (fun (a : LS) (kv : String × LS) => a.add kv.2) ⟨0, 0, 0⟩ = _
  simp only [List.foldl_cons]
  rw [foldl_add_init, LS.zero_add]

theorem sumLS_append (l1 l2 : List (String × LS)) : sumLS (l1 ++ l2) = (sumLS l1).add (sumLS l2) := by
  induction l1 with
  | nil => simp [sumLS, LS.zero_add]
  | cons x l ih => rw [List.cons_append, sumLS_cons, sumLS_cons, ih, LS.add_assoc]

/-- `Languages[k] += v` adds `v` to the per-language total and keeps the language keys distinct -/
theorem addLang_spec (m : List (String × LS)) (k : String) (v : LS) (hn : (m.map (·.1)).Nodup) :
    sumLS (addLang m k v) = (sumLS m).add v ∧ ((addLang m k v).map (·.1)).Nodup := by
  unfold addLang
  cases hf : m.find? (·.1 = k) with
  | none =>
    have hk : k ∉ m.map (·.1) := by
      intro hk
      obtain ⟨e, he, hek⟩ := List.mem_map.1 hk
      have := List.find?_eq_none.1 hf e he
      simp [hek] at this
    refine ⟨?_, ?_⟩
    · simp only []
      rw [sumLS_append]; simp [sumLS, LS.zero_add]
    · simp only [List.map_append, List.map_cons, List.map_nil]
      rw [List.nodup_append]
      exact ⟨hn, by simp, by intro a ha b hb; simp at hb; subst hb; intro e; subst e; exact hk ha⟩
  | some e0 =>
    have hk : k ∈ m.map (·.1) := by
      have h1 := List.mem_of_find?_eq_some hf
      have h2 : e0.1 = k := by simpa using List.find?_some hf
      exact List.mem_map.2 ⟨e0, h1, h2⟩
    simp only []
    clear hf
    induction m with
    | nil => simp at hk
    | cons x m ih =>
      simp only [List.map_cons, List.nodup_cons] at hn
      by_cases hx : x.1 = k
      · have hnot : k ∉ m.map (·.1) := by rw [← hx]; exact hn.1
        have hrest : m.map (fun (p : String × LS) => if p.1 = k then (p.1, p.2.add v) else (p.1, p.2)) = m := by
          calc m.map _ = m.map id := List.map_congr_left (fun p hp => by
                  have : p.1 ≠ k := fun e => hnot (List.mem_map.2 ⟨p, hp, e⟩)
                  simp [this])
            _ = m := List.map_id m
        refine ⟨?_, ?_⟩
        · simp only [List.map_cons, hx, if_true]
          rw [hrest, sumLS_cons, sumLS_cons]
          simp only []
          rw [LS.add_assoc, LS.add_comm v, ← LS.add_assoc]
        · simp only [List.map_cons, hx, if_true, hrest]
          exact List.nodup_cons.2 ⟨by rw [← hx] at hnot ⊢; exact hn.1, hn.2⟩
      · have hk' : k ∈ m.map (·.1) := by
          simp only [List.map_cons, List.mem_cons] at hk
          rcases hk with e | e
          · exact absurd e.symm hx
          · exact e
        obtain ⟨i1, i2⟩ := ih hn.2 hk'
        refine ⟨?_, ?_⟩
        · simp only [List.map_cons, hx, if_false]
          rw [sumLS_cons, sumLS_cons, i1, LS.add_assoc]
        · simp only [List.map_cons, hx, if_false]
          refine List.nodup_cons.2 ⟨?_, i2⟩
          intro hmem
          apply hn.1
          obtain ⟨p, hp, hpe⟩ := List.mem_map.1 hmem
          obtain ⟨q, hq, hqe⟩ := List.mem_map.1 hp
          refine List.mem_map.2 ⟨q, hq, ?_⟩
          rw [← hpe, ← hqe]
          split <;> rfl

theorem foldLang_spec (l : List (String × LS)) : ∀ (m : List (String × LS)), (m.map (·.1)).Nodup →
    sumLS (l.foldl (fun m (kv : String × LS) => addLang m kv.1 kv.2) m) = (sumLS m).add (sumLS l) ∧
    ((l.foldl (fun m (kv : String × LS) => addLang m kv.1 kv.2) m).map (·.1)).Nodup := by
  induction l with
  | nil => intro m hn; exact ⟨by simp [sumLS]; apply LS.ext' <;> simp [LS.add], hn⟩
  | cons x l ih =>
    intro m hn
    simp only [List.foldl_cons]
    obtain ⟨a1, a2⟩ := addLang_spec m x.1 x.2 hn
    obtain ⟨i1, i2⟩ := ih _ a2
    refine ⟨?_, i2⟩
    rw [i1, a1, sumLS_cons, LS.add_assoc]

/-- a record whose per-language figures add up to its totals, with distinct language keys -/
def LangOK (d : DT) : Prop := sumLS d.langs = d.ls ∧ (d.langs.map (·.1)).Nodup

theorem langOK_add (a b : DT) (ha : LangOK a) (hb : sumLS b.langs = b.ls) : LangOK (a.add b) := by
  obtain ⟨f1, f2⟩ := foldLang_spec b.langs a.langs ha.2
  refine ⟨?_, ?_⟩
  · show sumLS (b.langs.foldl (fun m (x : String × LS) => addLang m x.1 x.2) a.langs) = a.ls.add b.ls
    rw [f1, ha.1, hb]
  · exact f2

theorem delta_ok (c : Cin) : sumLS (delta c).langs = (delta c).ls := by
  unfold delta; split <;> rfl

theorem addInto_langOK (m : Ticks) (k : Nat × Nat) (s : DT) (hm : ∀ e ∈ m, LangOK e.2) (hs : sumLS s.langs = s.ls) :
    ∀ e ∈ addInto m k s, LangOK e.2 := by
  unfold addInto
  split
  · intro e he
    obtain ⟨x, hx, rfl⟩ := List.mem_map.1 he
    by_cases hxk : x.1 = k
    · simp only [hxk, if_true]; exact langOK_add _ _ (hm x hx) hs
    · simp only [hxk, if_false]; exact hm x hx
  · intro e he
    rcases List.mem_append.1 he with he | he
    · exact hm e he
    · simp only [List.mem_singleton] at he; subst he
      exact langOK_add _ _ ⟨rfl, by simp⟩ hs

/-- **C12, languages**: after any sequence of replays, in every (tick, developer) record the per-language figures sum to
the record's totals -/
theorem run_langs (ce : Bool) (cs : List Cin) : ∀ e ∈ (run ce cs).ticks, LangOK e.2 := by
  unfold run
  suffices ∀ (s : DSt), (∀ e ∈ s.ticks, LangOK e.2) → ∀ e ∈ (cs.foldl (consume ce) s).ticks, LangOK e.2 from
    this ⟨[], []⟩ (by simp)
  induction cs with
  | nil => intro s h; exact h
  | cons c cs ih =>
    intro s h
    simp only [List.foldl_cons]
    apply ih
    unfold consume
    split
    · exact addInto_langOK _ _ _ h (delta_ok c)
    · exact h

end DevsC
