import Idn.Merge
/-! C16 (second half): `MergeReversedDictsIdentities` groups tokens (names and e-mails) exactly by the connected components
    of the shares-an-identity relation.

  Premise `Disj rd` for both input lists: two different entries of one list have no token in common — what
  `GeneratePeopleDict` guarantees for a `ReversedPeopleDict` (every name or e-mail belongs to one developer).  Without it
  `vocabulary[p]` keeps only the last entry containing `p` and components can be split (known finding D9). -/
namespace IdnM

/-- two tokens appear in one input identity -/
def Adj (rd1 rd2 : List Ident) (p q : String) : Prop := ∃ id ∈ rd1 ++ rd2, p ∈ id ∧ q ∈ id

inductive Conn (rd1 rd2 : List Ident) : String → String → Prop
  | refl (p : String) : Conn rd1 rd2 p p
  | step {p q r : String} : Conn rd1 rd2 p q → Adj rd1 rd2 q r → Conn rd1 rd2 p r

theorem Adj.symm {rd1 rd2 p q} (h : Adj rd1 rd2 p q) : Adj rd1 rd2 q p := by
  obtain ⟨id, hid, hp, hq⟩ := h; exact ⟨id, hid, hq, hp⟩

theorem Conn.trans {rd1 rd2 p q r} (h1 : Conn rd1 rd2 p q) (h2 : Conn rd1 rd2 q r) : Conn rd1 rd2 p r := by
  induction h2 with
  | refl => exact h1
  | step _ ha ih => exact Conn.step ih ha

theorem Conn.single {rd1 rd2 p q} (h : Adj rd1 rd2 p q) : Conn rd1 rd2 p q := Conn.step (Conn.refl p) h

theorem Conn.symm {rd1 rd2 p q} (h : Conn rd1 rd2 p q) : Conn rd1 rd2 q p := by
  induction h with
  | refl => exact Conn.refl _
  | step _ ha ih => exact Conn.trans (Conn.single ha.symm) ih

/-- entries of one list are pairwise token-disjoint -/
def Disj (rd : List Ident) : Prop :=
  ∀ (i j : Nat) (a b : Ident), rd[i]? = some a → rd[j]? = some b → ∀ p, p ∈ a → p ∈ b → i = j

theorem lastIdx_some {rd : List Ident} {p : String} {i : Nat} (h : lastIdx rd p = some i) :
    ∃ a, rd[i]? = some a ∧ p ∈ a := by
  unfold lastIdx at h
  cases hl : (rd.zipIdx.filter (fun (parts, _) => parts.contains p)).getLast? with
  | none => rw [hl] at h; simp at h
  | some x =>
    rw [hl] at h
    simp only [Option.map_some, Option.some.injEq] at h
    have hm := List.mem_of_getLast? hl
    rw [List.mem_filter] at hm
    obtain ⟨hz, hc⟩ := hm
    rw [List.mem_zipIdx_iff_getElem?] at hz
    refine ⟨x.1, ?_, ?_⟩
    · rw [← h]; exact hz
    · simpa using hc

theorem lastIdx_of_mem {rd : List Ident} (hd : Disj rd) {p : String} {a : Ident} {i : Nat}
    (ha : rd[i]? = some a) (hp : p ∈ a) : lastIdx rd p = some i := by
  cases hl : lastIdx rd p with
  | none =>
    unfold lastIdx at hl
    simp only [Option.map_eq_none_iff, List.getLast?_eq_none_iff] at hl
    have : (a, i) ∈ rd.zipIdx.filter (fun (parts, _) => parts.contains p) := by
      rw [List.mem_filter, List.mem_zipIdx_iff_getElem?]
      exact ⟨ha, by simpa using hp⟩
    rw [hl] at this; simp at this
  | some j =>
    obtain ⟨b, hb, hpb⟩ := lastIdx_some hl
    rw [hd i j a b ha hb p hp hpb]

/-! ### addNew -/

theorem addNew_spec (w ps : List String) :
    (∃ t, addNew w ps = w ++ t) ∧ (∀ x, x ∈ addNew w ps ↔ x ∈ w ∨ x ∈ ps) ∧ (w.Nodup → (addNew w ps).Nodup) := by
  unfold addNew
  induction ps generalizing w with
  | nil => exact ⟨⟨[], by simp⟩, by simp, fun h => by simpa using h⟩
  | cons p ps ih =>
    simp only [List.foldl_cons]
    by_cases hc : w.contains p = true
    · simp only [hc, if_true]
      obtain ⟨⟨t, ht⟩, hm, hn⟩ := ih w
      refine ⟨⟨t, ht⟩, ?_, hn⟩
      intro x; rw [hm x]
      have : p ∈ w := by simpa using hc
      constructor
      · rintro (h | h); exact Or.inl h; exact Or.inr (List.mem_cons_of_mem _ h)
      · rintro (h | h); exact Or.inl h
        rcases List.mem_cons.mp h with rfl | h; exact Or.inl this; exact Or.inr h
    · simp only [hc, Bool.false_eq_true, ↓reduceIte]
      obtain ⟨⟨t, ht⟩, hm, hn⟩ := ih (w ++ [p])
      have hnp : p ∉ w := by simpa using hc
      refine ⟨⟨p :: t, by simpa using ht⟩, ?_, ?_⟩
      · intro x; rw [hm x]; simp only [List.mem_append, List.mem_singleton, List.mem_cons, List.not_mem_nil, or_false]
        constructor
        · rintro ((h | h) | h); exact Or.inl h; exact Or.inr (Or.inl h); exact Or.inr (Or.inr h)
        · rintro (h | h | h); exact Or.inl (Or.inl h); exact Or.inl (Or.inr h); exact Or.inr h
      · intro hw; apply hn
        rw [List.nodup_append]
        exact ⟨hw, by simp, by intro a ha b hb; simp at hb; subst hb; intro h; subst h; exact hnp ha⟩

/-! ### expand -/

/-- tokens of the entry `vocabulary[e]` points to in `rd` -/
def nb (rd : List Ident) (e : String) : List String :=
  match lastIdx rd e with | some i => rd.getD i [] | none => []

def stepE (rd1 rd2 : List Ident) (acc : List String) (e : String) : List String :=
  addNew (addNew acc (nb rd1 e)) (nb rd2 e)

theorem addNew_nil (w : List String) : addNew w [] = w := rfl

theorem expand_eq (rd1 rd2 : List Ident) (w : List String) : expand rd1 rd2 w = w.foldl (stepE rd1 rd2) w := by
  unfold expand
  congr 1
  funext acc e
  unfold stepE nb
  cases lastIdx rd1 e <;> cases lastIdx rd2 e <;> simp [addNew_nil]

theorem foldStep_spec (rd1 rd2 : List Ident) (es acc : List String) :
    (∃ t, es.foldl (stepE rd1 rd2) acc = acc ++ t) ∧
    (∀ x, x ∈ es.foldl (stepE rd1 rd2) acc ↔ x ∈ acc ∨ ∃ e ∈ es, x ∈ nb rd1 e ∨ x ∈ nb rd2 e) ∧
    (acc.Nodup → (es.foldl (stepE rd1 rd2) acc).Nodup) := by
  induction es generalizing acc with
  | nil => exact ⟨⟨[], by simp⟩, by simp, fun h => by simpa using h⟩
  | cons e es ih =>
    simp only [List.foldl_cons]
    obtain ⟨⟨t, ht⟩, hm, hn⟩ := ih (stepE rd1 rd2 acc e)
    obtain ⟨⟨t1, ht1⟩, hm1, hn1⟩ := addNew_spec acc (nb rd1 e)
    obtain ⟨⟨t2, ht2⟩, hm2, hn2⟩ := addNew_spec (addNew acc (nb rd1 e)) (nb rd2 e)
    refine ⟨⟨t1 ++ t2 ++ t, ?_⟩, ?_, ?_⟩
    · rw [ht]; unfold stepE; rw [ht2, ht1]; simp
    · intro x; rw [hm x]; unfold stepE; rw [hm2 x, hm1 x]
      constructor
      · rintro (((h | h) | h) | ⟨e', he', h⟩)
        · exact Or.inl h
        · exact Or.inr ⟨e, List.mem_cons_self, Or.inl h⟩
        · exact Or.inr ⟨e, List.mem_cons_self, Or.inr h⟩
        · exact Or.inr ⟨e', List.mem_cons_of_mem _ he', h⟩
      · rintro (h | ⟨e', he', h⟩)
        · exact Or.inl (Or.inl (Or.inl h))
        · rcases List.mem_cons.mp he' with rfl | he'
          · rcases h with h | h
            · exact Or.inl (Or.inl (Or.inr h))
            · exact Or.inl (Or.inr h)
          · exact Or.inr ⟨e', he', h⟩
    · intro h; exact hn (hn2 (hn1 h))

theorem expand_spec (rd1 rd2 : List Ident) (w : List String) :
    (∃ t, expand rd1 rd2 w = w ++ t) ∧
    (∀ x, x ∈ expand rd1 rd2 w ↔ x ∈ w ∨ ∃ e ∈ w, x ∈ nb rd1 e ∨ x ∈ nb rd2 e) ∧
    (w.Nodup → (expand rd1 rd2 w).Nodup) := by
  rw [expand_eq]; exact foldStep_spec rd1 rd2 w w

/-- a neighbour really shares an identity -/
theorem nb_adj1 {rd1 rd2 : List Ident} {e x : String} (h : x ∈ nb rd1 e) : Adj rd1 rd2 e x := by
  unfold nb at h
  cases hl : lastIdx rd1 e with
  | none => simp [hl] at h
  | some i =>
    simp only [hl] at h
    obtain ⟨a, ha, hea⟩ := lastIdx_some hl
    have : rd1.getD i [] = a := by simp [List.getD, ha]
    rw [this] at h
    exact ⟨a, List.mem_append_left _ (List.mem_of_getElem? ha), hea, h⟩

theorem nb_adj2 {rd1 rd2 : List Ident} {e x : String} (h : x ∈ nb rd2 e) : Adj rd1 rd2 e x := by
  unfold nb at h
  cases hl : lastIdx rd2 e with
  | none => simp [hl] at h
  | some i =>
    simp only [hl] at h
    obtain ⟨a, ha, hea⟩ := lastIdx_some hl
    have : rd2.getD i [] = a := by simp [List.getD, ha]
    rw [this] at h
    exact ⟨a, List.mem_append_right _ (List.mem_of_getElem? ha), hea, h⟩

/-- under disjointness every token sharing an identity is a neighbour -/
theorem adj_nb {rd1 rd2 : List Ident} (h1 : Disj rd1) (h2 : Disj rd2) {e x : String} (h : Adj rd1 rd2 e x) :
    x ∈ nb rd1 e ∨ x ∈ nb rd2 e := by
  obtain ⟨a, ha, hea, hxa⟩ := h
  rcases List.mem_append.mp ha with ha | ha
  · left
    obtain ⟨i, hi⟩ := List.getElem?_of_mem ha
    unfold nb; rw [lastIdx_of_mem h1 hi hea]; simp [List.getD, hi, hxa]
  · right
    obtain ⟨i, hi⟩ := List.getElem?_of_mem ha
    unfold nb; rw [lastIdx_of_mem h2 hi hea]; simp [List.getD, hi, hxa]

/-! ### closure -/

theorem closure_inv (rd1 rd2 : List Ident) (P : List String → Prop) (hP : ∀ w, P w → P (expand rd1 rd2 w)) :
    ∀ fuel w, P w → P (closure rd1 rd2 fuel w) := by
  intro fuel
  induction fuel with
  | zero => intro w h; exact h
  | succ n ih =>
    intro w h
    simp only [closure]
    split
    · exact h
    · exact ih _ (hP w h)

theorem closure_ext (rd1 rd2 : List Ident) : ∀ fuel w, ∃ t, closure rd1 rd2 fuel w = w ++ t := by
  intro fuel
  induction fuel with
  | zero => intro w; exact ⟨[], by simp [closure]⟩
  | succ n ih =>
    intro w
    simp only [closure]
    split
    · exact ⟨[], by simp⟩
    · obtain ⟨t, ht⟩ := ih (expand rd1 rd2 w)
      obtain ⟨⟨t1, ht1⟩, _, _⟩ := expand_spec rd1 rd2 w
      exact ⟨t1 ++ t, by rw [ht, ht1]; simp⟩

def vocab (rd1 rd2 : List Ident) : List String := (rd1 ++ rd2).flatten

theorem nb_vocab {rd1 rd2 : List Ident} {e x : String} (h : x ∈ nb rd1 e ∨ x ∈ nb rd2 e) : x ∈ vocab rd1 rd2 := by
  have ha : Adj rd1 rd2 e x := by rcases h with h | h; exact nb_adj1 h; exact nb_adj2 h
  obtain ⟨a, ha, _, hx⟩ := ha
  exact List.mem_flatten.mpr ⟨a, ha, hx⟩

theorem expand_sub {rd1 rd2 : List Ident} {w : List String} (h : ∀ x ∈ w, x ∈ vocab rd1 rd2) :
    ∀ x ∈ expand rd1 rd2 w, x ∈ vocab rd1 rd2 := by
  intro x hx
  rcases ((expand_spec rd1 rd2 w).2.1 x).mp hx with hx | ⟨e, _, hx⟩
  · exact h x hx
  · exact nb_vocab hx

/-- with enough fuel the result is a fixed point of `expand` -/
theorem closure_fix (rd1 rd2 : List Ident) : ∀ fuel w, w.Nodup → (∀ x ∈ w, x ∈ vocab rd1 rd2) →
    (vocab rd1 rd2).length < w.length + fuel →
    expand rd1 rd2 (closure rd1 rd2 fuel w) = closure rd1 rd2 fuel w := by
  intro fuel
  induction fuel with
  | zero =>
    intro w hn hs hl
    have := List.Nodup.length_le_of_subset hn hs
    omega
  | succ n ih =>
    intro w hn hs hl
    simp only [closure]
    obtain ⟨⟨t, ht⟩, _, hnd⟩ := expand_spec rd1 rd2 w
    split
    · rename_i heq
      rw [ht] at heq
      have : t = [] := by
        have : t.length = 0 := by rw [List.length_append] at heq; omega
        exact List.length_eq_zero_iff.mp this
      rw [ht, this]; simp
    · rename_i hne
      apply ih _ (hnd hn) (expand_sub hs)
      have : (expand rd1 rd2 w).length > w.length := by
        rw [ht] at hne ⊢; rw [List.length_append] at hne ⊢; omega
      omega

theorem fuel_eq (l : List Ident) (k : Nat) : l.foldl (fun n p => n + p.length) k = k + l.flatten.length := by
  induction l generalizing k with
  | nil => simp
  | cons a l ih => simp only [List.foldl_cons, ih, List.flatten_cons, List.length_append]; omega

/-- the walk started from `root`, as a property bundle -/
theorem walk_spec (rd1 rd2 : List Ident) (h1 : Disj rd1) (h2 : Disj rd2) (root : Ident) (hr : root ∈ rd1 ++ rd2) :
    let w := closure rd1 rd2 ((rd1 ++ rd2).foldl (fun n p => n + p.length) 1) (addNew [] root)
    w.Nodup ∧ (∀ p ∈ root, p ∈ w) ∧ (∀ x ∈ w, ∃ r ∈ root, Conn rd1 rd2 r x) ∧
    (∀ p ∈ w, ∀ q, Adj rd1 rd2 p q → q ∈ w) := by
  intro w
  obtain ⟨_, hm0, hn0⟩ := addNew_spec [] root
  have hn0 : (addNew [] root).Nodup := hn0 (by simp)
  have hs0 : ∀ x ∈ addNew [] root, x ∈ vocab rd1 rd2 := by
    intro x hx
    have := (hm0 x).mp hx
    simp at this
    exact List.mem_flatten.mpr ⟨root, hr, this⟩
  refine ⟨?_, ?_, ?_, ?_⟩
  · exact closure_inv rd1 rd2 List.Nodup (fun w h => (expand_spec rd1 rd2 w).2.2 h) _ _ hn0
  · intro p hp
    obtain ⟨t, ht⟩ := closure_ext rd1 rd2 ((rd1 ++ rd2).foldl (fun n p => n + p.length) 1) (addNew [] root)
    show p ∈ closure _ _ _ _
    rw [ht]; exact List.mem_append_left _ ((hm0 p).mpr (Or.inr hp))
  · apply closure_inv rd1 rd2 (fun w => ∀ x ∈ w, ∃ r ∈ root, Conn rd1 rd2 r x)
    · intro w hw x hx
      rcases ((expand_spec rd1 rd2 w).2.1 x).mp hx with hx | ⟨e, he, hx⟩
      · exact hw x hx
      · obtain ⟨r, hr', hc⟩ := hw e he
        refine ⟨r, hr', Conn.step hc ?_⟩
        rcases hx with hx | hx; exact nb_adj1 hx; exact nb_adj2 hx
    · intro x hx
      have := (hm0 x).mp hx
      simp at this
      exact ⟨x, this, Conn.refl x⟩
  · intro p hp q hq
    have hfix := closure_fix rd1 rd2 ((rd1 ++ rd2).foldl (fun n p => n + p.length) 1) (addNew [] root) hn0 hs0
      (by rw [fuel_eq]; unfold vocab; omega)
    show q ∈ closure _ _ _ _
    rw [← hfix]
    exact ((expand_spec rd1 rd2 _).2.1 q).mpr (Or.inr ⟨p, hp, adj_nb h1 h2 hq⟩)

/-! ### the sequence of walks -/

theorem closed_conn {rd1 rd2 : List Ident} {w : List String} (hc : ∀ p ∈ w, ∀ q, Adj rd1 rd2 p q → q ∈ w)
    {p q : String} (hp : p ∈ w) (h : Conn rd1 rd2 p q) : q ∈ w := by
  induction h with
  | refl => exact hp
  | step _ ha ih => exact hc _ ih _ ha

def fuelOf (rd1 rd2 : List Ident) : Nat := (rd1 ++ rd2).foldl (fun n p => n + p.length) 1

def wstep (rd1 rd2 : List Ident) (acc : List (List String) × List String) (root : Ident) :
    List (List String) × List String :=
  if root.any acc.2.contains then acc else
    let w := closure rd1 rd2 (fuelOf rd1 rd2) (addNew [] root)
    (acc.1 ++ [w.mergeSort (fun a b => idLess a b || a == b)], acc.2 ++ w)

theorem walks_eq (rd1 rd2 : List Ident) : walks rd1 rd2 = ((rd1 ++ rd2).foldl (wstep rd1 rd2) ([], [])).1 := rfl

structure WInv (rd1 rd2 : List Ident) (acc : List (List String) × List String) (done : List Ident) : Prop where
  vis : ∀ x, x ∈ acc.2 ↔ ∃ w ∈ acc.1, x ∈ w
  closed : ∀ w ∈ acc.1, ∀ p ∈ w, ∀ q, Adj rd1 rd2 p q → q ∈ w
  sound : ∀ w ∈ acc.1, ∀ p ∈ w, ∀ q ∈ w, Conn rd1 rd2 p q
  disj : acc.1.Pairwise (fun a b => ∀ x ∈ a, x ∉ b)
  cover : ∀ root ∈ done, ∀ p ∈ root, p ∈ acc.2
  nodup : ∀ w ∈ acc.1, w.Nodup

theorem wstep_inv (rd1 rd2 : List Ident) (h1 : Disj rd1) (h2 : Disj rd2) (acc) (done : List Ident) (root : Ident)
    (hr : root ∈ rd1 ++ rd2) (hI : WInv rd1 rd2 acc done) : WInv rd1 rd2 (wstep rd1 rd2 acc root) (done ++ [root]) := by
  unfold wstep
  by_cases hany : root.any acc.2.contains = true
  · simp only [hany, if_true]
    refine ⟨hI.vis, hI.closed, hI.sound, hI.disj, ?_, hI.nodup⟩
    intro r hrm p hp
    rcases List.mem_append.mp hrm with hrm | hrm
    · exact hI.cover r hrm p hp
    · simp only [List.mem_singleton] at hrm; subst hrm
      simp only [List.any_eq_true, List.contains_iff_mem] at hany
      obtain ⟨x, hxr, hxv⟩ := hany
      obtain ⟨w, hw, hxw⟩ := (hI.vis x).mp hxv
      exact (hI.vis p).mpr ⟨w, hw, hI.closed w hw x hxw p ⟨r, hr, hxr, hp⟩⟩
  · simp only [hany, Bool.false_eq_true, if_false]
    obtain ⟨wn, wroot, wsound, wclosed⟩ := walk_spec rd1 rd2 h1 h2 root hr
    change (closure rd1 rd2 (fuelOf rd1 rd2) (addNew [] root)).Nodup at wn
    change ∀ p ∈ root, p ∈ closure rd1 rd2 (fuelOf rd1 rd2) (addNew [] root) at wroot
    change ∀ x ∈ closure rd1 rd2 (fuelOf rd1 rd2) (addNew [] root), ∃ r ∈ root, Conn rd1 rd2 r x at wsound
    change ∀ p ∈ closure rd1 rd2 (fuelOf rd1 rd2) (addNew [] root), ∀ q, Adj rd1 rd2 p q → q ∈ closure rd1 rd2 (fuelOf rd1 rd2) (addNew [] root) at wclosed
    generalize closure rd1 rd2 (fuelOf rd1 rd2) (addNew [] root) = w at *
    have hnv : ∀ r ∈ root, r ∉ acc.2 := by
      intro r hr' hv
      apply hany
      simp only [List.any_eq_true, List.contains_iff_mem]
      exact ⟨r, hr', hv⟩
    have wconn : ∀ p ∈ w, ∀ q ∈ w, Conn rd1 rd2 p q := by
      intro p hp q hq
      obtain ⟨r1, hr1, c1⟩ := wsound p hp
      obtain ⟨r2, hr2, c2⟩ := wsound q hq
      exact Conn.trans c1.symm (Conn.trans (Conn.single ⟨root, hr, hr1, hr2⟩) c2)
    refine ⟨?_, ?_, ?_, ?_, ?_, ?_⟩
    · intro x
      simp only [List.mem_append, List.mem_singleton]
      constructor
      · rintro (h | h)
        · obtain ⟨w', hw', hx⟩ := (hI.vis x).mp h; exact ⟨w', Or.inl hw', hx⟩
        · exact ⟨_, Or.inr rfl, List.mem_mergeSort.mpr h⟩
      · rintro ⟨w', hw' | hw', hx⟩
        · exact Or.inl ((hI.vis x).mpr ⟨w', hw', hx⟩)
        · subst hw'; exact Or.inr (List.mem_mergeSort.mp hx)
    · intro w' hw' p hp q hq
      rcases List.mem_append.mp hw' with hw' | hw'
      · exact hI.closed w' hw' p hp q hq
      · simp only [List.mem_singleton] at hw'; subst hw'
        exact List.mem_mergeSort.mpr (wclosed p (List.mem_mergeSort.mp hp) q hq)
    · intro w' hw' p hp q hq
      rcases List.mem_append.mp hw' with hw' | hw'
      · exact hI.sound w' hw' p hp q hq
      · simp only [List.mem_singleton] at hw'; subst hw'
        exact wconn p (List.mem_mergeSort.mp hp) q (List.mem_mergeSort.mp hq)
    · rw [List.pairwise_append]
      refine ⟨hI.disj, by simp, ?_⟩
      intro a ha b hb x hxa hxb
      simp only [List.mem_singleton] at hb; subst hb
      have hxw := List.mem_mergeSort.mp hxb
      obtain ⟨r, hr', c⟩ := wsound x hxw
      have : r ∈ a := closed_conn (hI.closed a ha) hxa c.symm
      exact hnv r hr' ((hI.vis r).mpr ⟨a, ha, this⟩)
    · intro r hrm p hp
      rcases List.mem_append.mp hrm with hrm | hrm
      · exact List.mem_append_left _ (hI.cover r hrm p hp)
      · simp only [List.mem_singleton] at hrm; subst hrm
        exact List.mem_append_right _ (wroot p hp)
    · intro w' hw'
      rcases List.mem_append.mp hw' with hw' | hw'
      · exact hI.nodup w' hw'
      · simp only [List.mem_singleton] at hw'; subst hw'
        exact (List.mergeSort_perm _ _).nodup_iff.mpr wn

theorem wfold_inv (rd1 rd2 : List Ident) (h1 : Disj rd1) (h2 : Disj rd2) (roots : List Ident)
    (hr : ∀ r ∈ roots, r ∈ rd1 ++ rd2) : ∀ acc done, WInv rd1 rd2 acc done →
    WInv rd1 rd2 (roots.foldl (wstep rd1 rd2) acc) (done ++ roots) := by
  induction roots with
  | nil => intro acc done h; simpa using h
  | cons r roots ih =>
    intro acc done h
    simp only [List.foldl_cons]
    have := ih (fun x hx => hr x (List.mem_cons_of_mem _ hx)) _ _
      (wstep_inv rd1 rd2 h1 h2 acc done r (hr r List.mem_cons_self) h)
    simpa using this

/-- **C16, merge half**: for input lists whose entries are pairwise token-disjoint, the walks of
`MergeReversedDictsIdentities` are exactly the connected components of the shares-an-identity relation:
every token of every input identity lies in a walk, all tokens of one identity in the same walk, different walks
share no token, no walk lists a token twice, and two tokens lie in the same walk exactly when they are connected. -/
theorem walks_components (rd1 rd2 : List Ident) (h1 : Disj rd1) (h2 : Disj rd2) :
    (∀ id ∈ rd1 ++ rd2, id ≠ [] → ∃ w ∈ walks rd1 rd2, ∀ p ∈ id, p ∈ w) ∧
    (walks rd1 rd2).Pairwise (fun a b => ∀ x ∈ a, x ∉ b) ∧
    (∀ w ∈ walks rd1 rd2, w.Nodup) ∧
    (∀ w ∈ walks rd1 rd2, ∀ p ∈ w, ∀ q, q ∈ w ↔ Conn rd1 rd2 p q) := by
  have hI := wfold_inv rd1 rd2 h1 h2 (rd1 ++ rd2) (fun _ h => h) ([], []) []
    ⟨by simp, by simp, by simp, by simp, by simp, by simp⟩
  rw [walks_eq]
  generalize (rd1 ++ rd2).foldl (wstep rd1 rd2) ([], []) = acc at hI
  refine ⟨?_, hI.disj, hI.nodup, ?_⟩
  · intro id hid hne
    obtain ⟨p0, hp0⟩ := List.exists_mem_of_ne_nil id hne
    have hv := hI.cover id (by simpa using hid) p0 hp0
    obtain ⟨w, hw, hpw⟩ := (hI.vis p0).mp hv
    exact ⟨w, hw, fun p hp => hI.closed w hw p0 hpw p ⟨id, hid, hp0, hp⟩⟩
  · intro w hw p hp q
    exact ⟨fun hq => hI.sound w hw p hp q hq, fun hc => closed_conn (hI.closed w hw) hp hc⟩

end IdnM
