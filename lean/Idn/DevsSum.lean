import Idn.Devs
namespace DevsM

/-- a statistic that is additive over `DT.add` -/
structure Additive (f : DT → Int) : Prop where
  add : ∀ a b, f (a.add b) = f a + f b
  zero : f ⟨0, ⟨0, 0, 0⟩, []⟩ = 0

def sumF (f : DT → Int) (m : Ticks) : Int := (m.map fun e => f e.2).sum

def Keys (m : Ticks) : List (Nat × Nat) := m.map (·.1)

theorem find_none_of_not_mem (m : Ticks) (k : Nat × Nat) (h : k ∉ Keys m) : m.find? (·.1 = k) = none := by
  rw [List.find?_eq_none]
  intro e he
  simp only [decide_eq_true_eq]
  intro hk
  exact h (by rw [← hk]; exact List.mem_map_of_mem he)

theorem upd_keys (m : Ticks) (k : Nat × Nat) (s : DT) :
    Keys (m.map fun (k', v') => if k' = k then (k', v'.add s) else (k', v')) = Keys m := by
  unfold Keys
  rw [List.map_map]
  apply List.map_congr_left
  intro e _
  obtain ⟨k', v'⟩ := e
  simp only [Function.comp]
  split <;> rfl

theorem upd_not_mem (m : Ticks) (k : Nat × Nat) (s : DT) (h : k ∉ Keys m) :
    (m.map fun (k', v') => if k' = k then (k', v'.add s) else (k', v')) = m := by
  induction m with
  | nil => rfl
  | cons e m ih =>
    obtain ⟨k', v'⟩ := e
    simp only [Keys, List.map_cons, List.mem_cons, not_or] at h
    simp only [List.map_cons]
    have hne : ¬ k' = k := fun e => h.1 e.symm
    rw [if_neg hne, ih h.2]

theorem sumF_upd (f : DT → Int) (hf : Additive f) (m : Ticks) (k : Nat × Nat) (s : DT)
    (hn : (Keys m).Nodup) (hk : k ∈ Keys m) :
    sumF f (m.map fun (k', v') => if k' = k then (k', v'.add s) else (k', v')) = sumF f m + f s := by
  induction m with
  | nil => simp [Keys] at hk
  | cons e m ih =>
    obtain ⟨k', v'⟩ := e
    simp only [Keys, List.map_cons, List.nodup_cons] at hn
    simp only [Keys, List.map_cons, List.mem_cons] at hk
    simp only [List.map_cons, sumF, List.sum_cons]
    by_cases hkk : k' = k
    · subst hkk
      rw [if_pos rfl]
      have := upd_not_mem m k' s hn.1
      rw [this]
      simp only [hf.add]; omega
    · rw [if_neg hkk]
      have hk' : k ∈ Keys m := by
        rcases hk with h | h
        · exact absurd h.symm hkk
        · exact h
      have := ih hn.2 hk'
      simp only [sumF] at this
      rw [this]; simp only []; omega

theorem addInto_spec (f : DT → Int) (hf : Additive f) (m : Ticks) (k : Nat × Nat) (s : DT) (hn : (Keys m).Nodup) :
    sumF f (addInto m k s) = sumF f m + f s ∧ (Keys (addInto m k s)).Nodup := by
  unfold addInto
  cases hfind : m.find? (·.1 = k) with
  | some e =>
    have hk : k ∈ Keys m := by
      have h1 := List.mem_of_find?_eq_some hfind
      have h2 := List.find?_some hfind
      simp only [decide_eq_true_eq] at h2
      rw [← h2]; exact List.mem_map_of_mem h1
    exact ⟨sumF_upd f hf m k s hn hk, by rw [upd_keys]; exact hn⟩
  | none =>
    have hk : k ∉ Keys m := by
      intro hk
      obtain ⟨e, he, hek⟩ := List.mem_map.1 hk
      have := List.find?_eq_none.1 hfind e he
      simp [hek] at this
    refine ⟨?_, ?_⟩
    · simp only [sumF, List.map_append, List.sum_append, List.map_cons, List.map_nil, List.sum_cons, List.sum_nil]
      rw [hf.add, hf.zero]; omega
    · simp only [Keys, List.map_append, List.map_cons, List.map_nil]
      rw [List.nodup_append]
      refine ⟨hn, by simp, ?_⟩
      intro a ha b hb
      simp at hb; subst hb
      intro e; exact hk (e ▸ ha)

theorem fold_spec (f : DT → Int) (hf : Additive f) (g : Nat × Nat → Nat × Nat) (t : Ticks) :
    ∀ (m : Ticks), (Keys m).Nodup →
    sumF f (t.foldl (fun m (e : (Nat × Nat) × DT) => addInto m (g e.1) e.2) m) = sumF f m + sumF f t ∧
    (Keys (t.foldl (fun m (e : (Nat × Nat) × DT) => addInto m (g e.1) e.2) m)).Nodup := by
  induction t with
  | nil => intro m hn; simp [sumF, hn]
  | cons e t ih =>
    intro m hn
    simp only [List.foldl_cons]
    obtain ⟨h1, h2⟩ := addInto_spec f hf m (g e.1) e.2 hn
    obtain ⟨h3, h4⟩ := ih _ h2
    refine ⟨?_, h4⟩
    rw [h3, h1]
    simp only [sumF, List.map_cons, List.sum_cons]; omega

/-- **C18 (developer statistics)**: every additive statistic of the combined result is the sum of the inputs' —
    whatever the identity lists, begin times and tick size. -/
theorem mergeDevs_conserves (f : DT → Int) (hf : Additive f) (rd1 rd2 : List IdnM.Ident) (b1 b2 ts : Nat) (t1 t2 : Ticks) :
    sumF f (mergeDevs rd1 rd2 b1 b2 ts t1 t2).1 = sumF f t1 + sumF f t2 := by
  unfold mergeDevs
  simp only
  generalize IdnM.mergeDicts rd1 rd2 = md
  obtain ⟨idx, strs⟩ := md
  simp only
  have h1 := fold_spec f hf (fun k => (k.1 + (b1 - b1 % ts - min (b1 - b1 % ts) (b2 - b2 % ts)) / ts, finalOf idx rd1 k.2)) t1 [] (by simp [Keys])
  have h2 := fold_spec f hf (fun k => (k.1 + (b2 - b2 % ts - min (b1 - b1 % ts) (b2 - b2 % ts)) / ts, finalOf idx rd2 k.2)) t2 _ h1.2
  have e1 : sumF f ([] : Ticks) = 0 := rfl
  rw [h1.1, e1] at h2
  simpa using h2.1

theorem additive_commits : Additive (fun d => d.commits) := ⟨fun _ _ => rfl, rfl⟩
theorem additive_added : Additive (fun d => d.ls.added) := ⟨fun _ _ => rfl, rfl⟩
theorem additive_removed : Additive (fun d => d.ls.removed) := ⟨fun _ _ => rfl, rfl⟩
theorem additive_changed : Additive (fun d => d.ls.changed) := ⟨fun _ _ => rfl, rfl⟩

end DevsM
