import Idn.CouplesMerge
/-! C18, couples part: the merged coupling matrices are the cell-by-cell sums of the inputs after re-indexing, totals are
    conserved, file names are re-indexed faithfully, line counts add up per file name, touched-file lists are unions. -/
namespace CmM
open IdnM

/-! ### `m[k] += v` -/

theorem val_addCell (m : Cells) (k k' : Nat × Nat) (v : Int) :
    val (addCell m k v) k' = val m k' + (if k = k' then v else 0) := by
  induction m with
  | nil =>
    by_cases h : k = k' <;> simp [addCell, val, List.find?_cons, h]
  | cons e m ih =>
    obtain ⟨k0, x⟩ := e
    simp only [addCell]
    by_cases h0 : k0 = k
    · subst h0
      simp only [if_true]
      by_cases h : k0 = k'
      · subst h; simp [val, List.find?_cons]
      · simp [val, List.find?_cons, h]
    · simp only [h0, if_false]
      by_cases h1 : k0 = k'
      · subst h1
        have : ¬ k = k0 := fun e => h0 e.symm
        simp [val, List.find?_cons, this]
      · have := ih
        simp only [val, List.find?_cons, h1, decide_false] at this ⊢
        exact this

theorem total_addCell (m : Cells) (k : Nat × Nat) (v : Int) : total (addCell m k v) = total m + v := by
  induction m with
  | nil => simp [addCell, total]
  | cons e m ih =>
    obtain ⟨k0, x⟩ := e
    simp only [addCell]
    by_cases h0 : k0 = k
    · simp only [h0, if_true, total, List.map_cons, List.sum_cons]; omega
    · simp only [h0, if_false, total, List.map_cons, List.sum_cons] at ih ⊢; omega

/-- sum of the input cells that land on `K` -/
def landing (es : Cells) (f : Nat → Nat) (K : Nat × Nat) : Int :=
  ((es.filter fun e => (f e.1.1, f e.1.2) = K).map (·.2)).sum

/-- **scatter, cell by cell**: the value of every merged cell is what was there plus the input cells re-indexed onto it -/
theorem val_scatter (es : Cells) (f : Nat → Nat) (K : Nat × Nat) :
    ∀ m, val (scatter m es f) K = val m K + landing es f K := by
  induction es with
  | nil => intro m; simp [scatter, landing]
  | cons e es ih =>
    intro m
    simp only [scatter, List.foldl_cons] at ih ⊢
    rw [ih, val_addCell]
    unfold landing
    by_cases h : (f e.1.1, f e.1.2) = K
    · simp only [h, if_true, List.filter_cons, decide_true, List.map_cons, List.sum_cons]; omega
    · simp only [h, if_false, List.filter_cons, decide_false, Bool.false_eq_true, ↓reduceIte]; omega

/-- **scatter conserves totals** whatever the index map is -/
theorem total_scatter (es : Cells) (f : Nat → Nat) : ∀ m, total (scatter m es f) = total m + total es := by
  induction es with
  | nil => intro m; simp [scatter, total]
  | cons e es ih =>
    intro m
    simp only [scatter, List.foldl_cons] at ih ⊢
    rw [ih, total_addCell]
    simp only [total, List.map_cons, List.sum_cons]; omega

/-! ### the merged result -/

def fmap1 (r1 r2 : Res) : Nat → Nat := fidx (mergeLiteral r1.files r2.files) r1.files
def fmap2 (r1 r2 : Res) : Nat → Nat := fidx (mergeLiteral r1.files r2.files) r2.files
def pmap1 (r1 r2 : Res) : Nat → Nat :=
  pidx (mergeDicts r1.people r2.people).1 r1.people (mergeDicts r1.people r2.people).2.length
def pmap2 (r1 r2 : Res) : Nat → Nat :=
  pidx (mergeDicts r1.people r2.people).1 r2.people (mergeDicts r1.people r2.people).2.length

/-- file coupling: every cell is the sum of the input cells whose row and column files carry these merged indexes -/
theorem merge_fm_cell (r1 r2 : Res) (K : Nat × Nat) :
    val (merge r1 r2).fm K = landing r1.fm (fmap1 r1 r2) K + landing r2.fm (fmap2 r1 r2) K := by
  simp only [merge, fmap1, fmap2]
  rw [val_scatter, val_scatter]
  simp [val]

/-- developer coupling: the same with the merged developer indexes (unmatched author: the extra last row/column) -/
theorem merge_pm_cell (r1 r2 : Res) (K : Nat × Nat) :
    val (merge r1 r2).pm K = landing r1.pm (pmap1 r1 r2) K + landing r2.pm (pmap2 r1 r2) K := by
  simp only [merge, pmap1, pmap2]
  rw [val_scatter, val_scatter]
  simp [val]

/-- totals of both coupling matrices are the sums of the inputs -/
theorem merge_totals (r1 r2 : Res) :
    total (merge r1 r2).fm = total r1.fm + total r2.fm ∧ total (merge r1 r2).pm = total r1.pm + total r2.pm := by
  simp only [merge]
  rw [total_scatter, total_scatter, total_scatter, total_scatter]
  simp [total]

/-! ### file names: `MergeReversedDictsLiteral` -/

theorem mem_mergeLiteral (a b : List String) (s : String) : s ∈ mergeLiteral a b ↔ s ∈ a ∨ s ∈ b := by
  unfold mergeLiteral
  simp only [List.mem_append, List.mem_filter]
  constructor
  · rintro (h | ⟨h, _⟩); exact Or.inl h; exact Or.inr h
  · rintro (h | h)
    · exact Or.inl h
    · by_cases ha : s ∈ a
      · exact Or.inl ha
      · exact Or.inr ⟨h, by simpa using ha⟩

theorem nodup_mergeLiteral (a b : List String) (ha : a.Nodup) (hb : b.Nodup) : (mergeLiteral a b).Nodup := by
  unfold mergeLiteral
  rw [List.nodup_append]
  refine ⟨ha, hb.filter _, ?_⟩
  intro x hx y hy hxy
  subst hxy
  simp only [List.mem_filter, Bool.not_eq_true'] at hy
  have : ¬ x ∈ a := by simpa using hy.2
  exact this hx

/-- the merged slot of a file carries the file's name -/
theorem fidx_name (merged fs : List String) (i : Nat) (s : String) (hi : fs[i]? = some s) (hm : s ∈ merged) :
    merged[fidx merged fs i]? = some s := by
  unfold fidx
  have : fs.getD i "" = s := by simp [List.getD, hi]
  rw [this]
  have hlt := List.idxOf_lt_length_of_mem hm
  rw [List.getElem?_eq_getElem hlt, List.getElem_idxOf hlt]

/-- **re-indexing by file name**: files of either input land on one merged index exactly when they have the same name,
and that index carries the name -/
theorem merge_files_spec (r1 r2 : Res) :
    (∀ s, s ∈ (merge r1 r2).files ↔ s ∈ r1.files ∨ s ∈ r2.files) ∧
    (r1.files.Nodup → r2.files.Nodup → (merge r1 r2).files.Nodup) ∧
    (∀ i s, r1.files[i]? = some s → (merge r1 r2).files[fmap1 r1 r2 i]? = some s) ∧
    (∀ i s, r2.files[i]? = some s → (merge r1 r2).files[fmap2 r1 r2 i]? = some s) := by
  refine ⟨fun s => mem_mergeLiteral _ _ s, nodup_mergeLiteral _ _, ?_, ?_⟩
  · intro i s hi
    exact fidx_name _ _ i s hi ((mem_mergeLiteral _ _ s).mpr (Or.inl (List.mem_of_getElem? hi)))
  · intro i s hi
    exact fidx_name _ _ i s hi ((mem_mergeLiteral _ _ s).mpr (Or.inr (List.mem_of_getElem? hi)))

/-- line counts: the merged count of a name is the sum of the counts the inputs give to that name -/
theorem merge_lines_spec (r1 r2 : Res) (I : Nat) (name : String) (h : (merge r1 r2).files[I]? = some name) :
    (merge r1 r2).lines[I]? = some (
      (if name ∈ r1.files then r1.lines.getD (r1.files.idxOf name) 0 else 0) +
      (if name ∈ r2.files then r2.lines.getD (r2.files.idxOf name) 0 else 0)) := by
  simp only [merge] at h ⊢
  rw [List.getElem?_map, h]
  simp

/-- … and for duplicate-free file lists that is position by position -/
theorem merge_lines_at (r1 r2 : Res) (h1 : r1.files.Nodup) (i : Nat) (s : String) (hi : r1.files[i]? = some s) :
    (merge r1 r2).lines[fmap1 r1 r2 i]? = some (r1.lines.getD i 0 +
      (if s ∈ r2.files then r2.lines.getD (r2.files.idxOf s) 0 else 0)) := by
  have hf := (merge_files_spec r1 r2).2.2.1 i s hi
  rw [merge_lines_spec r1 r2 _ s hf]
  have hm : s ∈ r1.files := List.mem_of_getElem? hi
  obtain ⟨hlt, he⟩ := List.getElem?_eq_some_iff.mp hi
  have : r1.files.idxOf s = i := by rw [← he]; exact h1.idxOf_getElem i hlt
  simp [hm, this]

/-! ### touched files -/

theorem mem_insertSorted (x y : Nat) (l : List Nat) : y ∈ insertSorted x l ↔ y = x ∨ y ∈ l := by
  induction l with
  | nil => simp [insertSorted]
  | cons z l ih =>
    simp only [insertSorted]
    split
    · simp
    · split
      · rename_i h; subst h; simp
      · simp only [List.mem_cons, ih]
        constructor
        · rintro (h | h | h); exact Or.inr (Or.inl h); exact Or.inl h; exact Or.inr (Or.inr h)
        · rintro (h | h | h); exact Or.inr (Or.inl h); exact Or.inl h; exact Or.inr (Or.inr h)

theorem sorted_insertSorted (x : Nat) (l : List Nat) (h : l.Pairwise (· < ·)) : (insertSorted x l).Pairwise (· < ·) := by
  induction l with
  | nil => simp [insertSorted]
  | cons z l ih =>
    simp only [insertSorted]
    rw [List.pairwise_cons] at h
    split
    · rename_i hlt
      rw [List.pairwise_cons]
      refine ⟨?_, List.pairwise_cons.mpr h⟩
      intro a ha
      rcases List.mem_cons.mp ha with rfl | ha
      · exact hlt
      · exact Nat.lt_trans hlt (h.1 a ha)
    · split
      · exact List.pairwise_cons.mpr h
      · rename_i h1 h2
        rw [List.pairwise_cons]
        refine ⟨?_, ih h.2⟩
        intro a ha
        rcases (mem_insertSorted x a l).mp ha with rfl | ha
        · omega
        · exact h.1 a ha

theorem inner_spec (fmap : Nat → Nat) (fs : List Nat) : ∀ acc : List Nat,
    (∀ F, F ∈ fs.foldl (fun acc f => insertSorted (fmap f) acc) acc ↔ F ∈ acc ∨ ∃ f ∈ fs, fmap f = F) ∧
    (acc.Pairwise (· < ·) → (fs.foldl (fun acc f => insertSorted (fmap f) acc) acc).Pairwise (· < ·)) := by
  induction fs with
  | nil => intro acc; simp
  | cons f fs ih =>
    intro acc
    simp only [List.foldl_cons]
    obtain ⟨hm, hs⟩ := ih (insertSorted (fmap f) acc)
    refine ⟨?_, fun h => hs (sorted_insertSorted _ _ h)⟩
    intro F
    rw [hm F, mem_insertSorted]
    constructor
    · rintro ((h | h) | ⟨g, hg, h⟩)
      · exact Or.inr ⟨f, List.mem_cons_self, h.symm⟩
      · exact Or.inl h
      · exact Or.inr ⟨g, List.mem_cons_of_mem _ hg, h⟩
    · rintro (h | ⟨g, hg, h⟩)
      · exact Or.inl (Or.inr h)
      · rcases List.mem_cons.mp hg with rfl | hg
        · exact Or.inl (Or.inl h.symm)
        · exact Or.inr ⟨g, hg, h⟩

/-- rows `(fs, pi)` still to be processed contribute exactly the re-indexed files of the developers mapped to `I` -/
theorem touched_fold (pmap fmap : Nat → Nat) (n I : Nat) (rows : List (List Nat × Nat)) : ∀ acc : List Nat,
    (∀ F, F ∈ rows.foldl (fun acc (x : List Nat × Nat) =>
        if x.2 < n && pmap x.2 = I then x.1.foldl (fun acc f => insertSorted (fmap f) acc) acc else acc) acc ↔
      F ∈ acc ∨ ∃ x ∈ rows, x.2 < n ∧ pmap x.2 = I ∧ ∃ f ∈ x.1, fmap f = F) ∧
    (acc.Pairwise (· < ·) → (rows.foldl (fun acc (x : List Nat × Nat) =>
        if x.2 < n && pmap x.2 = I then x.1.foldl (fun acc f => insertSorted (fmap f) acc) acc else acc) acc).Pairwise (· < ·)) := by
  induction rows with
  | nil => intro acc; simp
  | cons x rows ih =>
    intro acc
    simp only [List.foldl_cons]
    by_cases hc : (decide (x.2 < n) && decide (pmap x.2 = I)) = true
    · simp only [hc, if_true]
      obtain ⟨hm, hs⟩ := ih (x.1.foldl (fun acc f => insertSorted (fmap f) acc) acc)
      obtain ⟨im, is⟩ := inner_spec fmap x.1 acc
      simp only [Bool.and_eq_true, decide_eq_true_eq] at hc
      refine ⟨?_, fun h => hs (is h)⟩
      intro F
      rw [hm F, im F]
      constructor
      · rintro ((h | h) | ⟨y, hy, h⟩)
        · exact Or.inl h
        · exact Or.inr ⟨x, List.mem_cons_self, hc.1, hc.2, h⟩
        · exact Or.inr ⟨y, List.mem_cons_of_mem _ hy, h⟩
      · rintro (h | ⟨y, hy, h⟩)
        · exact Or.inl (Or.inl h)
        · rcases List.mem_cons.mp hy with rfl | hy
          · exact Or.inl (Or.inr h.2.2)
          · exact Or.inr ⟨y, hy, h⟩
    · simp only [hc, Bool.false_eq_true, if_false]
      obtain ⟨hm, hs⟩ := ih acc
      refine ⟨?_, hs⟩
      intro F
      rw [hm F]
      simp only [Bool.and_eq_true, decide_eq_true_eq] at hc
      constructor
      · rintro (h | ⟨y, hy, h⟩)
        · exact Or.inl h
        · exact Or.inr ⟨y, List.mem_cons_of_mem _ hy, h⟩
      · rintro (h | ⟨y, hy, h⟩)
        · exact Or.inl h
        · rcases List.mem_cons.mp hy with rfl | hy
          · exact absurd ⟨h.1, h.2.1⟩ hc
          · exact Or.inr ⟨y, hy, h⟩

/-- what one input contributes to merged developer `I` -/
def Contrib (pf : List (List Nat)) (nPeople : Nat) (pmap fmap : Nat → Nat) (I F : Nat) : Prop :=
  ∃ pi fs, pf[pi]? = some fs ∧ pi < nPeople ∧ pmap pi = I ∧ ∃ f ∈ fs, fmap f = F

theorem touched_spec (pf : List (List Nat)) (pmap fmap : Nat → Nat) (n I : Nat) (acc : List Nat) :
    (∀ F, F ∈ touched pf pmap fmap n I acc ↔ F ∈ acc ∨ Contrib pf n pmap fmap I F) ∧
    (acc.Pairwise (· < ·) → (touched pf pmap fmap n I acc).Pairwise (· < ·)) := by
  obtain ⟨hm, hs⟩ := touched_fold pmap fmap n I pf.zipIdx acc
  refine ⟨?_, hs⟩
  intro F
  unfold touched
  rw [hm F]
  unfold Contrib
  constructor
  · rintro (h | ⟨x, hx, h⟩)
    · exact Or.inl h
    · rw [List.mem_zipIdx_iff_getElem?] at hx
      exact Or.inr ⟨x.2, x.1, hx, h⟩
  · rintro (h | ⟨pi, fs, hp, h⟩)
    · exact Or.inl h
    · exact Or.inr ⟨(fs, pi), by rw [List.mem_zipIdx_iff_getElem?]; exact hp, h⟩

/-- **touched files**: the list of merged developer `I` is strictly increasing and holds exactly the re-indexed files
touched by the input developers that belong to `I` (rows of the unmatched author are not carried over) -/
theorem merge_pf_spec (r1 r2 : Res) (I : Nat) (hI : I < (merge r1 r2).people.length) :
    ∃ row, (merge r1 r2).pf[I]? = some row ∧ row.Pairwise (· < ·) ∧
      ∀ F, F ∈ row ↔ Contrib r1.pf r1.people.length (pmap1 r1 r2) (fmap1 r1 r2) I F ∨
                     Contrib r2.pf r2.people.length (pmap2 r1 r2) (fmap2 r1 r2) I F := by
  simp only [merge] at hI ⊢
  refine ⟨_, by rw [List.getElem?_map, List.getElem?_range hI]; rfl, ?_, ?_⟩
  · exact (touched_spec _ _ _ _ _ _).2 ((touched_spec _ _ _ _ _ _).2 (by simp))
  · intro F
    rw [(touched_spec _ _ _ _ _ _).1 F, (touched_spec _ _ _ _ _ _).1 F]
    simp only [List.not_mem_nil, false_or]
    constructor
    · rintro (h | h); exact Or.inl h; exact Or.inr h
    · rintro (h | h); exact Or.inl h; exact Or.inr h

/-! ### the common summary -/

/-- **summary**: earliest begin, latest end, sum of the commit counts -/
theorem car_merge_spec (a b c : Car) (h : a.merge b = some c) :
    c.begin ≤ a.begin ∧ c.begin ≤ b.begin ∧ (c.begin = a.begin ∨ c.begin = b.begin) ∧
    a.finish ≤ c.finish ∧ b.finish ≤ c.finish ∧ (c.finish = a.finish ∨ c.finish = b.finish) ∧
    c.commits = a.commits + b.commits := by
  unfold Car.merge at h
  split at h
  · simp at h
  · simp only [Option.some.injEq] at h
    subst h
    by_cases hb : b.begin < a.begin <;> by_cases hf : b.finish > a.finish <;>
      simp only [hb, hf, if_true, if_false] <;>
      exact ⟨by omega, by omega, by simp, by omega, by omega,
        by simp, trivial⟩

/-- it is refused only for an uninitialised summary -/
theorem car_merge_none (a b : Car) : a.merge b = none ↔ a.finish = 0 ∨ b.begin = 0 := by
  unfold Car.merge
  split
  · rename_i h; simp only [Bool.or_eq_true, decide_eq_true_eq] at h; simp [h]
  · rename_i h; simp only [Bool.or_eq_true, decide_eq_true_eq] at h; simp [h]

end CmM
