import Idn.Merge
/-! Model of `CouplesAnalysis.MergeResults` (leaves/couples.go) on top of the models of
    `MergeReversedDictsIdentities` (`IdnM.mergeDicts`) and `MergeReversedDictsLiteral` (`mergeLiteral`).
    Sparse matrices are association lists `((row, column), value)`; `m[k] += v` is `addCell`. -/
namespace CmM
open IdnM

abbrev Cells := List ((Nat × Nat) × Int)

/-- `m[k] += v` (creates the cell when absent, also for v = 0, as the Go map does) -/
def addCell : Cells → (Nat × Nat) → Int → Cells
  | [], k, v => [(k, v)]
  | (k', x) :: m, k, v => if k' = k then (k', x + v) :: m else (k', x) :: addCell m k v

def val (m : Cells) (k : Nat × Nat) : Int :=
  match m.find? (·.1 = k) with | some e => e.2 | none => 0

def total (m : Cells) : Int := (m.map (·.2)).sum

/-- re-index every cell by `f` and add it into `m` -/
def scatter (m : Cells) (es : Cells) (f : Nat → Nat) : Cells :=
  es.foldl (fun m e => addCell m (f e.1.1, f e.1.2) e.2) m

/-- `MergeReversedDictsLiteral` for duplicate-free lists: the first list, then the new strings of the second, in order -/
def mergeLiteral (rd1 rd2 : List String) : List String := rd1 ++ rd2.filter (fun s => !rd1.contains s)

/-- `files[reversedFilesDict[i]].Final` -/
def fidx (merged fs : List String) (i : Nat) : Nat := merged.idxOf (fs.getD i "")

def lookupFinal (idx : List (String × MI)) (k : String) : Nat :=
  match idx.find? (·.1 = k) with | some e => e.2.final | none => 0

/-- `people[reversedPeopleDict[pi]].Final`, or the extra last row for the unmatched author -/
def pidx (idx : List (String × MI)) (rd : List Ident) (np : Nat) (pi : Nat) : Nat :=
  if pi < rd.length then lookupFinal idx ("|".intercalate (rd.getD pi [])) else np

structure Res where
  files : List String
  lines : List Int
  fm : Cells
  pm : Cells
  pf : List (List Nat)
  people : List Ident

def insertSorted (x : Nat) : List Nat → List Nat
  | [] => [x]
  | y :: l => if x < y then x :: y :: l else if x = y then y :: l else y :: insertSorted x l

/-- touched files of merged developer `I`: union over the input developers that map to `I`, unmatched rows dropped -/
def touched (pf : List (List Nat)) (pmap fmap : Nat → Nat) (nPeople : Nat) (I : Nat) (acc : List Nat) : List Nat :=
  pf.zipIdx.foldl (fun acc (fs, pi) =>
    if pi < nPeople && pmap pi = I then fs.foldl (fun acc f => insertSorted (fmap f) acc) acc else acc) acc

structure Out where
  files : List String
  lines : List Int
  fm : Cells
  pm : Cells
  pf : List (List Nat)
  people : List String

def merge (r1 r2 : Res) : Out :=
  let (idx, people) := mergeDicts r1.people r2.people
  let np := people.length
  let files := mergeLiteral r1.files r2.files
  let f1 := fidx files r1.files
  let f2 := fidx files r2.files
  let p1 := pidx idx r1.people np
  let p2 := pidx idx r2.people np
  { files := files
    lines := files.map fun name =>
      (if r1.files.contains name then r1.lines.getD (r1.files.idxOf name) 0 else 0) +
      (if r2.files.contains name then r2.lines.getD (r2.files.idxOf name) 0 else 0)
    fm := scatter (scatter [] r1.fm f1) r2.fm f2
    pm := scatter (scatter [] r1.pm p1) r2.pm p2
    pf := (List.range np).map fun I =>
      touched r2.pf p2 f2 r2.people.length I (touched r1.pf p1 f1 r1.people.length I [])
    people := people }

/-- `CommonAnalysisResult.Merge` (internal/core/pipeline.go): begin, end (unix seconds), commits; `none` = the panic -/
structure Car where
  begin : Int
  finish : Int
  commits : Int
  deriving Repr, BEq

def Car.merge (a b : Car) : Option Car :=
  if a.finish = 0 || b.begin = 0 then none
  else some ⟨if b.begin < a.begin then b.begin else a.begin, if b.finish > a.finish then b.finish else a.finish,
             a.commits + b.commits⟩

end CmM
