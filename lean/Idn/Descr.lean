import Idn.Basic
/-! C16-T3: developer descriptions.  `GeneratePeopleDict` keeps, per developer, the list of names and the list of
    e-mails attached to it and prints `sorted names | sorted e-mails`.  The extended state records them exactly where
    the code appends them; `descr_exact` shows that a developer's description lists exactly the keys that resolve to it. -/
namespace Idn

structure StD where
  st : St
  names : List (Nat × Nat)      -- (developer, name token), in the order the code appends them
  emails : List (Nat × Nat)

/-- `stepGen` with the description lists; the `st` component is `stepGen` itself -/
def stepGenD (s : StD) (c : Nat × Nat) : StD :=
  match find s.st.dict c.2 with
  | some id =>
    match find s.st.dict c.1 with
    | some _ => ⟨stepGen s.st c, s.names, s.emails⟩
    | none => ⟨stepGen s.st c, s.names ++ [(id, c.1)], s.emails⟩
  | none =>
    match find s.st.dict c.1 with
    | some id => ⟨stepGen s.st c, s.names, s.emails ++ [(id, c.2)]⟩
    | none => ⟨stepGen s.st c, s.names ++ [(s.st.size, c.1)], s.emails ++ [(s.st.size, c.2)]⟩

def generateD (cs : List (Nat × Nat)) : StD := cs.foldl stepGenD ⟨⟨[], 0⟩, [], []⟩

theorem stepGenD_st (s : StD) (c : Nat × Nat) : (stepGenD s c).st = stepGen s.st c := by
  unfold stepGenD; split <;> split <;> rfl

theorem generateD_st (cs : List (Nat × Nat)) : (generateD cs).st = generate cs := by
  unfold generateD generate
  suffices H : ∀ (s : StD), (cs.foldl stepGenD s).st = cs.foldl stepGen s.st from H _
  induction cs with
  | nil => intro s; rfl
  | cons c cs ih => intro s; simp only [List.foldl_cons]; rw [ih, stepGenD_st]

/-- the tokens printed for developer `i` (names, then e-mails) -/
def descr (s : StD) (i : Nat) : List Nat :=
  ((s.names.filter (·.1 = i)).map (·.2)) ++ ((s.emails.filter (·.1 = i)).map (·.2))

def DescInv (s : StD) : Prop :=
  ∀ k i, ((i, k) ∈ s.names ∨ (i, k) ∈ s.emails) ↔ find s.st.dict k = some i

theorem find_append_none {d e : Dict} {k : Nat} (h : find d k = none) : find (d ++ e) k = find e k := by
  unfold find at *
  rw [List.find?_append]
  cases hf : List.find? (fun x => decide (x.1 = k)) d with
  | none => simp
  | some x => rw [hf] at h; simp at h

theorem find_single (k' v k : Nat) : find [(k', v)] k = if k' = k then some v else none := by
  unfold find; simp [List.find?_cons]; split <;> simp_all

theorem stepGenD_inv (s : StD) (c : Nat × Nat) (h : DescInv s) : DescInv (stepGenD s c) := by
  intro k i
  unfold stepGenD
  cases he : find s.st.dict c.2 with
  | some id =>
    cases hn : find s.st.dict c.1 with
    | some id' =>
      simp only [stepGen, he, hn]
      exact h k i
    | none =>
      simp only [stepGen, he, hn, List.mem_append, List.mem_singleton, Prod.mk.injEq]
      by_cases hk : find s.st.dict k = none
      · rw [find_append_none hk, find_single]
        have h0 := h k i
        rw [hk] at h0
        constructor
        · rintro ((h1 | ⟨rfl, rfl⟩) | h1)
          · exact absurd (h0.1 (.inl h1)) (by simp)
          · simp
          · exact absurd (h0.1 (.inr h1)) (by simp)
        · intro h1
          split at h1
          · rename_i hkk; simp only [Option.some.injEq] at h1; subst h1; left; right; exact ⟨rfl, hkk.symm⟩
          · simp at h1
      · obtain ⟨v, hv⟩ := Option.ne_none_iff_exists'.1 hk
        rw [find_append_some hv]
        have h0 := h k i
        rw [hv] at h0
        constructor
        · rintro ((h1 | ⟨rfl, rfl⟩) | h1)
          · exact h0.1 (.inl h1)
          · rw [hn] at hv; simp at hv
          · exact h0.1 (.inr h1)
        · intro h1
          rcases h0.2 h1 with h2 | h2
          · exact .inl (.inl h2)
          · exact .inr h2
  | none =>
    cases hn : find s.st.dict c.1 with
    | some id =>
      simp only [stepGen, he, hn, List.mem_append, List.mem_singleton, Prod.mk.injEq]
      by_cases hk : find s.st.dict k = none
      · rw [find_append_none hk, find_single]
        have h0 := h k i
        rw [hk] at h0
        constructor
        · rintro (h1 | (h1 | ⟨rfl, rfl⟩))
          · exact absurd (h0.1 (.inl h1)) (by simp)
          · exact absurd (h0.1 (.inr h1)) (by simp)
          · simp
        · intro h1
          split at h1
          · rename_i hkk; simp only [Option.some.injEq] at h1; subst h1; right; right; exact ⟨rfl, hkk.symm⟩
          · simp at h1
      · obtain ⟨v, hv⟩ := Option.ne_none_iff_exists'.1 hk
        rw [find_append_some hv]
        have h0 := h k i
        rw [hv] at h0
        constructor
        · rintro (h1 | (h1 | ⟨rfl, rfl⟩))
          · exact h0.1 (.inl h1)
          · exact h0.1 (.inr h1)
          · rw [he] at hv; simp at hv
        · intro h1
          rcases h0.2 h1 with h2 | h2
          · exact .inl h2
          · exact .inr (.inl h2)
    | none =>
      simp only [stepGen, he, hn, List.mem_append, List.mem_singleton, Prod.mk.injEq]
      by_cases hk : find s.st.dict k = none
      · rw [find_append_none hk]
        have h0 := h k i
        rw [hk] at h0
        have hf : find [(c.2, s.st.size), (c.1, s.st.size)] k =
            if c.2 = k ∨ c.1 = k then some s.st.size else none := by
          unfold find
          simp only [List.find?_cons]
          by_cases h1 : c.2 = k
          · simp [h1]
          · by_cases h2 : c.1 = k
            · simp [h1, h2]
            · simp [h1, h2]
        rw [hf]
        constructor
        · rintro ((h1 | ⟨rfl, rfl⟩) | (h1 | ⟨rfl, rfl⟩))
          · exact absurd (h0.1 (.inl h1)) (by simp)
          · simp
          · exact absurd (h0.1 (.inr h1)) (by simp)
          · simp
        · intro h1
          split at h1
          · rename_i hkk
            simp only [Option.some.injEq] at h1; subst h1
            rcases hkk with hkk | hkk
            · right; right; exact ⟨rfl, hkk.symm⟩
            · left; right; exact ⟨rfl, hkk.symm⟩
          · simp at h1
      · obtain ⟨v, hv⟩ := Option.ne_none_iff_exists'.1 hk
        rw [find_append_some hv]
        have h0 := h k i
        rw [hv] at h0
        constructor
        · rintro ((h1 | ⟨rfl, rfl⟩) | (h1 | ⟨rfl, rfl⟩))
          · exact h0.1 (.inl h1)
          · rw [hn] at hv; simp at hv
          · exact h0.1 (.inr h1)
          · rw [he] at hv; simp at hv
        · intro h1
          rcases h0.2 h1 with h2 | h2
          · exact .inl (.inl h2)
          · exact .inr (.inl h2)

/-- **C16-T3**: for every commit list, a token is printed in the description of developer `i` exactly when it is a key
    (name or e-mail) that resolves to `i` -/
theorem descr_exact (cs : List (Nat × Nat)) (k i : Nat) :
    k ∈ descr (generateD cs) i ↔ find (generate cs).dict k = some i := by
  have hinv : DescInv (generateD cs) := by
    unfold generateD
    suffices H : ∀ (s : StD), DescInv s → DescInv (cs.foldl stepGenD s) by
      apply H
      intro k i; simp [find]
    induction cs with
    | nil => intro s h; exact h
    | cons c cs ih => intro s h; exact ih _ (stepGenD_inv s c h)
  rw [← generateD_st]
  rw [← hinv k i]
  unfold descr
  simp only [List.mem_append, List.mem_map, List.mem_filter, decide_eq_true_eq]
  constructor
  · rintro (⟨p, ⟨hp, rfl⟩, rfl⟩ | ⟨p, ⟨hp, rfl⟩, rfl⟩)
    · exact .inl hp
    · exact .inr hp
  · rintro (h | h)
    · exact .inl ⟨(i, k), ⟨h, rfl⟩, rfl⟩
    · exact .inr ⟨(i, k), ⟨h, rfl⟩, rfl⟩

end Idn

namespace Idn

/-- **C16-T4**: the generated list is well formed — no name or e-mail occurs in the descriptions of two different
    developers (the precondition under which merging identity lists is specified) -/
theorem descr_disjoint (cs : List (Nat × Nat)) (k i j : Nat)
    (hi : k ∈ descr (generateD cs) i) (hj : k ∈ descr (generateD cs) j) : i = j := by
  have h1 := (descr_exact cs k i).1 hi
  have h2 := (descr_exact cs k j).1 hj
  rw [h1] at h2
  exact Option.some.inj h2

end Idn
