/-! C16: identity dictionary generation and lookup (internal/plumbing/identity/identity.go, commit path,
    opportunistic matching). Names and e-mails are tokens (`Nat`), already lower-cased. -/
namespace Idn

abbrev Dict := List (Nat × Nat)      -- key ↦ developer index, first binding wins, keys are only ever added

def find (d : Dict) (k : Nat) : Option Nat := (d.find? (·.1 = k)).map (·.2)

structure St where
  dict : Dict
  size : Nat

/-- one iteration of the loop over commits in `GeneratePeopleDict` -/
def stepGen (s : St) (c : Nat × Nat) : St :=         -- c = (name, email)
  match find s.dict c.2 with
  | some id =>
    match find s.dict c.1 with
    | some _ => s
    | none => { s with dict := s.dict ++ [(c.1, id)] }
  | none =>
    match find s.dict c.1 with
    | some id => { s with dict := s.dict ++ [(c.2, id)] }
    | none => { dict := s.dict ++ [(c.2, s.size), (c.1, s.size)], size := s.size + 1 }

def generate (cs : List (Nat × Nat)) : St := cs.foldl stepGen ⟨[], 0⟩

/-- `Detector.Consume`: e-mail first, then name, else "missing" -/
def consume (d : Dict) (c : Nat × Nat) : Option Nat :=
  match find d c.2 with
  | some id => some id
  | none => find d c.1

theorem find_append_some {d e : Dict} {k v : Nat} (h : find d k = some v) : find (d ++ e) k = some v := by
  unfold find at *
  rw [List.find?_append]
  cases hf : List.find? (fun x => decide (x.1 = k)) d with
  | none => rw [hf] at h; simp at h
  | some x => rw [hf] at h; simpa using h

/-- the dictionary only grows -/
theorem stepGen_mono (s : St) (c : Nat × Nat) (k v : Nat) (h : find s.dict k = some v) :
    find (stepGen s c).dict k = some v := by
  unfold stepGen
  split
  · split
    · exact h
    · exact find_append_some h
  · split
    · exact find_append_some h
    · exact find_append_some h

theorem foldl_mono (cs : List (Nat × Nat)) (s : St) (k v : Nat) (h : find s.dict k = some v) :
    find (cs.foldl stepGen s).dict k = some v := by
  induction cs generalizing s with
  | nil => exact h
  | cons c cs ih => exact ih _ (stepGen_mono s c k v h)

def Bounded (s : St) : Prop := ∀ k v, find s.dict k = some v → v < s.size

theorem find_append_cases {d e : Dict} {k v : Nat} (h : find (d ++ e) k = some v) :
    find d k = some v ∨ (find d k = none ∧ find e k = some v) := by
  unfold find at *
  rw [List.find?_append] at h
  cases hf : List.find? (fun x => decide (x.1 = k)) d with
  | none => rw [hf] at h; right; exact ⟨by simp, by simpa using h⟩
  | some x => rw [hf] at h; left; simpa using h

theorem stepGen_bounded (s : St) (c : Nat × Nat) (hb : Bounded s) : Bounded (stepGen s c) ∧ s.size ≤ (stepGen s c).size := by
  unfold stepGen
  split
  · rename_i id he
    split
    · exact ⟨hb, Nat.le_refl _⟩
    · refine ⟨?_, Nat.le_refl _⟩
      intro k v h
      rcases find_append_cases h with h | ⟨_, h⟩
      · exact hb k v h
      · simp [find] at h; rw [← h.2]; exact hb _ _ he
  · split
    · rename_i id hn
      refine ⟨?_, Nat.le_refl _⟩
      intro k v h
      rcases find_append_cases h with h | ⟨_, h⟩
      · exact hb k v h
      · simp [find] at h; rw [← h.2]; exact hb _ _ hn
    · refine ⟨?_, by simp⟩
      intro k v h
      rcases find_append_cases h with h | ⟨_, h⟩
      · have := hb k v h; simp; omega
      · simp only [find, List.find?_cons] at h
        split at h
        · simp at h; simp; omega
        · split at h
          · simp at h; simp; omega
          · simp at h

/-- after a commit has been processed its e-mail is bound -/
theorem stepGen_binds_email (s : St) (c : Nat × Nat) : ∃ v, find (stepGen s c).dict c.2 = some v := by
  unfold stepGen
  split
  · rename_i id he
    split
    · exact ⟨id, he⟩
    · exact ⟨id, find_append_some he⟩
  · rename_i he
    split
    · rename_i id hn
      refine ⟨id, ?_⟩
      unfold find at *
      rw [List.find?_append]
      cases hf : List.find? (fun x => decide (x.1 = c.2)) s.dict with
      | none => simp
      | some x => rw [hf] at he; simp at he
    · refine ⟨s.size, ?_⟩
      unfold find at *
      rw [List.find?_append]
      cases hf : List.find? (fun x => decide (x.1 = c.2)) s.dict with
      | none => simp
      | some x => rw [hf] at he; simp at he

theorem foldl_bounded (cs : List (Nat × Nat)) (s : St) (hb : Bounded s) : Bounded (cs.foldl stepGen s) := by
  induction cs generalizing s with
  | nil => exact hb
  | cons c cs ih => exact ih _ (stepGen_bounded s c hb).1

theorem binds_all (cs : List (Nat × Nat)) (s : St) (c : Nat × Nat) (hc : c ∈ cs) :
    ∃ v, find (cs.foldl stepGen s).dict c.2 = some v := by
  induction cs generalizing s with
  | nil => simp at hc
  | cons x xs ih =>
    rcases List.mem_cons.mp hc with rfl | hc
    · obtain ⟨v, hv⟩ := stepGen_binds_email s c
      exact ⟨v, foldl_mono xs _ _ _ hv⟩
    · exact ih _ hc

/-- **C16-T1/T2**: every author of the list resolves to an index in range, and two commits with the
    same e-mail resolve to the same developer -/
theorem consume_total (cs : List (Nat × Nat)) (c : Nat × Nat) (hc : c ∈ cs) :
    ∃ id, consume (generate cs).dict c = some id ∧ id < (generate cs).size := by
  obtain ⟨v, hv⟩ := binds_all cs ⟨[], 0⟩ c hc
  refine ⟨v, ?_, ?_⟩
  · unfold consume generate; rw [hv]
  · exact foldl_bounded cs ⟨[], 0⟩ (by intro k v h; simp [find] at h) _ _ hv

theorem consume_same_email (cs : List (Nat × Nat)) (c c' : Nat × Nat) (hc : c ∈ cs) (he : c.2 = c'.2) :
    consume (generate cs).dict c = consume (generate cs).dict c' := by
  obtain ⟨v, hv⟩ := binds_all cs ⟨[], 0⟩ c hc
  unfold consume generate at *
  rw [← he, hv]

end Idn
