import Idn.Merge
/-! Model of DevsAnalysis.MergeResults (leaves/devs.go). -/
namespace DevsM
open IdnM

structure LS where
  added : Int
  removed : Int
  changed : Int
  deriving Repr, DecidableEq

structure DT where
  commits : Int
  ls : LS
  langs : List (String × LS)
  deriving Repr

abbrev Ticks := List ((Nat × Nat) × DT)     -- (tick, developer) ↦ stats

def LS.add (a b : LS) : LS := ⟨a.added + b.added, a.removed + b.removed, a.changed + b.changed⟩

def addLang (m : List (String × LS)) (k : String) (v : LS) : List (String × LS) :=
  match m.find? (·.1 = k) with
  | some _ => m.map fun (k', v') => if k' = k then (k', v'.add v) else (k', v')
  | none => m ++ [(k, v)]

def DT.add (a b : DT) : DT :=
  ⟨a.commits + b.commits, a.ls.add b.ls, b.langs.foldl (fun m (k, v) => addLang m k v) a.langs⟩

def addInto (m : Ticks) (k : Nat × Nat) (s : DT) : Ticks :=
  match m.find? (·.1 = k) with
  | some _ => m.map fun (k', v') => if k' = k then (k', v'.add s) else (k', v')
  | none => m ++ [(k, (⟨0, ⟨0, 0, 0⟩, []⟩ : DT).add s)]

def authorMissing : Nat := 2 ^ 18 - 2

/-- `mergedIndex[rd[dev]].Final`; a missing key reads as the zero value -/
def finalOf (idx : List (String × MI)) (rd : List Ident) (dev : Nat) : Nat :=
  if dev = authorMissing then dev else
  match idx.find? (·.1 = "|".intercalate (rd.getD dev [])) with
  | some (_, mi) => mi.final
  | none => 0

/-- begin times in seconds since year 1, tick size in seconds -/
def mergeDevs (rd1 rd2 : List Ident) (b1 b2 ts : Nat) (t1 t2 : Ticks) : Ticks × List String :=
  let (idx, strs) := mergeDicts rd1 rd2
  let f1 := b1 - b1 % ts
  let f2 := b2 - b2 % ts
  let f0 := min f1 f2
  let off1 := (f1 - f0) / ts
  let off2 := (f2 - f0) / ts
  let m := t1.foldl (fun m ((tick, dev), s) => addInto m (tick + off1, finalOf idx rd1 dev) s) []
  let m := t2.foldl (fun m ((tick, dev), s) => addInto m (tick + off2, finalOf idx rd2 dev) s) m
  (m, strs)

/-! conservation -/
def total (m : Ticks) : Int × LS := m.foldl (fun acc (_, s) => (acc.1 + s.commits, acc.2.add s.ls)) (0, ⟨0, 0, 0⟩)

end DevsM
