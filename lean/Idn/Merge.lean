/-! Model of identity.MergeReversedDictsIdentities (internal/plumbing/identity/identity.go).
    An identity is the list of its "|"-separated tokens. -/
namespace IdnM

abbrev Ident := List String

/-- vocabulary[p].Index: the LAST entry of the list that contains token p -/
def lastIdx (rd : List Ident) (p : String) : Option Nat :=
  (rd.zipIdx.filter (fun (parts, _) => parts.contains p)).getLast?.map (·.2)

def addNew (w : List String) (ps : List String) : List String :=
  ps.foldl (fun w p => if w.contains p then w else w ++ [p]) w

/-- one round: add the tokens of the entries every walked token points to -/
def expand (rd1 rd2 : List Ident) (w : List String) : List String :=
  w.foldl (fun acc e =>
    let acc := match lastIdx rd1 e with | some i => addNew acc (rd1.getD i []) | none => acc
    match lastIdx rd2 e with | some i => addNew acc (rd2.getD i []) | none => acc) w

def closure (rd1 rd2 : List Ident) : Nat → List String → List String
  | 0, w => w
  | fuel + 1, w =>
    let w' := expand rd1 rd2 w
    if w'.length = w.length then w else closure rd1 rd2 fuel w'

def hasAt (s : String) : Bool := s.contains '@'
/-- names before e-mails, each group in string order -/
def idLess (a b : String) : Bool := if hasAt a == hasAt b then a < b else hasAt b

def walks (rd1 rd2 : List Ident) : List (List String) :=
  let fuel := (rd1 ++ rd2).foldl (fun n p => n + p.length) 1
  let step := fun (acc : List (List String) × List String) (root : Ident) =>
    if root.any acc.2.contains then acc else
    let w := closure rd1 rd2 fuel (addNew [] root)
    (acc.1 ++ [w.mergeSort (fun a b => idLess a b || a == b)], acc.2 ++ w)
  ((rd1 ++ rd2).foldl step ([], [])).1

structure MI where
  final : Nat
  first : Int
  second : Int
  deriving Repr, BEq

def setMI (m : List (String × MI)) (k : String) (f : Option MI → MI) : List (String × MI) :=
  match m.find? (·.1 = k) with
  | some (_, v) => m.map (fun (k', v') => if k' = k then (k', f (some v)) else (k', v'))
  | none => m ++ [(k, f none)]

def upd1 (wi i : Nat) : Option MI → MI
  | none => ⟨wi, i, -1⟩
  | some mi => ⟨wi, i, mi.second⟩

def upd2 (wi i : Nat) : Option MI → MI
  | none => ⟨wi, -1, i⟩
  | some mi => ⟨wi, mi.first, i⟩

def mergeDicts (rd1 rd2 : List Ident) : List (String × MI) × List String :=
  let ws := walks rd1 rd2
  let join := fun (i : Ident) => "|".intercalate i
  let idx := ws.zipIdx.foldl (fun m (ids, wi) =>
    ids.foldl (fun m key =>
      let m := match lastIdx rd1 key with
        | some i => setMI m (join (rd1.getD i [])) (upd1 wi i)
        | none => m
      match lastIdx rd2 key with
        | some i => setMI m (join (rd2.getD i [])) (upd2 wi i)
        | none => m) m) []
  (idx, ws.map join)

end IdnM
