import Idn.Components
/-! C16 (second half, index map): every input identity receives a merged index whose walk holds all of its tokens, and
    keeps a pointer to its original position; two identities share a merged index exactly when they are connected. -/
namespace IdnM

def join (i : Ident) : String := "|".intercalate i

def lookupMI (m : List (String × MI)) (k : String) : Option MI := (m.find? (·.1 = k)).map (·.2)

theorem find_mapset_same (m : List (String × MI)) (k : String) (g : MI) :
    ((m.map (fun (k', v') => if k' = k then (k', g) else (k', v'))).find? (·.1 = k)).map (·.2) =
      (m.find? (·.1 = k)).map (fun _ => g) := by
  induction m with
  | nil => simp
  | cons x m ih =>
    obtain ⟨k0, v0⟩ := x
    simp only [List.map_cons, List.find?_cons]
    by_cases h : k0 = k
    · simp [h]
    · simp only [h, if_false, decide_false]
      exact ih

theorem find_mapset_other (m : List (String × MI)) (k k2 : String) (g : MI) (hne : k2 ≠ k) :
    ((m.map (fun (k', v') => if k' = k then (k', g) else (k', v'))).find? (·.1 = k2)) = m.find? (·.1 = k2) := by
  induction m with
  | nil => simp
  | cons x m ih =>
    obtain ⟨k0, v0⟩ := x
    simp only [List.map_cons, List.find?_cons]
    by_cases h : k0 = k
    · subst h
      have : ¬ k0 = k2 := fun e => hne e.symm
      simp only [if_true, this, decide_false]
      exact ih
    · simp only [h, if_false]
      by_cases h2 : k0 = k2
      · simp [h2]
      · simp only [h2, decide_false]; exact ih

theorem lookup_setMI_same (m : List (String × MI)) (k : String) (f : Option MI → MI) :
    lookupMI (setMI m k f) k = some (f (lookupMI m k)) := by
  unfold setMI lookupMI
  cases hf : m.find? (·.1 = k) with
  | none => simp [List.find?_append, hf]
  | some kv =>
    obtain ⟨k0, v0⟩ := kv
    simp only [Option.map_some]
    rw [find_mapset_same, hf]; rfl

theorem lookup_setMI_other (m : List (String × MI)) (k k2 : String) (f : Option MI → MI) (hne : k2 ≠ k) :
    lookupMI (setMI m k f) k2 = lookupMI m k2 := by
  unfold setMI lookupMI
  cases hf : m.find? (·.1 = k) with
  | none =>
    simp only [List.find?_append]
    have : [(k, f none)].find? (fun x => decide (x.1 = k2)) = none := by
      have hk : ¬ k = k2 := fun e => hne e.symm
      simp [List.find?_cons, hk]
    rw [this]; simp
  | some kv =>
    obtain ⟨k0, v0⟩ := kv
    simp only []
    rw [find_mapset_other _ _ _ _ hne]

inductive Touch
  | t1 (s : String) (wi i : Nat)
  | t2 (s : String) (wi i : Nat)

def applyTouch (m : List (String × MI)) : Touch → List (String × MI)
  | .t1 s wi i => setMI m s (upd1 wi i)
  | .t2 s wi i => setMI m s (upd2 wi i)

def touchesOf (rd1 rd2 : List Ident) (wi : Nat) (key : String) : List Touch :=
  (match lastIdx rd1 key with | some i => [.t1 (join (rd1.getD i [])) wi i] | none => []) ++
  (match lastIdx rd2 key with | some i => [.t2 (join (rd2.getD i [])) wi i] | none => [])

def allTouches (rd1 rd2 : List Ident) : List Touch :=
  (walks rd1 rd2).zipIdx.flatMap (fun x => x.1.flatMap (touchesOf rd1 rd2 x.2))

theorem idx_eq (rd1 rd2 : List Ident) : (mergeDicts rd1 rd2).1 = (allTouches rd1 rd2).foldl applyTouch [] := by
  unfold mergeDicts allTouches
  simp only []
  rw [List.foldl_flatMap]
  congr 1
  funext m x
  obtain ⟨ids, wi⟩ := x
  simp only []
  rw [List.foldl_flatMap]
  congr 1
  funext m key
  unfold touchesOf join
  cases lastIdx rd1 key <;> cases lastIdx rd2 key <;> simp [applyTouch]

theorem descr_eq (rd1 rd2 : List Ident) : (mergeDicts rd1 rd2).2 = (walks rd1 rd2).map join := rfl

/-! ### what the entries of the index map assert -/

def EntryOK (rd1 rd2 : List Ident) (s : String) (mi : MI) : Prop :=
  (∃ a ∈ rd1 ++ rd2, join a = s ∧ ∃ w, (walks rd1 rd2)[mi.final]? = some w ∧ ∃ p ∈ a, p ∈ w) ∧
  (mi.first = -1 ∨ ∃ (i : Nat) (a : Ident), mi.first = (i : Int) ∧ rd1[i]? = some a ∧ join a = s) ∧
  (mi.second = -1 ∨ ∃ (i : Nat) (a : Ident), mi.second = (i : Int) ∧ rd2[i]? = some a ∧ join a = s)

def TouchOK (rd1 rd2 : List Ident) : Touch → Prop
  | .t1 s wi i => ∃ a, rd1[i]? = some a ∧ join a = s ∧ ∃ w, (walks rd1 rd2)[wi]? = some w ∧ ∃ p ∈ a, p ∈ w
  | .t2 s wi i => ∃ a, rd2[i]? = some a ∧ join a = s ∧ ∃ w, (walks rd1 rd2)[wi]? = some w ∧ ∃ p ∈ a, p ∈ w

def MInv (rd1 rd2 : List Ident) (m : List (String × MI)) : Prop :=
  ∀ s mi, lookupMI m s = some mi → EntryOK rd1 rd2 s mi

theorem applyTouch_inv (rd1 rd2 : List Ident) (m : List (String × MI)) (t : Touch)
    (hI : MInv rd1 rd2 m) (ht : TouchOK rd1 rd2 t) : MInv rd1 rd2 (applyTouch m t) := by
  intro s' mi' h
  cases t with
  | t1 s wi i =>
    obtain ⟨a, ha, hj, w, hw, hp⟩ := ht
    simp only [applyTouch] at h
    by_cases hs : s' = s
    · subst hs
      rw [lookup_setMI_same] at h
      simp only [Option.some.injEq] at h
      subst h
      cases ho : lookupMI m s' with
      | none =>
        exact ⟨⟨a, List.mem_append_left _ (List.mem_of_getElem? ha), hj, w, hw, hp⟩, Or.inr ⟨i, a, rfl, ha, hj⟩, Or.inl rfl⟩
      | some old =>
        exact ⟨⟨a, List.mem_append_left _ (List.mem_of_getElem? ha), hj, w, hw, hp⟩, Or.inr ⟨i, a, rfl, ha, hj⟩,
          (hI s' old ho).2.2⟩
    · rw [lookup_setMI_other _ _ _ _ hs] at h
      exact hI s' mi' h
  | t2 s wi i =>
    obtain ⟨a, ha, hj, w, hw, hp⟩ := ht
    simp only [applyTouch] at h
    by_cases hs : s' = s
    · subst hs
      rw [lookup_setMI_same] at h
      simp only [Option.some.injEq] at h
      subst h
      cases ho : lookupMI m s' with
      | none =>
        exact ⟨⟨a, List.mem_append_right _ (List.mem_of_getElem? ha), hj, w, hw, hp⟩, Or.inl rfl, Or.inr ⟨i, a, rfl, ha, hj⟩⟩
      | some old =>
        exact ⟨⟨a, List.mem_append_right _ (List.mem_of_getElem? ha), hj, w, hw, hp⟩, (hI s' old ho).2.1,
          Or.inr ⟨i, a, rfl, ha, hj⟩⟩
    · rw [lookup_setMI_other _ _ _ _ hs] at h
      exact hI s' mi' h

theorem fold_inv (rd1 rd2 : List Ident) (ts : List Touch) (hts : ∀ t ∈ ts, TouchOK rd1 rd2 t) :
    ∀ m, MInv rd1 rd2 m → MInv rd1 rd2 (ts.foldl applyTouch m) := by
  induction ts with
  | nil => intro m h; exact h
  | cons t ts ih =>
    intro m h
    exact ih (fun x hx => hts x (List.mem_cons_of_mem _ hx)) _
      (applyTouch_inv rd1 rd2 m t h (hts t List.mem_cons_self))

/-! ### progress: an identity that was touched through its own list keeps a pointer -/

def Has1 (m : List (String × MI)) (s : String) : Prop := ∃ mi, lookupMI m s = some mi ∧ mi.first ≠ -1
def Has2 (m : List (String × MI)) (s : String) : Prop := ∃ mi, lookupMI m s = some mi ∧ mi.second ≠ -1

theorem has1_keep (m : List (String × MI)) (s : String) (t : Touch) (h : Has1 m s) : Has1 (applyTouch m t) s := by
  obtain ⟨mi, hl, hf⟩ := h
  cases t with
  | t1 s' wi i =>
    by_cases hs : s = s'
    · subst hs; exact ⟨_, lookup_setMI_same _ _ _, by rw [hl]; simp only [upd1]; omega⟩
    · exact ⟨mi, by simp only [applyTouch]; rw [lookup_setMI_other _ _ _ _ hs]; exact hl, hf⟩
  | t2 s' wi i =>
    by_cases hs : s = s'
    · subst hs; exact ⟨_, lookup_setMI_same _ _ _, by rw [hl]; simpa only [upd2] using hf⟩
    · exact ⟨mi, by simp only [applyTouch]; rw [lookup_setMI_other _ _ _ _ hs]; exact hl, hf⟩

theorem has2_keep (m : List (String × MI)) (s : String) (t : Touch) (h : Has2 m s) : Has2 (applyTouch m t) s := by
  obtain ⟨mi, hl, hf⟩ := h
  cases t with
  | t1 s' wi i =>
    by_cases hs : s = s'
    · subst hs; exact ⟨_, lookup_setMI_same _ _ _, by rw [hl]; simpa only [upd1] using hf⟩
    · exact ⟨mi, by simp only [applyTouch]; rw [lookup_setMI_other _ _ _ _ hs]; exact hl, hf⟩
  | t2 s' wi i =>
    by_cases hs : s = s'
    · subst hs; exact ⟨_, lookup_setMI_same _ _ _, by rw [hl]; simp only [upd2]; omega⟩
    · exact ⟨mi, by simp only [applyTouch]; rw [lookup_setMI_other _ _ _ _ hs]; exact hl, hf⟩

theorem has1_fold_keep (ts : List Touch) (s : String) : ∀ m, Has1 m s → Has1 (ts.foldl applyTouch m) s := by
  induction ts with
  | nil => intro m h; exact h
  | cons t ts ih => intro m h; exact ih _ (has1_keep m s t h)

theorem has2_fold_keep (ts : List Touch) (s : String) : ∀ m, Has2 m s → Has2 (ts.foldl applyTouch m) s := by
  induction ts with
  | nil => intro m h; exact h
  | cons t ts ih => intro m h; exact ih _ (has2_keep m s t h)

theorem has1_fold (ts : List Touch) (s : String) (wi i : Nat) (h : Touch.t1 s wi i ∈ ts) :
    ∀ m, Has1 (ts.foldl applyTouch m) s := by
  induction ts with
  | nil => simp at h
  | cons t ts ih =>
    intro m
    simp only [List.foldl_cons]
    rcases List.mem_cons.mp h with h | h
    · subst h
      apply has1_fold_keep
      simp only [applyTouch]
      cases ho : lookupMI m s <;>
        exact ⟨_, lookup_setMI_same _ _ _, by rw [ho]; simp only [upd1]; omega⟩
    · exact ih h _

theorem has2_fold (ts : List Touch) (s : String) (wi i : Nat) (h : Touch.t2 s wi i ∈ ts) :
    ∀ m, Has2 (ts.foldl applyTouch m) s := by
  induction ts with
  | nil => simp at h
  | cons t ts ih =>
    intro m
    simp only [List.foldl_cons]
    rcases List.mem_cons.mp h with h | h
    · subst h
      apply has2_fold_keep
      simp only [applyTouch]
      cases ho : lookupMI m s <;>
        exact ⟨_, lookup_setMI_same _ _ _, by rw [ho]; simp only [upd2]; omega⟩
    · exact ih h _

/-! ### the touches that occur -/

theorem getD_of_some {rd : List Ident} {i : Nat} {a : Ident} (h : rd[i]? = some a) : rd.getD i [] = a := by
  simp [List.getD, h]

theorem touches_ok (rd1 rd2 : List Ident) : ∀ t ∈ allTouches rd1 rd2, TouchOK rd1 rd2 t := by
  intro t ht
  unfold allTouches at ht
  rw [List.mem_flatMap] at ht
  obtain ⟨⟨w, wi⟩, hz, ht⟩ := ht
  rw [List.mem_zipIdx_iff_getElem?] at hz
  rw [List.mem_flatMap] at ht
  obtain ⟨key, hk, ht⟩ := ht
  unfold touchesOf at ht
  rcases List.mem_append.mp ht with ht | ht
  · cases hl : lastIdx rd1 key with
    | none => simp [hl] at ht
    | some i =>
      simp only [hl, List.mem_singleton] at ht
      subst ht
      obtain ⟨a, ha, hka⟩ := lastIdx_some hl
      exact ⟨a, ha, by rw [getD_of_some ha], w, hz, key, hka, hk⟩
  · cases hl : lastIdx rd2 key with
    | none => simp [hl] at ht
    | some i =>
      simp only [hl, List.mem_singleton] at ht
      subst ht
      obtain ⟨a, ha, hka⟩ := lastIdx_some hl
      exact ⟨a, ha, by rw [getD_of_some ha], w, hz, key, hka, hk⟩

theorem touch1_exists (rd1 rd2 : List Ident) (h1 : Disj rd1) (h2 : Disj rd2) (i : Nat) (a : Ident)
    (ha : rd1[i]? = some a) (hne : a ≠ []) : ∃ wi, Touch.t1 (join a) wi i ∈ allTouches rd1 rd2 := by
  obtain ⟨hcov, _, _, _⟩ := walks_components rd1 rd2 h1 h2
  obtain ⟨w, hw, hall⟩ := hcov a (List.mem_append_left _ (List.mem_of_getElem? ha)) hne
  obtain ⟨p, hp⟩ := List.exists_mem_of_ne_nil a hne
  obtain ⟨wi, hwi⟩ := List.getElem?_of_mem hw
  refine ⟨wi, ?_⟩
  unfold allTouches
  rw [List.mem_flatMap]
  refine ⟨(w, wi), by rw [List.mem_zipIdx_iff_getElem?]; exact hwi, ?_⟩
  rw [List.mem_flatMap]
  refine ⟨p, hall p hp, ?_⟩
  unfold touchesOf
  rw [lastIdx_of_mem h1 ha hp]
  simp only []
  rw [getD_of_some ha]
  exact List.mem_append_left _ (by simp)

theorem touch2_exists (rd1 rd2 : List Ident) (h1 : Disj rd1) (h2 : Disj rd2) (i : Nat) (a : Ident)
    (ha : rd2[i]? = some a) (hne : a ≠ []) : ∃ wi, Touch.t2 (join a) wi i ∈ allTouches rd1 rd2 := by
  obtain ⟨hcov, _, _, _⟩ := walks_components rd1 rd2 h1 h2
  obtain ⟨w, hw, hall⟩ := hcov a (List.mem_append_right _ (List.mem_of_getElem? ha)) hne
  obtain ⟨p, hp⟩ := List.exists_mem_of_ne_nil a hne
  obtain ⟨wi, hwi⟩ := List.getElem?_of_mem hw
  refine ⟨wi, ?_⟩
  unfold allTouches
  rw [List.mem_flatMap]
  refine ⟨(w, wi), by rw [List.mem_zipIdx_iff_getElem?]; exact hwi, ?_⟩
  rw [List.mem_flatMap]
  refine ⟨p, hall p hp, ?_⟩
  unfold touchesOf
  rw [lastIdx_of_mem h2 ha hp]
  simp only []
  rw [getD_of_some ha]
  exact List.mem_append_right _ (by simp)

/-- the walk an entry points to holds every token of the identity -/
theorem entry_walk (rd1 rd2 : List Ident) (h1 : Disj rd1) (h2 : Disj rd2)
    (hj : ∀ a ∈ rd1 ++ rd2, ∀ b ∈ rd1 ++ rd2, join a = join b → a = b)
    (a : Ident) (ha : a ∈ rd1 ++ rd2) (mi : MI) (hE : EntryOK rd1 rd2 (join a) mi) :
    ∃ w, (walks rd1 rd2)[mi.final]? = some w ∧ ∀ p ∈ a, p ∈ w := by
  obtain ⟨⟨a', ha', hja, w, hw, p, hp, hpw⟩, _, _⟩ := hE
  have : a' = a := hj a' ha' a ha hja
  subst this
  obtain ⟨_, _, _, hconn⟩ := walks_components rd1 rd2 h1 h2
  refine ⟨w, hw, fun q hq => ?_⟩
  exact (hconn w (List.mem_of_getElem? hw) p hpw q).mpr (Conn.single ⟨a', ha, hp, hq⟩)

/-- **C16, index map**: for lists whose entries are non-empty and pairwise token-disjoint and whose joined strings
identify the entries, every identity of the first list has an entry under its own string whose `first` pointer is its
position and whose merged index names a walk holding all of its tokens — and likewise for the second list. -/
theorem mergeDicts_index (rd1 rd2 : List Ident) (h1 : Disj rd1) (h2 : Disj rd2)
    (hne : ∀ a ∈ rd1 ++ rd2, a ≠ [])
    (hj : ∀ a ∈ rd1 ++ rd2, ∀ b ∈ rd1 ++ rd2, join a = join b → a = b) :
    (∀ (i : Nat) (a : Ident), rd1[i]? = some a → ∃ mi, lookupMI (mergeDicts rd1 rd2).1 (join a) = some mi ∧
      mi.first = (i : Int) ∧ ∃ w, (walks rd1 rd2)[mi.final]? = some w ∧ ∀ p ∈ a, p ∈ w) ∧
    (∀ (i : Nat) (a : Ident), rd2[i]? = some a → ∃ mi, lookupMI (mergeDicts rd1 rd2).1 (join a) = some mi ∧
      mi.second = (i : Int) ∧ ∃ w, (walks rd1 rd2)[mi.final]? = some w ∧ ∀ p ∈ a, p ∈ w) := by
  have hI : MInv rd1 rd2 (mergeDicts rd1 rd2).1 := by
    rw [idx_eq]
    exact fold_inv rd1 rd2 _ (touches_ok rd1 rd2) [] (by intro s mi h; simp [lookupMI] at h)
  constructor
  · intro i a ha
    have ham : a ∈ rd1 ++ rd2 := List.mem_append_left _ (List.mem_of_getElem? ha)
    obtain ⟨wi, ht⟩ := touch1_exists rd1 rd2 h1 h2 i a ha (hne a ham)
    have hh : Has1 (mergeDicts rd1 rd2).1 (join a) := by rw [idx_eq]; exact has1_fold _ _ wi i ht []
    obtain ⟨mi, hl, hf⟩ := hh
    have hE := hI _ mi hl
    refine ⟨mi, hl, ?_, entry_walk rd1 rd2 h1 h2 hj a ham mi hE⟩
    rcases hE.2.1 with h | ⟨i', a', hfi, ha', hja⟩
    · exact absurd h hf
    · have : a' = a := hj a' (List.mem_append_left _ (List.mem_of_getElem? ha')) a ham hja
      subst this
      obtain ⟨p, hp⟩ := List.exists_mem_of_ne_nil a' (hne a' ham)
      rw [hfi, h1 i' i a' a' ha' ha p hp hp]
  · intro i a ha
    have ham : a ∈ rd1 ++ rd2 := List.mem_append_right _ (List.mem_of_getElem? ha)
    obtain ⟨wi, ht⟩ := touch2_exists rd1 rd2 h1 h2 i a ha (hne a ham)
    have hh : Has2 (mergeDicts rd1 rd2).1 (join a) := by rw [idx_eq]; exact has2_fold _ _ wi i ht []
    obtain ⟨mi, hl, hf⟩ := hh
    have hE := hI _ mi hl
    refine ⟨mi, hl, ?_, entry_walk rd1 rd2 h1 h2 hj a ham mi hE⟩
    rcases hE.2.2 with h | ⟨i', a', hfi, ha', hja⟩
    · exact absurd h hf
    · have : a' = a := hj a' (List.mem_append_right _ (List.mem_of_getElem? ha')) a ham hja
      subst this
      obtain ⟨p, hp⟩ := List.exists_mem_of_ne_nil a' (hne a' ham)
      rw [hfi, h2 i' i a' a' ha' ha p hp hp]

/-- two input identities share a merged index exactly when they are connected -/
theorem same_index_iff (rd1 rd2 : List Ident) (h1 : Disj rd1) (h2 : Disj rd2)
    (hne : ∀ a ∈ rd1 ++ rd2, a ≠ [])
    (hj : ∀ a ∈ rd1 ++ rd2, ∀ b ∈ rd1 ++ rd2, join a = join b → a = b)
    (a b : Ident) (ha : a ∈ rd1 ++ rd2) (hb : b ∈ rd1 ++ rd2) :
    ∃ ma mb, lookupMI (mergeDicts rd1 rd2).1 (join a) = some ma ∧ lookupMI (mergeDicts rd1 rd2).1 (join b) = some mb ∧
      (ma.final = mb.final ↔ ∀ p ∈ a, ∀ q ∈ b, Conn rd1 rd2 p q) := by
  obtain ⟨hA, hB⟩ := mergeDicts_index rd1 rd2 h1 h2 hne hj
  have entry : ∀ c ∈ rd1 ++ rd2, ∃ mi, lookupMI (mergeDicts rd1 rd2).1 (join c) = some mi ∧
      ∃ w, (walks rd1 rd2)[mi.final]? = some w ∧ ∀ p ∈ c, p ∈ w := by
    intro c hc
    rcases List.mem_append.mp hc with hc | hc
    · obtain ⟨i, hi⟩ := List.getElem?_of_mem hc
      obtain ⟨mi, hl, _, hw⟩ := hA i c hi
      exact ⟨mi, hl, hw⟩
    · obtain ⟨i, hi⟩ := List.getElem?_of_mem hc
      obtain ⟨mi, hl, _, hw⟩ := hB i c hi
      exact ⟨mi, hl, hw⟩
  obtain ⟨ma, hla, wa, hwa, hpa⟩ := entry a ha
  obtain ⟨mb, hlb, wb, hwb, hpb⟩ := entry b hb
  obtain ⟨_, hdis, _, hconn⟩ := walks_components rd1 rd2 h1 h2
  refine ⟨ma, mb, hla, hlb, ?_, ?_⟩
  · intro hf p hp q hq
    rw [hf, hwb] at hwa
    simp only [Option.some.injEq] at hwa
    subst hwa
    exact (hconn wb (List.mem_of_getElem? hwb) p (hpa p hp) q).mp (hpb q hq)
  · intro hc
    obtain ⟨p, hp⟩ := List.exists_mem_of_ne_nil a (hne a ha)
    obtain ⟨q, hq⟩ := List.exists_mem_of_ne_nil b (hne b hb)
    have hqa : q ∈ wa := (hconn wa (List.mem_of_getElem? hwa) p (hpa p hp) q).mpr (hc p hp q hq)
    have hqb : q ∈ wb := hpb q hq
    rw [List.pairwise_iff_getElem] at hdis
    obtain ⟨hia, hea⟩ := List.getElem?_eq_some_iff.mp hwa
    obtain ⟨hib, heb⟩ := List.getElem?_eq_some_iff.mp hwb
    rcases Nat.lt_trichotomy ma.final mb.final with hlt | heq | hgt
    · exact absurd (heb ▸ hqb) (hdis _ _ hia hib hlt q (hea ▸ hqa))
    · exact heq
    · exact absurd (hea ▸ hqa) (hdis _ _ hib hia hgt q (heb ▸ hqb))

/-! ### the premises, executable (evaluated by the correspondence on every well-formed pair of lists) -/

def disjCheck (rd : List Ident) : Bool :=
  rd.zipIdx.all fun x => rd.zipIdx.all fun y => x.2 == y.2 || x.1.all fun p => !y.1.contains p

def premisesCheck (rd1 rd2 : List Ident) : Bool :=
  disjCheck rd1 && disjCheck rd2 && (rd1 ++ rd2).all (fun a => !a.isEmpty) &&
  (rd1 ++ rd2).all fun a => (rd1 ++ rd2).all fun b => join a != join b || a == b

theorem disjCheck_sound (rd : List Ident) (h : disjCheck rd = true) : Disj rd := by
  intro i j a b ha hb p hpa hpb
  unfold disjCheck at h
  rw [List.all_eq_true] at h
  have h1 := h (a, i) (by rw [List.mem_zipIdx_iff_getElem?]; exact ha)
  rw [List.all_eq_true] at h1
  have h2 := h1 (b, j) (by rw [List.mem_zipIdx_iff_getElem?]; exact hb)
  simp only [Bool.or_eq_true, beq_iff_eq, List.all_eq_true] at h2
  rcases h2 with h2 | h2
  · exact h2
  · have := h2 p hpa
    simp only [Bool.not_eq_true', ← Bool.not_eq_true, List.contains_iff_mem] at this
    exact absurd hpb this

theorem premisesCheck_sound (rd1 rd2 : List Ident) (h : premisesCheck rd1 rd2 = true) :
    Disj rd1 ∧ Disj rd2 ∧ (∀ a ∈ rd1 ++ rd2, a ≠ []) ∧
    (∀ a ∈ rd1 ++ rd2, ∀ b ∈ rd1 ++ rd2, join a = join b → a = b) := by
  unfold premisesCheck at h
  simp only [Bool.and_eq_true] at h
  obtain ⟨⟨⟨c1, c2⟩, c3⟩, c4⟩ := h
  refine ⟨disjCheck_sound rd1 c1, disjCheck_sound rd2 c2, ?_, ?_⟩
  · intro a ha he
    rw [List.all_eq_true] at c3
    have := c3 a ha
    simp [he] at this
  · intro a ha b hb hj
    rw [List.all_eq_true] at c4
    have := c4 a ha
    rw [List.all_eq_true] at this
    have := this b hb
    simp only [Bool.or_eq_true, bne_iff_ne, ne_eq, beq_iff_eq] at this
    rcases this with h | h
    · exact absurd hj h
    · exact h

end IdnM
