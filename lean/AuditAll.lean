import Bd.Canon
import Bd.Frame
import Bd.MergeSame
import Bd.Script
import Cd.Basic
import Fu.DeltasTop
import Fu.Guards
import Fu.History
import Fu.History2
import Fu.Sampled
import Fu.Seq
import Fu.Top
import Fu.Top2
import Gs.RouteSum
import Gs.Top
import Hb.Disk
import Hb.Round
import Idn.Basic
import Idn.DevsSum
import Ln.Basic
import Mg.Basic
import Pl.Anc
import Pl.Awake
import Pl.CheckSound
import Pl.Erase2
import Pl.Hib
import Pl.IsMerge
import Pl.OneShot
import Pl.Run2Spec
import Pl.RunIdx
import Pl.RunSpec
import Pl.SimTop
import Pl.Transparent
import Rb.Alloc
import Rb.Clone
import Rb.Inv
import Rb.Lookup
import Rb.Map
import Rb.Root
import Rb.RootDel
import Rn.Basic
import Td.Apply
import Td.BlobHealthy
import Td.Filter
import Tk.Basic
import Ts.Kahn
#print axioms Fu.update_refines_splice
#print axioms Fu.update_ok
#print axioms Fu.updates_refine
#print axioms Fu.update_rejects
#print axioms Fu.newFile_wf
#print axioms Fu.update_deltas
#print axioms Fu.runOps_spec
#print axioms Fu.runCommits_spec
#print axioms Fu.runOps_cur
#print axioms Fu.sampled_row
#print axioms RbM.insert_shape
#print axioms RbM.delete_shape
#print axioms RbM.insert_toList
#print axioms RbM.delete_toList
#print axioms RbM.reachable_inv
#print axioms RbM.malloc_fresh
#print axioms RbM.insertW_noAlias
#print axioms RbM.deleteW_noAlias
#print axioms Mg.resolve_spec
#print axioms Mg.bestFrom_spec
#print axioms Tk.floorTime_spec
#print axioms Tk.floorTime_dvd
#print axioms Tk.tickOf_ge_prev
#print axioms Tk.tickOf_spec
#print axioms Tk.tickOf_monotone_times
#print axioms Ln.countLines_eq_split
#print axioms Ln.splitLines_join
#print axioms Ln.lineStats_conserve
#print axioms Rn.scan_count
#print axioms Rn.scan_partition
#print axioms Idn.consume_total
#print axioms Idn.consume_same_email
#print axioms Cd.row_roundtrip
#print axioms Pl.mem_ancestors_iff
#print axioms Pl.erase_insertHibernateBoot
#print axioms Pl.erase_insertHB2
#print axioms Pl.insertHB2_awake
#print axioms Pl.consumeAll_ok
#print axioms Pl.consumeAll_fail
#print axioms Pl.runLoop_idx
#print axioms Pl.isMerge_iff
#print axioms OneShot.counted_once
#print axioms Gs.group_spec
#print axioms Td.diffTree_applies
#print axioms Td.filtered_applies
#print axioms Hb.boot_hibernate
#print axioms Hb.boot_hibernate'
#print axioms Hb.disk_roundtrip
#print axioms Hb.serialize_after_noop
#print axioms Kahn.toposort_sound
#print axioms DevsM.mergeDevs_conserves
#print axioms Route.run_totals
#print axioms Bc.consume_healthy
#print axioms RbM.findGE_spec
#print axioms RbM.findLE_spec
#print axioms Bd.translate_realises
#print axioms Bd.merge_all_identical
#print axioms Bd.doOp_frame
#print axioms Pl.isMerge_erase
#print axioms Pl.run2_transparent
#print axioms Kahn.toposortP_sound
#print axioms Pl.consumeAll2_ok
#print axioms Pl.stepCore_idx
#print axioms Pl.runLoop2_error
#print axioms Bd.translate_ok_of_canon
#print axioms Pl.step_commit_sound
#print axioms RbM.cloneDeep_spec
