import Pl.SimTop
/-! C09, failures of hibernation: a run whose items may fail in `Hibernate` or `Boot` (the k-th call returns an error —
    the model of an unusable hibernation directory, a missing or truncated file) either returns an error or returns
    exactly what the same run returns when nothing fails.  It never returns a different result. -/
namespace Pl

/-- the same item with hibernation failures switched off -/
def Item.noFault (it : Item) : Item := { it with hfail := none, bfail := none }

def noFaults (items : List Item) : List Item := items.map Item.noFault

theorem cloneItems2_go_noFaults (n : Nat) : ∀ (items : List Item) (org : List Nat) (next : Nat) (evs : List Ev)
    (cols : List (List Nat)),
    cloneItems2.go n (noFaults items) org next evs cols = cloneItems2.go n items org next evs cols := by
  intro items
  induction items with
  | nil => intro org next evs cols; simp [noFaults, cloneItems2.go]
  | cons it its ih =>
    intro org next evs cols
    cases org with
    | nil => simp [noFaults, cloneItems2.go]
    | cons i org =>
      simp only [noFaults, List.map_cons, cloneItems2.go, Item.noFault]
      exact ih org _ _ _

theorem cloneItems2_noFaults (items : List Item) (origin : List Nat) (n next : Nat) :
    cloneItems2 (noFaults items) origin n next = cloneItems2 items origin n next := by
  unfold cloneItems2
  rw [cloneItems2_go_noFaults]

theorem consumeAll2_noFaults (commit idx : Nat) (im : Bool) : ∀ (items : List Item) (j : Nat) (insts : List Nat)
    (state : List (Nat × (Nat × Nat))) (cc : List Nat),
    consumeAll2 commit idx im j (noFaults items) insts state cc = consumeAll2 commit idx im j items insts state cc := by
  intro items
  induction items with
  | nil => intro j insts state cc; simp [noFaults, consumeAll2]
  | cons it its ih =>
    intro j insts state cc
    cases insts with
    | nil => simp [noFaults, consumeAll2]
    | cons i insts =>
      simp only [noFaults, List.map_cons, consumeAll2, Item.noFault]
      split
      · rfl
      · split
        · rfl
        · have := ih (j + 1) insts
          simp only [noFaults] at this
          rw [this]

theorem length_noFaults (items : List Item) : (noFaults items).length = items.length := by simp [noFaults]

theorem stepCore_noFaults (items : List Item) (rc : List Nat) (times : List Int) (im : Bool) (a : Action) (s : Core) :
    stepCore (noFaults items) rc times im a s = stepCore items rc times im a s := by
  unfold stepCore
  simp only [consumeAll2_noFaults, cloneItems2_noFaults, length_noFaults]

/-- a hibernate / boot sweep that succeeds did not meet a failure, so it is what the fault-free items do -/
theorem hbAll2_ok_noFaults (isBoot : Bool) : ∀ (items : List Item) (j : Nat) (insts : List Nat) (c : List Nat)
    (r : List Ev × List Nat), hbAll2 isBoot j items insts c = .ok r →
    hbAll2 isBoot j (noFaults items) insts c = .ok r := by
  intro items
  induction items with
  | nil => intro j insts c r h; simpa [noFaults, hbAll2] using h
  | cons it its ih =>
    intro j insts c r h
    cases insts with
    | nil => simpa [noFaults, hbAll2] using h
    | cons i insts =>
      by_cases hfull : it.full = true
      · cases isBoot
        · -- hibernate
          simp only [noFaults, List.map_cons, hbAll2, Item.noFault, hfull, Bool.not_true, Bool.false_eq_true,
            if_false] at h ⊢
          split at h
          · simp at h
          · split at h
            · rename_i evs c' hrec
              have := ih _ _ _ _ hrec
              simp only [noFaults] at this
              simp only [reduceCtorEq, if_false, this]
              exact h
            · simp at h
        · -- boot
          simp only [noFaults, List.map_cons, hbAll2, Item.noFault, hfull, Bool.not_true, Bool.false_eq_true,
            if_false, if_true] at h ⊢
          split at h
          · simp at h
          · split at h
            · rename_i evs c' hrec
              have := ih _ _ _ _ hrec
              simp only [noFaults] at this
              simp only [reduceCtorEq, if_false, this]
              exact h
            · simp at h
      · have hf : it.full = false := by simpa using hfull
        simp only [noFaults, List.map_cons, hbAll2, Item.noFault, hf, Bool.not_false, if_true] at h ⊢
        exact ih _ _ _ _ h

theorem stepHB_ok_noFaults (items : List Item) (isBoot : Bool) (branches : List (Nat × List Nat)) :
    ∀ (bs : List Nat) (c : List Nat) (r : List Ev × List Nat), stepHB items isBoot branches bs c = .ok r →
    stepHB (noFaults items) isBoot branches bs c = .ok r := by
  intro bs
  induction bs with
  | nil => intro c r h; simpa [stepHB] using h
  | cons b bs ih =>
    intro c r h
    simp only [stepHB] at h ⊢
    split at h
    · simp at h
    · rename_i evs c1 h1
      rw [hbAll2_ok_noFaults isBoot items 0 _ c _ h1]
      simp only
      split at h
      · rename_i evs' c2 h2
        rw [ih c1 _ h2]
        exact h
      · simp at h

theorem step2_ok_noFaults (items : List Item) (rc : List Nat) (times : List Int) (im : Bool) (a : Action)
    (s : RS2) (r : RS2 × List Ev) (h : step2 items rc times im a s = .ok r) :
    step2 (noFaults items) rc times im a s = .ok r := by
  unfold step2 at h ⊢
  cases hk : a.kind <;> simp only [hk] at h ⊢
  case hibernate =>
    split at h
    · rename_i evs hc h1
      rw [stepHB_ok_noFaults items false _ _ _ _ h1]; exact h
    · simp at h
  case boot =>
    split at h
    · rename_i evs hc h1
      rw [stepHB_ok_noFaults items true _ _ _ _ h1]; exact h
    · simp at h
  all_goals (rw [stepCore_noFaults]; exact h)

theorem runLoop2_ok_noFaults (items : List Item) (rc : List Nat) (times : List Int) (plan : List Action) :
    ∀ (rest : List Action) (i : Nat) (s : RS2) (r : RS2 × List Ev),
    runLoop2 items rc times plan i rest s = .ok r → runLoop2 (noFaults items) rc times plan i rest s = .ok r := by
  intro rest
  induction rest with
  | nil => intro i s r h; simpa [runLoop2] using h
  | cons a rest ih =>
    intro i s r h
    simp only [runLoop2] at h ⊢
    split at h
    · simp at h
    · rename_i s1 evs1 h1
      rw [step2_ok_noFaults items rc times _ a s _ h1]
      simp only
      split at h
      · rename_i s2 evs2 h2
        rw [ih (i + 1) s1 _ h2]
        exact h
      · simp at h

/-- **C09 (fault safety)**: with items that may fail in Hibernate / Boot, a run either returns an error or returns exactly
    the outcome (result and event log) of the same run with fault-free items -/
theorem run2_fault_safe (items : List Item) (times : List Int) (n : Nat) (plan : List Action) :
    (∃ e, (run2 items times n plan).result = .error e) ∨
    run2 items times n plan = run2 (noFaults items) times n plan := by
  unfold run2
  simp only [cloneItems2_noFaults, length_noFaults]
  cases hr : runLoop2 items ((cloneItems2 items (List.range items.length) 1 items.length).1.headD []) times plan 0 plan
      ⟨⟨(cloneItems2 items (List.range items.length) 1 items.length).2.1, [], 0, 0, List.replicate items.length 0⟩,
        List.replicate items.length 0, List.replicate items.length 0⟩ with
  | error e =>
    left
    obtain ⟨m, evs⟩ := e
    exact ⟨m, by simp [hr]⟩
  | ok r =>
    right
    have := runLoop2_ok_noFaults items _ times plan plan 0 _ r hr
    simp only [hr, this]
    obtain ⟨s, evs⟩ := r
    simp only
    -- the final "dispose / finalize" tail only looks at `full`, which noFault does not change
    have hz : ∀ (master : List Nat),
        ((noFaults items).zip master).zipIdx.filter (fun x => x.1.1.full) =
        ((items.zip master).zipIdx.filter (fun x => x.1.1.full)).map (fun x => ((x.1.1.noFault, x.1.2), x.2)) := by
      intro master
      simp only [noFaults, List.zip_map_left, List.zipIdx_map, List.filter_map]
      congr 1
    simp only [hz, List.flatMap_map, List.map_map]
    rfl

end Pl
