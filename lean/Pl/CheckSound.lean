import Pl.Anc
namespace Pl

/-- **C02 (step soundness)**: whenever the validator accepts a commit action, the commit is replayed on a live,
    awake branch that holds *exactly* the ancestors of one of the commit's parents — the parent that was
    replayed last on that branch (a non-redundant one in strict mode) — or on a fresh branch if the commit
    has no parent. -/
theorem step_commit_sound (strict : Bool) (parents : List (List Nat)) (ht : Topo parents)
    (s s' : St) (a : Action) (hk : a.kind = .commit)
    (h : step strict parents.toArray (ancestors parents) s a = .ok s') :
    ∃ b br, a.items = [b] ∧ s.get b = some br ∧ br.hib = false ∧
      ((br.last = none ∧ dedup (parents.toArray.getD a.commit []) = [] ∧ br.set = []) ∨
       (∃ q, br.last = some q ∧ q ∈ dedup (parents.toArray.getD a.commit []) ∧
          (strict = true → q ∈ nonRedundant (ancestors parents) (dedup (parents.toArray.getD a.commit []))) ∧
          (q < parents.length → ∀ x, x ∈ br.set ↔ Ancestor parents x q))) := by
  unfold step at h
  simp only [hk] at h
  split at h
  · rename_i b hitems
    split at h
    · simp at h
    · rename_i br hget
      split at h
      · simp at h
      · rename_i hhib
        have hdd : ∀ (l : List Nat) (x : Nat), x ∈ dedup l → x ∈ l := by
          intro l
          unfold dedup
          suffices hs : ∀ (l acc : List Nat) (x : Nat),
              x ∈ l.foldl (fun acc x => if acc.contains x then acc else acc ++ [x]) acc → x ∈ acc ∨ x ∈ l by
            intro x hx; rcases hs l [] x hx with h | h; simp at h; exact h
          intro l
          induction l with
          | nil => intro acc x hx; exact .inl hx
          | cons y l ih =>
            intro acc x hx
            simp only [List.foldl_cons] at hx
            rcases ih _ x hx with h | h
            · split at h
              · exact .inl h
              · rcases List.mem_append.1 h with h | h
                · exact .inl h
                · simp at h; exact .inr (by simp [h])
            · exact .inr (by simp [h])
        refine ⟨b, br, hitems, hget, by simpa using hhib, ?_⟩
        cases hl : br.last with
        | none =>
          left
          simp only [hl] at h
          split at h
          · simp at h
          · rename_i hok
            have hok' : ((dedup (parents.toArray.getD a.commit [])).isEmpty && br.set.isEmpty) = true := by
              simpa using hok
            simp only [Bool.and_eq_true, List.isEmpty_iff] at hok'
            exact ⟨rfl, hok'.1, hok'.2⟩
        | some q =>
          right
          have fin : ∀ (hq : q ∈ dedup (parents.toArray.getD a.commit []))
              (hst : strict = true → q ∈ nonRedundant (ancestors parents) (dedup (parents.toArray.getD a.commit [])))
              (hset : br.set = (ancestors parents).getD q []),
              ∃ q', some q = some q' ∧ q' ∈ dedup (parents.toArray.getD a.commit []) ∧
                (strict = true → q' ∈ nonRedundant (ancestors parents) (dedup (parents.toArray.getD a.commit []))) ∧
                (q' < parents.length → ∀ x, x ∈ br.set ↔ Ancestor parents x q') := by
            intro hq hst hset
            refine ⟨q, rfl, hq, hst, ?_⟩
            intro hlt x
            rw [hset]
            exact mem_ancestors_iff parents ht x q hlt
          cases strict with
          | false =>
            simp only [hl, Bool.false_eq_true, if_false] at h
            split at h
            · simp at h
            · rename_i hok
              have hok' : ((dedup (parents.toArray.getD a.commit [])).contains q &&
                  (br.set == (ancestors parents).getD q [])) = true := by simpa using hok
              simp only [Bool.and_eq_true, beq_iff_eq, List.contains_eq_mem, decide_eq_true_eq] at hok'
              exact fin hok'.1 (by intro hs; simp at hs) hok'.2
          | true =>
            simp only [hl, if_true] at h
            split at h
            · simp at h
            · rename_i hok
              have hok' : ((nonRedundant (ancestors parents) (dedup (parents.toArray.getD a.commit []))).contains q &&
                  (br.set == (ancestors parents).getD q [])) = true := by simpa using hok
              simp only [Bool.and_eq_true, beq_iff_eq, List.contains_eq_mem, decide_eq_true_eq] at hok'
              have hq' := hok'.1
              have hmem : q ∈ dedup (parents.toArray.getD a.commit []) := by
                unfold nonRedundant at hq'
                exact hdd _ q (List.mem_filter.1 hq').1
              exact fin hmem (fun _ => hq') hok'.2
  · simp at h

end Pl
