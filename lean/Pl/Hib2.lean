import Pl.Model
/-! Declarative form of insertHibernateBoot: which branches are booted before / hibernated after the action
    at index x, as functions of the whole plan. -/
namespace Pl

def uses (a : Action) (b : Nat) : Bool := a.kind != .delete && a.items.contains b

/-- index of the last action among `l` (numbered from `i`) that mentions b, `acc` if none -/
def lastUse (b : Nat) : List Action → Nat → Option Nat → Option Nat
  | [], _, acc => acc
  | a :: rest, i, acc => lastUse b rest (i + 1) (if uses a b then some i else acc)

/-- last index < x whose (non-delete) action mentions b -/
def prevUse (plan : List Action) (x b : Nat) : Option Nat := lastUse b (plan.take x) 0 none

def nextUse (b : Nat) : List Action → Nat → Option Nat
  | [], _ => none
  | a :: rest, x => if uses a b then some x else nextUse b rest (x + 1)

/-- first index ≥ x whose (non-delete) action mentions b -/
def nextUseFrom (plan : List Action) (x b : Nat) : Option Nat := nextUse b (plan.drop x) x

def bootsAt (plan : List Action) (d x : Nat) (a : Action) : List Nat :=
  a.items.filter fun b => uses a b && match prevUse plan x b with
    | some i => decide (x - i - 1 > d)
    | none => false

/-- branches hibernated right after index i, in the order the Go loops append them (by the index of the
    next use, then by position in that action's item list) -/
def hibsAt (plan : List Action) (d i : Nat) (a : Action) : List Nat :=
  ((plan.drop (i + 1)).zipIdx (i + 1)).flatMap fun (a', x) =>
    a'.items.filter fun b => uses a b && (nextUseFrom plan (i + 1) b == some x) && decide (x - i - 1 > d)

def emitAt (plan : List Action) (d : Nat) (p : Action) (x : Nat) : List Action :=
  let b := bootsAt plan d x p
  let h := hibsAt plan d x p
  (if b.isEmpty then [] else [⟨.boot, p.commit, b⟩]) ++ [p] ++
  (if h.isEmpty then [] else [⟨.hibernate, p.commit, h⟩])

def insertHB2 (plan : List Action) (d : Nat) : List Action :=
  plan.zipIdx.flatMap fun (p, x) => emitAt plan d p x

end Pl
