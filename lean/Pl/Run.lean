import Pl.Model
/-! Model of Pipeline.Run (internal/core/pipeline.go): the action interpreter over abstract items.
    An item instance is a number; what an instance "knows" is the list of events logged for it. -/
namespace Pl

structure Item where
  provides : List Nat
  requires : List Nat
  full : Bool            -- hibernateable + disposable + leaf
  shared : Bool          -- Fork returns the receiver itself (ForkSamePipelineItem)
  cfail : Option Nat     -- k-th Consume call (over all instances of the item) returns an error
  skip : Option Nat      -- k-th Consume call leaves out its first declared output
  hfail : Option Nat     -- k-th Hibernate call fails
  bfail : Option Nat     -- k-th Boot call fails
  deriving Repr

inductive Ev
  | fork (inst : Nat) (clones : List Nat)
  | consume (inst commit idx : Nat) (isMerge : Bool) (deps : List (Nat × Option (Nat × Nat)))
  | merge (inst : Nat) (others : List Nat)
  | hibernate (inst : Nat) | boot (inst : Nat) | dispose (inst : Nat) | finalize (item inst : Nat)
  deriving Repr, DecidableEq

structure RS where
  next : Nat
  branches : List (Nat × List Nat)
  log : List Ev                       -- newest first
  idx : Nat
  newest : Int
  cc : List Nat                       -- per item: Consume calls so far
  hc : List Nat
  bc : List Nat
  deriving Repr

def getBranch (bs : List (Nat × List Nat)) (b : Nat) : List Nat :=
  match bs.find? (·.1 = b) with | some (_, l) => l | none => []
def setBranch (bs : List (Nat × List Nat)) (b : Nat) (l : List Nat) : List (Nat × List Nat) :=
  (b, l) :: bs.filter (·.1 ≠ b)

/-- cloneItems: Fork(n) on every item of the origin in order; returns the n clones column-wise -/
def cloneItems (items : List Item) (origin : List Nat) (n : Nat) (next : Nat) (log : List Ev) :
    List (List Nat) × Nat × List Ev :=
  let rec go (its : List Item) (org : List Nat) (next : Nat) (log : List Ev) (cols : List (List Nat)) :=
    match its, org with
    | it :: its, inst :: org =>
      let clones := if it.shared then List.replicate n inst else (List.range n).map (· + next)
      let next := if it.shared then next else next + n
      go its org next (Ev.fork inst clones :: log) (cols ++ [clones])
    | _, _ => (cols, next, log)
  let (cols, next, log) := go items origin next log []
  ((List.range n).map (fun j => cols.map (fun c => c.getD j 0)), next, log)

def scanMatch (c : Nat) : List Action → Bool
  | [] => false
  | a :: rest => match a.kind with
    | .hibernate | .boot => scanMatch c rest
    | .commit => a.commit == c
    | _ => false

/-- the `isMerge` closure: nearest non-hibernate/boot neighbour (backwards never looks at index 0) -/
def isMerge (plan : List Action) (index c : Nat) : Bool :=
  scanMatch c ((plan.take index).drop 1).reverse || scanMatch c (plan.drop (index + 1))

def bumpAt (l : List Nat) (j : Nat) : List Nat := l.set j (l.getD j 0 + 1)

/-- one Consume round over the items of a branch -/
def consumeAll (items : List Item) (commit idx : Nat) (im : Bool) :
    Nat → List Item → List Nat → List (Nat × (Nat × Nat)) → List Ev → List Nat →
    Except (String × List Ev) (List Ev × List Nat)
  | _, [], _, _, log, cc => .ok (log, cc)
  | _, _, [], _, log, cc => .ok (log, cc)
  | j, it :: its, inst :: insts, state, log, cc =>
    let k := cc.getD j 0 + 1
    let cc := cc.set j k
    let deps := it.requires.map (fun e => (e, (state.find? (·.1 = e)).map (·.2)))
    let log := Ev.consume inst commit idx im deps :: log
    if it.cfail = some k then .error (s!"consume-error item {j}", log) else
    let outs := if it.skip = some k then it.provides.drop 1 else it.provides
    match it.provides.find? (fun e => !outs.contains e) with
    | some e => .error (s!"missing-output item {j} entity {e}", log)
    | none =>
      let state := it.provides.foldl (fun st e => (e, (inst, commit)) :: st.filter (·.1 ≠ e)) state
      consumeAll items commit idx im (j + 1) its insts state log cc

def hbAll (isBoot : Bool) : Nat → List Item → List Nat → List Ev → List Nat →
    Except (String × List Ev) (List Ev × List Nat)
  | _, [], _, log, c => .ok (log, c)
  | _, _, [], log, c => .ok (log, c)
  | j, it :: its, inst :: insts, log, c =>
    if !it.full then hbAll isBoot (j + 1) its insts log c else
    let k := c.getD j 0 + 1
    let c := c.set j k
    let log := (if isBoot then Ev.boot inst else Ev.hibernate inst) :: log
    if (if isBoot then it.bfail else it.hfail) = some k then
      .error ((if isBoot then "boot-error" else "hibernate-error") ++ s!" item {j}", log)
    else hbAll isBoot (j + 1) its insts log c

def stepRun (items : List Item) (rootClone : List Nat) (times : List Int) (plan : List Action)
    (index : Nat) (a : Action) (s : RS) : Except (String × List Ev) RS :=
  let first := a.items.headD 0
  match a.kind with
  | .commit =>
    match consumeAll items a.commit s.idx (isMerge plan index a.commit) 0 items
        (getBranch s.branches first) [] s.log s.cc with
    | .error e => .error e
    | .ok (log, cc) =>
      let t := times.getD a.commit 0
      .ok { s with log := log, cc := cc, idx := s.idx + 1, newest := if t > s.newest || s.idx = 0 then t else s.newest }
  | .fork =>
    let (clones, next, log) := cloneItems items (getBranch s.branches first) (a.items.length - 1) s.next s.log
    let bs := (a.items.drop 1).zip clones |>.foldl (fun bs (b, cl) => setBranch bs b cl) s.branches
    .ok { s with branches := bs, next := next, log := log }
  | .merge =>
    let bl := a.items.map (getBranch s.branches)
    match bl with
    | [] => .ok s
    | b0 :: others =>
      let evs := b0.zipIdx.map (fun (inst, i) => Ev.merge inst (others.map (·.getD i 0)))
      .ok { s with log := evs.reverse ++ s.log }
  | .emerge =>
    if first = 1 then .ok { s with branches := setBranch s.branches first (List.range items.length) }
    else
      let (clones, next, log) := cloneItems items rootClone 1 s.next s.log
      .ok { s with branches := setBranch s.branches first (clones.headD []), next := next, log := log }
  | .delete => .ok { s with branches := s.branches.filter (·.1 ≠ first) }
  | .hibernate =>
    a.items.foldlM (fun s b => match hbAll false 0 items (getBranch s.branches b) s.log s.hc with
      | .error e => .error e
      | .ok (log, hc) => .ok { s with log := log, hc := hc }) s
  | .boot =>
    a.items.foldlM (fun s b => match hbAll true 0 items (getBranch s.branches b) s.log s.bc with
      | .error e => .error e
      | .ok (log, bc) => .ok { s with log := log, bc := bc }) s

def runLoop (items : List Item) (rootClone : List Nat) (times : List Int) (plan : List Action) :
    Nat → List Action → RS → Except (String × List Ev) RS
  | _, [], s => .ok s
  | i, a :: rest, s =>
    match stepRun items rootClone times plan i a s with
    | .error e => .error e
    | .ok s => runLoop items rootClone times plan (i + 1) rest s

structure Outcome where
  log : List Ev          -- oldest first
  result : Except String (Int × Int × Nat × List (Nat × Nat))   -- begin, end, #commits, (item, finalized instance)
  deriving Repr

def run (items : List Item) (times : List Int) (ncommits : Nat) (plan : List Action) : Outcome :=
  let n := items.length
  let (rc, next, log) := cloneItems items (List.range n) 1 n []
  let rootClone := rc.headD []
  let s0 : RS := ⟨next, [], log, 0, 0, List.replicate n 0, List.replicate n 0, List.replicate n 0⟩
  match runLoop items rootClone times plan 0 plan s0 with
  | .error (e, log) => ⟨log.reverse, .error e⟩
  | .ok s =>
    let master := match s.branches.foldl (fun (m : Option (Nat × List Nat)) b =>
        match m with | none => some b | some m => if b.1 < m.1 then some b else some m) none with
      | some (_, l) => l | none => []
    let fin := (items.zip master).zipIdx.filter (fun ((it, _), _) => it.full)
    let log := fin.foldl (fun log ((_, inst), j) => Ev.finalize j inst :: Ev.dispose inst :: log) s.log
    ⟨log.reverse, .ok (times.getD ((plan.headD ⟨.emerge, 0, []⟩).commit) 0, s.newest, ncommits,
      fin.map (fun ((_, inst), j) => (j, inst)))⟩

def Ev.fmt : Ev → String
  | .fork i cl => s!"F{i}>{cl}"
  | .consume i c idx m deps => s!"C{i}:{c}:{idx}:{if m then 1 else 0}:" ++
      ",".intercalate (deps.map fun (e, v) => match v with
        | some (p, c) => s!"{e}={p}@{c}" | none => s!"{e}=nil")
  | .merge i o => s!"M{i}<{o}"
  | .hibernate i => s!"H{i}" | .boot i => s!"B{i}" | .dispose i => s!"D{i}" | .finalize j i => s!"Z{j}:{i}"

def Outcome.fmt (o : Outcome) : String :=
  " ".intercalate (o.log.map Ev.fmt) ++ " => " ++
  match o.result with
  | .error e => s!"err {e}"
  | .ok (b, e, n, fin) => s!"ok {b} {e} {n} {fin}"

end Pl
