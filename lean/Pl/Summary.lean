import Pl.Run2Spec
/-! C14, the run summary: begin time = committer time of the first planned commit, end time = the newest committer time
    among the replayed commits, commits = number of input commits. -/
namespace Pl

/-- committer times of the commit actions of a plan, in plan order -/
def commitTimes (times : List Int) (plan : List Action) : List Int :=
  (plan.filter (fun a => a.kind == .commit)).map fun a => times.getD a.commit 0

/-- how `Pipeline.Run` tracks the newest time: the first commit step sets it, later ones raise it -/
def newestAfter : Nat → Int → List Int → Int
  | _, cur, [] => cur
  | idx, cur, t :: ts => newestAfter (idx + 1) (if t > cur || idx = 0 then t else cur) ts

theorem newestAfter_pos (idx : Nat) (hidx : 0 < idx) (cur : Int) (ts : List Int) :
    newestAfter idx cur ts = ts.foldl max cur := by
  induction ts generalizing idx cur with
  | nil => rfl
  | cons t ts ih =>
    have h0 : (idx = 0) = False := by simp; omega
    simp only [newestAfter, List.foldl_cons]
    rw [ih (idx + 1) (by omega)]
    congr 1
    by_cases h : t > cur
    · simp [h]; omega
    · have : ¬ idx = 0 := by omega
      simp [h, this]; omega

/-- from the start of a run the tracked value is the maximum of the commit times seen -/
theorem newestAfter_zero (cur t : Int) (ts : List Int) : newestAfter 0 cur (t :: ts) = ts.foldl max t := by
  simp only [newestAfter]
  rw [newestAfter_pos 1 (by omega)]
  simp

theorem stepCore_newest (items : List Item) (rc : List Nat) (times : List Int) (im : Bool) (a : Action) (s c : Core)
    (evs : List Ev) (h : stepCore items rc times im a s = .ok (c, evs)) :
    c.newest = (if a.kind = .commit then
        (if times.getD a.commit 0 > s.newest || s.idx = 0 then times.getD a.commit 0 else s.newest) else s.newest) := by
  unfold stepCore at h
  cases hk : a.kind <;> simp only [hk] at h
  · split at h
    · simp at h
    · simp at h; obtain ⟨rfl, _⟩ := h; simp
  · simp at h; obtain ⟨rfl, _⟩ := h; simp
  · split at h <;> (simp at h; obtain ⟨rfl, _⟩ := h; simp)
  · split at h <;> (simp at h; obtain ⟨rfl, _⟩ := h; simp)
  all_goals (simp at h; obtain ⟨rfl, _⟩ := h; simp)

theorem step2_core (items : List Item) (rc : List Nat) (times : List Int) (im : Bool) (a : Action) (s s' : RS2)
    (evs : List Ev) (h : step2 items rc times im a s = .ok (s', evs)) :
    s'.core.idx = s.core.idx + (if a.kind = .commit then 1 else 0) ∧
    s'.core.newest = (if a.kind = .commit then
        (if times.getD a.commit 0 > s.core.newest || s.core.idx = 0 then times.getD a.commit 0 else s.core.newest)
        else s.core.newest) := by
  unfold step2 at h
  cases hk : a.kind <;> simp only [hk] at h
  case hibernate =>
    split at h
    · simp at h; obtain ⟨rfl, _⟩ := h; simp
    · simp at h
  case boot =>
    split at h
    · simp at h; obtain ⟨rfl, _⟩ := h; simp
    · simp at h
  all_goals
    split at h
    · rename_i c evs' hc
      simp at h; obtain ⟨rfl, _⟩ := h
      have h1 := stepCore_idx items rc times im a s.core c evs' hc
      have h2 := stepCore_newest items rc times im a s.core c evs' hc
      simp only [hk] at h1 h2
      simp [h1, h2]
    · simp at h

theorem runLoop2_newest (items : List Item) (rc : List Nat) (times : List Int) (plan : List Action)
    (rest : List Action) (i : Nat) (s s' : RS2) (evs : List Ev)
    (h : runLoop2 items rc times plan i rest s = .ok (s', evs)) :
    s'.core.newest = newestAfter s.core.idx s.core.newest (commitTimes times rest) := by
  induction rest generalizing i s evs with
  | nil => simp [runLoop2] at h; obtain ⟨rfl, _⟩ := h; simp [commitTimes, newestAfter]
  | cons a rest ih =>
    simp only [runLoop2] at h
    split at h
    · simp at h
    · rename_i s1 evs1 hs1
      split at h
      · rename_i s2 evs2 hs2
        simp at h; obtain ⟨rfl, _⟩ := h
        have hc := step2_core items rc times _ a s s1 evs1 hs1
        rw [ih (i + 1) s1 evs2 hs2, hc.1, hc.2]
        by_cases hk : a.kind = .commit
        · simp [commitTimes, List.filter_cons, hk, newestAfter]
        · have : (a.kind == Kind.commit) = false := by simpa using hk
          simp [commitTimes, List.filter_cons, hk, this]
      · simp at h

/-- **C14 (summary)**: a successful run reports the committer time of the first planned commit, the number of input
    commits, and — when at least one commit was replayed — the newest committer time among the replayed commits -/
theorem run2_summary (items : List Item) (times : List Int) (n : Nat) (plan : List Action)
    (log : List Ev) (b e : Int) (c : Nat) (fin : List (Nat × Nat))
    (h : run2 items times n plan = ⟨log, .ok (b, e, c, fin)⟩) :
    b = times.getD ((plan.headD ⟨.emerge, 0, []⟩).commit) 0 ∧ c = n ∧
    (∀ t ts, commitTimes times plan = t :: ts → e = ts.foldl max t) := by
  unfold run2 at h
  simp only at h
  split at h
  · simp at h
  · rename_i s evs hs
    simp only [Outcome.mk.injEq, Except.ok.injEq, Prod.mk.injEq] at h
    obtain ⟨_, hb, he, hc, _⟩ := h
    refine ⟨hb.symm, hc.symm, ?_⟩
    intro t ts hct
    have := runLoop2_newest items _ times plan plan 0 _ s evs hs
    rw [← he, this, hct]
    exact newestAfter_zero _ t ts

end Pl
