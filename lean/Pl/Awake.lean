import Pl.Hib2
namespace Pl

/-- lifecycle monitor of one branch: `some hib` = state, `none` = violation (used while hibernated,
    hibernated twice, booted while awake) -/
def stepB (b : Nat) (st : Option Bool) (a : Action) : Option Bool :=
  match st with
  | none => none
  | some hib =>
    if a.items.contains b then
      match a.kind with
      | .boot => if hib then some false else none
      | .hibernate => if hib then none else some true
      | _ => if hib then none else some false
    else some hib

def gapOpen (plan : List Action) (d b x : Nat) : Bool :=
  match prevUse plan x b, nextUseFrom plan x b with
  | some i, some x' => decide (x' - i - 1 > d)
  | _, _ => false

theorem lastUse_append (b : Nat) (l1 l2 : List Action) (i : Nat) (acc : Option Nat) :
    lastUse b (l1 ++ l2) i acc = lastUse b l2 (i + l1.length) (lastUse b l1 i acc) := by
  induction l1 generalizing i acc with
  | nil => simp [lastUse]
  | cons a l1 ih => simp only [List.cons_append, lastUse, ih, List.length_cons]; congr 1; omega

theorem prevUse_here (pre rest : List Action) (b : Nat) :
    prevUse (pre ++ rest) pre.length b = lastUse b pre 0 none := by
  simp [prevUse]

theorem prevUse_next (pre : List Action) (p : Action) (rest : List Action) (b : Nat) :
    prevUse (pre ++ p :: rest) (pre.length + 1) b =
      if uses p b then some pre.length else prevUse (pre ++ p :: rest) pre.length b := by
  have e : pre ++ p :: rest = (pre ++ [p]) ++ rest := by simp
  have h1 : prevUse (pre ++ p :: rest) (pre.length + 1) b = lastUse b (pre ++ [p]) 0 none := by
    rw [e]; have := prevUse_here (pre ++ [p]) rest b; simpa using this
  rw [h1, lastUse_append, prevUse_here]
  simp [lastUse]

theorem nextUseFrom_here (pre : List Action) (p : Action) (rest : List Action) (b : Nat) :
    nextUseFrom (pre ++ p :: rest) pre.length b =
      if uses p b then some pre.length else nextUseFrom (pre ++ p :: rest) (pre.length + 1) b := by
  have e : pre ++ p :: rest = (pre ++ [p]) ++ rest := by simp
  have h2 : (pre ++ p :: rest).drop (pre.length + 1) = rest := by
    rw [e]; have := List.drop_left (l₁ := pre ++ [p]) (l₂ := rest); simpa using this
  simp [nextUseFrom, nextUse, h2]

theorem nextUseFrom_end (plan : List Action) (b : Nat) : nextUseFrom plan plan.length b = none := by
  simp [nextUseFrom, nextUse]

theorem uses_mem {a : Action} {b : Nat} (h : uses a b = true) : b ∈ a.items := by
  simp [uses] at h; exact h.2

theorem mem_bootsAt (plan : List Action) (d x : Nat) (a : Action) (b : Nat) :
    b ∈ bootsAt plan d x a ↔ uses a b = true ∧ ∃ i, prevUse plan x b = some i ∧ x - i - 1 > d := by
  unfold bootsAt
  simp only [List.mem_filter, Bool.and_eq_true]
  constructor
  · rintro ⟨_, hu, hm⟩
    refine ⟨hu, ?_⟩
    split at hm
    · rename_i i hi; exact ⟨i, hi, by simpa using hm⟩
    · simp at hm
  · rintro ⟨hu, i, hi, hg⟩
    exact ⟨uses_mem hu, hu, by simp [hi, hg]⟩

theorem nextUse_mem (b : Nat) (l : List Action) (k x' : Nat) (h : nextUse b l k = some x') :
    ∃ a, (a, x') ∈ l.zipIdx k ∧ uses a b = true := by
  induction l generalizing k with
  | nil => simp [nextUse] at h
  | cons a l ih =>
    simp only [nextUse] at h
    split at h
    · rename_i hu
      simp at h; subst h
      exact ⟨a, by simp [List.zipIdx_cons], hu⟩
    · obtain ⟨a', hm, hu⟩ := ih (k + 1) h
      exact ⟨a', by simp [List.zipIdx_cons, hm], hu⟩

theorem mem_hibsAt (plan : List Action) (d i : Nat) (a : Action) (b : Nat) :
    b ∈ hibsAt plan d i a ↔
      uses a b = true ∧ ∃ x', nextUseFrom plan (i + 1) b = some x' ∧ x' - i - 1 > d := by
  unfold hibsAt
  simp only [List.mem_flatMap, List.mem_filter, Bool.and_eq_true, beq_iff_eq, decide_eq_true_eq, Prod.exists]
  constructor
  · rintro ⟨a', x', _, _, ⟨hu, hn⟩, hg⟩
    exact ⟨hu, x', hn, hg⟩
  · rintro ⟨hu, x', hn, hg⟩
    obtain ⟨a', hm, hu'⟩ := nextUse_mem b _ _ _ hn
    exact ⟨a', x', hm, uses_mem hu', ⟨hu, hn⟩, hg⟩

/-- effect of an inserted boot action on the monitor of b -/
theorem stepB_boot (b : Nat) (hib : Bool) (c : Nat) (bs : List Nat) :
    stepB b (some hib) ⟨.boot, c, bs⟩ =
      if bs.contains b then (if hib then some false else none) else some hib := by
  simp [stepB]

theorem stepB_hib (b : Nat) (hib : Bool) (c : Nat) (hs : List Nat) :
    stepB b (some hib) ⟨.hibernate, c, hs⟩ =
      if hs.contains b then (if hib then none else some true) else some hib := by
  simp [stepB]

/-- plans before hibernation: no hibernate/boot actions, and a disposed branch is not used afterwards -/
def PlainFor (plan : List Action) (b : Nat) : Prop :=
  (∀ a ∈ plan, a.kind ≠ .hibernate ∧ a.kind ≠ .boot) ∧
  ∀ pre p rest, plan = pre ++ p :: rest → p.kind = .delete → p.items.contains b = true →
    nextUseFrom plan (pre.length + 1) b = none

theorem stepB_plain (b : Nat) (p : Action) (h1 : p.kind ≠ .hibernate) (h2 : p.kind ≠ .boot) :
    stepB b (some false) p = some false := by
  unfold stepB
  simp only
  split
  · cases hk : p.kind <;> simp_all
  · rfl

theorem awake_suffix (plan : List Action) (d b : Nat) (hp : PlainFor plan b) :
    ∀ (rest pre : List Action), plan = pre ++ rest →
    ((rest.zipIdx pre.length).flatMap fun (p, x) => emitAt plan d p x).foldl (stepB b)
      (some (gapOpen plan d b pre.length)) = some false := by
  intro rest
  induction rest with
  | nil =>
    intro pre h
    have : pre.length = plan.length := by rw [h]; simp
    simp [gapOpen, this, nextUseFrom_end]
  | cons p rest ih =>
    intro pre h
    have ih' := ih (pre ++ [p]) (by simp [h])
    simp only [List.length_append, List.length_singleton] at ih'
    simp only [List.zipIdx_cons, List.flatMap_cons, List.foldl_append]
    have hk := hp.1 p (by rw [h]; simp)
    have hprev := prevUse_next pre p rest b
    have hnext := nextUseFrom_here pre p rest b
    rw [← h] at hprev hnext
    have hb := mem_bootsAt plan d pre.length p b
    have hh := mem_hibsAt plan d pre.length p b
    -- the state after the three emitted pieces is gapOpen at the next index
    suffices hs : (emitAt plan d p pre.length).foldl (stepB b) (some (gapOpen plan d b pre.length)) =
        some (gapOpen plan d b (pre.length + 1)) by
      rw [hs]; exact ih'
    unfold emitAt
    simp only [List.foldl_append, List.foldl_cons, List.foldl_nil]
    by_cases hu : uses p b = true
    · -- p uses b
      have hg0 : gapOpen plan d b pre.length = decide (b ∈ bootsAt plan d pre.length p) := by
        unfold gapOpen
        rw [hnext]; simp only [hu, if_true]
        cases hpv : prevUse plan pre.length b with
        | none => simp [hb, hpv]
        | some i => simp [hb, hpv, hu]
      have hg1 : gapOpen plan d b (pre.length + 1) = decide (b ∈ hibsAt plan d pre.length p) := by
        unfold gapOpen
        rw [hprev]; simp only [hu, if_true]
        cases hnx : nextUseFrom plan (pre.length + 1) b with
        | none => simp [hh, hnx]
        | some x' => simp [hh, hnx, hu]
      rw [hg0, hg1]
      by_cases c1 : b ∈ bootsAt plan d pre.length p
      · have ne1 : (bootsAt plan d pre.length p).isEmpty = false := by
          cases hbb : bootsAt plan d pre.length p with
          | nil => rw [hbb] at c1; simp at c1
          | cons _ _ => rfl
        simp only [ne1, Bool.false_eq_true, if_false, List.foldl_cons, List.foldl_nil, c1, decide_true]
        rw [stepB_boot]; simp only [List.contains_eq_mem, c1, decide_true, if_true]
        rw [stepB_plain b p hk.1 hk.2]
        by_cases c2 : b ∈ hibsAt plan d pre.length p
        · have ne2 : (hibsAt plan d pre.length p).isEmpty = false := by
            cases hbb : hibsAt plan d pre.length p with
            | nil => rw [hbb] at c2; simp at c2
            | cons _ _ => rfl
          simp only [ne2, Bool.false_eq_true, if_false, List.foldl_cons, List.foldl_nil, c2, decide_true]
          rw [stepB_hib]; simp [c2]
        · simp only [c2, decide_false]
          split
          · rfl
          · simp only [List.foldl_cons, List.foldl_nil]; rw [stepB_hib]; simp [c2]
      · simp only [c1, decide_false]
        have hboot : (if (bootsAt plan d pre.length p).isEmpty = true then []
            else [(⟨.boot, p.commit, bootsAt plan d pre.length p⟩ : Action)]).foldl (stepB b) (some false) = some false := by
          split
          · rfl
          · simp only [List.foldl_cons, List.foldl_nil]; rw [stepB_boot]; simp [c1]
        rw [hboot, stepB_plain b p hk.1 hk.2]
        by_cases c2 : b ∈ hibsAt plan d pre.length p
        · have ne2 : (hibsAt plan d pre.length p).isEmpty = false := by
            cases hbb : hibsAt plan d pre.length p with
            | nil => rw [hbb] at c2; simp at c2
            | cons _ _ => rfl
          simp only [ne2, Bool.false_eq_true, if_false, List.foldl_cons, List.foldl_nil, c2, decide_true]
          rw [stepB_hib]; simp [c2]
        · simp only [c2, decide_false]
          split
          · rfl
          · simp only [List.foldl_cons, List.foldl_nil]; rw [stepB_hib]; simp [c2]
    · -- p does not use b (unrelated action, or the disposal of b)
      have hu' : uses p b = false := by simpa using hu
      have c1 : b ∉ bootsAt plan d pre.length p := fun hc => hu ((hb.1 hc).1)
      have c2 : b ∉ hibsAt plan d pre.length p := fun hc => hu ((hh.1 hc).1)
      have hg : gapOpen plan d b (pre.length + 1) = gapOpen plan d b pre.length := by
        unfold gapOpen; rw [hprev, hnext]; simp [hu']
      rw [hg]
      generalize hst : gapOpen plan d b pre.length = st
      have hboot : (if (bootsAt plan d pre.length p).isEmpty = true then []
          else [(⟨.boot, p.commit, bootsAt plan d pre.length p⟩ : Action)]).foldl (stepB b) (some st) = some st := by
        split
        · rfl
        · simp only [List.foldl_cons, List.foldl_nil]; rw [stepB_boot]; simp [c1]
      rw [hboot]
      have hp' : stepB b (some st) p = some st := by
        by_cases hc : p.items.contains b = true
        · -- must be the disposal of b: nothing uses b later, so b is awake
          have hdel : p.kind = .delete := by
            simp only [uses, Bool.and_eq_false_iff, bne_eq_false_iff_eq, beq_iff_eq] at hu'
            rcases hu' with h1 | h1
            · exact h1
            · rw [hc] at h1; simp at h1
          have hnone := hp.2 pre p rest h hdel hc
          have : st = false := by
            rw [← hst]; unfold gapOpen; rw [hnext]; simp [hu', hnone]
          subst this
          exact stepB_plain b p hk.1 hk.2
        · have hc' : p.items.contains b = false := by simpa using hc
          simp only [stepB, hc', Bool.false_eq_true, if_false]
      rw [hp']
      split
      · rfl
      · simp only [List.foldl_cons, List.foldl_nil]; rw [stepB_hib]; simp [c2]

/-- **C04-T2 (second half)**: after hibernate/boot insertion with any distance, every branch is awake whenever
    it is used or disposed, is never hibernated twice or booted while awake, and nothing is left hibernated. -/
theorem insertHB2_awake (plan : List Action) (d b : Nat) (hp : PlainFor plan b) :
    (insertHB2 plan d).foldl (stepB b) (some false) = some false := by
  have := awake_suffix plan d b hp plan [] rfl
  simp only [List.length_nil] at this
  have h0 : gapOpen plan d b 0 = false := by simp [gapOpen, prevUse, lastUse]
  rw [h0] at this
  exact this

end Pl
