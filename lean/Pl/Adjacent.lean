import Pl.IsMerge
/-! C14: the adjacency premise of `isMerge_iff` as an executable check on plans, with its soundness.  The correspondence
    evaluates `adjOK` on every plan the real planner produced for a graph without a redundant parent edge (plans for
    graphs with such an edge are the recorded planner findings). -/
namespace Pl

def isCB (c : Nat) (a : Action) : Bool := a.kind == .commit && a.commit == c
def isHB (a : Action) : Bool := a.kind == .hibernate || a.kind == .boot

theorem isCB_iff (c : Nat) (a : Action) : isCB c a = true ↔ IsC c a := by
  simp [isCB, IsC]

theorem isHB_iff (a : Action) : isHB a = true ↔ HB a := by
  simp [isHB, HB]

/-- after a replay of `c`: once something other than hibernate/boot/replay-of-`c` was met, `c` is not replayed again -/
def adjFrom (c : Nat) (l : List Action) : Bool :=
  !((l.dropWhile fun a => isHB a || isCB c a).any (isCB c))

def adjOK (plan : List Action) : Bool :=
  (match plan with | a :: _ => a.kind != .commit | [] => true) &&
  plan.zipIdx.all fun x => x.1.kind != .commit || adjFrom x.1.commit (plan.drop (x.2 + 1))

theorem mem_dropWhile_after {p : Action → Bool} (y : Action) (B2 : List Action) :
    ∀ B1 : List Action, (∃ a ∈ B1, p a = false) → y ∈ (B1 ++ y :: B2).dropWhile p := by
  intro B1
  induction B1 with
  | nil => rintro ⟨a, ha, _⟩; simp at ha
  | cons b B1 ih =>
    rintro ⟨a, ha, hpa⟩
    simp only [List.cons_append, List.dropWhile_cons]
    by_cases hb : p b = true
    · simp only [hb, if_true]
      rcases List.mem_cons.mp ha with rfl | ha
      · rw [hpa] at hb; cases hb
      · exact ih ⟨a, ha, hpa⟩
    · simp only [hb, Bool.false_eq_true, if_false]
      simp

theorem adjFrom_sound (c : Nat) (l : List Action) (h : adjFrom c l = true) :
    ∀ B1 y B2, l = B1 ++ y :: B2 → IsC c y → ∀ a ∈ B1, HB a ∨ IsC c a := by
  intro B1 y B2 hl hy a ha
  by_cases hok : (isHB a || isCB c a) = true
  · rcases Bool.or_eq_true_iff.mp hok with h1 | h1
    · exact Or.inl ((isHB_iff a).mp h1)
    · exact Or.inr ((isCB_iff c a).mp h1)
  · exfalso
    have hm := mem_dropWhile_after (p := fun a => isHB a || isCB c a) y B2 B1 ⟨a, ha, by simpa using hok⟩
    unfold adjFrom at h
    rw [hl] at h
    simp only [Bool.not_eq_true', List.any_eq_false] at h
    have := h y hm
    rw [(isCB_iff c y).mpr hy] at this
    exact this rfl

/-- soundness of the check: the three premises of `isMerge_iff` at every replay position -/
theorem adjOK_sound (plan : List Action) (h : adjOK plan = true) (A B : List Action) (x : Action) (c : Nat)
    (hp : plan = A ++ x :: B) (hx : IsC c x) :
    (∀ B1 y B2, B = B1 ++ y :: B2 → IsC c y → ∀ a ∈ B1, HB a ∨ IsC c a) ∧
    (∀ A1 y A2, A = A1 ++ y :: A2 → IsC c y → ∀ a ∈ A2, HB a ∨ IsC c a) ∧
    (∀ a A', A = a :: A' → ¬ IsC c a) := by
  unfold adjOK at h
  rw [Bool.and_eq_true] at h
  obtain ⟨h0, hall⟩ := h
  rw [List.all_eq_true] at hall
  have at_pos : ∀ (P : List Action) (z : Action) (S : List Action), plan = P ++ z :: S → IsC c z → adjFrom c S = true := by
    intro P z S hpl hz
    have hmem : (z, P.length) ∈ plan.zipIdx := by
      rw [List.mem_zipIdx_iff_getElem?, hpl]; simp
    have := hall (z, P.length) hmem
    simp only [Bool.or_eq_true, bne_iff_ne, ne_eq] at this
    rcases this with h1 | h1
    · exact absurd hz.1 h1
    · rw [hz.2, hpl] at h1
      simpa using h1
  refine ⟨adjFrom_sound c B (at_pos A x B hp hx), ?_, ?_⟩
  · intro A1 y A2 hA hy a ha
    have hpl : plan = A1 ++ y :: (A2 ++ x :: B) := by rw [hp, hA]; simp
    have := adjFrom_sound c (A2 ++ x :: B) (at_pos A1 y _ hpl hy) A2 x B rfl hx
    exact this a ha
  · intro a A' hA hc
    rw [hp, hA] at h0
    simp only [List.cons_append, bne_iff_ne, ne_eq] at h0
    exact h0 hc.1

/-- **C14, merge flag on checked plans**: on a plan that passes `adjOK`, at every replay the merge flag handed to the
items is true exactly when the same commit is replayed somewhere else in the plan -/
theorem isMerge_of_adjOK (plan : List Action) (h : adjOK plan = true) (A B : List Action) (x : Action) (c : Nat)
    (hp : plan = A ++ x :: B) (hx : IsC c x) :
    isMerge plan A.length c = true ↔ ∃ y ∈ A ++ B, IsC c y := by
  obtain ⟨h1, h2, h3⟩ := adjOK_sound plan h A B x c hp hx
  rw [hp]
  exact isMerge_iff A B x c h1 h2 h3

end Pl
