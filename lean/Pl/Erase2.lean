import Pl.Hib2
import Pl.Hib
namespace Pl

theorem erase_emitAt (plan : List Action) (d : Nat) (p : Action) (x : Nat) (h : isHB p = false) :
    erase (emitAt plan d p x) = [p] := by
  unfold emitAt erase
  simp only [List.filter_append, List.filter_cons, List.filter_nil]
  have hb : ∀ (c : Nat) (l : List Nat), isHB ⟨.boot, c, l⟩ = true := by intro c l; rfl
  have hh : ∀ (c : Nat) (l : List Nat), isHB ⟨.hibernate, c, l⟩ = true := by intro c l; rfl
  split <;> split <;> simp_all

/-- erasing the inserted actions gives the input plan back (declarative model) -/
theorem erase_insertHB2 (plan : List Action) (d : Nat) (h : ∀ a ∈ plan, isHB a = false) :
    erase (insertHB2 plan d) = plan := by
  unfold insertHB2
  suffices hs : ∀ (rest : List Action) (k : Nat), (∀ a ∈ rest, isHB a = false) →
      erase ((rest.zipIdx k).flatMap fun (p, x) => emitAt plan d p x) = rest from hs plan 0 h
  intro rest
  induction rest with
  | nil => intro k _; simp [erase]
  | cons p rest ih =>
    intro k hr
    simp only [List.zipIdx_cons, List.flatMap_cons]
    have : ∀ (a b : List Action), erase (a ++ b) = erase a ++ erase b := by
      intro a b; simp [erase]
    rw [this, erase_emitAt plan d p k (hr p (by simp)), ih (k + 1) (fun a ha => hr a (by simp [ha]))]
    rfl

end Pl
