import Pl.Anc
namespace Pl

def isHB (a : Action) : Bool := a.kind == .hibernate || a.kind == .boot

/-- drop every hibernate / boot action -/
def erase (plan : List Action) : List Action := plan.filter (fun a => !isHB a)

theorem pass2_erase (boots hibs : List (Nat × Nat)) (plan : List Action) (x : Nat)
    (h : ∀ a ∈ plan, isHB a = false) :
    erase (insertHibernateBoot.pass2 boots hibs x plan) = plan := by
  induction plan generalizing x with
  | nil => simp [insertHibernateBoot.pass2, erase]
  | cons p rest ih =>
    have hp : isHB p = false := h p (by simp)
    have hrest := ih (x + 1) (fun a ha => h a (by simp [ha]))
    simp only [insertHibernateBoot.pass2]
    unfold erase at hrest ⊢
    simp only [List.filter_append, List.filter_cons, List.filter_nil]
    rw [hrest]
    have hb : ∀ (c : Nat) (l : List Nat), isHB ⟨.boot, c, l⟩ = true := by intro c l; rfl
    have hh : ∀ (c : Nat) (l : List Nat), isHB ⟨.hibernate, c, l⟩ = true := by intro c l; rfl
    split <;> split <;> simp_all

/-- **C04-T2 (first half)**: hibernation only inserts hibernate/boot actions — erasing them gives the
    plan back, for every plan and every distance -/
theorem erase_insertHibernateBoot (plan : List Action) (d : Nat) (h : ∀ a ∈ plan, isHB a = false) :
    erase (insertHibernateBoot plan d) = plan := by
  unfold insertHibernateBoot
  simp only
  exact pass2_erase _ _ plan 0 h

end Pl
