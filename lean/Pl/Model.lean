/-! Model of collectGarbage and insertHibernateBoot (internal/core/forks.go). -/
namespace Pl

inductive Kind | commit | fork | merge | emerge | delete | hibernate | boot
  deriving DecidableEq, Repr

structure Action where
  kind : Kind
  commit : Nat          -- commit index (0 when none)
  items : List Nat
  deriving Repr, DecidableEq

def Kind.code : Kind → String
  | .commit => "C" | .fork => "F" | .merge => "M" | .emerge => "E"
  | .delete => "D" | .hibernate => "H" | .boot => "B"

/-- last index at which a branch is mentioned by a commit / fork(first item) / merge(all) / emerge -/
def lastMentioned (plan : List Action) : List (Nat × Nat) :=   -- (branch, index), later entries win
  let rec go (i : Nat) (ps : List Action) (acc : List (Nat × Nat)) : List (Nat × Nat) :=
    match ps with
    | [] => acc
    | p :: rest =>
      let upd (acc : List (Nat × Nat)) (b : Nat) := (b, i) :: acc.filter (·.1 ≠ b)
      let acc := match p.kind with
        | .commit | .fork | .emerge => upd acc (p.items.headD 0)
        | .merge => p.items.foldl upd acc
        | _ => acc
      go (i + 1) rest acc
  go 0 plan []

/-- collectGarbage: a delete action right after the last mention of every branch that is not
    mentioned by the very last action; ties at the same index are emitted in ascending branch
    order (the Go code emits them in map order; the harness sorts consecutive deletes) -/
def collectGarbage (plan : List Action) : List Action :=
  let lm := (lastMentioned plan).filter (fun (_, i) => i + 1 ≠ plan.length)
  if lm.isEmpty then plan else
  let rec go (i : Nat) (ps : List Action) : List Action :=
    match ps with
    | [] => []
    | p :: rest =>
      let dels := ((lm.filter (·.2 = i)).map (·.1)).mergeSort (· ≤ ·)
      p :: dels.map (fun b => ⟨.delete, 0, [b]⟩) ++ go (i + 1) rest
  go 0 plan

/-- insertHibernateBoot -/
def insertHibernateBoot (plan : List Action) (dist : Nat) : List Action :=
  -- pass 1: addons (index → boots, hibernates) in the order the Go loops append them
  let rec pass1 (x : Nat) (ps : List Action) (lastUsed : List (Nat × Nat))
      (boots hibs : List (Nat × Nat)) : List (Nat × Nat) × List (Nat × Nat) :=
    match ps with
    | [] => (boots, hibs)
    | p :: rest =>
      if p.kind = .delete then pass1 (x + 1) rest lastUsed boots hibs else
      let step := fun (st : List (Nat × Nat) × List (Nat × Nat) × List (Nat × Nat)) (item : Nat) =>
        let (lu, bs, hs) := st
        let (bs, hs) := match lu.find? (·.1 = item) with
          | some (_, i) => if x - i - 1 > dist ∧ x ≥ i + 1 then (bs ++ [(x, item)], hs ++ [(i, item)]) else (bs, hs)
          | none => (bs, hs)
        ((item, x) :: lu.filter (·.1 ≠ item), bs, hs)
      let (lu, bs, hs) := p.items.foldl step (lastUsed, boots, hibs)
      pass1 (x + 1) rest lu bs hs
  let (boots, hibs) := pass1 0 plan [] [] []
  let rec pass2 (x : Nat) (ps : List Action) : List Action :=
    match ps with
    | [] => []
    | p :: rest =>
      let b := (boots.filter (·.1 = x)).map (·.2)
      let h := (hibs.filter (·.1 = x)).map (·.2)
      (if b.isEmpty then [] else [⟨.boot, p.commit, b⟩]) ++ [p] ++
      (if h.isEmpty then [] else [⟨.hibernate, p.commit, h⟩]) ++ pass2 (x + 1) rest
  pass2 0 plan

def fmt (plan : List Action) : String :=
  " ".intercalate (plan.map fun a =>
    match a.kind with
    | .commit => s!"C{a.commit}@{a.items.headD 0}"
    | k => s!"{k.code}{a.items}")

end Pl
