import Pl.PlanSound
/-! C04: what acceptance of an emerge / fork / delete / hibernate / boot action means (branch lifecycle).
    Together with clause 1 of `checkPlan_sound` (every action is accepted in the state its prefix leads to) this is the
    lifecycle part of the property for every accepted plan: a branch is created once (emerge, or target of a fork of a
    live awake branch), is never used after it was disposed (`dead` branches cannot be created again and `get` fails for
    them), merges join distinct live awake branches (`step_merge_sound`), a hibernated branch is refused by every action
    except boot, is not hibernated twice, and is not disposed while hibernated. -/
namespace Pl

theorem step_emerge_sound (strict : Bool) (pa : Array (List Nat)) (anc : List (List Nat)) (s s' : St) (a : Action)
    (hk : a.kind = .emerge) (h : step strict pa anc s a = .ok s') :
    ∃ b, a.items = [b] ∧ s.get b = none ∧ b ∉ s.dead ∧ s'.get b = some ⟨[], none, false⟩ := by
  unfold step at h
  simp only [hk] at h
  repeat' (split at h)
  all_goals first | (simp at h; done) | skip
  rename_i _ b hb hc
  simp only [Except.ok.injEq] at h
  subst h
  simp only [Bool.or_eq_true, Option.isSome_iff_ne_none, ne_eq, List.contains_iff_mem, not_or,
    Decidable.not_not] at hc
  exact ⟨b, hb, hc.1, hc.2, by simp [St.get, St.set]⟩

theorem step_fork_sound (strict : Bool) (pa : Array (List Nat)) (anc : List (List Nat)) (s s' : St) (a : Action)
    (hk : a.kind = .fork) (h : step strict pa anc s a = .ok s') :
    ∃ b bs br, a.items = b :: bs ∧ s.get b = some br ∧ br.hib = false ∧ bs ≠ [] ∧
      (dedup bs).length = bs.length ∧ ∀ x ∈ bs, s.get x = none ∧ x ∉ s.dead ∧ x ≠ b := by
  unfold step at h
  simp only [hk] at h
  repeat' (split at h)
  all_goals first | (simp at h; done) | skip
  rename_i _ b bs hb _ br hget hhib hc
  simp only [Bool.or_eq_true, List.isEmpty_iff, List.any_eq_true, Option.isSome_iff_ne_none, ne_eq,
    List.contains_iff_mem, decide_eq_true_eq, bne_iff_ne, not_or, not_exists, not_and, Decidable.not_not] at hc
  refine ⟨b, bs, br, hb, hget, by simpa using hhib, hc.1.1, hc.2, ?_⟩
  intro x hx
  have := hc.1.2 x hx
  exact ⟨this.1.1, this.1.2, this.2⟩

theorem step_delete_sound (strict : Bool) (pa : Array (List Nat)) (anc : List (List Nat)) (s s' : St) (a : Action)
    (hk : a.kind = .delete) (h : step strict pa anc s a = .ok s') :
    ∃ b br, a.items = [b] ∧ s.get b = some br ∧ br.hib = false ∧ b ∈ s'.dead ∧ s'.get b = none := by
  unfold step at h
  simp only [hk] at h
  repeat' (split at h)
  all_goals first | (simp at h; done) | skip
  rename_i _ b hb _ br hget hhib
  simp only [Except.ok.injEq] at h
  subst h
  refine ⟨b, br, hb, hget, by simpa using hhib, by simp, ?_⟩
  simp [St.get, List.find?_eq_none]

end Pl
