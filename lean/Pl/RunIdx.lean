import Pl.RunSpec
namespace Pl

theorem foldlM_idx {β : Type} (f : RS → β → Except (String × List Ev) RS)
    (hf : ∀ s b s', f s b = .ok s' → s'.idx = s.idx ∧ s'.newest = s.newest) (l : List β) (s s' : RS)
    (h : l.foldlM f s = .ok s') : s'.idx = s.idx ∧ s'.newest = s.newest := by
  induction l generalizing s with
  | nil => simp [List.foldlM] at h; cases h; exact ⟨rfl, rfl⟩
  | cons b l ih =>
    simp only [List.foldlM_cons] at h
    cases hb : f s b with
    | error e => simp [hb, bind, Except.bind] at h
    | ok s1 =>
      simp [hb, bind, Except.bind] at h
      have := ih s1 h
      have h1 := hf s b s1 hb
      exact ⟨this.1.trans h1.1, this.2.trans h1.2⟩

/-- the commit index handed to the items grows by exactly one per commit action and by nothing else -/
theorem stepRun_idx (items : List Item) (rc : List Nat) (times : List Int) (plan : List Action)
    (i : Nat) (a : Action) (s s' : RS) (h : stepRun items rc times plan i a s = .ok s') :
    s'.idx = s.idx + (if a.kind = .commit then 1 else 0) := by
  unfold stepRun at h
  cases hk : a.kind <;> simp only [hk] at h
  · -- commit
    split at h
    · simp at h
    · simp at h; subst h; simp
  · simp at h; subst h; simp
  · split at h <;> (simp at h; subst h; simp)
  · split at h <;> (simp at h; subst h; simp)
  · simp at h; subst h; simp
  · have := foldlM_idx _ (by
      intro s b s1 hb
      split at hb
      · simp at hb
      · simp at hb; subst hb; exact ⟨rfl, rfl⟩) a.items s s' h
    simp [this.1]
  · have := foldlM_idx _ (by
      intro s b s1 hb
      split at hb
      · simp at hb
      · simp at hb; subst hb; exact ⟨rfl, rfl⟩) a.items s s' h
    simp [this.1]

/-- **C14-T2**: after a successful run of a plan suffix the index has advanced by the number of commit actions -/
theorem runLoop_idx (items : List Item) (rc : List Nat) (times : List Int) (plan : List Action) :
    ∀ (rest : List Action) (i : Nat) (s s' : RS),
    runLoop items rc times plan i rest s = .ok s' →
    s'.idx = s.idx + (rest.filter (fun a => a.kind = .commit)).length := by
  intro rest
  induction rest with
  | nil => intro i s s' h; simp [runLoop] at h; subst h; simp
  | cons a rest ih =>
    intro i s s' h
    simp only [runLoop] at h
    split at h
    · simp at h
    · rename_i s1 hs1
      have h1 := stepRun_idx items rc times plan i a s s1 hs1
      have h2 := ih (i + 1) s1 s' h
      rw [h2, h1]
      by_cases hk : a.kind = .commit <;> simp [hk, List.filter_cons] <;> omega

end Pl
