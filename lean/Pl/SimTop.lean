import Pl.Sim
namespace Pl

/-- merge flag invariance for any prefix whose first action (if any) is not a hibernate/boot -/
theorem isMerge_erase' (pre B : List Action) (x : Action) (c : Nat)
    (h0 : ∀ a0 A, pre = a0 :: A → isHB a0 = false) (hx : isHB x = false) :
    isMerge (pre ++ x :: B) pre.length c = isMerge (erase pre ++ x :: erase B) (erase pre).length c := by
  cases pre with
  | nil =>
    have e : erase ([] : List Action) = [] := rfl
    rw [e]
    simp only [List.nil_append, List.length_nil]
    have h1 := isMerge_split [] B x c
    have h2 := isMerge_split [] (erase B) x c
    simp only [List.nil_append, List.length_nil] at h1 h2
    rw [h1, h2, scanMatch_erase]
  | cons a0 A =>
    have := isMerge_erase a0 A B x c (h0 a0 A rfl) hx
    simpa using this

theorem erase_cons_hb (a : Action) (l : List Action) (h : isHB a = true) : erase (a :: l) = erase l := by
  simp [erase, h]
theorem erase_cons_nhb (a : Action) (l : List Action) (h : isHB a = false) : erase (a :: l) = a :: erase l := by
  simp [erase, h]

/-- outcomes of the two runs are related: same result, and the hibernating run's events without its
    hibernate/boot events are the plain run's events -/
def Related : Except Fail (RS2 × List Ev) → Except Fail (RS2 × List Ev) → Prop
  | .ok (t', evs'), .ok (t, evs) => t'.core = t.core ∧ evs'.filter notHBev = evs
  | .error (m', evs'), .error (m, evs) => m' = m ∧ evs'.filter notHBev = evs
  | _, _ => False

theorem step2_hb (items : List Item) (hn : NoHBFail items) (rc : List Nat) (times : List Int) (im : Bool)
    (a : Action) (s : RS2) (h : isHB a = true) :
    ∃ t evs, step2 items rc times im a s = .ok (t, evs) ∧ t.core = s.core ∧ evs.filter notHBev = [] := by
  have hk : a.kind = .hibernate ∨ a.kind = .boot := by
    simp only [isHB, Bool.or_eq_true, beq_iff_eq] at h; exact h
  rcases hk with hk | hk
  · obtain ⟨evs, c', h1, h2⟩ := stepHB_ok items hn false s.core.branches a.items s.hc
    exact ⟨{ s with hc := c' }, evs, by simp [step2, hk, h1], rfl, h2⟩
  · obtain ⟨evs, c', h1, h2⟩ := stepHB_ok items hn true s.core.branches a.items s.bc
    exact ⟨{ s with bc := c' }, evs, by simp [step2, hk, h1], rfl, h2⟩

theorem step2_core (items : List Item) (rc : List Nat) (times : List Int) (im : Bool)
    (a : Action) (s : RS2) (h : isHB a = false) :
    step2 items rc times im a s =
      match stepCore items rc times im a s.core with
      | .ok (c, evs) => .ok ({ s with core := c }, evs)
      | .error e => .error e := by
  have hk : a.kind ≠ .hibernate ∧ a.kind ≠ .boot := by
    simp only [isHB, Bool.or_eq_false_iff, beq_eq_false_iff_ne, ne_eq] at h; exact h
  unfold step2
  cases hkk : a.kind <;> simp_all <;> rfl

theorem sim (items : List Item) (hn : NoHBFail items) (rc : List Nat) (times : List Int) (plan' : List Action) :
    ∀ (rest' pre' : List Action) (s' s : RS2), plan' = pre' ++ rest' → s'.core = s.core →
    (∀ a0 A, plan' = a0 :: A → isHB a0 = false) →
    Related (runLoop2 items rc times plan' pre'.length rest' s')
            (runLoop2 items rc times (erase plan') (erase pre').length (erase rest') s) := by
  intro rest'
  induction rest' with
  | nil =>
    intro pre' s' s _ hc _
    have e : erase ([] : List Action) = [] := rfl
    simp only [e, runLoop2, Related]
    exact ⟨hc, rfl⟩
  | cons a rest' ih =>
    intro pre' s' s hp hc h0
    have hp' : plan' = (pre' ++ [a]) ++ rest' := by simp [hp]
    have hlen : (pre' ++ [a]).length = pre'.length + 1 := by simp
    by_cases hb : isHB a = true
    · -- a hibernate/boot action: the plain run does not see it
      obtain ⟨t, evs, h1, h2, h3⟩ := step2_hb items hn rc times (isMerge plan' pre'.length a.commit) a s' hb
      have ih' := ih (pre' ++ [a]) t s hp' (h2.trans hc) h0
      have e1 : erase (pre' ++ [a]) = erase pre' := by rw [erase_append, erase_cons_hb a [] hb]; simp [erase]
      rw [hlen, e1] at ih'
      rw [erase_cons_hb a rest' hb]
      simp only [runLoop2, h1]
      revert ih'
      cases runLoop2 items rc times plan' (pre'.length + 1) rest' t with
      | ok r =>
        cases runLoop2 items rc times (erase plan') (erase pre').length (erase rest') s with
        | ok r2 => intro ih'; simp only [Related] at ih' ⊢; exact ⟨ih'.1, by simp [List.filter_append, h3, ih'.2]⟩
        | error r2 => intro ih'; exact ih'.elim
      | error r =>
        cases runLoop2 items rc times (erase plan') (erase pre').length (erase rest') s with
        | ok r2 => intro ih'; exact ih'.elim
        | error r2 => intro ih'; simp only [Related] at ih' ⊢; exact ⟨ih'.1, by simp [List.filter_append, h3, ih'.2]⟩
    · have hb' : isHB a = false := by simpa using hb
      rw [erase_cons_nhb a rest' hb']
      have hpre0 : ∀ a0 A, pre' = a0 :: A → isHB a0 = false := by
        intro a0 A e; exact h0 a0 (A ++ a :: rest') (by rw [hp, e]; simp)
      have him : isMerge plan' pre'.length a.commit = isMerge (erase plan') (erase pre').length a.commit := by
        rw [hp, erase_append, erase_cons_nhb a rest' hb']
        exact isMerge_erase' pre' rest' a a.commit hpre0 hb'
      simp only [runLoop2]
      rw [step2_core items rc times _ a s' hb', step2_core items rc times _ a s hb', ← him, hc]
      have hev := stepCore_events items rc times (isMerge plan' pre'.length a.commit) a s.core
      cases hst : stepCore items rc times (isMerge plan' pre'.length a.commit) a s.core with
      | error e =>
        obtain ⟨m, evs⟩ := e
        simp only [Related]
        exact ⟨by first | rfl | trivial, hev.2 m evs hst⟩
      | ok r =>
        obtain ⟨c, evs⟩ := r
        simp only
        have ih' := ih (pre' ++ [a]) { s' with core := c } { s with core := c } hp' rfl h0
        have e1 : erase (pre' ++ [a]) = erase pre' ++ [a] := by rw [erase_append, erase_cons_nhb a [] hb']; simp [erase]
        rw [hlen, e1] at ih'
        simp only [List.length_append, List.length_singleton] at ih'
        revert ih'
        cases runLoop2 items rc times plan' (pre'.length + 1) rest' { s' with core := c } with
        | ok r1 =>
          cases runLoop2 items rc times (erase plan') ((erase pre').length + 1) (erase rest') { s with core := c } with
          | ok r2 => intro ih'; simp only [Related] at ih' ⊢; exact ⟨ih'.1, by simp [List.filter_append, hev.1 c evs hst, ih'.2]⟩
          | error r2 => intro ih'; exact ih'.elim
        | error r1 =>
          cases runLoop2 items rc times (erase plan') ((erase pre').length + 1) (erase rest') { s with core := c } with
          | ok r2 => intro ih'; exact ih'.elim
          | error r2 => intro ih'; simp only [Related] at ih' ⊢; exact ⟨ih'.1, by simp [List.filter_append, hev.1 c evs hst, ih'.2]⟩

/-- **C09 (plan level)**: with items whose hibernation cannot fail, running a plan and running the same plan
    without its hibernate/boot actions produce the same result and the same events, apart from the
    hibernate/boot events themselves. -/
theorem run2_transparent (items : List Item) (hn : NoHBFail items) (times : List Int) (n : Nat) (plan' : List Action)
    (h0 : ∀ a0 A, plan' = a0 :: A → isHB a0 = false) :
    (run2 items times n plan').result = (run2 items times n (erase plan')).result ∧
    (run2 items times n plan').log.filter notHBev = (run2 items times n (erase plan')).log := by
  unfold run2
  simp only
  generalize hcl : cloneItems2 items (List.range items.length) 1 items.length = cl
  obtain ⟨rcs, next, evs0⟩ := cl
  simp only
  have hev0 : evs0.filter notHBev = evs0 := by
    have := cloneItems2_events items (List.range items.length) 1 items.length
    rw [hcl] at this; exact this
  have hs := sim items hn (rcs.headD []) times plan' plan' []
    ⟨⟨next, [], 0, 0, List.replicate items.length 0⟩, List.replicate items.length 0, List.replicate items.length 0⟩
    ⟨⟨next, [], 0, 0, List.replicate items.length 0⟩, List.replicate items.length 0, List.replicate items.length 0⟩
    rfl rfl h0
  have e0 : erase ([] : List Action) = [] := rfl
  simp only [List.length_nil, e0] at hs
  have hhead : (plan'.headD ⟨.emerge, 0, []⟩).commit = ((erase plan').headD ⟨.emerge, 0, []⟩).commit := by
    cases plan' with
    | nil => rfl
    | cons a0 A => rw [erase_cons_nhb a0 A (h0 a0 A rfl)]; rfl
  revert hs
  cases runLoop2 items (rcs.headD []) times plan' 0 plan' _ with
  | ok r1 =>
    cases runLoop2 items (rcs.headD []) times (erase plan') 0 (erase plan') _ with
    | ok r2 =>
      intro hs
      obtain ⟨t', evs'⟩ := r1
      obtain ⟨t, evs⟩ := r2
      simp only [Related] at hs
      simp only [hs.1, hhead]
      refine ⟨by first | rfl | trivial, ?_⟩
      simp only [List.filter_append, hev0, hs.2]
      congr 1
      rw [List.filter_eq_self]
      intro e he
      obtain ⟨p, _, hp⟩ := List.mem_flatMap.1 he
      simp at hp
      rcases hp with rfl | rfl <;> rfl
    | error r2 => intro hs; exact hs.elim
  | error r1 =>
    cases runLoop2 items (rcs.headD []) times (erase plan') 0 (erase plan') _ with
    | ok r2 => intro hs; exact hs.elim
    | error r2 =>
      intro hs
      obtain ⟨m', evs'⟩ := r1
      obtain ⟨m, evs⟩ := r2
      simp only [Related] at hs
      simp only [hs.1]
      exact ⟨by first | rfl | trivial, by simp only [List.filter_append, hev0, hs.2]⟩

end Pl
