/-! Model of core.OneShotMergeProcessor (internal/core/forks.go): the `merges` set is shared by all copies
    of an item, so it is one global list here. -/
namespace OneShot

/-- (consumed?, new set) for a replay of commit `c` that has `np` parents -/
def should (seen : List Nat) (c np : Nat) : Bool × List Nat :=
  if np ≤ 1 then (true, seen) else if seen.contains c then (false, seen) else (true, c :: seen)

/-- the commits an analysis actually counts, over a sequence of replays -/
def counted (np : Nat → Nat) : List Nat → List Nat → List Nat
  | [], _ => []
  | c :: rest, seen =>
    let r := should seen c (np c)
    (if r.1 then [c] else []) ++ counted np rest r.2

theorem counted_count_single (np : Nat → Nat) (c : Nat) (h : np c ≤ 1) (replays seen : List Nat) :
    (counted np replays seen).count c = replays.count c := by
  induction replays generalizing seen with
  | nil => simp [counted]
  | cons d rest ih =>
    simp only [counted, should]
    by_cases hd : d = c
    · subst hd; simp [h, ih]
    · have hdc : (d == c) = false := by simpa using hd
      split
      · simp [List.count_cons, hdc, ih]
      · split <;> simp [List.count_cons, hdc, ih]

theorem counted_count_merge (np : Nat → Nat) (c : Nat) (h : 1 < np c) (replays seen : List Nat) :
    (counted np replays seen).count c = if c ∈ seen then 0 else if c ∈ replays then 1 else 0 := by
  induction replays generalizing seen with
  | nil => simp [counted]
  | cons d rest ih =>
    simp only [counted, should]
    by_cases hd : d = c
    · subst hd
      have : ¬ np d ≤ 1 := by omega
      by_cases hs : d ∈ seen
      · simp [this, hs, ih]
      · simp [this, hs, ih]
    · have hdc : (d == c) = false := by simpa using hd
      have hcd : ¬ c = d := fun e => hd e.symm
      by_cases h1 : np d ≤ 1
      · simp [h1, List.count_cons, hdc, ih, hcd]
      · by_cases hs : d ∈ seen
        · simp [h1, hs, ih, hcd]
        · simp [h1, hs, ih, hcd, List.count_cons, hdc]

/-- **C12-T2**: over any replay sequence in which commits with at most one parent are replayed once, every
    replayed commit is counted exactly once — a merge commit no matter how often it is replayed. -/
theorem counted_once (np : Nat → Nat) (replays : List Nat) (c : Nat) (hc : c ∈ replays)
    (hsingle : np c ≤ 1 → replays.count c = 1) : (counted np replays []).count c = 1 := by
  by_cases h : np c ≤ 1
  · rw [counted_count_single np c h, hsingle h]
  · rw [counted_count_merge np c (by omega)]
    simp [hc]

end OneShot
