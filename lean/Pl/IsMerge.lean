import Pl.Run
namespace Pl

def HB (a : Action) : Prop := a.kind = .hibernate ∨ a.kind = .boot
def IsC (c : Nat) (a : Action) : Prop := a.kind = .commit ∧ a.commit = c

theorem scan_of_adj (c : Nat) (l1 : List Action) (y : Action) (l2 : List Action)
    (hy : IsC c y) (h1 : ∀ a ∈ l1, HB a ∨ IsC c a) : scanMatch c (l1 ++ y :: l2) = true := by
  induction l1 with
  | nil => simp [scanMatch, hy.1, hy.2]
  | cons a l1 ih =>
    have ih := ih (fun b hb => h1 b (by simp [hb]))
    rcases h1 a (by simp) with (h | h) | h
    · simp [scanMatch, h, ih]
    · simp [scanMatch, h, ih]
    · simp [scanMatch, h.1, h.2]

theorem scan_true (c : Nat) (l : List Action) (h : scanMatch c l = true) : ∃ y ∈ l, IsC c y := by
  induction l with
  | nil => simp [scanMatch] at h
  | cons a l ih =>
    unfold scanMatch at h
    split at h
    · obtain ⟨y, hy, hc⟩ := ih h; exact ⟨y, by simp [hy], hc⟩
    · obtain ⟨y, hy, hc⟩ := ih h; exact ⟨y, by simp [hy], hc⟩
    · rename_i hk
      exact ⟨a, by simp, hk, by simpa using h⟩
    · simp at h

theorem isMerge_split (A B : List Action) (x : Action) (c : Nat) :
    isMerge (A ++ x :: B) A.length c = (scanMatch c (A.drop 1).reverse || scanMatch c B) := by
  unfold isMerge
  congr 2
  · simp
  · rw [List.drop_append]; simp

/-- **C14-T3**: in a plan where the replays of a commit are adjacent (only hibernate/boot actions or
    other replays of the same commit in between) and the first action is not a replay, the merge flag
    handed to the items is true exactly when the commit is replayed somewhere else as well. -/
theorem isMerge_iff (A B : List Action) (x : Action) (c : Nat)
    (hadjB : ∀ B1 y B2, B = B1 ++ y :: B2 → IsC c y → ∀ a ∈ B1, HB a ∨ IsC c a)
    (hadjA : ∀ A1 y A2, A = A1 ++ y :: A2 → IsC c y → ∀ a ∈ A2, HB a ∨ IsC c a)
    (h0 : ∀ a A', A = a :: A' → ¬ IsC c a) :
    isMerge (A ++ x :: B) A.length c = true ↔ ∃ y ∈ A ++ B, IsC c y := by
  rw [isMerge_split]
  constructor
  · intro h
    rcases Bool.or_eq_true_iff.1 h with h | h
    · obtain ⟨y, hy, hc⟩ := scan_true c _ h
      exact ⟨y, List.mem_append_left _ (List.mem_of_mem_drop (List.mem_reverse.1 hy)), hc⟩
    · obtain ⟨y, hy, hc⟩ := scan_true c _ h
      exact ⟨y, List.mem_append_right _ hy, hc⟩
  · rintro ⟨y, hy, hc⟩
    rcases List.mem_append.1 hy with hA | hB
    · obtain ⟨A1, A2, rfl⟩ := List.append_of_mem hA
      cases A1 with
      | nil => exact absurd hc (h0 y A2 rfl)
      | cons a A1 =>
        have : ((a :: A1 ++ y :: A2).drop 1).reverse = A2.reverse ++ y :: A1.reverse := by simp
        rw [this, scan_of_adj c _ y _ hc (by
          intro b hb
          exact hadjA (a :: A1) y A2 rfl hc b (List.mem_reverse.1 hb))]
        rfl
    · obtain ⟨B1, B2, rfl⟩ := List.append_of_mem hB
      rw [scan_of_adj c B1 y B2 hc (hadjB B1 y B2 rfl hc)]
      simp

end Pl
