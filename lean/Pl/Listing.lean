import Pl.Adjacent
/-! C12: the per-commit listing (`CommitsAnalysis.Consume` appends a record exactly when the merge flag is off).  On a plan
    that passes `adjOK` the listing holds exactly the commits that are replayed once, each once. -/
namespace Pl

/-- the commits for which a record is appended, in plan order -/
def listing (plan : List Action) : List Nat :=
  plan.zipIdx.filterMap fun x => if x.1.kind = .commit ∧ isMerge plan x.2 x.1.commit = false then some x.1.commit else none

def replayCount (plan : List Action) (c : Nat) : Nat := (plan.filter (isCB c)).length

theorem replayCount_split (A B : List Action) (x : Action) (c : Nat) (hx : IsC c x) :
    replayCount (A ++ x :: B) c = 1 + ((A ++ B).filter (isCB c)).length := by
  unfold replayCount
  simp only [List.filter_append, List.filter_cons, (isCB_iff c x).mpr hx, if_true, List.length_append, List.length_cons]
  omega

theorem exists_other_iff (A B : List Action) (c : Nat) :
    (∃ y ∈ A ++ B, IsC c y) ↔ 0 < ((A ++ B).filter (isCB c)).length := by
  rw [List.length_pos_iff_exists_mem]
  constructor
  · rintro ⟨y, hy, hc⟩; exact ⟨y, List.mem_filter.2 ⟨hy, (isCB_iff c y).mpr hc⟩⟩
  · rintro ⟨y, hy⟩
    obtain ⟨h1, h2⟩ := List.mem_filter.1 hy
    exact ⟨y, h1, (isCB_iff c y).mp h2⟩

theorem mem_listing (plan : List Action) (c : Nat) :
    c ∈ listing plan ↔ ∃ A x B, plan = A ++ x :: B ∧ IsC c x ∧ isMerge plan A.length c = false := by
  unfold listing
  rw [List.mem_filterMap]
  constructor
  · rintro ⟨⟨a, i⟩, hmem, hsome⟩
    rw [List.mem_zipIdx_iff_getElem?] at hmem
    simp only at hmem hsome
    split at hsome
    · rename_i hcond
      simp only [Option.some.injEq] at hsome
      obtain ⟨hi, ha⟩ := List.getElem?_eq_some_iff.mp hmem
      refine ⟨plan.take i, a, plan.drop (i + 1), ?_, ⟨hcond.1, hsome⟩, ?_⟩
      · rw [← ha]; simp
      · have : (plan.take i).length = i := by simp; omega
        rw [this, ← hsome]; exact hcond.2
    · simp at hsome
  · rintro ⟨A, x, B, hp, hx, hm⟩
    refine ⟨(x, A.length), ?_, ?_⟩
    · rw [List.mem_zipIdx_iff_getElem?, hp]; simp
    · simp only [hx.1, hx.2, hm, and_self, if_true]

/-- **C12, listing**: on a checked plan a commit is listed exactly when it is replayed exactly once -/
theorem listing_iff (plan : List Action) (h : adjOK plan = true) (c : Nat) :
    c ∈ listing plan ↔ replayCount plan c = 1 := by
  rw [mem_listing]
  constructor
  · rintro ⟨A, x, B, hp, hx, hm⟩
    have hiff := isMerge_of_adjOK plan h A B x c hp hx
    have hno : ¬ ∃ y ∈ A ++ B, IsC c y := fun he => by rw [hiff.2 he] at hm; cases hm
    rw [exists_other_iff] at hno
    rw [hp, replayCount_split A B x c hx]; omega
  · intro hcount
    have hpos : 0 < (plan.filter (isCB c)).length := by unfold replayCount at hcount; omega
    obtain ⟨x, hxm⟩ := List.length_pos_iff_exists_mem.1 hpos
    obtain ⟨hxp, hxc⟩ := List.mem_filter.1 hxm
    have hx : IsC c x := (isCB_iff c x).mp hxc
    obtain ⟨A, B, hp⟩ := List.append_of_mem hxp
    refine ⟨A, x, B, hp, hx, ?_⟩
    have hiff := isMerge_of_adjOK plan h A B x c hp hx
    rw [hp, replayCount_split A B x c hx] at hcount
    have hno : ¬ ∃ y ∈ A ++ B, IsC c y := by rw [exists_other_iff]; omega
    cases hm : isMerge plan A.length c with
    | false => rfl
    | true => exact absurd (hiff.1 hm) hno

theorem count_listed_le (plan : List Action) (c : Nat) (l : List (Action × Nat)) :
    (l.filterMap fun x => if x.1.kind = .commit ∧ isMerge plan x.2 x.1.commit = false then some x.1.commit else none).count c
      ≤ ((l.map (·.1)).filter (isCB c)).length := by
  induction l with
  | nil => simp
  | cons x l ih =>
    by_cases hcond : x.1.kind = .commit ∧ isMerge plan x.2 x.1.commit = false
    · simp only [List.filterMap_cons, if_pos hcond]
      rw [List.map_cons, List.filter_cons, List.count_cons]
      by_cases hvc : x.1.commit = c
      · have : isCB c x.1 = true := by simp [isCB, hcond.1, hvc]
        simp only [this, if_true, List.length_cons, hvc, beq_self_eq_true]
        omega
      · have hb : (x.1.commit == c) = false := by simpa using hvc
        simp only [hb, Bool.false_eq_true, if_false, Nat.add_zero]
        split
        · simp only [List.length_cons]; omega
        · exact ih
    · simp only [List.filterMap_cons, if_neg hcond]
      rw [List.map_cons, List.filter_cons]
      split
      · simp only [List.length_cons]; omega
      · exact ih

/-- … and it is listed once -/
theorem listing_count (plan : List Action) (h : adjOK plan = true) (c : Nat) : (listing plan).count c ≤ 1 := by
  by_cases hc : c ∈ listing plan
  · have h1 := (listing_iff plan h c).mp hc
    have hle := count_listed_le plan c plan.zipIdx
    have hz : plan.zipIdx.map (·.1) = plan := by simp [List.zipIdx_map_fst]
    rw [hz] at hle
    unfold replayCount at h1
    unfold listing
    omega
  · rw [List.count_eq_zero.2 hc]; omega

end Pl
