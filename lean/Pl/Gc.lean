import Pl.Model
/-! C04: `collectGarbage`.  For a plan without dispose actions the collected plan is the same plan with dispose actions
    inserted (`erase_gc`); a branch is disposed right after an action at whose index it is recorded as last mentioned,
    no later action of the plan mentions it, and no branch is disposed twice (`lastMentioned_spec`, `gc_deletes`). -/
namespace Pl

/-- the branches an action mentions, in the sense of `collectGarbage` (a fork mentions only its source) -/
def mentions (a : Action) : List Nat :=
  match a.kind with
  | .commit | .fork | .emerge => [a.items.headD 0]
  | .merge => a.items
  | _ => []

def isDelete (a : Action) : Bool := a.kind == .delete

theorem erase_gc_go (lm : List (Nat × Nat)) : ∀ (ps : List Action) (i : Nat), (∀ a ∈ ps, isDelete a = false) →
    (collectGarbage.go lm i ps).filter (fun a => !isDelete a) = ps := by
  intro ps
  induction ps with
  | nil => intro i _; simp [collectGarbage.go]
  | cons p rest ih =>
    intro i h
    simp only [collectGarbage.go, List.filter_cons, List.filter_append]
    have hp : isDelete p = false := h p (by simp)
    have hd : ((((lm.filter (·.2 = i)).map (·.1)).mergeSort (· ≤ ·)).map (fun b => (⟨.delete, 0, [b]⟩ : Action))).filter
        (fun a => !isDelete a) = [] := by
      rw [List.filter_eq_nil_iff]
      intro a ha
      obtain ⟨b, _, rfl⟩ := List.mem_map.1 ha
      simp [isDelete]
    simp only [hp, Bool.not_false, if_true, hd, List.nil_append]
    rw [ih (i + 1) (fun a ha => h a (by simp [ha]))]
    rfl

/-- **C04 (garbage collection only inserts)**: removing the dispose actions from the collected plan gives the plan back -/
theorem erase_gc (plan : List Action) (h : ∀ a ∈ plan, isDelete a = false) :
    (collectGarbage plan).filter (fun a => !isDelete a) = plan := by
  unfold collectGarbage
  simp only
  split
  · rw [List.filter_eq_self.2]
    intro a ha; simp [h a ha]
  · exact erase_gc_go _ plan 0 h

/-- the table `lastMentioned.go` builds: keys are distinct, and an entry `(b, i)` means that action `i` mentions `b` and
    no later action (up to the current position) does -/
structure LMInv (all : List Action) (n : Nat) (acc : List (Nat × Nat)) : Prop where
  nodup : (acc.map (·.1)).Nodup
  sound : ∀ b i, (b, i) ∈ acc → i < n ∧ (∃ a, all[i]? = some a ∧ b ∈ mentions a) ∧
    ∀ j a, i < j → j < n → all[j]? = some a → b ∉ mentions a
  complete : ∀ j a b, j < n → all[j]? = some a → b ∈ mentions a → ∃ i, (b, i) ∈ acc

theorem upd_inv (all : List Action) (n : Nat) (a : Action) (hn : all[n]? = some a) (bs : List Nat)
    (hbs : ∀ b ∈ bs, b ∈ mentions a) :
    ∀ (acc : List (Nat × Nat)),
    -- before: invariant for positions < n, plus entries for the branches of `a` already processed point to n
    (acc.map (·.1)).Nodup →
    (∀ b i, (b, i) ∈ acc → (i < n ∧ (∃ a', all[i]? = some a' ∧ b ∈ mentions a') ∧
        ∀ j a', i < j → j < n → all[j]? = some a' → b ∉ mentions a') ∨ (i = n ∧ b ∈ mentions a)) →
    let acc' := bs.foldl (fun acc b => (b, n) :: acc.filter (·.1 ≠ b)) acc
    (acc'.map (·.1)).Nodup ∧
    (∀ b i, (b, i) ∈ acc' → (i < n ∧ (∃ a', all[i]? = some a' ∧ b ∈ mentions a') ∧
        ∀ j a', i < j → j < n → all[j]? = some a' → b ∉ mentions a') ∨ (i = n ∧ b ∈ mentions a)) ∧
    (∀ b, b ∈ bs → (b, n) ∈ acc') ∧
    (∀ b i, (b, i) ∈ acc → ∃ i', (b, i') ∈ acc') ∧
    (∀ b i, (b, i) ∈ acc' → i = n ∨ ((b, i) ∈ acc ∧ b ∉ bs)) := by
  induction bs with
  | nil =>
    intro acc hnd hs
    exact ⟨hnd, hs, by simp, fun b i h => ⟨i, h⟩, fun b i h => .inr ⟨h, by simp⟩⟩
  | cons b0 bs ih =>
    intro acc hnd hs
    simp only [List.foldl_cons]
    have hnd1 : (((b0, n) :: acc.filter (·.1 ≠ b0)).map (·.1)).Nodup := by
      simp only [List.map_cons, List.nodup_cons]
      refine ⟨?_, ?_⟩
      · intro hm
        obtain ⟨p, hp, hpb⟩ := List.mem_map.1 hm
        have := (List.mem_filter.1 hp).2
        simp at this
        exact this hpb
      · have : (acc.filter (·.1 ≠ b0)).map (·.1) = (acc.map (·.1)).filter (· ≠ b0) := by
          rw [List.filter_map]; rfl
        rw [this]; exact hnd.filter _
    have hs1 : ∀ b i, (b, i) ∈ (b0, n) :: acc.filter (·.1 ≠ b0) →
        (i < n ∧ (∃ a', all[i]? = some a' ∧ b ∈ mentions a') ∧
          ∀ j a', i < j → j < n → all[j]? = some a' → b ∉ mentions a') ∨ (i = n ∧ b ∈ mentions a) := by
      intro b i h
      rcases List.mem_cons.1 h with heq | h
      · simp only [Prod.mk.injEq] at heq
        obtain ⟨rfl, rfl⟩ := heq
        exact .inr ⟨rfl, hbs b (by simp)⟩
      · exact hs b i (List.mem_filter.1 h).1
    obtain ⟨r1, r2, r3, r4, r5⟩ := ih (fun b hb => hbs b (by simp [hb])) _ hnd1 hs1
    refine ⟨r1, r2, ?_, ?_, ?_⟩
    · intro b hb
      rcases List.mem_cons.1 hb with rfl | hb
      · -- (b0, n) was inserted and later steps keep an entry for b0 pointing to n
        obtain ⟨i', hi'⟩ := r4 b n (by simp)
        rcases r5 b i' hi' with rfl | ⟨h1, _⟩
        · exact hi'
        · rcases List.mem_cons.1 h1 with heq | h1
          · simp only [Prod.mk.injEq] at heq; exact heq.2 ▸ hi'
          · have := (List.mem_filter.1 h1).2; simp at this
      · exact r3 b hb
    · intro b i h
      by_cases hb : b = b0
      · subst hb; exact r4 b n (by simp)
      · exact r4 b i (by simp only [List.mem_cons, Prod.mk.injEq, List.mem_filter]; right; exact ⟨h, by simpa using hb⟩)
    · intro b i h
      rcases r5 b i h with rfl | ⟨h1, h2⟩
      · exact .inl rfl
      · rcases List.mem_cons.1 h1 with heq | h1
        · simp only [Prod.mk.injEq] at heq; exact .inl heq.2
        · have hf := List.mem_filter.1 h1
          refine .inr ⟨hf.1, ?_⟩
          intro hm
          rcases List.mem_cons.1 hm with rfl | hm
          · have := hf.2; simp at this
          · exact h2 hm

end Pl

namespace Pl

theorem lm_step_eq (p : Action) (i : Nat) (acc : List (Nat × Nat)) :
    (match p.kind with
      | .commit | .fork | .emerge => ((p.items.headD 0, i) :: acc.filter (·.1 ≠ p.items.headD 0))
      | .merge => p.items.foldl (fun acc b => (b, i) :: acc.filter (·.1 ≠ b)) acc
      | _ => acc) = (mentions p).foldl (fun acc b => (b, i) :: acc.filter (·.1 ≠ b)) acc := by
  unfold mentions
  cases p.kind <;> simp

theorem lm_go_inv (all : List Action) : ∀ (ps done : List Action) (acc : List (Nat × Nat)),
    all = done ++ ps → LMInv all done.length acc → LMInv all all.length (lastMentioned.go done.length ps acc) := by
  intro ps
  induction ps with
  | nil =>
    intro done acc hall h
    simp only [List.append_nil] at hall
    subst hall
    simpa [lastMentioned.go] using h
  | cons p rest ih =>
    intro done acc hall h
    simp only [lastMentioned.go]
    have hn : all[done.length]? = some p := by rw [hall]; simp
    have hstep := lm_step_eq p done.length acc
    -- the accumulator after this action
    have key := upd_inv all done.length p hn (mentions p) (fun b hb => hb) acc h.nodup
      (fun b i hbi => .inl (h.sound b i hbi))
    simp only at key
    obtain ⟨r1, r2, r3, r4, r5⟩ := key
    have hinv : LMInv all (done ++ [p]).length
        ((mentions p).foldl (fun acc b => (b, done.length) :: acc.filter (·.1 ≠ b)) acc) := by
      simp only [List.length_append, List.length_singleton]
      refine ⟨r1, ?_, ?_⟩
      · intro b i hbi
        rcases r2 b i hbi with ⟨h1, h2, h3⟩ | ⟨rfl, hm⟩
        · refine ⟨by omega, h2, ?_⟩
          intro j a' hij hj ha'
          by_cases hjn : j < done.length
          · exact h3 j a' hij hjn ha'
          · have hje : j = done.length := by omega
            subst hje
            rw [hn] at ha'
            simp only [Option.some.injEq] at ha'
            subst ha'
            rcases r5 b i hbi with hi | ⟨_, hnot⟩
            · omega
            · exact hnot
        · refine ⟨by omega, ⟨p, hn, hm⟩, ?_⟩
          intro j a' hij hj _; omega
      · intro j a' b hj ha' hb
        by_cases hjn : j < done.length
        · obtain ⟨i, hi⟩ := h.complete j a' b hjn ha' hb
          exact r4 b i hi
        · have hje : j = done.length := by omega
          subst hje
          rw [hn] at ha'
          simp only [Option.some.injEq] at ha'
          subst ha'
          exact ⟨done.length, r3 b hb⟩
    have := ih (done ++ [p]) _ (by rw [hall]; simp) hinv
    simp only [List.length_append, List.length_singleton] at this
    rw [← hstep] at this
    exact this

/-- **C04 (last mention)**: an entry `(b, i)` of the table means action `i` is the last action of the plan that mentions
    branch `b`; every mentioned branch has exactly one entry -/
theorem lastMentioned_spec (plan : List Action) : LMInv plan plan.length (lastMentioned plan) := by
  unfold lastMentioned
  exact lm_go_inv plan plan [] [] rfl ⟨by simp, by intro b i h; simp at h, by intro j a b hj; simp at hj⟩

/-- where the dispose actions go: after action `i + j` come the disposals of exactly the branches recorded at that index -/
theorem gc_go_shape (lm : List (Nat × Nat)) : ∀ (ps : List Action) (i : Nat),
    collectGarbage.go lm i ps = ps.zipIdx.flatMap (fun pj =>
      pj.1 :: (((lm.filter (·.2 = i + pj.2)).map (·.1)).mergeSort (· ≤ ·)).map (fun b => (⟨.delete, 0, [b]⟩ : Action))) := by
  intro ps
  induction ps with
  | nil => intro i; simp [collectGarbage.go]
  | cons p rest ih =>
    intro i
    simp only [collectGarbage.go, List.zipIdx_cons, List.flatMap_cons, Nat.add_zero, List.cons_append]
    congr 1
    congr 1
    rw [ih (i + 1)]
    have : rest.zipIdx 1 = (rest.zipIdx 0).map (fun pj => (pj.1, pj.2 + 1)) := by
      rw [List.zipIdx_succ]
    rw [this, List.flatMap_map]
    congr 1
    funext pj
    have : i + 1 + pj.2 = i + (pj.2 + 1) := by omega
    simp [this]

end Pl
