import Pl.Anc
/-! C02: `leaveRootComponent` keeps one connected component of the commit graph, and no component is larger.  Which of
    several largest components is kept depends on map order, so the model does not compute "the" retained set: the
    validator `retainedOK` (Pl/Check.lean) judges the set the real planner kept (an observed choice).  This file proves
    that the validator means what it says: `componentOf` is exactly the connected component (`componentOf_spec`; the
    `n` rounds of neighbour expansion suffice by a counting argument), hence `retainedOK_sound`. -/
namespace Pl

/-- every parent mentioned is one of the commits -/
def InRange (parents : List (List Nat)) : Prop :=
  ∀ c, c < parents.length → ∀ p ∈ parents.getD c [], p < parents.length

theorem Topo.inRange {parents : List (List Nat)} (h : Topo parents) : InRange parents :=
  fun c hc p hp => Nat.lt_trans (h c hc p hp) hc

/-- undirected adjacency of the commit graph -/
def Adj (parents : List (List Nat)) (a b : Nat) : Prop :=
  a < parents.length ∧ b < parents.length ∧ (b ∈ parents.getD a [] ∨ a ∈ parents.getD b [])

inductive Conn (parents : List (List Nat)) : Nat → Nat → Prop
  | refl (a : Nat) : Conn parents a a
  | step {a b c : Nat} : Conn parents a b → Adj parents b c → Conn parents a c

theorem Adj.symm {parents a b} (h : Adj parents a b) : Adj parents b a :=
  ⟨h.2.1, h.1, h.2.2.symm⟩

theorem Conn.trans {parents a b c} (h1 : Conn parents a b) (h2 : Conn parents b c) : Conn parents a c := by
  induction h2 with
  | refl => exact h1
  | step _ hadj ih => exact Conn.step ih hadj

theorem Conn.symm {parents a b} (h : Conn parents a b) : Conn parents b a := by
  induction h with
  | refl => exact Conn.refl _
  | step _ hadj ih => exact Conn.trans (Conn.step (Conn.refl _) hadj.symm) ih

/-! ## strictly sorted lists -/

def StrictSorted (l : List Nat) : Prop := l.Pairwise (· < ·)

theorem insertSorted_sorted (x : Nat) : ∀ (l : List Nat), StrictSorted l → StrictSorted (insertSorted x l) := by
  intro l
  induction l with
  | nil => intro _; simp [insertSorted, StrictSorted]
  | cons y ys ih =>
    intro h
    unfold StrictSorted at h ih ⊢
    rw [List.pairwise_cons] at h
    unfold insertSorted
    by_cases h1 : x < y
    · simp only [h1, if_true]
      rw [List.pairwise_cons]
      refine ⟨?_, List.pairwise_cons.2 h⟩
      intro z hz
      rcases List.mem_cons.1 hz with rfl | hz
      · exact h1
      · exact Nat.lt_trans h1 (h.1 z hz)
    · simp only [h1, if_false]
      by_cases h2 : x = y
      · simp only [h2, if_true]; exact List.pairwise_cons.2 h
      · simp only [h2, if_false]
        rw [List.pairwise_cons]
        refine ⟨?_, ih h.2⟩
        intro z hz
        rcases (mem_insertSorted x z ys).1 hz with rfl | hz
        · omega
        · exact h.1 z hz

theorem unionSorted_sorted : ∀ (a b : List Nat), StrictSorted b → StrictSorted (unionSorted a b) := by
  intro a
  unfold unionSorted
  induction a with
  | nil => intro b h; exact h
  | cons x xs ih => intro b h; simp only [List.foldl_cons]; exact ih _ (insertSorted_sorted x b h)

theorem StrictSorted.nodup {l : List Nat} (h : StrictSorted l) : l.Nodup :=
  List.Pairwise.imp (fun hab => Nat.ne_of_lt hab) h

theorem bounded_length : ∀ (n : Nat) (l : List Nat), l.Nodup → (∀ x ∈ l, x < n) → l.length ≤ n := by
  intro n l hnd hb
  have hsub : l ⊆ List.range n := fun x hx => List.mem_range.2 (hb x hx)
  have := List.Nodup.length_le_of_subset hnd hsub
  simpa using this

/-! ## one round of expansion -/

theorem mem_neighbours (parents : List (List Nat)) (hr : InRange parents) (c : Nat) (hc : c < parents.length) (x : Nat) :
    x ∈ neighbours parents c ↔ Adj parents c x := by
  unfold neighbours Adj
  simp only [List.mem_append, List.mem_filter, List.mem_range, List.contains_iff_mem]
  constructor
  · rintro (h | ⟨h1, h2⟩)
    · exact ⟨hc, hr c hc x h, Or.inl h⟩
    · exact ⟨hc, h1, Or.inr h2⟩
  · rintro ⟨_, hx, h | h⟩
    · exact Or.inl h
    · exact Or.inr ⟨hx, h⟩

theorem foldExpand_mem (parents : List (List Nat)) (x : Nat) : ∀ (l init : List Nat),
    x ∈ l.foldl (fun acc c => unionSorted (neighbours parents c) acc) init ↔
      x ∈ init ∨ ∃ c ∈ l, x ∈ neighbours parents c := by
  intro l
  induction l with
  | nil => intro init; simp
  | cons c cs ih =>
    intro init
    simp only [List.foldl_cons]
    rw [ih, mem_unionSorted]
    constructor
    · rintro ((h | h) | ⟨d, hd, h⟩)
      · exact Or.inr ⟨c, List.mem_cons_self, h⟩
      · exact Or.inl h
      · exact Or.inr ⟨d, List.mem_cons_of_mem _ hd, h⟩
    · rintro (h | ⟨d, hd, h⟩)
      · exact Or.inl (Or.inr h)
      · rcases List.mem_cons.1 hd with rfl | hd
        · exact Or.inl (Or.inl h)
        · exact Or.inr ⟨d, hd, h⟩

theorem foldExpand_sorted (parents : List (List Nat)) : ∀ (l init : List Nat), StrictSorted init →
    StrictSorted (l.foldl (fun acc c => unionSorted (neighbours parents c) acc) init) := by
  intro l
  induction l with
  | nil => intro init h; exact h
  | cons c cs ih => intro init h; simp only [List.foldl_cons]; exact ih _ (unionSorted_sorted _ _ h)

theorem mem_expand (parents : List (List Nat)) (s : List Nat) (x : Nat) :
    x ∈ expand parents s ↔ x ∈ s ∨ ∃ c ∈ s, x ∈ neighbours parents c := foldExpand_mem parents x s s

theorem expand_sorted (parents : List (List Nat)) (s : List Nat) (h : StrictSorted s) : StrictSorted (expand parents s) :=
  foldExpand_sorted parents s s h

/-- nothing adjacent to a member is missing -/
def Closed (parents : List (List Nat)) (s : List Nat) : Prop := ∀ c ∈ s, ∀ x ∈ neighbours parents c, x ∈ s

theorem closed_expand {parents : List (List Nat)} {s : List Nat} (h : Closed parents s) (x : Nat) :
    x ∈ expand parents s ↔ x ∈ s := by
  rw [mem_expand]
  constructor
  · rintro (h1 | ⟨c, hc, hx⟩)
    · exact h1
    · exact h c hc x hx
  · exact Or.inl

theorem closed_of_mem_iff {parents : List (List Nat)} {s t : List Nat} (h : Closed parents s) (e : ∀ x, x ∈ t ↔ x ∈ s) :
    Closed parents t := fun c hc x hx => (e x).2 (h c ((e c).1 hc) x hx)

theorem expand_grows {parents : List (List Nat)} {s : List Nat} (hs : StrictSorted s)
    (c x : Nat) (hc : c ∈ s) (hx : x ∈ neighbours parents c) (hxs : x ∉ s) :
    s.length + 1 ≤ (expand parents s).length := by
  have hnd : (x :: s).Nodup := List.nodup_cons.2 ⟨hxs, hs.nodup⟩
  have hsub : (x :: s) ⊆ expand parents s := by
    intro y hy
    rcases List.mem_cons.1 hy with rfl | hy
    · exact (mem_expand parents s y).2 (Or.inr ⟨c, hc, hx⟩)
    · exact (mem_expand parents s y).2 (Or.inl hy)
  have := List.Nodup.length_le_of_subset hnd hsub
  simpa [Nat.add_comm] using this

/-! ## iteration -/

theorem iter_closed_of_closed (parents : List (List Nat)) : ∀ (k : Nat) (s : List Nat), Closed parents s →
    Closed parents (iter (expand parents) k s) ∧ ∀ x, x ∈ iter (expand parents) k s ↔ x ∈ s := by
  intro k
  induction k with
  | zero => intro s h; exact ⟨h, fun _ => Iff.rfl⟩
  | succ k ih =>
    intro s h
    have hc : Closed parents (expand parents s) := closed_of_mem_iff h (closed_expand h)
    obtain ⟨a, b⟩ := ih (expand parents s) hc
    exact ⟨a, fun x => (b x).trans (closed_expand h x)⟩

theorem iter_progress (parents : List (List Nat)) : ∀ (k : Nat) (s : List Nat), StrictSorted s →
    Closed parents (iter (expand parents) k s) ∨ s.length + k ≤ (iter (expand parents) k s).length := by
  intro k
  induction k with
  | zero => intro s _; exact Or.inr (Nat.le_refl _)
  | succ k ih =>
    intro s hs
    show Closed parents (iter (expand parents) k (expand parents s)) ∨ _ ≤ (iter (expand parents) k (expand parents s)).length
    by_cases hw : ∃ c, c ∈ s ∧ ∃ x, x ∈ neighbours parents c ∧ x ∉ s
    · obtain ⟨c, hc, x, hx, hxs⟩ := hw
      rcases ih (expand parents s) (expand_sorted parents s hs) with h | h
      · exact Or.inl h
      · have := expand_grows hs c x hc hx hxs
        exact Or.inr (by omega)
    · have hc : Closed parents s := by
        intro c hc x hx
        by_cases hxs : x ∈ s
        · exact hxs
        · exact absurd ⟨c, hc, x, hx, hxs⟩ hw
      exact Or.inl (iter_closed_of_closed parents k _ (closed_of_mem_iff hc (closed_expand hc))).1

theorem iter_inv (parents : List (List Nat)) (P : List Nat → Prop) (hP : ∀ s, P s → P (expand parents s)) :
    ∀ (k : Nat) (s : List Nat), P s → P (iter (expand parents) k s) := by
  intro k
  induction k with
  | zero => intro s h; exact h
  | succ k ih => intro s h; exact ih _ (hP s h)

/-! ## the component -/

theorem componentOf_spec (parents : List (List Nat)) (hr : InRange parents) (c : Nat) (hc : c < parents.length) :
    StrictSorted (componentOf parents c) ∧ ∀ x, x ∈ componentOf parents c ↔ Conn parents c x := by
  -- invariant: sorted, contains c, every member is a commit connected to c
  have inv := iter_inv parents
    (fun s => StrictSorted s ∧ c ∈ s ∧ ∀ x ∈ s, x < parents.length ∧ Conn parents c x)
    (by
      rintro s ⟨h1, h2, h3⟩
      refine ⟨expand_sorted parents s h1, (mem_expand parents s c).2 (Or.inl h2), ?_⟩
      intro x hx
      rcases (mem_expand parents s x).1 hx with hx | ⟨d, hd, hx⟩
      · exact h3 x hx
      · obtain ⟨hdn, hdc⟩ := h3 d hd
        have hadj := (mem_neighbours parents hr d hdn x).1 hx
        exact ⟨hadj.2.1, Conn.step hdc hadj⟩)
    parents.length [c]
    ⟨by simp [StrictSorted], by simp, by
      intro x hx
      simp only [List.mem_singleton] at hx
      subst hx
      exact ⟨hc, Conn.refl _⟩⟩
  obtain ⟨hs, hcin, hall⟩ := inv
  have hclosed : Closed parents (componentOf parents c) := by
    rcases iter_progress parents parents.length [c] (by simp [StrictSorted]) with h | h
    · exact h
    · exfalso
      have hb := bounded_length parents.length (componentOf parents c) hs.nodup (fun x hx => (hall x hx).1)
      simp only [List.length_singleton] at h
      have : (componentOf parents c).length = (iter (expand parents) parents.length [c]).length := rfl
      omega
  refine ⟨hs, fun x => ⟨fun hx => (hall x hx).2, fun hx => ?_⟩⟩
  induction hx with
  | refl => exact hcin
  | step _ hadj ih =>
    rename_i b d _
    exact hclosed b ih d ((mem_neighbours parents hr b hadj.1 d).2 hadj)

/-- **what `retainedOK` accepts**: nothing when there are no commits; otherwise the set is exactly the connected
component of its first element (a commit), it is strictly sorted, and no connected set of commits is larger -/
theorem retainedOK_sound (parents : List (List Nat)) (hr : InRange parents) (ret : List Nat)
    (h : retainedOK parents ret = true) :
    (ret = [] ∧ parents = []) ∨
    ∃ c, c < parents.length ∧ c ∈ ret ∧ StrictSorted ret ∧ (∀ x, x ∈ ret ↔ Conn parents c x) ∧
      ∀ (d : Nat) (l : List Nat), d < parents.length → l.Nodup → (∀ x ∈ l, Conn parents d x) → l.length ≤ ret.length := by
  unfold retainedOK at h
  cases ret with
  | nil => simp only [List.isEmpty_iff] at h; exact Or.inl ⟨rfl, h⟩
  | cons c rest =>
    simp only [Bool.and_eq_true, decide_eq_true_eq, beq_iff_eq, List.all_eq_true, List.mem_range] at h
    obtain ⟨⟨hc, heq⟩, hmax⟩ := h
    obtain ⟨hs, hm⟩ := componentOf_spec parents hr c hc
    refine Or.inr ⟨c, hc, List.mem_cons_self, heq ▸ hs, fun x => by rw [heq]; exact hm x, ?_⟩
    intro d l hd hnd hl
    obtain ⟨_, hmd⟩ := componentOf_spec parents hr d hd
    have hsub : l ⊆ componentOf parents d := fun x hx => (hmd x).2 (hl x hx)
    exact Nat.le_trans (List.Nodup.length_le_of_subset hnd hsub) (hmax d hd)

/-- not vacuous: two components {0,1,3} and {2}; the larger one is accepted, the smaller one is not -/
example : InRange [[], [0], [], [1, 0]] ∧ retainedOK [[], [0], [], [1, 0]] [0, 1, 3] = true ∧
    retainedOK [[], [0], [], [1, 0]] [2] = false := by
  refine ⟨?_, by decide, by decide⟩
  intro c hc p hp
  have : c = 0 ∨ c = 1 ∨ c = 2 ∨ c = 3 := by simp at hc; omega
  rcases this with rfl | rfl | rfl | rfl <;> simp at hp <;> (try rcases hp with rfl | rfl) <;> simp <;> omega

end Pl
