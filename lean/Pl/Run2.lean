import Pl.Run
/-! The interpreter of Pipeline.Run again, with every step RETURNING its new events (oldest first) and with the
    hibernation counters kept apart from the rest of the state. -/
namespace Pl

structure Core where
  next : Nat
  branches : List (Nat × List Nat)
  idx : Nat
  newest : Int
  cc : List Nat
  deriving Repr

abbrev Fail := String × List Ev      -- error message and the events emitted before it

def cloneItems2 (items : List Item) (origin : List Nat) (n : Nat) (next : Nat) :
    List (List Nat) × Nat × List Ev :=
  let rec go (its : List Item) (org : List Nat) (next : Nat) (evs : List Ev) (cols : List (List Nat)) :=
    match its, org with
    | it :: its, inst :: org =>
      let clones := if it.shared then List.replicate n inst else (List.range n).map (· + next)
      let next := if it.shared then next else next + n
      go its org next (evs ++ [Ev.fork inst clones]) (cols ++ [clones])
    | _, _ => (cols, next, evs)
  let (cols, next, evs) := go items origin next [] []
  ((List.range n).map (fun j => cols.map (fun c => c.getD j 0)), next, evs)

def consumeAll2 (commit idx : Nat) (im : Bool) :
    Nat → List Item → List Nat → List (Nat × (Nat × Nat)) → List Nat → Except Fail (List Ev × List Nat)
  | _, [], _, _, cc => .ok ([], cc)
  | _, _, [], _, cc => .ok ([], cc)
  | j, it :: its, inst :: insts, state, cc =>
    let k := cc.getD j 0 + 1
    let cc := cc.set j k
    let deps := it.requires.map (fun e => (e, (state.find? (·.1 = e)).map (·.2)))
    let ev := Ev.consume inst commit idx im deps
    if it.cfail = some k then .error (s!"consume-error item {j}", [ev]) else
    let outs := if it.skip = some k then it.provides.drop 1 else it.provides
    match it.provides.find? (fun e => !outs.contains e) with
    | some e => .error (s!"missing-output item {j} entity {e}", [ev])
    | none =>
      let state := it.provides.foldl (fun st e => (e, (inst, commit)) :: st.filter (·.1 ≠ e)) state
      match consumeAll2 commit idx im (j + 1) its insts state cc with
      | .ok (evs, cc) => .ok (ev :: evs, cc)
      | .error (m, evs) => .error (m, ev :: evs)

def hbAll2 (isBoot : Bool) : Nat → List Item → List Nat → List Nat → Except Fail (List Ev × List Nat)
  | _, [], _, c => .ok ([], c)
  | _, _, [], c => .ok ([], c)
  | j, it :: its, inst :: insts, c =>
    if !it.full then hbAll2 isBoot (j + 1) its insts c else
    let k := c.getD j 0 + 1
    let c := c.set j k
    let ev := if isBoot then Ev.boot inst else Ev.hibernate inst
    if (if isBoot then it.bfail else it.hfail) = some k then
      .error ((if isBoot then "boot-error" else "hibernate-error") ++ s!" item {j}", [ev])
    else match hbAll2 isBoot (j + 1) its insts c with
      | .ok (evs, c) => .ok (ev :: evs, c)
      | .error (m, evs) => .error (m, ev :: evs)

/-- every action except hibernate/boot; `im` = the merge flag of this action -/
def stepCore (items : List Item) (rootClone : List Nat) (times : List Int) (im : Bool) (a : Action) (s : Core) :
    Except Fail (Core × List Ev) :=
  let first := a.items.headD 0
  match a.kind with
  | .commit =>
    match consumeAll2 a.commit s.idx im 0 items (getBranch s.branches first) [] s.cc with
    | .error e => .error e
    | .ok (evs, cc) =>
      let t := times.getD a.commit 0
      .ok ({ s with cc := cc, idx := s.idx + 1, newest := if t > s.newest || s.idx = 0 then t else s.newest }, evs)
  | .fork =>
    let (clones, next, evs) := cloneItems2 items (getBranch s.branches first) (a.items.length - 1) s.next
    let bs := (a.items.drop 1).zip clones |>.foldl (fun bs (b, cl) => setBranch bs b cl) s.branches
    .ok ({ s with branches := bs, next := next }, evs)
  | .merge =>
    match a.items.map (getBranch s.branches) with
    | [] => .ok (s, [])
    | b0 :: others => .ok (s, b0.zipIdx.map (fun (inst, i) => Ev.merge inst (others.map (·.getD i 0))))
  | .emerge =>
    if first = 1 then .ok ({ s with branches := setBranch s.branches first (List.range items.length) }, [])
    else
      let (clones, next, evs) := cloneItems2 items rootClone 1 s.next
      .ok ({ s with branches := setBranch s.branches first (clones.headD []), next := next }, evs)
  | .delete => .ok ({ s with branches := s.branches.filter (·.1 ≠ first) }, [])
  | _ => .ok (s, [])

/-- hibernate / boot: only reads the branches, only changes its own counter -/
def stepHB (items : List Item) (isBoot : Bool) (branches : List (Nat × List Nat)) :
    List Nat → List Nat → Except Fail (List Ev × List Nat)
  | [], c => .ok ([], c)
  | b :: bs, c =>
    match hbAll2 isBoot 0 items (getBranch branches b) c with
    | .error e => .error e
    | .ok (evs, c) =>
      match stepHB items isBoot branches bs c with
      | .ok (evs', c) => .ok (evs ++ evs', c)
      | .error (m, evs') => .error (m, evs ++ evs')

structure RS2 where
  core : Core
  hc : List Nat
  bc : List Nat

def step2 (items : List Item) (rootClone : List Nat) (times : List Int) (im : Bool) (a : Action) (s : RS2) :
    Except Fail (RS2 × List Ev) :=
  match a.kind with
  | .hibernate =>
    match stepHB items false s.core.branches a.items s.hc with
    | .ok (evs, hc) => .ok ({ s with hc := hc }, evs)
    | .error e => .error e
  | .boot =>
    match stepHB items true s.core.branches a.items s.bc with
    | .ok (evs, bc) => .ok ({ s with bc := bc }, evs)
    | .error e => .error e
  | _ =>
    match stepCore items rootClone times im a s.core with
    | .ok (c, evs) => .ok ({ s with core := c }, evs)
    | .error e => .error e

/-- the plan is walked as `done ++ rest` (done newest first is not needed: `isMerge` takes the whole plan) -/
def runLoop2 (items : List Item) (rootClone : List Nat) (times : List Int) (plan : List Action) :
    Nat → List Action → RS2 → Except Fail (RS2 × List Ev)
  | _, [], s => .ok (s, [])
  | i, a :: rest, s =>
    match step2 items rootClone times (isMerge plan i a.commit) a s with
    | .error e => .error e
    | .ok (s, evs) =>
      match runLoop2 items rootClone times plan (i + 1) rest s with
      | .ok (s, evs') => .ok (s, evs ++ evs')
      | .error (m, evs') => .error (m, evs ++ evs')

def run2 (items : List Item) (times : List Int) (ncommits : Nat) (plan : List Action) : Outcome :=
  let n := items.length
  let (rc, next, evs0) := cloneItems2 items (List.range n) 1 n
  let rootClone := rc.headD []
  let s0 : RS2 := ⟨⟨next, [], 0, 0, List.replicate n 0⟩, List.replicate n 0, List.replicate n 0⟩
  match runLoop2 items rootClone times plan 0 plan s0 with
  | .error (e, evs) => ⟨evs0 ++ evs, .error e⟩
  | .ok (s, evs) =>
    let master := match s.core.branches.foldl (fun (m : Option (Nat × List Nat)) b =>
        match m with | none => some b | some m => if b.1 < m.1 then some b else some m) none with
      | some (_, l) => l | none => []
    let fin := (items.zip master).zipIdx.filter (fun ((it, _), _) => it.full)
    let tail := fin.flatMap (fun ((_, inst), j) => [Ev.dispose inst, Ev.finalize j inst])
    ⟨evs0 ++ evs ++ tail, .ok (times.getD ((plan.headD ⟨.emerge, 0, []⟩).commit) 0, s.core.newest, ncommits,
      fin.map (fun ((_, inst), j) => (j, inst)))⟩

end Pl
