import Pl.Check
namespace Pl

/-- declarative ancestry (reflexive, transitive) in a commit graph given by parent lists -/
inductive Ancestor (parents : List (List Nat)) : Nat → Nat → Prop
  | refl (c : Nat) : c < parents.length → Ancestor parents c c
  | step (a p c : Nat) : c < parents.length → p ∈ parents.getD c [] → Ancestor parents a p → Ancestor parents a c

/-- parents come before children (commits are numbered topologically by the harness) -/
def Topo (parents : List (List Nat)) : Prop :=
  ∀ c, c < parents.length → ∀ p ∈ parents.getD c [], p < c

theorem mem_insertSorted (x y : Nat) (l : List Nat) : y ∈ insertSorted x l ↔ y = x ∨ y ∈ l := by
  induction l with
  | nil => simp [insertSorted]
  | cons z zs ih =>
    unfold insertSorted
    split
    · simp
    · split
      · rename_i h; subst h; simp
      · simp only [List.mem_cons, ih]
        constructor
        · rintro (h | h | h)
          · exact Or.inr (Or.inl h)
          · exact Or.inl h
          · exact Or.inr (Or.inr h)
        · rintro (h | h | h)
          · exact Or.inr (Or.inl h)
          · exact Or.inl h
          · exact Or.inr (Or.inr h)

theorem mem_unionSorted (y : Nat) (a b : List Nat) : y ∈ unionSorted a b ↔ y ∈ a ∨ y ∈ b := by
  unfold unionSorted
  induction a generalizing b with
  | nil => simp
  | cons x xs ih =>
    simp only [List.foldl_cons]
    rw [ih, mem_insertSorted]
    simp only [List.mem_cons]
    constructor
    · rintro (h | h | h)
      · exact Or.inl (Or.inr h)
      · exact Or.inl (Or.inl h)
      · exact Or.inr h
    · rintro ((h | h) | h)
      · exact Or.inr (Or.inl h)
      · exact Or.inl h
      · exact Or.inr (Or.inr h)

/-- the loop of `ancestors`: after processing a prefix, entry `i` is the ancestor set of `i` -/
theorem ancestors_go_spec (all : List (List Nat)) (rest : List (List Nat)) :
    ∀ (done : List (List Nat)) (acc : List (List Nat)), all = done ++ rest → acc.length = done.length → Topo all →
    (∀ c, c < done.length → ∀ a, a ∈ acc.getD c [] ↔ Ancestor all a c) →
    (ancestors.go done.length rest acc).length = all.length ∧
      ∀ c, c < all.length → ∀ a, a ∈ (ancestors.go done.length rest acc).getD c [] ↔ Ancestor all a c := by
  induction rest with
  | nil =>
    intro done acc hall hsize ht hacc
    simp only [ancestors.go]
    subst hall
    simp only [List.append_nil] at *
    exact ⟨hsize, hacc⟩
  | cons p rest ih =>
    intro done acc hall hsize ht hacc
    simp only [ancestors.go]
    have hlen : done.length < all.length := by rw [hall]; simp
    have hp : all.getD done.length [] = p := by rw [hall]; simp
    have hps : ∀ q ∈ p, q < done.length := by
      intro q hq; exact ht done.length hlen q (by rw [hp]; exact hq)
    have hnew : ∀ a, a ∈ p.foldl (fun s q => unionSorted (acc.getD q []) s) [done.length] ↔
        Ancestor all a done.length := by
      intro a
      have key : ∀ (qs : List Nat) (s : List Nat), (∀ q ∈ qs, q ∈ p) →
          (a ∈ qs.foldl (fun s q => unionSorted (acc.getD q []) s) s ↔ a ∈ s ∨ ∃ q ∈ qs, Ancestor all a q) := by
        intro qs
        induction qs with
        | nil => intro s _; simp
        | cons q qs ihq =>
          intro s hsub
          simp only [List.foldl_cons]
          rw [ihq _ (fun x hx => hsub x (by simp [hx])), mem_unionSorted,
            hacc q (hps q (hsub q (by simp)))]
          constructor
          · rintro ((h | h) | ⟨q', hq', h⟩)
            · exact Or.inr ⟨q, by simp, h⟩
            · exact Or.inl h
            · exact Or.inr ⟨q', by simp [hq'], h⟩
          · rintro (h | ⟨q', hq', h⟩)
            · exact Or.inl (Or.inr h)
            · rcases List.mem_cons.mp hq' with rfl | hq'
              · exact Or.inl (Or.inl h)
              · exact Or.inr ⟨q', hq', h⟩
      rw [key p [done.length] (fun _ h => h)]
      constructor
      · rintro (h | ⟨q, hq, h⟩)
        · simp at h; subst h; exact Ancestor.refl _ hlen
        · exact Ancestor.step a q _ hlen (by rw [hp]; exact hq) h
      · intro h
        cases h with
        | refl _ => left; simp
        | step q hlt hmem hanc =>
          right
          refine ⟨q, ?_, ‹Ancestor all a q›⟩
          rw [← hp]; assumption
    have := ih (done ++ [p]) (acc ++ [p.foldl (fun s q => unionSorted (acc.getD q []) s) [done.length]])
      (by rw [hall]; simp) (by simp [hsize]) ht (by
        intro c hc a
        simp only [List.length_append, List.length_singleton] at hc
        by_cases hcd : c < done.length
        · rw [← hacc c hcd a]
          simp [List.getD, List.getElem?_append_left (by omega : c < acc.length)]
        · have : c = done.length := by omega
          subst this
          rw [← hnew a]
          simp [List.getD, ← hsize])
    simpa using this

/-- **the ancestor sets used by the validator are the declarative ancestor relation** -/
theorem mem_ancestors_iff (parents : List (List Nat)) (ht : Topo parents) (a c : Nat) (hc : c < parents.length) :
    a ∈ (ancestors parents).getD c [] ↔ Ancestor parents a c := by
  have := ancestors_go_spec parents parents [] [] rfl rfl ht (by intro c hc; simp at hc)
  exact this.2 c hc a

end Pl
