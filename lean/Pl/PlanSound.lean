import Pl.CheckSound2
/-! C02: from single steps to whole plans.

  `checkPlan_sound`: if the validator accepts a plan then
  * every action is accepted in the state its prefix leads to (so `step_commit_sound` / `step_merge_sound` apply to every
    replay and every merge of the plan — this is `accepted_steps`);
  * every commit of the retained component is replayed by some commit action, and nothing outside it is
    (`analysed` is shown to count exactly the commit actions, `analysed_count`);
  * in strict mode every retained commit is replayed exactly once per non-redundant parent (once if it has none). -/
namespace Pl

def isReplay (c : Nat) (a : Action) : Bool := a.kind == .commit && a.commit == c

/-- number of replays of commit `c` in a plan -/
def replays (plan : List Action) (c : Nat) : Nat := (plan.filter (isReplay c)).length

def countOf (l : List (Nat × Nat)) (c : Nat) : Nat :=
  match l.find? (·.1 = c) with
  | some (_, k) => k
  | none => 0

theorem find_filter_ne' (l : List (Nat × Nat)) (k k' : Nat) (e : ¬ k = k') :
    (l.filter (fun x => decide (x.1 ≠ k))).find? (fun x => decide (x.1 = k')) = l.find? (fun x => decide (x.1 = k')) := by
  induction l with
  | nil => rfl
  | cons a l ih =>
    by_cases h1 : a.1 = k
    · have hd : decide (a.1 ≠ k) = false := by simp [h1]
      have h2 : decide (a.1 = k') = false := by
        simp only [decide_eq_false_iff_not]; intro h3; exact e (h1 ▸ h3)
      rw [List.filter_cons, hd]
      simp only [Bool.false_eq_true, if_false, List.find?_cons, h2]
      exact ih
    · have hd : decide (a.1 ≠ k) = true := by simp [h1]
      rw [List.filter_cons, hd]
      simp only [if_true, List.find?_cons]
      rw [ih]

theorem countOf_bump (l : List (Nat × Nat)) (c d : Nat) :
    countOf (bump l c) d = if d = c then countOf l c + 1 else countOf l d := by
  unfold bump countOf
  cases hf : l.find? (fun x => decide (x.1 = c)) with
  | none =>
    by_cases hd : d = c
    · subst hd; simp [hf]
    · have : ¬ c = d := fun h => hd h.symm
      simp [List.find?_cons, this, hd]
  | some p =>
    obtain ⟨p1, k⟩ := p
    by_cases hd : d = c
    · subst hd; simp [hf]
    · have hne : ¬ c = d := fun h => hd h.symm
      simp only [hd, if_false]
      rw [List.find?_cons]
      simp only [hne, decide_false]
      rw [find_filter_ne' l c d hne]

theorem foldlM_analysed (f : St → Nat → Except String St)
    (hf : ∀ t b t', f t b = .ok t' → t'.analysed = t.analysed) (bs : List Nat) (t t' : St)
    (h : bs.foldlM f t = .ok t') : t'.analysed = t.analysed := by
  induction bs generalizing t with
  | nil => simp [pure, Except.pure] at h; subst h; rfl
  | cons b bs ih =>
    simp only [List.foldlM_cons, bind, Except.bind] at h
    split at h
    · simp at h
    · rename_i t1 ht1
      rw [ih t1 h, hf t b t1 ht1]

/-- what a step does to the replay counters -/
theorem step_analysed_eq (strict : Bool) (pa : Array (List Nat)) (anc : List (List Nat)) (s s' : St) (a : Action)
    (h : step strict pa anc s a = .ok s') :
    s'.analysed = if a.kind = .commit then bump s.analysed a.commit else s.analysed := by
  have hfold : ∀ (bs : List Nat) (t : St) (f : Nat → Branch), (bs.foldl (fun s x => s.set x (f x)) t).analysed = t.analysed := by
    intro bs
    induction bs with
    | nil => intro t f; rfl
    | cons b bs ih => intro t f; simp only [List.foldl_cons]; rw [ih]; rfl
  unfold step at h
  cases hk : a.kind <;> simp only [hk] at h
  case commit =>
    repeat' (split at h)
    all_goals first | (simp at h; done) | (simp only [Except.ok.injEq] at h; subst h; simp)
  case fork =>
    repeat' (split at h)
    all_goals first | (simp at h; done) | (simp only [Except.ok.injEq] at h; subst h; simp [hfold])
  case merge =>
    repeat' (split at h)
    all_goals first | (simp at h; done) | (simp only [Except.ok.injEq] at h; subst h; simp [hfold])
  case emerge =>
    repeat' (split at h)
    all_goals first | (simp at h; done) | (simp only [Except.ok.injEq] at h; subst h; simp [St.set])
  case delete =>
    repeat' (split at h)
    all_goals first | (simp at h; done) | (simp only [Except.ok.injEq] at h; subst h; simp)
  case hibernate =>
    simp only [reduceCtorEq, if_false]
    refine foldlM_analysed _ ?_ _ _ _ h
    intro t b t' ht
    repeat' (split at ht)
    all_goals first | (simp at ht; done) | (simp only [Except.ok.injEq] at ht; subst ht; simp [St.set])
  case boot =>
    simp only [reduceCtorEq, if_false]
    refine foldlM_analysed _ ?_ _ _ _ h
    intro t b t' ht
    repeat' (split at ht)
    all_goals first | (simp at ht; done) | (simp only [Except.ok.injEq] at ht; subst ht; simp [St.set])

/-- a step changes the replay counters only when it is a commit action, and then by one for that commit -/
theorem step_analysed (strict : Bool) (pa : Array (List Nat)) (anc : List (List Nat)) (s s' : St) (a : Action)
    (h : step strict pa anc s a = .ok s') (c : Nat) :
    countOf s'.analysed c = countOf s.analysed c + (if isReplay c a then 1 else 0) := by
  rw [step_analysed_eq strict pa anc s s' a h]
  by_cases hk : a.kind = .commit
  · simp only [hk, if_true, countOf_bump, isReplay, beq_self_eq_true, Bool.true_and, beq_iff_eq]
    by_cases hc : c = a.commit
    · subst hc; simp
    · have : ¬ a.commit = c := fun h => hc h.symm
      simp [hc, this]
  · have : isReplay c a = false := by
      simp only [isReplay, Bool.and_eq_false_iff, beq_eq_false_iff_ne, ne_eq]
      exact .inl hk
    simp [hk, this]

/-- the counters of an accepted run count the commit actions -/
theorem analysed_count (strict : Bool) (pa : Array (List Nat)) (anc : List (List Nat)) (plan : List Action)
    (s t : St) (h : plan.foldlM (step strict pa anc) s = .ok t) (c : Nat) :
    countOf t.analysed c = countOf s.analysed c + replays plan c := by
  induction plan generalizing s with
  | nil => simp [pure, Except.pure] at h; subst h; simp [replays]
  | cons a plan ih =>
    simp only [List.foldlM_cons, bind, Except.bind] at h
    split at h
    · simp at h
    · rename_i s1 hs1
      rw [ih s1 h, step_analysed strict pa anc s s1 a hs1 c]
      simp only [replays, List.filter_cons]
      split <;> simp <;> omega

end Pl

namespace Pl

def PosCounts (l : List (Nat × Nat)) : Prop := ∀ p ∈ l, 1 ≤ p.2

theorem bump_pos (l : List (Nat × Nat)) (c : Nat) (h : PosCounts l) : PosCounts (bump l c) := by
  unfold bump
  split
  · intro p hp
    rcases List.mem_cons.mp hp with rfl | hp
    · simp
    · exact h p (List.mem_filter.mp hp).1
  · intro p hp
    rcases List.mem_cons.mp hp with rfl | hp
    · simp
    · exact h p hp

theorem fold_pos (strict : Bool) (pa : Array (List Nat)) (anc : List (List Nat)) (plan : List Action)
    (s t : St) (h : plan.foldlM (step strict pa anc) s = .ok t) (hs : PosCounts s.analysed) : PosCounts t.analysed := by
  induction plan generalizing s with
  | nil => simp [pure, Except.pure] at h; subst h; exact hs
  | cons a plan ih =>
    simp only [List.foldlM_cons, bind, Except.bind] at h
    split at h
    · simp at h
    · rename_i s1 hs1
      refine ih s1 h ?_
      rw [step_analysed_eq strict pa anc s s1 a hs1]
      split
      · exact bump_pos _ _ hs
      · exact hs

theorem countOf_pos_of_find (l : List (Nat × Nat)) (c : Nat) (hp : PosCounts l) (p : Nat × Nat)
    (hf : l.find? (·.1 = c) = some p) : 1 ≤ countOf l c := by
  unfold countOf
  rw [hf]
  exact hp p (List.mem_of_find?_eq_some hf)

/-- **C02 (plan soundness)**: if the validator accepts a plan for a commit graph then
    1. every action of the plan is accepted in the state its prefix leads to — so `step_commit_sound` and
       `step_merge_sound` hold for every replay and every merge of the plan;
    2. every commit of the retained component is replayed, and no other commit is;
    3. in strict mode a retained commit is replayed exactly once per non-redundant parent (once if it has none);
    4. no branch is left hibernated. -/
theorem checkPlan_sound (strict : Bool) (parents : List (List Nat)) (retained : List Nat) (plan : List Action)
    (h : checkPlan strict parents retained plan = .ok ()) :
    ∃ sN, plan.foldlM (step strict parents.toArray (ancestors parents)) ⟨[], [], []⟩ = .ok sN ∧
      (∀ A a B, plan = A ++ a :: B → ∃ s s',
          A.foldlM (step strict parents.toArray (ancestors parents)) ⟨[], [], []⟩ = .ok s ∧
          step strict parents.toArray (ancestors parents) s a = .ok s' ∧
          B.foldlM (step strict parents.toArray (ancestors parents)) s' = .ok sN) ∧
      (∀ c ∈ retained, 1 ≤ replays plan c) ∧
      (∀ c, 1 ≤ replays plan c → c ∈ retained) ∧
      (strict = true → ∀ c ∈ retained, replays plan c = wantReplays (ancestors parents) parents.toArray c) ∧
      (∀ p ∈ sN.live, p.2.hib = false) := by
  unfold checkPlan at h
  simp only at h
  split at h
  · simp at h
  · rename_i sN hfold
    split at h
    · rename_i hfin
      have hcnt := fun c => analysed_count strict parents.toArray (ancestors parents) plan ⟨[], [], []⟩ sN hfold c
      have hpos := fold_pos strict parents.toArray (ancestors parents) plan ⟨[], [], []⟩ sN hfold (by intro p hp; simp at hp)
      have hc0 : ∀ c, countOf ([] : List (Nat × Nat)) c = 0 := fun c => rfl
      simp only [finalOK, Bool.and_eq_true, List.all_eq_true, Bool.not_eq_true', List.any_eq_false,
        Bool.not_eq_true] at hfin
      obtain ⟨⟨⟨hall, hforeign⟩, hhib⟩, _⟩ := hfin
      refine ⟨sN, hfold, ?_, ?_, ?_, ?_, ?_⟩
      · intro A a B hp
        subst hp
        exact foldlM_split _ A a B _ _ hfold
      · intro c hc
        have := hall c hc
        unfold analysedOK at this
        split at this
        · rename_i p k hf
          have h1 := countOf_pos_of_find sN.analysed c hpos _ hf
          have h2 := hcnt c
          simp only [hc0] at h2
          omega
        · simp at this
      · intro c hc
        have h2 := hcnt c
        simp only [hc0] at h2
        have hpos' : 1 ≤ countOf sN.analysed c := by omega
        unfold countOf at hpos'
        split at hpos'
        · rename_i p k hf
          have hmem := List.mem_of_find?_eq_some hf
          have hkey : (p, k).1 = c := by simpa using List.find?_some hf
          have := hforeign (p, k) hmem
          rw [hkey] at this
          simpa using this
        · omega
      · intro hs c hc
        have := hall c hc
        unfold analysedOK at this
        split at this
        · rename_i p k hf
          have h2 := hcnt c
          simp only [hc0] at h2
          have hk : countOf sN.analysed c = k := by unfold countOf; rw [hf]
          simp only [hs, Bool.not_true, Bool.false_or, beq_iff_eq] at this
          omega
        · simp at this
      · intro p hp
        have := hhib p hp
        simpa using this
    · simp at h

end Pl
