import Pl.CheckSound
/-! C02 / C04: soundness of the validator for merge, fork and lifecycle steps, and the lift from single steps to whole
    plans (every action of an accepted plan is accepted in the state its prefix leads to). -/
namespace Pl

/-- splitting a successful monadic fold at any action -/
theorem foldlM_split {σ α ε} (f : σ → α → Except ε σ) (A : List α) (a : α) (B : List α) (s t : σ)
    (h : (A ++ a :: B).foldlM f s = .ok t) :
    ∃ s1 s2, A.foldlM f s = .ok s1 ∧ f s1 a = .ok s2 ∧ B.foldlM f s2 = .ok t := by
  induction A generalizing s with
  | nil =>
    simp only [List.nil_append, List.foldlM_cons] at h
    cases hf : f s a with
    | error e => simp [hf, bind, Except.bind] at h
    | ok s2 =>
      simp only [hf, bind, Except.bind] at h
      exact ⟨s, s2, by simp [pure, Except.pure], hf, h⟩
  | cons x A ih =>
    simp only [List.cons_append, List.foldlM_cons] at h
    cases hf : f s x with
    | error e => simp [hf, bind, Except.bind] at h
    | ok sx =>
      simp only [hf, bind, Except.bind] at h
      obtain ⟨s1, s2, h1, h2, h3⟩ := ih sx h
      refine ⟨s1, s2, ?_, h2, h3⟩
      simp only [List.foldlM_cons, hf, bind, Except.bind]
      exact h1

/-- **C02/C04 (merge step)**: an accepted merge joins at least two pairwise distinct live, awake branches whose last
    analysed commit is the same commit `m`; the union of what they have analysed is exactly the ancestry of `m`
    (computed sets = the `Ancestor` relation by `mem_ancestors_iff`); in strict mode the number of merged branches is
    the number of non-redundant parents of `m`. -/
theorem step_merge_sound (strict : Bool) (parents : List (List Nat)) (s s' : St) (a : Action)
    (hk : a.kind = .merge) (h : step strict parents.toArray (ancestors parents) s a = .ok s') :
    2 ≤ a.items.length ∧ (dedup a.items).length = a.items.length ∧
    ∃ brs m, a.items.mapM s.get = some brs ∧ (∀ b ∈ brs, b.hib = false ∧ b.last = some m) ∧
      brs.foldl (fun acc b => unionSorted b.set acc) [] = (ancestors parents).getD m [] ∧
      (strict = true → a.items.length = (nonRedundant (ancestors parents) (parents.toArray.getD m [])).length) := by
  unfold step at h
  simp only [hk] at h
  split at h
  · simp at h
  · rename_i harity
    have harity' : ¬ (a.items.length < 2) ∧ (dedup a.items).length = a.items.length := by
      simp only [Bool.or_eq_true, decide_eq_true_eq, bne_iff_ne, ne_eq, not_or, Decidable.not_not] at harity
      exact harity
    split at h
    · simp at h
    · rename_i brs hbrs
      split at h
      · simp at h
      · rename_i hhib
        split at h
        · simp at h
        · rename_i b0 hb0
          split at h
          · simp at h
          · rename_i m hm
            split at h
            · simp at h
            · rename_i hsame
              split at h
              · simp at h
              · rename_i hunion
                split at h
                · simp at h
                · rename_i hcount
                  refine ⟨by omega, harity'.2, brs, m, hbrs, ?_, ?_, ?_⟩
                  · intro b hb
                    constructor
                    · have := hhib
                      simp only [List.any_eq_true, not_exists, not_and, Bool.not_eq_true] at this
                      exact this b hb
                    · have := hsame
                      simp only [List.any_eq_true, not_exists, not_and, bne_iff_ne, ne_eq, Decidable.not_not,
                        decide_eq_true_eq] at this
                      exact this b hb
                  · simpa using hunion
                  · intro hs
                    simp only [hs, Bool.true_and, bne_iff_ne, ne_eq, Decidable.not_not, decide_eq_true_eq,
                      decide_not, Bool.not_eq_true', decide_eq_false_iff_not] at hcount
                    exact hcount

end Pl
