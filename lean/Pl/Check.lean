import Pl.Model
/-! Abstract executor and plan validator (C02/C04). Commits are indexed topologically: parents < child. -/
namespace Pl

def insertSorted (x : Nat) : List Nat → List Nat
  | [] => [x]
  | y :: ys => if x < y then x :: y :: ys else if x = y then y :: ys else y :: insertSorted x ys

def unionSorted (a b : List Nat) : List Nat := a.foldl (fun acc x => insertSorted x acc) b

/-- ancestor sets (reflexive), computed in index order -/
def ancestors (parents : List (List Nat)) : List (List Nat) :=
  let rec go (i : Nat) (ps : List (List Nat)) (acc : List (List Nat)) : List (List Nat) :=
    match ps with
    | [] => acc
    | p :: rest =>
      let s := p.foldl (fun s q => unionSorted (acc.getD q []) s) [i]
      go (i + 1) rest (acc ++ [s])
  go 0 parents []

def dedup (l : List Nat) : List Nat := l.foldl (fun acc x => if acc.contains x then acc else acc ++ [x]) []

/-- distinct parents that are not ancestors of another distinct parent -/
def nonRedundant (anc : List (List Nat)) (ps : List Nat) : List Nat :=
  let ps := dedup ps
  ps.filter fun p => !(ps.any fun q => q ≠ p && (anc.getD q []).contains p)

structure Branch where
  set : List Nat
  last : Option Nat
  hib : Bool
  deriving Repr

structure St where
  live : List (Nat × Branch)
  dead : List Nat                 -- disposed branch ids
  analysed : List (Nat × Nat)     -- commit → number of replays
  deriving Repr

def St.get (s : St) (b : Nat) : Option Branch := (s.live.find? (·.1 = b)).map (·.2)
def St.set (s : St) (b : Nat) (br : Branch) : St :=
  { s with live := (b, br) :: s.live.filter (·.1 ≠ b) }
def bump (l : List (Nat × Nat)) (c : Nat) : List (Nat × Nat) :=
  match l.find? (·.1 = c) with
  | some (_, k) => (c, k + 1) :: l.filter (·.1 ≠ c)
  | none => (c, 1) :: l

def step (strict : Bool) (parents : Array (List Nat)) (anc : List (List Nat)) (s : St) (a : Action) : Except String St :=
  match a.kind with
  | .emerge =>
    match a.items with
    | [b] => if (s.get b).isSome || s.dead.contains b then .error "emerge-existing"
             else .ok (s.set b ⟨[], none, false⟩)
    | _ => .error "emerge-arity"
  | .commit =>
    match a.items with
    | [b] =>
      match s.get b with
      | none => .error "commit-dead-branch"
      | some br =>
        if br.hib then .error "commit-hibernated" else
        let c := a.commit
        let ps := dedup (parents.getD c [])
        let ok :=
          match br.last with
          | none => ps.isEmpty && br.set.isEmpty
          | some q => (if strict then (nonRedundant anc ps).contains q else ps.contains q) && br.set == anc.getD q []
        if !ok then .error "commit-wrong-ancestry"
        else .ok { (s.set b ⟨insertSorted c br.set, some c, false⟩) with analysed := bump s.analysed c }
    | _ => .error "commit-arity"
  | .fork =>
    match a.items with
    | b :: bs =>
      match s.get b with
      | none => .error "fork-dead-branch"
      | some br =>
        if br.hib then .error "fork-hibernated" else
        if bs.isEmpty || bs.any (fun x => (s.get x).isSome || s.dead.contains x || x = b) || (dedup bs).length ≠ bs.length
        then .error "fork-target"
        else .ok (bs.foldl (fun s x => s.set x ⟨br.set, br.last, false⟩) s)
    | [] => .error "fork-arity"
  | .merge =>
    let bs := a.items
    if bs.length < 2 || (dedup bs).length ≠ bs.length then .error "merge-arity" else
    match bs.mapM s.get with
    | none => .error "merge-dead-branch"
    | some brs =>
      if brs.any (·.hib) then .error "merge-hibernated" else
      match brs.head? with
      | none => .error "merge-arity"
      | some b0 =>
        match b0.last with
        | none => .error "merge-fresh"
        | some m =>
          if brs.any (fun b => b.last ≠ some m) then .error "merge-different-last" else
          let u := brs.foldl (fun acc b => unionSorted b.set acc) []
          if u != anc.getD m [] then .error "merge-not-full-ancestry" else
          if strict && bs.length ≠ (nonRedundant anc (parents.getD m [])).length then .error "merge-replay-count" else
          .ok (bs.foldl (fun s x => s.set x ⟨u, some m, false⟩) s)
  | .delete =>
    match a.items with
    | [b] =>
      match s.get b with
      | none => .error "delete-dead"
      | some br => if br.hib then .error "delete-hibernated"
                   else .ok { s with live := s.live.filter (·.1 ≠ b), dead := b :: s.dead }
    | _ => .error "delete-arity"
  | .hibernate =>
    a.items.foldlM (fun s b =>
      match s.get b with
      | none => .error "hibernate-dead"
      | some br => if br.hib then .error "hibernate-twice" else .ok (s.set b { br with hib := true })) s
  | .boot =>
    a.items.foldlM (fun s b =>
      match s.get b with
      | none => .error "boot-dead"
      | some br => if !br.hib then .error "boot-awake" else .ok (s.set b { br with hib := false })) s

/-- number of replays the property asks for: one per non-redundant parent, one for a commit without parents -/
def wantReplays (anc : List (List Nat)) (pa : Array (List Nat)) (c : Nat) : Nat :=
  max 1 (nonRedundant anc (pa.getD c [])).length

/-- every retained commit analysed (in strict mode: the right number of times) -/
def analysedOK (strict : Bool) (anc : List (List Nat)) (pa : Array (List Nat)) (s : St) (c : Nat) : Bool :=
  match s.analysed.find? (·.1 = c) with
  | some (_, k) => !strict || k == wantReplays anc pa c
  | none => false

def minBranch (s : St) : Option Nat :=
  (s.live.map (·.1)).foldl (fun m b => match m with | none => some b | some x => some (min x b)) none

/-- single head ⇒ the smallest surviving branch has incorporated every retained commit -/
def masterOK (pa : Array (List Nat)) (retained : List Nat) (s : St) : Bool :=
  let heads := retained.filter fun c => !(retained.any fun d => (dedup (pa.getD d [])).contains c)
  if heads.length = 1 then
    match minBranch s with
    | none => false
    | some mb =>
      match s.get mb with
      | some br => br.set.length == retained.length
      | none => false
  else true

/-- the checks after the last action -/
def finalOK (strict : Bool) (anc : List (List Nat)) (pa : Array (List Nat)) (retained : List Nat) (s : St) : Bool :=
  retained.all (analysedOK strict anc pa s) &&
  !(s.analysed.any fun (c, _) => !retained.contains c) &&
  !(s.live.any (·.2.hib)) &&
  masterOK pa retained s

/-- the validator: `retained` = the commits that must be analysed (the kept component) -/
def checkPlan (strict : Bool) (parents : List (List Nat)) (retained : List Nat) (plan : List Action) : Except String Unit :=
  let pa := parents.toArray
  let anc := ancestors parents
  match plan.foldlM (step strict pa anc) ⟨[], [], []⟩ with
  | .error e => .error e
  | .ok s => if finalOK strict anc pa retained s then .ok () else .error "final-state"

/-- undirected neighbours of a commit in the parent graph -/
def neighbours (parents : List (List Nat)) (c : Nat) : List Nat :=
  parents.getD c [] ++ (List.range parents.length).filter fun d => (parents.getD d []).contains c

def expand (parents : List (List Nat)) (s : List Nat) : List Nat :=
  s.foldl (fun acc c => unionSorted (neighbours parents c) acc) s

/-- connected component of `c` (sorted), by `n` rounds of neighbour expansion -/
def iter (f : List Nat → List Nat) : Nat → List Nat → List Nat
  | 0, s => s
  | n + 1, s => iter f n (f s)

def componentOf (parents : List (List Nat)) (c : Nat) : List Nat :=
  iter (expand parents) parents.length [c]

/-- `leaveRootComponent`: the retained commits form one connected component and no component is larger
(which of several largest ones is kept depends on map order: observed choice) -/
def retainedOK (parents : List (List Nat)) (ret : List Nat) : Bool :=
  match ret with
  | [] => parents.isEmpty
  | c :: _ => decide (c < parents.length) && ret == componentOf parents c &&
      (List.range parents.length).all fun d => (componentOf parents d).length ≤ ret.length

end Pl
