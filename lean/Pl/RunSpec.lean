import Pl.Run
namespace Pl

/-- the instance of the last item before the consumer (in execution order) that provides entity `e` -/
def lastProv (pre : List (Item × Nat)) (e : Nat) : Option Nat :=
  (pre.reverse.find? (fun x => x.1.provides.contains e)).map (·.2)

def depsOf (pre : List (Item × Nat)) (commit : Nat) (it : Item) : List (Nat × Option (Nat × Nat)) :=
  it.requires.map fun e => (e, (lastProv pre e).map (·, commit))

/-- what the log of one commit step must be when no item fails -/
def specLog (commit idx : Nat) (im : Bool) : List (Item × Nat) → List Item → List Nat → List Ev
  | pre, it :: its, inst :: insts =>
    Ev.consume inst commit idx im (depsOf pre commit it) :: specLog commit idx im (pre ++ [(it, inst)]) its insts
  | _, _, _ => []

def lookup (state : List (Nat × (Nat × Nat))) (e : Nat) : Option (Nat × Nat) :=
  (state.find? (·.1 = e)).map (·.2)

def StateOf (state : List (Nat × (Nat × Nat))) (pre : List (Item × Nat)) (commit : Nat) : Prop :=
  ∀ e, lookup state e = (lastProv pre e).map (·, commit)

theorem lastProv_snoc (pre : List (Item × Nat)) (it : Item) (inst e : Nat) :
    lastProv (pre ++ [(it, inst)]) e = if it.provides.contains e then some inst else lastProv pre e := by
  unfold lastProv
  simp only [List.reverse_append, List.reverse_cons, List.reverse_nil, List.nil_append,
    List.singleton_append, List.find?_cons]
  split <;> simp_all

theorem find?_congr' {α : Type} (l : List α) (p q : α → Bool) (h : ∀ a ∈ l, p a = q a) :
    l.find? p = l.find? q := by
  induction l with
  | nil => rfl
  | cons a l ih =>
    simp only [List.find?_cons, h a (by simp)]
    rw [ih (fun b hb => h b (by simp [hb]))]

theorem lookup_set (state : List (Nat × (Nat × Nat))) (e e' : Nat) (v : Nat × Nat) :
    lookup ((e, v) :: state.filter (·.1 ≠ e)) e' = if e = e' then some v else lookup state e' := by
  unfold lookup
  by_cases h : e = e'
  · subst h; simp
  · simp only [List.find?_cons, h, decide_false, if_neg h]
    rw [List.find?_filter]
    congr 1
    apply find?_congr'
    intro a _
    by_cases h2 : a.1 = e' <;> simp [h2]
    intro h3; exact h (h3 ▸ h2 ▸ rfl)

theorem lookup_foldl (prov : List Nat) (state : List (Nat × (Nat × Nat))) (v : Nat × Nat) (e' : Nat) :
    lookup (prov.foldl (fun st e => (e, v) :: st.filter (·.1 ≠ e)) state) e' =
      if prov.contains e' then some v else lookup state e' := by
  induction prov generalizing state with
  | nil => simp
  | cons e rest ih =>
    simp only [List.foldl_cons]
    rw [ih, lookup_set]
    simp only [List.contains_cons, List.contains_eq_mem, Bool.or_eq_true, beq_iff_eq, decide_eq_true_eq]
    by_cases h1 : e' ∈ rest
    · simp [h1]
    · by_cases h2 : e = e'
      · subst h2; simp
      · have : ¬ e' = e := fun h => h2 h.symm
        simp [h1, h2, this]

theorem stateOf_step (state : List (Nat × (Nat × Nat))) (pre : List (Item × Nat)) (commit : Nat)
    (it : Item) (inst : Nat) (h : StateOf state pre commit) :
    StateOf (it.provides.foldl (fun st e => (e, (inst, commit)) :: st.filter (·.1 ≠ e)) state)
      (pre ++ [(it, inst)]) commit := by
  intro e
  rw [lookup_foldl, lastProv_snoc, h e]
  split <;> simp

/-- **C14-T1**: when a commit step succeeds, every item instance of the branch is called exactly once,
    in resolved order, with this commit, this index and this merge flag, and sees for every required
    entity the output of the last upstream provider for this commit on this branch. -/
theorem consumeAll_ok (items : List Item) (commit idx : Nat) (im : Bool) :
    ∀ (its : List Item) (insts : List Nat) (j : Nat) (pre : List (Item × Nat))
      (state : List (Nat × (Nat × Nat))) (log log' : List Ev) (cc cc' : List Nat),
    StateOf state pre commit →
    consumeAll items commit idx im j its insts state log cc = .ok (log', cc') →
    log' = (specLog commit idx im pre its insts).reverse ++ log := by
  intro its
  induction its with
  | nil => intro insts j pre state log log' cc cc' _ h; simp [consumeAll] at h; simp [specLog, h.1]
  | cons it its ih =>
    intro insts j pre state log log' cc cc' hst h
    cases insts with
    | nil => simp [consumeAll] at h; simp [specLog, h.1]
    | cons inst insts =>
      simp only [consumeAll] at h
      split at h
      · simp at h
      · split at h
        · simp at h
        · have hdeps : it.requires.map (fun e => (e, (state.find? (·.1 = e)).map (·.2))) = depsOf pre commit it := by
            unfold depsOf
            apply List.map_congr_left
            intro e _
            have := hst e
            unfold lookup at this
            rw [this]
          rw [hdeps] at h
          have := ih insts (j + 1) (pre ++ [(it, inst)]) _ _ log' _ cc' (stateOf_step state pre commit it inst hst) h
          rw [this]
          simp [specLog]

/-- a failing item aborts the step with an error -/
theorem consumeAll_fail (items : List Item) (commit idx : Nat) (im : Bool) (it : Item) (its : List Item)
    (inst : Nat) (insts : List Nat) (j : Nat) (state : List (Nat × (Nat × Nat))) (log : List Ev) (cc : List Nat)
    (h : it.cfail = some (cc.getD j 0 + 1)) :
    ∃ e, consumeAll items commit idx im j (it :: its) (inst :: insts) state log cc = .error e := by
  simp [consumeAll, h]

end Pl
