def hello := "world"
