import Pl.Run2
import Pl.Transparent
namespace Pl

def notHBev : Ev → Bool
  | .hibernate _ => false
  | .boot _ => false
  | _ => true

def NoHBFail (items : List Item) : Prop := ∀ it ∈ items, it.hfail = none ∧ it.bfail = none

theorem hbAll2_ok (isBoot : Bool) : ∀ (its : List Item) (insts : List Nat) (j : Nat) (c : List Nat),
    (∀ it ∈ its, it.hfail = none ∧ it.bfail = none) →
    ∃ evs c', hbAll2 isBoot j its insts c = .ok (evs, c') ∧ evs.filter notHBev = [] := by
  intro its
  induction its with
  | nil => intro insts j c _; exact ⟨[], c, by simp [hbAll2], rfl⟩
  | cons it its ih =>
    intro insts j c h
    cases insts with
    | nil => exact ⟨[], c, by simp [hbAll2], rfl⟩
    | cons inst insts =>
      have hit := h it (by simp)
      have hrest : ∀ it' ∈ its, it'.hfail = none ∧ it'.bfail = none := fun it' h' => h it' (by simp [h'])
      simp only [hbAll2]
      by_cases hf : it.full = true
      · simp only [hf, Bool.not_true, Bool.false_eq_true, if_false]
        have hnf : ¬ ((if isBoot = true then it.bfail else it.hfail) = some (c.getD j 0 + 1)) := by
          cases isBoot <;> simp [hit.1, hit.2]
        simp only [hnf, if_false]
        obtain ⟨evs, c', h1, h2⟩ := ih insts (j + 1) (c.set j (c.getD j 0 + 1)) hrest
        rw [h1]
        refine ⟨_, c', rfl, ?_⟩
        cases isBoot <;> simp [notHBev, h2]
      · have hf' : it.full = false := by simpa using hf
        simp only [hf', Bool.not_false, if_true]
        exact ih insts (j + 1) c hrest

theorem stepHB_ok (items : List Item) (hn : NoHBFail items) (isBoot : Bool) (branches : List (Nat × List Nat)) :
    ∀ (bs : List Nat) (c : List Nat),
    ∃ evs c', stepHB items isBoot branches bs c = .ok (evs, c') ∧ evs.filter notHBev = [] := by
  intro bs
  induction bs with
  | nil => intro c; exact ⟨[], c, rfl, rfl⟩
  | cons b bs ih =>
    intro c
    obtain ⟨e1, c1, h1, f1⟩ := hbAll2_ok isBoot items (getBranch branches b) 0 c hn
    obtain ⟨e2, c2, h2, f2⟩ := ih c1
    simp only [stepHB, h1, h2]
    exact ⟨_, c2, rfl, by simp [List.filter_append, f1, f2]⟩

theorem consumeAll2_events (commit idx : Nat) (im : Bool) :
    ∀ (its : List Item) (insts : List Nat) (j : Nat) (state : List (Nat × (Nat × Nat))) (cc : List Nat),
    (∀ evs cc', consumeAll2 commit idx im j its insts state cc = .ok (evs, cc') → evs.filter notHBev = evs) ∧
    (∀ m evs, consumeAll2 commit idx im j its insts state cc = .error (m, evs) → evs.filter notHBev = evs) := by
  intro its
  induction its with
  | nil => intro insts j state cc; constructor <;> intro a b h <;> simp [consumeAll2] at h <;> simp [h]
  | cons it its ih =>
    intro insts j state cc
    cases insts with
    | nil => constructor <;> intro a b h <;> simp [consumeAll2] at h <;> simp [h]
    | cons inst insts =>
      simp only [consumeAll2]
      constructor
      · intro evs cc' h
        split at h
        · simp at h
        · split at h
          · simp at h
          · split at h
            · rename_i e c' hr
              simp at h; obtain ⟨rfl, _⟩ := h
              have := (ih insts _ _ _).1 _ _ hr
              simp only [List.filter_cons, notHBev, if_true]
              rw [this]
            · simp at h
      · intro m evs h
        split at h
        · simp at h; obtain ⟨_, rfl⟩ := h; simp [notHBev]
        · split at h
          · simp at h; obtain ⟨_, rfl⟩ := h; simp [notHBev]
          · split at h
            · simp at h
            · rename_i m' e' hr
              simp at h; obtain ⟨_, rfl⟩ := h
              have := (ih insts _ _ _).2 _ _ hr
              simp only [List.filter_cons, notHBev, if_true]
              rw [this]

theorem cloneGo_events (n : Nat) : ∀ (its : List Item) (org : List Nat) (next : Nat) (evs : List Ev) (cols : List (List Nat)),
    evs.filter notHBev = evs → (cloneItems2.go n its org next evs cols).2.2.filter notHBev = (cloneItems2.go n its org next evs cols).2.2 := by
  intro its
  induction its with
  | nil => intro org next evs cols h; simpa [cloneItems2.go] using h
  | cons it its ih =>
    intro org next evs cols h
    cases org with
    | nil => simpa [cloneItems2.go] using h
    | cons inst org =>
      simp only [cloneItems2.go]
      apply ih
      simp [List.filter_append, h, notHBev]

theorem cloneItems2_events (items : List Item) (origin : List Nat) (n next : Nat) :
    (cloneItems2 items origin n next).2.2.filter notHBev = (cloneItems2 items origin n next).2.2 := by
  unfold cloneItems2
  exact cloneGo_events n items origin next [] [] rfl

theorem stepCore_events (items : List Item) (rc : List Nat) (times : List Int) (im : Bool) (a : Action) (s : Core) :
    (∀ c evs, stepCore items rc times im a s = .ok (c, evs) → evs.filter notHBev = evs) ∧
    (∀ m evs, stepCore items rc times im a s = .error (m, evs) → evs.filter notHBev = evs) := by
  unfold stepCore
  cases hk : a.kind <;> simp only [hk]
  · -- commit
    constructor
    · intro c evs h
      split at h
      · simp at h
      · rename_i e cc hr
        simp at h; obtain ⟨_, rfl⟩ := h
        exact (consumeAll2_events _ _ _ _ _ _ _ _).1 _ _ hr
    · intro m evs h
      split at h
      · rename_i e hr
        simp at h; subst h
        exact (consumeAll2_events _ _ _ _ _ _ _ _).2 _ _ hr
      · simp at h
  · constructor
    · intro c evs h; simp at h; obtain ⟨_, rfl⟩ := h; exact cloneItems2_events _ _ _ _
    · intro m evs h; simp at h
  · constructor
    · intro c evs h
      split at h
      · simp at h; obtain ⟨_, rfl⟩ := h; rfl
      · simp at h; obtain ⟨_, rfl⟩ := h
        rw [List.filter_eq_self]; intro e he
        obtain ⟨p, _, rfl⟩ := List.mem_map.1 he; rfl
    · intro m evs h; split at h <;> simp at h
  · constructor
    · intro c evs h
      split at h
      · simp at h; obtain ⟨_, rfl⟩ := h; rfl
      · simp at h; obtain ⟨_, rfl⟩ := h; exact cloneItems2_events _ _ _ _
    · intro m evs h; split at h <;> simp at h
  all_goals (constructor <;> intro x evs h <;> simp at h <;> (try (obtain ⟨_, rfl⟩ := h; rfl)))

end Pl
