import Pl.Run2
import Pl.RunSpec
namespace Pl

/-- C14-T1 on the refactored interpreter: the events of a successful commit step are exactly `specLog` -/
theorem consumeAll2_ok (commit idx : Nat) (im : Bool) :
    ∀ (its : List Item) (insts : List Nat) (j : Nat) (pre : List (Item × Nat))
      (state : List (Nat × (Nat × Nat))) (evs : List Ev) (cc cc' : List Nat),
    StateOf state pre commit →
    consumeAll2 commit idx im j its insts state cc = .ok (evs, cc') →
    evs = specLog commit idx im pre its insts := by
  intro its
  induction its with
  | nil => intro insts j pre state evs cc cc' _ h; simp [consumeAll2] at h; simp [specLog, h.1]
  | cons it its ih =>
    intro insts j pre state evs cc cc' hst h
    cases insts with
    | nil => simp [consumeAll2] at h; simp [specLog, h.1]
    | cons inst insts =>
      simp only [consumeAll2] at h
      split at h
      · simp at h
      · split at h
        · simp at h
        · split at h
          · rename_i e c' hr
            simp at h
            obtain ⟨rfl, _⟩ := h
            have hdeps : it.requires.map (fun e => (e, (state.find? (·.1 = e)).map (·.2))) = depsOf pre commit it := by
              unfold depsOf
              apply List.map_congr_left
              intro e _
              have := hst e
              unfold lookup at this
              rw [this]
            have := ih insts (j + 1) (pre ++ [(it, inst)]) _ _ _ _ (stateOf_step state pre commit it inst hst) hr
            rw [this, hdeps]
            simp [specLog]
          · simp at h

/-- a failing Consume surfaces as an error of the step (and hence of the run) -/
theorem consumeAll2_fail (commit idx : Nat) (im : Bool) (it : Item) (its : List Item)
    (inst : Nat) (insts : List Nat) (j : Nat) (state : List (Nat × (Nat × Nat))) (cc : List Nat)
    (h : it.cfail = some (cc.getD j 0 + 1)) :
    ∃ e, consumeAll2 commit idx im j (it :: its) (inst :: insts) state cc = .error e := by
  simp [consumeAll2, h]

theorem stepCore_idx (items : List Item) (rc : List Nat) (times : List Int) (im : Bool) (a : Action) (s c : Core)
    (evs : List Ev) (h : stepCore items rc times im a s = .ok (c, evs)) :
    c.idx = s.idx + (if a.kind = .commit then 1 else 0) := by
  unfold stepCore at h
  cases hk : a.kind <;> simp only [hk] at h
  · split at h
    · simp at h
    · simp at h; obtain ⟨rfl, _⟩ := h; simp
  · simp at h; obtain ⟨rfl, _⟩ := h; simp
  · split at h <;> (simp at h; obtain ⟨rfl, _⟩ := h; simp)
  · split at h <;> (simp at h; obtain ⟨rfl, _⟩ := h; simp)
  all_goals (simp at h; obtain ⟨rfl, _⟩ := h; simp)

/-- an error anywhere in the plan is the outcome of the whole loop: nothing after it runs, nothing is returned -/
theorem runLoop2_error (items : List Item) (rc : List Nat) (times : List Int) (plan : List Action)
    (i : Nat) (a : Action) (rest : List Action) (s : RS2) (m : String) (evs : List Ev)
    (h : step2 items rc times (isMerge plan i a.commit) a s = .error (m, evs)) :
    runLoop2 items rc times plan i (a :: rest) s = .error (m, evs) := by
  simp [runLoop2, h]

end Pl
