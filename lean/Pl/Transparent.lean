import Pl.IsMerge
import Pl.Hib
namespace Pl

theorem scanMatch_erase (c : Nat) (l : List Action) : scanMatch c (erase l) = scanMatch c l := by
  induction l with
  | nil => rfl
  | cons a l ih =>
    unfold erase at ih ⊢
    simp only [List.filter_cons]
    by_cases hv : isHB a = true
    · have hk : a.kind = .hibernate ∨ a.kind = .boot := by
        simp only [isHB, Bool.or_eq_true, beq_iff_eq] at hv; exact hv
      simp only [hv, Bool.not_true, Bool.false_eq_true, if_false]
      rcases hk with hk | hk <;> simp [scanMatch, hk, ih]
    · have hv' : isHB a = false := by simpa using hv
      have hk : a.kind ≠ .hibernate ∧ a.kind ≠ .boot := by
        simp only [isHB, Bool.or_eq_false_iff, beq_eq_false_iff_ne, ne_eq] at hv'; exact hv'
      simp only [hv', Bool.not_false, if_true]
      cases hkk : a.kind <;> simp_all [scanMatch]

theorem erase_append (a b : List Action) : erase (a ++ b) = erase a ++ erase b := by simp [erase]
theorem erase_reverse (a : List Action) : erase a.reverse = (erase a).reverse := by simp [erase, List.filter_reverse]

/-- **C09 (merge flag)**: the merge flag an item sees does not depend on the hibernate/boot actions in the
    plan — provided the plan does not start with one (it starts with the root emerge). -/
theorem isMerge_erase (a0 : Action) (A B : List Action) (x : Action) (c : Nat)
    (h0 : isHB a0 = false) (hx : isHB x = false) :
    isMerge (a0 :: A ++ x :: B) (a0 :: A).length c =
      isMerge (erase (a0 :: A) ++ x :: erase B) (erase (a0 :: A)).length c := by
  have e1 : erase (a0 :: A) = a0 :: erase A := by simp [erase, h0]
  rw [isMerge_split (a0 :: A) B x c, e1, isMerge_split (a0 :: erase A) (erase B) x c]
  simp only [List.drop_succ_cons, List.drop_zero]
  rw [← erase_reverse, scanMatch_erase, scanMatch_erase]

end Pl
