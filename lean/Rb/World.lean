import Rb.Model
import Rb.Clone
/-! C06: executable world of several allocators and several trees (the correspondence target of probe k06w).
    An arena is `(size, gaps)`; a tree lives on one arena.  `malloc` follows the index the Go code chose
    (map order) after checking that the choice was legal (DESIGN.md section 4). -/
namespace RbW
open RbM

structure Arena where
  size : Nat
  gaps : List Nat        -- kept sorted
  deriving Repr

def insSorted (x : Nat) : List Nat → List Nat
  | [] => [x]
  | y :: ys => if x ≤ y then x :: y :: ys else y :: insSorted x ys

/-- `Allocator.malloc`: a gap if there is one (any, by map order: `choice` must be one), else grow;
    index 0 is reserved on first use -/
def Arena.malloc (a : Arena) (choice : Nat) : Option Arena :=
  if a.gaps ≠ [] then
    if a.gaps.contains choice then some { a with gaps := a.gaps.erase choice } else none
  else if a.size = 0 then
    if choice = 1 then some ⟨2, []⟩ else none
  else if choice = a.size then some ⟨a.size + 1, []⟩ else none

/-- `Allocator.free`: index 0 and double frees are refused -/
def Arena.free (a : Arena) (n : Nat) : Option Arena :=
  if n = 0 ∨ a.gaps.contains n ∨ n ≥ a.size then none else some { a with gaps := insSorted n a.gaps }

def Arena.used (a : Arena) : Nat := a.size - a.gaps.length

structure W where
  arenas : List (Nat × Arena)
  trees : List (Nat × Nat × Tree)     -- tree id ↦ (arena id, tree)
  deriving Inhabited

def W.arena (w : W) (a : Nat) : Option Arena := (w.arenas.find? (·.1 = a)).map (·.2)
def W.setArena (w : W) (a : Nat) (x : Arena) : W := { w with arenas := (a, x) :: w.arenas.filter (·.1 ≠ a) }
def W.tree (w : W) (t : Nat) : Option (Nat × Tree) := (w.trees.find? (·.1 = t)).map (·.2)
def W.setTree (w : W) (t a : Nat) (x : Tree) : W := { w with trees := (t, a, x) :: w.trees.filter (·.1 ≠ t) }

def treeIds (t : Tree) : List Nat := t.toList.map (·.1)

/-- `Insert`: allocation happens only when the key is new (`id` = the index Go's malloc returned, 0 otherwise) -/
def W.insert (w : W) (t k v id : Nat) : Option (W × Bool) := do
  let (a, tr) ← w.tree t
  let ar ← w.arena a
  let (tr', ok) := RbM.insert tr id k v
  if ok then
    let ar' ← ar.malloc id
    some ((w.setArena a ar').setTree t a tr', true)
  else if id = 0 then some (w, false) else none

def W.delete (w : W) (t k : Nat) : Option (W × Bool) := do
  let (a, tr) ← w.tree t
  let ar ← w.arena a
  let (tr', fr) := RbM.delete tr k
  match fr with
  | some n =>
    let ar' ← ar.free n
    some ((w.setArena a ar').setTree t a tr', true)
  | none => some (w, false)

/-- `Erase`: every node goes back to the allocator, the header is reset -/
def W.erase (w : W) (t : Nat) : Option W := do
  let (a, tr) ← w.tree t
  let ar ← w.arena a
  let ar' ← (treeIds tr).foldlM (fun x n => x.free n) ar
  some ((w.setArena a ar').setTree t a Tree.nil)

/-- `CloneDeep` into arena `a2` as tree `t2`; `ids` = the indices handed out, in in-order -/
def W.deep (w : W) (t t2 a2 : Nat) (ids : List Nat) : Option W := do
  let (_, tr) ← w.tree t
  let ar ← w.arena a2
  let ar' ← ids.foldlM (fun x n => x.malloc n) ar
  if ids.length ≠ tr.size then none else
  some ((w.setArena a2 ar').setTree t2 a2 (cloneDeep tr ids))

/-- `Allocator.Clone` -/
def W.cloneArena (w : W) (a a2 : Nat) : Option W := do
  let ar ← w.arena a
  some (w.setArena a2 ar)

/-- `CloneShallow`: the same nodes, read through another allocator -/
def W.shallow (w : W) (t t2 a2 : Nat) : Option W := do
  let (_, tr) ← w.tree t
  some (w.setTree t2 a2 tr)

end RbW

namespace RbW
open RbM

theorem find_filter_ne_gen {β : Type} (l : List (Nat × β)) (k k' : Nat) (e : ¬ k = k') :
    (l.filter (fun x => decide (x.1 ≠ k))).find? (fun x => decide (x.1 = k')) = l.find? (fun x => decide (x.1 = k')) := by
  induction l with
  | nil => rfl
  | cons a l ih =>
    by_cases h1 : a.1 = k
    · have hd : decide (a.1 ≠ k) = false := by simp [h1]
      have h2 : decide (a.1 = k') = false := by
        simp only [decide_eq_false_iff_not]; intro h3; exact e (h1 ▸ h3)
      rw [List.filter_cons, hd]
      simp only [Bool.false_eq_true, if_false, List.find?_cons, h2]
      exact ih
    · have hd : decide (a.1 ≠ k) = true := by simp [h1]
      rw [List.filter_cons, hd]
      simp only [if_true, List.find?_cons]
      rw [ih]

theorem tree_setTree_ne (w : W) (t t2 a : Nat) (x : Tree) (h : t2 ≠ t) : (w.setTree t a x).tree t2 = w.tree t2 := by
  unfold W.tree W.setTree
  simp only
  rw [List.find?_cons]
  have : ¬ t = t2 := fun e => h e.symm
  simp only [this, decide_false]
  rw [find_filter_ne_gen w.trees t t2 this]

theorem arena_setArena_ne (w : W) (a a2 : Nat) (x : Arena) (h : a2 ≠ a) : (w.setArena a x).arena a2 = w.arena a2 := by
  unfold W.arena W.setArena
  simp only
  rw [List.find?_cons]
  have : ¬ a = a2 := fun e => h e.symm
  simp only [this, decide_false]
  rw [find_filter_ne_gen w.arenas a a2 this]

theorem tree_setArena (w : W) (a t : Nat) (x : Arena) : (w.setArena a x).tree t = w.tree t := rfl
theorem arena_setTree (w : W) (t a a2 : Nat) (x : Tree) : (w.setTree t a x).arena a2 = w.arena a2 := rfl

/-- **C06 / C08 (independence)**: an insertion into tree `t` changes neither any other tree (whatever allocator it lives
    on — in particular a clone on a cloned allocator) nor any allocator other than the one `t` lives on -/
theorem insert_frame (w w' : W) (t k v id : Nat) (ok : Bool) (h : w.insert t k v id = some (w', ok)) :
    (∀ t2, t2 ≠ t → w'.tree t2 = w.tree t2) ∧
    (∀ a tr, w.tree t = some (a, tr) → ∀ a2, a2 ≠ a → w'.arena a2 = w.arena a2) := by
  unfold W.insert at h
  cases ht : w.tree t with
  | none => simp [ht] at h
  | some p =>
    obtain ⟨a, tr⟩ := p
    cases har : w.arena a with
    | none => simp [ht, har] at h
    | some ar =>
      simp only [ht, har, Option.bind_eq_bind, Option.bind_some] at h
      split at h
      · cases hm : ar.malloc id with
        | none => simp [hm] at h
        | some ar' =>
          simp only [hm, Option.bind_some, Option.some.injEq, Prod.mk.injEq] at h
          obtain ⟨rfl, _⟩ := h
          refine ⟨fun t2 h2 => ?_, fun a0 tr0 h0 a2 h2 => ?_⟩
          · rw [tree_setTree_ne _ _ _ _ _ h2, tree_setArena]
          · simp only [Option.some.injEq, Prod.mk.injEq] at h0
            obtain ⟨rfl, _⟩ := h0
            rw [arena_setTree, arena_setArena_ne _ _ _ _ h2]
      · split at h
        · simp only [Option.some.injEq, Prod.mk.injEq] at h
          obtain ⟨rfl, _⟩ := h
          exact ⟨fun _ _ => rfl, fun _ _ _ _ _ => rfl⟩
        · simp at h

/-- the same for deletions -/
theorem delete_frame (w w' : W) (t k : Nat) (ok : Bool) (h : w.delete t k = some (w', ok)) :
    (∀ t2, t2 ≠ t → w'.tree t2 = w.tree t2) ∧
    (∀ a tr, w.tree t = some (a, tr) → ∀ a2, a2 ≠ a → w'.arena a2 = w.arena a2) := by
  unfold W.delete at h
  cases ht : w.tree t with
  | none => simp [ht] at h
  | some p =>
    obtain ⟨a, tr⟩ := p
    cases har : w.arena a with
    | none => simp [ht, har] at h
    | some ar =>
      simp only [ht, har, Option.bind_eq_bind, Option.bind_some] at h
      split at h
      · rename_i n hn
        cases hf : ar.free n with
        | none => simp [hf] at h
        | some ar' =>
          simp only [hf, Option.bind_some, Option.some.injEq, Prod.mk.injEq] at h
          obtain ⟨rfl, _⟩ := h
          refine ⟨fun t2 h2 => ?_, fun a0 tr0 h0 a2 h2 => ?_⟩
          · rw [tree_setTree_ne _ _ _ _ _ h2, tree_setArena]
          · simp only [Option.some.injEq, Prod.mk.injEq] at h0
            obtain ⟨rfl, _⟩ := h0
            rw [arena_setTree, arena_setArena_ne _ _ _ _ h2]
      · simp only [Option.some.injEq, Prod.mk.injEq] at h
        obtain ⟨rfl, _⟩ := h
        exact ⟨fun _ _ => rfl, fun _ _ _ _ _ => rfl⟩

end RbW
