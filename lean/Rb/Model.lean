/-!  Executable zipper model of internal/rbtree/rbtree.go (Insert, DeleteWithKey) with node indices. -/
namespace RbM

inductive Color | red | black deriving DecidableEq, Repr

inductive Tree where
  | nil : Tree
  | node (c : Color) (l : Tree) (id key val : Nat) (r : Tree) : Tree
  deriving Repr

open Tree Color

inductive Frame where
  | L (c : Color) (id key val : Nat) (r : Tree)   -- the hole is the left child, `r` its sibling
  | R (c : Color) (l : Tree) (id key val : Nat)   -- the hole is the right child, `l` its sibling
  deriving Repr

def Tree.color : Tree → Color
  | nil => black
  | node c .. => c

def setColor (c : Color) : Tree → Tree
  | node _ l i k v r => node c l i k v r
  | nil => nil

def Tree.left : Tree → Tree
  | node _ l .. => l
  | nil => nil
def Tree.right : Tree → Tree
  | node _ _ _ _ _ r => r
  | nil => nil

def plug (t : Tree) : Frame → Tree
  | .L c i k v r => node c t i k v r
  | .R c l i k v => node c l i k v t

def zip (t : Tree) : List Frame → Tree
  | [] => t
  | f :: fs => zip (plug t f) fs

def Frame.color : Frame → Color
  | .L c .. => c
  | .R c .. => c
def Frame.setColor (c : Color) : Frame → Frame
  | .L _ i k v r => .L c i k v r
  | .R _ l i k v => .R c l i k v
def Frame.sibling : Frame → Tree
  | .L _ _ _ _ r => r
  | .R _ l _ _ _ => l

/-- doInsert: path to the insertion point, `none` if the key exists -/
def descend (k : Nat) : Tree → List Frame → Option (List Frame)
  | nil, p => some p
  | node c l i k' v r, p =>
    if k = k' then none
    else if k < k' then descend k l (.L c i k' v r :: p)
    else descend k r (.R c l i k' v :: p)

/-- Insert fix-up, cases 1–5 of rbtree.go -/
def fixup : Tree → List Frame → Tree
  | n, [] => setColor black n
  | n, [p] => zip n [p]
  | n, p :: g :: rest =>
    if p.color = black then zip n (p :: g :: rest) else
    match p, g with
    | .L _ pi pk pv pr, .L _ gi gk gv u =>
      if u.color = red then
        fixup (node red (node black n pi pk pv pr) gi gk gv (setColor black u)) rest
      else zip (node black n pi pk pv (node red pr gi gk gv u)) rest
    | .R _ pl pi pk pv, .L _ gi gk gv u =>
      if u.color = red then
        fixup (node red (node black pl pi pk pv n) gi gk gv (setColor black u)) rest
      else
        match n with
        | node _ nl ni nk nv nr =>
          zip (node black (node red pl pi pk pv nl) ni nk nv (node red nr gi gk gv u)) rest
        | nil => zip n (p :: g :: rest)
    | .R _ pl pi pk pv, .R _ u gi gk gv =>
      if u.color = red then
        fixup (node red (setColor black u) gi gk gv (node black pl pi pk pv n)) rest
      else zip (node black (node red u gi gk gv pl) pi pk pv n) rest
    | .L _ pi pk pv pr, .R _ u gi gk gv =>
      if u.color = red then
        fixup (node red (setColor black u) gi gk gv (node black n pi pk pv pr)) rest
      else
        match n with
        | node _ nl ni nk nv nr =>
          zip (node black (node red u gi gk gv nl) ni nk nv (node red nr pi pk pv pr)) rest
        | nil => zip n (p :: g :: rest)
termination_by _ p => p.length

def insert (t : Tree) (id k v : Nat) : Tree × Bool :=
  match descend k t [] with
  | none => (t, false)
  | some p => (fixup (node red nil id k v nil) p, true)

/-- locate the node with key `k`: its pieces and the path to it -/
def locate (k : Nat) : Tree → List Frame → Option (Color × Tree × Nat × Nat × Nat × Tree × List Frame)
  | nil, _ => none
  | node c l i k' v r, p =>
    if k = k' then some (c, l, i, k', v, r, p)
    else if k < k' then locate k l (.L c i k' v r :: p)
    else locate k r (.R c l i k' v :: p)

/-- the maximum node of a non-empty tree: (colour, left child, id, key, val) and the frames below the start -/
def maxPath : Tree → List Frame → Option (Color × Tree × Nat × Nat × Nat × List Frame)
  | nil, _ => none
  | node c l i k v nil, p => some (c, l, i, k, v, p)
  | node c l i k v r, p => maxPath r (.R c l i k v :: p)

/-- case 5, doubly-black node on the left: inner (left) red nephew → rotate right at the sibling -/
def case5L (s : Tree) : Tree :=
  if s.color = black ∧ s.left.color = red ∧ s.right.color = black then
    match s with
    | node _ (node _ a ni nk nv b) si sk sv sr => node black a ni nk nv (node red b si sk sv sr)
    | _ => s
  else s

def case5R (s : Tree) : Tree :=
  if s.color = black ∧ s.right.color = red ∧ s.left.color = black then
    match s with
    | node _ sl si sk sv (node _ a ni nk nv b) => node black (node red sl si sk sv a) ni nk nv b
    | _ => s
  else s

/-- case 6: rotate at the parent towards the doubly-black side -/
def case6L (pc : Color) (f : Tree) (pi pk pv : Nat) (s : Tree) : Tree :=
  match s with
  | node _ sl si sk sv sr => node pc (node black f pi pk pv sl) si sk sv (setColor black sr)
  | nil => node black f pi pk pv nil

def case6R (pc : Color) (f : Tree) (pi pk pv : Nat) (s : Tree) : Tree :=
  match s with
  | node _ sl si sk sv sr => node pc (setColor black sl) si sk sv (node black sr pi pk pv f)
  | nil => node black nil pi pk pv f

/-- the terminal cases 4, 5, 6 of the delete fix-up (no recursion) -/
def delFixEnd (f : Tree) (pf : Frame) (rest : List Frame) : Tree :=
  match pf with
  | .L pc pi pk pv s =>
    if pc = red ∧ s.color = black ∧ s.left.color = black ∧ s.right.color = black then
      zip (node black f pi pk pv (setColor red s)) rest            -- case 4
    else zip (case6L pc f pi pk pv (case5L s)) rest                -- case 5 then 6
  | .R pc s pi pk pv =>
    if pc = red ∧ s.color = black ∧ s.left.color = black ∧ s.right.color = black then
      zip (node black (setColor red s) pi pk pv f) rest
    else zip (case6R pc f pi pk pv (case5R s)) rest

/-- deleteCase1 … deleteCase6; `f` is the subtree at the position of the doubly-black node -/
def delFix : Tree → List Frame → Tree
  | f, [] => f                                             -- case 1: reached the root
  | f, pf :: rest =>
    match pf with
    | .L pc pi pk pv s =>
      match s with
      | node red sl si sk sv sr =>
        -- case 2: red sibling: recolour, rotate left at the parent; the parent is now red, so the
        -- "push up" case 3 cannot apply and one of the terminal cases finishes
        delFixEnd f (.L red pi pk pv sl) (.L black si sk sv sr :: rest)
      | _ =>
        if pc = black ∧ s.left.color = black ∧ s.right.color = black then
          delFix (node black f pi pk pv (setColor red s)) rest   -- case 3
        else delFixEnd f pf rest
    | .R pc s pi pk pv =>
      match s with
      | node red sl si sk sv sr =>
        delFixEnd f (.R red sr pi pk pv) (.R black sl si sk sv :: rest)
      | _ =>
        if pc = black ∧ s.left.color = black ∧ s.right.color = black then
          delFix (node black (setColor red s) pi pk pv f) rest
        else delFixEnd f pf rest

/-- replaceNode(n, child) after the optional fix-up, and the root blackening -/
def finishDel (color : Color) (child : Tree) (path : List Frame) : Tree :=
  match path with
  | [] => setColor black child
  | _ :: _ => if color = black then delFix child path else zip child path

/-- `child := n.right; if child == 0 { child = n.left }` -/
def pickChild (l r : Tree) : Tree :=
  match r with
  | nil => l
  | node .. => r

/-- doDelete at a located node -/
def deleteAt (c : Color) (l : Tree) (id key val : Nat) (r : Tree) (p : List Frame) : Tree × Nat :=
  match l, r with
  | node lc ll li lk lv lr, node rc rl ri rk rv rr =>
    match maxPath (node lc ll li lk lv lr) [] with
    | some (pc, pl, pid, pk, pv, below) =>
      -- the predecessor takes n's place (keeping its own index and item, with n's colour);
      -- n moves to the predecessor's place and is removed there
      (finishDel pc pl (below ++ (.L c pid pk pv (node rc rl ri rk rv rr) :: p)), id)
    | none => (zip (node c l id key val r) p, id)
  | _, _ => (finishDel c (pickChild l r) p, id)

def delete (t : Tree) (k : Nat) : Tree × Option Nat :=
  match locate k t [] with
  | none => (t, none)
  | some (c, l, i, _, v, r, p) =>
    let (t', freed) := deleteAt c l i k v r p
    (t', some freed)

/-- preorder dump: id:key:val:colour with () for nil -/
def Tree.dump : Tree → String
  | nil => "."
  | node c l i k v r =>
    s!"({i} {k} {v} {if c = black then "B" else "R"} {l.dump} {r.dump})"

/-- preorder dump with the parent index of every node (0 for the root), as `render` of DESIGN.md: the functional tree
    determines the parent links, the real tree stores them -/
def Tree.dumpP (parent : Nat) : Tree → String
  | nil => "."
  | node c l i k v r =>
    s!"({i}^{parent} {k} {v} {if c = black then "B" else "R"} {l.dumpP i} {r.dumpP i})"

def Tree.minId : Tree → Nat
  | nil => 0
  | node _ nil i .. => i
  | node _ l .. => l.minId
def Tree.maxId : Tree → Nat
  | nil => 0
  | node _ _ i _ _ nil => i
  | node _ _ _ _ _ r => r.maxId
def Tree.size : Tree → Nat
  | nil => 0
  | node _ l _ _ _ r => l.size + 1 + r.size

end RbM
