import Rb.RootDel
namespace RbM
open Tree Color

/-- keys strictly increasing -/
abbrev SortedKV (l : List (Nat × Nat × Nat)) : Prop := l.Pairwise (fun a b => a.2.1 < b.2.1)

/-- `descend` only extends the path: plugging `nil` at the end gives back the tree -/
theorem descend_zip (k : Nat) (t : Tree) (q p : List Frame) (hd : descend k t q = some p) :
    zip nil p = zip t q := by
  induction t generalizing q with
  | nil => simp [descend] at hd; subst hd; rfl
  | node c l i k' v r ihl ihr =>
    unfold descend at hd
    split at hd
    · cases hd
    · split at hd
      · rw [ihl _ hd]; rfl
      · rw [ihr _ hd]; rfl

/-- bounds along the search path in a tree whose in-order list is sorted -/
theorem descend_bounds (k : Nat) (t : Tree) (q p : List Frame) (hd : descend k t q = some p)
    (hs : SortedKV (ctxL q ++ t.toList ++ ctxR q))
    (hL : ∀ a ∈ ctxL q, a.2.1 < k) (hR : ∀ b ∈ ctxR q, k < b.2.1) :
    (∀ a ∈ ctxL p, a.2.1 < k) ∧ (∀ b ∈ ctxR p, k < b.2.1) := by
  induction t generalizing q with
  | nil => simp [descend] at hd; subst hd; exact ⟨hL, hR⟩
  | node c l i k' v r ihl ihr =>
    unfold descend at hd
    split at hd
    · cases hd
    · rename_i hne
      -- keys of l < k' < keys of r (from sortedness)
      have hsub : SortedKV (l.toList ++ (i, k', v) :: r.toList) := by
        have := (List.pairwise_append.mp hs).1
        exact (List.pairwise_append.mp this).2.1
      have hr_gt : ∀ b ∈ r.toList, k' < b.2.1 := by
        have := (List.pairwise_append.mp hsub).2.1
        exact (List.pairwise_cons.mp this).1
      have hl_lt : ∀ a ∈ l.toList, a.2.1 < k' := by
        intro a ha
        exact (List.pairwise_append.mp hsub).2.2 a ha (i, k', v) (by simp)
      split at hd
      · rename_i hlt
        refine ihl (.L c i k' v r :: q) hd ?_ (by simpa [ctxL] using hL) ?_
        · simpa [ctxL, ctxR, Tree.toList, List.append_assoc] using hs
        · intro b hb
          simp only [ctxR, List.cons_append, List.mem_cons, List.mem_append] at hb
          rcases hb with rfl | hb | hb
          · exact hlt
          · have := hr_gt b hb; omega
          · exact hR b hb
      · rename_i hnlt
        have hgt : k' < k := by omega
        refine ihr (.R c l i k' v :: q) hd ?_ ?_ (by simpa [ctxR] using hR)
        · simpa [ctxL, ctxR, Tree.toList, List.append_assoc] using hs
        · intro a ha
          simp only [ctxL, List.mem_append, List.mem_singleton] at ha
          rcases ha with (ha | ha) | rfl
          · exact hL a ha
          · have := hl_lt a ha; omega
          · exact hgt

/-- **C05-T1**: insertion acts on the in-order list as insertion into the sorted association list -/
theorem insert_toList (t : Tree) (id k v : Nat) (hs : SortedKV t.toList) :
    (descend k t [] = none ∧ (insert t id k v) = (t, false)) ∨
    (∃ A B, t.toList = A ++ B ∧ (insert t id k v).1.toList = A ++ (id, k, v) :: B ∧ (insert t id k v).2 = true ∧
      (∀ a ∈ A, a.2.1 < k) ∧ (∀ b ∈ B, k < b.2.1)) := by
  unfold insert
  cases hd : descend k t [] with
  | none => left; exact ⟨rfl, rfl⟩
  | some p =>
    right
    have hz := descend_zip k t [] p hd
    have hb := descend_bounds k t [] p hd (by simpa [ctxL, ctxR] using hs) (by simp [ctxL]) (by simp [ctxR])
    refine ⟨ctxL p, ctxR p, ?_, ?_, rfl, hb.1, hb.2⟩
    · have := congrArg Tree.toList hz
      rw [zip_toList, zip_toList] at this
      simpa [ctxL, ctxR, Tree.toList] using this.symm
    · simp only
      rw [fixup_toList]
      simp [Tree.toList]

theorem ctxL_append (xs ys : List Frame) : ctxL (xs ++ ys) = ctxL ys ++ ctxL xs := by
  induction xs with
  | nil => simp [ctxL]
  | cons f fs ih => cases f <;> simp [ctxL, ih, List.append_assoc]

theorem ctxR_append (xs ys : List Frame) : ctxR (xs ++ ys) = ctxR xs ++ ctxR ys := by
  induction xs with
  | nil => simp [ctxR]
  | cons f fs ih => cases f <;> simp [ctxR, ih, List.append_assoc]

theorem locate_zip (k : Nat) (t : Tree) (q : List Frame) (c : Color) (l : Tree) (i k' v : Nat) (r : Tree)
    (p : List Frame) (hd : locate k t q = some (c, l, i, k', v, r, p)) :
    k' = k ∧ zip (node c l i k v r) p = zip t q := by
  induction t generalizing q with
  | nil => simp [locate] at hd
  | node c0 l0 i0 k0 v0 r0 ihl ihr =>
    unfold locate at hd
    split at hd
    · rename_i he
      simp at hd
      obtain ⟨rfl, rfl, rfl, rfl, rfl, rfl, rfl⟩ := hd
      exact ⟨he.symm, by rw [he]⟩
    · split at hd
      · obtain ⟨a, b⟩ := ihl _ hd; exact ⟨a, by rw [b]; rfl⟩
      · obtain ⟨a, b⟩ := ihr _ hd; exact ⟨a, by rw [b]; rfl⟩

/-- the search fails only when the key is not in the (sorted) tree -/
theorem locate_none (k : Nat) (t : Tree) (q : List Frame) (hd : locate k t q = none)
    (hs : SortedKV t.toList) : ∀ i v, (i, k, v) ∉ t.toList := by
  induction t generalizing q with
  | nil => intro i v; simp [Tree.toList]
  | node c l i0 k' v' r ihl ihr =>
    unfold locate at hd
    split at hd
    · cases hd
    · rename_i hne
      have hsl : SortedKV l.toList := (List.pairwise_append.mp hs).1
      have hsr : SortedKV r.toList := (List.pairwise_cons.mp (List.pairwise_append.mp hs).2.1).2
      have hr_gt : ∀ b ∈ r.toList, k' < b.2.1 := (List.pairwise_cons.mp (List.pairwise_append.mp hs).2.1).1
      have hl_lt : ∀ a ∈ l.toList, a.2.1 < k' := fun a ha =>
        (List.pairwise_append.mp hs).2.2 a ha (i0, k', v') (by simp)
      intro i v hv
      simp only [Tree.toList, List.mem_append, List.mem_cons] at hv
      split at hd
      · rename_i hlt
        rcases hv with hv | hv | hv
        · exact ihl _ hd hsl i v hv
        · simp at hv; omega
        · have := hr_gt _ hv; simp at this; omega
      · rename_i hnlt
        rcases hv with hv | hv | hv
        · have := hl_lt _ hv; simp at this; omega
        · simp at hv; omega
        · exact ihr _ hd hsr i v hv

/-- what `maxPath` finds: the last element of the in-order list, reached through right-child frames only -/
theorem maxPath_toList (t : Tree) (q : List Frame) (pc : Color) (pl : Tree) (pid pk pv : Nat) (p : List Frame)
    (hd : maxPath t q = some (pc, pl, pid, pk, pv, p)) :
    ctxL p ++ pl.toList ++ [(pid, pk, pv)] = ctxL q ++ t.toList ∧ ctxR p = ctxR q := by
  induction t generalizing q with
  | nil => simp [maxPath] at hd
  | node c0 l0 i0 k0 v0 r0 ihl ihr =>
    cases r0 with
    | nil =>
      simp [maxPath] at hd
      obtain ⟨rfl, rfl, rfl, rfl, rfl, rfl⟩ := hd
      simp [Tree.toList]
    | node rc rl ri rk rv rr =>
      simp only [maxPath] at hd
      obtain ⟨a, b⟩ := ihr _ hd
      refine ⟨?_, by simpa [ctxR] using b⟩
      rw [a]
      simp [ctxL, Tree.toList, List.append_assoc]

theorem maxPath_ne_none (c : Color) (l : Tree) (i k v : Nat) (r : Tree) (q : List Frame) :
    maxPath (node c l i k v r) q ≠ none := by
  induction r generalizing c l i k v q with
  | nil => simp [maxPath]
  | node c2 l2 i2 k2 v2 r2 _ ih2 => simp only [maxPath]; exact ih2 _ _ _ _ _ _

theorem finishDel_toList (color : Color) (child : Tree) (path : List Frame) :
    (finishDel color child path).toList = ctxL path ++ child.toList ++ ctxR path := by
  cases path with
  | nil => simp [finishDel, ctxL, ctxR]
  | cons f fs =>
    simp only [finishDel]
    split
    · exact delFix_toList _ _
    · exact zip_toList _ _

theorem deleteAt_toList (c : Color) (l : Tree) (i k v : Nat) (r : Tree) (p : List Frame) :
    (deleteAt c l i k v r p).1.toList = ctxL p ++ l.toList ++ r.toList ++ ctxR p := by
  cases l with
  | nil =>
    have e : deleteAt c nil i k v r p = (finishDel c r p, i) := by
      cases r <;> simp [deleteAt, pickChild]
    rw [e]; simp [finishDel_toList, Tree.toList]
  | node lc ll li lk lv lr =>
    cases r with
    | nil =>
      have e : deleteAt c (node lc ll li lk lv lr) i k v nil p = (finishDel c (node lc ll li lk lv lr) p, i) := by
        simp [deleteAt, pickChild]
      rw [e]; simp [finishDel_toList, Tree.toList]
    | node rc rl ri rk rv rr =>
      simp only [deleteAt]
      cases hmp : maxPath (node lc ll li lk lv lr) [] with
      | none =>
        exact absurd hmp (maxPath_ne_none _ _ _ _ _ _ _)
      | some x =>
        obtain ⟨pc, pl, pid, pk, pv, below⟩ := x
        simp only
        obtain ⟨a, b⟩ := maxPath_toList _ _ pc pl pid pk pv below hmp
        rw [finishDel_toList, ctxL_append, ctxR_append, b]
        simp only [ctxL, ctxR, List.nil_append, List.append_assoc] at a ⊢
        rw [← a]
        simp [List.append_assoc]

theorem deleteAt_snd (c : Color) (l : Tree) (i k v : Nat) (r : Tree) (p : List Frame) :
    (deleteAt c l i k v r p).2 = i := by
  unfold deleteAt
  split
  · split <;> rfl
  · rfl

/-- **C05-T2**: deletion acts on the in-order list as removal of the key -/
theorem delete_toList (t : Tree) (k : Nat) (hs : SortedKV t.toList) :
    ((delete t k) = (t, none) ∧ ∀ i v, (i, k, v) ∉ t.toList) ∨
    (∃ A B i v, t.toList = A ++ (i, k, v) :: B ∧ (delete t k).1.toList = A ++ B ∧ (delete t k).2 = some i) := by
  unfold delete
  cases hd : locate k t [] with
  | none => left; exact ⟨rfl, locate_none k t [] hd hs⟩
  | some x =>
    obtain ⟨c, l, i, k', v, r, p⟩ := x
    right
    obtain ⟨hk, hz⟩ := locate_zip k t [] c l i k' v r p hd
    refine ⟨ctxL p ++ l.toList, r.toList ++ ctxR p, i, v, ?_, ?_, by simp [deleteAt_snd]⟩
    · have := congrArg Tree.toList hz
      rw [zip_toList, zip_toList] at this
      simpa [ctxL, ctxR, Tree.toList, List.append_assoc] using this.symm
    · simp only
      rw [deleteAt_toList]
      simp [List.append_assoc]

end RbM
