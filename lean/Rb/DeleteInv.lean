import Rb.DelBal
namespace RbM
open Tree Color

theorem bal_zero_black {t : Tree} (h : Bal t 0) (hc : t.color = black) : t = nil := by
  cases h with
  | nil => rfl
  | red _ _ _ _ => simp [Tree.color] at hc

theorem setBlack_bal_any {t : Tree} {n : Nat} (h : Bal t n) : ∃ m, Bal (setColor black t) m := by
  cases h with
  | nil => exact ⟨0, Bal.nil⟩
  | red hl hr _ _ => exact ⟨_, Bal.black hl hr⟩
  | black hl hr => exact ⟨_, Bal.black hl hr⟩

/-- the path found by `locate` is a valid context for the located node -/
theorem locate_ctx (k : Nat) (t : Tree) (q : List Frame) (h : Nat) (ht : Bal t h) (hq : CtxOK q h)
    (hc : okTop q t) (c : Color) (l : Tree) (i k' v : Nat) (r : Tree) (p : List Frame)
    (hd : locate k t q = some (c, l, i, k', v, r, p)) :
    ∃ hn, Bal (node c l i k' v r) hn ∧ CtxOK p hn ∧ okTop p (node c l i k' v r) := by
  induction t generalizing q h with
  | nil => simp [locate] at hd
  | node c0 l0 i0 k0 v0 r0 ihl ihr =>
    unfold locate at hd
    split at hd
    · simp at hd
      obtain ⟨rfl, rfl, rfl, rfl, rfl, rfl, rfl⟩ := hd
      exact ⟨h, ht, hq, hc⟩
    · cases ht with
      | red hl hr hcl hcr =>
        cases q with
        | nil => simp [okTop, Tree.color] at hc
        | cons f fs =>
          have hfb : f.color = black := by
            simp only [okTop, Tree.color] at hc
            cases hf : f.color with
            | red => exact absurd (hc hf) (by simp)
            | black => rfl
          split at hd
          · exact ihl (.L red i0 k0 v0 r0 :: f :: fs) h hl ⟨hr, fun _ => ⟨hcr, hfb⟩, by simpa using hq⟩
              (by intro _; exact hcl) hd
          · exact ihr (.R red l0 i0 k0 v0 :: f :: fs) h hr ⟨hl, fun _ => ⟨hcl, hfb⟩, by simpa using hq⟩
              (by intro _; exact hcr) hd
      | black hl hr =>
        rename_i n
        split at hd
        · exact ihl (.L black i0 k0 v0 r0 :: q) n hl ⟨hr, by simp, by simpa using hq⟩
            (by intro hf; simp [Frame.color] at hf) hd
        · exact ihr (.R black l0 i0 k0 v0 :: q) n hr ⟨hl, by simp, by simpa using hq⟩
            (by intro hf; simp [Frame.color] at hf) hd

/-- the path to the maximum of a subtree, started from a valid context -/
theorem maxPath_ctx (t : Tree) (q : List Frame) (h : Nat) (ht : Bal t h) (hq : CtxOK q h)
    (hc : okTop q t) (pc : Color) (pl : Tree) (pid pk pv : Nat) (p : List Frame)
    (hd : maxPath t q = some (pc, pl, pid, pk, pv, p)) :
    ∃ hn, Bal (node pc pl pid pk pv nil) hn ∧ CtxOK p hn ∧ okTop p (node pc pl pid pk pv nil) := by
  induction t generalizing q h with
  | nil => simp [maxPath] at hd
  | node c0 l0 i0 k0 v0 r0 ihl ihr =>
    cases r0 with
    | nil =>
      simp [maxPath] at hd
      obtain ⟨rfl, rfl, rfl, rfl, rfl, rfl⟩ := hd
      exact ⟨h, ht, hq, hc⟩
    | node rc rl ri rk rv rr =>
      simp only [maxPath] at hd
      cases ht with
      | red hl hr hcl hcr =>
        cases q with
        | nil => simp [okTop, Tree.color] at hc
        | cons f fs =>
          have hfb : f.color = black := by
            simp only [okTop, Tree.color] at hc
            cases hf : f.color with
            | red => exact absurd (hc hf) (by simp)
            | black => rfl
          exact ihr (.R red l0 i0 k0 v0 :: f :: fs) h hr ⟨hl, fun _ => ⟨hcl, hfb⟩, by simpa using hq⟩
            (by intro _; exact hcr) hd
      | black hl hr =>
        rename_i n
        exact ihr (.R black l0 i0 k0 v0 :: q) n hr ⟨hl, by simp, by simpa using hq⟩
          (by intro hf; simp [Frame.color] at hf) hd

/-- `maxPath` only prepends frames to the starting path -/
theorem maxPath_append (t : Tree) (q : List Frame) :
    maxPath t q = (maxPath t []).map fun (pc, pl, pid, pk, pv, below) => (pc, pl, pid, pk, pv, below ++ q) := by
  induction t generalizing q with
  | nil => simp [maxPath]
  | node c0 l0 i0 k0 v0 r0 ihl ihr =>
    cases r0 with
    | nil => simp [maxPath]
    | node rc rl ri rk rv rr =>
      simp only [maxPath]
      rw [ihr (.R c0 l0 i0 k0 v0 :: q), ihr [.R c0 l0 i0 k0 v0]]
      cases maxPath (node rc rl ri rk rv rr) [] with
      | none => rfl
      | some x => obtain ⟨a, b, c, d, e, f⟩ := x; simp


/-- the last step of a deletion: `child` replaces a node of colour `color` that had at most that one child -/
theorem finishDel_bal (color : Color) (child : Tree) (path : List Frame) (h : Nat)
    (hb : Bal (node color child 0 0 0 nil) h ∨ Bal (node color nil 0 0 0 child) h)
    (hctx : CtxOK path h) : ∃ m, Bal (finishDel color child path) m := by
  have hchild : (color = black → h = 1 ∧ Bal child 0) ∧ (color = red → h = 0 ∧ child = nil) := by
    constructor
    · intro hc; subst hc
      rcases hb with hb | hb
      · obtain ⟨m, e, b1, b2⟩ := bal_black_inv hb; cases b2; exact ⟨e, b1⟩
      · obtain ⟨m, e, b1, b2⟩ := bal_black_inv hb; cases b1; exact ⟨e, b2⟩
    · intro hc; subst hc
      rcases hb with hb | hb
      · obtain ⟨b1, b2, c1, _⟩ := bal_red_inv hb; cases b2; exact ⟨rfl, bal_zero_black b1 c1⟩
      · obtain ⟨b1, b2, _, c2⟩ := bal_red_inv hb; cases b1; exact ⟨rfl, bal_zero_black b2 c2⟩
  cases path with
  | nil =>
    simp only [finishDel]
    cases color with
    | black => exact setBlack_bal_any (hchild.1 rfl).2
    | red => rw [(hchild.2 rfl).2]; exact ⟨0, Bal.nil⟩
  | cons f fs =>
    simp only [finishDel]
    cases color with
    | black =>
      obtain ⟨e, bc⟩ := hchild.1 rfl
      subst e
      simpa using delFix_bal child (f :: fs) 0 bc hctx
    | red =>
      obtain ⟨e, cn⟩ := hchild.2 rfl
      subst e; subst cn
      simp only [reduceCtorEq, ↓reduceIte]
      exact zip_bal nil (f :: fs) 0 Bal.nil hctx (fun _ _ _ _ => rfl)

theorem bal_relabel {c : Color} {l r : Tree} {i k v i' k' v' : Nat} {n : Nat}
    (h : Bal (node c l i k v r) n) : Bal (node c l i' k' v' r) n := by
  cases h with
  | red a b c1 c2 => exact Bal.red a b c1 c2
  | black a b => exact Bal.black a b

/-- removing a located node keeps the tree balanced -/
theorem deleteAt_bal (c : Color) (l : Tree) (i k v : Nat) (r : Tree) (p : List Frame) (hn : Nat)
    (hnode : Bal (node c l i k v r) hn) (hp : CtxOK p hn) (htop : okTop p (node c l i k v r)) :
    ∃ m, Bal (deleteAt c l i k v r p).1 m := by
  cases l with
  | nil =>
    have e : deleteAt c nil i k v r p = (finishDel c r p, i) := by
      cases r <;> simp [deleteAt, pickChild]
    rw [e]
    exact finishDel_bal c r p hn (Or.inr (bal_relabel hnode)) hp
  | node lc ll li lk lv lr =>
    cases r with
    | nil =>
      have e : deleteAt c (node lc ll li lk lv lr) i k v nil p = (finishDel c (node lc ll li lk lv lr) p, i) := by
        simp [deleteAt, pickChild]
      rw [e]
      exact finishDel_bal c _ p hn (Or.inl (bal_relabel hnode)) hp
    | node rc rl ri rk rv rr =>
      simp only [deleteAt]
      -- two children: the predecessor takes n's place
      cases hmp : maxPath (node lc ll li lk lv lr) [] with
      | none =>
        simp only
        exact zip_bal _ p hn hnode hp (by
          intro f fs e hf
          subst e
          exact htop hf)
      | some x =>
        obtain ⟨pc, pl, pid, pk, pv, below⟩ := x
        simp only
        -- the context below n's (relabelled) position
        have hl : ∃ hl, Bal (node lc ll li lk lv lr) hl ∧
            CtxOK (.L c pid pk pv (node rc rl ri rk rv rr) :: p) hl ∧
            okTop (.L c pid pk pv (node rc rl ri rk rv rr) :: p) (node lc ll li lk lv lr) := by
          cases hnode with
          | red a b c1 c2 =>
            refine ⟨hn, a, ?_, fun _ => c1⟩
            refine ctxOK_cons_L b (fun _ => ⟨c2, ?_⟩) (by simpa using hp)
            cases p with
            | nil => simp [okTop, Tree.color] at htop
            | cons f fs =>
              simp only [topBlack]
              simp only [okTop, Tree.color] at htop
              cases hf : f.color with
              | red => exact absurd (htop hf) (by simp)
              | black => rfl
          | black a b =>
            rename_i n
            exact ⟨n, a, ctxOK_cons_L b (by simp) (by simpa using hp), by intro hf; simp [Frame.color] at hf⟩
        obtain ⟨hl', bl, cl, tl⟩ := hl
        have hmp' := maxPath_append (node lc ll li lk lv lr) (.L c pid pk pv (node rc rl ri rk rv rr) :: p)
        rw [hmp] at hmp'
        simp only [Option.map_some] at hmp'
        obtain ⟨hpn, bpn, cpn, tpn⟩ := maxPath_ctx _ _ hl' bl cl tl pc pl pid pk pv _ hmp'
        exact finishDel_bal pc pl _ hpn (Or.inl (bal_relabel bpn)) cpn

/-- **C05-T4 (delete half)**: deleting a key from a balanced tree with a black root gives a balanced tree -/
theorem delete_bal (t : Tree) (n k : Nat) (ht : Bal t n) (hroot : t.color = black) :
    ∃ m, Bal (delete t k).1 m := by
  unfold delete
  split
  · exact ⟨n, ht⟩
  · rename_i c l i k' v r p hd
    obtain ⟨hn, b, cx, tp⟩ := locate_ctx k t [] n ht trivial hroot c l i k' v r p hd
    simp only
    exact deleteAt_bal c l i k v r p hn (by
      cases b with
      | red a b' c1 c2 => exact Bal.red a b' c1 c2
      | black a b' => exact Bal.black a b') cx (by
        cases p with
        | nil => simpa [okTop, Tree.color] using tp
        | cons f fs => simpa [okTop, Tree.color] using tp)

end RbM
