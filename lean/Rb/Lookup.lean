import Rb.Map
/-! Lookups of the red-black tree (FindGE, FindLE, Get, Next, Prev) on the functional tree, and their
    meaning on the in-order list. -/
namespace RbM
open Tree Color

abbrev Ent := Nat × Nat × Nat      -- node index, key, value

/-- smallest entry with key ≥ k -/
def findGE : Tree → Nat → Option Ent
  | nil, _ => none
  | node _ l i key v r, k =>
    if k = key then some (i, key, v)
    else if k < key then (match findGE l k with | some x => some x | none => some (i, key, v))
    else findGE r k

/-- largest entry with key ≤ k -/
def findLE : Tree → Nat → Option Ent
  | nil, _ => none
  | node _ l i key v r, k =>
    if k = key then some (i, key, v)
    else if k < key then findLE l k
    else (match findLE r k with | some x => some x | none => some (i, key, v))

def get (t : Tree) (k : Nat) : Option Nat :=
  match findGE t k with | some (_, key, v) => if key = k then some v else none | none => none

/-- entry after / before the entry with key k (iterator Next / Prev on an existing key) -/
def next (t : Tree) (k : Nat) : Option Ent := findGE t (k + 1)
def prev (t : Tree) (k : Nat) : Option Ent := if k = 0 then none else findLE t (k - 1)

theorem sorted_split {l r : List Ent} {e : Ent} (h : SortedKV (l ++ e :: r)) :
    SortedKV l ∧ SortedKV r ∧ (∀ x ∈ l, x.2.1 < e.2.1) ∧ (∀ y ∈ r, e.2.1 < y.2.1) := by
  have h1 := List.pairwise_append.1 h
  have h2 := List.pairwise_cons.1 h1.2.1
  exact ⟨h1.1, h2.2, fun x hx => h1.2.2 x hx e (by simp), h2.1⟩

theorem find_none_of_all_lt (l : List Ent) (k : Nat) (h : ∀ x ∈ l, x.2.1 < k) :
    l.find? (fun e => decide (k ≤ e.2.1)) = none := by
  rw [List.find?_eq_none]
  intro x hx
  have := h x hx
  simp; omega

/-- **C05 lookups**: `findGE` returns the first entry of the in-order list whose key is ≥ k -/
theorem findGE_spec (t : Tree) (k : Nat) (hs : SortedKV t.toList) :
    findGE t k = t.toList.find? (fun e => decide (k ≤ e.2.1)) := by
  induction t with
  | nil => rfl
  | node c l i key v r ihl ihr =>
    simp only [Tree.toList] at hs ⊢
    obtain ⟨sl, sr, hl, hr⟩ := sorted_split hs
    simp only at hl hr
    rw [List.find?_append]
    unfold findGE
    by_cases h1 : k = key
    · subst h1
      rw [find_none_of_all_lt l.toList k hl]
      simp
    · by_cases h2 : k < key
      · simp only [h1, if_false, h2, if_true]
        rw [ihl sl]
        cases hf : l.toList.find? (fun e => decide (k ≤ e.2.1)) with
        | some x => simp
        | none =>
          have : k ≤ key := by omega
          simp [this]
      · simp only [h1, if_false, h2]
        have h3 : key < k := by omega
        rw [find_none_of_all_lt l.toList k (fun x hx => Nat.lt_trans (hl x hx) h3)]
        have : ¬ k ≤ key := by omega
        simp [this, ihr sr]

theorem findLast_none_of_all_gt (l : List Ent) (k : Nat) (h : ∀ x ∈ l, k < x.2.1) :
    l.reverse.find? (fun e => decide (e.2.1 ≤ k)) = none := by
  rw [List.find?_eq_none]
  intro x hx
  have := h x (List.mem_reverse.1 hx)
  simp; omega

/-- `findLE` returns the last entry of the in-order list whose key is ≤ k -/
theorem findLE_spec (t : Tree) (k : Nat) (hs : SortedKV t.toList) :
    findLE t k = t.toList.reverse.find? (fun e => decide (e.2.1 ≤ k)) := by
  induction t with
  | nil => rfl
  | node c l i key v r ihl ihr =>
    simp only [Tree.toList] at hs ⊢
    obtain ⟨sl, sr, hl, hr⟩ := sorted_split hs
    simp only at hl hr
    simp only [List.reverse_append, List.reverse_cons, List.append_assoc, List.singleton_append]
    rw [List.find?_append]
    unfold findLE
    by_cases h1 : k = key
    · subst h1
      rw [findLast_none_of_all_gt r.toList k hr]
      simp
    · by_cases h2 : k < key
      · simp only [h1, if_false, h2, if_true]
        rw [findLast_none_of_all_gt r.toList k (fun y hy => Nat.lt_trans h2 (hr y hy))]
        have : ¬ key ≤ k := by omega
        simp [this, ihl sl]
      · simp only [h1, if_false, h2]
        rw [ihr sr]
        cases hf : r.toList.reverse.find? (fun e => decide (e.2.1 ≤ k)) with
        | some x => simp
        | none =>
          have : key ≤ k := by omega
          simp [this]

end RbM
