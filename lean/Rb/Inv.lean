import Rb.Map
namespace RbM
open Tree Color

theorem sorted_insert_mid {A B : List (Nat × Nat × Nat)} {x : Nat × Nat × Nat}
    (hs : SortedKV (A ++ B)) (hA : ∀ a ∈ A, a.2.1 < x.2.1) (hB : ∀ b ∈ B, x.2.1 < b.2.1) :
    SortedKV (A ++ x :: B) := by
  obtain ⟨sa, sb, sab⟩ := List.pairwise_append.mp hs
  refine List.pairwise_append.mpr ⟨sa, List.pairwise_cons.mpr ⟨hB, sb⟩, ?_⟩
  intro a ha b hb
  rcases List.mem_cons.mp hb with rfl | hb
  · exact hA a ha
  · exact sab a ha b hb

theorem sorted_remove_mid {A B : List (Nat × Nat × Nat)} {x : Nat × Nat × Nat}
    (hs : SortedKV (A ++ x :: B)) : SortedKV (A ++ B) := by
  obtain ⟨sa, sb, sab⟩ := List.pairwise_append.mp hs
  refine List.pairwise_append.mpr ⟨sa, (List.pairwise_cons.mp sb).2, ?_⟩
  intro a ha b hb
  exact sab a ha b (List.mem_cons_of_mem _ hb)

/-- the full red-black invariant: shape + search-tree order -/
def RBInv (t : Tree) : Prop := RBShape t ∧ SortedKV t.toList

theorem insert_inv (t : Tree) (id k v : Nat) (h : RBInv t) : RBInv (insert t id k v).1 := by
  refine ⟨insert_shape t id k v h.1, ?_⟩
  rcases insert_toList t id k v h.2 with ⟨_, e⟩ | ⟨A, B, e1, e2, _, hA, hB⟩
  · rw [e]; exact h.2
  · rw [e2]; exact sorted_insert_mid (e1 ▸ h.2) hA hB

theorem delete_inv (t : Tree) (k : Nat) (h : RBInv t) : RBInv (delete t k).1 := by
  refine ⟨delete_shape t k h.1, ?_⟩
  rcases delete_toList t k h.2 with ⟨e, _⟩ | ⟨A, B, i, v, e1, e2, _⟩
  · rw [e]; exact h.2
  · rw [e2]; exact sorted_remove_mid (e1 ▸ h.2)

inductive RbOp
  | ins (id k v : Nat)
  | del (k : Nat)

def applyOp (t : Tree) : RbOp → Tree
  | .ins id k v => (insert t id k v).1
  | .del k => (delete t k).1

/-- **C05 over operation sequences**: every tree reachable from the empty tree by insertions and
    deletions is a balanced search tree with a black root. -/
theorem reachable_inv (ops : List RbOp) : RBInv (ops.foldl applyOp nil) := by
  have h0 : RBInv nil := ⟨⟨⟨0, Bal.nil⟩, rfl⟩, by simp [Tree.toList]⟩
  suffices ∀ t, RBInv t → RBInv (ops.foldl applyOp t) from this nil h0
  induction ops with
  | nil => intro t h; exact h
  | cons op ops ih =>
    intro t h
    simp only [List.foldl_cons]
    apply ih
    cases op with
    | ins id k v => exact insert_inv t id k v h
    | del k => exact delete_inv t k h

/-- non-vacuity: a concrete 3-node tree satisfies the invariant -/
example : RBInv (node black (node red nil 1 5 50 nil) 2 7 70 (node red nil 3 9 90 nil)) := by
  refine ⟨⟨⟨1, Bal.black (Bal.red Bal.nil Bal.nil rfl rfl) (Bal.red Bal.nil Bal.nil rfl rfl)⟩, rfl⟩, ?_⟩
  simp [Tree.toList]

end RbM
