import Rb.Lookup
/-! C05: minimum, maximum, size, membership and in-order iteration of the tree model against the sorted list
    (`toList` = in-order list of (node index, key, value)). -/
namespace RbM
open Tree

/-- `Len()` -/
theorem size_spec (t : Tree) : t.size = t.toList.length := by
  induction t with
  | nil => rfl
  | node c l i k v r ihl ihr => simp [Tree.size, Tree.toList, ihl, ihr]; omega

/-- `Min()`: the node of the first in-order entry (0 = the empty tree's limit iterator) -/
theorem minId_spec (t : Tree) : t.minId = (t.toList.head?.map (·.1)).getD 0 := by
  induction t with
  | nil => rfl
  | node c l i k v r ihl _ =>
    cases l with
    | nil => simp [Tree.minId, Tree.toList]
    | node c' l' i' k' v' r' =>
      simp only [Tree.minId]
      rw [ihl]
      simp only [Tree.toList]
      cases h : (l'.toList ++ (i', k', v') :: r'.toList) with
      | nil => simp at h
      | cons x xs => simp [h]

/-- `Max()`: the node of the last in-order entry -/
theorem maxId_spec (t : Tree) : t.maxId = (t.toList.getLast?.map (·.1)).getD 0 := by
  induction t with
  | nil => rfl
  | node c l i k v r _ ihr =>
    cases r with
    | nil => simp [Tree.maxId, Tree.toList]
    | node c' l' i' k' v' r' =>
      simp only [Tree.maxId]
      rw [ihr]
      simp only [Tree.toList]
      have : (l.toList ++ (i, k, v) :: (l'.toList ++ (i', k', v') :: r'.toList)).getLast? =
          (l'.toList ++ (i', k', v') :: r'.toList).getLast? := by
        rw [List.getLast?_append, List.getLast?_cons]
        cases h : (l'.toList ++ (i', k', v') :: r'.toList).getLast? with
        | none => simp at h
        | some x => simp
      rw [this]

/-- `Get`: the value stored under `k`, if any -/
theorem get_spec (t : Tree) (k : Nat) (hs : SortedKV t.toList) :
    get t k = (t.toList.find? (fun e => decide (e.2.1 = k))).map (·.2.2) := by
  unfold get
  rw [findGE_spec t k hs]
  -- the first entry with key ≥ k has key k iff k is present (keys strictly increasing)
  generalize t.toList = l at hs
  induction l with
  | nil => rfl
  | cons e l ih =>
    have hs' : SortedKV l := by
      unfold SortedKV at hs ⊢
      exact (List.pairwise_cons.1 hs).2
    have hlt : ∀ x ∈ l, e.2.1 < x.2.1 := by
      unfold SortedKV at hs
      exact (List.pairwise_cons.1 hs).1
    simp only [List.find?_cons]
    by_cases h1 : k ≤ e.2.1
    · by_cases h2 : e.2.1 = k
      · simp [h1, h2]
      · -- k < key of e: k is absent from the whole list
        have hnone : l.find? (fun e => decide (e.2.1 = k)) = none := by
          rw [List.find?_eq_none]
          intro x hx; have := hlt x hx; simp; omega
        simp [h1, h2, hnone]
    · have h2 : ¬ e.2.1 = k := by omega
      simp only [h1, decide_false, h2]
      exact ih hs'

/-- in-order iteration: from the entry at position `i`, `Next` is the entry at position `i+1` (none at the end) -/
theorem next_spec (t : Tree) (hs : SortedKV t.toList) (i : Nat) (e : Ent) (he : t.toList[i]? = some e) :
    next t e.2.1 = t.toList[i + 1]? := by
  unfold next
  rw [findGE_spec t _ hs]
  generalize t.toList = l at hs he
  induction l generalizing i with
  | nil => simp at he
  | cons x l ih =>
    have hs' : SortedKV l := by unfold SortedKV at hs ⊢; exact (List.pairwise_cons.1 hs).2
    have hlt : ∀ y ∈ l, x.2.1 < y.2.1 := by unfold SortedKV at hs; exact (List.pairwise_cons.1 hs).1
    cases i with
    | zero =>
      simp only [List.getElem?_cons_zero, Option.some.injEq] at he
      subst he
      have h0 : ¬ (x.2.1 + 1 ≤ x.2.1) := by omega
      simp only [List.find?_cons, h0, decide_false, List.getElem?_cons_succ]
      cases l with
      | nil => rfl
      | cons y l' =>
        have := hlt y (by simp)
        have : x.2.1 + 1 ≤ y.2.1 := by omega
        simp [List.find?_cons, this]
    | succ j =>
      simp only [List.getElem?_cons_succ] at he
      have hmem : e ∈ l := List.mem_of_getElem? he
      have := hlt e hmem
      have h0 : ¬ (e.2.1 + 1 ≤ x.2.1) := by omega
      simp only [List.find?_cons, h0, decide_false, List.getElem?_cons_succ]
      exact ih j hs' he

/-- reverse iteration: from the entry at position `i+1`, `Prev` is the entry at position `i`; none from position 0 -/
theorem prev_spec (t : Tree) (hs : SortedKV t.toList) (i : Nat) (e : Ent) (he : t.toList[i]? = some e) :
    prev t e.2.1 = if i = 0 then none else t.toList[i - 1]? := by
  unfold prev
  by_cases hk : e.2.1 = 0
  · -- key 0 can only be the first entry
    simp only [hk, if_true]
    generalize t.toList = l at hs he
    cases i with
    | zero => rfl
    | succ j =>
      exfalso
      cases l with
      | nil => simp at he
      | cons x l =>
        simp only [List.getElem?_cons_succ] at he
        have hlt : ∀ y ∈ l, x.2.1 < y.2.1 := by unfold SortedKV at hs; exact (List.pairwise_cons.1 hs).1
        have := hlt e (List.mem_of_getElem? he)
        omega
  · simp only [hk, if_false]
    rw [findLE_spec t _ hs]
    generalize t.toList = l at hs he
    -- the last entry with key ≤ k-1 is the one just before e
    induction l generalizing i with
    | nil => simp at he
    | cons x l ih =>
      have hs' : SortedKV l := by unfold SortedKV at hs ⊢; exact (List.pairwise_cons.1 hs).2
      have hlt : ∀ y ∈ l, x.2.1 < y.2.1 := by unfold SortedKV at hs; exact (List.pairwise_cons.1 hs).1
      cases i with
      | zero =>
        simp only [List.getElem?_cons_zero, Option.some.injEq] at he
        subst he
        simp only [if_true]
        rw [List.find?_eq_none]
        intro y hy
        have hy' := List.mem_reverse.1 hy
        rcases List.mem_cons.1 hy' with rfl | hy'
        · simp; omega
        · have := hlt y hy'; simp; omega
      | succ j =>
        simp only [List.getElem?_cons_succ] at he
        have hx := hlt e (List.mem_of_getElem? he)
        simp only [List.reverse_cons, List.find?_append, Nat.add_sub_cancel, Nat.succ_ne_zero, if_false]
        have := ih j hs' he
        cases j with
        | zero =>
          simp only [if_true] at this
          rw [this]
          have : x.2.1 ≤ e.2.1 - 1 := by omega
          simp [this]
        | succ j' =>
          simp only [Nat.succ_ne_zero, if_false, Nat.add_sub_cancel] at this
          rw [this]
          have hj : j' < l.length := by
            have := List.getElem?_eq_some_iff.1 he
            obtain ⟨h, _⟩ := this
            omega
          simp [List.getElem?_eq_getElem hj]

end RbM
