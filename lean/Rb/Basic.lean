namespace Rb

inductive Color | red | black deriving DecidableEq, Repr

inductive Tree where
  | nil : Tree
  | node (c : Color) (l : Tree) (id key val : Nat) (r : Tree) : Tree
  deriving Repr

open Tree Color

def Tree.toList : Tree → List (Nat × Nat)
  | nil => []
  | node _ l _ k v r => l.toList ++ (k, v) :: r.toList

def Tree.color : Tree → Color
  | nil => black
  | node c .. => c

/-- A frame of the path from a subtree up to the root: we came from the left or right child. -/
inductive Frame where
  | L (c : Color) (id key val : Nat) (r : Tree)   -- hole is the left child; r is right sibling
  | R (c : Color) (l : Tree) (id key val : Nat)   -- hole is the right child
  deriving Repr

def Frame.color : Frame → Color
  | .L c .. => c
  | .R c .. => c

def plug (t : Tree) : Frame → Tree
  | .L c i k v r => node c t i k v r
  | .R c l i k v => node c l i k v t

def zip (t : Tree) : List Frame → Tree
  | [] => t
  | f :: fs => zip (plug t f) fs

def setBlack : Tree → Tree
  | node _ l i k v r => node black l i k v r
  | nil => nil

/-- descend to the insertion point -/
def descend (k : Nat) : Tree → List Frame → Option (List Frame)
  | nil, p => some p
  | node c l i k' v r, p =>
    if k = k' then none
    else if k < k' then descend k l (.L c i k' v r :: p)
    else descend k r (.R c l i k' v :: p)

/-- Insert fix-up, mirroring cases 1-5 of rbtree.go Insert.  `n` is the (red) subtree at the focus. -/
def fixup : Tree → List Frame → Tree
  | n, [] => setBlack n                                  -- case 1
  | n, [p] => zip n [p]                                  -- case 2 (parent is the black root)
  | n, p :: g :: rest =>
    if p.color = black then zip n (p :: g :: rest) else  -- case 2
    match p, g with
    | .L _ pi pk pv pr, .L _ gi gk gv u =>
      if u.color = red then                              -- case 3
        fixup (node red (node black n pi pk pv pr) gi gk gv (setBlack u)) rest
      else                                               -- case 5
        zip (node black n pi pk pv (node red pr gi gk gv u)) rest
    | .R _ pl pi pk pv, .L _ gi gk gv u =>
      if u.color = red then
        fixup (node red (node black pl pi pk pv n) gi gk gv (setBlack u)) rest
      else                                               -- case 4 then 5
        match n with
        | node _ nl ni nk nv nr =>
          zip (node black (node red pl pi pk pv nl) ni nk nv (node red nr gi gk gv u)) rest
        | nil => zip n (p :: g :: rest)
    | .R _ pl pi pk pv, .R _ u gi gk gv =>
      if u.color = red then
        fixup (node red (setBlack u) gi gk gv (node black pl pi pk pv n)) rest
      else
        zip (node black (node red u gi gk gv pl) pi pk pv n) rest
    | .L _ pi pk pv pr, .R _ u gi gk gv =>
      if u.color = red then
        fixup (node red (setBlack u) gi gk gv (node black n pi pk pv pr)) rest
      else
        match n with
        | node _ nl ni nk nv nr =>
          zip (node black (node red u gi gk gv nl) ni nk nv (node red nr pi pk pv pr)) rest
        | nil => zip n (p :: g :: rest)
termination_by _ p => p.length

def insert (t : Tree) (id k v : Nat) : Tree :=
  match descend k t [] with
  | none => t
  | some p => fixup (node red nil id k v nil) p

def ctxL : List Frame → List (Nat × Nat)
  | [] => []
  | .L .. :: fs => ctxL fs
  | .R _ l _ k v :: fs => ctxL fs ++ l.toList ++ [(k, v)]

def ctxR : List Frame → List (Nat × Nat)
  | [] => []
  | .L _ _ k v r :: fs => (k, v) :: r.toList ++ ctxR fs
  | .R .. :: fs => ctxR fs

theorem zip_toList (t : Tree) (p : List Frame) :
    (zip t p).toList = ctxL p ++ t.toList ++ ctxR p := by
  induction p generalizing t with
  | nil => simp [zip, ctxL, ctxR]
  | cons f fs ih =>
    cases f <;> simp [zip, plug, ih, ctxL, ctxR, Tree.toList]

@[simp] theorem setBlack_toList (t : Tree) : (setBlack t).toList = t.toList := by
  cases t <;> simp [setBlack, Tree.toList]

theorem fixup_toList (n : Tree) (p : List Frame) :
    (fixup n p).toList = ctxL p ++ n.toList ++ ctxR p := by
  fun_induction fixup n p <;>
    first
    | (exact zip_toList _ _)
    | (simp_all [zip_toList, ctxL, ctxR, Tree.toList, zip]; done)
    | (simp_all [zip_toList, ctxL, ctxR, Tree.toList, zip, plug]; done)

inductive Bal : Tree → Nat → Prop
  | nil : Bal nil 0
  | red {l r i k v n} : Bal l n → Bal r n → l.color = black → r.color = black → Bal (node red l i k v r) n
  | black {l r i k v n} : Bal l n → Bal r n → Bal (node black l i k v r) (n+1)

/-- context invariant: the hole expects black height `h` -/
def CtxOK : List Frame → Nat → Prop
  | [], _ => True
  | .L c _ _ _ r :: fs, h =>
      Bal r h ∧ (c = red → r.color = black ∧ (match fs with | [] => False | f :: _ => f.color = black)) ∧
      CtxOK fs (if c = black then h + 1 else h)
  | .R c l _ _ _ :: fs, h =>
      Bal l h ∧ (c = red → l.color = black ∧ (match fs with | [] => False | f :: _ => f.color = black)) ∧
      CtxOK fs (if c = black then h + 1 else h)

theorem zip_bal (t : Tree) (p : List Frame) (h : Nat) (ht : Bal t h) (hp : CtxOK p h)
    (hc : ∀ f fs, p = f :: fs → f.color = red → t.color = black) :
    ∃ m, Bal (zip t p) m := by
  induction p generalizing t h with
  | nil => exact ⟨h, ht⟩
  | cons f fs ih =>
    cases f with
    | L c i k v r =>
      obtain ⟨hr, hred, hfs⟩ := hp
      cases c with
      | red =>
        have := hred rfl
        have tb := hc _ _ rfl rfl
        simp at hfs
        refine ih (node red t i k v r) h (Bal.red ht hr tb this.1) hfs ?_
        intro f' fs' e hf'
        subst e; simp at this; simp [Frame.color] at *; grind
      | black =>
        simp at hfs
        refine ih (node black t i k v r) (h+1) (Bal.black ht hr) hfs ?_
        intro f' fs' e hf'; rfl
    | R c l i k v =>
      obtain ⟨hl, hred, hfs⟩ := hp
      cases c with
      | red =>
        have := hred rfl
        have tb := hc _ _ rfl rfl
        simp at hfs
        refine ih (node red l i k v t) h (Bal.red hl ht this.1 tb) hfs ?_
        intro f' fs' e hf'
        subst e; simp at this; simp [Frame.color] at *; grind
      | black =>
        simp at hfs
        refine ih (node black l i k v t) (h+1) (Bal.black hl ht) hfs ?_
        intro f' fs' e hf'; rfl

end Rb
