import Rb.Alloc
#print axioms RbM.reachable_inv
#print axioms RbM.insertW_noAlias
#print axioms RbM.deleteW_noAlias
#print axioms RbM.malloc_fresh
