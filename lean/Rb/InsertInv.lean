import Rb.Bal
namespace RbM
open Tree Color

def okTop (q : List Frame) (t : Tree) : Prop :=
  match q with
  | [] => t.color = black
  | f :: _ => f.color = red → t.color = black

theorem descend_ctx (k : Nat) (t : Tree) (q : List Frame) (h : Nat) (ht : Bal t h) (hq : CtxOK q h)
    (hc : okTop q t) (p : List Frame) (hd : descend k t q = some p) : CtxOK p 0 := by
  induction t generalizing q h with
  | nil =>
    cases ht
    simp [descend] at hd; subst hd; exact hq
  | node c l i k' v r ihl ihr =>
    unfold descend at hd
    split at hd
    · cases hd
    · cases ht with
      | red hl hr hcl hcr =>
        -- a red node cannot sit under a red frame nor at the root
        cases q with
        | nil => simp [okTop, Tree.color] at hc
        | cons f fs =>
          have hfb : f.color = black := by
            simp only [okTop, Tree.color] at hc
            cases hf : f.color with
            | red => exact absurd (hc hf) (by simp)
            | black => rfl
          split at hd
          · exact ihl (.L red i k' v r :: f :: fs) h hl ⟨hr, fun _ => ⟨hcr, hfb⟩, by simpa using hq⟩
              (by intro _; exact hcl) hd
          · exact ihr (.R red l i k' v :: f :: fs) h hr ⟨hl, fun _ => ⟨hcl, hfb⟩, by simpa using hq⟩
              (by intro _; exact hcr) hd
      | black hl hr =>
        rename_i n
        split at hd
        · exact ihl (.L black i k' v r :: q) n hl ⟨hr, by simp, by simpa using hq⟩
            (by intro hf; simp [Frame.color] at hf) hd
        · exact ihr (.R black l i k' v :: q) n hr ⟨hl, by simp, by simpa using hq⟩
            (by intro hf; simp [Frame.color] at hf) hd

/-- **C05-T4 (insert half)**: inserting into a balanced tree with a black root gives a balanced tree -/
theorem insert_bal (t : Tree) (n id k v : Nat) (ht : Bal t n) (hroot : t.color = black) :
    ∃ m, Bal (insert t id k v).1 m := by
  unfold insert
  split
  · exact ⟨n, ht⟩
  · rename_i p hd
    have hp := descend_ctx k t [] n ht trivial hroot p hd
    exact fixup_bal _ p 0 ⟨nil, id, k, v, nil, rfl, Bal.nil, Bal.nil, rfl, rfl⟩ hp

end RbM
