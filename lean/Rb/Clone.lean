import Rb.Lookup
/-! CloneDeep = relabelling of the nodes, in in-order, with the indices the target allocator hands out. -/
namespace RbM
open Tree Color

/-- relabel the nodes in in-order with the given indices; returns the unused indices -/
def relabel : Tree → List Nat → Tree × List Nat
  | nil, ids => (nil, ids)
  | node c l _ k v r, ids =>
    let l' := relabel l ids
    let r' := relabel r l'.2.tail
    (node c l'.1 (l'.2.headD 0) k v r'.1, r'.2)

def cloneDeep (t : Tree) (ids : List Nat) : Tree := (relabel t ids).1

theorem relabel_color (t : Tree) (ids : List Nat) : (relabel t ids).1.color = t.color := by
  cases t <;> rfl

theorem relabel_bal : ∀ (t : Tree) (ids : List Nat) (n : Nat), Bal t n → Bal (relabel t ids).1 n := by
  intro t
  induction t with
  | nil => intro ids n h; exact h
  | node c l i k v r ihl ihr =>
    intro ids n h
    simp only [relabel]
    cases h with
    | red hl hr cl cr =>
      exact Bal.red (ihl _ _ hl) (ihr _ _ hr) (by rw [relabel_color]; exact cl) (by rw [relabel_color]; exact cr)
    | black hl hr => exact Bal.black (ihl _ _ hl) (ihr _ _ hr)

theorem toList_length (t : Tree) : t.toList.length = t.size := by
  induction t with
  | nil => rfl
  | node _ l _ _ _ r ihl ihr => simp [Tree.toList, Tree.size, ihl, ihr]; omega

/-- the clone has the same keys and values in the same order, carried by exactly the new indices -/
theorem relabel_toList : ∀ (t : Tree) (xs rest : List Nat), xs.length = t.size →
    (relabel t (xs ++ rest)).2 = rest ∧
    (relabel t (xs ++ rest)).1.toList = xs.zip (t.toList.map (·.2)) := by
  intro t
  induction t with
  | nil =>
    intro xs rest h
    have : xs = [] := by cases xs <;> simp_all [Tree.size]
    subst this; simp [relabel, Tree.toList]
  | node c l i k v r ihl ihr =>
    intro xs rest h
    simp only [Tree.size] at h
    -- split the indices: left subtree, this node, right subtree
    obtain ⟨xl, x, xr, rfl, hxl, hxr⟩ : ∃ xl x xr, xs = xl ++ x :: xr ∧ xl.length = l.size ∧ xr.length = r.size := by
      refine ⟨xs.take l.size, xs[l.size]'(by omega), xs.drop (l.size + 1), ?_, by simp; omega, by simp; omega⟩
      rw [← List.drop_eq_getElem_cons (by omega), List.take_append_drop]
    have e1 : (xl ++ x :: xr) ++ rest = xl ++ (x :: (xr ++ rest)) := by simp
    obtain ⟨l1, l2⟩ := ihl xl (x :: (xr ++ rest)) hxl
    obtain ⟨r1, r2⟩ := ihr xr rest hxr
    simp only [relabel, e1, l1, List.headD_cons, List.tail_cons, r1, Tree.toList, l2, r2, true_and]
    have hlt : (l.toList.map (·.2)).length = xl.length := by
      rw [hxl, List.length_map, toList_length]
    rw [List.map_append, List.map_cons, List.zip_append hlt.symm]
    rfl

/-- **C06/C08 (deep clone)**: cloning keeps the red-black shape and the ordered content -/
theorem cloneDeep_spec (t : Tree) (ids : List Nat) (h : ids.length = t.size) (hs : RBShape t) :
    RBShape (cloneDeep t ids) ∧ (cloneDeep t ids).toList = ids.zip (t.toList.map (·.2)) := by
  obtain ⟨⟨n, hb⟩, hc⟩ := hs
  have := relabel_toList t ids [] h
  simp only [List.append_nil] at this
  exact ⟨⟨⟨n, relabel_bal t ids n hb⟩, by unfold cloneDeep; rw [relabel_color]; exact hc⟩, this.2⟩

end RbM
