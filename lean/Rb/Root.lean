import Rb.DeleteInv
namespace RbM
open Tree Color

theorem zip_color (t : Tree) (p : List Frame) (hne : p ≠ []) :
    (zip t p).color = (p.getLast hne).color := by
  induction p generalizing t with
  | nil => exact absurd rfl hne
  | cons f fs ih =>
    cases fs with
    | nil => cases f <;> simp [zip, plug, Tree.color, Frame.color]
    | cons g gs =>
      have := ih (plug t f) (by simp)
      simpa [zip] using this

theorem ctx_last_black (p : List Frame) (h : Nat) (hp : CtxOK p h) (hne : p ≠ []) :
    (p.getLast hne).color = black := by
  induction p generalizing h with
  | nil => exact absurd rfl hne
  | cons f fs ih =>
    cases fs with
    | nil =>
      cases f with
      | L c i k v r =>
        cases c with
        | black => rfl
        | red => have := (hp.2.1 rfl).2; simp at this
      | R c l i k v =>
        cases c with
        | black => rfl
        | red => have := (hp.2.1 rfl).2; simp at this
    | cons g gs =>
      have : CtxOK (g :: gs) (if f.color = black then h + 1 else h) := by
        cases f <;> exact hp.2.2
      simpa using ih _ this (by simp)

theorem zip_root_black (t : Tree) (p : List Frame) (h : Nat) (hp : CtxOK p h)
    (ht : p = [] → t.color = black) : (zip t p).color = black := by
  by_cases hne : p = []
  · subst hne; simpa [zip] using ht rfl
  · rw [zip_color t p hne]; exact ctx_last_black p h hp hne

theorem setColor_black_root (t : Tree) : (setColor black t).color = black := by
  cases t <;> simp [setColor, Tree.color]

theorem fixup_root_black (n : Tree) (p : List Frame) (h : Nat) (hn : RedFocus n h) (hp : CtxOK p h) :
    (fixup n p).color = black := by
  fun_induction fixup n p generalizing h with
  | case1 n => exact setColor_black_root n
  | case2 n p => exact zip_root_black n [p] h hp (by simp)
  | case3 n p g rest hpb => exact zip_root_black n _ h hp (by simp)
  | case4 n rest pc pi pk pv pr gc gi gk gv u hur hpnb ih =>
    obtain ⟨hprB, hprc, hgb, hg⟩ := ctx_red_L hp (not_black (by simpa [Frame.color] using hpnb))
    obtain ⟨huB, hrest⟩ := ctx_black_L hg hgb
    exact ih (h + 1) ⟨_, _, _, _, _, rfl, Bal.black (redFocus_bal hn).1 hprB, setBlack_bal_red huB hur, rfl,
      setColor_black_color u hur⟩ hrest
  | case5 n rest pc pi pk pv pr gc gi gk gv u hur hpnb =>
    obtain ⟨_, _, hgb, hg⟩ := ctx_red_L hp (not_black (by simpa [Frame.color] using hpnb))
    obtain ⟨_, hrest⟩ := ctx_black_L hg hgb
    exact zip_root_black _ rest (h + 1) hrest (fun _ => rfl)
  | case6 n rest pc pl pi pk pv gc gi gk gv u hur hpnb ih =>
    obtain ⟨hplB, hplc, hgb, hg⟩ := ctx_red_R hp (not_black (by simpa [Frame.color] using hpnb))
    obtain ⟨huB, hrest⟩ := ctx_black_L hg hgb
    exact ih (h + 1) ⟨_, _, _, _, _, rfl, Bal.black hplB (redFocus_bal hn).1, setBlack_bal_red huB hur, rfl,
      setColor_black_color u hur⟩ hrest
  | case7 rest pc pl pi pk pv gc gi gk gv u hur c nl ni nk nv nr hpnb =>
    obtain ⟨_, _, hgb, hg⟩ := ctx_red_R hp (not_black (by simpa [Frame.color] using hpnb))
    obtain ⟨_, hrest⟩ := ctx_black_L hg hgb
    exact zip_root_black _ rest (h + 1) hrest (fun _ => rfl)
  | case8 rest pc pl pi pk pv gc gi gk gv u hur hpnb =>
    obtain ⟨a, i, k, v, b, e, _⟩ := hn
    cases e
  | case9 n rest pc pl pi pk pv gc u gi gk gv hur hpnb ih =>
    obtain ⟨hplB, hplc, hgb, hg⟩ := ctx_red_R hp (not_black (by simpa [Frame.color] using hpnb))
    obtain ⟨huB, hrest⟩ := ctx_black_R hg hgb
    exact ih (h + 1) ⟨_, _, _, _, _, rfl, setBlack_bal_red huB hur, Bal.black hplB (redFocus_bal hn).1,
      setColor_black_color u hur, rfl⟩ hrest
  | case10 n rest pc pl pi pk pv gc u gi gk gv hur hpnb =>
    obtain ⟨_, _, hgb, hg⟩ := ctx_red_R hp (not_black (by simpa [Frame.color] using hpnb))
    obtain ⟨_, hrest⟩ := ctx_black_R hg hgb
    exact zip_root_black _ rest (h + 1) hrest (fun _ => rfl)
  | case11 n rest pc pi pk pv pr gc u gi gk gv hur hpnb ih =>
    obtain ⟨hprB, hprc, hgb, hg⟩ := ctx_red_L hp (not_black (by simpa [Frame.color] using hpnb))
    obtain ⟨huB, hrest⟩ := ctx_black_R hg hgb
    exact ih (h + 1) ⟨_, _, _, _, _, rfl, setBlack_bal_red huB hur, Bal.black (redFocus_bal hn).1 hprB,
      setColor_black_color u hur, rfl⟩ hrest
  | case12 rest pc pi pk pv pr gc u gi gk gv hur c nl ni nk nv nr hpnb =>
    obtain ⟨_, _, hgb, hg⟩ := ctx_red_L hp (not_black (by simpa [Frame.color] using hpnb))
    obtain ⟨_, hrest⟩ := ctx_black_R hg hgb
    exact zip_root_black _ rest (h + 1) hrest (fun _ => rfl)
  | case13 rest pc pi pk pv pr gc u gi gk gv hur hpnb =>
    obtain ⟨a, i, k, v, b, e, _⟩ := hn
    cases e

/-- the red-black invariant on the shape: balanced with a black root -/
def RBShape (t : Tree) : Prop := (∃ n, Bal t n) ∧ t.color = black

theorem insert_shape (t : Tree) (id k v : Nat) (h : RBShape t) : RBShape (insert t id k v).1 := by
  obtain ⟨⟨n, hb⟩, hr⟩ := h
  refine ⟨insert_bal t n id k v hb hr, ?_⟩
  unfold insert
  split
  · exact hr
  · rename_i p hd
    exact fixup_root_black _ p 0 ⟨nil, id, k, v, nil, rfl, Bal.nil, Bal.nil, rfl, rfl⟩
      (descend_ctx k t [] n hb trivial hr p hd)

end RbM
