import Rb.InsertInv
namespace RbM
open Tree Color

theorem bal_black_inv {l r : Tree} {i k v n : Nat} (h : Bal (node black l i k v r) n) :
    ∃ m, n = m + 1 ∧ Bal l m ∧ Bal r m := by
  cases h with
  | black hl hr => exact ⟨_, rfl, hl, hr⟩

theorem bal_red_inv {l r : Tree} {i k v n : Nat} (h : Bal (node red l i k v r) n) :
    Bal l n ∧ Bal r n ∧ l.color = black ∧ r.color = black := by
  cases h with
  | red hl hr cl cr => exact ⟨hl, hr, cl, cr⟩

theorem setRed_bal {s : Tree} {n : Nat} (hs : Bal s (n + 1)) (hc : s.color = black)
    (hl : s.left.color = black) (hr : s.right.color = black) : Bal (setColor red s) n := by
  cases s with
  | nil => cases hs
  | node c l i k v r =>
    simp [Tree.color] at hc; subst hc
    obtain ⟨m, e, bl, br⟩ := bal_black_inv hs
    cases e
    exact Bal.red bl br hl hr

/-- case 5 keeps the sibling balanced and black, and leaves a red outer nephew for case 6 -/
theorem case5L_spec {s : Tree} {n : Nat} (hs : Bal s (n + 1)) (hc : s.color = black)
    (hnot : ¬ (s.left.color = black ∧ s.right.color = black)) :
    ∃ sl si sk sv sr, case5L s = node black sl si sk sv sr ∧ Bal sl n ∧ Bal sr n ∧ sr.color = red := by
  cases s with
  | nil => cases hs
  | node c l i k v r =>
    simp [Tree.color] at hc; subst hc
    obtain ⟨m, e, bl, br⟩ := bal_black_inv hs
    cases e
    unfold case5L
    by_cases hcond : (node black l i k v r).color = black ∧ (node black l i k v r).left.color = red ∧
        (node black l i k v r).right.color = black
    · rw [if_pos hcond]
      obtain ⟨_, hlr, hrb⟩ := hcond
      simp only [Tree.left, Tree.right] at hlr hrb
      cases l with
      | nil => simp [Tree.color] at hlr
      | node lc a ni nk nv b =>
        simp [Tree.color] at hlr; subst hlr
        obtain ⟨ba, bb, ca, cb⟩ := bal_red_inv bl
        exact ⟨a, ni, nk, nv, node red b i k v r, rfl, ba, Bal.red bb br cb hrb, rfl⟩
    · rw [if_neg hcond]
      refine ⟨l, i, k, v, r, rfl, bl, br, ?_⟩
      simp only [Tree.color, Tree.left, Tree.right, true_and] at hcond hnot
      cases hr : r.color with
      | red => rfl
      | black =>
        exfalso
        cases hl : l.color with
        | red => exact hcond ⟨hl, hr⟩
        | black => exact hnot ⟨hl, hr⟩

theorem case5R_spec {s : Tree} {n : Nat} (hs : Bal s (n + 1)) (hc : s.color = black)
    (hnot : ¬ (s.left.color = black ∧ s.right.color = black)) :
    ∃ sl si sk sv sr, case5R s = node black sl si sk sv sr ∧ Bal sl n ∧ Bal sr n ∧ sl.color = red := by
  cases s with
  | nil => cases hs
  | node c l i k v r =>
    simp [Tree.color] at hc; subst hc
    obtain ⟨m, e, bl, br⟩ := bal_black_inv hs
    cases e
    unfold case5R
    by_cases hcond : (node black l i k v r).color = black ∧ (node black l i k v r).right.color = red ∧
        (node black l i k v r).left.color = black
    · rw [if_pos hcond]
      obtain ⟨_, hrr, hlb⟩ := hcond
      simp only [Tree.left, Tree.right] at hrr hlb
      cases r with
      | nil => simp [Tree.color] at hrr
      | node rc a ni nk nv b =>
        simp [Tree.color] at hrr; subst hrr
        obtain ⟨ba, bb, ca, cb⟩ := bal_red_inv br
        exact ⟨node red l i k v a, ni, nk, nv, b, rfl, Bal.red bl ba hlb ca, bb, rfl⟩
    · rw [if_neg hcond]
      refine ⟨l, i, k, v, r, rfl, bl, br, ?_⟩
      simp only [Tree.color, Tree.left, Tree.right, true_and] at hcond hnot
      cases hl : l.color with
      | red => rfl
      | black =>
        exfalso
        cases hr : r.color with
        | red => exact hcond ⟨hr, hl⟩
        | black => exact hnot ⟨hl, hr⟩


def topBlack : List Frame → Prop
  | [] => False
  | f :: _ => f.color = black

/-- frames: what the context says about the sibling and the rest -/
theorem ctx_L {pc : Color} {pi pk pv : Nat} {s : Tree} {rest : List Frame} {h : Nat}
    (hp : CtxOK (.L pc pi pk pv s :: rest) h) :
    Bal s h ∧ (pc = red → s.color = black ∧ topBlack rest) ∧
      CtxOK rest (if pc = black then h + 1 else h) := by
  cases rest <;> exact hp

theorem ctx_R {pc : Color} {pi pk pv : Nat} {s : Tree} {rest : List Frame} {h : Nat}
    (hp : CtxOK (.R pc s pi pk pv :: rest) h) :
    Bal s h ∧ (pc = red → s.color = black ∧ topBlack rest) ∧
      CtxOK rest (if pc = black then h + 1 else h) := by
  cases rest <;> exact hp

/-- the terminal cases restore the balance when the sibling is black and it is not the
    "all black under a black parent" situation -/
theorem delFixEnd_bal (f : Tree) (pf : Frame) (rest : List Frame) (h : Nat) (hf : Bal f h)
    (hp : CtxOK (pf :: rest) (h + 1)) (hsb : pf.sibling.color = black)
    (hnot3 : ¬ (pf.color = black ∧ pf.sibling.left.color = black ∧ pf.sibling.right.color = black)) :
    ∃ m, Bal (delFixEnd f pf rest) m := by
  cases pf with
  | L pc pi pk pv s =>
    obtain ⟨hs, hred, hrest⟩ := ctx_L hp
    simp only [Frame.sibling, Frame.color] at hsb hnot3
    unfold delFixEnd
    simp only
    by_cases h4 : pc = red ∧ s.color = black ∧ s.left.color = black ∧ s.right.color = black
    · rw [if_pos h4]
      obtain ⟨rfl, _, hl, hr⟩ := h4
      simp at hrest
      refine zip_bal _ rest (h + 1) (Bal.black hf (setRed_bal hs hsb hl hr)) hrest ?_
      intro _ _ _ _; rfl
    · rw [if_neg h4]
      have hnb : ¬ (s.left.color = black ∧ s.right.color = black) := by
        intro hb
        cases pc with
        | red => exact h4 ⟨rfl, hsb, hb.1, hb.2⟩
        | black => exact hnot3 ⟨rfl, hb.1, hb.2⟩
      obtain ⟨sl, si, sk, sv, sr, e, bsl, bsr, hsr⟩ := case5L_spec hs hsb hnb
      rw [e]
      simp only [case6L]
      cases pc with
      | black =>
        simp at hrest
        refine zip_bal _ rest (h + 2) (Bal.black (Bal.black hf bsl) (setBlack_bal_red bsr hsr)) hrest ?_
        intro _ _ _ _; rfl
      | red =>
        simp at hrest
        obtain ⟨_, htop⟩ := hred rfl
        refine zip_bal _ rest (h + 1) (Bal.red (Bal.black hf bsl) (setBlack_bal_red bsr hsr) rfl
          (setColor_black_color sr hsr)) hrest ?_
        intro f' fs' e' hf'
        subst e'
        simp only [topBlack] at htop
        rw [htop] at hf'; cases hf'
  | R pc s pi pk pv =>
    obtain ⟨hs, hred, hrest⟩ := ctx_R hp
    simp only [Frame.sibling, Frame.color] at hsb hnot3
    unfold delFixEnd
    simp only
    by_cases h4 : pc = red ∧ s.color = black ∧ s.left.color = black ∧ s.right.color = black
    · rw [if_pos h4]
      obtain ⟨rfl, _, hl, hr⟩ := h4
      simp at hrest
      refine zip_bal _ rest (h + 1) (Bal.black (setRed_bal hs hsb hl hr) hf) hrest ?_
      intro _ _ _ _; rfl
    · rw [if_neg h4]
      have hnb : ¬ (s.left.color = black ∧ s.right.color = black) := by
        intro hb
        cases pc with
        | red => exact h4 ⟨rfl, hsb, hb.1, hb.2⟩
        | black => exact hnot3 ⟨rfl, hb.1, hb.2⟩
      obtain ⟨sl, si, sk, sv, sr, e, bsl, bsr, hsl⟩ := case5R_spec hs hsb hnb
      rw [e]
      simp only [case6R]
      cases pc with
      | black =>
        simp at hrest
        refine zip_bal _ rest (h + 2) (Bal.black (setBlack_bal_red bsl hsl) (Bal.black bsr hf)) hrest ?_
        intro _ _ _ _; rfl
      | red =>
        simp at hrest
        obtain ⟨_, htop⟩ := hred rfl
        refine zip_bal _ rest (h + 1) (Bal.red (setBlack_bal_red bsl hsl) (Bal.black bsr hf)
          (setColor_black_color sl hsl) rfl) hrest ?_
        intro f' fs' e' hf'
        subst e'
        simp only [topBlack] at htop
        rw [htop] at hf'; cases hf'


theorem ctxOK_cons_L {pc : Color} {pi pk pv : Nat} {s : Tree} {rest : List Frame} {h : Nat}
    (hs : Bal s h) (hred : pc = red → s.color = black ∧ topBlack rest)
    (hrest : CtxOK rest (if pc = black then h + 1 else h)) : CtxOK (.L pc pi pk pv s :: rest) h := by
  cases rest <;> exact ⟨hs, hred, hrest⟩

theorem ctxOK_cons_R {pc : Color} {pi pk pv : Nat} {s : Tree} {rest : List Frame} {h : Nat}
    (hs : Bal s h) (hred : pc = red → s.color = black ∧ topBlack rest)
    (hrest : CtxOK rest (if pc = black then h + 1 else h)) : CtxOK (.R pc s pi pk pv :: rest) h := by
  cases rest <;> exact ⟨hs, hred, hrest⟩

/-- **the delete fix-up restores the balance**: `f` is one black level short of what the context expects -/
theorem delFix_bal (f : Tree) (p : List Frame) (h : Nat) (hf : Bal f h) (hp : CtxOK p (h + 1)) :
    ∃ m, Bal (delFix f p) m := by
  induction p generalizing f h with
  | nil => exact ⟨h, by simpa [delFix] using hf⟩
  | cons pf rest ih =>
    cases pf with
    | L pc pi pk pv s =>
      obtain ⟨hs, hred, hrest⟩ := ctx_L hp
      cases s with
      | nil => cases hs
      | node sc sl si sk sv sr =>
        cases sc with
        | red =>
          -- case 2: the parent is black, rotate; then a terminal case applies
          have hpc : pc = black := by
            cases pc with
            | black => rfl
            | red => have := (hred rfl).1; simp [Tree.color] at this
          subst hpc
          simp at hrest
          obtain ⟨bl, br, cl, cr⟩ := bal_red_inv hs
          simp only [delFix]
          refine delFixEnd_bal f _ _ h hf ?_ (by simpa [Frame.sibling] using cl) (by simp [Frame.color])
          refine ctxOK_cons_L bl (fun _ => ⟨cl, by simp [topBlack, Frame.color]⟩) ?_
          simp only [reduceCtorEq, ↓reduceIte]
          exact ctxOK_cons_L br (by simp) (by simpa using hrest)
        | black =>
          simp only [delFix]
          by_cases h3 : pc = black ∧ (node black sl si sk sv sr).left.color = black ∧
              (node black sl si sk sv sr).right.color = black
          · rw [if_pos h3]
            obtain ⟨rfl, hl, hr⟩ := h3
            simp at hrest
            exact ih _ (h + 1) (Bal.black hf (setRed_bal hs rfl hl hr)) hrest
          · rw [if_neg h3]
            exact delFixEnd_bal f _ rest h hf hp rfl (by simpa [Frame.color, Frame.sibling] using h3)
    | R pc s pi pk pv =>
      obtain ⟨hs, hred, hrest⟩ := ctx_R hp
      cases s with
      | nil => cases hs
      | node sc sl si sk sv sr =>
        cases sc with
        | red =>
          have hpc : pc = black := by
            cases pc with
            | black => rfl
            | red => have := (hred rfl).1; simp [Tree.color] at this
          subst hpc
          simp at hrest
          obtain ⟨bl, br, cl, cr⟩ := bal_red_inv hs
          simp only [delFix]
          refine delFixEnd_bal f _ _ h hf ?_ (by simpa [Frame.sibling] using cr) (by simp [Frame.color])
          refine ctxOK_cons_R br (fun _ => ⟨cr, by simp [topBlack, Frame.color]⟩) ?_
          simp only [reduceCtorEq, ↓reduceIte]
          exact ctxOK_cons_R bl (by simp) (by simpa using hrest)
        | black =>
          simp only [delFix]
          by_cases h3 : pc = black ∧ (node black sl si sk sv sr).left.color = black ∧
              (node black sl si sk sv sr).right.color = black
          · rw [if_pos h3]
            obtain ⟨rfl, hl, hr⟩ := h3
            simp at hrest
            exact ih _ (h + 1) (Bal.black (setRed_bal hs rfl hl hr) hf) hrest
          · rw [if_neg h3]
            exact delFixEnd_bal f _ rest h hf hp rfl (by simpa [Frame.color, Frame.sibling] using h3)

end RbM
