import Rb.ToList
namespace RbM
open Tree Color

/-- black-height `n`, no red node with a red child -/
inductive Bal : Tree → Nat → Prop
  | nil : Bal nil 0
  | red {l r i k v n} : Bal l n → Bal r n → l.color = black → r.color = black → Bal (node red l i k v r) n
  | black {l r i k v n} : Bal l n → Bal r n → Bal (node black l i k v r) (n+1)

/-- context invariant: the hole expects a subtree of black height `h` -/
def CtxOK : List Frame → Nat → Prop
  | [], _ => True
  | .L c _ _ _ r :: fs, h =>
      Bal r h ∧ (c = red → r.color = black ∧ (match fs with | [] => False | f :: _ => f.color = black)) ∧
      CtxOK fs (if c = black then h + 1 else h)
  | .R c l _ _ _ :: fs, h =>
      Bal l h ∧ (c = red → l.color = black ∧ (match fs with | [] => False | f :: _ => f.color = black)) ∧
      CtxOK fs (if c = black then h + 1 else h)

theorem zip_bal (t : Tree) (p : List Frame) (h : Nat) (ht : Bal t h) (hp : CtxOK p h)
    (hc : ∀ f fs, p = f :: fs → f.color = red → t.color = black) :
    ∃ m, Bal (zip t p) m := by
  induction p generalizing t h with
  | nil => exact ⟨h, ht⟩
  | cons f fs ih =>
    cases f with
    | L c i k v r =>
      obtain ⟨hr, hred, hfs⟩ := hp
      cases c with
      | red =>
        have := hred rfl
        have tb := hc _ _ rfl rfl
        simp at hfs
        refine ih (node red t i k v r) h (Bal.red ht hr tb this.1) hfs ?_
        intro f' fs' e hf'
        subst e; simp at this; simp [Frame.color] at *; grind
      | black =>
        simp at hfs
        refine ih (node black t i k v r) (h+1) (Bal.black ht hr) hfs ?_
        intro f' fs' e hf'; rfl
    | R c l i k v =>
      obtain ⟨hl, hred, hfs⟩ := hp
      cases c with
      | red =>
        have := hred rfl
        have tb := hc _ _ rfl rfl
        simp at hfs
        refine ih (node red l i k v t) h (Bal.red hl ht this.1 tb) hfs ?_
        intro f' fs' e hf'
        subst e; simp at this; simp [Frame.color] at *; grind
      | black =>
        simp at hfs
        refine ih (node black l i k v t) (h+1) (Bal.black hl ht) hfs ?_
        intro f' fs' e hf'; rfl

theorem setBlack_bal_red {t : Tree} {n : Nat} (h : Bal t n) (hc : t.color = red) : Bal (setColor black t) (n + 1) := by
  cases h with
  | nil => simp [Tree.color] at hc
  | red hl hr _ _ => exact Bal.black hl hr
  | black hl hr => simp [Tree.color] at hc

/-- the focus of the insert fix-up: a red node whose children are balanced and black-rooted -/
def RedFocus (n : Tree) (h : Nat) : Prop :=
  ∃ a i k v b, n = node red a i k v b ∧ Bal a h ∧ Bal b h ∧ a.color = black ∧ b.color = black

theorem redFocus_bal {n : Tree} {h : Nat} (hn : RedFocus n h) : Bal n h ∧ n.color = red := by
  obtain ⟨a, i, k, v, b, rfl, ha, hb, hca, hcb⟩ := hn
  exact ⟨Bal.red ha hb hca hcb, rfl⟩

end RbM

namespace RbM
open Tree Color

theorem color_ne_red {t : Tree} (h : ¬ t.color = red) : t.color = black := by
  cases hc : t.color with
  | red => exact absurd hc h
  | black => rfl

theorem not_black {c : Color} (h : ¬ c = black) : c = red := by cases c <;> simp_all

/-- what a red parent frame tells us -/
theorem ctx_red_L {pc : Color} {pi pk pv : Nat} {pr : Tree} {g : Frame} {rest : List Frame} {h : Nat}
    (hp : CtxOK (.L pc pi pk pv pr :: g :: rest) h) (hpc : pc = red) :
    Bal pr h ∧ pr.color = black ∧ g.color = black ∧ CtxOK (g :: rest) h := by
  subst hpc
  obtain ⟨a, b, c⟩ := hp
  obtain ⟨b1, b2⟩ := b rfl
  simp at c
  exact ⟨a, b1, b2, c⟩

theorem ctx_red_R {pc : Color} {pi pk pv : Nat} {pl : Tree} {g : Frame} {rest : List Frame} {h : Nat}
    (hp : CtxOK (.R pc pl pi pk pv :: g :: rest) h) (hpc : pc = red) :
    Bal pl h ∧ pl.color = black ∧ g.color = black ∧ CtxOK (g :: rest) h := by
  subst hpc
  obtain ⟨a, b, c⟩ := hp
  obtain ⟨b1, b2⟩ := b rfl
  simp at c
  exact ⟨a, b1, b2, c⟩

theorem ctx_black_L {gc : Color} {gi gk gv : Nat} {u : Tree} {rest : List Frame} {h : Nat}
    (hp : CtxOK (.L gc gi gk gv u :: rest) h) (hg : (Frame.L gc gi gk gv u).color = black) :
    Bal u h ∧ CtxOK rest (h + 1) := by
  simp [Frame.color] at hg; subst hg
  obtain ⟨a, _, c⟩ := hp
  simp at c
  exact ⟨a, c⟩

theorem ctx_black_R {gc : Color} {gi gk gv : Nat} {u : Tree} {rest : List Frame} {h : Nat}
    (hp : CtxOK (.R gc u gi gk gv :: rest) h) (hg : (Frame.R gc u gi gk gv).color = black) :
    Bal u h ∧ CtxOK rest (h + 1) := by
  simp [Frame.color] at hg; subst hg
  obtain ⟨a, _, c⟩ := hp
  simp at c
  exact ⟨a, c⟩

theorem setColor_black_color (t : Tree) (h : t.color = red) : (setColor black t).color = black := by
  cases t <;> simp [setColor, Tree.color] at h ⊢

theorem fixup_bal (n : Tree) (p : List Frame) (h : Nat) (hn : RedFocus n h) (hp : CtxOK p h) :
    ∃ m, Bal (fixup n p) m := by
  fun_induction fixup n p generalizing h with
  | case1 n =>
    obtain ⟨a, i, k, v, b, rfl, ha, hb, _, _⟩ := hn
    exact ⟨h + 1, Bal.black ha hb⟩
  | case2 n p =>
    have hb := (redFocus_bal hn).1
    refine zip_bal n [p] h hb hp ?_
    intro f fs e hf
    simp at e; obtain ⟨rfl, rfl⟩ := e
    cases p <;> simp [CtxOK, Frame.color] at hp hf <;> (subst hf; simp at hp)
  | case3 n p g rest hpb =>
    have hb := (redFocus_bal hn).1
    refine zip_bal n (p :: g :: rest) h hb hp ?_
    intro f fs e hf
    simp at e; obtain ⟨rfl, _⟩ := e
    rw [hpb] at hf; cases hf
  | case4 n rest pc pi pk pv pr gc gi gk gv u hur hpnb ih =>
    obtain ⟨hprB, hprc, hgb, hg⟩ := ctx_red_L hp (not_black (by simpa [Frame.color] using hpnb))
    obtain ⟨huB, hrest⟩ := ctx_black_L hg hgb
    exact ih (h + 1) ⟨_, _, _, _, _, rfl, Bal.black (redFocus_bal hn).1 hprB, setBlack_bal_red huB hur, rfl,
      setColor_black_color u hur⟩ hrest
  | case5 n rest pc pi pk pv pr gc gi gk gv u hur hpnb =>
    obtain ⟨hprB, hprc, hgb, hg⟩ := ctx_red_L hp (not_black (by simpa [Frame.color] using hpnb))
    obtain ⟨huB, hrest⟩ := ctx_black_L hg hgb
    refine zip_bal _ rest (h + 1) (Bal.black (redFocus_bal hn).1 (Bal.red hprB huB hprc (color_ne_red hur))) hrest ?_
    intro f fs e hf; rfl
  | case6 n rest pc pl pi pk pv gc gi gk gv u hur hpnb ih =>
    obtain ⟨hplB, hplc, hgb, hg⟩ := ctx_red_R hp (not_black (by simpa [Frame.color] using hpnb))
    obtain ⟨huB, hrest⟩ := ctx_black_L hg hgb
    exact ih (h + 1) ⟨_, _, _, _, _, rfl, Bal.black hplB (redFocus_bal hn).1, setBlack_bal_red huB hur, rfl,
      setColor_black_color u hur⟩ hrest
  | case7 rest pc pl pi pk pv gc gi gk gv u hur c nl ni nk nv nr hpnb =>
    obtain ⟨hplB, hplc, hgb, hg⟩ := ctx_red_R hp (not_black (by simpa [Frame.color] using hpnb))
    obtain ⟨huB, hrest⟩ := ctx_black_L hg hgb
    obtain ⟨a, i, k, v, b, e, ha, hb, hca, hcb⟩ := hn
    cases e
    refine zip_bal _ rest (h + 1) (Bal.black (Bal.red hplB ha hplc hca) (Bal.red hb huB hcb (color_ne_red hur))) hrest ?_
    intro f fs e hf; rfl
  | case8 rest pc pl pi pk pv gc gi gk gv u hur hpnb =>
    obtain ⟨a, i, k, v, b, e, _⟩ := hn
    cases e
  | case9 n rest pc pl pi pk pv gc u gi gk gv hur hpnb ih =>
    obtain ⟨hplB, hplc, hgb, hg⟩ := ctx_red_R hp (not_black (by simpa [Frame.color] using hpnb))
    obtain ⟨huB, hrest⟩ := ctx_black_R hg hgb
    exact ih (h + 1) ⟨_, _, _, _, _, rfl, setBlack_bal_red huB hur, Bal.black hplB (redFocus_bal hn).1,
      setColor_black_color u hur, rfl⟩ hrest
  | case10 n rest pc pl pi pk pv gc u gi gk gv hur hpnb =>
    obtain ⟨hplB, hplc, hgb, hg⟩ := ctx_red_R hp (not_black (by simpa [Frame.color] using hpnb))
    obtain ⟨huB, hrest⟩ := ctx_black_R hg hgb
    refine zip_bal _ rest (h + 1) (Bal.black (Bal.red huB hplB (color_ne_red hur) hplc) (redFocus_bal hn).1) hrest ?_
    intro f fs e hf; rfl
  | case11 n rest pc pi pk pv pr gc u gi gk gv hur hpnb ih =>
    obtain ⟨hprB, hprc, hgb, hg⟩ := ctx_red_L hp (not_black (by simpa [Frame.color] using hpnb))
    obtain ⟨huB, hrest⟩ := ctx_black_R hg hgb
    exact ih (h + 1) ⟨_, _, _, _, _, rfl, setBlack_bal_red huB hur, Bal.black (redFocus_bal hn).1 hprB,
      setColor_black_color u hur, rfl⟩ hrest
  | case12 rest pc pi pk pv pr gc u gi gk gv hur c nl ni nk nv nr hpnb =>
    obtain ⟨hprB, hprc, hgb, hg⟩ := ctx_red_L hp (not_black (by simpa [Frame.color] using hpnb))
    obtain ⟨huB, hrest⟩ := ctx_black_R hg hgb
    obtain ⟨a, i, k, v, b, e, ha, hb, hca, hcb⟩ := hn
    cases e
    refine zip_bal _ rest (h + 1) (Bal.black (Bal.red huB ha (color_ne_red hur) hca) (Bal.red hb hprB hcb hprc)) hrest ?_
    intro f fs e hf; rfl
  | case13 rest pc pi pk pv pr gc u gi gk gv hur hpnb =>
    obtain ⟨a, i, k, v, b, e, _⟩ := hn
    cases e

end RbM
