import Rb.Model
namespace RbM
open Tree Color

/-- in-order list of (node index, key, value) -/
def Tree.toList : Tree → List (Nat × Nat × Nat)
  | nil => []
  | node _ l i k v r => l.toList ++ (i, k, v) :: r.toList

def ctxL : List Frame → List (Nat × Nat × Nat)
  | [] => []
  | .L .. :: fs => ctxL fs
  | .R _ l i k v :: fs => ctxL fs ++ l.toList ++ [(i, k, v)]

def ctxR : List Frame → List (Nat × Nat × Nat)
  | [] => []
  | .L _ i k v r :: fs => (i, k, v) :: r.toList ++ ctxR fs
  | .R .. :: fs => ctxR fs

@[simp] theorem setColor_toList (c : Color) (t : Tree) : (setColor c t).toList = t.toList := by
  cases t <;> simp [setColor, Tree.toList]

theorem zip_toList (t : Tree) (p : List Frame) :
    (zip t p).toList = ctxL p ++ t.toList ++ ctxR p := by
  induction p generalizing t with
  | nil => simp [zip, ctxL, ctxR]
  | cons f fs ih => cases f <;> simp [zip, plug, ih, ctxL, ctxR, Tree.toList]

theorem fixup_toList (n : Tree) (p : List Frame) :
    (fixup n p).toList = ctxL p ++ n.toList ++ ctxR p := by
  fun_induction fixup n p <;>
    first
    | (exact zip_toList _ _)
    | (simp_all [zip_toList, ctxL, ctxR, Tree.toList, zip]; done)
    | (simp_all [zip_toList, ctxL, ctxR, Tree.toList, zip, plug]; done)

@[simp] theorem case5L_toList (s : Tree) : (case5L s).toList = s.toList := by
  unfold case5L; split
  · split <;> simp [Tree.toList]
  · rfl

@[simp] theorem case5R_toList (s : Tree) : (case5R s).toList = s.toList := by
  unfold case5R; split
  · split <;> simp [Tree.toList]
  · rfl

@[simp] theorem case6L_toList (pc : Color) (f : Tree) (pi pk pv : Nat) (s : Tree) :
    (case6L pc f pi pk pv s).toList = f.toList ++ (pi, pk, pv) :: s.toList := by
  unfold case6L; split <;> simp [Tree.toList]

@[simp] theorem case6R_toList (pc : Color) (f : Tree) (pi pk pv : Nat) (s : Tree) :
    (case6R pc f pi pk pv s).toList = s.toList ++ (pi, pk, pv) :: f.toList := by
  unfold case6R; split <;> simp [Tree.toList]

theorem delFixEnd_toList (f : Tree) (pf : Frame) (rest : List Frame) :
    (delFixEnd f pf rest).toList = ctxL (pf :: rest) ++ f.toList ++ ctxR (pf :: rest) := by
  unfold delFixEnd
  cases pf <;> simp only <;> split <;> simp [zip_toList, ctxL, ctxR, Tree.toList]

theorem delFix_toList (f : Tree) (p : List Frame) :
    (delFix f p).toList = ctxL p ++ f.toList ++ ctxR p := by
  fun_induction delFix f p <;>
    first
    | (simp_all [delFixEnd_toList, zip_toList, ctxL, ctxR, Tree.toList]; done)
    | (rename_i h; rw [if_neg h]
       simp [delFixEnd_toList, ctxL, ctxR, Tree.toList])

end RbM
