import Rb.Root
namespace RbM
open Tree Color

theorem delFixEnd_root (f : Tree) (pf : Frame) (rest : List Frame) (h : Nat)
    (hp : CtxOK (pf :: rest) (h + 1)) (hsb : pf.sibling.color = black)
    (hnot3 : ¬ (pf.color = black ∧ pf.sibling.left.color = black ∧ pf.sibling.right.color = black)) :
    (delFixEnd f pf rest).color = black := by
  cases pf with
  | L pc pi pk pv s =>
    obtain ⟨hs, hred, hrest⟩ := ctx_L hp
    simp only [Frame.sibling, Frame.color] at hsb hnot3
    unfold delFixEnd
    simp only
    by_cases h4 : pc = red ∧ s.color = black ∧ s.left.color = black ∧ s.right.color = black
    · rw [if_pos h4]
      exact zip_root_black _ rest _ hrest (fun _ => rfl)
    · rw [if_neg h4]
      have hnb : ¬ (s.left.color = black ∧ s.right.color = black) := by
        intro hb
        cases pc with
        | red => exact h4 ⟨rfl, hsb, hb.1, hb.2⟩
        | black => exact hnot3 ⟨rfl, hb.1, hb.2⟩
      obtain ⟨sl, si, sk, sv, sr, e, _, _, _⟩ := case5L_spec hs hsb hnb
      rw [e]
      simp only [case6L]
      refine zip_root_black _ rest _ hrest ?_
      intro hr; subst hr
      cases pc with
      | black => rfl
      | red => have := (hred rfl).2; simp [topBlack] at this
  | R pc s pi pk pv =>
    obtain ⟨hs, hred, hrest⟩ := ctx_R hp
    simp only [Frame.sibling, Frame.color] at hsb hnot3
    unfold delFixEnd
    simp only
    by_cases h4 : pc = red ∧ s.color = black ∧ s.left.color = black ∧ s.right.color = black
    · rw [if_pos h4]
      exact zip_root_black _ rest _ hrest (fun _ => rfl)
    · rw [if_neg h4]
      have hnb : ¬ (s.left.color = black ∧ s.right.color = black) := by
        intro hb
        cases pc with
        | red => exact h4 ⟨rfl, hsb, hb.1, hb.2⟩
        | black => exact hnot3 ⟨rfl, hb.1, hb.2⟩
      obtain ⟨sl, si, sk, sv, sr, e, _, _, _⟩ := case5R_spec hs hsb hnb
      rw [e]
      simp only [case6R]
      refine zip_root_black _ rest _ hrest ?_
      intro hr; subst hr
      cases pc with
      | black => rfl
      | red => have := (hred rfl).2; simp [topBlack] at this

theorem delFix_root (f : Tree) (p : List Frame) (h : Nat) (hf : Bal f h) (hp : CtxOK p (h + 1))
    (hroot : p = [] → f.color = black) : (delFix f p).color = black := by
  induction p generalizing f h with
  | nil => simpa [delFix] using hroot rfl
  | cons pf rest ih =>
    cases pf with
    | L pc pi pk pv s =>
      obtain ⟨hs, hred, hrest⟩ := ctx_L hp
      cases s with
      | nil => cases hs
      | node sc sl si sk sv sr =>
        cases sc with
        | red =>
          have hpc : pc = black := by
            cases pc with
            | black => rfl
            | red => have := (hred rfl).1; simp [Tree.color] at this
          subst hpc
          simp at hrest
          obtain ⟨bl, br, cl, cr⟩ := bal_red_inv hs
          simp only [delFix]
          refine delFixEnd_root f _ _ h ?_ (by simpa [Frame.sibling] using cl) (by simp [Frame.color])
          refine ctxOK_cons_L bl (fun _ => ⟨cl, by simp [topBlack, Frame.color]⟩) ?_
          simp only [reduceCtorEq, ↓reduceIte]
          exact ctxOK_cons_L br (by simp) (by simpa using hrest)
        | black =>
          simp only [delFix]
          by_cases h3 : pc = black ∧ (node black sl si sk sv sr).left.color = black ∧
              (node black sl si sk sv sr).right.color = black
          · rw [if_pos h3]
            obtain ⟨rfl, hl, hr⟩ := h3
            simp at hrest
            exact ih _ (h + 1) (Bal.black hf (setRed_bal hs rfl hl hr)) hrest (fun _ => rfl)
          · rw [if_neg h3]
            exact delFixEnd_root f _ rest h hp rfl (by simpa [Frame.color, Frame.sibling] using h3)
    | R pc s pi pk pv =>
      obtain ⟨hs, hred, hrest⟩ := ctx_R hp
      cases s with
      | nil => cases hs
      | node sc sl si sk sv sr =>
        cases sc with
        | red =>
          have hpc : pc = black := by
            cases pc with
            | black => rfl
            | red => have := (hred rfl).1; simp [Tree.color] at this
          subst hpc
          simp at hrest
          obtain ⟨bl, br, cl, cr⟩ := bal_red_inv hs
          simp only [delFix]
          refine delFixEnd_root f _ _ h ?_ (by simpa [Frame.sibling] using cr) (by simp [Frame.color])
          refine ctxOK_cons_R br (fun _ => ⟨cr, by simp [topBlack, Frame.color]⟩) ?_
          simp only [reduceCtorEq, ↓reduceIte]
          exact ctxOK_cons_R bl (by simp) (by simpa using hrest)
        | black =>
          simp only [delFix]
          by_cases h3 : pc = black ∧ (node black sl si sk sv sr).left.color = black ∧
              (node black sl si sk sv sr).right.color = black
          · rw [if_pos h3]
            obtain ⟨rfl, hl, hr⟩ := h3
            simp at hrest
            exact ih _ (h + 1) (Bal.black (setRed_bal hs rfl hl hr) hf) hrest (fun _ => rfl)
          · rw [if_neg h3]
            exact delFixEnd_root f _ rest h hp rfl (by simpa [Frame.color, Frame.sibling] using h3)

theorem finishDel_root (color : Color) (child : Tree) (path : List Frame) (h : Nat)
    (hb : Bal (node color child 0 0 0 nil) h ∨ Bal (node color nil 0 0 0 child) h)
    (hctx : CtxOK path h) : (finishDel color child path).color = black := by
  cases path with
  | nil => exact setColor_black_root child
  | cons f fs =>
    simp only [finishDel]
    cases color with
    | black =>
      have hc : h = 1 ∧ Bal child 0 := by
        rcases hb with hb | hb
        · obtain ⟨m, e, b1, b2⟩ := bal_black_inv hb; cases b2; exact ⟨e, b1⟩
        · obtain ⟨m, e, b1, b2⟩ := bal_black_inv hb; cases b1; exact ⟨e, b2⟩
      obtain ⟨e, bc⟩ := hc
      subst e
      simpa using delFix_root child (f :: fs) 0 bc hctx (by simp)
    | red =>
      simp only [reduceCtorEq, ↓reduceIte]
      exact zip_root_black child (f :: fs) h hctx (by simp)

theorem deleteAt_root (c : Color) (l : Tree) (i k v : Nat) (r : Tree) (p : List Frame) (hn : Nat)
    (hnode : Bal (node c l i k v r) hn) (hp : CtxOK p hn) (htop : okTop p (node c l i k v r)) :
    (deleteAt c l i k v r p).1.color = black := by
  cases l with
  | nil =>
    have e : deleteAt c nil i k v r p = (finishDel c r p, i) := by
      cases r <;> simp [deleteAt, pickChild]
    rw [e]
    exact finishDel_root c r p hn (Or.inr (bal_relabel hnode)) hp
  | node lc ll li lk lv lr =>
    cases r with
    | nil =>
      have e : deleteAt c (node lc ll li lk lv lr) i k v nil p = (finishDel c (node lc ll li lk lv lr) p, i) := by
        simp [deleteAt, pickChild]
      rw [e]
      exact finishDel_root c _ p hn (Or.inl (bal_relabel hnode)) hp
    | node rc rl ri rk rv rr =>
      simp only [deleteAt]
      cases hmp : maxPath (node lc ll li lk lv lr) [] with
      | none =>
        simp only
        refine zip_root_black _ p hn hp ?_
        intro e; subst e; simpa [okTop] using htop
      | some x =>
        obtain ⟨pc, pl, pid, pk, pv, below⟩ := x
        simp only
        have hl : ∃ hl, Bal (node lc ll li lk lv lr) hl ∧
            CtxOK (.L c pid pk pv (node rc rl ri rk rv rr) :: p) hl ∧
            okTop (.L c pid pk pv (node rc rl ri rk rv rr) :: p) (node lc ll li lk lv lr) := by
          cases hnode with
          | red a b c1 c2 =>
            refine ⟨hn, a, ?_, fun _ => c1⟩
            refine ctxOK_cons_L b (fun _ => ⟨c2, ?_⟩) (by simpa using hp)
            cases p with
            | nil => simp [okTop, Tree.color] at htop
            | cons f fs =>
              simp only [topBlack]
              simp only [okTop, Tree.color] at htop
              cases hf : f.color with
              | red => exact absurd (htop hf) (by simp)
              | black => rfl
          | black a b =>
            rename_i n
            exact ⟨n, a, ctxOK_cons_L b (by simp) (by simpa using hp), by intro hf; simp [Frame.color] at hf⟩
        obtain ⟨hl', bl, cl, tl⟩ := hl
        have hmp' := maxPath_append (node lc ll li lk lv lr) (.L c pid pk pv (node rc rl ri rk rv rr) :: p)
        rw [hmp] at hmp'
        simp only [Option.map_some] at hmp'
        obtain ⟨hpn, bpn, cpn, tpn⟩ := maxPath_ctx _ _ hl' bl cl tl pc pl pid pk pv _ hmp'
        exact finishDel_root pc pl _ hpn (Or.inl (bal_relabel bpn)) cpn

/-- **C05-T4**: the shape invariant (balanced, black root) is preserved by deletion -/
theorem delete_shape (t : Tree) (k : Nat) (h : RBShape t) : RBShape (delete t k).1 := by
  obtain ⟨⟨n, hb⟩, hr⟩ := h
  refine ⟨delete_bal t n k hb hr, ?_⟩
  unfold delete
  split
  · exact hr
  · rename_i c l i k' v r p hd
    obtain ⟨hn, b, cx, tp⟩ := locate_ctx k t [] n hb trivial hr c l i k' v r p hd
    simp only
    exact deleteAt_root c l i k v r p hn (bal_relabel b) cx (by
      cases p with
      | nil => simpa [okTop, Tree.color] using tp
      | cons f fs => simpa [okTop, Tree.color] using tp)

end RbM
