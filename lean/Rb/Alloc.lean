import Rb.Inv
/-! C06: trees sharing one allocator. An operation acts on one tree (`focus`); the indices held by all
    the other trees are the abstract list `others`. `malloc` takes the index the Go code picked (map
    order) and validates that the choice was legal. -/
namespace RbM
open Tree Color

structure World where
  size : Nat              -- len(storage)
  gaps : List Nat         -- free indices
  others : List Nat       -- indices held by the other trees on this allocator
  focus : Tree

def ids (t : Tree) : List Nat := t.toList.map (·.1)

def allIds (w : World) : List Nat := ids w.focus ++ (w.others ++ w.gaps)

/-- no index is shared between trees or with the free list; all lie in `[1, size)`; `Used()` accounts
    for every live node plus the reserved slot -/
def NoAlias (w : World) : Prop :=
  (allIds w).Nodup ∧ (∀ i ∈ allIds w, 1 ≤ i ∧ i < w.size) ∧
  (w.size = 0 ∨ (allIds w).length + 1 = w.size)

/-- `Allocator.malloc` with the observed choice: (index, new size, new gaps) -/
def malloc (w : World) (choice : Nat) : Option (Nat × Nat × List Nat) :=
  if w.gaps ≠ [] then
    if choice ∈ w.gaps then some (choice, w.size, w.gaps.erase choice) else none
  else if w.size = 0 then
    if choice = 1 then some (1, 2, []) else none
  else
    if choice = w.size then some (choice, w.size + 1, []) else none

/-- an index handed out is new: it is in no tree and no longer free, and the bookkeeping stays exact -/
theorem malloc_fresh (w : World) (choice id sz : Nat) (gs : List Nat) (h : NoAlias w)
    (hm : malloc w choice = some (id, sz, gs)) :
    let rest := ids w.focus ++ (w.others ++ gs)
    id ∉ rest ∧ rest.Nodup ∧ 1 ≤ id ∧ id < sz ∧ (∀ i ∈ rest, 1 ≤ i ∧ i < sz) ∧ rest.length + 2 = sz := by
  obtain ⟨hnd, hrange, hsz⟩ := h
  unfold allIds at hnd hrange hsz
  unfold malloc at hm
  split at hm
  · split at hm
    · rename_i hc
      simp at hm; obtain ⟨rfl, rfl, rfl⟩ := hm
      have h1 := List.nodup_append.mp hnd
      have h2 := List.nodup_append.mp h1.2.1
      have hr := hrange choice (by simp [hc])
      have hlen : (w.gaps.erase choice).length + 1 = w.gaps.length := by
        rw [List.length_erase_of_mem hc]
        have : 0 < w.gaps.length := List.length_pos_of_mem hc
        omega
      refine ⟨?_, ?_, hr.1, hr.2, ?_, ?_⟩
      · intro hin
        rcases List.mem_append.mp hin with hin | hin
        · exact h1.2.2 choice hin choice (by simp [hc]) rfl
        · rcases List.mem_append.mp hin with hin | hin
          · exact h2.2.2 choice hin choice hc rfl
          · exact ((List.Nodup.mem_erase_iff h2.2.1).mp hin).1 rfl
      · refine List.nodup_append.mpr ⟨h1.1, List.nodup_append.mpr ⟨h2.1, h2.2.1.erase _, ?_⟩, ?_⟩
        · intro a ha b hb; exact h2.2.2 a ha b (List.mem_of_mem_erase hb)
        · intro a ha b hb
          refine h1.2.2 a ha b ?_
          rcases List.mem_append.mp hb with hb | hb
          · exact List.mem_append_left _ hb
          · exact List.mem_append_right _ (List.mem_of_mem_erase hb)
      · intro i hi
        apply hrange
        rcases List.mem_append.mp hi with hi | hi
        · exact List.mem_append_left _ hi
        · rcases List.mem_append.mp hi with hi | hi
          · exact List.mem_append_right _ (List.mem_append_left _ hi)
          · exact List.mem_append_right _ (List.mem_append_right _ (List.mem_of_mem_erase hi))
      · rcases hsz with hsz | hsz
        · omega
        · simp only [List.length_append] at hsz ⊢; omega
    · cases hm
  · rename_i hg
    have hge : w.gaps = [] := by simpa using hg
    rw [hge] at hnd hrange hsz
    simp only [List.append_nil] at hnd hrange hsz
    split at hm
    · rename_i h0
      split at hm
      · simp at hm; obtain ⟨rfl, rfl, rfl⟩ := hm
        have hempty : ids w.focus ++ w.others = [] := by
          cases hall : ids w.focus ++ w.others with
          | nil => rfl
          | cons x xs => have := hrange x (by rw [hall]; simp); omega
        simp only [List.append_nil]
        rw [hempty]; simp
      · cases hm
    · rename_i h0
      split at hm
      · rename_i hc
        simp at hm; obtain ⟨rfl, rfl, rfl⟩ := hm
        have hsz' : (ids w.focus ++ w.others).length + 1 = w.size := by
          rcases hsz with h | h
          · exact absurd h h0
          · exact h
        simp only [List.append_nil]
        refine ⟨?_, hnd, by omega, by omega, ?_, by omega⟩
        · intro hin; have := hrange choice hin; omega
        · intro i hi; have := hrange i hi; omega
      · cases hm

/-- insert into the focused tree, allocating only when the key is new -/
def insertW (w : World) (k v choice : Nat) : Option World :=
  match descend k w.focus [] with
  | none => some w
  | some _ =>
    match malloc w choice with
    | none => none
    | some (id, sz, gs) => some { w with size := sz, gaps := gs, focus := (insert w.focus id k v).1 }

/-- delete from the focused tree, freeing the node -/
def deleteW (w : World) (k : Nat) : World :=
  match (delete w.focus k).2 with
  | none => w
  | some id => { w with gaps := id :: w.gaps, focus := (delete w.focus k).1 }

/-- **C06-T1 (insert)**: allocation never aliases -/
theorem insertW_noAlias (w w' : World) (k v choice : Nat) (h : NoAlias w) (hs : SortedKV w.focus.toList)
    (hi : insertW w k v choice = some w') : NoAlias w' := by
  unfold insertW at hi
  cases hd : descend k w.focus [] with
  | none => rw [hd] at hi; simp at hi; subst hi; exact h
  | some p =>
    rw [hd] at hi
    simp only at hi
    cases hm : malloc w choice with
    | none => rw [hm] at hi; cases hi
    | some r =>
      obtain ⟨id, sz, gs⟩ := r
      rw [hm] at hi
      simp at hi; subst hi
      obtain ⟨hfresh, hnd, h1, h2, hr, hlen⟩ := malloc_fresh w choice id sz gs h hm
      rcases insert_toList w.focus id k v hs with ⟨hn, _⟩ | ⟨A, B, e1, e2, _, _, _⟩
      · rw [hd] at hn; cases hn
      · -- the focused tree gained exactly the triple (id, k, v)
        have hids : ids (insert w.focus id k v).1 = A.map (·.1) ++ id :: B.map (·.1) := by
          unfold ids; rw [e2]; simp
        have hold : ids w.focus = A.map (·.1) ++ B.map (·.1) := by
          unfold ids; rw [e1]; simp
        unfold NoAlias allIds
        simp only
        rw [hids]
        rw [hold] at hfresh hnd hr hlen
        have hperm : (A.map (·.1) ++ id :: B.map (·.1) ++ (w.others ++ gs)).Perm
            (id :: (A.map (·.1) ++ B.map (·.1) ++ (w.others ++ gs))) := by
          simp only [List.append_assoc]
          exact List.perm_middle
        refine ⟨hperm.nodup_iff.mpr (List.nodup_cons.mpr ⟨hfresh, hnd⟩), ?_, Or.inr ?_⟩
        · intro i hi
          rcases List.mem_cons.mp (hperm.mem_iff.mp hi) with rfl | hi
          · exact ⟨h1, h2⟩
          · exact hr i hi
        · rw [hperm.length_eq]; simp only [List.length_cons]; omega

/-- **C06-T1 (delete)**: a freed node goes to the free list and nothing else changes hands -/
theorem deleteW_noAlias (w : World) (k : Nat) (h : NoAlias w) (hs : SortedKV w.focus.toList) :
    NoAlias (deleteW w k) := by
  unfold deleteW
  rcases delete_toList w.focus k hs with ⟨e, _⟩ | ⟨A, B, i, v, e1, e2, e3⟩
  · rw [e]; exact h
  · rw [e3]
    simp only
    obtain ⟨hnd, hrange, hsz⟩ := h
    have hold : ids w.focus = A.map (·.1) ++ i :: B.map (·.1) := by unfold ids; rw [e1]; simp
    have hnew : ids (delete w.focus k).1 = A.map (·.1) ++ B.map (·.1) := by unfold ids; rw [e2]; simp
    unfold allIds at hnd hrange hsz
    rw [hold] at hnd hrange hsz
    unfold NoAlias allIds
    simp only
    rw [hnew]
    have hperm : (A.map (·.1) ++ B.map (·.1) ++ (w.others ++ i :: w.gaps)).Perm
        (A.map (·.1) ++ i :: B.map (·.1) ++ (w.others ++ w.gaps)) := by
      simp only [List.append_assoc]
      refine List.Perm.append_left _ ?_
      have : (B.map (·.1) ++ (w.others ++ i :: w.gaps)).Perm (i :: (B.map (·.1) ++ (w.others ++ w.gaps))) := by
        rw [← List.append_assoc, ← List.append_assoc]
        exact List.perm_middle
      simpa using this
    refine ⟨hperm.nodup_iff.mpr hnd, ?_, ?_⟩
    · intro j hj; exact hrange j (hperm.mem_iff.mp hj)
    · rw [hperm.length_eq]; exact hsz

/-- `Erase`: every node of the focused tree goes back to the free list, the tree becomes empty -/
def eraseW (w : World) : World := { w with gaps := w.gaps ++ ids w.focus, focus := Tree.nil }

/-- erasing a tree keeps the allocator exact: the freed indices are now gaps, nothing is lost or duplicated, and
    `Used()` drops by exactly the number of erased elements -/
theorem eraseW_noAlias (w : World) (h : NoAlias w) :
    NoAlias (eraseW w) ∧ ids (eraseW w).focus = [] ∧
    (eraseW w).gaps.length = w.gaps.length + (ids w.focus).length := by
  obtain ⟨hnd, hrange, hsz⟩ := h
  have hperm : (allIds (eraseW w)).Perm (allIds w) := by
    unfold allIds eraseW ids
    simp only [Tree.toList, List.map_nil, List.nil_append]
    -- others ++ (gaps ++ F)  ~  F ++ (others ++ gaps)
    have h1 : (w.others ++ (w.gaps ++ List.map (·.1) w.focus.toList)).Perm
        ((w.others ++ w.gaps) ++ List.map (·.1) w.focus.toList) := by
      rw [List.append_assoc]
    exact h1.trans List.perm_append_comm
  refine ⟨⟨hperm.nodup_iff.mpr hnd, ?_, ?_⟩, ?_, ?_⟩
  · intro j hj; exact hrange j (hperm.mem_iff.mp hj)
  · show (eraseW w).size = 0 ∨ (allIds (eraseW w)).length + 1 = (eraseW w).size
    rw [hperm.length_eq]; exact hsz
  · simp [eraseW, ids, Tree.toList]
  · simp [eraseW]

end RbM

namespace RbM

/-- `Used()` = `len(storage) - len(gaps)`: on a non-empty arena it is the number of live nodes of all trees plus the
reserved slot -/
theorem used_count (w : World) (h : NoAlias w) (hne : w.size ≠ 0) :
    w.size - w.gaps.length = (ids w.focus).length + w.others.length + 1 := by
  obtain ⟨_, _, h3⟩ := h
  rcases h3 with h0 | h3
  · exact absurd h0 hne
  · simp only [allIds, List.length_append] at h3
    omega

end RbM
