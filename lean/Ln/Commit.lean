import Ln.Basic
/-! C12: `LinesStatsCalculator.Consume` over the changes of one commit.  A text blob enters as its number of lines,
    a binary one (`CountLines` fails) as `none`; a modification enters as the edit script of its diff. -/
namespace Ln

inductive Chg where
  | ins (name : Nat) (lines : Option Nat)
  | del (name : Nat) (lines : Option Nat)
  | mod (name : Nat) (script : List Edit)

structure FStat where
  added : Nat
  removed : Nat
  changed : Nat
  deriving Repr, DecidableEq

/-- the entry a change contributes: insertions and modifications are keyed by the new name, deletions by the old
    name; binary insertions / deletions contribute nothing -/
def statOf : Chg → Option (Nat × FStat)
  | .ins n (some l) => some (n, ⟨l, 0, 0⟩)
  | .ins _ none => none
  | .del n (some l) => some (n, ⟨0, l, 0⟩)
  | .del _ none => none
  | .mod n s => let r := lineStats s; some (n, ⟨r.added, r.removed, r.changed⟩)

/-- merge commits report nothing -/
def consume (isMerge : Bool) (cs : List Chg) : List (Nat × FStat) :=
  if isMerge then [] else cs.filterMap statOf

/-- lines inserted / deleted by a change (what the diff against the parent says) -/
def chgInserted : Chg → Nat
  | .ins _ (some l) => l
  | .mod _ s => inserted s
  | _ => 0
def chgDeleted : Chg → Nat
  | .del _ (some l) => l
  | .mod _ s => deleted s
  | _ => 0

def okChg : Chg → Prop
  | .mod _ s => NoDoubleDelete s
  | _ => True

/-- **C12 (non-merge commit)**: added + changed = inserted lines and removed + changed = deleted lines, summed over
    the files of the commit -/
theorem commit_conserves (cs : List Chg) (h : ∀ c ∈ cs, okChg c) :
    ((consume false cs).map fun p => p.2.added + p.2.changed).sum = (cs.map chgInserted).sum ∧
    ((consume false cs).map fun p => p.2.removed + p.2.changed).sum = (cs.map chgDeleted).sum := by
  induction cs with
  | nil => simp [consume]
  | cons c cs ih =>
    have ih' := ih (fun c hc => h c (by simp [hc]))
    have hc := h c (by simp)
    simp only [consume, Bool.false_eq_true, if_false] at ih' ⊢
    cases c with
    | ins n l =>
      cases l with
      | none => simpa [List.filterMap_cons, statOf, chgInserted, chgDeleted] using ih'
      | some l =>
        simp only [List.filterMap_cons, statOf, List.map_cons, List.sum_cons, chgInserted, chgDeleted]
        omega
    | del n l =>
      cases l with
      | none => simpa [List.filterMap_cons, statOf, chgInserted, chgDeleted] using ih'
      | some l =>
        simp only [List.filterMap_cons, statOf, List.map_cons, List.sum_cons, chgInserted, chgDeleted]
        omega
    | mod n s =>
      have := lineStats_conserve s hc
      simp only [List.filterMap_cons, statOf, List.map_cons, List.sum_cons, chgInserted, chgDeleted]
      omega

end Ln
