import Ln.Basic
/-! C11, whitespace-ignore mode: model of `stripWhitespace` (internal/plumbing/diff.go, after fix 5c77e2f) and the proof
    that it never changes the number of lines, so the counts FileDiff reports agree with `CountLines` of the raw blob. -/
namespace Ln

def SP : Nat := 32

def stripWS (b : List Nat) : List Nat :=
  let r := b.filter (· ≠ SP)
  if b ≠ [] ∧ b.getLast? ≠ some NL ∧ (r = [] ∨ r.getLast? = some NL) then r ++ [SP] else r

theorem count_filter_sp (b : List Nat) : (b.filter (· ≠ SP)).count NL = b.count NL := by
  induction b with
  | nil => rfl
  | cons c b ih =>
    by_cases h : c = SP
    · subst h; simp [List.filter_cons, SP, NL]
    · simp only [List.filter_cons, ne_eq, h, not_false_eq_true, decide_true, if_true, List.count_cons, ih]

theorem getLast_filter_keep (b : List Nat) (x : Nat) (hx : x ≠ SP) :
    ((b ++ [x]).filter (· ≠ SP)).getLast? = some x := by
  simp [List.filter_append, List.filter_cons, hx]

/-- **whitespace-ignore keeps the line count** -/
theorem countLines_stripWS (b : List Nat) : countLines (stripWS b) = countLines b := by
  rcases List.eq_nil_or_concat b with rfl | ⟨init, x, rfl⟩
  · simp [stripWS, countLines]
  · rw [List.concat_eq_append]
    have hne : init ++ [x] ≠ [] := by simp
    have hlast : (init ++ [x]).getLast? = some x := by simp
    by_cases hx : x = NL
    · -- terminated: nothing is appended, the last byte stays a newline
      subst hx
      have hk := getLast_filter_keep init NL (by decide)
      have hr : (init ++ [NL]).filter (· ≠ SP) ≠ [] := by
        intro h; rw [h] at hk; simp at hk
      simp only [stripWS, hlast, ne_eq, not_true_eq_false, false_and, and_false, if_false]
      simp only [countLines, hr, hne, if_false, hk, hlast, if_true, count_filter_sp]
    · -- unterminated last line
      have hc : countLines (init ++ [x]) = (init ++ [x]).count NL + 1 := by
        simp only [countLines, hne, if_false, hlast, Option.some.injEq, hx]
      rw [hc]
      unfold stripWS
      simp only [hne, ne_eq, not_false_eq_true, hlast, Option.some.injEq, hx, true_and]
      by_cases hr : ((init ++ [x]).filter (· ≠ SP) = [] ∨ ((init ++ [x]).filter (· ≠ SP)).getLast? = some NL)
      · simp only [hr, if_true]
        have : ((init ++ [x]).filter (· ≠ SP) ++ [SP]) ≠ [] := by simp
        simp only [countLines, this, if_false, List.getLast?_append, List.getLast?_singleton, Option.some_or,
          Option.some.injEq, List.count_append, count_filter_sp]
        simp [SP, NL]
      · simp only [hr, if_false]
        have h1 : (init ++ [x]).filter (· ≠ SP) ≠ [] := fun h => hr (Or.inl h)
        have h2 : ((init ++ [x]).filter (· ≠ SP)).getLast? ≠ some NL := fun h => hr (Or.inr h)
        simp only [countLines, h1, if_false, h2, count_filter_sp]

end Ln
