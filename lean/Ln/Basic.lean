/-! C11 (line counting contract) and C12 (line statistics) models and theorems. Bytes are `Nat`s. -/
namespace Ln

def NL : Nat := 10

/-- `CachedBlob.CountLines` on data without a NUL in the sniffed prefix: number of '\n', plus one if the
    data is non-empty and does not end with '\n' -/
def countLines (b : List Nat) : Nat :=
  if b = [] then 0
  else b.count NL + (if b.getLast? = some NL then 0 else 1)

/-- diffmatchpatch's line splitting (`diffLinesToRunesMunge`): every line keeps its terminator, a
    final unterminated chunk is a line, the empty text has no lines -/
def splitLines : List Nat → List (List Nat)
  | [] => []
  | c :: rest =>
    if c = NL then [NL] :: splitLines rest
    else
      match splitLines rest with
      | [] => [[c]]
      | l :: ls => if rest.head? = none then [[c]] else (c :: l) :: ls

theorem splitLines_join (b : List Nat) : (splitLines b).flatten = b := by
  induction b with
  | nil => simp [splitLines]
  | cons c rest ih =>
    unfold splitLines
    split
    · rename_i h; subst h; simp [ih]
    · cases hs : splitLines rest with
      | nil =>
        have : rest = [] := by
          cases rest with
          | nil => rfl
          | cons d ds => rw [hs] at ih; simp at ih
        subst this; simp
      | cons l ls =>
        cases rest with
        | nil => simp [splitLines] at hs
        | cons d ds => rw [hs] at ih; simp at ih ⊢; exact ih

/-- **C11-T1**: the counter used when a file is first seen agrees with the number of lines the diff sees -/
theorem countLines_eq_split (b : List Nat) : countLines b = (splitLines b).length := by
  induction b with
  | nil => simp [countLines, splitLines]
  | cons c rest ih =>
    unfold splitLines
    by_cases hc : c = NL
    · subst hc
      simp only [↓reduceIte, List.length_cons]
      rw [← ih]
      unfold countLines
      cases rest with
      | nil => simp
      | cons d ds => simp [List.getLast?_cons_cons]; omega
    · simp only [hc, ↓reduceIte]
      cases hs : splitLines rest with
      | nil =>
        have : rest = [] := by
          have := splitLines_join rest; rw [hs] at this; simpa using this.symm
        subst this
        simp [countLines, hc, List.count_cons]
      | cons l ls =>
        cases rest with
        | nil => simp [splitLines] at hs
        | cons d ds =>
          simp only [List.head?_cons, reduceCtorEq, ↓reduceIte, List.length_cons]
          rw [hs] at ih
          simp only [List.length_cons] at ih
          rw [← ih]
          unfold countLines
          simp [List.getLast?_cons_cons, List.count_cons, hc]

/-! ### C12: LinesStatsCalculator's added / removed / changed fold -/

inductive Edit | equal (n : Nat) | insert (n : Nat) | delete (n : Nat)
  deriving Repr

structure Acc where
  added : Nat := 0
  removed : Nat := 0
  changed : Nat := 0
  pending : Nat := 0
  deriving Repr

def stepStat (a : Acc) : Edit → Acc
  | .equal _ => { a with removed := a.removed + a.pending, pending := 0 }
  | .insert d =>
    if a.pending > d then { a with changed := a.changed + d, removed := a.removed + (a.pending - d), pending := 0 }
    else { a with changed := a.changed + a.pending, added := a.added + (d - a.pending), pending := 0 }
  | .delete d => { a with pending := d }

def finishStat (a : Acc) : Acc := { a with removed := a.removed + a.pending, pending := 0 }

def lineStats (es : List Edit) : Acc := finishStat (es.foldl stepStat {})

def inserted : List Edit → Nat
  | [] => 0
  | .insert n :: r => n + inserted r
  | _ :: r => inserted r
def deleted : List Edit → Nat
  | [] => 0
  | .delete n :: r => n + deleted r
  | _ :: r => deleted r

/-- no two deletions in a row (the shape FileDiff guarantees after cleanup, and also raw Myers output) -/
def NoDoubleDelete : List Edit → Prop
  | .delete _ :: .delete m :: r => False ∧ NoDoubleDelete (.delete m :: r)
  | _ :: r => NoDoubleDelete r
  | [] => True

theorem fold_stat (es : List Edit) (a : Acc) (h : NoDoubleDelete es) (hp : a.pending = 0 ∨ ∀ e r, es = e :: r → ∀ m, e ≠ .delete m) :
    let r := finishStat (es.foldl stepStat a)
    r.added + r.changed = a.added + a.changed + inserted es ∧
    r.removed + r.changed = a.removed + a.changed + a.pending + deleted es := by
  induction es generalizing a with
  | nil => simp [finishStat, inserted, deleted]; omega
  | cons e r ih =>
    cases e with
    | equal n =>
      have := ih (stepStat a (.equal n)) (by simpa [NoDoubleDelete] using h) (Or.inl rfl)
      simp only [List.foldl_cons, stepStat, inserted, deleted] at this ⊢
      omega
    | insert d =>
      by_cases hgt : a.pending > d
      · have e : stepStat a (.insert d) =
            { a with changed := a.changed + d, removed := a.removed + (a.pending - d), pending := 0 } := by
          simp [stepStat, hgt]
        have := ih (stepStat a (.insert d)) (by simpa [NoDoubleDelete] using h) (Or.inl (by rw [e]))
        simp only [List.foldl_cons, inserted, deleted]
        rw [e] at this ⊢
        simp only at this
        omega
      · have e : stepStat a (.insert d) =
            { a with changed := a.changed + a.pending, added := a.added + (d - a.pending), pending := 0 } := by
          simp [stepStat, hgt]
        have := ih (stepStat a (.insert d)) (by simpa [NoDoubleDelete] using h) (Or.inl (by rw [e]))
        simp only [List.foldl_cons, inserted, deleted]
        rw [e] at this ⊢
        simp only at this
        omega
    | delete d =>
      have hp0 : a.pending = 0 := by
        rcases hp with hp | hp
        · exact hp
        · exact absurd rfl (hp _ _ rfl d)
      have hnd : NoDoubleDelete r ∧ ∀ e r', r = e :: r' → ∀ m, e ≠ .delete m := by
        cases r with
        | nil => exact ⟨trivial, by intro e r' h; cases h⟩
        | cons e2 r2 =>
          cases e2 with
          | delete m => simp [NoDoubleDelete] at h
          | equal m => exact ⟨by simpa [NoDoubleDelete] using h, by intro e r' he; cases he; intro m; simp⟩
          | insert m => exact ⟨by simpa [NoDoubleDelete] using h, by intro e r' he; cases he; intro m; simp⟩
      have := ih (stepStat a (.delete d)) hnd.1 (Or.inr hnd.2)
      simp only [List.foldl_cons, stepStat, inserted, deleted] at this ⊢
      omega

/-- **C12-T1**: added + changed = inserted lines, removed + changed = deleted lines -/
theorem lineStats_conserve (es : List Edit) (h : NoDoubleDelete es) :
    (lineStats es).added + (lineStats es).changed = inserted es ∧
    (lineStats es).removed + (lineStats es).changed = deleted es := by
  have := fold_stat es {} h (Or.inl rfl)
  simpa [lineStats] using this

end Ln
