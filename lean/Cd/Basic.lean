/-! C17: the burndown "truncated row" sparse matrix and the dense CSR codec (internal/pb/utils.go,
    leaves/burndown.go Deserialize). -/
namespace Cd

def U32 : Int := 4294967296

/-- one cell as it is written: negative → 0, then the uint32 cast -/
def cell (v : Int) : Nat := (if v < 0 then 0 else v % U32).toNat

/-- drop the zeros at the end of a row (the loop that runs from the last column backwards) -/
def stripZeros : List Nat → List Nat
  | [] => []
  | x :: xs =>
    match stripZeros xs with
    | [] => if x = 0 then [] else [x]
    | ys => x :: ys

def encRow (row : List Int) : List Nat := stripZeros (row.map cell)

/-- `convertCSR`: a row of `width` zeros overwritten by the stored columns -/
def decRow (width : Nat) (cols : List Nat) : List Int :=
  (cols.map (fun (c : Nat) => (c : Int))) ++ List.replicate (width - cols.length) 0

theorem stripZeros_length_le (l : List Nat) : (stripZeros l).length ≤ l.length := by
  induction l with
  | nil => simp [stripZeros]
  | cons x xs ih =>
    unfold stripZeros
    cases hs : stripZeros xs with
    | nil => simp only; split <;> simp
    | cons y ys => rw [hs] at ih; simp only [List.length_cons] at ih ⊢; omega

/-- stripping and padding back gives the row again -/
theorem strip_pad (l : List Nat) :
    stripZeros l ++ List.replicate (l.length - (stripZeros l).length) 0 = l := by
  induction l with
  | nil => simp [stripZeros]
  | cons x xs ih =>
    unfold stripZeros
    cases hs : stripZeros xs with
    | nil =>
      rw [hs] at ih
      simp only [List.length_nil, Nat.sub_zero, List.nil_append] at ih
      by_cases hx : x = 0
      · subst hx
        simp only [↓reduceIte, List.length_nil, Nat.sub_zero, List.nil_append, List.length_cons]
        rw [List.replicate_succ, ih]
      · simp only [hx, ↓reduceIte, List.length_cons, List.length_nil]
        simp only [List.cons_append, List.nil_append]
        congr 1
    | cons y ys =>
      rw [hs] at ih
      simp only [List.length_cons, List.cons_append] at ih ⊢
      congr 1
      have : xs.length + 1 - (ys.length + 1 + 1) = xs.length - (ys.length + 1) := by omega
      rw [this]
      exact ih

/-- **C17 (burndown matrices, per row)**: decode ∘ encode = clamp negatives to zero; dropped trailing
    zero columns come back as zeros; cells below 2^32 are exact -/
theorem row_roundtrip (row : List Int) (hb : ∀ v ∈ row, v < U32) :
    decRow row.length (encRow row) = row.map (fun v => if v < 0 then 0 else v) := by
  unfold decRow encRow
  have hlen : (row.map cell).length = row.length := by simp
  have h1 := strip_pad (row.map cell)
  have : (List.map (fun (c : Nat) => (c : Int)) (stripZeros (row.map cell)) ++
      List.replicate (row.length - (stripZeros (row.map cell)).length) (0 : Int)) =
      List.map (fun (c : Nat) => (c : Int)) (stripZeros (row.map cell) ++
        List.replicate ((row.map cell).length - (stripZeros (row.map cell)).length) 0) := by
    simp [hlen]
  rw [this, h1]
  rw [List.map_map]
  apply List.map_congr_left
  intro v hv
  have := hb v hv
  simp only [Function.comp, cell]
  split
  · simp
  · rename_i h
    have : v % U32 = v := Int.emod_eq_of_lt (by omega) this
    rw [this]; omega

/-! ### dense ↔ CSR (people interaction matrix) -/

structure CSR where
  data : List Int
  indices : List Nat
  indptr : List Nat
  deriving Repr

def rowNZ (row : List Int) : List (Nat × Int) := (row.zipIdx.filter (fun p => p.1 ≠ 0)).map fun p => (p.2, p.1)

def toCSR (m : List (List Int)) : CSR :=
  let rows := m.map rowNZ
  let counts := rows.map List.length
  let indptr := counts.foldl (fun acc c => acc ++ [acc.getLastD 0 + c]) [0]
  ⟨(rows.flatten).map (·.2), (rows.flatten).map (·.1), indptr⟩

def setAt (l : List Int) (i : Nat) (v : Int) : List Int := l.set i v

def fromCSR (nrows ncols : Nat) (c : CSR) : List (List Int) :=
  (List.range nrows).map fun i =>
    let lo := c.indptr.getD i 0
    let hi := c.indptr.getD (i + 1) 0
    (List.range (hi - lo)).foldl (fun row k =>
      setAt row (c.indices.getD (lo + k) 0) (c.data.getD (lo + k) 0)) (List.replicate ncols 0)

end Cd
