/-! C17: the binary encoding of a developers result (`DevsAnalysis.serializeBinary` / `Deserialize`, leaves/devs.go).
    Maps are association lists.  Every counter and key goes through Go's `int32(...)` conversion when written and
    back through `int(...)` when read; the unmatched author (`identity.AuthorMissing`) is written as developer -1. -/
namespace CdD

/-- Go's `int32(x)` for a (64-bit) int: two's complement wrap-around -/
def wrap32 (x : Int) : Int := (x + 2147483648) % 4294967296 - 2147483648

def Fits32 (x : Int) : Prop := -2147483648 ≤ x ∧ x < 2147483648

theorem wrap32_of_fits {x : Int} (h : Fits32 x) : wrap32 x = x := by
  unfold wrap32; unfold Fits32 at h; omega

structure LS where
  added : Int
  removed : Int
  changed : Int
  deriving Repr, DecidableEq

structure DT where
  commits : Int
  ls : LS
  langs : List (String × LS)
  deriving Repr, DecidableEq

abbrev Ticks := List (Int × List (Int × DT))

def encLS (l : LS) : LS := ⟨wrap32 l.added, wrap32 l.removed, wrap32 l.changed⟩
def encDT (d : DT) : DT := ⟨wrap32 d.commits, encLS d.ls, d.langs.map fun (k, v) => (k, encLS v)⟩

/-- `serializeBinary`: `am` is `identity.AuthorMissing` -/
def encode (am : Int) (t : Ticks) : Ticks :=
  t.map fun (tick, devs) => (wrap32 tick, devs.map fun (dev, st) => (wrap32 (if dev = am then -1 else dev), encDT st))

/-- `Deserialize` -/
def decode (am : Int) (m : Ticks) : Ticks :=
  m.map fun (tick, devs) => (tick, devs.map fun (dev, st) => ((if dev = -1 then am else dev), st))

def FitsLS (l : LS) : Prop := Fits32 l.added ∧ Fits32 l.removed ∧ Fits32 l.changed
def FitsDT (d : DT) : Prop := Fits32 d.commits ∧ FitsLS d.ls ∧ ∀ kv ∈ d.langs, FitsLS kv.2

/-- every number fits 32 bits and every developer key is a real index (≥ 0) or the unmatched author -/
def Fits (am : Int) (t : Ticks) : Prop :=
  ∀ td ∈ t, Fits32 td.1 ∧ ∀ ds ∈ td.2, (ds.1 = am ∨ (0 ≤ ds.1 ∧ Fits32 ds.1)) ∧ FitsDT ds.2

theorem encLS_of_fits {l : LS} (h : FitsLS l) : encLS l = l := by
  obtain ⟨a, r, c⟩ := h
  cases l; simp only [encLS, wrap32_of_fits a, wrap32_of_fits r, wrap32_of_fits c]

theorem encDT_of_fits {d : DT} (h : FitsDT d) : encDT d = d := by
  obtain ⟨c, l, g⟩ := h
  cases d with
  | mk commits ls langs =>
    simp only [encDT, wrap32_of_fits c, encLS_of_fits l, DT.mk.injEq, true_and]
    have : ∀ kv ∈ langs, (fun (x : String × LS) => (x.1, encLS x.2)) kv = kv := by
      intro kv hkv; simp [encLS_of_fits (g kv hkv)]
    calc langs.map (fun x => (x.1, encLS x.2)) = langs.map id := List.map_congr_left this
      _ = langs := List.map_id langs

/-- **C17 (developers message)**: reading back what was written gives the same result -/
theorem decode_encode (am : Int) (t : Ticks) (h : Fits am t) : decode am (encode am t) = t := by
  unfold decode encode
  rw [List.map_map]
  have : ∀ td ∈ t, ((fun (x : Int × List (Int × DT)) => (x.1, x.2.map fun (y : Int × DT) => ((if y.1 = -1 then am else y.1), y.2))) ∘
      (fun (x : Int × List (Int × DT)) => (wrap32 x.1, x.2.map fun (y : Int × DT) => (wrap32 (if y.1 = am then -1 else y.1), encDT y.2)))) td = td := by
    intro td htd
    obtain ⟨ht, hd⟩ := h td htd
    simp only [Function.comp, wrap32_of_fits ht, List.map_map]
    have : ∀ ds ∈ td.2, ((fun (y : Int × DT) => ((if y.1 = -1 then am else y.1), y.2)) ∘
        (fun (y : Int × DT) => (wrap32 (if y.1 = am then -1 else y.1), encDT y.2))) ds = ds := by
      intro ds hds
      obtain ⟨hk, hv⟩ := hd ds hds
      simp only [Function.comp, encDT_of_fits hv]
      rcases hk with hk | ⟨h0, hf⟩
      · simp only [hk, if_true]
        have : wrap32 (-1) = -1 := by decide
        simp only [this, if_true]
        exact Prod.ext hk.symm rfl
      · by_cases he : ds.1 = am
        · simp only [he, if_true]
          have : wrap32 (-1) = -1 := by decide
          simp only [this, if_true]
          exact Prod.ext he.symm rfl
        · have hne : ds.1 ≠ -1 := by omega
          simp [he, wrap32_of_fits hf, hne]
    rw [List.map_congr_left this]
    simp
  calc t.map _ = t.map id := List.map_congr_left this
    _ = t := List.map_id t

/-- the boundary is sharp: a counter of 2^31 does not survive (it comes back negative) -/
example : wrap32 2147483648 = -2147483648 := by decide

end CdD
