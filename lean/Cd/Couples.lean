/-! C17: the compressed-sparse-row encoding of the couples matrices (`pb.MapToCompressedSparseRowMatrix` and the
    `convertCSR` closure of `CouplesAnalysis.Deserialize`).  A row is the list of its (column, value) entries in
    ascending column order (the encoder sorts the map keys); explicit zero values are entries like any other. -/
namespace CdC

abbrev Row := List (Nat × Int)

structure CSR where
  data : List Int
  indices : List Nat
  indptr : List Nat
  deriving Repr

/-- `Indptr`: starts with 0, every row appends the previous value plus the row's number of entries -/
def indptrFrom (start : Nat) : List Row → List Nat
  | [] => []
  | r :: rs => (start + r.length) :: indptrFrom (start + r.length) rs

def encode (m : List Row) : CSR :=
  ⟨m.flatten.map (·.2), m.flatten.map (·.1), 0 :: indptrFrom 0 m⟩

/-- the entries with positions `lo ≤ j < hi` -/
def slice (c : CSR) (lo hi : Nat) : Row :=
  ((c.indices.zip c.data).drop lo).take (hi - lo)

/-- `convertCSR`: row `i-1` is rebuilt from `Indptr[i-1] .. Indptr[i]` -/
def decodeFrom (c : CSR) : Nat → List Nat → List Row
  | _, [] => []
  | lo, hi :: rest => slice c lo hi :: decodeFrom c hi rest

def decode (c : CSR) : List Row :=
  match c.indptr with
  | [] => []
  | p0 :: rest => decodeFrom c p0 rest

theorem zip_map_flatten (l : List (Nat × Int)) : (l.map (·.1)).zip (l.map (·.2)) = l := by
  induction l with
  | nil => rfl
  | cons x xs ih => simp [ih]

theorem decodeFrom_encode (pre : List (Nat × Int)) (m : List Row) (c : CSR)
    (hi : c.indices = (pre ++ m.flatten).map (·.1)) (hd : c.data = (pre ++ m.flatten).map (·.2)) :
    decodeFrom c pre.length (indptrFrom pre.length m) = m := by
  induction m generalizing pre with
  | nil => rfl
  | cons r rs ih =>
    simp only [indptrFrom, decodeFrom]
    have hz : c.indices.zip c.data = pre ++ (r ++ rs.flatten) := by
      rw [hi, hd, zip_map_flatten]; simp
    have hs : slice c pre.length (pre.length + r.length) = r := by
      unfold slice
      rw [hz]
      simp
    rw [hs]
    have := ih (pre ++ r) (by simp [hi]) (by simp [hd])
    simp only [List.length_append] at this
    rw [this]

/-- **C17 (couples matrices)**: reading back an encoded matrix gives the same rows, explicit zeros included -/
theorem decode_encode (m : List Row) : decode (encode m) = m := by
  have := decodeFrom_encode [] m (encode m) (by simp [encode]) (by simp [encode])
  simpa [decode, encode] using this

end CdC
