import Fu.Loop
namespace Fu

/-- key of the first node (0 for the empty list) -/
def headKey : List Node → Nat
  | [] => 0
  | n :: _ => n.1

theorem length_flat_prefix (K0 : List Node) (a : Node) (hs : Sorted (K0 ++ [a]))
    (h0 : headKey (K0 ++ [a]) = 0) : (flat (K0 ++ [a])).length = a.1 := by
  cases K0 with
  | nil => simp [headKey] at h0 ⊢; omega
  | cons x xs =>
    have := length_flat x (xs ++ [a]) hs
    simp only [List.cons_append] at this ⊢
    rw [this]
    have hl := lastKey_append_cons (x :: xs) a []
    simp only [List.cons_append] at hl
    rw [hl]
    simp [headKey] at h0
    simp [h0]

theorem sorted_prefix {K0 : List Node} {a : Node} {R : List Node} (hs : Sorted (K0 ++ a :: R)) :
    Sorted (K0 ++ [a]) := by
  have : K0 ++ a :: R = (K0 ++ [a]) ++ R := by simp
  rw [this] at hs
  exact (List.pairwise_append.mp hs).1

theorem sorted_suffix {K0 : List Node} {R : List Node} (hs : Sorted (K0 ++ R)) : Sorted R :=
  (List.pairwise_append.mp hs).2.1

theorem headKey_prefix (K0 : List Node) (a : Node) (R : List Node) :
    headKey (K0 ++ a :: R) = headKey (K0 ++ [a]) := by
  cases K0 <;> simp [headKey]

/-- lines before `p` depend only on the nodes that start before `p` -/
theorem take_flat (K0 : List Node) (a b : Node) (R : List Node) (p x : Nat)
    (hs : Sorted (K0 ++ a :: b :: R)) (h0 : headKey (K0 ++ a :: b :: R) = 0)
    (h1 : a.1 ≤ p) (h2 : p ≤ b.1) :
    (flat (K0 ++ a :: b :: R)).take p = flat (K0 ++ [a, (p, x)]) := by
  have hlen := length_flat_prefix K0 a (sorted_prefix hs) (by rw [← headKey_prefix K0 a (b :: R)]; exact h0)
  rw [flat_append K0 a (b :: R), flat_split a p b R h1 h2, ← List.append_assoc]
  rw [List.take_left' (by simp [hlen]; omega)]
  rw [flat_append K0 a [(p, x)]]
  simp [flat_cons_cons]

/-- lines from `q` on depend only on the node covering `q` and what follows -/
theorem drop_flat (X : List Node) (d it : Node) (after : List Node) (q : Nat)
    (hs : Sorted (X ++ d :: it :: after)) (h0 : headKey (X ++ d :: it :: after) = 0)
    (h1 : d.1 ≤ q) (h2 : q ≤ it.1) :
    (flat (X ++ d :: it :: after)).drop q =
      List.replicate (it.1 - q) d.2 ++ flat (it :: after) := by
  have hlen := length_flat_prefix X d (sorted_prefix hs) (by rw [← headKey_prefix X d (it :: after)]; exact h0)
  rw [flat_append X d (it :: after), flat_split d q it after h1 h2, ← List.append_assoc]
  rw [List.drop_left' (by simp [hlen]; omega)]
  simp [flat_cons_cons]

theorem take_flat_at (K0 : List Node) (a : Node) (R : List Node)
    (hs : Sorted (K0 ++ a :: R)) (h0 : headKey (K0 ++ a :: R) = 0) :
    (flat (K0 ++ a :: R)).take a.1 = flat (K0 ++ [a]) := by
  have hlen := length_flat_prefix K0 a (sorted_prefix hs) (by rw [← headKey_prefix K0 a R]; exact h0)
  rw [flat_append K0 a R, List.take_left' hlen]

theorem drop_flat_at (K0 : List Node) (a : Node) (R : List Node)
    (hs : Sorted (K0 ++ a :: R)) (h0 : headKey (K0 ++ a :: R) = 0) :
    (flat (K0 ++ a :: R)).drop a.1 = flat (a :: R) := by
  have hlen := length_flat_prefix K0 a (sorted_prefix hs) (by rw [← headKey_prefix K0 a R]; exact h0)
  rw [flat_append K0 a R, List.drop_left' hlen]

/-- the value of the last node never matters -/
theorem flat_last_irrelevant (xs : List Node) (k v v' : Nat) :
    flat (xs ++ [(k, v)]) = flat (xs ++ [(k, v')]) := by
  induction xs with
  | nil => simp
  | cons x xs ih =>
    cases xs with
    | nil => simp [flat_cons_cons]
    | cons y ys =>
      simp only [List.cons_append, flat_cons_cons] at ih ⊢
      rw [ih]

theorem splice_eq (a : List Nat) (t pos ins del : Nat) :
    splice a t pos ins del = a.take pos ++ List.replicate ins t ++ a.drop (pos + del) := rfl

end Fu
