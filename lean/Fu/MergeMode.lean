import Fu.Basic
/-! C03 / C07: replaying a merge commit stamps lines with the merge mark and must not report anything to the updaters
    (`updateTime` returns early when the current value carries the mark); the histories are settled later by
    `File.Merge`.  The model of `File.Update` inherits this: with a marked stamp no delta is emitted. -/
namespace Fu

theorem emit_mark (t prev : Nat) (d : Int) (h : t % (MARK + 1) = MARK) : emit t prev d = [] := by
  unfold emit
  split
  · rfl
  · simp [h]

theorem delLoop_mark (t pos ins del : Nat) (prevOrigin : Node) (h : t % (MARK + 1) = MARK) :
    ∀ (rest pre : List Node) (cur origin : Node) (emits : List (Nat × Nat × Int)) (lo : LoopOut),
    delLoop t pos ins del prevOrigin pre cur rest origin emits = .ok lo → emits = [] → lo.emits = [] := by
  intro rest
  induction rest with
  | nil =>
    intro pre cur origin emits lo hl he
    unfold delLoop at hl
    split at hl
    · cases hl
    · injection hl with hl; subst hl; exact he
  | cons next more ih =>
    intro pre cur origin emits lo hl he
    unfold delLoop at hl
    split at hl
    · injection hl with hl; subst hl; exact he
    · split at hl
      · injection hl with hl; subst hl; exact he
      · split at hl
        · exact ih _ _ _ _ lo hl (by rw [he, emit_mark t _ _ h]; rfl)
        · exact ih _ _ _ _ lo hl (by rw [he, emit_mark t _ _ h]; rfl)

/-- **merge mode is silent**: an update whose stamp carries the merge mark reports nothing to the updaters, whatever
the tree and the request are -/
theorem update_mark_silent (fixed : Bool) (ns : List Node) (t pos ins del : Nat) (h : t % (MARK + 1) = MARK)
    (ns' : List Node) (em : List (Nat × Nat × Int)) (hu : update fixed ns t pos ins del = .ok (ns', em)) : em = [] := by
  unfold update at hu
  split at hu
  · injection hu with hu; exact (Prod.mk.inj hu).2.symm
  · split at hu
    · cases hu
    · split at hu
      · cases hu
      · split at hu
        · cases hu
        · have hem0 : (if ins > 0 then emit t t ins else []) = ([] : List (Nat × Nat × Int)) := by
            split
            · exact emit_mark t t _ h
            · rfl
          simp only [hem0] at hu
          split at hu
          · injection hu with hu; exact (Prod.mk.inj hu).2.symm
          · split at hu
            · cases hu
            · rename_i lo hlo
              injection hu with hu
              rw [← (Prod.mk.inj hu).2]
              exact delLoop_mark t pos ins del _ h _ _ _ _ _ lo hlo rfl

end Fu
