import Fu.Sampled
#print axioms Fu.update_ok
#print axioms Fu.update_deltas
#print axioms Fu.runCommits_spec
#print axioms Fu.sampled_row
