import Fu.Main
namespace Fu

/-- well-formed interval list w.r.t. a tick `t` that is about to be written -/
structure WF (ns : List Node) (t : Nat) : Prop where
  sorted : Sorted ns
  head0 : headKey ns = 0
  ne : ns ≠ []
  lastVal : ∀ X l, ns = X ++ [l] → l.2 ≠ t     -- the TreeEnd sentinel is never a tick

theorem lastKey_of_getLast? {ns : List Node} {l : Node} (h : ns.getLast? = some l) : lastKey ns = l.1 := by
  obtain ⟨X, rfl⟩ := getLast?_eq_some_iff_append h
  exact lastKey_pre_single X l

/-- **C03-T1 (repaired code)**: every accepted `Update` acts on the flattened file exactly like the
    array splice "delete `del` lines at `pos`, then insert `ins` lines stamped `t`". -/
theorem update_refines_splice (ns : List Node) (t pos ins del : Nat) (hwf : WF ns t)
    (hr : pos + del ≤ lastKey ns) (hnz : ¬ (ins = 0 ∧ del = 0)) :
    ∃ ns' em, update true ns t pos ins del = .ok (ns', em) ∧
      flat ns' = splice (flat ns) t pos ins del := by
  obtain ⟨hs, h0, hne, hlv⟩ := hwf
  obtain ⟨last, hlast⟩ : ∃ l, ns.getLast? = some l := ⟨ns.getLast hne, List.getLast?_eq_some_getLast hne⟩
  have hlk := lastKey_of_getLast? hlast
  obtain ⟨hsplit, hle_all, hgt⟩ := splitLE_spec ns pos hs
  -- the FindLE node exists because the first key is 0
  have hlene : (splitLE ns pos).1 ≠ [] := by
    intro he
    rw [he, List.nil_append] at hsplit
    obtain ⟨n0, tl, hn0⟩ := List.exists_cons_of_ne_nil hne
    have : n0.1 = 0 := by rw [hn0] at h0; simpa [headKey] using h0
    have := hgt n0 (by rw [← hsplit, hn0]; simp)
    omega
  obtain ⟨o, ho⟩ : ∃ o, (splitLE ns pos).1.getLast? = some o :=
    ⟨_, List.getLast?_eq_some_getLast hlene⟩
  have hle_eq : (splitLE ns pos).1 = (splitLE ns pos).1.dropLast ++ [o] := by
    have := (List.dropLast_concat_getLast hlene).symm
    rw [List.getLast?_eq_some_getLast hlene] at ho
    simp at ho; rw [← ho]; exact this
  generalize hpre_def : (splitLE ns pos).1.dropLast = pre at hle_eq
  generalize hrest_def : (splitLE ns pos).2 = rest at hsplit hgt
  have hns : ns = pre ++ o :: rest := by rw [hsplit, hle_eq]; simp
  have hole : o.1 ≤ pos := hle_all o (by rw [hle_eq]; simp)
  have hs' : Sorted (pre ++ o :: rest) := hns ▸ hs
  have h0' : headKey (pre ++ o :: rest) = 0 := hns ▸ h0
  have hpre_lt : ∀ n ∈ pre, n.1 < o.1 := (sorted_mem_lt hs').1
  have hr' : pos + del ≤ lastKey (pre ++ o :: rest) := hns ▸ hr
  -- unfold the dispatcher
  unfold update
  rw [if_neg hnz, hlast]
  simp only
  rw [if_neg (by omega), ho]
  simp only [hpre_def, hrest_def]
  by_cases hd0 : del = 0
  · -- insertion only
    subst hd0
    have hins : 0 < ins := by omega
    rw [if_pos rfl]
    refine ⟨_, _, rfl, ?_⟩
    rw [hns]
    exact insOnly_flat pre o rest t pos ins hs' h0' hole hgt (by simpa using hr') hins
      (fun he => hlv pre o (by rw [hns, he]))
  · rw [if_neg hd0]
    have hdel : 0 < del := by omega
    have hrr : pos + del ≤ lastKey (o :: rest) := by
      rw [lastKey_append_cons pre o rest] at hr'; exact hr'
    obtain ⟨lo, hlo⟩ := delLoop_ok t pos ins del ((pre.getLast?).getD o) pre o rest o
      (if ins > 0 then emit t t ins else []) hrr
    rw [hlo]
    refine ⟨_, _, rfl, ?_⟩
    obtain ⟨lpre, liter, lafter, lorigin, lemits⟩ := lo
    by_cases hi0 : ins = 0
    · subst hi0
      rcases delLoop_entry_del t pos del hdel pre o rest _ hs' hole hgt hpre_lt _ hlo with
        ⟨K, Dall, hdec, hK, hKlt, hD, hit, hl, hpo⟩ | ⟨K, Dall, x, hdec, hK, hKlt, hD, hx, hKD, horig, hpox, hpoK⟩
      · simp only at hdec hK hit hl hpo
        subst hK
        rw [hns, hdec]
        exact afterLoop_flat_del lpre Dall liter lorigin lafter o _ lemits t pos del
          (hdec ▸ hs') (hdec ▸ h0') hKlt hD hit hl hdel hpo
      · simp only at hdec hK horig hpoK
        subst hK; subst horig
        rw [hns, hdec]
        exact afterLoop_flat_del_special lpre Dall lorigin liter lafter o _ lemits t pos del
          (hdec ▸ hs') (hdec ▸ h0') hKlt hD hx hKD hdel hpox hpoK
    · have hins : 0 < ins := by omega
      obtain ⟨K, Dall, hdec, hK, hKlt, hD, hit, hl, hoK⟩ :=
        delLoop_entry_ins t pos ins del _ hins hdel pre o rest _ hs' hole hgt hpre_lt _ hlo
      simp only at hdec hK hit hl
      subst hK
      rw [hns, hdec]
      refine afterLoop_flat_ins lpre Dall liter lorigin lafter o _ lemits t pos ins del
        (hdec ▸ hs') (hdec ▸ h0') hKlt hD hit hl hoK hole hins hdel ?_
      intro he
      refine hlv (lpre ++ Dall) liter ?_
      rw [hns, hdec, he]

end Fu
