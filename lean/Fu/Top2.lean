import Fu.WFs
namespace Fu

/-- the tracker's structural invariant (what `File.Validate` checks, plus sortedness) -/
structure WF2 (ns : List Node) : Prop where
  sorted : Sorted ns
  head0 : headKey ns = 0
  lastEnd : ∃ l, ns.getLast? = some l ∧ l.2 = END

theorem WF2.toWF {ns : List Node} (h : WF2 ns) {t : Nat} (ht : t < END) : WF ns t := by
  obtain ⟨hs, h0, l, hl, hle⟩ := h
  refine ⟨hs, h0, by intro e; subst e; simp at hl, ?_⟩
  intro X l' he
  have : ns.getLast? = some l' := by rw [he]; simp
  rw [this] at hl; simp at hl; subst hl; omega

theorem getLast?_suffix (X : List Node) (a : Node) (S : List Node) :
    (X ++ a :: S).getLast? = (a :: S).getLast? := getLast?_append_of_ne_nil X (a :: S) (by simp)

/-- facts about the kept prefix shared by all delete paths -/
theorem kept_facts (K Dall : List Node) (R : List Node) (pos del : Nat) (origin : Node)
    (hs : Sorted (K ++ Dall ++ R)) (h0 : headKey (K ++ Dall ++ R) = 0)
    (hD : ∀ n ∈ Dall, pos ≤ n.1 ∧ n.1 < pos + del) (hne : K ++ Dall ≠ []) :
    Sorted K ∧ (K ≠ [] → headKey K = 0) ∧ (K = [] → pos = 0) := by
  refine ⟨?_, ?_, ?_⟩
  · rw [List.append_assoc] at hs; exact (List.pairwise_append.mp hs).1
  · intro hK; rw [List.append_assoc, headKey_append_ne _ _ hK] at h0; exact h0
  · intro hK; subst hK
    cases Dall with
    | nil => simp at hne
    | cons d ds =>
      have : d.1 = 0 := by simpa [headKey] using h0
      have := (hD d (by simp)).1
      omega

/-- **C03-T1 + T2 (repaired code)**: an accepted `Update` refines the array splice and keeps the
    structural invariant; the length changes by `ins - del`. -/
theorem update_ok (ns : List Node) (t pos ins del : Nat) (hwf : WF2 ns) (ht : t < END)
    (hr : pos + del ≤ lastKey ns) (hnz : ¬ (ins = 0 ∧ del = 0)) :
    ∃ ns' em, update true ns t pos ins del = .ok (ns', em) ∧
      flat ns' = splice (flat ns) t pos ins del ∧ WF2 ns' ∧ lastKey ns' + del = lastKey ns + ins := by
  obtain ⟨ns', em, hup, hflat⟩ := update_refines_splice ns t pos ins del (hwf.toWF ht) hr hnz
  refine ⟨ns', em, hup, hflat, ?_⟩
  obtain ⟨hs, h0, last, hlast, hlastE⟩ := hwf
  have hne : ns ≠ [] := by intro e; subst e; simp at hlast
  have hlk := lastKey_of_getLast? hlast
  obtain ⟨hsplit, hle_all, hgt⟩ := splitLE_spec ns pos hs
  have hlene : (splitLE ns pos).1 ≠ [] := by
    intro he
    rw [he, List.nil_append] at hsplit
    obtain ⟨n0, tl, hn0⟩ := List.exists_cons_of_ne_nil hne
    have : n0.1 = 0 := by rw [hn0] at h0; simpa [headKey] using h0
    have := hgt n0 (by rw [← hsplit, hn0]; simp)
    omega
  obtain ⟨o, ho⟩ : ∃ o, (splitLE ns pos).1.getLast? = some o :=
    ⟨_, List.getLast?_eq_some_getLast hlene⟩
  have hle_eq : (splitLE ns pos).1 = (splitLE ns pos).1.dropLast ++ [o] := by
    have := (List.dropLast_concat_getLast hlene).symm
    rw [List.getLast?_eq_some_getLast hlene] at ho
    simp at ho; rw [← ho]; exact this
  generalize hpre_def : (splitLE ns pos).1.dropLast = pre at hle_eq
  generalize hrest_def : (splitLE ns pos).2 = rest at hsplit hgt
  have hns : ns = pre ++ o :: rest := by rw [hsplit, hle_eq]; simp
  have hole : o.1 ≤ pos := hle_all o (by rw [hle_eq]; simp)
  have hs' : Sorted (pre ++ o :: rest) := hns ▸ hs
  have h0' : headKey (pre ++ o :: rest) = 0 := hns ▸ h0
  have hpre_lt : ∀ n ∈ pre, n.1 < o.1 := (sorted_mem_lt hs').1
  have hr' : pos + del ≤ lastKey (pre ++ o :: rest) := hns ▸ hr
  have hlast' : (o :: rest).getLast? = some last := by rw [← getLast?_suffix pre o rest, ← hns]; exact hlast
  -- a common way to conclude from sortedness, head key and last node
  have conclude : ∀ (res : List Node) (d : Int), d = (ins : Int) - del → Sorted res → headKey res = 0 →
      res.getLast? = some (shiftNode d last) → WF2 res ∧ lastKey res + del = lastKey ns + ins := by
    intro res d hd hsr hhr hlr
    refine ⟨⟨hsr, hhr, _, hlr, by simp [shiftNode, hlastE]⟩, ?_⟩
    rw [lastKey_of_getLast? hlr, hlk]
    subst hd
    simp only [shiftNode]
    omega
  unfold update at hup
  rw [if_neg hnz, hlast] at hup
  simp only at hup
  rw [if_neg (by omega), ho] at hup
  simp only [hpre_def, hrest_def] at hup
  by_cases hd0 : del = 0
  · subst hd0
    have hins : 0 < ins := by omega
    rw [if_pos rfl] at hup
    simp only [Res.ok.injEq, Prod.mk.injEq] at hup
    obtain ⟨rfl, _⟩ := hup
    obtain ⟨a, b, c⟩ := insOnly_wf pre o rest t pos ins last hs' h0' hole hgt hlast' hins
      (fun he => by
        subst he; simp at hlast'; subst hlast'; omega) (by omega)
    exact conclude _ (ins : Int) (by simp) a b c
  · rw [if_neg hd0] at hup
    have hdel : 0 < del := by omega
    have hrr : pos + del ≤ lastKey (o :: rest) := by
      rw [lastKey_append_cons pre o rest] at hr'; exact hr'
    obtain ⟨lo, hlo⟩ := delLoop_ok t pos ins del ((pre.getLast?).getD o) pre o rest o
      (if ins > 0 then emit t t ins else []) hrr
    rw [hlo] at hup
    simp only [Res.ok.injEq, Prod.mk.injEq] at hup
    obtain ⟨rfl, _⟩ := hup
    obtain ⟨lpre, liter, lafter, lorigin, lemits⟩ := lo
    have hendt : ∀ (X : List Node) (it : Node) (af : List Node), ns = X ++ it :: af → af = [] → it.2 ≠ t := by
      intro X it af he ha
      subst ha
      have : ns.getLast? = some it := by rw [he]; simp
      rw [this] at hlast; simp at hlast; subst hlast; omega
    by_cases hi0 : ins = 0
    · subst hi0
      rcases delLoop_entry_del t pos del hdel pre o rest _ hs' hole hgt hpre_lt _ hlo with
        ⟨K, Dall, hdec, hK, hKlt, hD, hit, hl, hpo⟩ | ⟨K, Dall, x, hdec, hK, hKlt, hD, hx, hKD, horig, hpox, hpoK⟩
      · simp only at hdec hK hit hl hpo
        subst hK
        have hsd : Sorted (lpre ++ Dall ++ liter :: lafter) := hdec ▸ hs'
        have h0d : headKey (lpre ++ Dall ++ liter :: lafter) = 0 := hdec ▸ h0'
        have hne' : lpre ++ Dall ≠ [] := by intro e; rw [e] at hl; simp at hl
        obtain ⟨hsK, hKh, hK0⟩ := kept_facts lpre Dall (liter :: lafter) pos del lorigin hsd h0d hD hne'
        have hsit : Sorted (liter :: lafter) := sorted_suffix hsd
        have hlit : (liter :: lafter).getLast? = some last := by
          rw [← getLast?_suffix (lpre ++ Dall) liter lafter, ← hdec, getLast?_suffix]; exact hlast'
        have a := afterLoop_sorted lpre liter lorigin lafter o ((pre.getLast?).getD o) lemits t pos 0 del hsK hKlt hsit hit hdel
        obtain ⟨b, c⟩ := afterLoop_head_last lpre liter lorigin lafter o ((pre.getLast?).getD o) lemits t pos 0 del last
          hKlt hKh hK0 hsit hlit hit (hendt (lpre ++ Dall) liter lafter (by rw [hns, hdec])) hdel hole
        exact conclude _ _ rfl a b c
      · simp only at hdec hK horig hpoK
        subst hK; subst horig
        have hsd : Sorted (lpre ++ Dall ++ lorigin :: liter :: lafter) := hdec ▸ hs'
        have h0d : headKey (lpre ++ Dall ++ lorigin :: liter :: lafter) = 0 := hdec ▸ h0'
        obtain ⟨hsK, hKh, hK0⟩ := kept_facts lpre Dall (lorigin :: liter :: lafter) pos del lorigin hsd h0d hD hKD
        have hsx : Sorted (lorigin :: liter :: lafter) := sorted_suffix hsd
        have hsit : Sorted (liter :: lafter) := (List.pairwise_cons.mp hsx).2
        have hxit : lorigin.1 < liter.1 := (List.pairwise_cons.mp hsx).1 liter (by simp)
        have hlit : (liter :: lafter).getLast? = some last := by
          have : (pre ++ o :: rest).getLast? = (liter :: lafter).getLast? := by
            rw [hdec, show lpre ++ Dall ++ lorigin :: liter :: lafter = (lpre ++ Dall ++ [lorigin]) ++ liter :: lafter by simp,
              getLast?_suffix]
          rw [← this, getLast?_suffix]; exact hlast'
        have a := afterLoop_sorted lpre liter lorigin lafter o ((pre.getLast?).getD o) lemits t pos 0 del hsK hKlt hsit (by omega) hdel
        obtain ⟨b, c⟩ := afterLoop_head_last lpre liter lorigin lafter o ((pre.getLast?).getD o) lemits t pos 0 del last
          hKlt hKh hK0 hsit hlit (by omega)
          (hendt (lpre ++ Dall ++ [lorigin]) liter lafter (by rw [hns, hdec]; simp)) hdel hole
        exact conclude _ _ rfl a b c
    · have hins : 0 < ins := by omega
      obtain ⟨K, Dall, hdec, hK, hKlt, hD, hit, hl, hoK⟩ :=
        delLoop_entry_ins t pos ins del _ hins hdel pre o rest _ hs' hole hgt hpre_lt _ hlo
      simp only at hdec hK hit hl
      subst hK
      have hsd : Sorted (lpre ++ Dall ++ liter :: lafter) := hdec ▸ hs'
      have h0d : headKey (lpre ++ Dall ++ liter :: lafter) = 0 := hdec ▸ h0'
      have hne' : lpre ++ Dall ≠ [] := by intro e; rw [e] at hl; simp at hl
      obtain ⟨hsK, hKh, hK0⟩ := kept_facts lpre Dall (liter :: lafter) pos del lorigin hsd h0d hD hne'
      have hsit : Sorted (liter :: lafter) := sorted_suffix hsd
      have hlit : (liter :: lafter).getLast? = some last := by
        rw [← getLast?_suffix (lpre ++ Dall) liter lafter, ← hdec, getLast?_suffix]; exact hlast'
      have a := afterLoop_sorted lpre liter lorigin lafter o ((pre.getLast?).getD o) lemits t pos ins del hsK hKlt hsit hit hdel
      obtain ⟨b, c⟩ := afterLoop_head_last lpre liter lorigin lafter o ((pre.getLast?).getD o) lemits t pos ins del last
        hKlt hKh hK0 hsit hlit hit (hendt (lpre ++ Dall) liter lafter (by rw [hns, hdec])) hdel hole
      exact conclude _ _ rfl a b c

end Fu
