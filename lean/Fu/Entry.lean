import Fu.AfterIns
namespace Fu

/-- What the delete loop returns when started at the FindLE node `o` (`ins > 0`, `del > 0`). -/
theorem delLoop_entry_ins (t pos ins del : Nat) (po : Node) (hins : 0 < ins) (hdel : 0 < del)
    (pre : List Node) (o : Node) (rest : List Node) (em0 : List (Nat × Nat × Int))
    (hs : Sorted (pre ++ o :: rest)) (hle : o.1 ≤ pos) (hgt : ∀ n ∈ rest, pos < n.1)
    (hpre : ∀ n ∈ pre, n.1 < o.1)
    (lo : LoopOut) (h : delLoop t pos ins del po pre o rest o em0 = .ok lo) :
    ∃ K Dall, pre ++ o :: rest = K ++ Dall ++ lo.iter :: lo.after ∧ lo.pre = K ∧
      (∀ n ∈ K, n.1 < pos) ∧ (∀ n ∈ Dall, pos ≤ n.1 ∧ n.1 < pos + del) ∧ pos + del ≤ lo.iter.1 ∧
      (K ++ Dall).getLast? = some lo.origin ∧ (o.1 < pos → K.getLast? = some o) := by
  have hso : Sorted (o :: rest) := sorted_suffix hs
  by_cases hlt : o.1 < pos
  · -- first iteration keeps o
    cases rest with
    | nil =>
      rw [delLoop] at h
      split at h
      · cases h
      · rename_i hh; simp at hh; omega
    | cons next more =>
      have hn : pos < next.1 := hgt next (by simp)
      have hdl : ¬ dlt pos del o next ≤ 0 := by unfold dlt; omega
      rw [delLoop] at h
      rw [if_neg (by intro hc; omega), if_neg hdl, if_neg (by omega)] at h
      have hs' : Sorted (next :: more) := (List.pairwise_cons.mp hso).2
      obtain ⟨D, hD, hall, hit, hpre', horig⟩ :=
        delLoop_ge_ins t pos ins del po hins (pre ++ [o]) next more o _ hs' (by omega) lo h
      refine ⟨pre ++ [o], D, ?_, hpre', ?_, hall, hit, ?_, fun _ => by simp⟩
      · rw [hD]; simp
      · intro n hn'
        rcases List.mem_append.mp hn' with h1 | h1
        · have := hpre n h1; omega
        · simp at h1; subst h1; exact hlt
      · rw [horig]
        cases D with
        | nil => simp
        | cons d ds => simp [List.getLast?_append, List.getLast?_cons]
  · have hpo : o.1 = pos := by omega
    obtain ⟨D, hD, hall, hit, hpre', horig⟩ :=
      delLoop_ge_ins t pos ins del po hins pre o rest o em0 hso (by omega) lo h
    have hDne : D ≠ [] := by
      intro he; subst he
      simp at hD
      rw [← hD.1] at hit; omega
    refine ⟨pre, D, ?_, hpre', ?_, hall, hit, ?_, fun hh => by omega⟩
    · rw [hD]; simp
    · intro n hn'; have := hpre n hn'; omega
    · rw [horig]
      obtain ⟨d, ds, rfl⟩ := List.exists_cons_of_ne_nil hDne
      simp [List.getLast?_append, List.getLast?_cons]

end Fu
