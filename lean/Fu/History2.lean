import Fu.History
namespace Fu

def arrCommits (a : List Nat) : List Commit → List Nat
  | [] => a
  | c :: cs => arrCommits (arrOps a c.tick c.ops) cs

def commitsValid (a : List Nat) : List Commit → Prop
  | [] => True
  | c :: cs => c.tick < END ∧ NoMark c.tick ∧ arrValid a c.tick c.ops ∧ commitsValid (arrOps a c.tick c.ops) cs

/-- deltas reported up to and including tick `T` for lines born at tick `v` -/
def emSumUpTo (T : Nat) (em : List (Nat × Nat × Int)) (v : Nat) : Int :=
  emSum (em.filter fun e => e.1 ≤ T) v

theorem emit_cur (t p : Nat) (d : Int) : ∀ e ∈ emit t p d, e.1 = t := by
  intro e he
  unfold emit at he
  split at he
  · simp at he
  · split at he
    · simp at he
    · simp at he; rw [he]

theorem delLoop_cur (t pos ins del : Nat) (po : Node) (pre : List Node) (cur : Node) (rest : List Node)
    (origin : Node) (emits : List (Nat × Nat × Int)) (h0 : ∀ e ∈ emits, e.1 = t) (lo : LoopOut)
    (h : delLoop t pos ins del po pre cur rest origin emits = .ok lo) : ∀ e ∈ lo.emits, e.1 = t := by
  induction rest generalizing pre cur origin emits with
  | nil =>
    rw [delLoop] at h
    split at h
    · cases h
    · cases h; exact h0
  | cons next more ih =>
    rw [delLoop] at h
    split at h
    · cases h; exact h0
    · split at h
      · cases h; exact h0
      · have h1 : ∀ e ∈ emits ++ emit t cur.2 (-(dlt pos del cur next)), e.1 = t := by
          intro e he
          rcases List.mem_append.mp he with he | he
          · exact h0 e he
          · exact emit_cur _ _ _ e he
        split at h
        · exact ih _ _ _ _ h1 h
        · exact ih _ _ _ _ h1 h

theorem update_cur (ns : List Node) (t pos ins del : Nat) (ns' : List Node) (em : List (Nat × Nat × Int))
    (h : update true ns t pos ins del = .ok (ns', em)) : ∀ e ∈ em, e.1 = t := by
  unfold update at h
  split at h
  · cases h; simp
  · split at h
    · cases h
    · split at h
      · cases h
      · split at h
        · cases h
        · have h0 : ∀ e ∈ (if ins > 0 then emit t t ins else []), e.1 = t := by
            intro e he
            split at he
            · exact emit_cur _ _ _ e he
            · simp at he
          simp only at h
          split at h
          · cases h; exact h0
          · split at h
            · cases h
            · rename_i lo hlo
              cases h
              exact delLoop_cur _ _ _ _ _ _ _ _ _ _ h0 lo hlo

theorem runOps_cur (ops : List (Nat × Nat × Nat)) : ∀ (ns : List Node) (t : Nat) (ns' : List Node)
    (em : List (Nat × Nat × Int)), runOps ns t ops = some (ns', em) → ∀ e ∈ em, e.1 = t := by
  induction ops with
  | nil => intro ns t ns' em h; simp [runOps] at h; obtain ⟨_, rfl⟩ := h; simp
  | cons op ops ih =>
    intro ns t ns' em h
    obtain ⟨pos, ins, del⟩ := op
    simp only [runOps] at h
    cases hu : update true ns t pos ins del with
    | reject m => rw [hu] at h; cases h
    | ok r =>
      obtain ⟨n1, e1⟩ := r
      rw [hu] at h
      simp only at h
      cases hr : runOps n1 t ops with
      | none => rw [hr] at h; cases h
      | some r2 =>
        obtain ⟨n2, e2⟩ := r2
        rw [hr] at h
        simp at h
        obtain ⟨_, rfl⟩ := h
        intro e he
        rcases List.mem_append.mp he with he | he
        · exact update_cur _ _ _ _ _ _ _ hu e he
        · exact ih _ _ _ _ hr e he

/-- **C01 (one tracked file, linear history)**: replaying the commits on the tracker gives the same
    lines as on the plain array, and the reported deltas always sum to the array histogram. -/
theorem runCommits_spec (cs : List Commit) : ∀ (ns : List Node), Good ns → commitsValid (flat ns) cs →
    ∃ ns' em, runCommits ns cs = some (ns', em) ∧ Good ns' ∧ flat ns' = arrCommits (flat ns) cs ∧
      ∀ v, (List.count v (flat ns') : Int) = List.count v (flat ns) + emSum em v := by
  induction cs with
  | nil => intro ns hg _; exact ⟨ns, [], rfl, hg, rfl, by intro v; simp [emSum]⟩
  | cons c cs ih =>
    intro ns hg hv
    obtain ⟨ht, hmt, hops, hrest⟩ := hv
    obtain ⟨ns1, em1, h1, hg1, hf1, hd1⟩ := runOps_spec c.ops ns c.tick hg ht hmt hops
    rw [← hf1] at hrest
    obtain ⟨ns2, em2, h2, hg2, hf2, hd2⟩ := ih ns1 hg1 hrest
    refine ⟨ns2, em1 ++ em2, ?_, hg2, ?_, ?_⟩
    · simp only [runCommits, h1, h2, Option.map_some]
    · simp only [arrCommits]; rw [← hf1]; exact hf2
    · intro v; rw [hd2 v, hd1 v, emSum_append]; omega

end Fu
