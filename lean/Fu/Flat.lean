import Fu.Basic
namespace Fu

/-- keys strictly increasing -/
abbrev Sorted (ns : List Node) : Prop := ns.Pairwise (fun a b => a.1 < b.1)

@[simp] theorem flat_nil : flat [] = [] := by simp [flat]
@[simp] theorem flat_single (n : Node) : flat [n] = [] := by
  obtain ⟨k, v⟩ := n; simp [flat]
theorem flat_cons_cons (a b : Node) (rest : List Node) :
    flat (a :: b :: rest) = List.replicate (b.1 - a.1) a.2 ++ flat (b :: rest) := by
  obtain ⟨k, v⟩ := a; obtain ⟨k', v'⟩ := b; simp [flat]

/-- flat splits at any interior node -/
theorem flat_append (xs : List Node) (n : Node) (ys : List Node) :
    flat (xs ++ n :: ys) = flat (xs ++ [n]) ++ flat (n :: ys) := by
  induction xs with
  | nil => simp
  | cons x xs ih =>
    cases xs with
    | nil => simp [flat_cons_cons]
    | cons y xs' =>
      simp only [List.cons_append, flat_cons_cons, List.append_assoc]
      simpa using ih

/-- last key of a non-empty list (0 for the empty list) -/
def lastKey : List Node → Nat
  | [] => 0
  | [n] => n.1
  | _ :: n :: rest => lastKey (n :: rest)

@[simp] theorem lastKey_single (n : Node) : lastKey [n] = n.1 := rfl
@[simp] theorem lastKey_cons_cons (a b : Node) (r : List Node) : lastKey (a :: b :: r) = lastKey (b :: r) := rfl

theorem lastKey_append_cons (xs : List Node) (n : Node) (ys : List Node) :
    lastKey (xs ++ n :: ys) = lastKey (n :: ys) := by
  induction xs with
  | nil => rfl
  | cons x xs ih =>
    cases xs with
    | nil => simp
    | cons y xs' => simpa using ih

theorem le_lastKey_of_sorted (n : Node) (ns : List Node) (h : Sorted (n :: ns)) :
    n.1 ≤ lastKey (n :: ns) := by
  induction ns generalizing n with
  | nil => simp
  | cons m ms ih =>
    have h' : Sorted (m :: ms) := (List.pairwise_cons.mp h).2
    have := ih m h'
    have : n.1 < m.1 := (List.pairwise_cons.mp h).1 m (by simp)
    simp; omega

theorem length_flat (n : Node) (ns : List Node) (h : Sorted (n :: ns)) :
    (flat (n :: ns)).length = lastKey (n :: ns) - n.1 := by
  induction ns generalizing n with
  | nil => simp
  | cons m ms ih =>
    have h' : Sorted (m :: ms) := (List.pairwise_cons.mp h).2
    have hlt : n.1 < m.1 := (List.pairwise_cons.mp h).1 m (by simp)
    have := le_lastKey_of_sorted m ms h'
    simp [flat_cons_cons, ih m h']; omega

/-- splitting an interval at an interior point does not change the flattening -/
theorem flat_split (a : Node) (p : Nat) (b : Node) (rest : List Node) (h1 : a.1 ≤ p) (h2 : p ≤ b.1) :
    flat (a :: b :: rest) = List.replicate (p - a.1) a.2 ++ flat ((p, a.2) :: b :: rest) := by
  simp only [flat_cons_cons, ← List.append_assoc, List.replicate_append_replicate]
  congr 2; omega

/-- shifting every key up by the same amount preserves the flattening -/
theorem flat_shift (ns : List Node) (d : Int) (hd : ∀ n ∈ ns, 0 ≤ (n.1 : Int) + d) (hs : Sorted ns) :
    flat (shift ns d) = flat ns := by
  induction ns with
  | nil => simp [shift]
  | cons x xs ih =>
    cases xs with
    | nil => simp [shift]
    | cons y ys =>
      have hs' : Sorted (y :: ys) := (List.pairwise_cons.mp hs).2
      have hlt : x.1 < y.1 := (List.pairwise_cons.mp hs).1 y (by simp)
      have hx := hd x (by simp)
      have hy := hd y (by simp)
      have ih' := ih (fun n hn => hd n (by simp [hn])) hs'
      simp only [shift, List.map_cons] at ih' ⊢
      rw [flat_cons_cons, flat_cons_cons, ih']
      congr 2
      simp; omega

end Fu
