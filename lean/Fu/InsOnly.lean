import Fu.Split
namespace Fu

theorem shift_cons (n : Node) (ns : List Node) (d : Int) :
    shift (n :: ns) d = (((n.1 : Int) + d).toNat, n.2) :: shift ns d := by
  simp [shift]

theorem mem_shift_nat {ns : List Node} {d : Nat} {n : Node} (h : n ∈ shift ns (d : Int)) :
    ∃ m ∈ ns, n = (m.1 + d, m.2) := by
  simp only [shift, List.mem_map] at h
  obtain ⟨m, hm, rfl⟩ := h
  refine ⟨m, hm, ?_⟩
  simp
  omega

theorem sorted_mem_lt {xs : List Node} {a : Node} {ys : List Node} (hs : Sorted (xs ++ a :: ys)) :
    (∀ x ∈ xs, x.1 < a.1) ∧ (∀ y ∈ ys, a.1 < y.1) := by
  have h := List.pairwise_append.mp hs
  refine ⟨fun x hx => h.2.2 x hx a (by simp), fun y hy => ?_⟩
  exact (List.pairwise_cons.mp h.2.1).1 y hy

theorem lastKey_pre_single (pre : List Node) (o : Node) : lastKey (pre ++ [o]) = o.1 := by
  have := lastKey_append_cons pre o []
  simpa using this

/-- the insertion-only path refines the array splice -/
theorem insOnly_flat (pre : List Node) (o : Node) (rest : List Node) (t pos ins : Nat)
    (hs : Sorted (pre ++ o :: rest)) (h0 : headKey (pre ++ o :: rest) = 0)
    (hle : o.1 ≤ pos) (hgt : ∀ n ∈ rest, pos < n.1) (hpos : pos ≤ lastKey (pre ++ o :: rest))
    (hins : 0 < ins) (hend : rest = [] → o.2 ≠ t) :
    flat (insOnly pre o rest t pos ins) = splice (flat (pre ++ o :: rest)) t pos ins 0 := by
  obtain ⟨hpre_lt, hrest_gt⟩ := sorted_mem_lt hs
  have hsrest : Sorted (o :: rest) := sorted_suffix hs
  unfold insOnly splice
  by_cases hlt : o.1 < pos
  · -- case A: the insertion point is strictly inside o's interval
    have hrne : rest ≠ [] := by
      intro he; subst he
      rw [lastKey_pre_single] at hpos; omega
    obtain ⟨b, R, rfl⟩ := List.exists_cons_of_ne_nil hrne
    have hb : pos < b.1 := hgt b (by simp)
    have htake := take_flat pre o b R pos t hs h0 hle (by omega)
    have hdrop := drop_flat pre o b R pos hs h0 hle (by omega)
    have hsb : Sorted (b :: R) := (List.pairwise_cons.mp hsrest).2
    have hshift : flat (shift (b :: R) (ins : Int)) = flat (b :: R) :=
      flat_shift _ _ (by intro n _; omega) hsb
    simp only [Nat.add_zero, hlt, true_or, ↓reduceIte]
    rw [htake, hdrop]
    by_cases hv : o.2 = t
    · -- A2: same value: o's interval simply grows
      subst hv
      simp only [ne_eq, not_true_eq_false, ↓reduceIte]
      rw [show pre ++ [o] ++ shift (b :: R) ↑ins = pre ++ o :: shift (b :: R) ↑ins by simp]
      rw [shift_cons, flat_append pre o, flat_append pre o [(pos, o.2)]]
      rw [flat_cons_cons, flat_cons_cons, ← shift_cons, hshift]
      simp only [flat_single, List.append_nil, List.append_assoc]
      congr 1
      simp only [← List.append_assoc, List.replicate_append_replicate]
      have : ((b.1 : Int) + (ins : Int)).toNat - o.1 = pos - o.1 + (ins + (b.1 - pos)) := by omega
      rw [this]
    · -- A1: split o's interval around the new one
      simp only [ne_eq, hv, not_false_eq_true, ↓reduceIte]
      have e1 : insertNode (pre ++ [o] ++ shift (b :: R) ↑ins) (pos, t) =
          (pre ++ [o]) ++ (pos, t) :: shift (b :: R) ↑ins := by
        apply insertNode_mid
        · intro x hx
          simp at hx
          rcases hx with hx | rfl
          · have := hpre_lt x hx; simp; omega
          · simpa using hlt
        · intro y hy
          obtain ⟨m, hm, rfl⟩ := mem_shift_nat hy
          have : pos < m.1 := hgt m hm
          simp; omega
      rw [e1]
      have e2 : insertNode ((pre ++ [o]) ++ (pos, t) :: shift (b :: R) ↑ins) (pos + ins, o.2) =
          (pre ++ [o, (pos, t)]) ++ (pos + ins, o.2) :: shift (b :: R) ↑ins := by
        rw [show (pre ++ [o]) ++ (pos, t) :: shift (b :: R) ↑ins = (pre ++ [o, (pos, t)]) ++ shift (b :: R) ↑ins by simp]
        apply insertNode_mid
        · intro x hx
          simp at hx
          rcases hx with hx | rfl | rfl
          · have := hpre_lt x hx; simp; omega
          · simp; omega
          · simp; omega
        · intro y hy
          obtain ⟨m, hm, rfl⟩ := mem_shift_nat hy
          have : pos < m.1 := hgt m hm
          simp; omega
      rw [e2]
      rw [show pre ++ [o, (pos, t)] ++ (pos + ins, o.2) :: shift (b :: R) ↑ins =
            pre ++ o :: (pos, t) :: (pos + ins, o.2) :: shift (b :: R) ↑ins by simp]
      rw [flat_append pre o, flat_append pre o [(pos, t)]]
      rw [flat_cons_cons, flat_cons_cons, shift_cons, flat_cons_cons, ← shift_cons, hshift]
      simp only [flat_single, List.append_nil, List.append_assoc, flat_cons_cons]
      congr 3
      · simp
      · congr 1; simp; omega
  · -- case B: the insertion point is the start of o's interval
    have hpo : pos = o.1 := by omega
    subst hpo
    have htake := take_flat_at pre o rest hs h0
    have hdrop := drop_flat_at pre o rest hs h0
    simp only [Nat.add_zero, htake, hdrop, Nat.lt_irrefl, false_or, or_true, and_true]
    by_cases hv : o.2 = t
    · -- B1: same value, not the end sentinel: the interval grows at its start
      subst hv
      have hrne : rest ≠ [] := fun he => hend he rfl
      obtain ⟨b, R, rfl⟩ := List.exists_cons_of_ne_nil hrne
      have hb : o.1 < b.1 := hgt b (by simp)
      have hsb : Sorted (b :: R) := (List.pairwise_cons.mp hsrest).2
      have hshift : flat (shift (b :: R) (ins : Int)) = flat (b :: R) :=
        flat_shift _ _ (by intro n _; omega) hsb
      simp only [↓reduceIte, ne_eq, not_true_eq_false]
      rw [show pre ++ [o] ++ shift (b :: R) ↑ins = pre ++ o :: shift (b :: R) ↑ins by simp]
      rw [shift_cons, flat_append pre o, flat_cons_cons, flat_cons_cons, ← shift_cons, hshift]
      simp only [List.append_assoc]
      congr 1
      simp only [← List.append_assoc, List.replicate_append_replicate]
      have : ((b.1 : Int) + (ins : Int)).toNat - o.1 = ins + (b.1 - o.1) := by omega
      rw [this]
    · -- B2: a new interval is put in front of o
      simp only [hv, ↓reduceIte, ne_eq, not_false_eq_true]
      have e1 : insertNode (pre ++ shift (o :: rest) ↑ins) (o.1, t) =
          pre ++ (o.1, t) :: shift (o :: rest) ↑ins := by
        apply insertNode_mid
        · intro x hx; have := hpre_lt x hx; simpa using this
        · intro y hy
          obtain ⟨m, hm, rfl⟩ := mem_shift_nat hy
          rcases List.mem_cons.mp hm with rfl | hm'
          · simp; omega
          · have := hgt m hm'; simp; omega
      rw [e1]
      have hshift : flat (shift (o :: rest) (ins : Int)) = flat (o :: rest) :=
        flat_shift _ _ (by intro n _; omega) hsrest
      rw [flat_append pre (o.1, t), shift_cons, flat_cons_cons, ← shift_cons, hshift]
      obtain ⟨ok, ov⟩ := o
      rw [flat_last_irrelevant pre ok t ov]
      simp only [List.append_assoc]
      congr 2
      simp; omega

end Fu
