import Fu.Top
namespace Fu

theorem insertNode_sorted (ns : List Node) (n : Node) (hs : Sorted ns) : Sorted (insertNode ns n) := by
  induction ns with
  | nil => simp [insertNode]
  | cons x xs ih =>
    obtain ⟨k, v⟩ := x
    have hs' : Sorted xs := (List.pairwise_cons.mp hs).2
    have hx := (List.pairwise_cons.mp hs).1
    unfold insertNode
    split
    · rename_i hlt
      refine List.pairwise_cons.mpr ⟨?_, hs⟩
      intro y hy
      rcases List.mem_cons.mp hy with rfl | hy
      · exact hlt
      · have := hx y hy; simp at this hlt ⊢; omega
    · split
      · exact hs
      · rename_i h1 h2
        refine List.pairwise_cons.mpr ⟨?_, ih hs'⟩
        intro y hy
        -- y is either n or an element of xs
        have : y = n ∨ y ∈ xs := by
          clear ih hs hs' hx
          induction xs with
          | nil => simp [insertNode] at hy; exact Or.inl hy
          | cons z zs ihz =>
            obtain ⟨kz, vz⟩ := z
            unfold insertNode at hy
            split at hy
            · rcases List.mem_cons.mp hy with rfl | hy
              · exact Or.inl rfl
              · exact Or.inr hy
            · split at hy
              · exact Or.inr hy
              · rcases List.mem_cons.mp hy with rfl | hy
                · exact Or.inr (by simp)
                · rcases ihz hy with h | h
                  · exact Or.inl h
                  · exact Or.inr (by simp [h])
        rcases this with rfl | hy'
        · simp at h1 h2 ⊢; omega
        · exact hx y hy'

theorem sorted_append_of {xs ys : List Node} (hx : Sorted xs) (hy : Sorted ys)
    (h : ∀ a ∈ xs, ∀ b ∈ ys, a.1 < b.1) : Sorted (xs ++ ys) :=
  List.pairwise_append.mpr ⟨hx, hy, h⟩

theorem sorted_shift (ns : List Node) (d : Int) (hs : Sorted ns) (hd : ∀ n ∈ ns, 0 ≤ (n.1 : Int) + d) :
    Sorted (shift ns d) := by
  induction ns with
  | nil => simp [shift]
  | cons x xs ih =>
    have hs' : Sorted xs := (List.pairwise_cons.mp hs).2
    have hx := (List.pairwise_cons.mp hs).1
    rw [shift_cons]
    refine List.pairwise_cons.mpr ⟨?_, ih hs' (fun n hn => hd n (by simp [hn]))⟩
    intro y hy
    simp only [shift, List.mem_map] at hy
    obtain ⟨m, hm, rfl⟩ := hy
    have := hx m hm
    have := hd x (by simp)
    have := hd m (by simp [hm])
    simp; omega


/-- K ++ (shifted tail) is sorted when the shifted tail stays above `bound` and K below it -/
theorem sorted_kept_shift (kept toShift : List Node) (d : Int) (bound : Nat)
    (hk : Sorted kept) (hkb : ∀ n ∈ kept, n.1 < bound)
    (hs : Sorted toShift) (hsb : ∀ n ∈ toShift, (bound : Int) ≤ (n.1 : Int) + d) :
    Sorted (kept ++ shift toShift d) := by
  refine sorted_append_of hk (sorted_shift _ _ hs (fun n hn => by have := hsb n hn; omega)) ?_
  intro a ha b hb
  simp only [shift, List.mem_map] at hb
  obtain ⟨m, hm, rfl⟩ := hb
  have := hkb a ha; have := hsb m hm
  simp; omega

theorem afterLoop_sorted (K : List Node) (it origin : Node) (after : List Node)
    (o po : Node) (em : List (Nat × Nat × Int)) (t pos ins del : Nat)
    (hsK : Sorted K) (hK : ∀ n ∈ K, n.1 < pos) (hsit : Sorted (it :: after))
    (hit : pos + del ≤ it.1) (hdel : 0 < del) :
    Sorted (afterLoop true ⟨K, it, after, origin, em⟩ o po t pos ins del) := by
  have hafter : ∀ n ∈ after, it.1 < n.1 := (List.pairwise_cons.mp hsit).1
  have hsafter : Sorted after := (List.pairwise_cons.mp hsit).2
  have key1 : Sorted (K ++ shift (it :: after) ((ins:Int) - del)) :=
    sorted_kept_shift K (it :: after) _ pos hsK hK hsit (by
      intro n hn
      rcases List.mem_cons.mp hn with rfl | hn
      · omega
      · have := hafter n hn; omega)
  by_cases hins : 0 < ins
  · have hKv : ∀ v, Sorted (K ++ [(pos, v)]) := fun v =>
      sorted_append_of hsK (by simp) (by intro a ha b hb; simp at hb; subst hb; exact hK a ha)
    have hKvb : ∀ v, ∀ n ∈ K ++ [(pos, v)], n.1 < pos + 1 := by
      intro v n hn
      rcases List.mem_append.mp hn with h | h
      · have := hK n h; omega
      · simp at h; subst h; simp
    have key2 : Sorted (K ++ (pos, t) :: shift (it :: after) ((ins:Int) - del)) := by
      have := sorted_kept_shift _ (it :: after) ((ins:Int) - del) (pos + 1) (hKv t) (hKvb t) hsit (by
        intro n hn
        rcases List.mem_cons.mp hn with rfl | hn
        · omega
        · have := hafter n hn; omega)
      simpa using this
    by_cases hcond : origin.2 ≠ t ∨ origin.1 = pos ∨ (o.2 ≠ t ∨ o.1 = pos)
    · by_cases hx1 : it.2 = t ∧ (it.1 : Int) - del = pos
      · have hiteq : it.1 = pos + del := by omega
        have key3 : ∀ v, Sorted (K ++ (pos, v) :: shift after ((ins:Int) - del)) := by
          intro v
          have := sorted_kept_shift _ after ((ins:Int) - del) (pos + 1) (hKv v) (hKvb v) hsafter (by
            intro n hn; have := hafter n hn; omega)
          simpa using this
        have key4 : Sorted (K ++ shift after ((ins:Int) - del)) :=
          sorted_kept_shift K after _ pos hsK hK hsafter (by intro n hn; have := hafter n hn; omega)
        cases hKl : K.getLast? with
        | none =>
          have e : afterLoop true ⟨K, it, after, origin, em⟩ o po t pos ins del =
              (if pos = 0 then insertNode (K ++ (pos, t) :: shift after ((ins:Int) - del)) (pos, t)
               else K ++ (pos, t) :: shift after ((ins:Int) - del)) := by
            unfold afterLoop; simp [hins, hcond, hx1.1, hx1.2, hKl]
          rw [e]; split
          · exact insertNode_sorted _ _ (key3 t)
          · exact key3 t
        | some p =>
          by_cases hpt : p.2 = t
          · have e : afterLoop true ⟨K, it, after, origin, em⟩ o po t pos ins del =
                (if pos = 0 then insertNode (K ++ shift after ((ins:Int) - del)) (pos, t)
                 else K ++ shift after ((ins:Int) - del)) := by
              unfold afterLoop; simp [hins, hcond, hx1.1, hx1.2, hKl, hpt]
            rw [e]; split
            · exact insertNode_sorted _ _ key4
            · exact key4
          · have e : afterLoop true ⟨K, it, after, origin, em⟩ o po t pos ins del =
                (if pos = 0 then insertNode (K ++ (pos, t) :: shift after ((ins:Int) - del)) (pos, t)
                 else K ++ (pos, t) :: shift after ((ins:Int) - del)) := by
              unfold afterLoop; simp [hins, hcond, hx1.1, hx1.2, hKl, hpt]
            rw [e]; split
            · exact insertNode_sorted _ _ (key3 t)
            · exact key3 t
      · have e : afterLoop true ⟨K, it, after, origin, em⟩ o po t pos ins del =
            (if origin.2 ≠ t then insertNode (K ++ (pos, t) :: shift (it :: after) ((ins:Int) - del)) (pos + ins, origin.2)
             else if pos = 0 then insertNode (K ++ (pos, t) :: shift (it :: after) ((ins:Int) - del)) (pos, t)
             else K ++ (pos, t) :: shift (it :: after) ((ins:Int) - del)) := by
          unfold afterLoop
          simp [hins, hcond, hx1]
        rw [e]
        split
        · exact insertNode_sorted _ _ key2
        · split
          · exact insertNode_sorted _ _ key2
          · exact key2
    · have e : afterLoop true ⟨K, it, after, origin, em⟩ o po t pos ins del =
          (if origin.2 ≠ t then insertNode (K ++ shift (it :: after) ((ins:Int) - del)) (pos + ins, origin.2)
           else if pos = 0 then insertNode (K ++ shift (it :: after) ((ins:Int) - del)) (pos, t)
           else K ++ shift (it :: after) ((ins:Int) - del)) := by
        unfold afterLoop
        simp [hins, hcond]
      rw [e]
      split
      · exact insertNode_sorted _ _ key1
      · split
        · exact insertNode_sorted _ _ key1
        · exact key1
  · have hi0 : ins = 0 := by omega
    subst hi0
    rw [afterLoop_del_unfold _ _ _ _ _ _ _ _ _ _ hdel]
    have key1' : Sorted (K ++ shift (it :: after) (-(del : Int))) := by
      have : ((0 : Nat) : Int) - (del : Int) = -(del : Int) := by omega
      rw [this] at key1; exact key1
    split
    · exact insertNode_sorted _ _ key1'
    · exact key1'

end Fu
