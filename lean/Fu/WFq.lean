import Fu.WFp
namespace Fu

def shiftNode (d : Int) (n : Node) : Node := (((n.1 : Int) + d).toNat, n.2)

theorem shift_eq_map (ns : List Node) (d : Int) : shift ns d = ns.map (shiftNode d) := by
  unfold shift shiftNode; rfl

theorem getLast?_append_shift (kept S : List Node) (d : Int) (hS : S ≠ []) :
    (kept ++ shift S d).getLast? = (S.getLast?).map (shiftNode d) := by
  have hne : shift S d ≠ [] := by
    rw [shift_eq_map]; intro h; exact hS (List.map_eq_nil_iff.mp h)
  rw [getLast?_append_of_ne_nil _ _ hne, shift_eq_map, List.getLast?_map]

theorem getLast?_cons_append_shift (kept : List Node) (x : Node) (S : List Node) (d : Int) (hS : S ≠ []) :
    (kept ++ x :: shift S d).getLast? = (S.getLast?).map (shiftNode d) := by
  have := getLast?_append_shift (kept ++ [x]) S d hS
  simpa using this

/-- inserting a key that is not above the last key keeps the last node -/
theorem getLast?_insertNode (ns : List Node) (n l : Node) (hl : ns.getLast? = some l) (h : n.1 ≤ l.1) :
    (insertNode ns n).getLast? = some l := by
  induction ns with
  | nil => simp at hl
  | cons x xs ih =>
    obtain ⟨k, v⟩ := x
    unfold insertNode
    split
    · rw [List.getLast?_cons_cons]; exact hl
    · split
      · exact hl
      · rename_i h1 h2
        cases xs with
        | nil =>
          simp at hl; subst hl
          simp at h h1 h2; omega
        | cons y ys =>
          rw [List.getLast?_cons_cons] at hl
          have := ih hl
          cases hins : insertNode (y :: ys) n with
          | nil =>
            obtain ⟨ky, vy⟩ := y
            unfold insertNode at hins; split at hins <;> (try split at hins) <;> simp at hins
          | cons z zs => rw [List.getLast?_cons_cons, ← hins]; exact this

theorem headKey_insertNode (ns : List Node) (n : Node) (h : headKey ns = 0) (hne : ns ≠ []) :
    headKey (insertNode ns n) = 0 := by
  cases ns with
  | nil => exact absurd rfl hne
  | cons x xs =>
    obtain ⟨k, v⟩ := x
    simp [headKey] at h
    subst h
    unfold insertNode
    split
    · rename_i hlt; simp at hlt
    · split <;> simp [headKey]

theorem headKey_insertNode_zero (ns : List Node) (v : Nat) : headKey (insertNode ns (0, v)) = 0 := by
  cases ns with
  | nil => simp [insertNode, headKey]
  | cons x xs =>
    obtain ⟨k, w⟩ := x
    unfold insertNode
    split
    · simp [headKey]
    · split
      · rename_i h1 h2; simp at h2; simp [headKey, ← h2]
      · rename_i h1 h2; simp at h1 h2; omega

theorem headKey_append_ne (K S : List Node) (hK : K ≠ []) : headKey (K ++ S) = headKey K := by
  cases K with
  | nil => exact absurd rfl hK
  | cons x xs => rfl

end Fu
