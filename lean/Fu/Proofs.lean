import Fu.Basic
namespace Fu

/-- keys strictly increasing -/
def Sorted : List Node → Prop
  | [] => True
  | [_] => True
  | (k, _) :: (k', v') :: rest => k < k' ∧ Sorted ((k', v') :: rest)

theorem flat_cons_cons (k v k' v' : Nat) (rest : List Node) :
    flat ((k, v) :: (k', v') :: rest) = List.replicate (k' - k) v ++ flat ((k', v') :: rest) := by
  simp [flat]

/-- flat splits at any interior node -/
theorem flat_append (xs : List Node) (n : Node) (ys : List Node) :
    flat (xs ++ n :: ys) = flat (xs ++ [n]) ++ flat (n :: ys) := by
  induction xs with
  | nil => cases ys <;> simp [flat]
  | cons x xs ih =>
    cases xs with
    | nil =>
      obtain ⟨k, v⟩ := x; obtain ⟨k', v'⟩ := n
      cases ys <;> simp [flat]
    | cons y xs' =>
      obtain ⟨k, v⟩ := x; obtain ⟨k', v'⟩ := y
      simp only [List.cons_append, flat_cons_cons, List.append_assoc]
      simpa using ih

/-- splitting an interval at an interior point does not change the flattening -/
theorem flat_split (k v p : Nat) (k' v' : Nat) (rest : List Node) (h1 : k ≤ p) (h2 : p ≤ k') :
    flat ((k, v) :: (k', v') :: rest) =
      List.replicate (p - k) v ++ flat ((p, v) :: (k', v') :: rest) := by
  simp only [flat_cons_cons, ← List.append_assoc, List.replicate_append_replicate]
  congr 2; omega

/-- shifting every key by the same amount preserves the flattening -/
theorem flat_shift (ns : List Node) (d : Nat) : flat (shift ns d) = flat ns := by
  induction ns with
  | nil => simp [shift, flat]
  | cons x xs ih =>
    cases xs with
    | nil => obtain ⟨k, v⟩ := x; simp [shift, flat]
    | cons y ys =>
      obtain ⟨k, v⟩ := x; obtain ⟨k', v'⟩ := y
      simp only [shift, List.map_cons] at ih ⊢
      simp only [flat_cons_cons]
      rw [ih]
      congr 2
      omega

end Fu
