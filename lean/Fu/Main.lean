import Fu.AfterDel
namespace Fu

/-- the loop never rejects when the deleted range ends inside the file -/
theorem delLoop_ok (t pos ins del : Nat) (po : Node)
    (pre : List Node) (cur : Node) (rest : List Node) (origin : Node) (emits : List (Nat × Nat × Int))
    (hr : pos + del ≤ lastKey (cur :: rest)) :
    ∃ lo, delLoop t pos ins del po pre cur rest origin emits = .ok lo := by
  induction rest generalizing pre cur origin emits with
  | nil =>
    rw [delLoop]
    simp at hr
    rw [if_neg (by omega)]
    exact ⟨_, rfl⟩
  | cons next more ih =>
    rw [delLoop]
    split
    · exact ⟨_, rfl⟩
    · split
      · exact ⟨_, rfl⟩
      · split
        · exact ih _ _ _ _ (by simpa using hr)
        · exact ih _ _ _ _ (by simpa using hr)

/-- entry of the loop for a pure deletion -/
theorem delLoop_entry_del (t pos del : Nat) (hdel : 0 < del)
    (pre : List Node) (o : Node) (rest : List Node) (em0 : List (Nat × Nat × Int))
    (hs : Sorted (pre ++ o :: rest)) (hle : o.1 ≤ pos) (hgt : ∀ n ∈ rest, pos < n.1)
    (hpre : ∀ n ∈ pre, n.1 < o.1)
    (lo : LoopOut) (h : delLoop t pos 0 del ((pre.getLast?).getD o) pre o rest o em0 = .ok lo) :
    (∃ K Dall, pre ++ o :: rest = K ++ Dall ++ lo.iter :: lo.after ∧ lo.pre = K ∧
      (∀ n ∈ K, n.1 < pos) ∧ (∀ n ∈ Dall, pos ≤ n.1 ∧ n.1 < pos + del) ∧ pos + del ≤ lo.iter.1 ∧
      (K ++ Dall).getLast? = some lo.origin ∧
      (lo.origin.1 = pos → K ≠ [] → K.getLast? = some ((pre.getLast?).getD o))) ∨
    (∃ K Dall x, pre ++ o :: rest = K ++ Dall ++ x :: lo.iter :: lo.after ∧ lo.pre = K ∧
      (∀ n ∈ K, n.1 < pos) ∧ (∀ n ∈ Dall, pos ≤ n.1 ∧ n.1 < pos + del) ∧ x.1 = pos + del ∧
      K ++ Dall ≠ [] ∧ lo.origin = x ∧ ((pre.getLast?).getD o).2 = x.2 ∧
      (K ≠ [] → K.getLast? = some ((pre.getLast?).getD o))) := by
  have hso : Sorted (o :: rest) := sorted_suffix hs
  by_cases hlt : o.1 < pos
  · cases rest with
    | nil =>
      rw [delLoop] at h
      split at h
      · cases h
      · rename_i hh; simp at hh; omega
    | cons next more =>
      have hn : pos < next.1 := hgt next (by simp)
      have hdl : ¬ dlt pos del o next ≤ 0 := by unfold dlt; omega
      rw [delLoop] at h
      rw [if_neg (by intro hc; exact hdl (by omega)), if_neg hdl, if_neg (by omega)] at h
      have hs' : Sorted (next :: more) := (List.pairwise_cons.mp hso).2
      have hDgt : ∀ n ∈ next :: more, pos < n.1 := hgt
      rcases delLoop_ge_del t pos del _ (pre ++ [o]) next more o _ hs' (by omega) lo h with
        ⟨D, hD, hall, hit, hpre', horig, _⟩ | ⟨D, x, hD, hall, hx, hpre', horig, ho, hpo⟩
      · left
        refine ⟨pre ++ [o], D, by rw [hD]; simp, hpre', ?_, hall, hit, ?_, ?_⟩
        · intro n hn'
          rcases List.mem_append.mp hn' with h1 | h1
          · have := hpre n h1; omega
          · simp at h1; subst h1; exact hlt
        · rw [horig]
          cases D with
          | nil => simp
          | cons d ds => simp [List.getLast?_append, List.getLast?_cons]
        · -- the origin cannot start at pos: every deleted node starts after pos, and o before
          intro hop
          exfalso
          rw [horig] at hop
          cases D with
          | nil => simp at hop; omega
          | cons d ds =>
            have hmem : ((d :: ds).getLast?).getD o ∈ d :: ds := by
              have := List.getLast?_eq_some_getLast (l := d :: ds) (by simp)
              rw [this]; simp only [Option.getD_some]; exact List.getLast_mem _
            have : ((d :: ds).getLast?).getD o ∈ next :: more := by
              rw [hD]; exact List.mem_append_left _ hmem
            have := hDgt _ this
            omega
      · -- special case impossible: it needs an origin starting at pos
        exfalso
        cases D with
        | nil => simp at ho; omega
        | cons d ds =>
          have hmem : ((d :: ds).getLast?).getD o ∈ d :: ds := by
            have := List.getLast?_eq_some_getLast (l := d :: ds) (by simp)
            rw [this]; simp only [Option.getD_some]; exact List.getLast_mem _
          have : ((d :: ds).getLast?).getD o ∈ next :: more := by
            rw [hD]; exact List.mem_append_left _ hmem
          have := hDgt _ this
          omega
  · have hpo : o.1 = pos := by omega
    have hKpre : ∀ n ∈ pre, n.1 < pos := fun n hn => by have := hpre n hn; omega
    rcases delLoop_ge_del t pos del _ pre o rest o em0 hso (by omega) lo h with
      ⟨D, hD, hall, hit, hpre', horig, _⟩ | ⟨D, x, hD, hall, hx, hpre', horig, ho, hpox⟩
    · left
      have hDne : D ≠ [] := by
        intro he; subst he
        simp at hD
        rw [← hD.1] at hit; omega
      refine ⟨pre, D, by rw [hD]; simp, hpre', hKpre, hall, hit, ?_, ?_⟩
      · rw [horig]
        obtain ⟨d, ds, rfl⟩ := List.exists_cons_of_ne_nil hDne
        simp [List.getLast?_append, List.getLast?_cons]
      · intro _ hKne
        obtain ⟨K0, p, hp⟩ : ∃ K0 p, pre = K0 ++ [p] :=
          ⟨pre.dropLast, pre.getLast hKne, (List.dropLast_concat_getLast hKne).symm⟩
        rw [hp]; simp
    · right
      have hDne : D ≠ [] := by
        intro he; subst he
        simp at hD
        have hox : o = x := hD.1
        rw [← hox] at hx; omega
      refine ⟨pre, D, x, by rw [hD]; simp, hpre', hKpre, hall, hx, ?_, horig, hpox, ?_⟩
      · intro e
        have := List.append_eq_nil_iff.mp e
        exact hDne this.2
      · intro hKne
        obtain ⟨K0, p, hp⟩ : ∃ K0 p, pre = K0 ++ [p] :=
          ⟨pre.dropLast, pre.getLast hKne, (List.dropLast_concat_getLast hKne).symm⟩
        rw [hp]; simp

end Fu
