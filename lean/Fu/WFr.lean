import Fu.WFq
namespace Fu

/-- head key and last node of what `afterLoop` returns -/
theorem afterLoop_head_last (K : List Node) (it origin : Node) (after : List Node)
    (o po : Node) (em : List (Nat × Nat × Int)) (t pos ins del : Nat) (l : Node)
    (hK : ∀ n ∈ K, n.1 < pos) (hKh : K ≠ [] → headKey K = 0) (hK0 : K = [] → pos = 0)
    (hsit : Sorted (it :: after)) (hl : (it :: after).getLast? = some l)
    (hit : pos + del ≤ it.1) (hend : after = [] → it.2 ≠ t) (hdel : 0 < del) (hole : o.1 ≤ pos) :
    headKey (afterLoop true ⟨K, it, after, origin, em⟩ o po t pos ins del) = 0 ∧
    (afterLoop true ⟨K, it, after, origin, em⟩ o po t pos ins del).getLast? =
      some (shiftNode ((ins : Int) - del) l) := by
  have hafter : ∀ n ∈ after, it.1 < n.1 := (List.pairwise_cons.mp hsit).1
  have hlge : it.1 ≤ l.1 := by
    have : l ∈ it :: after := List.mem_of_getLast? hl
    rcases List.mem_cons.mp this with rfl | h
    · exact Nat.le_refl _
    · exact Nat.le_of_lt (hafter l h)
  -- facts about the four base shapes
  have last1 : (K ++ shift (it :: after) ((ins:Int) - del)).getLast? = some (shiftNode ((ins:Int) - del) l) := by
    rw [getLast?_append_shift _ _ _ (by simp), hl]; rfl
  have last2 : (K ++ (pos, t) :: shift (it :: after) ((ins:Int) - del)).getLast? = some (shiftNode ((ins:Int) - del) l) := by
    rw [getLast?_cons_append_shift _ _ _ _ (by simp), hl]; rfl
  have hshl : ∀ k ≤ pos + ins, k ≤ (shiftNode ((ins:Int) - del) l).1 := by
    intro k hk; unfold shiftNode; simp; omega
  have head2 : headKey (K ++ (pos, t) :: shift (it :: after) ((ins:Int) - del)) = 0 := by
    by_cases hKe : K = []
    · subst hKe; simp [headKey, hK0 rfl]
    · rw [headKey_append_ne _ _ hKe]; exact hKh hKe
  have ins_head_last : ∀ (base : List Node) (n : Node), base ≠ [] → headKey base = 0 →
      base.getLast? = some (shiftNode ((ins:Int) - del) l) → n.1 ≤ pos + ins →
      headKey (insertNode base n) = 0 ∧ (insertNode base n).getLast? = some (shiftNode ((ins:Int) - del) l) :=
    fun base n hne hh hla hn => ⟨headKey_insertNode base n hh hne, getLast?_insertNode base n _ hla (hshl _ hn)⟩
  by_cases hins : 0 < ins
  · by_cases hcond : origin.2 ≠ t ∨ origin.1 = pos ∨ (o.2 ≠ t ∨ o.1 = pos)
    · by_cases hx1 : it.2 = t ∧ (it.1 : Int) - del = pos
      · have hane : after ≠ [] := fun he => hend he hx1.1
        have hl' : after.getLast? = some l := by
          obtain ⟨a1, R1, rfl⟩ := List.exists_cons_of_ne_nil hane
          rw [List.getLast?_cons_cons] at hl; exact hl
        have last3 : (K ++ (pos, t) :: shift after ((ins:Int) - del)).getLast? = some (shiftNode ((ins:Int) - del) l) := by
          rw [getLast?_cons_append_shift _ _ _ _ hane, hl']; rfl
        have head3 : headKey (K ++ (pos, t) :: shift after ((ins:Int) - del)) = 0 := by
          by_cases hKe : K = []
          · subst hKe; simp [headKey, hK0 rfl]
          · rw [headKey_append_ne _ _ hKe]; exact hKh hKe
        cases hKl : K.getLast? with
        | none =>
          have e : afterLoop true ⟨K, it, after, origin, em⟩ o po t pos ins del =
              (if pos = 0 then insertNode (K ++ (pos, t) :: shift after ((ins:Int) - del)) (pos, t)
               else K ++ (pos, t) :: shift after ((ins:Int) - del)) := by
            unfold afterLoop; simp [hins, hcond, hx1.1, hx1.2, hKl]
          rw [e]; split
          · exact ins_head_last _ _ (by simp) head3 last3 (by simp)
          · exact ⟨head3, last3⟩
        | some p =>
          have hKne : K ≠ [] := by intro he; subst he; simp at hKl
          by_cases hpt : p.2 = t
          · have e : afterLoop true ⟨K, it, after, origin, em⟩ o po t pos ins del =
                (if pos = 0 then insertNode (K ++ shift after ((ins:Int) - del)) (pos, t)
                 else K ++ shift after ((ins:Int) - del)) := by
              unfold afterLoop; simp [hins, hcond, hx1.1, hx1.2, hKl, hpt]
            have last4 : (K ++ shift after ((ins:Int) - del)).getLast? = some (shiftNode ((ins:Int) - del) l) := by
              rw [getLast?_append_shift _ _ _ hane, hl']; rfl
            have head4 : headKey (K ++ shift after ((ins:Int) - del)) = 0 := by
              rw [headKey_append_ne _ _ hKne]; exact hKh hKne
            rw [e]; split
            · exact ins_head_last _ _ (by simp [hKne]) head4 last4 (by simp)
            · exact ⟨head4, last4⟩
          · have e : afterLoop true ⟨K, it, after, origin, em⟩ o po t pos ins del =
                (if pos = 0 then insertNode (K ++ (pos, t) :: shift after ((ins:Int) - del)) (pos, t)
                 else K ++ (pos, t) :: shift after ((ins:Int) - del)) := by
              unfold afterLoop; simp [hins, hcond, hx1.1, hx1.2, hKl, hpt]
            rw [e]; split
            · exact ins_head_last _ _ (by simp) head3 last3 (by simp)
            · exact ⟨head3, last3⟩
      · have e : afterLoop true ⟨K, it, after, origin, em⟩ o po t pos ins del =
            (if origin.2 ≠ t then insertNode (K ++ (pos, t) :: shift (it :: after) ((ins:Int) - del)) (pos + ins, origin.2)
             else if pos = 0 then insertNode (K ++ (pos, t) :: shift (it :: after) ((ins:Int) - del)) (pos, t)
             else K ++ (pos, t) :: shift (it :: after) ((ins:Int) - del)) := by
          unfold afterLoop
          simp [hins, hcond, hx1]
        rw [e]
        split
        · exact ins_head_last _ _ (by simp) head2 last2 (by simp)
        · split
          · exact ins_head_last _ _ (by simp) head2 last2 (by simp)
          · exact ⟨head2, last2⟩
    · -- ¬cond forces o.1 < pos, hence K ≠ []
      have hopos : o.1 ≠ pos := fun h => hcond (Or.inr (Or.inr (Or.inr h)))
      have hKne : K ≠ [] := fun he => by have := hK0 he; omega
      have head1 : headKey (K ++ shift (it :: after) ((ins:Int) - del)) = 0 := by
        rw [headKey_append_ne _ _ hKne]; exact hKh hKne
      have e : afterLoop true ⟨K, it, after, origin, em⟩ o po t pos ins del =
          (if origin.2 ≠ t then insertNode (K ++ shift (it :: after) ((ins:Int) - del)) (pos + ins, origin.2)
           else if pos = 0 then insertNode (K ++ shift (it :: after) ((ins:Int) - del)) (pos, t)
           else K ++ shift (it :: after) ((ins:Int) - del)) := by
        unfold afterLoop
        simp [hins, hcond]
      rw [e]
      split
      · exact ins_head_last _ _ (by simp [hKne]) head1 last1 (by simp)
      · split
        · exact ins_head_last _ _ (by simp [hKne]) head1 last1 (by simp)
        · exact ⟨head1, last1⟩
  · have hi0 : ins = 0 := by omega
    subst hi0
    rw [afterLoop_del_unfold _ _ _ _ _ _ _ _ _ _ hdel]
    have hd : ((0 : Nat) : Int) - (del : Int) = -(del : Int) := by omega
    rw [hd] at last1 ⊢
    split
    · rename_i hc
      refine ⟨?_, getLast?_insertNode _ _ _ last1 (by have := hshl pos (by omega); rw [hd] at this; exact this)⟩
      by_cases hKe : K = []
      · have hp0 := hK0 hKe
        subst hp0
        exact headKey_insertNode_zero _ _
      · exact headKey_insertNode _ _ (by rw [headKey_append_ne _ _ hKe]; exact hKh hKe) (by simp [hKe])
    · rename_i hc
      have hp0 : pos ≠ 0 := fun h => hc (Or.inr (Or.inr h))
      have hKne : K ≠ [] := fun he => hp0 (hK0 he)
      exact ⟨by rw [headKey_append_ne _ _ hKne]; exact hKh hKne, last1⟩

end Fu
