import Fu.Deltas
namespace Fu

theorem innerNoMark_suffix (xs : List Node) (a : Node) (ys : List Node) (h : InnerNoMark (xs ++ a :: ys)) :
    InnerNoMark (a :: ys) := by
  induction xs with
  | nil => exact h
  | cons x xs ih =>
    cases xs with
    | nil => exact h.2
    | cons y zs => exact ih h.2

theorem count_split (a : List Nat) (v pos del : Nat) :
    List.count v a = List.count v (a.take pos) + List.count v ((a.drop pos).take del) +
      List.count v (a.drop (pos + del)) := by
  conv => lhs; rw [← List.take_append_drop pos a]
  rw [List.count_append]
  conv => lhs; arg 2; rw [← List.take_append_drop del (a.drop pos)]
  rw [List.count_append, List.drop_drop]
  omega

/-- **C03-T3 (repaired code)**: the deltas reported to the observers keep a histogram that equals
    the histogram of the array: for every value `v`, the count changes by the sum of the deltas whose
    "previous" value is `v`. -/
theorem update_deltas (ns : List Node) (t pos ins del : Nat) (hwf : WF2 ns) (ht : t < END) (hmt : NoMark t)
    (hnm : InnerNoMark ns) (hr : pos + del ≤ lastKey ns) (hnz : ¬ (ins = 0 ∧ del = 0))
    (ns' : List Node) (em : List (Nat × Nat × Int)) (hup : update true ns t pos ins del = .ok (ns', em)) (v : Nat) :
    (List.count v (flat ns') : Int) = List.count v (flat ns) + emSum em v := by
  obtain ⟨ns2, em2, hup2, hflat, _, _⟩ := update_ok ns t pos ins del hwf ht hr hnz
  rw [hup] at hup2
  simp only [Res.ok.injEq, Prod.mk.injEq] at hup2
  obtain ⟨rfl, rfl⟩ := hup2
  obtain ⟨hs, h0, last, hlast, hlastE⟩ := hwf
  have hne : ns ≠ [] := by intro e; subst e; simp at hlast
  have hlk := lastKey_of_getLast? hlast
  obtain ⟨hsplit, hle_all, hgt⟩ := splitLE_spec ns pos hs
  have hlene : (splitLE ns pos).1 ≠ [] := by
    intro he
    rw [he, List.nil_append] at hsplit
    obtain ⟨n0, tl, hn0⟩ := List.exists_cons_of_ne_nil hne
    have : n0.1 = 0 := by rw [hn0] at h0; simpa [headKey] using h0
    have := hgt n0 (by rw [← hsplit, hn0]; simp)
    omega
  obtain ⟨o, ho⟩ : ∃ o, (splitLE ns pos).1.getLast? = some o :=
    ⟨_, List.getLast?_eq_some_getLast hlene⟩
  have hle_eq : (splitLE ns pos).1 = (splitLE ns pos).1.dropLast ++ [o] := by
    have := (List.dropLast_concat_getLast hlene).symm
    rw [List.getLast?_eq_some_getLast hlene] at ho
    simp at ho; rw [← ho]; exact this
  generalize hpre_def : (splitLE ns pos).1.dropLast = pre at hle_eq
  generalize hrest_def : (splitLE ns pos).2 = rest at hsplit hgt
  have hns : ns = pre ++ o :: rest := by rw [hsplit, hle_eq]; simp
  have hole : o.1 ≤ pos := hle_all o (by rw [hle_eq]; simp)
  have hs' : Sorted (pre ++ o :: rest) := hns ▸ hs
  have h0' : headKey (pre ++ o :: rest) = 0 := hns ▸ h0
  -- the array side
  rw [hflat, splice_eq, List.count_append, List.count_append, List.count_replicate,
    count_split (flat ns) v pos del]
  -- the reported side
  have hem0 : emSum (if ins > 0 then emit t t ins else []) v = if t = v then (ins : Int) else 0 := by
    by_cases hi : ins > 0
    · simp only [hi, ↓reduceIte]; exact emSum_emit t t ins v hmt hmt
    · have : ins = 0 := by omega
      subst this; simp [emSum]
  unfold update at hup
  rw [if_neg hnz, hlast] at hup
  simp only at hup
  rw [if_neg (by omega), ho] at hup
  simp only [hpre_def, hrest_def] at hup
  by_cases hd0 : del = 0
  · subst hd0
    rw [if_pos rfl] at hup
    simp only [Res.ok.injEq, Prod.mk.injEq] at hup
    obtain ⟨_, rfl⟩ := hup
    rw [hem0]
    simp only [Nat.add_zero, List.take_zero, List.count_nil]
    by_cases htv : t = v
    · simp only [htv, beq_self_eq_true, ↓reduceIte]; push_cast; omega
    · have : (t == v) = false := by simpa using htv
      simp only [htv, this, ↓reduceIte]; push_cast; omega
  · rw [if_neg hd0] at hup
    cases hlo : delLoop t pos ins del ((pre.getLast?).getD o) pre o rest o (if ins > 0 then emit t t ins else []) with
    | reject m => rw [hlo] at hup; cases hup
    | ok lo =>
      rw [hlo] at hup
      simp only [Res.ok.injEq, Prod.mk.injEq] at hup
      obtain ⟨_, rfl⟩ := hup
      have hso : Sorted (o :: rest) := sorted_suffix hs'
      have := delLoop_emits t pos ins del _ hmt pre o rest o _ hso hgt
        (innerNoMark_suffix pre o rest (hns ▸ hnm)) lo hlo v
      rw [this, hem0]
      -- the deleted segment of the whole file is the segment of `o :: rest`
      have hseg : seg pos del o rest = ((flat ns).drop pos).take del := by
        unfold seg
        have hmx : max o.1 pos = pos := by omega
        rw [hmx, hns, flat_append pre o rest]
        have hlen := length_flat_prefix pre o (sorted_prefix hs') (by rw [← headKey_prefix pre o rest]; exact h0')
        rw [List.drop_append, hlen]
        have : List.drop pos (flat (pre ++ [o])) = [] := by
          apply List.drop_eq_nil_of_le; omega
        rw [this, List.nil_append]
        congr 1
        omega
      rw [hseg]
      by_cases htv : t = v
      · simp only [htv, beq_self_eq_true, ↓reduceIte]; push_cast; omega
      · have : (t == v) = false := by simpa using htv
        simp only [htv, this, ↓reduceIte]; push_cast; omega

end Fu
