import Fu.Top2
namespace Fu

structure Op where
  t : Nat
  pos : Nat
  ins : Nat
  del : Nat

/-- the guards of `File.Update` that concern the arguments, phrased on the array -/
def Op.valid (op : Op) (len : Nat) : Prop :=
  op.t < END ∧ op.pos + op.del ≤ len

def spliceOps : List Nat → List Op → List Nat
  | a, [] => a
  | a, op :: ops => spliceOps (if op.ins = 0 ∧ op.del = 0 then a else splice a op.t op.pos op.ins op.del) ops

def allValid : List Nat → List Op → Prop
  | _, [] => True
  | a, op :: ops => op.valid a.length ∧
      allValid (if op.ins = 0 ∧ op.del = 0 then a else splice a op.t op.pos op.ins op.del) ops

def applyOps : List Node → List Op → Option (List Node)
  | ns, [] => some ns
  | ns, op :: ops =>
    match update true ns op.t op.pos op.ins op.del with
    | .ok (ns', _) => applyOps ns' ops
    | .reject _ => none

theorem length_flat_wf {ns : List Node} (h : WF2 ns) : (flat ns).length = lastKey ns := by
  obtain ⟨hs, h0, l, hl, _⟩ := h
  cases ns with
  | nil => simp at hl
  | cons n rest =>
    rw [length_flat n rest hs]
    simp [headKey] at h0
    omega

/-- **C03 for operation sequences (repaired code)**: for every well-formed file and every sequence of
    accepted operations, the tracker's flattened content equals the plain array on which the same
    edits are performed, and the invariant holds after every step. -/
theorem updates_refine (ops : List Op) : ∀ (ns : List Node), WF2 ns → allValid (flat ns) ops →
    ∃ ns', applyOps ns ops = some ns' ∧ flat ns' = spliceOps (flat ns) ops ∧ WF2 ns' := by
  induction ops with
  | nil => intro ns hwf _; exact ⟨ns, rfl, rfl, hwf⟩
  | cons op ops ih =>
    intro ns hwf hv
    obtain ⟨⟨ht, hr⟩, hrest⟩ := hv
    rw [length_flat_wf hwf] at hr
    by_cases hz : op.ins = 0 ∧ op.del = 0
    · -- Update returns immediately
      have hup : update true ns op.t op.pos op.ins op.del = .ok (ns, []) := by
        unfold update; rw [if_pos hz]
      simp only [hz, and_self, ↓reduceIte] at hrest
      obtain ⟨ns', h1, h2, h3⟩ := ih ns hwf hrest
      refine ⟨ns', ?_, ?_, h3⟩
      · simp only [applyOps, hup]; exact h1
      · simp only [spliceOps, hz, and_self, ↓reduceIte]; exact h2
    · obtain ⟨ns1, em, hup, hflat, hwf1, _⟩ := update_ok ns op.t op.pos op.ins op.del hwf ht hr hz
      simp only [hz, ↓reduceIte] at hrest
      rw [← hflat] at hrest
      obtain ⟨ns', h1, h2, h3⟩ := ih ns1 hwf1 hrest
      refine ⟨ns', ?_, ?_, h3⟩
      · simp only [applyOps, hup]; exact h1
      · simp only [spliceOps, hz, ↓reduceIte]; rw [← hflat]; exact h2

/-- a freshly created file is well-formed and flattens to `len` copies of `t` -/
theorem newFile_wf (t len : Nat) : WF2 (newFile t len) ∧ flat (newFile t len) = List.replicate len t := by
  unfold newFile
  by_cases h : len > 0
  · simp only [h, ↓reduceIte]
    refine ⟨⟨by simp [Sorted]; omega, rfl, ⟨(len, END), by simp, rfl⟩⟩, by simp [flat_cons_cons]⟩
  · have : len = 0 := by omega
    subst this
    simp only [Nat.lt_irrefl, ↓reduceIte]
    exact ⟨⟨by simp [Sorted], rfl, ⟨(0, END), by simp, rfl⟩⟩, by simp⟩

end Fu
