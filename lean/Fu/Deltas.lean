import Fu.Guards
namespace Fu

/-- sum of the reported deltas whose "previous" value is `v` -/
def emSum (em : List (Nat × Nat × Int)) (v : Nat) : Int :=
  em.foldl (fun acc e => if e.2.1 = v then acc + e.2.2 else acc) 0

def NoMark (v : Nat) : Prop := v % (MARK + 1) ≠ MARK

theorem emSum_foldl (em : List (Nat × Nat × Int)) (v : Nat) (a : Int) :
    em.foldl (fun acc e => if e.2.1 = v then acc + e.2.2 else acc) a = a + emSum em v := by
  induction em generalizing a with
  | nil => simp [emSum]
  | cons e es ih =>
    simp only [emSum, List.foldl_cons]
    rw [ih, ih (if e.2.1 = v then 0 + e.2.2 else 0)]
    split <;> omega

theorem emSum_append (a b : List (Nat × Nat × Int)) (v : Nat) : emSum (a ++ b) v = emSum a v + emSum b v := by
  unfold emSum
  rw [List.foldl_append, emSum_foldl]
  rfl

theorem emSum_emit (t p : Nat) (d : Int) (v : Nat) (ht : NoMark t) (hp : NoMark p) :
    emSum (emit t p d) v = if p = v then d else 0 := by
  unfold emit NoMark at *
  simp only [hp, ht, ↓reduceIte]
  simp [emSum]

/-- the part of the flattened list `cur :: rest` (which starts at line `cur.key`) that lies in the
    deleted range `[pos, pos+del)` -/
def seg (pos del : Nat) (cur : Node) (rest : List Node) : List Nat :=
  ((flat (cur :: rest)).drop (max cur.1 pos - cur.1)).take (pos + del - max cur.1 pos)

/-- values of all nodes that have a successor are real (no merge mark, in particular not TreeEnd) -/
def InnerNoMark : List Node → Prop
  | [] => True
  | [_] => True
  | a :: b :: r => NoMark a.2 ∧ InnerNoMark (b :: r)

theorem seg_step (pos del : Nat) (cur next : Node) (more : List Node)
    (hlt : cur.1 < next.1) (hpn : pos < next.1) (hd : 0 < dlt pos del cur next) :
    seg pos del cur (next :: more) =
      List.replicate (dlt pos del cur next).toNat cur.2 ++ seg pos del next more := by
  unfold seg dlt at *
  rw [flat_cons_cons]
  have hmx : max next.1 pos = next.1 := by omega
  rw [hmx, Nat.sub_self, List.drop_zero]
  rw [List.drop_append, List.drop_replicate, List.length_replicate]
  rw [List.take_append, List.take_replicate, List.length_replicate]
  have h1 : max cur.1 pos - cur.1 - (next.1 - cur.1) = 0 := by omega
  rw [h1, List.drop_zero]
  congr 1
  · congr 1; omega
  · congr 1; omega

theorem seg_stop (pos del : Nat) (cur : Node) (rest : List Node)
    (h : pos + del ≤ max cur.1 pos) : seg pos del cur rest = [] := by
  unfold seg
  have : pos + del - max cur.1 pos = 0 := by omega
  rw [this]; simp

/-- the deltas reported by the delete loop are exactly the deleted lines, per value -/
theorem delLoop_emits (t pos ins del : Nat) (po : Node) (ht : NoMark t)
    (pre : List Node) (cur : Node) (rest : List Node) (origin : Node) (emits : List (Nat × Nat × Int))
    (hs : Sorted (cur :: rest)) (hgt : ∀ n ∈ rest, pos < n.1) (hnm : InnerNoMark (cur :: rest))
    (lo : LoopOut) (h : delLoop t pos ins del po pre cur rest origin emits = .ok lo) (v : Nat) :
    emSum lo.emits v = emSum emits v - (List.count v (seg pos del cur rest) : Int) := by
  induction rest generalizing pre cur origin emits with
  | nil =>
    rw [delLoop] at h
    split at h
    · cases h
    · cases h
      rename_i hh
      rw [seg_stop pos del cur [] (by omega)]
      simp
  | cons next more ih =>
    have hs' : Sorted (next :: more) := (List.pairwise_cons.mp hs).2
    have hlt : cur.1 < next.1 := (List.pairwise_cons.mp hs).1 next (by simp)
    have hpn : pos < next.1 := hgt next (by simp)
    rw [delLoop] at h
    by_cases hc1 : dlt pos del cur next = 0 ∧ ins = 0 ∧ origin.1 = pos ∧ po.2 = cur.2
    · rw [if_pos hc1] at h; cases h
      have hd := hc1.1
      rw [seg_stop pos del cur _ (by unfold dlt at hd; omega)]
      simp
    · rw [if_neg hc1] at h
      by_cases hc2 : dlt pos del cur next ≤ 0
      · rw [if_pos hc2] at h; cases h
        rw [seg_stop pos del cur _ (by unfold dlt at hc2; omega)]
        simp
      · rw [if_neg hc2] at h
        have hd : 0 < dlt pos del cur next := by omega
        have hcm : NoMark cur.2 := hnm.1
        have hrec : ∀ pre' origin', delLoop t pos ins del po pre' next more origin'
            (emits ++ emit t cur.2 (-(dlt pos del cur next))) = .ok lo →
            emSum lo.emits v = emSum emits v - (List.count v (seg pos del cur (next :: more)) : Int) := by
          intro pre' origin' h'
          have := ih pre' next origin' _ hs' (fun n hn => hgt n (by simp [hn])) hnm.2 h'
          rw [this, emSum_append, emSum_emit t cur.2 _ v ht hcm, seg_step pos del cur next more hlt hpn hd]
          rw [List.count_append, List.count_replicate]
          by_cases hv : cur.2 = v
          · simp [hv]; omega
          · simp [hv]
        split at h
        · exact hrec _ _ h
        · exact hrec _ _ h

end Fu
