import Fu.InsOnly
namespace Fu

theorem getLast?_eq_some_iff_append {α} {l : List α} {a : α} (h : l.getLast? = some a) :
    ∃ X, l = X ++ [a] := by
  induction l with
  | nil => simp at h
  | cons x xs ih =>
    cases xs with
    | nil => simp at h; subst h; exact ⟨[], rfl⟩
    | cons y ys =>
      rw [List.getLast?_cons_cons] at h
      obtain ⟨X, hX⟩ := ih h
      exact ⟨x :: X, by rw [hX]; rfl⟩

/-- lines before `pos` depend only on the kept prefix `K` -/
theorem take_pos (K Dall : List Node) (it : Node) (after : List Node) (pos del x : Nat)
    (hs : Sorted (K ++ Dall ++ it :: after)) (h0 : headKey (K ++ Dall ++ it :: after) = 0)
    (hK : ∀ n ∈ K, n.1 < pos) (hD : ∀ n ∈ Dall, pos ≤ n.1 ∧ n.1 < pos + del)
    (hit : pos + del ≤ it.1) (hne : K ++ Dall ≠ []) :
    (flat (K ++ Dall ++ it :: after)).take pos = flat (K ++ [(pos, x)]) := by
  by_cases hKe : K = []
  · -- no node before pos: pos = 0
    subst hKe
    cases Dall with
    | nil => simp at hne
    | cons d ds =>
      have : d.1 = 0 := by simpa [headKey] using h0
      have := (hD d (by simp)).1
      have hp : pos = 0 := by omega
      subst hp; simp
  obtain ⟨K0, a, rfl⟩ : ∃ K0 a, K = K0 ++ [a] :=
    ⟨K.dropLast, K.getLast hKe, (List.dropLast_concat_getLast hKe).symm⟩
  · obtain ⟨b, R, hb⟩ : ∃ b R, Dall ++ it :: after = b :: R := by
      cases Dall with
      | nil => exact ⟨it, after, rfl⟩
      | cons d ds => exact ⟨d, ds ++ it :: after, rfl⟩
    have hbpos : pos ≤ b.1 := by
      cases Dall with
      | nil => simp at hb; obtain ⟨rfl, _⟩ := hb; omega
      | cons d ds => simp at hb; obtain ⟨rfl, _⟩ := hb; exact (hD _ (by simp)).1
    have ha : a.1 < pos := hK a (by simp)
    have e : K0 ++ [a] ++ Dall ++ it :: after = K0 ++ a :: b :: R := by
      rw [List.append_assoc, List.append_assoc, hb]; simp
    rw [e] at hs h0 ⊢
    rw [take_flat K0 a b R pos x hs h0 (by omega) hbpos]
    simp

/-- lines from `pos + del` on: the continuation of the node before `it`, then `it :: after` -/
theorem drop_posdel (K Dall : List Node) (it origin : Node) (after : List Node) (pos del : Nat)
    (hs : Sorted (K ++ Dall ++ it :: after)) (h0 : headKey (K ++ Dall ++ it :: after) = 0)
    (hK : ∀ n ∈ K, n.1 < pos) (hD : ∀ n ∈ Dall, pos ≤ n.1 ∧ n.1 < pos + del)
    (hit : pos + del ≤ it.1) (hlast : (K ++ Dall).getLast? = some origin) :
    (flat (K ++ Dall ++ it :: after)).drop (pos + del) =
      List.replicate (it.1 - (pos + del)) origin.2 ++ flat (it :: after) := by
  obtain ⟨X, hX⟩ := getLast?_eq_some_iff_append hlast
  have hmem : origin ∈ K ++ Dall := by rw [hX]; simp
  have ho : origin.1 ≤ pos + del := by
    rcases List.mem_append.mp hmem with h | h
    · have := hK _ h; omega
    · have := (hD _ h).2; omega
  have e : K ++ Dall ++ it :: after = X ++ origin :: it :: after := by rw [hX]; simp
  rw [e] at hs h0 ⊢
  exact drop_flat X origin it after (pos + del) hs h0 ho hit

end Fu
