import Fu.Entry
namespace Fu

/-- Outcome of the delete loop for a pure deletion (`ins = 0`), started at a node with key ≥ pos.
    Either the normal stop, or the "zero-delta merge" special case which also removes the node
    `x` that starts exactly where the deletion ends. -/
theorem delLoop_ge_del (t pos del : Nat) (po : Node)
    (pre : List Node) (cur : Node) (rest : List Node) (origin : Node) (emits : List (Nat × Nat × Int))
    (hs : Sorted (cur :: rest)) (hcur : pos ≤ cur.1) (lo : LoopOut)
    (h : delLoop t pos 0 del po pre cur rest origin emits = .ok lo) :
    (∃ D, cur :: rest = D ++ lo.iter :: lo.after ∧ (∀ n ∈ D, pos ≤ n.1 ∧ n.1 < pos + del) ∧
        pos + del ≤ lo.iter.1 ∧ lo.pre = pre ∧ lo.origin = (D.getLast?).getD origin ∧
        ¬ (lo.after ≠ [] ∧ lo.iter.1 = pos + del ∧ ((D.getLast?).getD origin).1 = pos ∧ po.2 = lo.iter.2)) ∨
    (∃ D x, cur :: rest = D ++ x :: lo.iter :: lo.after ∧ (∀ n ∈ D, pos ≤ n.1 ∧ n.1 < pos + del) ∧
        x.1 = pos + del ∧ lo.pre = pre ∧ lo.origin = x ∧
        ((D.getLast?).getD origin).1 = pos ∧ po.2 = x.2) := by
  induction rest generalizing pre cur origin emits with
  | nil =>
    rw [delLoop] at h
    split at h
    · cases h
    · cases h
      left
      refine ⟨[], by simp, by simp, by simpa using (Nat.le_of_not_gt ‹_›), rfl, by simp, by simp⟩
  | cons next more ih =>
    have hs' : Sorted (next :: more) := (List.pairwise_cons.mp hs).2
    have hlt : cur.1 < next.1 := (List.pairwise_cons.mp hs).1 next (by simp)
    rw [delLoop] at h
    by_cases hc1 : dlt pos del cur next = 0 ∧ 0 = 0 ∧ origin.1 = pos ∧ po.2 = cur.2
    · rw [if_pos hc1] at h
      cases h
      right
      refine ⟨[], cur, by simp, by simp, ?_, rfl, rfl, by simpa using hc1.2.2.1, hc1.2.2.2⟩
      have := hc1.1; unfold dlt at this; omega
    · rw [if_neg hc1] at h
      by_cases hc2 : dlt pos del cur next ≤ 0
      · rw [if_pos hc2] at h
        cases h
        left
        have hge : pos + del ≤ cur.1 := by unfold dlt at hc2; omega
        refine ⟨[], by simp, by simp, hge, rfl, by simp, ?_⟩
        simp only [List.getLast?_nil, Option.getD_none]
        intro hh
        apply hc1
        refine ⟨?_, rfl, hh.2.2.1, hh.2.2.2⟩
        unfold dlt; have := hh.2.1; omega
      · rw [if_neg hc2, if_pos (show cur.1 ≥ pos from hcur)] at h
        have hcd : cur.1 < pos + del := by unfold dlt at hc2; omega
        rcases ih pre next cur _ hs' (by omega) h with ⟨D, hD, hall, hit, hpre, horig, hns⟩ | ⟨D, x, hD, hall, hx, hpre, horig, ho, hpo⟩
        · left
          refine ⟨cur :: D, by simp [hD], ?_, hit, hpre, ?_, ?_⟩
          · intro n hn
            rcases List.mem_cons.mp hn with rfl | hn
            · exact ⟨hcur, hcd⟩
            · exact hall n hn
          · rw [horig]; cases D <;> simp [List.getLast?_cons]
          · have : ((cur :: D).getLast?).getD origin = (D.getLast?).getD cur := by
              cases D <;> simp [List.getLast?_cons]
            rw [this]; exact hns
        · right
          refine ⟨cur :: D, x, by simp [hD], ?_, hx, hpre, horig, ?_, hpo⟩
          · intro n hn
            rcases List.mem_cons.mp hn with rfl | hn
            · exact ⟨hcur, hcd⟩
            · exact hall n hn
          · have : ((cur :: D).getLast?).getD origin = (D.getLast?).getD cur := by
              cases D <;> simp [List.getLast?_cons]
            rw [this]; exact ho

end Fu
