import Fu.History2
namespace Fu

theorem runCommits_cur (cs : List Commit) : ∀ (ns ns' : List Node) (em : List (Nat × Nat × Int)),
    runCommits ns cs = some (ns', em) → ∀ e ∈ em, ∃ c ∈ cs, e.1 = c.tick := by
  induction cs with
  | nil => intro ns ns' em h; simp [runCommits] at h; obtain ⟨_, rfl⟩ := h; simp
  | cons c cs ih =>
    intro ns ns' em h
    simp only [runCommits] at h
    cases h1 : runOps ns c.tick c.ops with
    | none => rw [h1] at h; cases h
    | some r =>
      obtain ⟨n1, e1⟩ := r
      rw [h1] at h
      simp only at h
      cases h2 : runCommits n1 cs with
      | none => rw [h2] at h; cases h
      | some r2 =>
        obtain ⟨n2, e2⟩ := r2
        rw [h2] at h
        simp at h
        obtain ⟨_, rfl⟩ := h
        intro e he
        rcases List.mem_append.mp he with he | he
        · exact ⟨c, by simp, runOps_cur _ _ _ _ _ h1 e he⟩
        · obtain ⟨c', hc', e'⟩ := ih _ _ _ h2 e he
          exact ⟨c', by simp [hc'], e'⟩

theorem emSumUpTo_append (T : Nat) (a b : List (Nat × Nat × Int)) (v : Nat) :
    emSumUpTo T (a ++ b) v = emSumUpTo T a v + emSumUpTo T b v := by
  unfold emSumUpTo; rw [List.filter_append, emSum_append]

theorem emSumUpTo_all (T : Nat) (a : List (Nat × Nat × Int)) (v : Nat) (h : ∀ e ∈ a, e.1 ≤ T) :
    emSumUpTo T a v = emSum a v := by
  unfold emSumUpTo
  rw [List.filter_eq_self.mpr (by intro e he; simpa using h e he)]

theorem emSumUpTo_none (T : Nat) (a : List (Nat × Nat × Int)) (v : Nat) (h : ∀ e ∈ a, T < e.1) :
    emSumUpTo T a v = 0 := by
  unfold emSumUpTo
  rw [List.filter_eq_nil_iff.mpr (by intro e he; have := h e he; simp; omega)]
  rfl

/-- **C01 (sample rows, one file, linear history)**: with ticks that never decrease, the deltas
    reported up to tick `T` account exactly for the lines of the array as it stands after the last
    commit whose tick is ≤ `T` — for every birth tick `v`, hence for every age band. -/
theorem sampled_row (cs : List Commit) : ∀ (ns : List Node), Good ns → commitsValid (flat ns) cs →
    cs.Pairwise (fun a b => a.tick ≤ b.tick) →
    ∀ (ns' : List Node) (em : List (Nat × Nat × Int)), runCommits ns cs = some (ns', em) →
    ∀ (T v : Nat), (List.count v (arrCommits (flat ns) (cs.takeWhile fun c => c.tick ≤ T)) : Int) =
      List.count v (flat ns) + emSumUpTo T em v := by
  induction cs with
  | nil =>
    intro ns _ _ _ ns' em h T v
    simp [runCommits] at h; obtain ⟨_, rfl⟩ := h
    simp [arrCommits, emSumUpTo, emSum]
  | cons c cs ih =>
    intro ns hg hv hsorted ns' em h T v
    obtain ⟨ht, hmt, hops, hrest⟩ := hv
    obtain ⟨ns1, em1, h1, hg1, hf1, hd1⟩ := runOps_spec c.ops ns c.tick hg ht hmt hops
    simp only [runCommits, h1] at h
    cases h2 : runCommits ns1 cs with
    | none => rw [h2] at h; cases h
    | some r2 =>
      obtain ⟨n2, e2⟩ := r2
      rw [h2] at h
      simp at h
      obtain ⟨_, rfl⟩ := h
      rw [emSumUpTo_append]
      by_cases hc : c.tick ≤ T
      · rw [List.takeWhile_cons_of_pos (by simpa using hc)]
        simp only [arrCommits]
        rw [← hf1]
        rw [ih ns1 hg1 (hf1 ▸ hrest) (List.pairwise_cons.mp hsorted).2 n2 e2 h2 T v]
        rw [emSumUpTo_all T em1 v (fun e he => by rw [runOps_cur _ _ _ _ _ h1 e he]; exact hc)]
        rw [hd1 v]; omega
      · rw [List.takeWhile_cons_of_neg (by simpa using hc)]
        simp only [arrCommits]
        rw [emSumUpTo_none T em1 v (fun e he => by rw [runOps_cur _ _ _ _ _ h1 e he]; omega)]
        rw [emSumUpTo_none T e2 v (by
          intro e he
          obtain ⟨c', hc', e'⟩ := runCommits_cur cs _ _ _ h2 e he
          have := (List.pairwise_cons.mp hsorted).1 c' hc'
          omega)]
        omega

end Fu
