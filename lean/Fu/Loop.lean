import Fu.Flat
namespace Fu

/-- Specification of the delete loop when the current node starts at or after `pos`
    (every node visited from here on is wholly inside the deletion or ends it), `ins > 0`. -/
theorem delLoop_ge_ins (t pos ins del : Nat) (prevOrigin : Node) (hins : 0 < ins)
    (pre : List Node) (cur : Node) (rest : List Node) (origin : Node) (emits : List (Nat × Nat × Int))
    (hs : Sorted (cur :: rest)) (hcur : pos ≤ cur.1) (lo : LoopOut)
    (h : delLoop t pos ins del prevOrigin pre cur rest origin emits = .ok lo) :
    ∃ D, cur :: rest = D ++ lo.iter :: lo.after ∧ (∀ n ∈ D, pos ≤ n.1 ∧ n.1 < pos + del) ∧
      pos + del ≤ lo.iter.1 ∧ lo.pre = pre ∧ lo.origin = (D.getLast?).getD origin := by
  induction rest generalizing pre cur origin emits with
  | nil =>
    rw [delLoop] at h
    split at h
    · cases h
    · cases h
      refine ⟨[], by simp, by simp, by simpa using (Nat.le_of_not_gt ‹_›), rfl, by simp⟩
  | cons next more ih =>
    have hs' : Sorted (next :: more) := (List.pairwise_cons.mp hs).2
    have hlt : cur.1 < next.1 := (List.pairwise_cons.mp hs).1 next (by simp)
    rw [delLoop] at h
    by_cases hc1 : dlt pos del cur next = 0 ∧ ins = 0 ∧ origin.1 = pos ∧ prevOrigin.2 = cur.2
    · omega
    · rw [if_neg hc1] at h
      by_cases hc2 : dlt pos del cur next ≤ 0
      · rw [if_pos hc2] at h
        cases h
        refine ⟨[], by simp, by simp, ?_, rfl, by simp⟩
        show pos + del ≤ cur.1
        unfold dlt at hc2; omega
      · rw [if_neg hc2, if_pos (show cur.1 ≥ pos from hcur)] at h
        obtain ⟨D, hD, hall, hit, hpre, horig⟩ := ih pre next cur _ hs' (by omega) h
        refine ⟨cur :: D, by simp [hD], ?_, hit, hpre, ?_⟩
        · intro n hn
          rcases List.mem_cons.mp hn with rfl | hn
          · refine ⟨hcur, ?_⟩
            unfold dlt at hc2; omega
          · exact hall n hn
        · rw [horig]
          cases D with
          | nil => simp
          | cons d ds =>
            simp [List.getLast?_cons]

end Fu
