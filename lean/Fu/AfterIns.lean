import Fu.Around
namespace Fu


theorem flat_new_then_shift (K : List Node) (pos t : Nat) (it : Node) (after : List Node) (d : Int)
    (hshift : flat (shift (it :: after) d) = flat (it :: after)) :
    flat (K ++ (pos, t) :: shift (it :: after) d) =
      flat (K ++ [(pos, t)]) ++ (List.replicate (((it.1 : Int) + d).toNat - pos) t ++ flat (it :: after)) := by
  rw [flat_append K (pos, t), shift_cons, flat_cons_cons, ← shift_cons, hshift]

theorem flat_new_cont_shift (K : List Node) (pos t ins c : Nat) (it : Node) (after : List Node) (d : Int)
    (hshift : flat (shift (it :: after) d) = flat (it :: after)) :
    flat (K ++ (pos, t) :: (pos + ins, c) :: shift (it :: after) d) =
      flat (K ++ [(pos, t)]) ++ (List.replicate ins t ++
        (List.replicate (((it.1 : Int) + d).toNat - (pos + ins)) c ++ flat (it :: after))) := by
  rw [flat_append K (pos, t), flat_cons_cons, shift_cons, flat_cons_cons, ← shift_cons, hshift]
  simp

/-- replacement / deletion-with-insertion path (`ins > 0`, `del > 0`) of the repaired Update -/
theorem afterLoop_flat_ins (K Dall : List Node) (it origin : Node) (after : List Node)
    (o po : Node) (em : List (Nat × Nat × Int)) (t pos ins del : Nat)
    (hs : Sorted (K ++ Dall ++ it :: after)) (h0 : headKey (K ++ Dall ++ it :: after) = 0)
    (hK : ∀ n ∈ K, n.1 < pos) (hD : ∀ n ∈ Dall, pos ≤ n.1 ∧ n.1 < pos + del)
    (hit : pos + del ≤ it.1) (hlast : (K ++ Dall).getLast? = some origin)
    (hoK : o.1 < pos → K.getLast? = some o) (hole : o.1 ≤ pos)
    (hins : 0 < ins) (hdel : 0 < del) (hend : after = [] → it.2 ≠ t) :
    flat (afterLoop true ⟨K, it, after, origin, em⟩ o po t pos ins del) =
      splice (flat (K ++ Dall ++ it :: after)) t pos ins del := by
  have hne : K ++ Dall ≠ [] := by intro e; rw [e] at hlast; simp at hlast
  have hA := take_pos K Dall it after pos del t hs h0 hK hD hit hne
  have hC := drop_posdel K Dall it origin after pos del hs h0 hK hD hit hlast
  have hsit : Sorted (it :: after) := sorted_suffix hs
  have hKD_lt : ∀ n ∈ after, it.1 < n.1 := (List.pairwise_cons.mp hsit).1
  rw [splice_eq, hA, hC]
  have hshift_nonneg : ∀ n ∈ it :: after, 0 ≤ (n.1 : Int) + ((ins : Int) - (del : Int)) := by
    intro n hn
    rcases List.mem_cons.mp hn with rfl | hn
    · omega
    · have := hKD_lt n hn; omega
  have hshift : flat (shift (it :: after) ((ins : Int) - (del : Int))) = flat (it :: after) :=
    flat_shift _ _ hshift_nonneg hsit
  by_cases hcond : origin.2 ≠ t ∨ origin.1 = pos ∨ (o.2 ≠ t ∨ o.1 = pos)
  · by_cases hx1 : it.2 = t ∧ (it.1 : Int) - del = pos
    · -- X1: the interval that follows has the same value and starts where the deletion ends
      obtain ⟨hitt, hiteq'⟩ := hx1
      have hiteq : it.1 = pos + del := by omega
      have hane : after ≠ [] := fun he => hend he hitt
      obtain ⟨a1, R1, rfl⟩ := List.exists_cons_of_ne_nil hane
      have ha1 : it.1 < a1.1 := hKD_lt a1 (by simp)
      have hsa : Sorted (a1 :: R1) := (List.pairwise_cons.mp hsit).2
      have hshift' : flat (shift (a1 :: R1) ((ins : Int) - (del : Int))) = flat (a1 :: R1) :=
        flat_shift _ _ (fun n hn => hshift_nonneg n (by simp [hn])) hsa
      have hC' : List.replicate (it.1 - (pos + del)) origin.2 ++ flat (it :: a1 :: R1) =
          List.replicate (a1.1 - it.1) t ++ flat (a1 :: R1) := by
        rw [hiteq, flat_cons_cons, ← hiteq, hitt]; simp
      rw [hC']
      cases hKl : K.getLast? with
      | none =>
        have hKe : K = [] := by
          cases K with
          | nil => rfl
          | cons k ks => simp [List.getLast?_cons] at hKl
        subst hKe
        have hp0 : pos = 0 := by
          -- the first node is in Dall and has key 0
          cases Dall with
          | nil => simp at hne
          | cons d ds =>
            have : d.1 = 0 := by simpa [headKey] using h0
            have := (hD d (by simp)).1
            omega
        subst hp0
        have e : afterLoop true ⟨[], it, a1 :: R1, origin, em⟩ o po t 0 ins del =
            insertNode ((0, t) :: shift (a1 :: R1) ((ins:Int) - del)) (0, t) := by
          unfold afterLoop
          simp [hins, hcond, hitt, hiteq']
        rw [e, show insertNode ((0, t) :: shift (a1 :: R1) (↑ins - ↑del)) (0, t) =
                ([] : List Node) ++ (0, t) :: shift (a1 :: R1) (↑ins - ↑del) from
              insertNode_exists [] (0, t) _ (0, t) (by simp) rfl]
        rw [flat_new_then_shift [] 0 t a1 R1 _ hshift']
        simp only [List.nil_append, flat_single, List.append_assoc]
        simp only [← List.append_assoc, List.replicate_append_replicate]
        congr 2
        omega
      | some p =>
        obtain ⟨K0, hK0⟩ := getLast?_eq_some_iff_append hKl
        have hppos : p.1 < pos := hK p (by rw [hK0]; simp)
        have hp0 : pos ≠ 0 := by omega
        by_cases hpt : p.2 = t
        · -- three-way merge: the node `it` disappears
          have e : afterLoop true ⟨K, it, a1 :: R1, origin, em⟩ o po t pos ins del =
              K ++ shift (a1 :: R1) ((ins:Int) - del) := by
            unfold afterLoop
            simp [hins, hcond, hitt, hiteq', hKl, hpt, hp0]
          rw [e, hK0]
          rw [show K0 ++ [p] ++ shift (a1 :: R1) (↑ins - ↑del) = K0 ++ p :: shift (a1 :: R1) (↑ins - ↑del) by simp]
          rw [flat_append K0 p, shift_cons, flat_cons_cons, ← shift_cons, hshift']
          rw [show K0 ++ [p] ++ [(pos, t)] = K0 ++ p :: [(pos, t)] by simp, flat_append K0 p [(pos, t)], flat_cons_cons, hpt]
          simp only [flat_single, List.append_nil, List.append_assoc]
          congr 1
          simp only [← List.append_assoc, List.replicate_append_replicate]
          congr 2
          omega
        · -- the node `it` is moved back to pos
          have e : afterLoop true ⟨K, it, a1 :: R1, origin, em⟩ o po t pos ins del =
              K ++ (pos, t) :: shift (a1 :: R1) ((ins:Int) - del) := by
            unfold afterLoop
            simp [hins, hcond, hitt, hiteq', hKl, hpt, hp0]
          rw [e, flat_new_then_shift K pos t a1 R1 _ hshift']
          simp only [List.append_assoc]
          congr 1
          simp only [← List.append_assoc, List.replicate_append_replicate]
          congr 2
          omega
    · -- X2: a new node at pos, then possibly the continuation of the last deleted interval
      have e : afterLoop true ⟨K, it, after, origin, em⟩ o po t pos ins del =
          (if origin.2 ≠ t then insertNode (K ++ (pos, t) :: shift (it :: after) ((ins:Int) - del)) (pos + ins, origin.2)
           else if pos = 0 then insertNode (K ++ (pos, t) :: shift (it :: after) ((ins:Int) - del)) (pos, t)
           else K ++ (pos, t) :: shift (it :: after) ((ins:Int) - del)) := by
        unfold afterLoop
        simp [hins, hcond, hx1]
      rw [e]
      have hKlt : ∀ x ∈ K ++ [(pos, t)], x.1 < pos + ins := by
        intro x hx
        rcases List.mem_append.mp hx with h | h
        · have := hK x h; omega
        · simp at h; subst h; simp; omega
      by_cases hov : origin.2 = t
      · -- the continuation has the same value: it merges with the new interval
        have hbase : flat (K ++ (pos, t) :: shift (it :: after) ((ins:Int) - del)) =
            flat (K ++ [(pos, t)]) ++ (List.replicate ins t ++
              (List.replicate (it.1 - (pos + del)) origin.2 ++ flat (it :: after))) := by
          rw [flat_new_then_shift K pos t it after _ hshift, hov]
          simp only [← List.append_assoc, List.replicate_append_replicate]
          congr 3
          omega
        simp only [hov, ne_eq, not_true_eq_false, ↓reduceIte]
        by_cases hp0 : pos = 0
        · subst hp0
          have hKe : K = [] := by
            cases K with
            | nil => rfl
            | cons k ks => exact absurd (hK k (by simp)) (by omega)
          subst hKe
          simp only [↓reduceIte, List.nil_append]
          rw [show insertNode ((0, t) :: shift (it :: after) (↑ins - ↑del)) (0, t) =
                ([] : List Node) ++ (0, t) :: shift (it :: after) (↑ins - ↑del) from
              insertNode_exists [] (0, t) _ (0, t) (by simp) rfl]
          simpa [hov] using hbase
        · simp only [hp0, ↓reduceIte]
          simpa [hov, List.append_assoc] using hbase
      · simp only [ne_eq, hov, not_false_eq_true, ↓reduceIte]
        by_cases hiteq : it.1 = pos + del
        · -- the deletion ends exactly at `it`: the key pos+ins already exists
          have hk : (((it.1 : Int) + ((ins:Int) - del)).toNat) = pos + ins := by omega
          rw [show K ++ (pos, t) :: shift (it :: after) (↑ins - ↑del) =
                (K ++ [(pos, t)]) ++ (((it.1:Int) + ((ins:Int) - del)).toNat, it.2) :: shift after (↑ins - ↑del) by
              rw [shift_cons]; simp]
          rw [insertNode_exists (K ++ [(pos, t)]) _ _ (pos + ins, origin.2) hKlt (by simp [hk])]
          rw [show (K ++ [(pos, t)]) ++ (((it.1:Int) + ((ins:Int) - del)).toNat, it.2) :: shift after (↑ins - ↑del) =
                K ++ (pos, t) :: shift (it :: after) (↑ins - ↑del) by rw [shift_cons]; simp]
          rw [flat_new_then_shift K pos t it after _ hshift]
          simp only [List.append_assoc]
          congr 1
          rw [hiteq]
          simp
          congr 1
          omega
        · have hgt : pos + del < it.1 := by omega
          rw [show K ++ (pos, t) :: shift (it :: after) (↑ins - ↑del) =
                (K ++ [(pos, t)]) ++ shift (it :: after) (↑ins - ↑del) by simp]
          rw [insertNode_mid (K ++ [(pos, t)]) (pos + ins, origin.2) _ hKlt (by
            intro y hy
            simp only [shift, List.mem_map] at hy
            obtain ⟨m, hm, rfl⟩ := hy
            rcases List.mem_cons.mp hm with rfl | hm'
            · simp; omega
            · have := hKD_lt m hm'; simp; omega)]
          rw [show (K ++ [(pos, t)]) ++ (pos + ins, origin.2) :: shift (it :: after) (↑ins - ↑del) =
                K ++ (pos, t) :: (pos + ins, origin.2) :: shift (it :: after) (↑ins - ↑del) by simp]
          rw [flat_new_cont_shift K pos t ins origin.2 it after _ hshift]
          simp only [List.append_assoc]
          congr 3
          congr 1
          omega
  · -- Y: everything around has the value t: the interval left of pos simply grows
    have hc : origin.2 = t ∧ origin.1 ≠ pos ∧ o.2 = t ∧ o.1 ≠ pos := by
      refine ⟨?_, ?_, ?_, ?_⟩ <;> (apply Classical.byContradiction; intro hn; apply hcond; simp_all)
    obtain ⟨hot, hop, hvt, hopos⟩ := hc
    have holt : o.1 < pos := by omega
    obtain ⟨K0, hK0⟩ := getLast?_eq_some_iff_append (hoK holt)
    have e : afterLoop true ⟨K, it, after, origin, em⟩ o po t pos ins del =
        K ++ shift (it :: after) ((ins:Int) - del) := by
      unfold afterLoop
      have hp0 : pos ≠ 0 := by omega
      simp [hins, hot, hop, hvt, hopos, hp0]
    rw [e, hK0, hot]
    rw [show K0 ++ [o] ++ shift (it :: after) (↑ins - ↑del) = K0 ++ o :: shift (it :: after) (↑ins - ↑del) by simp]
    rw [flat_append K0 o, shift_cons, flat_cons_cons, ← shift_cons, hshift]
    rw [show K0 ++ [o] ++ [(pos, t)] = K0 ++ o :: [(pos, t)] by simp, flat_append K0 o [(pos, t)], flat_cons_cons, hvt]
    simp only [flat_single, List.append_nil, List.append_assoc]
    congr 1
    simp only [← List.append_assoc, List.replicate_append_replicate]
    congr 2
    omega

end Fu
