import Fu.LoopDel
namespace Fu

/-- `origin.Key` after the (repaired, clamped) adjustment of a pure deletion -/
def okeyDel (origin : Node) (pos del : Nat) : Nat :=
  if pos < origin.1 then origin.1 - del else origin.1

theorem afterLoop_del_unfold (K : List Node) (it origin : Node) (after : List Node)
    (o po : Node) (em : List (Nat × Nat × Int)) (t pos del : Nat) (hdel : 0 < del) :
    afterLoop true ⟨K, it, after, origin, em⟩ o po t pos 0 del =
      (if (okeyDel origin pos del < pos ∧ (K.getLast?.any fun p => p.2 != origin.2) = true)
          ∨ (pos = okeyDel origin pos del ∧ origin.2 ≠ po.2) ∨ pos = 0 then
        insertNode (K ++ shift (it :: after) (-(del : Int))) (pos, origin.2)
      else K ++ shift (it :: after) (-(del : Int))) := by
  unfold afterLoop okeyDel
  have h1 : ¬ ((0 : Int) - (del : Int) = 0) := by omega
  have hd0 : ¬ del = 0 := by omega
  have e : ((origin.1 : Int) + -(del : Int)).toNat = origin.1 - del := by omega
  simp [h1, hd0, e]


theorem getLast?_append_of_ne_nil {α} (xs ys : List α) (h : ys ≠ []) :
    (xs ++ ys).getLast? = ys.getLast? := by
  induction xs with
  | nil => rfl
  | cons x xs ih =>
    cases hxy : xs ++ ys with
    | nil => simp at hxy; exact absurd hxy.2 h
    | cons z zs => rw [List.cons_append, hxy, List.getLast?_cons_cons, ← hxy, ih]

theorem flat_shift_neg (it : Node) (after : List Node) (del : Nat) (hs : Sorted (it :: after))
    (h : del ≤ it.1) : flat (shift (it :: after) (-(del : Int))) = flat (it :: after) := by
  apply flat_shift _ _ _ hs
  intro n hn
  rcases List.mem_cons.mp hn with rfl | hn
  · omega
  · have := (List.pairwise_cons.mp hs).1 n hn; omega

/-- pure deletion, normal stop of the loop -/
theorem afterLoop_flat_del (K Dall : List Node) (it origin : Node) (after : List Node)
    (o po : Node) (em : List (Nat × Nat × Int)) (t pos del : Nat)
    (hs : Sorted (K ++ Dall ++ it :: after)) (h0 : headKey (K ++ Dall ++ it :: after) = 0)
    (hK : ∀ n ∈ K, n.1 < pos) (hD : ∀ n ∈ Dall, pos ≤ n.1 ∧ n.1 < pos + del)
    (hit : pos + del ≤ it.1) (hlast : (K ++ Dall).getLast? = some origin)
    (hdel : 0 < del)
    (hpo : origin.1 = pos → K ≠ [] → K.getLast? = some po) :
    flat (afterLoop true ⟨K, it, after, origin, em⟩ o po t pos 0 del) =
      splice (flat (K ++ Dall ++ it :: after)) t pos 0 del := by
  have hne : K ++ Dall ≠ [] := by intro e; rw [e] at hlast; simp at hlast
  have hA := take_pos K Dall it after pos del origin.2 hs h0 hK hD hit hne
  have hC := drop_posdel K Dall it origin after pos del hs h0 hK hD hit hlast
  have hsit : Sorted (it :: after) := sorted_suffix hs
  have hshift := flat_shift_neg it after del hsit (by omega)
  rw [splice_eq, hA, hC, afterLoop_del_unfold _ _ _ _ _ _ _ _ _ _ hdel]
  simp only [List.replicate_zero, List.append_nil]
  -- the list without the extra node
  have hplain : flat (K ++ shift (it :: after) (-(del : Int))) =
      flat (K ++ [(((it.1 : Int) + -(del : Int)).toNat, it.2)]) ++ flat (it :: after) := by
    rw [shift_cons, flat_append K _ (shift after _), ← shift_cons, hshift]
  have hKlt : ∀ x ∈ K, x.1 < (pos, origin.2).1 := fun x hx => hK x hx
  split
  · -- the continuation node is (re-)inserted at pos
    by_cases hc : it.1 = pos + del
    · -- nothing is left of the last deleted interval: the key already exists
      have hk : (((it.1 : Int) + -(del : Int)).toNat) = pos := by omega
      rw [shift_cons, insertNode_exists K _ _ (pos, origin.2) hKlt (by simp [hk]), ← shift_cons, hplain, hk, hc]
      simp only [Nat.sub_self, List.replicate_zero, List.nil_append]
      congr 1
      exact flat_last_irrelevant K pos it.2 origin.2
    · rw [insertNode_mid K (pos, origin.2) _ hKlt (by
        intro y hy
        simp only [shift, List.mem_map] at hy
        obtain ⟨m, hm, rfl⟩ := hy
        rcases List.mem_cons.mp hm with rfl | hm'
        · simp; omega
        · have := (List.pairwise_cons.mp hsit).1 m hm'; simp; omega)]
      rw [flat_append K (pos, origin.2), shift_cons, flat_cons_cons, ← shift_cons, hshift]
      simp only [List.append_assoc]
      congr 2
      congr 1
      show ((it.1 : Int) + -(del : Int)).toNat - pos = it.1 - (pos + del)
      omega
  · -- no node is inserted: the interval left of pos continues
    rename_i hno
    have hp0 : pos ≠ 0 := fun e => hno (Or.inr (Or.inr e))
    have hKne : K ≠ [] := by
      intro e; subst e
      cases Dall with
      | nil => simp at hne
      | cons d ds =>
        have : d.1 = 0 := by simpa [headKey] using h0
        have := (hD d (by simp)).1
        omega
    obtain ⟨K0, p, rfl⟩ : ∃ K0 p, K = K0 ++ [p] :=
      ⟨K.dropLast, K.getLast hKne, (List.dropLast_concat_getLast hKne).symm⟩
    have hpp : p.1 < pos := hK p (by simp)
    rw [hplain]
    by_cases hc : it.1 = pos + del
    · have hk : (((it.1 : Int) + -(del : Int)).toNat) = pos := by omega
      rw [hk, hc]
      simp only [Nat.sub_self, List.replicate_zero, List.nil_append]
      congr 1
      exact flat_last_irrelevant (K0 ++ [p]) pos it.2 origin.2
    · -- lines are left over from the last deleted interval: they must carry p's value
      have hval : p.2 = origin.2 := by
        by_cases hDe : Dall = []
        · subst hDe; simp at hlast; rw [hlast]
        · -- origin is the last deleted node
          have horD : origin ∈ Dall := by
            rw [getLast?_append_of_ne_nil _ _ hDe] at hlast
            exact List.mem_of_getLast? hlast
          have hob := hD origin horD
          by_cases hoe : origin.1 = pos
          · have hpo' := hpo hoe (by simp)
            simp at hpo'
            subst hpo'
            have : ¬ (pos = okeyDel origin pos del ∧ origin.2 ≠ p.2) := fun h => hno (Or.inr (Or.inl h))
            unfold okeyDel at this
            simp [hoe] at this
            exact this.symm
          · have hok : okeyDel origin pos del < pos := by unfold okeyDel; split <;> omega
            have : ¬ (okeyDel origin pos del < pos ∧ ((K0 ++ [p]).getLast?.any fun q => q.2 != origin.2) = true) :=
              fun h => hno (Or.inl h)
            simp [hok] at this
            exact this
      rw [show K0 ++ [p] ++ [(((it.1 : Int) + -(del : Int)).toNat, it.2)] = K0 ++ p :: [(((it.1 : Int) + -(del : Int)).toNat, it.2)] by simp,
          flat_append K0 p, flat_cons_cons]
      rw [show K0 ++ [p] ++ [(pos, origin.2)] = K0 ++ p :: [(pos, origin.2)] by simp, flat_append K0 p [(pos, origin.2)], flat_cons_cons]
      simp only [flat_single, List.append_nil, List.append_assoc]
      congr 1
      rw [← List.append_assoc, ← hval, List.replicate_append_replicate]
      congr 2
      omega


/-- pure deletion, "zero-delta merge" stop: the node `x` that starts where the deletion ends has
    the value of the interval left of `pos` and is removed as well -/
theorem afterLoop_flat_del_special (K Dall : List Node) (x it : Node) (after : List Node)
    (o po : Node) (em : List (Nat × Nat × Int)) (t pos del : Nat)
    (hs : Sorted (K ++ Dall ++ x :: it :: after)) (h0 : headKey (K ++ Dall ++ x :: it :: after) = 0)
    (hK : ∀ n ∈ K, n.1 < pos) (hD : ∀ n ∈ Dall, pos ≤ n.1 ∧ n.1 < pos + del)
    (hx : x.1 = pos + del) (hDne : K ++ Dall ≠ []) (hdel : 0 < del) (hpox : po.2 = x.2)
    (hpoK : K ≠ [] → K.getLast? = some po) :
    flat (afterLoop true ⟨K, it, after, x, em⟩ o po t pos 0 del) =
      splice (flat (K ++ Dall ++ x :: it :: after)) t pos 0 del := by
  have hA := take_pos K Dall x (it :: after) pos del x.2 hs h0 hK hD (by omega) hDne
  obtain ⟨X, orig, hX⟩ : ∃ X orig, K ++ Dall = X ++ [orig] :=
    ⟨(K ++ Dall).dropLast, (K ++ Dall).getLast hDne, (List.dropLast_concat_getLast hDne).symm⟩
  have hlast : (K ++ Dall).getLast? = some orig := by rw [hX]; simp
  have hC := drop_posdel K Dall x orig (it :: after) pos del hs h0 hK hD (by omega) hlast
  have hsx : Sorted (x :: it :: after) := sorted_suffix hs
  have hsit : Sorted (it :: after) := (List.pairwise_cons.mp hsx).2
  have hxit : x.1 < it.1 := (List.pairwise_cons.mp hsx).1 it (by simp)
  have hshift := flat_shift_neg it after del hsit (by omega)
  rw [splice_eq, hA, hC, afterLoop_del_unfold _ _ _ _ _ _ _ _ _ _ hdel]
  have hok : okeyDel x pos del = pos := by unfold okeyDel; split <;> omega
  simp only [List.replicate_zero, List.append_nil, hok, Nat.lt_irrefl, false_and, false_or, hx,
    Nat.sub_self, List.nil_append, true_and]
  rw [flat_cons_cons]
  have hplain : flat (K ++ shift (it :: after) (-(del : Int))) =
      flat (K ++ [(((it.1 : Int) + -(del : Int)).toNat, it.2)]) ++ flat (it :: after) := by
    rw [shift_cons, flat_append K _ (shift after _), ← shift_cons, hshift]
  split
  · rename_i hc
    rcases hc with hc | hc
    · exact absurd hpox.symm hc
    · subst hc
      have hKe : K = [] := by
        cases K with
        | nil => rfl
        | cons k ks => exact absurd (hK k (by simp)) (by omega)
      subst hKe
      rw [List.nil_append, show insertNode (shift (it :: after) (-(del : Int))) (0, x.2) =
            ([] : List Node) ++ (0, x.2) :: shift (it :: after) (-(del : Int)) from
          insertNode_mid [] (0, x.2) (shift (it :: after) (-(del : Int))) (by simp) (by
            intro y hy
            simp only [shift, List.mem_map] at hy
            obtain ⟨m, hm, rfl⟩ := hy
            rcases List.mem_cons.mp hm with rfl | hm'
            · simp; omega
            · have := (List.pairwise_cons.mp hsit).1 m hm'; simp; omega)]
      rw [List.nil_append, shift_cons, flat_cons_cons, ← shift_cons, hshift]
      simp only [List.nil_append, flat_single]
      congr 2
      show ((it.1 : Int) + -(del : Int)).toNat - 0 = it.1 - x.1
      omega
  · rename_i hno
    have hp0 : pos ≠ 0 := fun e => hno (Or.inr e)
    have hKne : K ≠ [] := by
      intro e; subst e
      cases Dall with
      | nil => simp at hDne
      | cons d ds =>
        have : d.1 = 0 := by simpa [headKey] using h0
        have := (hD d (by simp)).1
        omega
    obtain ⟨K0, hK0⟩ := getLast?_eq_some_iff_append (hpoK hKne)
    have hpp : po.1 < pos := hK po (by rw [hK0]; simp)
    rw [hplain, hK0]
    rw [show K0 ++ [po] ++ [(((it.1 : Int) + -(del : Int)).toNat, it.2)] = K0 ++ po :: [(((it.1 : Int) + -(del : Int)).toNat, it.2)] by simp,
        flat_append K0 po, flat_cons_cons]
    rw [show K0 ++ [po] ++ [(pos, x.2)] = K0 ++ po :: [(pos, x.2)] by simp, flat_append K0 po [(pos, x.2)], flat_cons_cons]
    simp only [flat_single, List.append_nil, List.append_assoc]
    congr 1
    rw [← List.append_assoc, ← hpox, List.replicate_append_replicate]
    congr 2
    show ((it.1 : Int) + -(del : Int)).toNat - po.1 = pos - po.1 + (it.1 - x.1)
    omega

end Fu
