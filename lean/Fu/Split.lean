import Fu.Decomp
namespace Fu

theorem insertNode_mid (xs : List Node) (n : Node) (ys : List Node)
    (h1 : ∀ x ∈ xs, x.1 < n.1) (h2 : ∀ y ∈ ys, n.1 < y.1) :
    insertNode (xs ++ ys) n = xs ++ n :: ys := by
  induction xs with
  | nil =>
    cases ys with
    | nil => simp [insertNode]
    | cons y ys =>
      obtain ⟨k, v⟩ := y
      have := h2 (k, v) (by simp)
      simp [insertNode, this]
  | cons x xs ih =>
    obtain ⟨k, v⟩ := x
    have hx := h1 (k, v) (by simp)
    have : ¬ n.1 < k := by simp at hx; omega
    have hne : ¬ n.1 = k := by simp at hx; omega
    simp [insertNode, this, hne]
    exact ih (fun x hx => h1 x (by simp [hx]))

theorem insertNode_exists (xs : List Node) (m : Node) (ys : List Node) (n : Node)
    (h1 : ∀ x ∈ xs, x.1 < n.1) (hn : n.1 = m.1) :
    insertNode (xs ++ m :: ys) n = xs ++ m :: ys := by
  induction xs with
  | nil =>
    obtain ⟨k, v⟩ := m
    simp at hn
    simp [insertNode, hn]
  | cons x xs ih =>
    obtain ⟨k, v⟩ := x
    have hx := h1 (k, v) (by simp)
    have : ¬ n.1 < k := by simp at hx; omega
    have hne : ¬ n.1 = k := by simp at hx; omega
    simp [insertNode, this, hne]
    exact ih (fun x hx => h1 x (by simp [hx]))

/-- specification of `splitLE` on sorted lists -/
theorem splitLE_spec (ns : List Node) (pos : Nat) (hs : Sorted ns) :
    ns = (splitLE ns pos).1 ++ (splitLE ns pos).2 ∧ (∀ n ∈ (splitLE ns pos).1, n.1 ≤ pos) ∧
      (∀ n ∈ (splitLE ns pos).2, pos < n.1) := by
  induction ns with
  | nil => simp [splitLE]
  | cons x xs ih =>
    have hs' : Sorted xs := (List.pairwise_cons.mp hs).2
    have hx := (List.pairwise_cons.mp hs).1
    obtain ⟨e, h1, h2⟩ := ih hs'
    by_cases hle : x.1 ≤ pos
    · simp only [splitLE, List.takeWhile_cons, List.dropWhile_cons, hle, decide_true, ↓reduceIte] at e h1 h2 ⊢
      refine ⟨by simp [← e], ?_, h2⟩
      intro n hn
      rcases List.mem_cons.mp hn with rfl | hn
      · exact hle
      · exact h1 n hn
    · simp only [splitLE, List.takeWhile_cons, List.dropWhile_cons, hle, decide_false] at e h1 h2 ⊢
      refine ⟨by simp, by simp, ?_⟩
      intro n hn
      simp at hn
      rcases hn with rfl | hn
      · omega
      · have := hx n hn; omega

end Fu
