import Fu.DeltasTop
namespace Fu

/-- every inner node of a sorted list is at least one line long, so its value shows up in `flat` -/
theorem innerNoMark_of_flat (ns : List Node) (hs : Sorted ns) (h : ∀ x ∈ flat ns, NoMark x) :
    InnerNoMark ns := by
  induction ns with
  | nil => trivial
  | cons a rest ih =>
    cases rest with
    | nil => trivial
    | cons b r =>
      have hlt : a.1 < b.1 := (List.pairwise_cons.mp hs).1 b (by simp)
      have hs' : Sorted (b :: r) := (List.pairwise_cons.mp hs).2
      rw [flat_cons_cons] at h
      refine ⟨?_, ih hs' (fun x hx => h x (List.mem_append_right _ hx))⟩
      apply h
      apply List.mem_append_left
      rw [List.mem_replicate]
      exact ⟨by omega, rfl⟩

theorem splice_noMark (a : List Nat) (t pos ins del : Nat) (ha : ∀ x ∈ a, NoMark x) (ht : NoMark t) :
    ∀ x ∈ splice a t pos ins del, NoMark x := by
  intro x hx
  simp only [splice, List.mem_append, List.mem_replicate] at hx
  rcases hx with (hx | hx) | hx
  · exact ha x (List.mem_of_mem_take hx)
  · rw [hx.2]; exact ht
  · exact ha x (List.mem_of_mem_drop hx)

/-- a commit of a linear history, for one file: its tick and its edit operations -/
structure Commit where
  tick : Nat
  ops : List (Nat × Nat × Nat)       -- (pos, ins, del)

/-- replay: node list and the log of reported deltas -/
def runOps (ns : List Node) (t : Nat) : List (Nat × Nat × Nat) → Option (List Node × List (Nat × Nat × Int))
  | [] => some (ns, [])
  | (pos, ins, del) :: rest =>
    match update true ns t pos ins del with
    | .ok (ns', em) => (runOps ns' t rest).map fun (n, e) => (n, em ++ e)
    | .reject _ => none

def runCommits (ns : List Node) : List Commit → Option (List Node × List (Nat × Nat × Int))
  | [] => some (ns, [])
  | c :: cs =>
    match runOps ns c.tick c.ops with
    | some (ns', em) => (runCommits ns' cs).map fun (n, e) => (n, em ++ e)
    | none => none

/-- the array-level replay of the same operations -/
def arrOps (a : List Nat) (t : Nat) : List (Nat × Nat × Nat) → List Nat
  | [] => a
  | (pos, ins, del) :: rest => arrOps (if ins = 0 ∧ del = 0 then a else splice a t pos ins del) t rest

def arrValid (a : List Nat) (t : Nat) : List (Nat × Nat × Nat) → Prop
  | [] => True
  | (pos, ins, del) :: rest => pos + del ≤ a.length ∧
      arrValid (if ins = 0 ∧ del = 0 then a else splice a t pos ins del) t rest

/-- state invariant used along a history -/
def Good (ns : List Node) : Prop := WF2 ns ∧ ∀ x ∈ flat ns, NoMark x

theorem runOps_spec (ops : List (Nat × Nat × Nat)) : ∀ (ns : List Node) (t : Nat), Good ns → t < END → NoMark t →
    arrValid (flat ns) t ops →
    ∃ ns' em, runOps ns t ops = some (ns', em) ∧ Good ns' ∧ flat ns' = arrOps (flat ns) t ops ∧
      ∀ v, (List.count v (flat ns') : Int) = List.count v (flat ns) + emSum em v := by
  induction ops with
  | nil => intro ns t hg _ _ _; exact ⟨ns, [], rfl, hg, rfl, by intro v; simp [emSum]⟩
  | cons op ops ih =>
    intro ns t hg ht hmt hv
    obtain ⟨pos, ins, del⟩ := op
    obtain ⟨hr, hrest⟩ := hv
    rw [length_flat_wf hg.1] at hr
    by_cases hz : ins = 0 ∧ del = 0
    · have hup : update true ns t pos ins del = .ok (ns, []) := by unfold update; rw [if_pos hz]
      simp only [hz, and_self, ↓reduceIte] at hrest
      obtain ⟨ns', em, h1, h2, h3, h4⟩ := ih ns t hg ht hmt hrest
      refine ⟨ns', [] ++ em, ?_, h2, ?_, ?_⟩
      · simp only [runOps, hup, h1, Option.map_some]
      · simp only [arrOps, hz, and_self, ↓reduceIte]; exact h3
      · simpa using h4
    · obtain ⟨ns1, em1, hup, hflat, hwf1, _⟩ := update_ok ns t pos ins del hg.1 ht hr hz
      have hd := update_deltas ns t pos ins del hg.1 ht hmt
        (innerNoMark_of_flat ns hg.1.sorted hg.2) hr hz ns1 em1 hup
      have hg1 : Good ns1 := ⟨hwf1, by rw [hflat]; exact splice_noMark _ _ _ _ _ hg.2 hmt⟩
      simp only [hz, ↓reduceIte] at hrest
      rw [← hflat] at hrest
      obtain ⟨ns', em, h1, h2, h3, h4⟩ := ih ns1 t hg1 ht hmt hrest
      refine ⟨ns', em1 ++ em, ?_, h2, ?_, ?_⟩
      · simp only [runOps, hup, h1, Option.map_some]
      · simp only [arrOps, hz, ↓reduceIte]; rw [← hflat]; exact h3
      · intro v; rw [h4 v, hd v, emSum_append]; omega

end Fu
