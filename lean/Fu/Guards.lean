import Fu.Seq
namespace Fu

def Res.isReject {α} : Res α → Bool
  | .reject _ => true
  | .ok _ => false

/-- once the deleted range runs past the end, the loop can only stop by rejecting -/
theorem delLoop_rejects (t pos ins del : Nat) (po : Node)
    (pre : List Node) (cur : Node) (rest : List Node) (origin : Node) (emits : List (Nat × Nat × Int))
    (hs : Sorted (cur :: rest)) (hr : lastKey (cur :: rest) < pos + del)
    (hc : rest ≠ [] → ∀ n ∈ rest, pos < n.1) :
    (delLoop t pos ins del po pre cur rest origin emits).isReject = true := by
  induction rest generalizing pre cur origin emits with
  | nil =>
    rw [delLoop]
    simp at hr
    rw [if_pos (by omega)]; rfl
  | cons next more ih =>
    have hs' : Sorted (next :: more) := (List.pairwise_cons.mp hs).2
    have hlt : cur.1 < next.1 := (List.pairwise_cons.mp hs).1 next (by simp)
    have hn : pos < next.1 := hc (by simp) next (by simp)
    have hle : next.1 ≤ lastKey (next :: more) := le_lastKey_of_sorted next more hs'
    have hr' : lastKey (next :: more) < pos + del := by simpa using hr
    have hd : ¬ dlt pos del cur next ≤ 0 := by unfold dlt; omega
    rw [delLoop]
    rw [if_neg (by intro h; exact hd (by omega)), if_neg hd]
    have hc' : more ≠ [] → ∀ n ∈ more, pos < n.1 :=
      fun _ n hn' => hc (by simp) n (by simp [hn'])
    split
    · exact ih _ _ _ _ hs' hr' hc'
    · exact ih _ _ _ _ hs' hr' hc'

/-- **C03-T4**: out-of-range requests are refused (the Go code panics), never silently accepted -/
theorem update_rejects (ns : List Node) (t pos ins del : Nat) (hwf : WF2 ns)
    (hnz : ¬ (ins = 0 ∧ del = 0)) (hbad : lastKey ns < pos + del) :
    (update true ns t pos ins del).isReject = true := by
  obtain ⟨hs, h0, last, hlast, _⟩ := hwf
  have hne : ns ≠ [] := by intro e; subst e; simp at hlast
  have hlk := lastKey_of_getLast? hlast
  unfold update
  rw [if_neg hnz, hlast]
  simp only
  by_cases hp : pos > last.1
  · rw [if_pos hp]; rfl
  · rw [if_neg hp]
    obtain ⟨hsplit, hle_all, hgt⟩ := splitLE_spec ns pos hs
    have hlene : (splitLE ns pos).1 ≠ [] := by
      intro he
      rw [he, List.nil_append] at hsplit
      obtain ⟨n0, tl, hn0⟩ := List.exists_cons_of_ne_nil hne
      have : n0.1 = 0 := by rw [hn0] at h0; simpa [headKey] using h0
      have := hgt n0 (by rw [← hsplit, hn0]; simp)
      omega
    obtain ⟨o, ho⟩ : ∃ o, (splitLE ns pos).1.getLast? = some o :=
      ⟨_, List.getLast?_eq_some_getLast hlene⟩
    have hle_eq : (splitLE ns pos).1 = (splitLE ns pos).1.dropLast ++ [o] := by
      have := (List.dropLast_concat_getLast hlene).symm
      rw [List.getLast?_eq_some_getLast hlene] at ho
      simp at ho; rw [← ho]; exact this
    rw [ho]
    simp only
    have hdel : del ≠ 0 := by omega
    rw [if_neg hdel]
    generalize hpre_def : (splitLE ns pos).1.dropLast = pre at hle_eq
    generalize hrest_def : (splitLE ns pos).2 = rest at hsplit hgt
    have hns : ns = pre ++ o :: rest := by rw [hsplit, hle_eq]; simp
    have hso : Sorted (o :: rest) := sorted_suffix (hns ▸ hs)
    have hlk' : lastKey (o :: rest) < pos + del := by
      rw [← lastKey_append_cons pre o rest, ← hns]; exact hbad
    have := delLoop_rejects t pos ins del ((pre.getLast?).getD o) pre o rest o
      (if ins > 0 then emit t t ins else []) hso hlk' (fun _ => hgt)
    revert this
    cases delLoop t pos ins del ((pre.getLast?).getD o) pre o rest o (if ins > 0 then emit t t ins else []) with
    | ok lo => intro h; simp [Res.isReject] at h
    | reject m => intro _; rfl

end Fu
