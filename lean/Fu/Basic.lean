namespace Fu

abbrev Node := Nat × Nat            -- (key, value)
def END : Nat := 4294967295
def MARK : Nat := 16383

inductive Res (α : Type) where
  | ok : α → Res α
  | reject : String → Res α
  deriving Repr

/-- rbtree.Insert on the abstract sorted list: no-op when the key exists -/
def insertNode : List Node → Node → List Node
  | [], n => [n]
  | (k, v) :: rest, n =>
    if n.1 < k then n :: (k, v) :: rest
    else if n.1 = k then (k, v) :: rest
    else (k, v) :: insertNode rest n

def shift (ns : List Node) (d : Int) : List Node :=
  ns.map fun (k, v) => (((k : Int) + d).toNat, v)

/-- updateTime: list of emitted (cur, prev, delta) -/
def emit (cur prev : Nat) (delta : Int) : List (Nat × Nat × Int) :=
  if prev % (MARK + 1) = MARK then []          -- (cur == prev assumed; else the Go code panics)
  else if cur % (MARK + 1) = MARK then []
  else [(cur, prev, delta)]

structure LoopOut where
  pre : List Node        -- kept nodes before iter (reversed accumulation is avoided for clarity)
  iter : Node
  after : List Node
  origin : Node
  emits : List (Nat × Nat × Int)
  deriving Repr

/-- overlap of the interval `[cur.key, next.key)` with the deleted range (may be ≤ 0) -/
def dlt (pos del : Nat) (cur next : Node) : Int :=
  ((min next.1 (pos + del) : Nat) : Int) - ((max cur.1 pos : Nat) : Int)

/-- the "delete nodes" loop of File.Update -/
def delLoop (t pos ins del : Nat) (prevOrigin : Node) :
    (pre : List Node) → (cur : Node) → (rest : List Node) → (origin : Node) →
    (emits : List (Nat × Nat × Int)) → Res LoopOut
  | pre, cur, [], origin, emits =>
    if pos + del > cur.1 then .reject "delete after end" else .ok ⟨pre, cur, [], origin, emits⟩
  | pre, cur, next :: more, origin, emits =>
    if dlt pos del cur next = 0 ∧ ins = 0 ∧ origin.1 = pos ∧ prevOrigin.2 = cur.2 then
      .ok ⟨pre, next, more, cur, emits⟩
    else if dlt pos del cur next ≤ 0 then .ok ⟨pre, cur, next :: more, origin, emits⟩
    else if cur.1 ≥ pos then
      delLoop t pos ins del prevOrigin pre next more cur (emits ++ emit t cur.2 (-(dlt pos del cur next)))
    else
      delLoop t pos ins del prevOrigin (pre ++ [cur]) next more origin (emits ++ emit t cur.2 (-(dlt pos del cur next)))

/-- split at FindLE(pos): nodes with key ≤ pos (non-empty for valid files) and the rest -/
def splitLE (ns : List Node) (pos : Nat) : List Node × List Node :=
  (ns.takeWhile (fun n => n.1 ≤ pos), ns.dropWhile (fun n => n.1 ≤ pos))

/-- the insertion-only path of File.Update (`delLength == 0`) on `pre ++ [o] ++ rest` -/
def insOnly (pre : List Node) (o : Node) (rest : List Node) (t pos ins : Nat) : List Node :=
  let ns1 := if o.1 < pos ∨ (o.2 = t ∧ (pos = 0 ∨ pos = o.1)) then pre ++ [o] ++ shift rest ins
             else pre ++ shift (o :: rest) ins
  if o.2 ≠ t then
    let a := insertNode ns1 (pos, t)
    if o.1 < pos then insertNode a (pos + ins, o.2) else a
  else ns1

/-- everything File.Update does after the delete loop -/
def afterLoop (fixed : Bool) (lo : LoopOut) (o prevOrigin : Node) (t pos ins del : Nat) : List Node :=
  let origin := lo.origin
  let cond := origin.2 ≠ t ∨ origin.1 = pos ∨ (fixed ∧ (o.2 ≠ t ∨ o.1 = pos))
  let (kept, toShift, origin, previous) : List Node × List Node × Node × Option Node :=
    if ins > 0 ∧ cond then
      if lo.iter.2 = t ∧ (lo.iter.1 : Int) - del = pos then
        match lo.pre.getLast? with
        | some p =>
          if p.2 ≠ t then (lo.pre ++ [(pos, lo.iter.2)], lo.after, (origin.1, t), none)
          else (lo.pre, lo.after, (origin.1, t), none)
        | none => (lo.pre ++ [(pos, lo.iter.2)], lo.after, (origin.1, t), none)
      else (lo.pre ++ [(pos, t)], lo.iter :: lo.after, origin, none)
    else
      (lo.pre, lo.iter :: lo.after, origin, lo.pre.getLast?)
  let d : Int := (ins : Int) - del
  let ns1 := kept ++ shift toShift d
  let okey : Nat :=
    if d ≠ 0 ∧ origin.1 > pos then
      let x : Int := (origin.1 : Int) + d
      if fixed then x.toNat else (if x < 0 then (x + 4294967296).toNat else x.toNat)
    else origin.1
  if ins > 0 then
    if origin.2 ≠ t then insertNode ns1 (pos + ins, origin.2)
    else if pos = 0 then insertNode ns1 (pos, t) else ns1
  else if (pos > okey ∧ (previous.any fun p => p.2 != origin.2) = true)
        ∨ (pos = okey ∧ origin.2 ≠ prevOrigin.2) ∨ pos = 0 then
    insertNode ns1 (pos, origin.2)
  else ns1

def update (fixed : Bool) (ns : List Node) (t pos ins del : Nat) :
    Res (List Node × List (Nat × Nat × Int)) :=
  if ins = 0 ∧ del = 0 then .ok (ns, []) else
  match ns.getLast? with
  | none => .reject "invalid tree state"
  | some last =>
  if pos > last.1 then .reject "insert after end" else
  match (splitLE ns pos).1.getLast? with
  | none => .reject "invalid tree state"
  | some o =>
  let pre := (splitLE ns pos).1.dropLast
  let rest := (splitLE ns pos).2
  let prevOrigin := (pre.getLast?).getD o
  let em0 := if ins > 0 then emit t t ins else []
  if del = 0 then .ok (insOnly pre o rest t pos ins, em0)
  else
  match delLoop t pos ins del prevOrigin pre o rest o em0 with
  | .reject m => .reject m
  | .ok lo => .ok (afterLoop fixed lo o prevOrigin t pos ins del, lo.emits)

def newFile (t len : Nat) : List Node :=
  (if len > 0 then [(0, t)] else []) ++ [(len, END)]

/-- flatten to per-line values -/
def flat : List Node → List Nat
  | (k, v) :: (k', v') :: rest => List.replicate (k' - k) v ++ flat ((k', v') :: rest)
  | _ => []

def splice (a : List Nat) (t pos ins del : Nat) : List Nat :=
  a.take pos ++ List.replicate ins t ++ a.drop (pos + del)

/-- `updateTime` refuses (panics on) a report whose previous value carries the merge mark unless it equals the
stamp of the operation.  The delete loop reports exactly the lines of the deleted segment (`delLoop_emits`), so an
in-range request panics for this reason iff some deleted line is merge-marked with another value. -/
def markClash (ns : List Node) (t pos del : Nat) : Bool :=
  pos + del ≤ (flat ns).length &&
  (((flat ns).drop pos).take del).any fun v => v % (MARK + 1) = MARK && v != t

end Fu
