import Fu.WFr
namespace Fu

theorem insOnly_wf (pre : List Node) (o : Node) (rest : List Node) (t pos ins : Nat) (l : Node)
    (hs : Sorted (pre ++ o :: rest)) (h0 : headKey (pre ++ o :: rest) = 0)
    (hle : o.1 ≤ pos) (hgt : ∀ n ∈ rest, pos < n.1) (hl : (o :: rest).getLast? = some l)
    (hins : 0 < ins) (hend : rest = [] → o.2 ≠ t) (hpos : pos ≤ l.1) :
    Sorted (insOnly pre o rest t pos ins) ∧ headKey (insOnly pre o rest t pos ins) = 0 ∧
    (insOnly pre o rest t pos ins).getLast? = some (shiftNode (ins : Int) l) := by
  obtain ⟨hpre_lt, hrest_gt⟩ := sorted_mem_lt hs
  have hspre : Sorted pre := (List.pairwise_append.mp hs).1
  have hsor : Sorted (o :: rest) := sorted_suffix hs
  have hsrest : Sorted rest := (List.pairwise_cons.mp hsor).2
  have hpreo : Sorted (pre ++ [o]) := sorted_prefix hs
  -- shape 1: o stays, the rest is shifted (needs rest ≠ [] for the last node)
  have s1 : Sorted (pre ++ [o] ++ shift rest (ins:Int)) :=
    sorted_kept_shift _ rest _ (pos + 1) hpreo (by
      intro n hn
      rcases List.mem_append.mp hn with h | h
      · have := hpre_lt n h; omega
      · simp at h; subst h; omega) hsrest (by intro n hn; have := hgt n hn; omega)
  have s2 : Sorted (pre ++ shift (o :: rest) (ins:Int)) :=
    sorted_kept_shift _ (o :: rest) _ o.1 hspre hpre_lt hsor (by
      intro n hn
      rcases List.mem_cons.mp hn with rfl | h
      · omega
      · have := hrest_gt n h; omega)
  have hh1 : headKey (pre ++ [o] ++ shift rest (ins:Int)) = 0 := by
    cases pre with
    | nil => simpa [headKey] using h0
    | cons x xs => simpa [headKey] using h0
  have hlsh : ∀ k ≤ pos + ins, k ≤ (shiftNode (ins:Int) l).1 := by
    intro k hk; unfold shiftNode; simp; omega
  by_cases hskip : o.1 < pos ∨ (o.2 = t ∧ (pos = 0 ∨ pos = o.1))
  · have hrne : rest ≠ [] := by
      intro he; subst he
      simp at hl; subst hl
      rcases hskip with h | h
      · omega
      · exact hend rfl h.1
    have hl' : rest.getLast? = some l := by
      obtain ⟨b, R, rfl⟩ := List.exists_cons_of_ne_nil hrne
      rw [List.getLast?_cons_cons] at hl; exact hl
    have l1 : (pre ++ [o] ++ shift rest (ins:Int)).getLast? = some (shiftNode (ins:Int) l) := by
      rw [getLast?_append_shift _ _ _ hrne, hl']; rfl
    unfold insOnly
    simp only [hskip, ↓reduceIte]
    split
    · split
      · refine ⟨insertNode_sorted _ _ (insertNode_sorted _ _ s1), ?_, ?_⟩
        · exact headKey_insertNode _ _ (headKey_insertNode _ _ hh1 (by simp)) (by
            intro he
            have := congrArg List.getLast? he
            rw [getLast?_insertNode _ _ _ l1 (hlsh _ (by omega))] at this
            simp at this)
        · exact getLast?_insertNode _ _ _ (getLast?_insertNode _ _ _ l1 (hlsh _ (by omega))) (hlsh _ (by simp))
      · exact ⟨insertNode_sorted _ _ s1, headKey_insertNode _ _ hh1 (by simp),
          getLast?_insertNode _ _ _ l1 (hlsh _ (by omega))⟩
    · exact ⟨s1, hh1, l1⟩
  · -- o itself is shifted and a new node is put in front of it
    have hov : o.2 ≠ t := by
      intro h; apply hskip; right; refine ⟨h, ?_⟩
      by_cases hp : pos = o.1
      · exact Or.inr hp
      · exfalso; apply hskip; left; omega
    have hopos : o.1 = pos := by
      apply Classical.byContradiction; intro h; apply hskip; left; omega
    have l2 : (pre ++ shift (o :: rest) (ins:Int)).getLast? = some (shiftNode (ins:Int) l) := by
      rw [getLast?_append_shift _ _ _ (by simp), hl]; rfl
    have e : insOnly pre o rest t pos ins = insertNode (pre ++ shift (o :: rest) (ins:Int)) (pos, t) := by
      unfold insOnly
      simp [hskip, hov, show ¬ o.1 < pos by omega]
    rw [e]
    refine ⟨insertNode_sorted _ _ s2, ?_, getLast?_insertNode _ _ _ l2 (hlsh _ (by omega))⟩
    by_cases hpe : pre = []
    · subst hpe
      have : o.1 = 0 := by simpa [headKey] using h0
      have hp0 : pos = 0 := by omega
      subst hp0
      exact headKey_insertNode_zero _ _
    · refine headKey_insertNode _ _ ?_ (by simp [hpe])
      rw [headKey_append_ne _ _ hpe]
      rw [headKey_append_ne _ _ hpe] at h0
      exact h0

end Fu
