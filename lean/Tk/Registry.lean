import Tk.Basic
/-! C19, the tick-to-commits registry of TicksSinceStart.  `tick0` and the registry are shared by all branch copies of
    the item, the previous tick is per branch.  A commit with parents is appended to the list of its tick unless it is
    already there; a commit without parents is always appended.

    The registry (a Go map from tick to a slice of hashes) is modelled as the list of (tick, commit) pairs in insertion
    order: the slice of a tick is the sub-list of the pairs with that tick. -/
namespace Tk

abbrev Reg := List (Int × Nat)

def regGet (r : Reg) (tick : Int) : List Nat := (r.filter (·.1 = tick)).map (·.2)

/-- the registry part of one `Consume` -/
def record (r : Reg) (tick : Int) (commit nparents : Nat) : Reg :=
  if nparents > 0 && (regGet r tick).contains commit then r else r ++ [(tick, commit)]

/-- **C19 (registry, listing)**: after a commit is analysed it is listed under the tick it was given -/
theorem record_lists (r : Reg) (tick : Int) (commit np : Nat) : commit ∈ regGet (record r tick commit np) tick := by
  unfold record
  split
  · rename_i h
    simp only [Bool.and_eq_true, decide_eq_true_eq, List.contains_iff_mem] at h
    exact h.2
  · simp [regGet]

/-- nothing is ever removed -/
theorem record_mono (r : Reg) (tick : Int) (commit np : Nat) (p : Int × Nat) (h : p ∈ r) :
    p ∈ record r tick commit np := by
  unfold record; split
  · exact h
  · exact List.mem_append_left _ h

/-- one replay: (commit, number of parents, the tick it gets on the branch it is replayed on) -/
structure Replay where
  commit : Nat
  nparents : Nat
  tick : Int

def recordAll (r : Reg) (rs : List Replay) : Reg := rs.foldl (fun r x => record r x.tick x.commit x.nparents) r

/-- how often a commit is listed, over all ticks -/
def listed (r : Reg) (c : Nat) : Nat := (r.filter (·.2 = c)).length

theorem listed_record (r : Reg) (tick : Int) (commit np c : Nat) :
    listed (record r tick commit np) c =
      listed r c + (if c = commit ∧ ¬ (np > 0 ∧ commit ∈ regGet r tick) then 1 else 0) := by
  unfold record listed
  by_cases h : np > 0 ∧ commit ∈ regGet r tick
  · have : (decide (np > 0) && (regGet r tick).contains commit) = true := by
      simp only [Bool.and_eq_true, decide_eq_true_eq, List.contains_iff_mem]; exact h
    simp [this, h]
  · have : (decide (np > 0) && (regGet r tick).contains commit) = false := by
      simp only [Bool.and_eq_false_iff, decide_eq_false_iff_not, List.contains_eq_mem]
      by_cases h1 : np > 0
      · right; simpa using fun h2 => h ⟨h1, h2⟩
      · left; exact h1
    simp only [this, Bool.false_eq_true, if_false, List.filter_append, List.length_append]
    by_cases hc : c = commit
    · subst hc; simp [h]
    · have : ¬ commit = c := fun e => hc e.symm
      simp [hc, this]

/-- **C19 (registry, exactly once)**: if every replay of a commit gets the same tick `tk c` (which is the case when
    committer times never decrease along parent links, `tickOf_monotone_times`) and commits without parents are
    replayed once, then every replayed commit is listed exactly once, under `tk c`, however often it is replayed -/
theorem recordAll_once (tk : Nat → Int) (rs : List Replay) (c : Nat)
    (hsame : ∀ x ∈ rs, x.tick = tk x.commit)
    (hroot : ∀ x ∈ rs, x.nparents = 0 → (rs.filter (·.commit = x.commit)).length = 1) :
    listed (recordAll [] rs) c = if rs.any (·.commit = c) then 1 else 0 := by
  -- invariant over a prefix: listed = 1 iff replayed so far, and if listed then (tk c, c) is in the registry
  suffices H : ∀ (done rest : List Replay) (r : Reg), rs = done ++ rest →
      (listed r c = if done.any (·.commit = c) then 1 else 0) →
      (done.any (·.commit = c) = true → c ∈ regGet r (tk c)) →
      listed (recordAll r rest) c = if rs.any (·.commit = c) then 1 else 0 by
    exact H [] rs [] rfl (by simp [listed]) (by simp)
  intro done rest
  induction rest generalizing done with
  | nil =>
    intro r hrs hl _
    simp only [List.append_nil] at hrs
    subst hrs
    simpa [recordAll] using hl
  | cons x rest ih =>
    intro r hrs hl hin
    simp only [recordAll, List.foldl_cons]
    have hx : x ∈ rs := by rw [hrs]; simp
    have htick := hsame x hx
    apply ih (done ++ [x]) (record r x.tick x.commit x.nparents) (by rw [hrs]; simp)
    · rw [listed_record, hl]
      by_cases hc : x.commit = c
      · -- this replay is of c
        subst hc
        have hany : (done ++ [x]).any (fun y => decide (y.commit = x.commit)) = true := by simp [List.any_append]
        rw [if_pos hany]
        by_cases hd : done.any (fun y => decide (y.commit = x.commit)) = true
        · -- replayed before: must not be listed again
          have hmem := hin hd
          have hnp : x.nparents > 0 := by
            by_cases h0 : x.nparents = 0
            · exfalso
              have h1 := hroot x hx h0
              rw [hrs] at h1
              simp only [List.filter_append, List.length_append, List.filter_cons, decide_true, if_true,
                List.length_cons] at h1
              have : 0 < (done.filter (fun y => decide (y.commit = x.commit))).length := by
                rw [List.length_pos_iff_exists_mem]
                simp only [List.any_eq_true, decide_eq_true_eq] at hd
                obtain ⟨y, hy, hyc⟩ := hd
                exact ⟨y, List.mem_filter.mpr ⟨hy, by simp [hyc]⟩⟩
              omega
            · omega
          have hthere : x.commit ∈ regGet r x.tick := by rw [htick]; exact hmem
          rw [if_pos hd]
          have : ¬ (x.commit = x.commit ∧ ¬ (x.nparents > 0 ∧ x.commit ∈ regGet r x.tick)) := by
            intro ⟨_, h2⟩; exact h2 ⟨hnp, hthere⟩
          rw [if_neg this]
        · -- first replay: listed now (it cannot be in the registry yet: listed r c = 0)
          rw [if_neg hd] at hl ⊢
          have hnot : ¬ (x.commit ∈ regGet r x.tick) := by
            intro hm
            unfold listed at hl
            have : (x.tick, x.commit) ∈ r.filter (fun p => decide (p.2 = x.commit)) := by
              simp only [regGet, List.mem_map, List.mem_filter, decide_eq_true_eq] at hm
              obtain ⟨p, ⟨hp, hpt⟩, hpc⟩ := hm
              refine List.mem_filter.mpr ⟨?_, by simp⟩
              have : p = (x.tick, x.commit) := by cases p; simp_all
              rw [← this]; exact hp
            have := List.length_pos_of_mem this
            omega
          have : (x.commit = x.commit ∧ ¬ (x.nparents > 0 ∧ x.commit ∈ regGet r x.tick)) :=
            ⟨rfl, fun h2 => hnot h2.2⟩
          rw [if_pos this]
      · have hne : ¬ c = x.commit := fun e => hc e.symm
        have : ¬ (c = x.commit ∧ ¬ (x.nparents > 0 ∧ x.commit ∈ regGet r x.tick)) := fun h2 => hne h2.1
        rw [if_neg this]
        simp [List.any_append, hc]
    · intro hany
      simp only [List.any_append, List.any_cons, List.any_nil, Bool.or_false, Bool.or_eq_true,
        decide_eq_true_eq] at hany
      rcases hany with hd | hxc
      · -- already there, and nothing is removed
        have := hin hd
        simp only [regGet, List.mem_map, List.mem_filter, decide_eq_true_eq] at this ⊢
        obtain ⟨p, ⟨hp, hpt⟩, hpc⟩ := this
        exact ⟨p, ⟨record_mono _ _ _ _ _ hp, hpt⟩, hpc⟩
      · have := record_lists r x.tick x.commit x.nparents
        rw [htick, hxc] at this
        rw [htick, hxc]
        exact this

end Tk
