/-! Model of internal/plumbing/ticks.go (C19). Times are absolute nanoseconds since the zero time
    (`Int`, non-negative for the dates git can produce), durations nanoseconds. -/
namespace Tk

/-- `time.Time.Round(d)` for d > 0: nearest multiple of d since the zero time, halves round up -/
def round (t d : Int) : Int :=
  let r := t % d
  if r + r < d then t - r else t + (d - r)

/-- `FloorTime` as coded: round, then step back if the result is after `t` -/
def floorTime (t d : Int) : Int :=
  let res := round t d
  if res > t then res - d else res

def maxDur : Int := 9223372036854775807
def minDur : Int := -9223372036854775808

/-- `time.Time.Sub`: saturating difference -/
def sub (a b : Int) : Int :=
  let x := a - b
  if x > maxDur then maxDur else if x < minDur then minDur else x

/-- one `Consume`: tick of a commit with committer time `t` on a branch whose last tick is `prev` -/
def tickOf (tick0 t d : Int) (prev : Int) : Int :=
  let raw := Int.tdiv (sub t tick0) d          -- Go integer division truncates toward zero
  if raw < prev then prev else raw

theorem floorTime_spec (t d : Int) (hd : 0 < d) : floorTime t d = t - t % d := by
  unfold floorTime round
  have h1 : 0 ≤ t % d := Int.emod_nonneg t (by omega)
  have h2 : t % d < d := Int.emod_lt_of_pos t hd
  simp only
  split <;> split <;> omega

theorem floorTime_le (t d : Int) (hd : 0 < d) : floorTime t d ≤ t ∧ t - floorTime t d < d := by
  rw [floorTime_spec t d hd]
  have h1 : 0 ≤ t % d := Int.emod_nonneg t (by omega)
  have h2 : t % d < d := Int.emod_lt_of_pos t hd
  omega

theorem floorTime_dvd (t d : Int) (hd : 0 < d) : d ∣ floorTime t d := by
  rw [floorTime_spec t d hd]
  exact Int.dvd_self_sub_emod

/-- ticks never decrease along a branch -/
theorem tickOf_ge_prev (tick0 t d prev : Int) : prev ≤ tickOf tick0 t d prev := by
  unfold tickOf; simp only; split <;> omega

/-- within the range of `time.Duration`, and not before the start of period 0, the tick is the whole
    number of periods elapsed, raised to the previous tick -/
theorem tickOf_spec (tick0 t d prev : Int) (hd : 0 < d) (hge : tick0 ≤ t) (hr : t - tick0 ≤ maxDur) :
    tickOf tick0 t d prev = max prev ((t - tick0) / d) := by
  unfold tickOf sub
  have hx : ¬ (t - tick0 > maxDur) := by omega
  have hy : ¬ (t - tick0 < minDur) := by unfold minDur; omega
  simp only [hx, hy, ↓reduceIte]
  have : Int.tdiv (t - tick0) d = (t - tick0) / d := Int.tdiv_eq_ediv_of_nonneg (by omega)
  rw [this]
  split <;> omega

/-- with committer times that never decrease along the branch nothing is raised: the tick depends on
    the commit alone -/
theorem tickOf_monotone_times (tick0 t t' d prev : Int) (hd : 0 < d) (h0 : tick0 ≤ t') (hle : t' ≤ t)
    (hr : t - tick0 ≤ maxDur) (hprev : prev = (t' - tick0) / d) :
    tickOf tick0 t d prev = (t - tick0) / d := by
  rw [tickOf_spec tick0 t d prev hd (by omega) hr, hprev]
  have : (t' - tick0) / d ≤ (t - tick0) / d := Int.ediv_le_ediv hd (by omega)
  omega

end Tk
