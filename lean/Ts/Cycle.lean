import Ts.Model
/-! C15: `FindCycle(seed)`.  Which cycle the breadth-first search returns depends on map iteration order, so the
    model does not compute "the" cycle: it decides whether a cycle through the seed exists (`hasCycleThrough`) and
    validates the list the real code returned (`validCycle`, an observed choice in the sense of DESIGN.md §4). -/
namespace Ts

def G.children (g : G) (n : Nat) : List Nat := ((lookup g.outputs n).getD []).map (·.1)

/-- append the elements of `ps` that are not there yet -/
def addNewN (w ps : List Nat) : List Nat := ps.foldl (fun w p => if w.contains p then w else w ++ [p]) w

/-- nodes reachable from the frontier by one or more edges, `fuel` rounds of expansion -/
def G.reachFrom (g : G) : Nat → List Nat → List Nat → List Nat
  | 0, _, seen => seen
  | fuel + 1, frontier, seen =>
    let next := (addNewN [] (frontier.flatMap g.children)).filter (fun x => !seen.contains x)
    if next.isEmpty then seen else g.reachFrom fuel next (seen ++ next)

/-- a cycle through `seed` exists iff `seed` is reachable from itself by at least one edge -/
def G.hasCycleThrough (g : G) (seed : Nat) : Bool :=
  (g.reachFrom (g.outputs.length + 1) [seed] []).contains seed

/-- `[seed, n1, …, nk]` with edges seed→n1→…→nk→seed (a self-loop gives `[seed]`) -/
def G.validCycle (g : G) (seed : Nat) (c : List Nat) : Bool :=
  match c with
  | [] => false
  | first :: _ =>
    first == seed &&
    (c.zip (c.drop 1 ++ [seed])).all fun (a, b) => (g.children a).contains b

/-- the specification of `FindCycle`'s answer -/
def G.cycleAnswerOK (g : G) (seed : Nat) (answer : List Nat) : Bool :=
  if answer.isEmpty then !g.hasCycleThrough seed else g.validCycle seed answer

end Ts
