import Ts.Refine
/-! C15: graphs built by `AddNode` / `AddEdge` from distinct nodes and distinct edges satisfy the premises of the
    refinement theorems (`WFG`, `WellRanked`) — so `G.toposort_sound/complete/cyclic` hold for every such graph without
    any remaining premise.  (Graphs changed by `RemoveEdge` + `ReindexNode` are covered by the executable premise
    `wfCheck`, evaluated per build.) -/
namespace Ts
open Kahn

theorem setKey_absent {β} (l : List (Nat × β)) (k : Nat) (v : β) (h : k ∉ l.map (·.1)) : setKey l k v = l ++ [(k, v)] := by
  unfold setKey
  have : l.any (·.1 = k) = false := by
    rw [List.any_eq_false]
    intro p hp hk
    exact h (List.mem_map.2 ⟨p, hp, by simpa using hk⟩)
  simp [this]

theorem split_at_key {β} (l : List (Nat × β)) (k : Nat) (v : β) (hnd : (l.map (·.1)).Nodup) (h : lookup l k = some v) :
    ∃ pre post, l = pre ++ (k, v) :: post ∧ k ∉ pre.map (·.1) ∧ k ∉ post.map (·.1) := by
  obtain ⟨pre, post, rfl⟩ := List.append_of_mem (lookup_mem l k v h)
  refine ⟨pre, post, rfl, ?_, ?_⟩
  · intro hk
    simp only [List.map_append, List.map_cons] at hnd
    have := (List.nodup_append.1 hnd).2.2 k hk k (by simp)
    exact this rfl
  · intro hk
    simp only [List.map_append, List.map_cons] at hnd
    have := (List.nodup_cons.1 (List.nodup_append.1 hnd).2.1).1
    exact this hk

theorem setKey_split {β} (pre post : List (Nat × β)) (k : Nat) (v v' : β)
    (hpre : k ∉ pre.map (·.1)) (hpost : k ∉ post.map (·.1)) :
    setKey (pre ++ (k, v) :: post) k v' = pre ++ (k, v') :: post := by
  unfold setKey
  have hany : (pre ++ (k, v) :: post).any (·.1 = k) = true := by simp
  rw [if_pos hany]
  have h1 : pre.map (fun p => if p.1 = k then (k, v') else p) = pre := by
    calc pre.map _ = pre.map id := List.map_congr_left (fun p hp => by
            have : p.1 ≠ k := fun e => hpre (List.mem_map.2 ⟨p, hp, e⟩)
            simp [this])
      _ = pre := List.map_id pre
  have h2 : post.map (fun p => if p.1 = k then (k, v') else p) = post := by
    calc post.map _ = post.map id := List.map_congr_left (fun p hp => by
            have : p.1 ≠ k := fun e => hpost (List.mem_map.2 ⟨p, hp, e⟩)
            simp [this])
      _ = post := List.map_id post
  simp [List.map_append, h1, h2]

theorem lookup_append_left {β} (l l' : List (Nat × β)) (k : Nat) (v : β) (h : lookup l k = some v) :
    lookup (l ++ l') k = some v := by
  unfold lookup at h ⊢
  rw [List.find?_append]
  cases hf : l.find? (·.1 = k) with
  | none => simp [hf] at h
  | some p => simpa [hf] using h

theorem indeg_perm {E E' : List Edge} (h : E.Perm E') (m : Nat) : indeg E m = indeg E' m :=
  (h.filter _).length_eq

theorem indeg_cons (a b : Nat) (E : List Edge) (x : Nat) : indeg ((a, b) :: E) x = indeg E x + (if b = x then 1 else 0) := by
  unfold indeg
  by_cases h : b = x <;> simp [List.filter_cons, h]

/-- ranks 1..k in insertion order, children distinct -/
def SeqRanks (m : List (Nat × Nat)) : Prop := m.map (·.2) = List.range' 1 m.length ∧ (m.map (·.1)).Nodup

structure Built (g : G) : Prop where
  wf : WFG g
  seq : ∀ p ∈ g.outputs, SeqRanks p.2

theorem built_empty : Built G.empty :=
  ⟨⟨by simp [G.nodes, G.empty], by simp [G.edges, G.empty], by simp [G.edges, G.empty], by simp [G.edges, G.empty],
    by simp [G.nodes, G.empty], by simp [G.empty], by simp [G.empty]⟩, by simp [G.empty]⟩

theorem edges_append (o1 o2 : List (Nat × List (Nat × Nat))) :
    (G.edges ⟨o1 ++ o2, []⟩) = G.edges ⟨o1, []⟩ ++ G.edges ⟨o2, []⟩ := by
  simp [G.edges, List.flatMap_append]

theorem edges_def (g : G) : g.edges = G.edges ⟨g.outputs, []⟩ := rfl

/-- `AddNode` of a new node keeps the invariant -/
theorem built_addNode (g : G) (h : Built g) (n : Nat) (hn : n ∉ g.nodes) : Built (g.addNode n).1 := by
  have hl : lookup g.outputs n = none := by
    cases hq : lookup g.outputs n with
    | none => rfl
    | some v => exact absurd (mem_keys_of_lookup _ _ _ hq) hn
  have hkeys : n ∉ g.inputs.map (·.1) := fun hk => hn (h.wf.inputsKeys n hk)
  have hg : (g.addNode n).1 = ⟨g.outputs ++ [(n, [])], g.inputs ++ [(n, 0)]⟩ := by
    simp [G.addNode, hl, setKey_absent _ _ _ hkeys]
  rw [hg]
  have hnodes : G.nodes ⟨g.outputs ++ [(n, [])], g.inputs ++ [(n, 0)]⟩ = g.nodes ++ [n] := by simp [G.nodes]
  have hedges : G.edges ⟨g.outputs ++ [(n, [])], g.inputs ++ [(n, 0)]⟩ = g.edges := by simp [G.edges, List.flatMap_append]
  refine ⟨⟨?_, ?_, ?_, ?_, ?_, ?_, ?_⟩, ?_⟩
  · rw [hnodes, List.nodup_append]
    exact ⟨h.wf.nodesNodup, by simp, by intro a ha b hb; simp at hb; subst hb; intro e; subst e; exact hn ha⟩
  · rw [hedges]; exact h.wf.edgesNodup
  · rw [hedges, hnodes]; intro e he; exact List.mem_append_left _ (h.wf.sources e he)
  · rw [hedges, hnodes]; intro e he; exact List.mem_append_left _ (h.wf.targets e he)
  · rw [hedges, hnodes]
    intro m hm
    rcases List.mem_append.1 hm with hm | hm
    · exact lookup_append_left _ _ _ _ (h.wf.inputs m hm)
    · simp only [List.mem_singleton] at hm; subst hm
      have h0 : indeg g.edges m = 0 := by
        unfold indeg
        rw [List.length_eq_zero_iff, List.filter_eq_nil_iff]
        intro e he hem
        have := h.wf.targets e he
        simp only [decide_eq_true_eq] at hem
        rw [hem] at this; exact hn this
      rw [h0]
      have := lookup_setKey_same g.inputs m (0 : Int)
      rw [setKey_absent _ _ _ hkeys] at this
      simpa using this
  · simp only [List.map_append, List.map_cons, List.map_nil]
    rw [List.nodup_append]
    exact ⟨h.wf.inputsNodup, by simp, by intro a ha b hb; simp at hb; subst hb; intro e; subst e; exact hkeys ha⟩
  · rw [hnodes]
    intro k hk
    simp only [List.map_append, List.map_cons, List.map_nil, List.mem_append, List.mem_singleton] at hk
    rcases hk with hk | hk
    · exact List.mem_append_left _ (h.wf.inputsKeys k hk)
    · subst hk; simp
  · intro p hp
    rcases List.mem_append.1 hp with hp | hp
    · exact h.seq p hp
    · simp only [List.mem_singleton] at hp; subst hp; exact ⟨by simp, by simp⟩

theorem edges_split (pre post : List (Nat × List (Nat × Nat))) (a : Nat) (m : List (Nat × Nat)) (inp : List (Nat × Int)) :
    G.edges ⟨pre ++ (a, m) :: post, inp⟩ =
      G.edges ⟨pre, []⟩ ++ m.map (fun c => (a, c.1)) ++ G.edges ⟨post, []⟩ := by
  simp [G.edges, List.flatMap_append, List.flatMap_cons]

/-- `AddEdge a b` between existing nodes, for an edge that is not there yet, keeps the invariant and adds exactly
that edge -/
theorem built_addEdge (g : G) (h : Built g) (a b : Nat) (ha : a ∈ g.nodes) (hb : b ∈ g.nodes) (hab : (a, b) ∉ g.edges) :
    Built (g.addEdge a b).1 ∧ (g.addEdge a b).1.nodes = g.nodes ∧ (g.addEdge a b).1.edges.Perm ((a, b) :: g.edges) := by
  obtain ⟨m, hm⟩ := lookup_some_of_mem g.outputs a ha
  obtain ⟨pre, post, hout, hpre, hpost⟩ := split_at_key g.outputs a m h.wf.nodesNodup hm
  have hmem : (a, m) ∈ g.outputs := lookup_mem _ _ _ hm
  have hbm : b ∉ m.map (·.1) := by
    intro hk
    apply hab
    obtain ⟨c, hc, hcb⟩ := List.mem_map.1 hk
    unfold G.edges
    rw [List.mem_flatMap]
    exact ⟨(a, m), hmem, List.mem_map.2 ⟨c, hc, by simp [hcb]⟩⟩
  have hinb : lookup g.inputs b = some (indeg g.edges b : Int) := h.wf.inputs b hb
  have hg : (g.addEdge a b).1 =
      ⟨pre ++ (a, m ++ [(b, m.length + 1)]) :: post, setKey g.inputs b ((indeg g.edges b : Int) + 1)⟩ := by
    unfold G.addEdge
    simp only [hm, hinb, Option.getD_some, setKey_absent m b _ hbm]
    congr 1
    rw [hout]; exact setKey_split pre post a m _ hpre hpost
  have hnodes : (g.addEdge a b).1.nodes = g.nodes := by
    rw [hg]; unfold G.nodes; rw [hout]; simp
  have hE : g.edges = G.edges ⟨pre, []⟩ ++ m.map (fun c => (a, c.1)) ++ G.edges ⟨post, []⟩ := by
    rw [edges_def, hout]; exact edges_split pre post a m []
  have hE' : (g.addEdge a b).1.edges =
      G.edges ⟨pre, []⟩ ++ (m.map (fun c => (a, c.1)) ++ [(a, b)]) ++ G.edges ⟨post, []⟩ := by
    rw [hg, edges_split]; simp
  have hperm : (g.addEdge a b).1.edges.Perm ((a, b) :: g.edges) := by
    rw [hE', hE]
    have : (G.edges ⟨pre, []⟩ ++ (m.map (fun c => (a, c.1)) ++ [(a, b)]) ++ G.edges ⟨post, []⟩) =
        (G.edges ⟨pre, []⟩ ++ m.map (fun c => (a, c.1))) ++ (a, b) :: G.edges ⟨post, []⟩ := by simp
    rw [this]
    exact List.perm_middle
  refine ⟨⟨⟨?_, ?_, ?_, ?_, ?_, ?_, ?_⟩, ?_⟩, hnodes, hperm⟩
  · rw [hnodes]; exact h.wf.nodesNodup
  · exact hperm.nodup_iff.2 (List.nodup_cons.2 ⟨hab, h.wf.edgesNodup⟩)
  · rw [hnodes]; intro e he
    rcases List.mem_cons.1 (hperm.mem_iff.1 he) with rfl | he
    · exact ha
    · exact h.wf.sources e he
  · rw [hnodes]; intro e he
    rcases List.mem_cons.1 (hperm.mem_iff.1 he) with rfl | he
    · exact hb
    · exact h.wf.targets e he
  · rw [hnodes]
    intro x hx
    rw [indeg_perm hperm x, indeg_cons]
    have hginp : (g.addEdge a b).1.inputs = setKey g.inputs b ((indeg g.edges b : Int) + 1) := by rw [hg]
    rw [hginp]
    by_cases hxb : b = x
    · subst hxb
      rw [lookup_setKey_same]; simp
    · rw [lookup_setKey_other _ _ _ _ (fun e => hxb e.symm), h.wf.inputs x hx]; simp [hxb]
  · have hginp : (g.addEdge a b).1.inputs = setKey g.inputs b ((indeg g.edges b : Int) + 1) := by rw [hg]
    rw [hginp, keys_setKey_present _ _ _ (any_key_of_mem _ _ (mem_keys_of_lookup _ _ _ hinb))]
    exact h.wf.inputsNodup
  · have hginp : (g.addEdge a b).1.inputs = setKey g.inputs b ((indeg g.edges b : Int) + 1) := by rw [hg]
    rw [hginp, keys_setKey_present _ _ _ (any_key_of_mem _ _ (mem_keys_of_lookup _ _ _ hinb)), hnodes]
    exact h.wf.inputsKeys
  · intro p hp
    rw [hg] at hp
    simp only [List.mem_append, List.mem_cons] at hp
    have hseqm := h.seq (a, m) hmem
    rcases hp with hp | hp | hp
    · exact h.seq p (by rw [hout]; simp [hp])
    · subst hp
      refine ⟨?_, ?_⟩
      · simp only [List.map_append, List.map_cons, List.map_nil, List.length_append, List.length_cons, List.length_nil]
        rw [hseqm.1, List.range'_concat]
        simp [Nat.add_comm]
      · simp only [List.map_append, List.map_cons, List.map_nil]
        rw [List.nodup_append]
        exact ⟨hseqm.2, by simp, by intro x hx y hy; simp at hy; subst hy; intro e; subst e; exact hbm hx⟩
    · exact h.seq p (by rw [hout]; simp [hp])

/-- with ranks `s, s+1, …` in order, the entry of rank `s + i` is the `i`-th one -/
theorem find_rank (m : List (Nat × Nat)) (s : Nat) (h : m.map (·.2) = List.range' s m.length) :
    ∀ i, i < m.length → m.find? (fun p => p.2 = s + i) = m[i]? := by
  induction m generalizing s with
  | nil => intro i hi; simp at hi
  | cons p m ih =>
    intro i hi
    simp only [List.map_cons, List.length_cons, List.range'_succ, List.cons.injEq] at h
    obtain ⟨hp, hm⟩ := h
    cases i with
    | zero => simp [List.find?_cons, hp]
    | succ j =>
      have hne : ¬ p.2 = s + (j + 1) := by omega
      simp only [List.find?_cons, hne, decide_false, List.getElem?_cons_succ]
      have := ih (s + 1) hm j (by simpa using hi)
      rw [← this]
      congr 1
      funext q
      simp only [decide_eq_decide]
      omega

theorem childrenByRank_seq (m : List (Nat × Nat)) (h : SeqRanks m) : childrenByRank m = some (m.map (·.1)) := by
  unfold childrenByRank
  have : ∀ (l : List (Nat × Nat)) (k : Nat) (pre : List (Nat × Nat)), m = pre ++ l → k = pre.length →
      (List.range' k l.length).mapM (fun i => (m.find? (fun p => p.2 = i + 1)).map (·.1)) = some (l.map (·.1)) := by
    intro l
    induction l with
    | nil => intro k pre _ _; simp
    | cons x l ih =>
      intro k pre hm hk
      simp only [List.length_cons, List.range'_succ, List.mapM_cons]
      have hklt : k < m.length := by rw [hm, hk]; simp
      have hfind : m.find? (fun p => p.2 = k + 1) = some x := by
        have := find_rank m 1 h.1 k hklt
        simp only [Nat.add_comm 1 k] at this
        rw [this, hm, hk]; simp
      rw [hfind]
      have := ih (k + 1) (pre ++ [x]) (by rw [hm]; simp) (by simp [hk])
      simp only [Option.map_some, Option.bind_eq_bind, Option.bind_some, this]
      rfl
  have h0 := this m 0 [] (by simp) rfl
  simp only []
  rw [List.range_eq_range']
  exact h0

/-- the invariant of the builder gives the premises of the refinement theorems -/
theorem built_premises (g : G) (h : Built g) : WFG g ∧ WellRanked g g.edges [] := by
  refine ⟨h.wf, ?_⟩
  intro n hn _
  obtain ⟨m, hm⟩ := lookup_some_of_mem g.outputs n hn
  have hmem : (n, m) ∈ g.outputs := lookup_mem _ _ _ hm
  have hs := h.seq (n, m) hmem
  refine ⟨m.map (·.1), by rw [hm]; exact childrenByRank_seq m hs, hs.2, ?_⟩
  intro c
  unfold G.edges
  rw [List.mem_flatMap]
  constructor
  · intro hc
    obtain ⟨x, hx, hxc⟩ := List.mem_map.1 hc
    exact ⟨(n, m), hmem, List.mem_map.2 ⟨x, hx, by simp [hxc]⟩⟩
  · rintro ⟨p, hp, hcp⟩
    obtain ⟨x, hx, hxe⟩ := List.mem_map.1 hcp
    have hp1 : p.1 = n := by simpa using congrArg Prod.fst hxe
    have : p = (n, m) := by
      have := lookup_of_mem_nodup g.outputs p.1 p.2 h.wf.nodesNodup (by simpa using hp)
      rw [hp1, hm] at this
      injection this with e
      exact Prod.ext hp1 e.symm
    subst this
    exact List.mem_map.2 ⟨x, hx, by simpa using congrArg Prod.snd hxe⟩

/-- build a graph as the probes and `Pipeline.resolve` do: all nodes first, then the edges -/
def buildG (nodes : List Nat) (edges : List Edge) : G :=
  edges.foldl (fun g e => (g.addEdge e.1 e.2).1) (nodes.foldl (fun g n => (g.addNode n).1) G.empty)

theorem build_nodes : ∀ (ns : List Nat) (g : G), Built g → ns.Nodup → (∀ n ∈ ns, n ∉ g.nodes) →
    Built (ns.foldl (fun g n => (g.addNode n).1) g) ∧
    (ns.foldl (fun g n => (g.addNode n).1) g).nodes = g.nodes ++ ns ∧
    (ns.foldl (fun g n => (g.addNode n).1) g).edges = g.edges := by
  intro ns
  induction ns with
  | nil => intro g h _ _; exact ⟨h, by simp, rfl⟩
  | cons n ns ih =>
    intro g h hnd hfresh
    simp only [List.foldl_cons]
    rw [List.nodup_cons] at hnd
    have hn : n ∉ g.nodes := hfresh n List.mem_cons_self
    have hb := built_addNode g h n hn
    have hl : lookup g.outputs n = none := by
      cases hq : lookup g.outputs n with
      | none => rfl
      | some v => exact absurd (mem_keys_of_lookup _ _ _ hq) hn
    have hnodes : (g.addNode n).1.nodes = g.nodes ++ [n] := by simp [G.addNode, hl, G.nodes]
    have hedges : (g.addNode n).1.edges = g.edges := by simp [G.addNode, hl, G.edges, List.flatMap_append]
    obtain ⟨b', n', e'⟩ := ih (g.addNode n).1 hb hnd.2 (by
      intro x hx hxn
      rw [hnodes] at hxn
      rcases List.mem_append.1 hxn with hxn | hxn
      · exact hfresh x (List.mem_cons_of_mem _ hx) hxn
      · simp only [List.mem_singleton] at hxn; subst hxn; exact hnd.1 hx)
    refine ⟨b', ?_, ?_⟩
    · rw [n', hnodes]; simp
    · rw [e', hedges]

theorem build_edges : ∀ (es : List Edge) (g : G), Built g → es.Nodup → (∀ e ∈ es, e.1 ∈ g.nodes ∧ e.2 ∈ g.nodes ∧ e ∉ g.edges) →
    Built (es.foldl (fun g e => (g.addEdge e.1 e.2).1) g) ∧
    (es.foldl (fun g e => (g.addEdge e.1 e.2).1) g).nodes = g.nodes ∧
    (es.foldl (fun g e => (g.addEdge e.1 e.2).1) g).edges.Perm (es.reverse ++ g.edges) := by
  intro es
  induction es with
  | nil => intro g h _ _; exact ⟨h, rfl, by simp⟩
  | cons e es ih =>
    intro g h hnd hok
    simp only [List.foldl_cons]
    rw [List.nodup_cons] at hnd
    obtain ⟨h1, h2, h3⟩ := hok e List.mem_cons_self
    obtain ⟨hb, hn, hp⟩ := built_addEdge g h e.1 e.2 h1 h2 h3
    obtain ⟨b', n', p'⟩ := ih (g.addEdge e.1 e.2).1 hb hnd.2 (by
      intro x hx
      obtain ⟨x1, x2, x3⟩ := hok x (List.mem_cons_of_mem _ hx)
      refine ⟨by rw [hn]; exact x1, by rw [hn]; exact x2, ?_⟩
      intro hxe
      rcases List.mem_cons.1 (hp.mem_iff.1 hxe) with hxe | hxe
      · have hxe' : x = e := by rw [hxe]
        exact hnd.1 (hxe' ▸ hx)
      · exact x3 hxe)
    refine ⟨b', by rw [n', hn], ?_⟩
    refine p'.trans ?_
    simp only [List.reverse_cons, List.append_assoc, List.singleton_append]
    exact List.Perm.append_left _ hp

/-- **graphs built from distinct nodes and distinct edges meet the premises** -/
theorem buildG_premises (nodes : List Nat) (edges : List Edge) (hn : nodes.Nodup) (he : edges.Nodup)
    (hv : ∀ e ∈ edges, e.1 ∈ nodes ∧ e.2 ∈ nodes) :
    WFG (buildG nodes edges) ∧ WellRanked (buildG nodes edges) (buildG nodes edges).edges [] ∧
    (buildG nodes edges).nodes = nodes ∧ (buildG nodes edges).edges.Perm edges := by
  obtain ⟨b1, n1, e1⟩ := build_nodes nodes G.empty built_empty hn (by simp [G.nodes, G.empty])
  have n1' : (nodes.foldl (fun g n => (g.addNode n).1) G.empty).nodes = nodes := by simpa [G.nodes, G.empty] using n1
  have e1' : (nodes.foldl (fun g n => (g.addNode n).1) G.empty).edges = [] := by simpa [G.edges, G.empty] using e1
  obtain ⟨b2, n2, p2⟩ := build_edges edges _ b1 he (by
    intro e hee
    rw [n1', e1']
    exact ⟨(hv e hee).1, (hv e hee).2, by simp⟩)
  obtain ⟨w, r⟩ := built_premises _ b2
  refine ⟨w, r, by unfold buildG; rw [n2, n1'], ?_⟩
  unfold buildG
  refine p2.trans ?_
  rw [e1']
  simp

/-- **C15 on built graphs, no premise left**: for every graph built by AddNode/AddEdge from distinct nodes and distinct
edges between them, a reported success is a duplicate-free list of exactly the nodes with every edge pointing forward -/
theorem buildG_toposort_sound (nodes : List Nat) (edges : List Edge) (hn : nodes.Nodup) (he : edges.Nodup)
    (hv : ∀ e ∈ edges, e.1 ∈ nodes ∧ e.2 ∈ nodes) (L : List Nat)
    (h : (buildG nodes edges).toposort = some (L, true)) :
    L.Nodup ∧ (∀ x, x ∈ L ↔ x ∈ nodes) ∧ ∀ e ∈ edges, Before L e.1 e.2 := by
  obtain ⟨w, r, hnodes, hperm⟩ := buildG_premises nodes edges hn he hv
  obtain ⟨a, b, c⟩ := G.toposort_sound _ w r L h
  refine ⟨a, by rw [← hnodes]; exact b, fun e hee => c e (hperm.mem_iff.2 hee)⟩

/-- … and the sort succeeds exactly on acyclic graphs -/
theorem buildG_toposort_iff (nodes : List Nat) (edges : List Edge) (hn : nodes.Nodup) (he : edges.Nodup)
    (hv : ∀ e ∈ edges, e.1 ∈ nodes ∧ e.2 ∈ nodes) :
    (∃ L, (buildG nodes edges).toposort = some (L, true)) ↔ Ranked edges := by
  obtain ⟨w, r, _, hperm⟩ := buildG_premises nodes edges hn he hv
  have hrk : Ranked (buildG nodes edges).edges ↔ Ranked edges := by
    constructor
    · rintro ⟨f, hf⟩; exact ⟨f, fun e hee => hf e (hperm.mem_iff.2 hee)⟩
    · rintro ⟨f, hf⟩; exact ⟨f, fun e hee => hf e (hperm.mem_iff.1 hee)⟩
  constructor
  · rintro ⟨L, hL⟩
    by_cases hr : Ranked (buildG nodes edges).edges
    · exact hrk.1 hr
    · obtain ⟨L', hL'⟩ := G.toposort_cyclic _ w r hr
      rw [hL] at hL'; simp at hL'
  · intro hr
    exact G.toposort_complete _ w r (hrk.2 hr)

end Ts
