/-! Abstract Kahn's algorithm (the shape of toposort.Graph.Toposort) and its soundness. -/
namespace Kahn

abbrev Edge := Nat × Nat

def noIn (E : List Edge) (x : Nat) : Bool := E.all (fun e => e.2 != x)

theorem noIn_iff {E : List Edge} {x : Nat} : noIn E x = true ↔ ∀ e ∈ E, e.2 ≠ x := by
  simp [noIn]

/-- remove the edges n→m for the children `ms` in order; a child whose in-degree drops to 0 joins the queue -/
def relax (n : Nat) : List Nat → List Edge → List Nat → List Edge × List Nat
  | [], E, S => (E, S)
  | m :: ms, E, S =>
    let E' := E.filter (fun e => e != (n, m))
    relax n ms E' (if noIn E' m then S ++ [m] else S)

def children (E : List Edge) (n : Nat) : List Nat := (E.filter (fun e => e.1 == n)).map (·.2)

/-- `pick E n` = the order in which the out-edges of `n` are removed (the real code: by insertion rank) -/
def kahnP (pick : List Edge → Nat → List Nat) : Nat → List Edge → List Nat → List Nat → Option (List Edge × List Nat)
  | _, E, [], L => some (E, L)
  | 0, _, _ :: _, _ => none
  | f + 1, E, n :: S, L =>
    let r := relax n (pick E n) E S
    kahnP pick f r.1 r.2 (L ++ [n])

/-- what the proof needs from the child order: distinct children, each an existing edge -/
def PickOK (pick : List Edge → Nat → List Nat) : Prop :=
  ∀ E n, E.Nodup → (pick E n).Nodup ∧ ∀ m ∈ pick E n, (n, m) ∈ E

def toposortP (pick : List Edge → Nat → List Nat) (V : List Nat) (E : List Edge) : Option (List Nat × Bool) :=
  (kahnP pick (V.length + 1) E (V.filter (noIn E)) []).map fun r => (r.2, r.1.isEmpty)

def kahn := kahnP children
def toposort := toposortP children

def Before (L : List Nat) (a b : Nat) : Prop := ∃ L1 L2, L = L1 ++ b :: L2 ∧ a ∈ L1

structure Inv (V : List Nat) (E0 E : List Edge) (S L : List Nat) : Prop where
  sub : ∀ e ∈ E, e ∈ E0
  gone : ∀ e ∈ E0, e ∈ E ∨ e.1 ∈ L
  zero : ∀ x ∈ S ++ L, noIn E x = true
  nodup : (S ++ L).Nodup
  ready : ∀ x ∈ V, noIn E x = true → x ∈ S ++ L
  inV : ∀ x ∈ S ++ L, x ∈ V
  order : ∀ e ∈ E0, e.2 ∈ L → Before L e.1 e.2

theorem before_snoc {L : List Nat} {a b : Nat} (n : Nat) (h : Before L a b) : Before (L ++ [n]) a b := by
  obtain ⟨L1, L2, rfl, ha⟩ := h
  exact ⟨L1, L2 ++ [n], by simp, ha⟩

/-- moving the head of the queue to the output keeps the invariant -/
theorem inv_pop {V : List Nat} {E0 E : List Edge} {n : Nat} {S L : List Nat}
    (h : Inv V E0 E (n :: S) L) : Inv V E0 E S (L ++ [n]) := by
  have hmem : ∀ x, x ∈ S ++ (L ++ [n]) ↔ x ∈ (n :: S) ++ L := by
    intro x; simp only [List.mem_append, List.mem_cons, List.mem_singleton, List.not_mem_nil, or_false]
    constructor
    · rintro (h | h | h) <;> simp [h]
    · rintro ((h | h) | h) <;> simp [h]
  have hnd := h.nodup
  have hnL : n ∉ L := by
    intro hn
    have := (List.nodup_append.1 hnd).2.2 n (by simp) n hn
    exact this rfl
  refine ⟨h.sub, ?_, ?_, ?_, ?_, ?_, ?_⟩
  · intro e he
    rcases h.gone e he with h1 | h1
    · exact .inl h1
    · exact .inr (List.mem_append_left _ h1)
  · intro x hx; exact h.zero x ((hmem x).1 hx)
  · have : (S ++ (L ++ [n])).Perm ((n :: S) ++ L) := by
      rw [← List.append_assoc]
      exact (List.perm_append_singleton n (S ++ L)).trans (by simp)
    exact this.nodup_iff.2 hnd
  · intro x hx hz; exact (hmem x).2 (h.ready x hx hz)
  · intro x hx; exact h.inV x ((hmem x).1 hx)
  · intro e he h2
    rcases List.mem_append.1 h2 with h2 | h2
    · exact before_snoc n (h.order e he h2)
    · have e2 : e.2 = n := by simpa using h2
      have hz := h.zero n (by simp)
      rcases h.gone e he with h1 | h1
      · exact absurd e2 (noIn_iff.1 hz e h1)
      · exact ⟨L, [], by rw [e2], h1⟩

theorem noIn_filter {E : List Edge} {p : Edge → Bool} {x : Nat} (h : noIn E x = true) :
    noIn (E.filter p) x = true := by
  rw [noIn_iff] at *
  intro e he
  exact h e (List.mem_filter.1 he).1

/-- removing the out-edges of a node that is already in the output keeps the invariant -/
theorem inv_relax {V : List Nat} {E0 : List Edge} (hV : ∀ e ∈ E0, e.1 ∈ V ∧ e.2 ∈ V) (n : Nat) {L : List Nat}
    (hn : n ∈ L) : ∀ (ms : List Nat) (E : List Edge) (S : List Nat),
    Inv V E0 E S L → ms.Nodup → (∀ m ∈ ms, (n, m) ∈ E) →
    Inv V E0 (relax n ms E S).1 (relax n ms E S).2 L := by
  intro ms
  induction ms with
  | nil => intro E S h _ _; exact h
  | cons m ms ih =>
    intro E S h hnd hch
    simp only [relax]
    have hmE : (n, m) ∈ E := hch m (by simp)
    have hm_notin : m ∉ S ++ L := by
      intro hx
      exact noIn_iff.1 (h.zero m hx) (n, m) hmE rfl
    have hfilt : ∀ e, e ∈ E.filter (fun e => e != (n, m)) ↔ e ∈ E ∧ e ≠ (n, m) := by
      intro e; simp [List.mem_filter]
    apply ih
    · -- invariant after one removal
      refine ⟨?_, ?_, ?_, ?_, ?_, ?_, h.order⟩
      · intro e he; exact h.sub e ((hfilt e).1 he).1
      · intro e he
        rcases h.gone e he with h1 | h1
        · by_cases c : e = (n, m)
          · subst c; exact .inr hn
          · exact .inl ((hfilt e).2 ⟨h1, c⟩)
        · exact .inr h1
      · intro x hx
        split at hx
        · rename_i hz
          rcases List.mem_append.1 hx with hx | hx
          · rcases List.mem_append.1 hx with hx | hx
            · exact noIn_filter (h.zero x (List.mem_append_left _ hx))
            · have : x = m := by simpa using hx
              subst this; exact hz
          · exact noIn_filter (h.zero x (List.mem_append_right _ hx))
        · exact noIn_filter (h.zero x hx)
      · split
        · have : ((S ++ [m]) ++ L).Perm (m :: (S ++ L)) := by
            simp only [List.append_assoc, List.singleton_append]
            exact List.perm_middle
          rw [this.nodup_iff, List.nodup_cons]
          exact ⟨hm_notin, h.nodup⟩
        · exact h.nodup
      · intro x hx hz
        by_cases c : noIn E x = true
        · have := h.ready x hx c
          split
          · rcases List.mem_append.1 this with t | t
            · exact List.mem_append_left _ (List.mem_append_left _ t)
            · exact List.mem_append_right _ t
          · exact this
        · -- the in-degree of x dropped to zero now: x = m
          have : ∃ e ∈ E, e.2 = x := by
            have c' : noIn E x = false := by simpa using c
            unfold noIn at c'
            rw [List.all_eq_false] at c'
            obtain ⟨e, he, h2⟩ := c'
            exact ⟨e, he, by simpa using h2⟩
          obtain ⟨e, he, h2⟩ := this
          have : e = (n, m) := by
            apply Decidable.byContradiction
            intro hne
            exact noIn_iff.1 hz e ((hfilt e).2 ⟨he, hne⟩) h2
          subst this
          simp only at h2
          subst h2
          rw [if_pos hz]
          exact List.mem_append_left _ (List.mem_append_right _ (by simp))
      · intro x hx
        split at hx
        · rcases List.mem_append.1 hx with hx | hx
          · rcases List.mem_append.1 hx with hx | hx
            · exact h.inV x (List.mem_append_left _ hx)
            · have : x = m := by simpa using hx
              subst this
              exact (hV (n, x) (h.sub _ hmE)).2
          · exact h.inV x (List.mem_append_right _ hx)
        · exact h.inV x hx
    · exact (List.nodup_cons.1 hnd).2
    · intro m' hm'
      have hne : m' ≠ m := fun e => (List.nodup_cons.1 hnd).1 (e ▸ hm')
      exact (hfilt (n, m')).2 ⟨hch m' (by simp [hm']), by simp [hne]⟩

theorem children_nodup {E : List Edge} (h : E.Nodup) (n : Nat) : (children E n).Nodup := by
  unfold children
  induction E with
  | nil => simp
  | cons e E ih =>
    have hE := (List.nodup_cons.1 h).2
    have he := (List.nodup_cons.1 h).1
    simp only [List.filter_cons]
    split
    · rename_i h1
      simp only [beq_iff_eq] at h1
      simp only [List.map_cons, List.nodup_cons]
      refine ⟨?_, ih hE⟩
      intro hm
      obtain ⟨e', he', h2⟩ := List.mem_map.1 hm
      have h3 := List.mem_filter.1 he'
      simp only [beq_iff_eq] at h3
      have : e' = e := Prod.ext (h3.2.trans h1.symm) h2
      exact he (this ▸ h3.1)
    · exact ih hE

theorem mem_children {E : List Edge} {n m : Nat} (h : m ∈ children E n) : (n, m) ∈ E := by
  unfold children at h
  obtain ⟨e, he, rfl⟩ := List.mem_map.1 h
  have := List.mem_filter.1 he
  simp only [beq_iff_eq] at this
  obtain ⟨h1, h2⟩ := this
  rw [← h2]; exact h1

theorem relax_nodup (n : Nat) : ∀ (ms : List Nat) (E : List Edge) (S : List Nat), E.Nodup → (relax n ms E S).1.Nodup := by
  intro ms
  induction ms with
  | nil => intro E S h; exact h
  | cons m ms ih => intro E S h; simp only [relax]; exact ih _ _ (h.filter _)

theorem kahn_inv {V : List Nat} {E0 : List Edge} (hV : ∀ e ∈ E0, e.1 ∈ V ∧ e.2 ∈ V)
    (pick : List Edge → Nat → List Nat) (hpick : PickOK pick) :
    ∀ (f : Nat) (E : List Edge) (S L : List Nat) (E' : List Edge) (L' : List Nat),
    E.Nodup → Inv V E0 E S L → kahnP pick f E S L = some (E', L') → Inv V E0 E' [] L' := by
  intro f
  induction f with
  | zero =>
    intro E S L E' L' _ h hk
    cases S with
    | nil => simp [kahnP] at hk; obtain ⟨rfl, rfl⟩ := hk; exact h
    | cons n S => simp [kahnP] at hk
  | succ f ih =>
    intro E S L E' L' hnd h hk
    cases S with
    | nil => simp [kahnP] at hk; obtain ⟨rfl, rfl⟩ := hk; exact h
    | cons n S =>
      simp only [kahnP] at hk
      have h1 := inv_pop h
      have h2 := inv_relax hV n (L := L ++ [n]) (by simp) (pick E n) E S h1 (hpick E n hnd).1
        (hpick E n hnd).2
      exact ih _ _ _ _ _ (relax_nodup n _ _ _ hnd) h2 hk

/-- **C15 (soundness)**: when the sort reports success, the result lists every node exactly once and every
    edge points forward. -/
theorem toposortP_sound (pick : List Edge → Nat → List Nat) (hpick : PickOK pick)
    (V : List Nat) (E : List Edge) (hVn : V.Nodup) (hEn : E.Nodup)
    (hV : ∀ e ∈ E, e.1 ∈ V ∧ e.2 ∈ V) (L : List Nat) (h : toposortP pick V E = some (L, true)) :
    L.Nodup ∧ (∀ x, x ∈ L ↔ x ∈ V) ∧ ∀ e ∈ E, Before L e.1 e.2 := by
  unfold toposortP at h
  cases hk : kahnP pick (V.length + 1) E (V.filter (noIn E)) [] with
  | none => simp [hk] at h
  | some r =>
    obtain ⟨E', L'⟩ := r
    simp [hk] at h
    obtain ⟨rfl, hE'⟩ := h
    have hE'' : E' = [] := by simpa using hE'
    subst hE''
    have h0 : Inv V E E (V.filter (noIn E)) [] := by
      refine ⟨fun _ h => h, fun _ h => .inl h, ?_, ?_, ?_, ?_, ?_⟩
      · intro x hx; simp at hx; exact hx.2
      · simpa using List.Nodup.sublist List.filter_sublist hVn
      · intro x hx hz; simp [hx, hz]
      · intro x hx; simp at hx; exact hx.1
      · intro e _ h2; simp at h2
    have hf := kahn_inv hV pick hpick _ _ _ _ _ _ hEn h0 hk
    refine ⟨by simpa using hf.nodup, ?_, ?_⟩
    · intro x
      constructor
      · intro hx; exact hf.inV x (by simpa using hx)
      · intro hx; simpa using hf.ready x hx (by simp [noIn])
    · intro e he
      have := hf.gone e he
      simp at this
      have h2 : e.2 ∈ L' := by simpa using hf.ready e.2 (hV e he).2 (by simp [noIn])
      exact hf.order e he h2

theorem children_pickOK : PickOK children :=
  fun E n hE => ⟨children_nodup hE n, fun _ hm => mem_children hm⟩

theorem toposort_sound (V : List Nat) (E : List Edge) (hVn : V.Nodup) (hEn : E.Nodup)
    (hV : ∀ e ∈ E, e.1 ∈ V ∧ e.2 ∈ V) (L : List Nat) (h : toposort V E = some (L, true)) :
    L.Nodup ∧ (∀ x, x ∈ L ↔ x ∈ V) ∧ ∀ e ∈ E, Before L e.1 e.2 :=
  toposortP_sound children children_pickOK V E hVn hEn hV L h

end Kahn
