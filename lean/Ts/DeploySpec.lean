import Ts.Deploy
/-! C10, deployment: `DeployItem` adds the leaf and exactly the closure of the enabled, not yet present providers of the
    requirements — nothing else, nothing twice — for every registry with distinct item names. -/
namespace Dp

def names (l : List DItem) : List Nat := l.map (·.name)

/-- the items that must be added: reachable from the leaf through requirements, enabled, not already present -/
inductive New (reg : List DItem) (feats : List Nat) (added0 : List Nat) (leaf : DItem) : DItem → Prop
  | base {dep : Nat} {s : DItem} : dep ∈ leaf.requires → s ∈ summon reg dep → enabled feats s = true →
      s.name ∉ added0 → New reg feats added0 leaf s
  | step {h : DItem} {dep : Nat} {s : DItem} : New reg feats added0 leaf h → dep ∈ h.requires → s ∈ summon reg dep →
      enabled feats s = true → s.name ∉ added0 → New reg feats added0 leaf s

theorem summon_sub {reg : List DItem} {e : Nat} {s : DItem} (h : s ∈ summon reg e) : s ∈ reg :=
  (List.mem_filter.1 h).1

/-- the fold of `expandOne` over a candidate list -/
def foldC (feats : List Nat) (cs : List DItem) (acc : List DItem × List Nat) : List DItem × List Nat :=
  cs.foldl (fun (acc : List DItem × List Nat) s =>
    if acc.2.contains s.name then acc
    else if enabled feats s then (acc.1 ++ [s], acc.2 ++ [s.name]) else acc) acc

theorem foldC_spec (feats : List Nat) : ∀ (cs : List DItem) (acc0 : List DItem) (added : List Nat),
    ∃ nw, foldC feats cs (acc0, added) = (acc0 ++ nw, added ++ names nw) ∧
      (∀ s ∈ nw, s ∈ cs ∧ enabled feats s = true) ∧ (names nw).Nodup ∧ (∀ s ∈ nw, s.name ∉ added) ∧
      (∀ s ∈ cs, enabled feats s = true → s.name ∈ added ++ names nw) := by
  intro cs
  induction cs with
  | nil => intro acc0 added; exact ⟨[], by simp [foldC, names], by simp, by simp [names], by simp, by simp⟩
  | cons c cs ih =>
    intro acc0 added
    unfold foldC
    simp only [List.foldl_cons]
    by_cases hc : added.contains c.name = true
    · simp only [hc, if_true]
      obtain ⟨nw, h1, h2, h3, h4, h5⟩ := ih acc0 added
      refine ⟨nw, h1, fun s hs => ⟨List.mem_cons_of_mem _ (h2 s hs).1, (h2 s hs).2⟩, h3, h4, ?_⟩
      intro s hs he
      rcases List.mem_cons.1 hs with rfl | hs
      · exact List.mem_append_left _ (by simpa using hc)
      · exact h5 s hs he
    · simp only [hc, Bool.false_eq_true, if_false]
      by_cases he : enabled feats c = true
      · simp only [he, if_true]
        obtain ⟨nw, h1, h2, h3, h4, h5⟩ := ih (acc0 ++ [c]) (added ++ [c.name])
        have hcn : c.name ∉ added := by simpa using hc
        refine ⟨c :: nw, ?_, ?_, ?_, ?_, ?_⟩
        · have : foldC feats cs (acc0 ++ [c], added ++ [c.name]) = (acc0 ++ [c] ++ nw, added ++ [c.name] ++ names nw) := h1
          unfold foldC at this
          rw [this]; simp [names]
        · intro s hs
          rcases List.mem_cons.1 hs with rfl | hs
          · exact ⟨List.mem_cons_self, he⟩
          · exact ⟨List.mem_cons_of_mem _ (h2 s hs).1, (h2 s hs).2⟩
        · simp only [names, List.map_cons, List.nodup_cons]
          refine ⟨?_, h3⟩
          intro hm
          obtain ⟨x, hx, hxe⟩ := List.mem_map.1 hm
          exact h4 x hx (by rw [hxe]; simp)
        · intro s hs
          rcases List.mem_cons.1 hs with rfl | hs
          · exact hcn
          · intro hm; exact h4 s hs (List.mem_append_left _ hm)
        · intro s hs hen
          rcases List.mem_cons.1 hs with rfl | hs
          · simp [names]
          · have := h5 s hs hen
            simp only [names, List.map_cons, List.mem_append, List.mem_singleton, List.mem_cons, List.not_mem_nil, or_false] at this ⊢
            rcases this with (h | h) | h
            · exact Or.inl h
            · exact Or.inr (Or.inl h)
            · exact Or.inr (Or.inr h)
      · simp only [he, Bool.false_eq_true, if_false]
        obtain ⟨nw, h1, h2, h3, h4, h5⟩ := ih acc0 added
        refine ⟨nw, h1, fun s hs => ⟨List.mem_cons_of_mem _ (h2 s hs).1, (h2 s hs).2⟩, h3, h4, ?_⟩
        intro s hs hen
        rcases List.mem_cons.1 hs with rfl | hs
        · exact absurd hen he
        · exact h5 s hs hen

theorem expandOne_eq (reg : List DItem) (feats : List Nat) (h : DItem) (added : List Nat) :
    expandOne reg feats h added = foldC feats (h.requires.flatMap (summon reg)) ([], added) := rfl

structure LInv (reg : List DItem) (feats added0 : List Nat) (leaf : DItem)
    (fuel : Nat) (queue : List DItem) (added : List Nat) (acc : List DItem) : Prop where
  addedEq : added = added0 ++ names acc
  accReg : ∀ x ∈ acc, x ∈ reg
  accNodup : (names acc).Nodup
  accFresh : ∀ x ∈ acc, x.name ∉ added0
  queueSub : ∀ x ∈ queue, x = leaf ∨ x ∈ acc
  closed : ∀ h, (h = leaf ∨ h ∈ acc) → h ∉ queue → ∀ dep ∈ h.requires, ∀ s ∈ summon reg dep,
    enabled feats s = true → s.name ∈ added
  sound : ∀ x ∈ acc, New reg feats added0 leaf x
  fuelEq : fuel + acc.length + 1 = reg.length + 2 + queue.length

theorem same_of_name {reg : List DItem} (hreg : (names reg).Nodup) {x y : DItem} (hx : x ∈ reg) (hy : y ∈ reg)
    (h : x.name = y.name) : x = y := by
  induction reg with
  | nil => simp at hx
  | cons r reg ih =>
    simp only [names, List.map_cons, List.nodup_cons] at hreg
    rcases List.mem_cons.1 hx with hx1 | hx1
    · rcases List.mem_cons.1 hy with hy1 | hy1
      · rw [hx1, hy1]
      · have : x.name ∈ reg.map (·.name) := by rw [h]; exact List.mem_map.2 ⟨y, hy1, rfl⟩
        rw [hx1] at this
        exact absurd this hreg.1
    · rcases List.mem_cons.1 hy with hy1 | hy1
      · have : y.name ∈ reg.map (·.name) := by rw [← h]; exact List.mem_map.2 ⟨x, hx1, rfl⟩
        rw [hy1] at this
        exact absurd this hreg.1
      · exact ih hreg.2 hx1 hy1

/-- what the loop returns once the invariant holds: closed under enabled providers -/
theorem loop_spec (reg : List DItem) (hreg : (names reg).Nodup) (feats added0 : List Nat) (leaf : DItem) :
    ∀ (fuel : Nat) (queue : List DItem) (added : List Nat) (acc : List DItem),
    LInv reg feats added0 leaf fuel queue added acc →
    ∃ fuel' added', LInv reg feats added0 leaf fuel' [] added' (loop reg feats fuel queue added acc) := by
  intro fuel
  induction fuel with
  | zero =>
    intro queue added acc hI
    cases queue with
    | nil => exact ⟨0, added, by simpa [loop] using hI⟩
    | cons h q =>
      exfalso
      have hle : acc.length ≤ reg.length := by
        have := List.Nodup.length_le_of_subset hI.accNodup (l₂ := names reg)
          (fun n hn => by
            obtain ⟨x, hx, rfl⟩ := List.mem_map.1 hn
            exact List.mem_map.2 ⟨x, hI.accReg x hx, rfl⟩)
        simpa [names] using this
      have := hI.fuelEq
      simp only [List.length_cons] at this
      omega
  | succ n ih =>
    intro queue added acc hI
    cases queue with
    | nil => exact ⟨n + 1, added, by simpa [loop] using hI⟩
    | cons h q =>
      simp only [loop]
      rw [expandOne_eq]
      obtain ⟨nw, h1, h2, h3, h4, h5⟩ := foldC_spec feats (h.requires.flatMap (summon reg)) [] added
      rw [h1]
      simp only [List.nil_append]
      apply ih
      have hh : h = leaf ∨ h ∈ acc := hI.queueSub h List.mem_cons_self
      refine ⟨?_, ?_, ?_, ?_, ?_, ?_, ?_, ?_⟩
      · rw [hI.addedEq]; simp [names]
      · intro x hx
        rcases List.mem_append.1 hx with hx | hx
        · exact hI.accReg x hx
        · obtain ⟨dep, _, hs⟩ := List.mem_flatMap.1 (h2 x hx).1
          exact summon_sub hs
      · simp only [names, List.map_append]
        rw [List.nodup_append]
        refine ⟨hI.accNodup, h3, ?_⟩
        intro a ha b hb hab
        subst hab
        obtain ⟨y, hy, hye⟩ := List.mem_map.1 hb
        apply h4 y hy
        rw [hI.addedEq, hye]
        exact List.mem_append_right _ ha
      · intro x hx
        rcases List.mem_append.1 hx with hx | hx
        · exact hI.accFresh x hx
        · intro hm
          apply h4 x hx
          rw [hI.addedEq]; exact List.mem_append_left _ hm
      · intro x hx
        rcases List.mem_append.1 hx with hx | hx
        · rcases hI.queueSub x (List.mem_cons_of_mem _ hx) with e | e
          · exact Or.inl e
          · exact Or.inr (List.mem_append_left _ e)
        · exact Or.inr (List.mem_append_right _ hx)
      · intro h' hh' hnq dep hdep s hs hen
        by_cases heq : h' = h
        · subst heq
          exact h5 s (List.mem_flatMap.2 ⟨dep, hdep, hs⟩) hen
        · have hnotnw : h' ∉ nw := fun e => hnq (List.mem_append_right _ e)
          have hh'' : h' = leaf ∨ h' ∈ acc := by
            rcases hh' with e | e
            · exact Or.inl e
            · rcases List.mem_append.1 e with e | e
              · exact Or.inr e
              · exact absurd e hnotnw
          have hnq' : h' ∉ h :: q := by
            intro e
            rcases List.mem_cons.1 e with e | e
            · exact heq e
            · exact hnq (List.mem_append_left _ e)
          exact List.mem_append_left _ (hI.closed h' hh'' hnq' dep hdep s hs hen)
      · intro x hx
        rcases List.mem_append.1 hx with hx | hx
        · exact hI.sound x hx
        · obtain ⟨dep, hdep, hs⟩ := List.mem_flatMap.1 (h2 x hx).1
          have hfresh : x.name ∉ added0 := by
            intro hm; apply h4 x hx; rw [hI.addedEq]; exact List.mem_append_left _ hm
          rcases hh with e | e
          · subst e; exact New.base hdep hs (h2 x hx).2 hfresh
          · exact New.step (hI.sound h e) hdep hs (h2 x hx).2 hfresh
      · have := hI.fuelEq
        simp only [List.length_cons, List.length_append] at this ⊢
        omega

/-- **C10, deployment**: for a registry with distinct item names, `DeployItem` adds the leaf followed by exactly the
items that are reachable from it through requirements, enabled under the features in force, and not already present;
each once -/
theorem deploy_spec (reg : List DItem) (hreg : (names reg).Nodup) (feats0 present : List Nat) (leaf : DItem) :
    ∃ rest, deploy reg feats0 present leaf = leaf :: rest ∧ (names rest).Nodup ∧
      (∀ x ∈ rest, x.name ∉ present ++ [leaf.name]) ∧
      (∀ x, x ∈ rest ↔ New reg (feats0 ++ leaf.features) (present ++ [leaf.name]) leaf x) := by
  unfold deploy
  have hinit : LInv reg (feats0 ++ leaf.features) (present ++ [leaf.name]) leaf (reg.length + 2) [leaf]
      (present ++ [leaf.name]) [] :=
    ⟨by simp [names], by simp, by simp [names], by simp, by simp,
     by
      intro h hh hn
      rcases hh with e | e
      · subst e; simp at hn
      · simp at e,
     by simp, by simp⟩
  obtain ⟨fuel', added', hF⟩ := loop_spec reg hreg _ _ leaf _ _ _ _ hinit
  refine ⟨loop reg (feats0 ++ leaf.features) (reg.length + 2) [leaf] (present ++ [leaf.name]) [], rfl, hF.accNodup, hF.accFresh, ?_⟩
  intro x
  constructor
  · exact hF.sound x
  · intro hn
    -- completeness: everything reachable was added
    have key : ∀ h, (h = leaf ∨ h ∈ loop reg (feats0 ++ leaf.features) (reg.length + 2) [leaf] (present ++ [leaf.name]) []) →
        ∀ dep ∈ h.requires, ∀ s ∈ summon reg dep, enabled (feats0 ++ leaf.features) s = true →
        s.name ∉ present ++ [leaf.name] → s ∈ loop reg (feats0 ++ leaf.features) (reg.length + 2) [leaf] (present ++ [leaf.name]) [] := by
      intro h hh dep hdep s hs hen hfresh
      have := hF.closed h hh (by simp) dep hdep s hs hen
      rw [hF.addedEq] at this
      rcases List.mem_append.1 this with e | e
      · exact absurd e hfresh
      · obtain ⟨y, hy, hye⟩ := List.mem_map.1 e
        have : y = s := same_of_name hreg (hF.accReg y hy) (summon_sub hs) hye
        rw [← this]; exact hy
    induction hn with
    | base hdep hs hen hfresh => exact key leaf (Or.inl rfl) _ hdep _ hs hen hfresh
    | step _ hdep hs hen hfresh ih => exact key _ (Or.inr ih) _ hdep _ hs hen hfresh

end Dp
