def hello := "world"
