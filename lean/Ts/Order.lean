/-! C10: a checker for resolved item orders, and the proof that acceptance implies the property.

  Items are identified by their position in the deployed list (names may repeat).  `order` lists positions.
  Reading of "runs after every other item that provides one of the entities it requires" (DESIGN.md, C10): item `i`
  runs after provider `q` of an entity `i` requires unless `q` is *downstream* of `i` — `q` transitively requires an
  output of `i` (a refiner such as RenameAnalysis, which consumes and re-provides `changes`, is downstream of
  TreeDiff but also of every consumer-less chain through BlobCache).

  `orderValid` is what the correspondence runs on every order the real `Pipeline.Initialize` returns;
  `orderValid_sound` is the obligation: an accepted order contains every item exactly once and nothing else, and
  respects every requirement in the above sense.  The exemption is computed by `down` (bounded closure);
  `down_sound` shows that everything it exempts really is downstream, so the checker never accepts an order that
  violates a requirement because of an over-approximated exemption. -/
namespace Ord

structure Item where
  provides : List Nat
  requires : List Nat
  deriving Repr

/-- `q` directly consumes an output of `h` -/
def feeds (h q : Item) : Bool := h.provides.any fun e => q.requires.contains e

/-- `q` (a position) is downstream of position `i`: it transitively requires an output of `i`, through items other
    than `i` itself -/
inductive Down (items : List Item) (i : Nat) : Nat → Prop
  | base {q : Nat} {hi hq : Item} : items[i]? = some hi → items[q]? = some hq → q ≠ i → feeds hi hq = true → Down items i q
  | step {h q : Nat} {ih iq : Item} : Down items i h → items[h]? = some ih → items[q]? = some iq → q ≠ i →
      feeds ih iq = true → Down items i q

/-- one round of the closure: positions fed by `i` or by a member of `acc` -/
def expand (items : List Item) (i : Nat) (acc : List Nat) : List Nat :=
  (List.range items.length).filter fun q =>
    q != i && match items[q]? with
      | none => false
      | some iq =>
        (match items[i]? with | some ii => feeds ii iq | none => false) ||
        acc.any fun h => match items[h]? with | some ih => feeds ih iq | none => false

def iter (items : List Item) (i : Nat) : Nat → List Nat → List Nat
  | 0, acc => acc
  | n + 1, acc => iter items i n (expand items i acc)

/-- the exemption set used by the checker -/
def down (items : List Item) (i : Nat) : List Nat := iter items i items.length []

theorem expand_sound (items : List Item) (i : Nat) (acc : List Nat) (hacc : ∀ h ∈ acc, Down items i h) :
    ∀ q ∈ expand items i acc, Down items i q := by
  intro q hq
  simp only [expand, List.mem_filter, List.mem_range, Bool.and_eq_true, bne_iff_ne, ne_eq] at hq
  obtain ⟨_, hne, hm⟩ := hq
  cases hiq : items[q]? with
  | none => simp [hiq] at hm
  | some iq =>
    simp only [hiq, Bool.or_eq_true, List.any_eq_true] at hm
    rcases hm with h1 | ⟨h, hh, hf⟩
    · cases hii : items[i]? with
      | none => simp [hii] at h1
      | some ii =>
        simp only [hii] at h1
        exact Down.base hii hiq hne h1
    · cases hih : items[h]? with
      | none => simp [hih] at hf
      | some ih =>
        simp only [hih] at hf
        exact Down.step (hacc h hh) hih hiq hne hf

theorem iter_sound (items : List Item) (i n : Nat) (acc : List Nat) (hacc : ∀ h ∈ acc, Down items i h) :
    ∀ q ∈ iter items i n acc, Down items i q := by
  induction n generalizing acc with
  | zero => simpa [iter] using hacc
  | succ n ih => exact ih _ (expand_sound items i acc hacc)

/-- everything the checker exempts really is downstream -/
theorem down_sound (items : List Item) (i q : Nat) (h : q ∈ down items i) : Down items i q :=
  iter_sound items i items.length [] (by simp) q h

/-- `q` provides something `i` requires -/
def providesFor (items : List Item) (q i : Nat) : Bool :=
  match items[q]?, items[i]? with
  | some iq, some ii => feeds iq ii
  | _, _ => false

/-- the checker -/
def orderValid (items : List Item) (order : List Nat) : Bool :=
  decide order.Nodup &&
  order.all (· < items.length) &&
  (List.range items.length).all (order.contains ·) &&
  (List.range items.length).all fun i => (List.range items.length).all fun q =>
    q == i || !providesFor items q i || (down items i).contains q || decide (order.idxOf q < order.idxOf i)

/-- **C10**: an accepted order lists every deployed item exactly once and nothing else, and every item comes after
    every other item that provides one of its inputs unless that provider is downstream of it -/
theorem orderValid_sound (items : List Item) (order : List Nat) (h : orderValid items order = true) :
    order.Nodup ∧ (∀ x ∈ order, x < items.length) ∧ (∀ i, i < items.length → i ∈ order) ∧
    ∀ i q, i < items.length → q < items.length → q ≠ i → providesFor items q i = true →
      ¬ Down items i q → order.idxOf q < order.idxOf i := by
  simp only [orderValid, Bool.and_eq_true, decide_eq_true_eq, List.all_eq_true, List.mem_range,
    List.contains_iff_mem] at h
  obtain ⟨⟨⟨hnd, hlt⟩, hall⟩, hord⟩ := h
  refine ⟨hnd, fun x hx => by simpa using hlt x hx, fun i hi => hall i hi, ?_⟩
  intro i q hi hq hne hp hnd'
  have := hord i hi q hq
  simp only [Bool.or_eq_true, beq_iff_eq, Bool.not_eq_true', decide_eq_true_eq, List.contains_iff_mem] at this
  rcases this with ((h1 | h2) | h3) | h4
  · exact absurd h1 hne
  · rw [hp] at h2; exact absurd h2 (by simp)
  · exact absurd (down_sound items i q h3) hnd'
  · exact h4

/-- non-vacuity: the TreeDiff / BlobCache / RenameAnalysis / consumer shape (entities 0 = changes, 1 = blob_cache) -/
example : orderValid
    [⟨[0], []⟩, ⟨[1], [0]⟩, ⟨[0], [1, 0]⟩, ⟨[], [0, 1]⟩] [0, 1, 2, 3] = true := by decide

/-- … and an order that runs the consumer before the refiner's base provider is refused -/
example : orderValid
    [⟨[0], []⟩, ⟨[1], [0]⟩, ⟨[0], [1, 0]⟩, ⟨[], [0, 1]⟩] [3, 0, 1, 2] = false := by decide

end Ord
