import Ts.Model
import Ts.KahnComplete
/-! C15: the concrete model of `toposort.Graph.Toposort` (adjacency maps with insertion ranks, in-degree counters, removal
    of the popped node's out-edges in rank order) refines the abstract Kahn algorithm, so the soundness and completeness
    theorems hold for the model that is compared with the real code on every run.

  A graph state is well formed (`WFG`) when its nodes are distinct, the children of every node are distinct and are nodes,
  the in-degree counter of every node is its number of incoming edges, and the insertion ranks of every node's children
  are exactly 1..k (what `AddEdge` and `ReindexNode` establish for graphs built from distinct nodes and distinct edges). -/
namespace Ts
open Kahn

def G.nodes (g : G) : List Nat := g.outputs.map (·.1)
def G.edges (g : G) : List Edge := g.outputs.flatMap fun p => p.2.map fun c => (p.1, c.1)
def indeg (E : List Edge) (m : Nat) : Nat := (E.filter (fun e => e.2 = m)).length

theorem lookup_setKey_same {β} (l : List (Nat × β)) (k : Nat) (v : β) : lookup (setKey l k v) k = some v := by
  unfold lookup setKey
  split
  · rename_i h
    induction l with
    | nil => simp at h
    | cons p ps ih =>
      by_cases hp : p.1 = k
      · simp [List.find?_cons, hp]
      · have : ps.any (fun q => decide (q.1 = k)) = true := by simpa [hp] using h
        simp only [List.map_cons, hp, if_false, List.find?_cons, decide_false]
        exact ih this
  · rename_i h
    have hn : l.find? (fun x => decide (x.1 = k)) = none := by
      rw [List.find?_eq_none]
      intro x hx
      simp only [List.any_eq_true, not_exists, not_and] at h
      exact h x hx
    simp [List.find?_append, hn]

theorem find_map_keep {β} (f : Nat × β → Nat × β) (hf : ∀ p, (f p).1 = p.1) (l : List (Nat × β)) (k' : Nat) :
    (l.map f).find? (fun x => decide (x.1 = k')) = (l.find? (fun x => decide (x.1 = k'))).map f := by
  induction l with
  | nil => rfl
  | cons p ps ih =>
    simp only [List.map_cons, List.find?_cons, hf p]
    by_cases hp : p.1 = k'
    · simp [hp]
    · simp [hp, ih]

theorem lookup_setKey_other {β} (l : List (Nat × β)) (k k' : Nat) (v : β) (h : k' ≠ k) :
    lookup (setKey l k v) k' = lookup l k' := by
  unfold lookup setKey
  split
  · rw [find_map_keep (fun p => if p.1 = k then (k, v) else p) (by intro p; split <;> simp_all)]
    cases hf : l.find? (fun x => decide (x.1 = k')) with
    | none => rfl
    | some p =>
      have hk : p.1 = k' := by simpa using List.find?_some hf
      have : ¬ p.1 = k := fun e => h (hk.symm.trans e)
      simp [this]
  · have : ¬ k = k' := fun e => h e.symm
    simp [List.find?_append, this]

theorem keys_setKey_present {β} (l : List (Nat × β)) (k : Nat) (v : β) (h : l.any (·.1 = k) = true) :
    (setKey l k v).map (·.1) = l.map (·.1) := by
  unfold setKey
  rw [if_pos h, List.map_map]
  apply List.map_congr_left
  intro p _
  simp only [Function.comp]
  split <;> simp_all

theorem any_key_of_mem {β} (l : List (Nat × β)) (k : Nat) (h : k ∈ l.map (·.1)) : l.any (·.1 = k) = true := by
  obtain ⟨p, hp, rfl⟩ := List.mem_map.1 h
  exact List.any_eq_true.2 ⟨p, hp, by simp⟩

theorem lookup_some_of_mem {β} (l : List (Nat × β)) (k : Nat) (h : k ∈ l.map (·.1)) : ∃ v, lookup l k = some v := by
  unfold lookup
  cases hf : l.find? (fun x => decide (x.1 = k)) with
  | some p => exact ⟨p.2, rfl⟩
  | none =>
    rw [List.find?_eq_none] at hf
    obtain ⟨p, hp, hk⟩ := List.mem_map.1 h
    exact absurd hk (by simpa using hf p hp)

theorem lookup_mem {β} (l : List (Nat × β)) (k : Nat) (v : β) (h : lookup l k = some v) : (k, v) ∈ l := by
  unfold lookup at h
  cases hf : l.find? (fun x => decide (x.1 = k)) with
  | none => simp [hf] at h
  | some p =>
    simp only [hf, Option.map_some, Option.some.injEq] at h
    have hm := List.mem_of_find?_eq_some hf
    have hk : p.1 = k := by simpa using List.find?_some hf
    obtain ⟨a, b⟩ := p
    simp only at hk h
    subst hk; subst h
    exact hm

theorem lookup_of_mem_nodup {β} (l : List (Nat × β)) (k : Nat) (v : β) (hnd : (l.map (·.1)).Nodup) (h : (k, v) ∈ l) :
    lookup l k = some v := by
  unfold lookup
  induction l with
  | nil => simp at h
  | cons p ps ih =>
    simp only [List.map_cons, List.nodup_cons] at hnd
    obtain ⟨a, b⟩ := p
    rcases List.mem_cons.1 h with heq | h'
    · simp only [Prod.mk.injEq] at heq
      obtain ⟨rfl, rfl⟩ := heq
      simp [List.find?_cons]
    · have hne : ¬ a = k := by
        intro e; apply hnd.1; rw [e]; exact List.mem_map.2 ⟨(k, v), h', rfl⟩
      simp only [List.find?_cons, hne, decide_false]
      exact ih hnd.2 h'

/-- edges of a graph whose entry for `n` is replaced by a filtered child list -/
theorem edges_setKey_filter (outs : List (Nat × List (Nat × Nat))) (n m : Nat) (cs : List (Nat × Nat))
    (hnd : (outs.map (·.1)).Nodup) (hn : (n, cs) ∈ outs) :
    (setKey outs n (cs.filter (·.1 ≠ m))).flatMap (fun p => p.2.map fun c => (p.1, c.1)) =
    (outs.flatMap (fun p => p.2.map fun c => (p.1, c.1))).filter (fun e => e != (n, m)) := by
  have hany : outs.any (·.1 = n) = true := List.any_eq_true.2 ⟨(n, cs), hn, by simp⟩
  unfold setKey
  rw [if_pos hany]
  induction outs with
  | nil => simp at hn
  | cons p ps ih =>
    simp only [List.map_cons, List.nodup_cons] at hnd
    obtain ⟨a, b⟩ := p
    simp only [List.map_cons, List.flatMap_cons, List.filter_append]
    by_cases ha : a = n
    · subst ha
      have hb : b = cs := by
        rcases List.mem_cons.1 hn with heq | h'
        · simp only [Prod.mk.injEq] at heq; exact heq.2.symm
        · exact absurd (List.mem_map.2 ⟨(a, cs), h', rfl⟩) hnd.1
      subst hb
      simp only [if_true]
      -- the tail has no entry for key a, so nothing changes there
      have htail : ∀ q ∈ ps, ¬ q.1 = a := by
        intro q hq e; exact hnd.1 (by rw [← e]; exact List.mem_map.2 ⟨q, hq, rfl⟩)
      have h1 : ps.map (fun q => if q.1 = a then (a, b.filter (·.1 ≠ m)) else q) = ps := by
        have : ∀ q ∈ ps, (if q.1 = a then (a, b.filter (·.1 ≠ m)) else q) = q := by
          intro q hq; simp [htail q hq]
        rw [List.map_congr_left this]; simp
      have h2 : (ps.flatMap (fun p => p.2.map fun c => (p.1, c.1))).filter (fun e => e != (a, m)) =
          ps.flatMap (fun p => p.2.map fun c => (p.1, c.1)) := by
        rw [List.filter_eq_self]
        intro e he
        obtain ⟨q, hq, hqe⟩ := List.mem_flatMap.1 he
        obtain ⟨c, _, rfl⟩ := List.mem_map.1 hqe
        have := htail q hq
        simp only [bne_iff_ne, ne_eq, Prod.mk.injEq, not_and]
        intro e'; exact absurd e' this
      rw [h1, h2]
      congr 1
      rw [List.filter_map]
      congr 1
      apply List.filter_congr
      intro c _
      by_cases hcm : c.1 = m <;> simp [hcm]
    · have hn' : (n, cs) ∈ ps := by
        rcases List.mem_cons.1 hn with heq | h'
        · simp only [Prod.mk.injEq] at heq; exact absurd heq.1.symm ha
        · exact h'
      simp only [ha, if_false]
      rw [ih hnd.2 hn' (List.any_eq_true.2 ⟨(n, cs), hn', by simp⟩)]
      congr 1
      symm
      rw [List.filter_eq_self]
      intro e he
      obtain ⟨c, _, rfl⟩ := List.mem_map.1 he
      simp only [bne_iff_ne, ne_eq, Prod.mk.injEq, not_and]
      intro e'; exact absurd e' ha

end Ts

namespace Ts
open Kahn

structure WFG (g : G) : Prop where
  nodesNodup : g.nodes.Nodup
  edgesNodup : g.edges.Nodup
  sources : ∀ e ∈ g.edges, e.1 ∈ g.nodes
  targets : ∀ e ∈ g.edges, e.2 ∈ g.nodes
  inputs : ∀ m ∈ g.nodes, lookup g.inputs m = some (indeg g.edges m : Int)
  inputsNodup : (g.inputs.map (·.1)).Nodup
  inputsKeys : ∀ k ∈ g.inputs.map (·.1), k ∈ g.nodes

theorem mem_keys_of_lookup {β} (l : List (Nat × β)) (k : Nat) (v : β) (h : lookup l k = some v) : k ∈ l.map (·.1) :=
  List.mem_map.2 ⟨(k, v), lookup_mem l k v h, rfl⟩

theorem indeg_zero_iff (E : List Edge) (m : Nat) : indeg E m = 0 ↔ noIn E m = true := by
  unfold indeg
  rw [noIn_iff, List.length_eq_zero_iff, List.filter_eq_nil_iff]
  constructor
  · intro h e he heq; exact h e he (by simpa using heq)
  · intro h e he; simpa using h e he

theorem indeg_filter_other (E : List Edge) (n m x : Nat) (hx : x ≠ m) :
    indeg (E.filter (fun e => e != (n, m))) x = indeg E x := by
  unfold indeg
  rw [List.filter_filter]
  congr 1
  apply List.filter_congr
  intro e _
  by_cases h2 : e.2 = x
  · have : e ≠ (n, m) := by intro he; rw [he] at h2; exact hx h2.symm
    simp [h2, this]
  · simp [h2]

theorem indeg_filter_same (E : List Edge) (n m : Nat) (hnd : E.Nodup) (hm : (n, m) ∈ E) :
    indeg (E.filter (fun e => e != (n, m))) m + 1 = indeg E m := by
  unfold indeg
  induction E with
  | nil => simp at hm
  | cons e E ih =>
    simp only [List.nodup_cons] at hnd
    rcases List.mem_cons.1 hm with rfl | hm'
    · -- e = (n, m): removed here, absent from the tail
      have hrest : E.filter (fun e => e != (n, m)) = E := by
        rw [List.filter_eq_self]
        intro x hx
        have : x ≠ (n, m) := fun h => hnd.1 (h ▸ hx)
        simpa using this
      simp [List.filter_cons, hrest]
    · have hne : e ≠ (n, m) := fun h => hnd.1 (h ▸ hm')
      have := ih hnd.2 hm'
      by_cases h2 : e.2 = m
      · simp only [List.filter_cons, bne_iff_ne, ne_eq, hne, not_false_eq_true, decide_true, if_true, h2,
          List.length_cons] at this ⊢
        omega
      · simp only [List.filter_cons, bne_iff_ne, ne_eq, hne, not_false_eq_true, decide_true, if_true, h2,
          decide_false, Bool.false_eq_true, if_false] at this ⊢
        exact this

theorem nodes_unsafeRemove (g : G) (n m : Nat) (hn : n ∈ g.nodes) : (g.unsafeRemoveEdge n m).nodes = g.nodes := by
  unfold G.unsafeRemoveEdge G.nodes
  simp only
  obtain ⟨cs, hcs⟩ := lookup_some_of_mem g.outputs n hn
  rw [hcs]
  simp only
  exact keys_setKey_present _ _ _ (any_key_of_mem _ _ hn)

theorem edges_unsafeRemove (g : G) (n m : Nat) (hnd : g.nodes.Nodup) (hn : n ∈ g.nodes) :
    (g.unsafeRemoveEdge n m).edges = g.edges.filter (fun e => e != (n, m)) := by
  obtain ⟨cs, hcs⟩ := lookup_some_of_mem g.outputs n hn
  unfold G.unsafeRemoveEdge G.edges
  simp only [hcs]
  exact edges_setKey_filter g.outputs n m cs hnd (lookup_mem _ _ _ hcs)

/-- removing one out-edge of `n` keeps the graph well formed, removes exactly that edge, and the counter test of the
    real code (`inputs[m] == 0`) is the abstract test "no edge into `m` is left" -/
theorem remove_step (g : G) (h : WFG g) (n m : Nat) (hnm : (n, m) ∈ g.edges) :
    (g.unsafeRemoveEdge n m).edges = g.edges.filter (fun e => e != (n, m)) ∧
    (g.unsafeRemoveEdge n m).nodes = g.nodes ∧ WFG (g.unsafeRemoveEdge n m) ∧
    (decide ((lookup (g.unsafeRemoveEdge n m).inputs m).getD 0 = 0) = noIn ((g.edges.filter (fun e => e != (n, m)))) m) := by
  have hn := h.sources _ hnm
  have hmn := h.targets _ hnm
  have he := edges_unsafeRemove g n m h.nodesNodup hn
  have hnodes := nodes_unsafeRemove g n m hn
  have hinp : (g.unsafeRemoveEdge n m).inputs = setKey g.inputs m ((lookup g.inputs m).getD 0 - 1) := by
    unfold G.unsafeRemoveEdge; rfl
  have hold := h.inputs m hmn
  have hsame := indeg_filter_same g.edges n m h.edgesNodup hnm
  have hnew : lookup (g.unsafeRemoveEdge n m).inputs m =
      some ((indeg (g.edges.filter (fun e => e != (n, m))) m : Nat) : Int) := by
    rw [hinp, lookup_setKey_same, hold]
    simp only [Option.getD_some, Option.some.injEq]
    omega
  have hkeys : (g.unsafeRemoveEdge n m).inputs.map (·.1) = g.inputs.map (·.1) := by
    rw [hinp]
    exact keys_setKey_present _ _ _ (any_key_of_mem _ _ (mem_keys_of_lookup _ _ _ hold))
  refine ⟨he, hnodes, ⟨?_, ?_, ?_, ?_, ?_, ?_, ?_⟩, ?_⟩
  · rw [hnodes]; exact h.nodesNodup
  · rw [he]; exact h.edgesNodup.filter _
  · intro e hem; rw [he] at hem; rw [hnodes]; exact h.sources e (List.mem_filter.1 hem).1
  · intro e hem; rw [he] at hem; rw [hnodes]; exact h.targets e (List.mem_filter.1 hem).1
  · intro x hx
    rw [hnodes] at hx
    rw [he]
    by_cases hxm : x = m
    · subst hxm; exact hnew
    · rw [hinp, lookup_setKey_other _ _ _ _ hxm, h.inputs x hx, indeg_filter_other _ _ _ _ hxm]
  · rw [hkeys]; exact h.inputsNodup
  · rw [hkeys, hnodes]; exact h.inputsKeys
  · rw [hnew]
    simp only [Option.getD_some]
    have := indeg_zero_iff (g.edges.filter (fun e => e != (n, m))) m
    by_cases hz : indeg (g.edges.filter (fun e => e != (n, m))) m = 0
    · rw [hz, this.1 hz]; simp
    · have hn' : ¬ noIn (g.edges.filter (fun e => e != (n, m))) m = true := fun h' => hz (this.2 h')
      have : noIn (g.edges.filter (fun e => e != (n, m))) m = false := by simpa using hn'
      rw [this]
      simp only [decide_eq_false_iff_not]
      omega

end Ts

namespace Ts
open Kahn

/-- the body of the inner loop of `Toposort`: remove the edge n→m, enqueue m if its counter dropped to zero -/
def stepRemove (n : Nat) (gs : G × List Nat) (m : Nat) : G × List Nat :=
  let g := gs.1.unsafeRemoveEdge n m
  if (lookup g.inputs m).getD 0 = 0 then (g, gs.2 ++ [m]) else (g, gs.2)

/-- the inner loop is the abstract `relax` -/
theorem fold_relax (n : Nat) : ∀ (ms : List Nat) (g : G) (S : List Nat), WFG g → ms.Nodup →
    (∀ m ∈ ms, (n, m) ∈ g.edges) →
    (ms.foldl (stepRemove n) (g, S)).1.edges = (relax n ms g.edges S).1 ∧
    (ms.foldl (stepRemove n) (g, S)).2 = (relax n ms g.edges S).2 ∧
    WFG (ms.foldl (stepRemove n) (g, S)).1 ∧ (ms.foldl (stepRemove n) (g, S)).1.nodes = g.nodes ∧
    (∀ x, x ≠ n → lookup (ms.foldl (stepRemove n) (g, S)).1.outputs x = lookup g.outputs x) := by
  intro ms
  induction ms with
  | nil => intro g S h _ _; exact ⟨rfl, rfl, h, rfl, fun _ _ => rfl⟩
  | cons m ms ih =>
    intro g S h hnd hall
    have hnm := hall m (by simp)
    obtain ⟨he, hnodes, hwf, htest⟩ := remove_step g h n m hnm
    simp only [List.foldl_cons, relax]
    have hstep : stepRemove n (g, S) m =
        (g.unsafeRemoveEdge n m, if noIn (g.edges.filter (fun e => e != (n, m))) m then S ++ [m] else S) := by
      unfold stepRemove
      simp only
      by_cases hz : (lookup (g.unsafeRemoveEdge n m).inputs m).getD 0 = 0
      · have : noIn (g.edges.filter (fun e => e != (n, m))) m = true := by rw [← htest]; simpa using hz
        simp [hz, this]
      · have : noIn (g.edges.filter (fun e => e != (n, m))) m = false := by
          rw [← htest]; simpa using hz
        simp [hz, this]
    rw [hstep]
    have hall' : ∀ m' ∈ ms, (n, m') ∈ (g.unsafeRemoveEdge n m).edges := by
      intro m' hm'
      rw [he]
      have hne : m' ≠ m := fun e => (List.nodup_cons.1 hnd).1 (e ▸ hm')
      exact List.mem_filter.2 ⟨hall m' (by simp [hm']), by simp [hne]⟩
    obtain ⟨r1, r2, r3, r4, r5⟩ := ih (g.unsafeRemoveEdge n m) _ hwf (List.nodup_cons.1 hnd).2 hall'
    rw [he] at r1 r2
    refine ⟨r1, r2, r3, r4.trans hnodes, ?_⟩
    intro x hx
    rw [r5 x hx]
    unfold G.unsafeRemoveEdge
    simp only
    split
    · exact lookup_setKey_other _ _ _ _ hx
    · rfl

/-- the insertion ranks of every node's children are exactly 1..k: `Toposort` finds the children in rank order, each
    once (what `AddEdge` / `ReindexNode` establish) -/
def WellRanked (g : G) (E : List Edge) (skip : List Nat) : Prop :=
  ∀ n ∈ g.nodes, n ∉ skip → ∃ cs, childrenByRank ((lookup g.outputs n).getD []) = some cs ∧ cs.Nodup ∧
    ∀ m, m ∈ cs ↔ (n, m) ∈ E

/-- invariant of the outer loop: the abstract invariants on the edge list of the current graph -/
structure Sim (V : List Nat) (E0 : List Edge) (g : G) (S L : List Nat) : Prop where
  wf : WFG g
  nodes : g.nodes = V
  inv : Inv V E0 g.edges S L
  src : Src g.edges L
  ranked : WellRanked g g.edges L

theorem go_sim (V : List Nat) (E0 : List Edge) (hV : ∀ e ∈ E0, e.1 ∈ V ∧ e.2 ∈ V) :
    ∀ (f : Nat) (g : G) (S L : List Nat), Sim V E0 g S L → V.length < f + L.length →
    ∃ g' L', G.toposort.go f g S L = some (g', L') ∧ Sim V E0 g' [] L' := by
  intro f
  induction f with
  | zero =>
    intro g S L h hf
    cases S with
    | nil => exact ⟨g, L, by simp [G.toposort.go], h⟩
    | cons n S =>
      have := inv_length h.inv
      simp at this hf
      omega
  | succ f ih =>
    intro g S L h hf
    cases S with
    | nil => exact ⟨g, L, by simp [G.toposort.go], h⟩
    | cons n S =>
      have hnV : n ∈ V := h.inv.inV n (by simp)
      have hnL : n ∉ L := by
        intro hn
        have := (List.nodup_append.1 h.inv.nodup).2.2 n (by simp) n hn
        exact this rfl
      obtain ⟨cs, hcs, hcsnd, hcsm⟩ := h.ranked n (by rw [h.nodes]; exact hnV) hnL
      simp only [G.toposort.go, hcs]
      have hfold := fold_relax n cs g S h.wf hcsnd (fun m hm => (hcsm m).1 hm)
      obtain ⟨r1, r2, r3, r4, r5⟩ := hfold
      have h1 := inv_pop h.inv
      have h2 := inv_relax hV n (L := L ++ [n]) (by simp) cs g.edges S h1 hcsnd (fun m hm => (hcsm m).1 hm)
      have hstepfold : (cs.foldl (fun (gs : G × List Nat) m =>
            let g := gs.1.unsafeRemoveEdge n m
            if (lookup g.inputs m).getD 0 = 0 then (g, gs.2 ++ [m]) else (g, gs.2)) (g, S)) =
          cs.foldl (stepRemove n) (g, S) := rfl
      rw [hstepfold]
      have hsim : Sim V E0 (cs.foldl (stepRemove n) (g, S)).1 (cs.foldl (stepRemove n) (g, S)).2 (L ++ [n]) := by
        refine ⟨r3, r4.trans h.nodes, ?_, ?_, ?_⟩
        · rw [r1, r2]; exact h2
        · rw [r1]
          intro e he
          rw [mem_relax_edges] at he
          intro hin
          rcases List.mem_append.1 hin with hin | hin
          · exact h.src e he.1 hin
          · have e1 : e.1 = n := by simpa using hin
            exact he.2 ⟨e1, (hcsm e.2).2 (by rw [← e1]; exact he.1)⟩
        · intro x hx hxL
          rw [r4] at hx
          have hxn : x ≠ n := fun e => hxL (by simp [e])
          have hxL' : x ∉ L := fun e => hxL (by simp [e])
          obtain ⟨cx, hcx, hcxnd, hcxm⟩ := h.ranked x hx hxL'
          refine ⟨cx, by rw [r5 x hxn]; exact hcx, hcxnd, ?_⟩
          intro m
          rw [hcxm m, r1, mem_relax_edges]
          constructor
          · intro hm; exact ⟨hm, fun h' => hxn h'.1⟩
          · intro hm; exact hm.1
      have := ih _ _ _ hsim (by simp; omega)
      obtain ⟨g', L', hgo, hs'⟩ := this
      refine ⟨g', L', ?_, hs'⟩
      -- the pair returned by the fold is destructured in the definition
      have : (cs.foldl (stepRemove n) (g, S)) =
          ((cs.foldl (stepRemove n) (g, S)).1, (cs.foldl (stepRemove n) (g, S)).2) := rfl
      rw [this]
      exact hgo

end Ts

namespace Ts
open Kahn

/-- sum of the in-degree counters -/
def inputTotal (g : G) : Int := g.inputs.foldl (fun a p => a + p.2) (0 : Int)

theorem foldl_add_nonneg (l : List (Nat × Int)) (a : Int) (h : ∀ p ∈ l, 0 ≤ p.2) :
    a ≤ l.foldl (fun a p => a + p.2) a ∧ (∀ p ∈ l, a + p.2 ≤ l.foldl (fun a p => a + p.2) a) := by
  induction l generalizing a with
  | nil => exact ⟨Int.le_refl _, by simp⟩
  | cons q l ih =>
    have hq := h q (by simp)
    obtain ⟨h1, h2⟩ := ih (a + q.2) (fun p hp => h p (by simp [hp]))
    simp only [List.foldl_cons]
    refine ⟨by omega, ?_⟩
    intro p hp
    rcases List.mem_cons.1 hp with rfl | hp
    · exact h1
    · have := h2 p hp; omega

theorem foldl_add_zero (l : List (Nat × Int)) (h : ∀ p ∈ l, p.2 = 0) : l.foldl (fun a p => a + p.2) (0 : Int) = 0 := by
  induction l with
  | nil => rfl
  | cons q l ih =>
    simp only [List.foldl_cons, h q (by simp), Int.add_zero]
    exact ih (fun p hp => h p (by simp [hp]))

/-- the success flag of `Toposort` (no counter is positive) says that no edge is left -/
theorem total_pos_iff (g : G) (h : WFG g) : inputTotal g > 0 ↔ g.edges ≠ [] := by
  have hval : ∀ p ∈ g.inputs, p.2 = (indeg g.edges p.1 : Int) := by
    intro p hp
    have hk : p.1 ∈ g.inputs.map (·.1) := List.mem_map.2 ⟨p, hp, rfl⟩
    have hl := lookup_of_mem_nodup g.inputs p.1 p.2 h.inputsNodup hp
    rw [h.inputs p.1 (h.inputsKeys p.1 hk)] at hl
    exact (Option.some.inj hl).symm
  constructor
  · intro hpos he
    have : ∀ p ∈ g.inputs, p.2 = 0 := by
      intro p hp; rw [hval p hp, he]; simp [indeg]
    unfold inputTotal at hpos
    rw [foldl_add_zero _ this] at hpos
    omega
  · intro hne
    obtain ⟨e, he⟩ := List.exists_mem_of_ne_nil _ hne
    have hm := h.targets e he
    have hl := h.inputs e.2 hm
    have hmem := lookup_mem _ _ _ hl
    have hpos : (0 : Int) < (indeg g.edges e.2 : Int) := by
      have : 0 < indeg g.edges e.2 := by
        unfold indeg
        exact List.length_pos_of_mem (List.mem_filter.2 ⟨he, by simp⟩)
      omega
    have hnn : ∀ p ∈ g.inputs, 0 ≤ p.2 := by
      intro p hp; rw [hval p hp]; exact Int.natCast_nonneg _
    have := (foldl_add_nonneg g.inputs 0 hnn).2 _ hmem
    unfold inputTotal
    simp only at this
    omega

theorem sim_init (g : G) (hwf : WFG g) (hr : WellRanked g g.edges []) :
    Sim g.nodes g.edges g (((g.outputs.map (·.1)).filter fun n => (lookup g.inputs n).getD 0 = 0).mergeSort (· ≤ ·)) [] := by
  have hmem : ∀ x, x ∈ (((g.outputs.map (·.1)).filter fun n => (lookup g.inputs n).getD 0 = 0).mergeSort (· ≤ ·)) ↔
      (x ∈ g.nodes ∧ noIn g.edges x = true) := by
    intro x
    rw [List.mem_mergeSort, List.mem_filter]
    constructor
    · rintro ⟨hx, hz⟩
      refine ⟨hx, ?_⟩
      rw [hwf.inputs x hx] at hz
      simp only [Option.getD_some, decide_eq_true_eq] at hz
      exact (indeg_zero_iff _ _).1 (by omega)
    · rintro ⟨hx, hz⟩
      refine ⟨hx, ?_⟩
      rw [hwf.inputs x hx]
      simp only [Option.getD_some, decide_eq_true_eq]
      have := (indeg_zero_iff _ _).2 hz
      omega
  refine ⟨hwf, rfl, ⟨fun _ h => h, fun _ h => .inl h, ?_, ?_, ?_, ?_, ?_⟩, by intro e _ h; simp at h, hr⟩
  · intro x hx; simp only [List.append_nil] at hx; exact ((hmem x).1 hx).2
  · simp only [List.append_nil]
    exact ((List.mergeSort_perm _ _).nodup_iff).2 (hwf.nodesNodup.filter _)
  · intro x hx hz; simp only [List.append_nil]; exact (hmem x).2 ⟨hx, hz⟩
  · intro x hx; simp only [List.append_nil] at hx; exact ((hmem x).1 hx).1
  · intro e _ h2; simp at h2

/-- **C15 on the model of the real code (termination and verdict)**: for a well-formed, well-ranked graph `Toposort`
    never panics; it returns an order and the flag "no edge left" -/
theorem toposort_runs (g : G) (hwf : WFG g) (hr : WellRanked g g.edges []) :
    ∃ g' L, g.toposort = some (L, decide (g'.edges = [])) ∧ Sim g.nodes g.edges g' [] L := by
  have hV : ∀ e ∈ g.edges, e.1 ∈ g.nodes ∧ e.2 ∈ g.nodes := fun e he => ⟨hwf.sources e he, hwf.targets e he⟩
  obtain ⟨g', L', hgo, hs⟩ := go_sim g.nodes g.edges hV
    (g.outputs.length + (g.outputs.foldl (fun a p => a + p.2.length) 0) + 1) g _ [] (sim_init g hwf hr)
    (by simp [G.nodes]; omega)
  refine ⟨g', L', ?_, hs⟩
  unfold G.toposort
  simp only [hgo]
  have hflag := total_pos_iff g' hs.wf
  unfold inputTotal at hflag
  congr 2
  by_cases he : g'.edges = []
  · have : ¬ (g'.inputs.foldl (fun a p => a + p.2) (0 : Int) > 0) := fun h' => (hflag.1 h') he
    simp [he, this]
  · have := hflag.2 he
    simp [he, this]

/-- **C15 (soundness, on the model compared with the code)**: success means every node exactly once and every edge forward -/
theorem G.toposort_sound (g : G) (hwf : WFG g) (hr : WellRanked g g.edges []) (L : List Nat)
    (h : g.toposort = some (L, true)) :
    L.Nodup ∧ (∀ x, x ∈ L ↔ x ∈ g.nodes) ∧ ∀ e ∈ g.edges, Before L e.1 e.2 := by
  obtain ⟨g', L', hrun, hs⟩ := toposort_runs g hwf hr
  rw [hrun] at h
  simp only [Option.some.injEq, Prod.mk.injEq, decide_eq_true_eq] at h
  obtain ⟨rfl, he⟩ := h
  have hf := hs.inv
  rw [he] at hf
  refine ⟨by simpa using hf.nodup, ?_, ?_⟩
  · intro x
    constructor
    · intro hx; exact hf.inV x (by simpa using hx)
    · intro hx; simpa using hf.ready x hx (by simp [noIn])
  · intro e he'
    have h2 : e.2 ∈ L' := by simpa using hf.ready e.2 (hwf.targets e he') (by simp [noIn])
    exact hf.order e he' h2

/-- **C15 (completeness, on the model compared with the code)**: on an acyclic graph the sort succeeds -/
theorem G.toposort_complete (g : G) (hwf : WFG g) (hr : WellRanked g g.edges []) (hacyc : Ranked g.edges) :
    ∃ L, g.toposort = some (L, true) := by
  obtain ⟨g', L', hrun, hs⟩ := toposort_runs g hwf hr
  obtain ⟨rank, hrank⟩ := hacyc
  have hempty : g'.edges = [] := by
    rw [List.eq_nil_iff_forall_not_mem]
    suffices H : ∀ k, ∀ e ∈ g'.edges, rank e.1 ≠ k by
      intro e he; exact H (rank e.1) e he rfl
    intro k
    induction k using Nat.strongRecOn with
    | _ k ih =>
      intro e he hk'
      have heV := hwf.sources e (hs.inv.sub e he)
      have hnotL : e.1 ∉ ([] : List Nat) ++ L' := by simpa using hs.src e he
      have hnz : ¬ noIn g'.edges e.1 = true := fun hz => hnotL (hs.inv.ready e.1 heV hz)
      have : ∃ e' ∈ g'.edges, e'.2 = e.1 := by
        have c' : noIn g'.edges e.1 = false := by simpa using hnz
        unfold noIn at c'
        rw [List.all_eq_false] at c'
        obtain ⟨e', he', h2⟩ := c'
        exact ⟨e', he', by simpa using h2⟩
      obtain ⟨e', he', h2⟩ := this
      have hlt := hrank e' (hs.inv.sub e' he')
      rw [h2, hk'] at hlt
      exact ih (rank e'.1) hlt e' he' rfl
  exact ⟨L', by rw [hrun, hempty]; rfl⟩

/-- on a graph with a cycle the sort reports failure (and still does not panic) -/
theorem G.toposort_cyclic (g : G) (hwf : WFG g) (hr : WellRanked g g.edges []) (hcyc : ¬ Ranked g.edges) :
    ∃ L, g.toposort = some (L, false) := by
  obtain ⟨g', L', hrun, hs⟩ := toposort_runs g hwf hr
  by_cases he : g'.edges = []
  · exfalso
    apply hcyc
    have hsound := G.toposort_sound g hwf hr L' (by rw [hrun, he]; rfl)
    refine ⟨fun x => L'.idxOf x, ?_⟩
    intro e hee
    obtain ⟨L1, L2, hL, ha⟩ := hsound.2.2 e hee
    have hnd := hsound.1
    rw [hL] at hnd ⊢
    have hb : e.2 ∉ L1 := by
      intro hb
      have := (List.nodup_append.1 hnd).2.2 e.2 hb e.2 (by simp)
      exact this rfl
    have h1 : (L1 ++ e.2 :: L2).idxOf e.1 < L1.length := by
      rw [List.idxOf_append, if_pos ha]
      exact List.idxOf_lt_length_of_mem ha
    have h2 : (L1 ++ e.2 :: L2).idxOf e.2 = L1.length := by
      rw [List.idxOf_append, if_neg hb]
      simp
    show (L1 ++ e.2 :: L2).idxOf e.1 < (L1 ++ e.2 :: L2).idxOf e.2
    omega
  · exact ⟨L', by rw [hrun]; simp [he]⟩

end Ts

namespace Ts
open Kahn

/-- executable form of the premises `WFG g ∧ WellRanked g g.edges []`; the correspondence evaluates it on every graph the
    probe builds from distinct nodes and distinct edges (with re-indexing after removals) -/
def wfCheck (g : G) : Bool :=
  decide g.nodes.Nodup && decide g.edges.Nodup &&
  g.edges.all (fun e => g.nodes.contains e.1 && g.nodes.contains e.2) &&
  g.nodes.all (fun m => lookup g.inputs m == some (indeg g.edges m : Int)) &&
  decide (g.inputs.map (·.1)).Nodup &&
  (g.inputs.map (·.1)).all (fun k => g.nodes.contains k) &&
  g.nodes.all (fun n =>
    match childrenByRank ((lookup g.outputs n).getD []) with
    | none => false
    | some cs => decide cs.Nodup && cs.all (fun m => g.edges.contains (n, m)) &&
        g.edges.all (fun e => e.1 != n || cs.contains e.2))

theorem wfCheck_sound (g : G) (h : wfCheck g = true) : WFG g ∧ WellRanked g g.edges [] := by
  simp only [wfCheck, Bool.and_eq_true, decide_eq_true_eq, List.all_eq_true, List.contains_iff_mem,
    beq_iff_eq] at h
  obtain ⟨⟨⟨⟨⟨⟨h1, h2⟩, h3⟩, h4⟩, h5⟩, h6⟩, h7⟩ := h
  refine ⟨⟨h1, h2, fun e he => (h3 e he).1, fun e he => (h3 e he).2, h4, h5, h6⟩, ?_⟩
  intro n hn _
  have := h7 n hn
  cases hc : childrenByRank ((lookup g.outputs n).getD []) with
  | none => simp [hc] at this
  | some cs =>
    simp only [hc, Bool.and_eq_true, decide_eq_true_eq, List.all_eq_true, List.contains_iff_mem,
      Bool.or_eq_true, bne_iff_ne, ne_eq] at this
    obtain ⟨⟨c1, c2⟩, c3⟩ := this
    refine ⟨cs, rfl, c1, ?_⟩
    intro m
    constructor
    · exact c2 m
    · intro hm
      rcases c3 (n, m) hm with h' | h'
      · exact absurd rfl h'
      · exact h'

end Ts
