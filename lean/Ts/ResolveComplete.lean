import Ts.ResolveSound
/-! C10, the converse of `resolveU_sound`: on item sets in which every entity has at most one provider, `resolve` refuses
    only what it must - **if every requirement has a provider and the provider/requirement edges are acyclic, it
    succeeds** (`resolveU_complete`).

    What is needed beyond `Ts/ResolveSound.lean` is the value `AddEdge` returns (in-degree + 1 on a built graph): the
    "ambiguous" flag of the first loop stays off because a fresh entity node has in-degree 0, the "unsatisfied" flag of
    the second loop stays off because the entity node exists. -/
namespace Ts
open Kahn

theorem addEdge_ret (g : G) (h : Built g) (a b : Nat) (ha : a ∈ g.nodes) (hb : b ∈ g.nodes) :
    (g.addEdge a b).2 = (indeg g.edges b : Int) + 1 := by
  obtain ⟨m, hm⟩ := lookup_some_of_mem g.outputs a ha
  have hi := h.wf.inputs b hb
  simp [G.addEdge, hm, hi]

theorem indeg_fresh (g : G) (h : Built g) (k : Nat) (hk : k ∉ g.nodes) : indeg g.edges k = 0 := by
  unfold indeg
  rw [List.length_eq_zero_iff, List.filter_eq_nil_iff]
  intro e he
  simp only [decide_eq_true_eq]
  intro hek
  exact hk (hek ▸ h.wf.targets e he)

/-! ## first loop: the pair, not only the graph -/

theorem step1k_spec (name : Nat) (acc : G × Bool) (key : Nat) (h : Built acc.1) (hn : name ∈ acc.1.nodes)
    (hk : key ∉ acc.1.nodes) : step1k name acc key = (g1k name acc.1 key, acc.2) := by
  obtain ⟨hn1, he1⟩ := addNode_new acc.1 key hk
  have hb1 := built_addNode acc.1 h key hk
  have hname1 : name ∈ (acc.1.addNode key).1.nodes := by rw [hn1]; exact List.mem_append_left _ hn
  have hk1 : key ∈ (acc.1.addNode key).1.nodes := by rw [hn1]; simp
  have hret := addEdge_ret _ hb1 name key hname1 hk1
  rw [he1, indeg_fresh acc.1 h key hk] at hret
  have hfl : (acc.2 || decide (((acc.1.addNode key).1.addEdge name key).2 > 1)) = acc.2 := by
    rw [hret]; simp
  apply Prod.ext
  · rfl
  · exact hfl

theorem loop1_inner_pair (name : Nat) : ∀ (ks : List Nat) (acc : G × Bool), Built acc.1 → name ∈ acc.1.nodes →
    ks.Nodup → (∀ k ∈ ks, k ∉ acc.1.nodes) → ks.foldl (step1k name) acc = (ks.foldl (g1k name) acc.1, acc.2) := by
  intro ks
  induction ks with
  | nil => intro acc _ _ _ _; rfl
  | cons k ks ih =>
    intro acc h hn hnd hfresh
    rw [List.nodup_cons] at hnd
    have hk : k ∉ acc.1.nodes := hfresh k List.mem_cons_self
    obtain ⟨b1, n1, _⟩ := loop1_inner name [k] acc.1 h hn (by simp) (by simpa using hk)
    simp only [List.foldl_cons, List.foldl_nil] at b1 n1
    simp only [List.foldl_cons]
    rw [step1k_spec name acc k h hn hk]
    exact ih (g1k name acc.1 k, acc.2) b1 (by rw [n1]; exact List.mem_append_left _ hn) hnd.2 (by
      intro x hx hxn
      simp only at hxn
      rw [n1] at hxn
      rcases List.mem_append.1 hxn with hxn | hxn
      · exact hfresh x (List.mem_cons_of_mem _ hx) hxn
      · simp only [List.mem_singleton] at hxn; subst hxn; exact hnd.1 hx)

theorem loop1_pair : ∀ (its : List RItem) (acc : G × Bool), Built acc.1 → (its.map (·.name)).Nodup →
    (its.flatMap (·.provides)).Nodup → (∀ it ∈ its, it.name ∉ acc.1.nodes) →
    (∀ it ∈ its, ∀ k ∈ it.provides, k ∉ acc.1.nodes) → (∀ it ∈ its, ∀ it' ∈ its, ∀ k ∈ it.provides, k ≠ it'.name) →
    its.foldl step1 acc = (its.foldl g1 acc.1, acc.2) := by
  intro its
  induction its with
  | nil => intro acc _ _ _ _ _ _; rfl
  | cons it its ih =>
    intro acc h hnames hkeys hnf hkf hapart
    have hnames' := hnames
    have hkeys' := hkeys
    simp only [List.map_cons, List.nodup_cons] at hnames
    simp only [List.flatMap_cons] at hkeys
    rw [List.nodup_append] at hkeys
    obtain ⟨hk1, hk2, hk3⟩ := hkeys
    have hn : it.name ∉ acc.1.nodes := hnf it List.mem_cons_self
    obtain ⟨hn1, _⟩ := addNode_new acc.1 it.name hn
    have hb1 := built_addNode acc.1 h it.name hn
    have hfresh1 : ∀ k ∈ it.provides, k ∉ (acc.1.addNode it.name).1.nodes := by
      intro k hk hin
      rw [hn1] at hin
      rcases List.mem_append.1 hin with hin | hin
      · exact hkf it List.mem_cons_self k hk hin
      · simp only [List.mem_singleton] at hin
        exact hapart it List.mem_cons_self it List.mem_cons_self k hk hin
    have hstep : step1 acc it = (g1 acc.1 it, acc.2) := by
      show it.provides.foldl (step1k it.name) ((acc.1.addNode it.name).1, acc.2) = _
      rw [loop1_inner_pair it.name it.provides ((acc.1.addNode it.name).1, acc.2) hb1 (by rw [hn1]; simp) hk1 hfresh1]
      rfl
    -- facts about the graph after this item, from the single-item instance of `loop1`
    obtain ⟨b2, n2, _⟩ := loop1 [it] acc.1 h (by simp) (by simpa using hk1)
      (by intro x hx; simp only [List.mem_singleton] at hx; subst hx; exact hn)
      (by intro x hx k hk; simp only [List.mem_singleton] at hx; subst hx; exact hkf _ List.mem_cons_self k hk)
      (by intro a ha b hb k hk; simp only [List.mem_singleton] at ha hb; subst ha; subst hb
          exact hapart _ List.mem_cons_self _ List.mem_cons_self k hk)
    simp only [List.foldl_cons, List.foldl_nil] at b2 n2
    have hnodes2 : (g1 acc.1 it).nodes = acc.1.nodes ++ (it.name :: it.provides) := by
      rw [n2]; simp [nodesOf]
    simp only [List.foldl_cons]
    rw [hstep]
    exact ih (g1 acc.1 it, acc.2) b2 hnames.2 hk2
      (by
        intro it' hit' hin
        simp only at hin
        rw [hnodes2] at hin
        rcases List.mem_append.1 hin with hin | hin
        · exact hnf it' (List.mem_cons_of_mem _ hit') hin
        · rcases List.mem_cons.1 hin with hin | hin
          · exact hnames.1 (List.mem_map.2 ⟨it', hit', hin⟩)
          · exact hapart it List.mem_cons_self it' (List.mem_cons_of_mem _ hit') _ hin rfl)
      (by
        intro it' hit' k hk hin
        simp only at hin
        rw [hnodes2] at hin
        rcases List.mem_append.1 hin with hin | hin
        · exact hkf it' (List.mem_cons_of_mem _ hit') k hk hin
        · rcases List.mem_cons.1 hin with hin | hin
          · exact hapart it' (List.mem_cons_of_mem _ hit') it List.mem_cons_self k hk hin
          · exact hk3 k hin k (List.mem_flatMap.2 ⟨it', hit', hk⟩) rfl)
      (fun a ha b hb k hk => hapart a (List.mem_cons_of_mem _ ha) b (List.mem_cons_of_mem _ hb) k hk)

/-! ## second loop: flat form and its flag -/

def step2e (acc : G × Bool) (e : Edge) : G × Bool :=
  let (g, n) := acc.1.addEdge e.1 e.2
  (g, acc.2 || decide (n = 0))

theorem step2k_flat (name : Nat) : ∀ (ks : List Nat) (acc : G × Bool),
    ks.foldl (step2k name) acc = (ks.map fun k => (k, name)).foldl step2e acc := by
  intro ks
  induction ks with
  | nil => intro acc; rfl
  | cons k ks ih => intro acc; simp only [List.foldl_cons, List.map_cons]; rw [ih]; rfl

theorem step2_flat : ∀ (its : List RItem) (acc : G × Bool), its.foldl step2 acc = (reqEdges its).foldl step2e acc := by
  intro its
  induction its with
  | nil => intro acc; rfl
  | cons it its ih =>
    intro acc
    simp only [List.foldl_cons, reqEdges, List.flatMap_cons, List.foldl_append]
    rw [ih]
    congr 1
    exact step2k_flat it.name it.requires acc

theorem loop2_flag_off : ∀ (es : List Edge) (acc : G × Bool), Built acc.1 → es.Nodup →
    (∀ e ∈ es, e.1 ∈ acc.1.nodes ∧ e.2 ∈ acc.1.nodes ∧ e ∉ acc.1.edges) → (es.foldl step2e acc).2 = acc.2 := by
  intro es
  induction es with
  | nil => intro acc _ _ _; rfl
  | cons e es ih =>
    intro acc h hnd hok
    rw [List.nodup_cons] at hnd
    obtain ⟨h1, h2, h3⟩ := hok e List.mem_cons_self
    obtain ⟨hb, hn, hp⟩ := built_addEdge acc.1 h e.1 e.2 h1 h2 h3
    have hret := addEdge_ret acc.1 h e.1 e.2 h1 h2
    have hstep : step2e acc e = ((acc.1.addEdge e.1 e.2).1, acc.2) := by
      have hd : decide ((acc.1.addEdge e.1 e.2).2 = 0) = false := by
        rw [hret]; simp only [decide_eq_false_iff_not]; omega
      apply Prod.ext
      · rfl
      · show (acc.2 || decide ((acc.1.addEdge e.1 e.2).2 = 0)) = acc.2
        rw [hd]; simp
    simp only [List.foldl_cons]
    rw [hstep]
    have := ih ((acc.1.addEdge e.1 e.2).1, acc.2) hb hnd.2 (by
      intro x hx
      obtain ⟨x1, x2, x3⟩ := hok x (List.mem_cons_of_mem _ hx)
      refine ⟨by simp only; rw [hn]; exact x1, by simp only; rw [hn]; exact x2, ?_⟩
      intro hxe
      rcases List.mem_cons.1 (hp.mem_iff.1 hxe) with hxe | hxe
      · have hxe' : x = e := by rw [hxe]
        exact hnd.1 (hxe' ▸ hx)
      · exact x3 hxe)
    simpa using this

/-! ## the theorem -/

/-- the dependency relation of an item set: provider → entity → consumer -/
def depEdges (items : List RItem) : List Edge := provEdges items ++ reqEdges items

/-- **C10, converse**: every entity provided at most once, every requirement provided, no dependency cycle ⇒ `resolve`
succeeds -/
theorem resolveU_complete (items : List RItem) (hw : WFItems items)
    (hsat : ∀ q ∈ items, ∀ k ∈ q.requires, ∃ p ∈ items, k ∈ p.provides) (hacyc : Ranked (depEdges items)) :
    ∃ order, resolveU items = .ok order := by
  have hap : ∀ a ∈ items, ∀ b ∈ items, ∀ k ∈ a.provides, k ≠ b.name :=
    fun a ha b hb k hk => hw.apart a ha b hb k (List.mem_append_left _ hk)
  -- first loop
  have hpair := loop1_pair items (G.empty, false) built_empty hw.names hw.unique
    (by simp [G.nodes, G.empty]) (by simp [G.nodes, G.empty]) hap
  obtain ⟨b1, n1, p1⟩ := loop1 items G.empty built_empty hw.names hw.unique
    (by simp [G.nodes, G.empty]) (by simp [G.nodes, G.empty]) hap
  have hn0 : G.nodes G.empty = [] := by simp [G.nodes, G.empty]
  have hE0 : G.edges G.empty = [] := by simp [G.edges, G.empty]
  rw [hn0, List.nil_append] at n1
  rw [hE0, List.append_nil] at p1
  generalize hgA : items.foldl g1 G.empty = gA at *
  have hnodesA : ∀ x, x ∈ gA.nodes ↔ (∃ it ∈ items, x = it.name) ∨ ∃ it ∈ items, x ∈ it.provides := by
    intro x; rw [n1]; exact mem_nodesOf items x
  -- second loop
  have hreqOK : ∀ e ∈ reqEdges items, e.1 ∈ gA.nodes ∧ e.2 ∈ gA.nodes ∧ e ∉ gA.edges := by
    intro e he
    obtain ⟨it, hit, he'⟩ := List.mem_flatMap.1 he
    obtain ⟨k, hk, rfl⟩ := List.mem_map.1 he'
    refine ⟨(hnodesA k).2 (Or.inr (hsat it hit k hk)), (hnodesA _).2 (Or.inl ⟨it, hit, rfl⟩), ?_⟩
    intro hin
    obtain ⟨it', hit', hin'⟩ := List.mem_flatMap.1 (p1.mem_iff.1 hin)
    obtain ⟨k', _, hkk⟩ := List.mem_map.1 hin'
    simp only [Prod.mk.injEq] at hkk
    exact hw.apart it hit it' hit' k (List.mem_append_right _ hk) hkk.1.symm
  have hnd := reqEdges_nodup items hw.names hw.reqNodup
  have hflag2 := loop2_flag_off (reqEdges items) (gA, false) b1 hnd hreqOK
  obtain ⟨b2, _, p2⟩ := build_edges (reqEdges items) gA b1 hnd hreqOK
  have hfst := step2_fst items (gA, false)
  simp only at hfst
  rw [← hfst] at b2 p2
  -- the sort
  obtain ⟨wf, wr⟩ := built_premises _ b2
  have hrk : Ranked ((items.foldl step2 (gA, false)).1).edges := by
    obtain ⟨f, hf⟩ := hacyc
    refine ⟨f, fun e he => hf e ?_⟩
    rcases List.mem_append.1 (p2.mem_iff.1 he) with h | h
    · exact List.mem_append_right _ (List.mem_reverse.1 h)
    · exact List.mem_append_left _ (p1.mem_iff.1 h)
  obtain ⟨L, hL⟩ := G.toposort_complete _ wf wr hrk
  refine ⟨L.filter fun n => items.any (·.name = n), ?_⟩
  rw [resolveU_eq]
  simp only
  rw [hpair]
  simp only [Bool.false_eq_true, if_false]
  have h2 : (items.foldl step2 (gA, false)).2 = false := by rw [step2_flat]; exact hflag2
  rw [h2]
  simp only [Bool.false_eq_true, if_false]
  rw [hL]

theorem Before_idxOf (L : List Nat) (hnd : L.Nodup) (a b : Nat) (h : Before L a b) : L.idxOf a < L.idxOf b := by
  obtain ⟨L1, L2, rfl, ha⟩ := h
  have hb : b ∉ L1 := by
    intro hb
    rw [List.nodup_append] at hnd
    exact hnd.2.2 b hb b List.mem_cons_self rfl
  rw [List.idxOf_append, if_pos ha, List.idxOf_append, if_neg hb, List.idxOf_cons_self]
  have := List.idxOf_lt_length_of_mem ha
  omega

/-- a successful `resolve` certifies that the dependency edges are acyclic (the resolved order of all graph nodes ranks them) -/
theorem resolveU_acyclic (items : List RItem) (hw : WFItems items) (order : List Nat) (h : resolveU items = .ok order) :
    Ranked (depEdges items) := by
  rw [resolveU_eq] at h
  simp only at h
  split at h
  · cases h
  split at h
  · cases h
  rename_i hunsat
  simp only [Bool.not_eq_true] at hunsat
  obtain ⟨b1, n1, p1⟩ := loop1 items G.empty built_empty hw.names hw.unique
    (by simp [G.nodes, G.empty]) (by simp [G.nodes, G.empty])
    (fun a ha b hb k hk => hw.apart a ha b hb k (List.mem_append_left _ hk))
  rw [← step1_fst items (G.empty, false)] at b1 n1 p1
  have hn0 : G.nodes G.empty = [] := by simp [G.nodes, G.empty]
  rw [hn0, List.nil_append] at n1
  have hE0 : G.edges G.empty = [] := by simp [G.edges, G.empty]
  rw [hE0, List.append_nil] at p1
  generalize hg1 : (items.foldl step1 (G.empty, false)).1 = gA at *
  obtain ⟨_, fl⟩ := loop2_flag items (gA, false)
  obtain ⟨_, hreq⟩ := fl hunsat
  simp only at hreq
  have hnodesA : ∀ x, x ∈ gA.nodes ↔ (∃ it ∈ items, x = it.name) ∨ ∃ it ∈ items, x ∈ it.provides := by
    intro x
    have : gA.nodes = nodesOf items := n1
    rw [this]; exact mem_nodesOf items x
  have hfst := step2_fst items (gA, false)
  simp only at hfst
  obtain ⟨b2, _, p2⟩ := build_edges (reqEdges items) gA b1 (reqEdges_nodup items hw.names hw.reqNodup) (by
    intro e he
    obtain ⟨it, hit, he'⟩ := List.mem_flatMap.1 he
    obtain ⟨k, hk, rfl⟩ := List.mem_map.1 he'
    refine ⟨hreq it hit k hk, (hnodesA _).2 (Or.inl ⟨it, hit, rfl⟩), ?_⟩
    intro hin
    obtain ⟨it', hit', hin'⟩ := List.mem_flatMap.1 (p1.mem_iff.1 hin)
    obtain ⟨k', _, hkk⟩ := List.mem_map.1 hin'
    simp only [Prod.mk.injEq] at hkk
    exact hw.apart it hit it' hit' k (List.mem_append_right _ hk) hkk.1.symm)
  rw [← hfst] at b2 p2
  generalize hg2 : (items.foldl step2 (gA, false)).1 = gB at *
  obtain ⟨wf, wr⟩ := built_premises gB b2
  split at h
  · cases h
  · rename_i L hL
    obtain ⟨lnd, _, lbef⟩ := G.toposort_sound gB wf wr L hL
    refine ⟨fun x => L.idxOf x, fun e he => Before_idxOf L lnd _ _ (lbef e ?_)⟩
    apply p2.mem_iff.2
    rcases List.mem_append.1 he with he | he
    · exact List.mem_append_right _ (p1.mem_iff.2 he)
    · exact List.mem_append_left _ (List.mem_reverse.2 he)
  · cases h

/-- **`resolve` succeeds exactly on the satisfiable acyclic sets** (every entity provided at most once) -/
theorem resolveU_iff (items : List RItem) (hw : WFItems items) :
    (∃ order, resolveU items = .ok order) ↔
      ((∀ q ∈ items, ∀ k ∈ q.requires, ∃ p ∈ items, k ∈ p.provides) ∧ Ranked (depEdges items)) := by
  constructor
  · rintro ⟨order, h⟩
    exact ⟨(resolveU_sound items hw order h).2.2.1, resolveU_acyclic items hw order h⟩
  · rintro ⟨hsat, hacyc⟩
    exact resolveU_complete items hw hsat hacyc

end Ts
