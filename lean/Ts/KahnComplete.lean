import Ts.Kahn
/-! C15, completeness: on an acyclic graph the sort reports success (so, with `toposortP_sound`, success ⇔ acyclic).

  "Acyclic" is stated as the existence of a rank function that increases along every edge (`Ranked`); a graph with a
  cycle has no such function (`not_ranked_of_cycle`), and the sort's own success produces one (the position in the
  output, by soundness), so for finite graphs this is the usual notion.  The child order `pick` must cover all
  out-edges of the popped node (`PickAll`), as the rank order of the real code and `children` do. -/
namespace Kahn

def Ranked (E : List Edge) : Prop := ∃ rank : Nat → Nat, ∀ e ∈ E, rank e.1 < rank e.2

/-- the child order lists every out-edge of the node -/
def PickAll (pick : List Edge → Nat → List Nat) : Prop := ∀ E n m, (n, m) ∈ E → m ∈ pick E n

theorem children_all : PickAll children := by
  intro E n m h
  unfold children
  exact List.mem_map.2 ⟨(n, m), List.mem_filter.2 ⟨h, by simp⟩, rfl⟩

theorem mem_relax_edges (n : Nat) : ∀ (ms : List Nat) (E : List Edge) (S : List Nat) (e : Edge),
    e ∈ (relax n ms E S).1 ↔ e ∈ E ∧ ¬ (e.1 = n ∧ e.2 ∈ ms) := by
  intro ms
  induction ms with
  | nil => intro E S e; simp [relax]
  | cons m ms ih =>
    intro E S e
    simp only [relax]
    rw [ih]
    simp only [List.mem_filter, bne_iff_ne, ne_eq, List.mem_cons]
    constructor
    · rintro ⟨⟨h1, h2⟩, h3⟩
      refine ⟨h1, ?_⟩
      rintro ⟨h4, h5 | h5⟩
      · exact h2 (Prod.ext h4 h5)
      · exact h3 ⟨h4, h5⟩
    · rintro ⟨h1, h2⟩
      refine ⟨⟨h1, ?_⟩, ?_⟩
      · intro h3; exact h2 ⟨by rw [h3], .inl (by rw [h3])⟩
      · rintro ⟨h4, h5⟩; exact h2 ⟨h4, .inr h5⟩

/-- every remaining edge starts at a node that is not in the output yet -/
def Src (E : List Edge) (L : List Nat) : Prop := ∀ e ∈ E, e.1 ∉ L

theorem inv_length {V : List Nat} {E0 E : List Edge} {S L : List Nat} (h : Inv V E0 E S L) :
    (S ++ L).length ≤ V.length :=
  List.Nodup.length_le_of_subset h.nodup (fun x hx => h.inV x hx)

/-- the loop: it does not run out of fuel, ends with an empty queue, and keeps `Inv` and `Src` -/
theorem kahn_total {V : List Nat} {E0 : List Edge} (hV : ∀ e ∈ E0, e.1 ∈ V ∧ e.2 ∈ V)
    (pick : List Edge → Nat → List Nat) (hpick : PickOK pick) (hall : PickAll pick) :
    ∀ (f : Nat) (E : List Edge) (S L : List Nat),
    E.Nodup → Inv V E0 E S L → Src E L → V.length < f + L.length →
    ∃ E' L', kahnP pick f E S L = some (E', L') ∧ Inv V E0 E' [] L' ∧ Src E' L' := by
  intro f
  induction f with
  | zero =>
    intro E S L _ h hs hf
    cases S with
    | nil => exact ⟨E, L, by simp [kahnP], h, hs⟩
    | cons n S =>
      have := inv_length h
      simp at this hf
      omega
  | succ f ih =>
    intro E S L hnd h hs hf
    cases S with
    | nil => exact ⟨E, L, by simp [kahnP], h, hs⟩
    | cons n S =>
      simp only [kahnP]
      have h1 := inv_pop h
      have h2 := inv_relax hV n (L := L ++ [n]) (by simp) (pick E n) E S h1 (hpick E n hnd).1
        (hpick E n hnd).2
      apply ih _ _ _ (relax_nodup n _ _ _ hnd) h2
      · intro e he
        rw [mem_relax_edges] at he
        intro hin
        rcases List.mem_append.1 hin with hin | hin
        · exact hs e he.1 hin
        · have e1 : e.1 = n := by simpa using hin
          exact he.2 ⟨e1, hall E n e.2 (by rw [← e1]; exact he.1)⟩
      · simp; omega

/-- **C15 (completeness)**: on an acyclic graph (one that admits a rank function increasing along every edge) built from
    distinct nodes and distinct edges the sort terminates and reports success -/
theorem toposortP_complete (pick : List Edge → Nat → List Nat) (hpick : PickOK pick) (hall : PickAll pick)
    (V : List Nat) (E : List Edge) (hVn : V.Nodup) (hEn : E.Nodup)
    (hV : ∀ e ∈ E, e.1 ∈ V ∧ e.2 ∈ V) (hr : Ranked E) :
    ∃ L, toposortP pick V E = some (L, true) := by
  have h0 : Inv V E E (V.filter (noIn E)) [] := by
    refine ⟨fun _ h => h, fun _ h => .inl h, ?_, ?_, ?_, ?_, ?_⟩
    · intro x hx; simp at hx; exact hx.2
    · simpa using List.Nodup.sublist List.filter_sublist hVn
    · intro x hx hz; simp [hx, hz]
    · intro x hx; simp at hx; exact hx.1
    · intro e _ h2; simp at h2
  obtain ⟨E', L', hk, hinv, hsrc⟩ := kahn_total hV pick hpick hall (V.length + 1) E (V.filter (noIn E)) [] hEn h0
    (by intro e _ h; simp at h) (by simp)
  obtain ⟨rank, hrank⟩ := hr
  have hempty : E' = [] := by
    rw [List.eq_nil_iff_forall_not_mem]
    suffices H : ∀ k, ∀ e ∈ E', rank e.1 ≠ k by
      intro e he; exact H (rank e.1) e he rfl
    intro k
    induction k using Nat.strongRecOn with
    | _ k ih =>
      intro e he hk'
      have heV := (hV e (hinv.sub e he)).1
      have hnotL : e.1 ∉ ([] : List Nat) ++ L' := by simpa using hsrc e he
      have hnz : ¬ noIn E' e.1 = true := fun hz => hnotL (hinv.ready e.1 heV hz)
      have : ∃ e' ∈ E', e'.2 = e.1 := by
        have c' : noIn E' e.1 = false := by simpa using hnz
        unfold noIn at c'
        rw [List.all_eq_false] at c'
        obtain ⟨e', he', h2⟩ := c'
        exact ⟨e', he', by simpa using h2⟩
      obtain ⟨e', he', h2⟩ := this
      have hlt := hrank e' (hinv.sub e' he')
      rw [h2, hk'] at hlt
      exact ih (rank e'.1) hlt e' he' rfl
  refine ⟨L', ?_⟩
  unfold toposortP
  rw [hk, hempty]
  rfl

/-- a graph with a cycle (a closed walk along edges) has no rank function -/
theorem not_ranked_of_cycle (E : List Edge) (c : Nat) (walk : List Nat)
    (hw : ∀ p ∈ (c :: walk).zip (walk ++ [c]), p ∈ E) : ¬ Ranked E := by
  rintro ⟨rank, hr⟩
  -- along the walk the rank strictly increases, but it returns to `c`
  have key : ∀ (w : List Nat) (a : Nat), (∀ p ∈ (a :: w).zip (w ++ [c]), p ∈ E) → rank a < rank c := by
    intro w
    induction w with
    | nil =>
      intro a h
      exact hr (a, c) (h (a, c) (by simp))
    | cons b w ih =>
      intro a h
      have h1 : rank a < rank b := hr (a, b) (h (a, b) (by simp))
      have h2 := ih b (fun p hp => h p (by simp [hp]))
      omega
  exact absurd (key walk c hw) (by omega)

/-- success ⇔ acyclic, for `children` (the order used when nothing else is specified) -/
theorem toposort_success_iff (V : List Nat) (E : List Edge) (hVn : V.Nodup) (hEn : E.Nodup)
    (hV : ∀ e ∈ E, e.1 ∈ V ∧ e.2 ∈ V) :
    (∃ L, toposort V E = some (L, true)) ↔ Ranked E := by
  constructor
  · rintro ⟨L, h⟩
    have hs := toposortP_sound children (fun E n hE => ⟨children_nodup hE n, fun m hm => mem_children hm⟩)
      V E hVn hEn hV L h
    -- rank = position in the output
    refine ⟨fun x => L.idxOf x, ?_⟩
    intro e he
    obtain ⟨L1, L2, hL, ha⟩ := hs.2.2 e he
    have hnd := hs.1
    rw [hL] at hnd ⊢
    have hb : e.2 ∉ L1 := by
      intro hb
      have := (List.nodup_append.1 hnd).2.2 e.2 hb e.2 (by simp)
      exact this rfl
    have h1 : (L1 ++ e.2 :: L2).idxOf e.1 < L1.length := by
      rw [List.idxOf_append, if_pos ha]
      exact List.idxOf_lt_length_of_mem ha
    have h2 : (L1 ++ e.2 :: L2).idxOf e.2 = L1.length := by
      rw [List.idxOf_append, if_neg hb]
      simp
    show (L1 ++ e.2 :: L2).idxOf e.1 < (L1 ++ e.2 :: L2).idxOf e.2
    omega
  · intro hr
    exact toposortP_complete children
      (fun E n hE => ⟨children_nodup hE n, fun m hm => mem_children hm⟩) children_all V E hVn hEn hV hr

end Kahn
