import Ts.Cycle
/-! C15: the checker for `FindCycle` answers is sound and complete.  `Path g a b`: a walk of at least one edge.
    `hasCycleThrough g seed = true` iff a walk from the seed back to itself exists (for graphs whose edges end in
    nodes of the graph, the breadth-first search has enough fuel), and an accepted non-empty answer is such a walk that
    starts at the seed. -/
namespace Ts

inductive G.Path (g : G) : Nat → Nat → Prop
  | single {a b : Nat} : b ∈ g.children a → G.Path g a b
  | tail {a b c : Nat} : G.Path g a b → c ∈ g.children b → G.Path g a c

theorem addNewN_spec (w ps : List Nat) :
    (∀ x, x ∈ addNewN w ps ↔ x ∈ w ∨ x ∈ ps) ∧ (w.Nodup → (addNewN w ps).Nodup) := by
  unfold addNewN
  induction ps generalizing w with
  | nil => exact ⟨by simp, fun h => by simpa using h⟩
  | cons p ps ih =>
    simp only [List.foldl_cons]
    by_cases hc : w.contains p = true
    · simp only [hc, if_true]
      obtain ⟨hm, hn⟩ := ih w
      refine ⟨?_, hn⟩
      intro x; rw [hm x]
      have : p ∈ w := by simpa using hc
      constructor
      · rintro (h | h); exact Or.inl h; exact Or.inr (List.mem_cons_of_mem _ h)
      · rintro (h | h); exact Or.inl h
        rcases List.mem_cons.mp h with rfl | h; exact Or.inl this; exact Or.inr h
    · simp only [hc, Bool.false_eq_true, ↓reduceIte]
      obtain ⟨hm, hn⟩ := ih (w ++ [p])
      have hnp : p ∉ w := by simpa using hc
      refine ⟨?_, ?_⟩
      · intro x; rw [hm x]; simp only [List.mem_append, List.mem_cons, List.not_mem_nil, or_false]
        constructor
        · rintro ((h | h) | h); exact Or.inl h; exact Or.inr (Or.inl h); exact Or.inr (Or.inr h)
        · rintro (h | h | h); exact Or.inl (Or.inl h); exact Or.inl (Or.inr h); exact Or.inr h
      · intro hw; apply hn
        rw [List.nodup_append]
        exact ⟨hw, by simp, by intro a ha b hb; simp at hb; subst hb; intro h; subst h; exact hnp ha⟩

/-- one round of the search: the new nodes -/
def G.nextOf (g : G) (frontier seen : List Nat) : List Nat :=
  (addNewN [] (frontier.flatMap g.children)).filter (fun x => !seen.contains x)

theorem mem_nextOf (g : G) (frontier seen : List Nat) (x : Nat) :
    x ∈ g.nextOf frontier seen ↔ (∃ a ∈ frontier, x ∈ g.children a) ∧ x ∉ seen := by
  unfold G.nextOf
  rw [List.mem_filter, (addNewN_spec [] _).1 x]
  simp only [List.not_mem_nil, false_or, List.mem_flatMap, Bool.not_eq_true', List.contains_eq_mem,
    decide_eq_false_iff_not]

theorem nodup_nextOf (g : G) (frontier seen : List Nat) : (g.nextOf frontier seen).Nodup :=
  ((addNewN_spec [] _).2 (by simp)).filter _

theorem reachFrom_succ (g : G) (fuel : Nat) (frontier seen : List Nat) :
    g.reachFrom (fuel + 1) frontier seen =
      if (g.nextOf frontier seen).isEmpty then seen else g.reachFrom fuel (g.nextOf frontier seen) (seen ++ g.nextOf frontier seen) := rfl

/-- soundness: everything the search collects is reachable from the seed -/
theorem reachFrom_sound (g : G) (seed : Nat) : ∀ fuel frontier seen,
    (∀ x ∈ frontier, x = seed ∨ g.Path seed x) → (∀ x ∈ seen, g.Path seed x) →
    ∀ x ∈ g.reachFrom fuel frontier seen, g.Path seed x := by
  intro fuel
  induction fuel with
  | zero => intro frontier seen _ hs x hx; exact hs x hx
  | succ n ih =>
    intro frontier seen hf hs x hx
    rw [reachFrom_succ] at hx
    split at hx
    · exact hs x hx
    · have hnext : ∀ y ∈ g.nextOf frontier seen, g.Path seed y := by
        intro y hy
        obtain ⟨⟨a, ha, hya⟩, _⟩ := (mem_nextOf g frontier seen y).mp hy
        rcases hf a ha with rfl | hp
        · exact G.Path.single hya
        · exact G.Path.tail hp hya
      apply ih _ _ (fun y hy => Or.inr (hnext y hy)) ?_ x hx
      intro y hy
      rcases List.mem_append.mp hy with hy | hy
      · exact hs y hy
      · exact hnext y hy

/-- every edge ends in a node of the graph -/
def G.Closed (g : G) : Prop := ∀ n, ∀ c ∈ g.children n, c ∈ g.outputs.map (·.1)

/-- the search invariant: whatever was expanded already has all its children in `seen` -/
def SInv (g : G) (seed : Nat) (frontier seen : List Nat) : Prop :=
  ∀ x, (x = seed ∨ x ∈ seen) → x ∈ frontier ∨ ∀ c ∈ g.children x, c ∈ seen

/-- completeness: with enough fuel the result is closed under edges, hence holds everything reachable -/
theorem reachFrom_complete (g : G) (hc : g.Closed) (seed : Nat) : ∀ fuel frontier seen,
    SInv g seed frontier seen → seen.Nodup → (∀ x ∈ seen, x ∈ g.outputs.map (·.1)) →
    g.outputs.length < seen.length + fuel →
    ∀ y, g.Path seed y → y ∈ g.reachFrom fuel frontier seen := by
  intro fuel
  induction fuel with
  | zero =>
    intro frontier seen _ hn hs hl
    have := List.Nodup.length_le_of_subset hn hs
    simp only [List.length_map] at this
    omega
  | succ n ih =>
    intro frontier seen hI hn hs hl y hy
    rw [reachFrom_succ]
    split
    · -- nothing new: `seen` is closed
      rename_i hemp
      have hnone : ∀ a ∈ frontier, ∀ c ∈ g.children a, c ∈ seen := by
        intro a ha c hca
        by_cases hcs : c ∈ seen
        · exact hcs
        · have : c ∈ g.nextOf frontier seen := (mem_nextOf g frontier seen c).mpr ⟨⟨a, ha, hca⟩, hcs⟩
          rw [List.isEmpty_iff] at hemp
          rw [hemp] at this; simp at this
      have hclosed : ∀ x, (x = seed ∨ x ∈ seen) → ∀ c ∈ g.children x, c ∈ seen := by
        intro x hx c hcx
        rcases hI x hx with hf | hall
        · exact hnone x hf c hcx
        · exact hall c hcx
      induction hy with
      | single hb => exact hclosed seed (Or.inl rfl) _ hb
      | tail _ hcb ih' => exact hclosed _ (Or.inr ih') _ hcb
    · rename_i hne
      have hpos : 0 < (g.nextOf frontier seen).length := by
        cases hq : g.nextOf frontier seen with
        | nil => simp [hq] at hne
        | cons _ _ => simp
      apply ih (g.nextOf frontier seen) (seen ++ g.nextOf frontier seen) ?_ ?_ ?_ ?_ y hy
      · -- invariant
        intro x hx
        by_cases hxn : x ∈ g.nextOf frontier seen
        · exact Or.inl hxn
        · right
          have hx' : x = seed ∨ x ∈ seen := by
            rcases hx with h | h
            · exact Or.inl h
            · rcases List.mem_append.mp h with h | h
              · exact Or.inr h
              · exact absurd h hxn
          intro c hcx
          rcases hI x hx' with hf | hall
          · by_cases hcs : c ∈ seen
            · exact List.mem_append_left _ hcs
            · exact List.mem_append_right _ ((mem_nextOf g frontier seen c).mpr ⟨⟨x, hf, hcx⟩, hcs⟩)
          · exact List.mem_append_left _ (hall c hcx)
      · rw [List.nodup_append]
        refine ⟨hn, nodup_nextOf g frontier seen, ?_⟩
        intro a ha b hb hab
        subst hab
        exact ((mem_nextOf g frontier seen a).mp hb).2 ha
      · intro x hx
        rcases List.mem_append.mp hx with hx | hx
        · exact hs x hx
        · obtain ⟨⟨a, _, hxa⟩, _⟩ := (mem_nextOf g frontier seen x).mp hx
          exact hc a x hxa
      · rw [List.length_append]; omega

/-- **FindCycle, existence**: the checker's search decides whether a walk from the seed back to the seed exists -/
theorem hasCycleThrough_iff (g : G) (hc : g.Closed) (seed : Nat) :
    g.hasCycleThrough seed = true ↔ g.Path seed seed := by
  unfold G.hasCycleThrough
  rw [List.contains_iff_mem]
  constructor
  · intro h
    exact reachFrom_sound g seed _ [seed] [] (by intro x hx; simp at hx; exact Or.inl hx) (by simp) seed h
  · intro h
    apply reachFrom_complete g hc seed _ [seed] [] ?_ (by simp) (by simp) (by simp) seed h
    intro x hx
    rcases hx with rfl | hx
    · exact Or.inl (by simp)
    · simp at hx

/-- a list of nodes is a closed walk from `a`: consecutive nodes are joined by edges and the last one has an edge to `z` -/
def G.Walk (g : G) : List Nat → Nat → Prop
  | [], _ => False
  | [a], z => z ∈ g.children a
  | a :: b :: rest, z => b ∈ g.children a ∧ G.Walk g (b :: rest) z

theorem walk_of_valid (g : G) : ∀ (c : List Nat) (z : Nat), c ≠ [] →
    ((c.zip (c.drop 1 ++ [z])).all fun (a, b) => (g.children a).contains b) = true → g.Walk c z := by
  intro c
  induction c with
  | nil => intro z h; exact absurd rfl h
  | cons a rest ih =>
    intro z _ h
    cases rest with
    | nil =>
      simp only [List.drop_succ_cons, List.drop_nil, List.nil_append, List.zip_cons_cons, List.zip_nil_left,
        List.all_cons, List.all_nil, Bool.and_true, List.contains_iff_mem] at h
      exact h
    | cons b rest' =>
      simp only [List.drop_succ_cons, List.drop_zero, List.cons_append, List.zip_cons_cons, List.all_cons,
        Bool.and_eq_true, List.contains_iff_mem] at h
      refine ⟨h.1, ih z (by simp) ?_⟩
      simpa using h.2

theorem path_of_walk (g : G) : ∀ (c : List Nat) (a z : Nat), g.Walk (a :: c) z → g.Path a z := by
  intro c
  induction c with
  | nil => intro a z h; exact G.Path.single h
  | cons b rest ih =>
    intro a z h
    obtain ⟨hab, hw⟩ := h
    have hp := ih b z hw
    -- prepend the edge a → b
    clear ih hw
    induction hp with
    | single hbz => exact G.Path.tail (G.Path.single hab) hbz
    | tail _ hcz ih' => exact G.Path.tail ih' hcz

/-- **FindCycle, answers**: an accepted answer is either empty while no cycle through the seed exists, or a list that
starts at the seed and is a closed walk along edges of the graph back to the seed -/
theorem cycleAnswerOK_sound (g : G) (hc : g.Closed) (seed : Nat) (answer : List Nat)
    (h : g.cycleAnswerOK seed answer = true) :
    (answer = [] ∧ ¬ g.Path seed seed) ∨
    (∃ rest, answer = seed :: rest ∧ g.Walk answer seed ∧ g.Path seed seed) := by
  unfold G.cycleAnswerOK at h
  cases answer with
  | nil =>
    left
    simp only [List.isEmpty_nil, if_true, Bool.not_eq_true'] at h
    refine ⟨rfl, fun hp => ?_⟩
    rw [(hasCycleThrough_iff g hc seed).mpr hp] at h
    cases h
  | cons first rest =>
    right
    simp only [List.isEmpty_cons, Bool.false_eq_true, if_false, G.validCycle, Bool.and_eq_true, beq_iff_eq] at h
    obtain ⟨hf, hall⟩ := h
    subst hf
    have hw := walk_of_valid g (first :: rest) first (by simp) hall
    exact ⟨rest, rfl, hw, path_of_walk g rest first first hw⟩

end Ts

namespace Ts

/-- executable form of `G.Closed` (evaluated by the correspondence before every `FindCycle` answer is validated) -/
def closedCheck (g : G) : Bool :=
  g.outputs.all fun e => (g.children e.1).all fun c => (g.outputs.map (·.1)).contains c

theorem closedCheck_sound (g : G) (h : closedCheck g = true) : g.Closed := by
  intro n c hc
  unfold closedCheck at h
  rw [List.all_eq_true] at h
  unfold G.children at hc
  cases hl : lookup g.outputs n with
  | none => simp [hl] at hc
  | some cs =>
    unfold lookup at hl
    cases hf : g.outputs.find? (·.1 = n) with
    | none => simp [hf] at hl
    | some e =>
      have hmem := List.mem_of_find?_eq_some hf
      have hk : e.1 = n := by simpa using List.find?_some hf
      have := h e hmem
      rw [List.all_eq_true] at this
      have hc' : c ∈ g.children e.1 := by
        unfold G.children; rw [hk]; exact hc
      simpa using this c hc'

end Ts
