import Ts.Build
import Ts.Resolve
/-! C10: `Pipeline.resolve` for item sets in which every entity has at most one provider (the model `resolveU`, compared
    with the real function on every run): **whenever it succeeds, the order it returns is a duplicate-free list of exactly
    the items, every requirement of every item has a provider, and that provider comes earlier.**

    The proof follows the two loops of `resolve`: the first builds nodes and provider edges (item -> [entity]), the
    second the requirement edges ([entity] -> item); both keep the invariant `Built` of `Ts/Build.lean`, so the
    concrete Kahn sort is a linear extension of all those edges (`G.toposort_sound`), and filtering the item names out
    of it keeps relative order. -/
namespace Ts
open Kahn

/-! ## the order relation `Before` -/

theorem split_unique : ∀ (L1 X L2 Y : List Nat) (k : Nat), (L1 ++ k :: L2).Nodup → L1 ++ k :: L2 = X ++ k :: Y → L1 = X := by
  intro L1
  induction L1 with
  | nil =>
    intro X L2 Y k hnd h
    cases X with
    | nil => rfl
    | cons x X =>
      simp only [List.nil_append, List.cons_append, List.cons.injEq] at h
      obtain ⟨rfl, h2⟩ := h
      rw [h2] at hnd
      simp at hnd
  | cons a L1 ih =>
    intro X L2 Y k hnd h
    cases X with
    | nil =>
      simp only [List.nil_append, List.cons_append, List.cons.injEq] at h
      obtain ⟨rfl, _⟩ := h
      simp at hnd
    | cons x X =>
      simp only [List.cons_append, List.cons.injEq] at h
      obtain ⟨rfl, h2⟩ := h
      rw [List.cons_append, List.nodup_cons] at hnd
      rw [ih X L2 Y k hnd.2 h2]

theorem Before_trans (L : List Nat) (hnd : L.Nodup) (a k b : Nat) (h1 : Before L a k) (h2 : Before L k b) : Before L a b := by
  obtain ⟨L1, L2, e1, ha⟩ := h1
  obtain ⟨M1, M2, e2, hk⟩ := h2
  obtain ⟨X, Y, rfl⟩ := List.append_of_mem hk
  refine ⟨X ++ k :: Y, M2, e2, ?_⟩
  have : L1 = X := by
    apply split_unique L1 X L2 (Y ++ b :: M2) k (e1 ▸ hnd)
    rw [← e1, e2]; simp
  rw [← this]; exact List.mem_append_left _ ha

theorem Before_filter (L : List Nat) (f : Nat → Bool) (a b : Nat) (h : Before L a b) (ha : f a = true) (hb : f b = true) :
    Before (L.filter f) a b := by
  obtain ⟨L1, L2, rfl, hm⟩ := h
  refine ⟨L1.filter f, L2.filter f, ?_, List.mem_filter.2 ⟨hm, ha⟩⟩
  rw [List.filter_append, List.filter_cons, if_pos hb]

/-! ## the two loops, written as named steps -/

def step1k (name : Nat) (acc : G × Bool) (key : Nat) : G × Bool :=
  let g := (acc.1.addNode key).1
  let (g, n) := g.addEdge name key
  (g, acc.2 || decide (n > 1))

def step1 (acc : G × Bool) (it : RItem) : G × Bool :=
  let g := (acc.1.addNode it.name).1
  it.provides.foldl (step1k it.name) (g, acc.2)

def step2k (name : Nat) (acc : G × Bool) (key : Nat) : G × Bool :=
  let (g, n) := acc.1.addEdge key name
  (g, acc.2 || decide (n = 0))

def step2 (acc : G × Bool) (it : RItem) : G × Bool := it.requires.foldl (step2k it.name) acc

theorem resolveU_eq (items : List RItem) : resolveU items =
    (let r1 := items.foldl step1 (G.empty, false)
     if r1.2 then .ambiguous else
     let r2 := items.foldl step2 (r1.1, false)
     if r2.2 then .unsatisfied else
     match r2.1.toposort with
     | none => .panic
     | some (order, true) => .ok (order.filter fun n => items.any (·.name = n))
     | some (_, false) => .cyclic) := rfl

/-- the graph component of the first loop -/
def g1k (name : Nat) (g : G) (key : Nat) : G := ((g.addNode key).1.addEdge name key).1
def g1 (g : G) (it : RItem) : G := it.provides.foldl (g1k it.name) (g.addNode it.name).1

theorem step1k_fst (name : Nat) : ∀ (ks : List Nat) (acc : G × Bool),
    (ks.foldl (step1k name) acc).1 = ks.foldl (g1k name) acc.1 := by
  intro ks
  induction ks with
  | nil => intro acc; rfl
  | cons k ks ih => intro acc; simp only [List.foldl_cons]; rw [ih]; rfl

theorem step1_fst : ∀ (its : List RItem) (acc : G × Bool), (its.foldl step1 acc).1 = its.foldl g1 acc.1 := by
  intro its
  induction its with
  | nil => intro acc; rfl
  | cons it its ih =>
    intro acc
    simp only [List.foldl_cons]
    rw [ih]
    congr 1
    exact step1k_fst it.name it.provides _

/-! ## facts about `addNode` / `addEdge` -/

theorem lookup_none_of_not_mem {β} (l : List (Nat × β)) (k : Nat) (h : k ∉ l.map (·.1)) : lookup l k = none := by
  cases hq : lookup l k with
  | none => rfl
  | some v => exact absurd (mem_keys_of_lookup _ _ _ hq) h

theorem addNode_new (g : G) (n : Nat) (hn : n ∉ g.nodes) :
    (g.addNode n).1.nodes = g.nodes ++ [n] ∧ (g.addNode n).1.edges = g.edges := by
  have hl : lookup g.outputs n = none := lookup_none_of_not_mem _ _ hn
  constructor
  · simp [G.addNode, hl, G.nodes]
  · simp [G.addNode, hl, G.edges, List.flatMap_append]

theorem addEdge_absent (g : G) (a b : Nat) (ha : a ∉ g.nodes) : g.addEdge a b = (g, 0) := by
  have hl : lookup g.outputs a = none := lookup_none_of_not_mem _ _ ha
  simp [G.addEdge, hl]

theorem setKey_keys {β} (l : List (Nat × β)) (k : Nat) (v : β) (h : k ∈ l.map (·.1)) :
    (setKey l k v).map (·.1) = l.map (·.1) := by
  have hany : l.any (·.1 = k) = true := by
    simp only [List.any_eq_true, decide_eq_true_eq]
    obtain ⟨p, hp, rfl⟩ := List.mem_map.1 h
    exact ⟨p, hp, rfl⟩
  unfold setKey
  rw [if_pos hany, List.map_map]
  apply List.map_congr_left
  intro p _
  simp only [Function.comp]
  split
  · rename_i hpk; exact hpk.symm
  · rfl

theorem addEdge_nodes (g : G) (a b : Nat) : (g.addEdge a b).1.nodes = g.nodes := by
  unfold G.addEdge
  cases hq : lookup g.outputs a with
  | none => rfl
  | some m =>
    simp only [G.nodes]
    exact setKey_keys _ _ _ (mem_keys_of_lookup _ _ _ hq)

/-! ## first loop -/

theorem loop1_inner (name : Nat) : ∀ (ks : List Nat) (g : G), Built g → name ∈ g.nodes → ks.Nodup → (∀ k ∈ ks, k ∉ g.nodes) →
    Built (ks.foldl (g1k name) g) ∧ (ks.foldl (g1k name) g).nodes = g.nodes ++ ks ∧
    (ks.foldl (g1k name) g).edges.Perm (ks.map (fun k => (name, k)) ++ g.edges) := by
  intro ks
  induction ks with
  | nil => intro g h _ _ _; exact ⟨h, by simp, by simp⟩
  | cons k ks ih =>
    intro g h hname hnd hfresh
    rw [List.nodup_cons] at hnd
    have hk : k ∉ g.nodes := hfresh k List.mem_cons_self
    obtain ⟨hn1, he1⟩ := addNode_new g k hk
    have hb1 := built_addNode g h k hk
    have hname1 : name ∈ (g.addNode k).1.nodes := by rw [hn1]; exact List.mem_append_left _ hname
    have hk1 : k ∈ (g.addNode k).1.nodes := by rw [hn1]; simp
    have hnew : (name, k) ∉ (g.addNode k).1.edges := by
      rw [he1]; intro hin; exact hk (h.wf.targets _ hin)
    obtain ⟨hb2, hn2, hp2⟩ := built_addEdge _ hb1 name k hname1 hk1 hnew
    have hnodes2 : (g1k name g k).nodes = g.nodes ++ [k] := by unfold g1k; rw [hn2, hn1]
    obtain ⟨b3, n3, p3⟩ := ih (g1k name g k) hb2 (by rw [hnodes2]; exact List.mem_append_left _ hname) hnd.2 (by
      intro x hx hxn
      rw [hnodes2] at hxn
      rcases List.mem_append.1 hxn with hxn | hxn
      · exact hfresh x (List.mem_cons_of_mem _ hx) hxn
      · simp only [List.mem_singleton] at hxn; subst hxn; exact hnd.1 hx)
    simp only [List.foldl_cons]
    refine ⟨b3, by rw [n3, hnodes2]; simp, ?_⟩
    refine p3.trans ?_
    have hp2' : (g1k name g k).edges.Perm ((name, k) :: g.edges) := by
      unfold g1k; rw [← he1]; exact hp2
    refine (List.Perm.append_left _ hp2').trans ?_
    simp only [List.map_cons, List.cons_append]
    exact List.perm_middle

def provEdges (items : List RItem) : List Edge := items.flatMap fun it => it.provides.map fun k => (it.name, k)
def reqEdges (items : List RItem) : List Edge := items.flatMap fun it => it.requires.map fun k => (k, it.name)
def nodesOf (items : List RItem) : List Nat := items.flatMap fun it => it.name :: it.provides

theorem loop1 : ∀ (its : List RItem) (g : G), Built g → (its.map (·.name)).Nodup → (its.flatMap (·.provides)).Nodup →
    (∀ it ∈ its, it.name ∉ g.nodes) → (∀ it ∈ its, ∀ k ∈ it.provides, k ∉ g.nodes) →
    (∀ it ∈ its, ∀ it' ∈ its, ∀ k ∈ it.provides, k ≠ it'.name) →
    Built (its.foldl g1 g) ∧ (its.foldl g1 g).nodes = g.nodes ++ nodesOf its ∧
    (its.foldl g1 g).edges.Perm (provEdges its ++ g.edges) := by
  intro its
  induction its with
  | nil => intro g h _ _ _ _ _; exact ⟨h, by simp [nodesOf], by simp [provEdges]⟩
  | cons it its ih =>
    intro g h hnames hkeys hnf hkf hapart
    simp only [List.map_cons, List.nodup_cons] at hnames
    simp only [List.flatMap_cons] at hkeys
    rw [List.nodup_append] at hkeys
    obtain ⟨hk1, hk2, hk3⟩ := hkeys
    have hn : it.name ∉ g.nodes := hnf it List.mem_cons_self
    obtain ⟨hn1, he1⟩ := addNode_new g it.name hn
    have hb1 := built_addNode g h it.name hn
    obtain ⟨b2, n2, p2⟩ := loop1_inner it.name it.provides (g.addNode it.name).1 hb1 (by rw [hn1]; simp) hk1 (by
      intro k hk hin
      rw [hn1] at hin
      rcases List.mem_append.1 hin with hin | hin
      · exact hkf it List.mem_cons_self k hk hin
      · simp only [List.mem_singleton] at hin
        exact hapart it List.mem_cons_self it List.mem_cons_self k hk hin)
    have hg1 : g1 g it = it.provides.foldl (g1k it.name) (g.addNode it.name).1 := rfl
    have hnodes2 : (g1 g it).nodes = g.nodes ++ (it.name :: it.provides) := by
      rw [hg1, n2, hn1]; simp
    obtain ⟨b3, n3, p3⟩ := ih (g1 g it) (hg1 ▸ b2) hnames.2 hk2
      (by
        intro it' hit' hin
        rw [hnodes2] at hin
        rcases List.mem_append.1 hin with hin | hin
        · exact hnf it' (List.mem_cons_of_mem _ hit') hin
        · rcases List.mem_cons.1 hin with hin | hin
          · exact hnames.1 (List.mem_map.2 ⟨it', hit', hin⟩)
          · exact hapart it List.mem_cons_self it' (List.mem_cons_of_mem _ hit') _ hin rfl)
      (by
        intro it' hit' k hk hin
        rw [hnodes2] at hin
        rcases List.mem_append.1 hin with hin | hin
        · exact hkf it' (List.mem_cons_of_mem _ hit') k hk hin
        · rcases List.mem_cons.1 hin with hin | hin
          · exact hapart it' (List.mem_cons_of_mem _ hit') it List.mem_cons_self k hk hin
          · exact hk3 k hin k (List.mem_flatMap.2 ⟨it', hit', hk⟩) rfl)
      (fun a ha b hb k hk => hapart a (List.mem_cons_of_mem _ ha) b (List.mem_cons_of_mem _ hb) k hk)
    simp only [List.foldl_cons]
    refine ⟨b3, ?_, ?_⟩
    · rw [n3, hnodes2]; simp [nodesOf]
    · refine p3.trans ?_
      have p2' : (g1 g it).edges.Perm (it.provides.map (fun k => (it.name, k)) ++ g.edges) := by
        rw [hg1]; refine p2.trans ?_; rw [he1]
      refine (List.Perm.append_left _ p2').trans ?_
      simp only [provEdges, List.flatMap_cons, List.append_assoc]
      exact List.perm_append_comm_assoc _ _ _

/-! ## second loop -/

theorem step2k_flag (name : Nat) (acc : G × Bool) (key : Nat) (h : (step2k name acc key).2 = false) :
    acc.2 = false ∧ key ∈ acc.1.nodes := by
  by_cases hk : key ∈ acc.1.nodes
  · refine ⟨?_, hk⟩
    unfold step2k at h
    simp only [Bool.or_eq_false_iff] at h
    exact h.1
  · exfalso
    unfold step2k at h
    rw [addEdge_absent _ _ _ hk] at h
    simp at h

theorem step2k_nodes (name : Nat) (acc : G × Bool) (key : Nat) : (step2k name acc key).1.nodes = acc.1.nodes := by
  show (acc.1.addEdge key name).1.nodes = _
  exact addEdge_nodes _ _ _

theorem loop2_inner_flag (name : Nat) : ∀ (ks : List Nat) (acc : G × Bool),
    (ks.foldl (step2k name) acc).1.nodes = acc.1.nodes ∧
    ((ks.foldl (step2k name) acc).2 = false → acc.2 = false ∧ ∀ k ∈ ks, k ∈ acc.1.nodes) := by
  intro ks
  induction ks with
  | nil => intro acc; exact ⟨rfl, fun h => ⟨h, by simp⟩⟩
  | cons k ks ih =>
    intro acc
    simp only [List.foldl_cons]
    obtain ⟨i1, i2⟩ := ih (step2k name acc k)
    refine ⟨by rw [i1, step2k_nodes], fun h => ?_⟩
    obtain ⟨f1, f2⟩ := i2 h
    obtain ⟨f3, f4⟩ := step2k_flag name acc k f1
    refine ⟨f3, ?_⟩
    intro x hx
    rcases List.mem_cons.1 hx with rfl | hx
    · exact f4
    · have := f2 x hx; rwa [step2k_nodes] at this

theorem loop2_flag : ∀ (its : List RItem) (acc : G × Bool),
    (its.foldl step2 acc).1.nodes = acc.1.nodes ∧
    ((its.foldl step2 acc).2 = false → acc.2 = false ∧ ∀ it ∈ its, ∀ k ∈ it.requires, k ∈ acc.1.nodes) := by
  intro its
  induction its with
  | nil => intro acc; exact ⟨rfl, fun h => ⟨h, by simp⟩⟩
  | cons it its ih =>
    intro acc
    simp only [List.foldl_cons]
    obtain ⟨i1, i2⟩ := ih (step2 acc it)
    obtain ⟨j1, j2⟩ := loop2_inner_flag it.name it.requires acc
    have hn : (step2 acc it).1.nodes = acc.1.nodes := j1
    refine ⟨by rw [i1, hn], fun h => ?_⟩
    obtain ⟨f1, f2⟩ := i2 h
    obtain ⟨f3, f4⟩ := j2 f1
    refine ⟨f3, ?_⟩
    intro x hx k hk
    rcases List.mem_cons.1 hx with rfl | hx
    · exact f4 k hk
    · have := f2 x hx k hk; rwa [hn] at this

theorem step2k_fst (name : Nat) : ∀ (ks : List Nat) (acc : G × Bool),
    (ks.foldl (step2k name) acc).1 = (ks.map fun k => (k, name)).foldl (fun g (e : Edge) => (g.addEdge e.1 e.2).1) acc.1 := by
  intro ks
  induction ks with
  | nil => intro acc; rfl
  | cons k ks ih => intro acc; simp only [List.foldl_cons, List.map_cons]; rw [ih]; rfl

theorem step2_fst : ∀ (its : List RItem) (acc : G × Bool),
    (its.foldl step2 acc).1 = (reqEdges its).foldl (fun g (e : Edge) => (g.addEdge e.1 e.2).1) acc.1 := by
  intro its
  induction its with
  | nil => intro acc; rfl
  | cons it its ih =>
    intro acc
    simp only [List.foldl_cons, reqEdges, List.flatMap_cons, List.foldl_append]
    rw [ih]
    congr 1
    exact step2k_fst it.name it.requires acc

theorem reqEdges_nodup : ∀ (its : List RItem), (its.map (·.name)).Nodup → (∀ it ∈ its, it.requires.Nodup) → (reqEdges its).Nodup := by
  intro its
  induction its with
  | nil => intro _ _; simp [reqEdges]
  | cons it its ih =>
    intro hn hr
    simp only [List.map_cons, List.nodup_cons] at hn
    simp only [reqEdges, List.flatMap_cons]
    rw [List.nodup_append]
    refine ⟨?_, ih hn.2 (fun x hx => hr x (List.mem_cons_of_mem _ hx)), ?_⟩
    · have hnd := hr it List.mem_cons_self
      unfold List.Nodup at hnd ⊢
      rw [List.pairwise_map]
      exact hnd.imp (fun hab h => hab (by simpa using h))
    · intro a ha b hb hab
      obtain ⟨k, _, rfl⟩ := List.mem_map.1 ha
      obtain ⟨it', hit', hb'⟩ := List.mem_flatMap.1 hb
      obtain ⟨k', _, rfl⟩ := List.mem_map.1 hb'
      simp only [Prod.mk.injEq] at hab
      exact hn.1 (List.mem_map.2 ⟨it', hit', hab.2.symm⟩)

/-! ## the theorem -/

/-- what `resolveU` is a model of: distinct item names, every entity provided at most once, no requirement listed twice,
entity nodes (`"[name]"`) never coincide with item nodes -/
structure WFItems (items : List RItem) : Prop where
  names : (items.map (·.name)).Nodup
  unique : (items.flatMap (·.provides)).Nodup
  reqNodup : ∀ it ∈ items, it.requires.Nodup
  apart : ∀ it ∈ items, ∀ it' ∈ items, ∀ k ∈ it.provides ++ it.requires, k ≠ it'.name

theorem wfItemsCheck_sound (items : List RItem) (h : wfItemsCheck items = true) : WFItems items := by
  unfold wfItemsCheck at h
  simp only [Bool.and_eq_true, decide_eq_true_eq, List.all_eq_true, bne_iff_ne, ne_eq] at h
  obtain ⟨⟨⟨h1, h2⟩, h3⟩, h4⟩ := h
  exact ⟨h1, h2, h3, fun it hit it' hit' k hk => h4 it hit it' hit' k hk⟩

theorem mem_nodesOf (items : List RItem) (x : Nat) :
    x ∈ nodesOf items ↔ (∃ it ∈ items, x = it.name) ∨ ∃ it ∈ items, x ∈ it.provides := by
  simp only [nodesOf, List.mem_flatMap, List.mem_cons]
  constructor
  · rintro ⟨it, hit, h | h⟩
    · exact Or.inl ⟨it, hit, h⟩
    · exact Or.inr ⟨it, hit, h⟩
  · rintro (⟨it, hit, h⟩ | ⟨it, hit, h⟩)
    · exact ⟨it, hit, Or.inl h⟩
    · exact ⟨it, hit, Or.inr h⟩

/-- **C10 for unambiguous item sets, no premise about the run left**: a successful `resolve` returns a duplicate-free
list of exactly the items; every requirement of every item has a provider among the items; every provider of a
requirement comes before the item that requires it -/
theorem resolveU_sound (items : List RItem) (hw : WFItems items) (order : List Nat) (h : resolveU items = .ok order) :
    order.Nodup ∧ (∀ x, x ∈ order ↔ ∃ it ∈ items, x = it.name) ∧
    (∀ q ∈ items, ∀ k ∈ q.requires, ∃ p ∈ items, k ∈ p.provides) ∧
    (∀ q ∈ items, ∀ k ∈ q.requires, ∀ p ∈ items, k ∈ p.provides → Before order p.name q.name) := by
  rw [resolveU_eq] at h
  simp only at h
  split at h
  · cases h
  rename_i hamb
  split at h
  · cases h
  rename_i hunsat
  simp only [Bool.not_eq_true] at hunsat
  -- first loop
  obtain ⟨b1, n1, p1⟩ := loop1 items G.empty built_empty hw.names hw.unique
    (by simp [G.nodes, G.empty]) (by simp [G.nodes, G.empty])
    (fun a ha b hb k hk => hw.apart a ha b hb k (List.mem_append_left _ hk))
  rw [← step1_fst items (G.empty, false)] at b1 n1 p1
  have hn0 : G.nodes G.empty = [] := by simp [G.nodes, G.empty]
  rw [hn0, List.nil_append] at n1
  have hE0 : G.edges G.empty = [] := by simp [G.edges, G.empty]
  rw [hE0, List.append_nil] at p1
  generalize hg1 : (items.foldl step1 (G.empty, false)).1 = gA at *
  -- second loop: flags
  obtain ⟨_, fl⟩ := loop2_flag items (gA, false)
  obtain ⟨_, hreq⟩ := fl hunsat
  simp only at hreq
  have hnodesA : ∀ x, x ∈ gA.nodes ↔ (∃ it ∈ items, x = it.name) ∨ ∃ it ∈ items, x ∈ it.provides := by
    intro x
    have : gA.nodes = nodesOf items := n1
    rw [this]; exact mem_nodesOf items x
  have hname_node : ∀ it ∈ items, it.name ∈ gA.nodes := fun it hit => (hnodesA _).2 (Or.inl ⟨it, hit, rfl⟩)
  -- second loop: graph
  have hfst := step2_fst items (gA, false)
  simp only at hfst
  obtain ⟨b2, n2, p2⟩ := build_edges (reqEdges items) gA b1 (reqEdges_nodup items hw.names hw.reqNodup) (by
    intro e he
    obtain ⟨it, hit, he'⟩ := List.mem_flatMap.1 he
    obtain ⟨k, hk, rfl⟩ := List.mem_map.1 he'
    refine ⟨hreq it hit k hk, hname_node it hit, ?_⟩
    intro hin
    have := p1.mem_iff.1 hin
    obtain ⟨it', hit', hin'⟩ := List.mem_flatMap.1 this
    obtain ⟨k', _, hkk⟩ := List.mem_map.1 hin'
    simp only [Prod.mk.injEq] at hkk
    exact hw.apart it hit it' hit' k (List.mem_append_right _ hk) hkk.1.symm)
  rw [← hfst] at b2 n2 p2
  generalize hg2 : (items.foldl step2 (gA, false)).1 = gB at *
  -- the sort
  obtain ⟨wf, wr⟩ := built_premises gB b2
  split at h
  · cases h
  · rename_i L hL
    simp only [RRes.ok.injEq] at h
    obtain ⟨lnd, lmem, lbef⟩ := G.toposort_sound gB wf wr L hL
    have hisname : ∀ it ∈ items, (items.any (·.name = it.name)) = true := by
      intro it hit
      simp only [List.any_eq_true, decide_eq_true_eq]
      exact ⟨it, hit, rfl⟩
    subst h
    refine ⟨lnd.filter _, ?_, ?_, ?_⟩
    · intro x
      simp only [List.mem_filter, List.any_eq_true, decide_eq_true_eq]
      constructor
      · rintro ⟨_, it, hit, rfl⟩; exact ⟨it, hit, rfl⟩
      · rintro ⟨it, hit, rfl⟩
        exact ⟨(lmem _).2 (by rw [n2]; exact hname_node it hit), it, hit, rfl⟩
    · intro q hq k hk
      rcases (hnodesA k).1 (hreq q hq k hk) with ⟨it, hit, hkn⟩ | hp
      · exact absurd hkn (hw.apart q hq it hit k (List.mem_append_right _ hk))
      · exact hp
    · intro q hq k hk p hp hkp
      have e1 : (p.name, k) ∈ gB.edges := by
        apply p2.mem_iff.2
        apply List.mem_append_right
        apply p1.mem_iff.2
        exact List.mem_flatMap.2 ⟨p, hp, List.mem_map.2 ⟨k, hkp, rfl⟩⟩
      have e2 : (k, q.name) ∈ gB.edges := by
        apply p2.mem_iff.2
        apply List.mem_append_left
        rw [List.mem_reverse]
        exact List.mem_flatMap.2 ⟨q, hq, List.mem_map.2 ⟨k, hk, rfl⟩⟩
      have := Before_trans L lnd _ _ _ (lbef _ e1) (lbef _ e2)
      exact Before_filter L _ _ _ this (hisname p hp) (hisname q hq)
  · cases h

/-- the theorem is not vacuous: a three-item chain with a diamond meets the premises and resolves (kernel evaluation) -/
example : wfItemsCheck [⟨0, [10, 11], []⟩, ⟨1, [12], [10]⟩, ⟨2, [], [11, 12]⟩] = true ∧
    resolveU [⟨0, [10, 11], []⟩, ⟨1, [12], [10]⟩, ⟨2, [], [11, 12]⟩] = .ok [0, 1, 2] := by decide +kernel

end Ts
