import Ts.Model
/-! Model of Pipeline.resolve (internal/core/pipeline.go) for item sets in which every entity has at most
    one provider (no ambiguity block).  Node numbers follow the string order of the node names. -/
namespace Ts

structure RItem where
  name : Nat
  provides : List Nat     -- node numbers of "[entity]"
  requires : List Nat
  deriving Repr

inductive RRes | ok (order : List Nat) | unsatisfied | ambiguous | cyclic | panic
  deriving Repr, DecidableEq

def resolveU (items : List RItem) : RRes :=
  -- first loop: nodes and provider edges
  let r1 := items.foldl (fun (acc : G × Bool) it =>
    let g := (acc.1.addNode it.name).1
    it.provides.foldl (fun (acc : G × Bool) key =>
      let g := (acc.1.addNode key).1
      let (g, n) := g.addEdge it.name key
      (g, acc.2 || decide (n > 1))) (g, acc.2)) (G.empty, false)
  if r1.2 then .ambiguous else
  -- second loop: requirement edges
  let r2 := items.foldl (fun (acc : G × Bool) it =>
    it.requires.foldl (fun (acc : G × Bool) key =>
      let (g, n) := acc.1.addEdge key it.name
      (g, acc.2 || decide (n = 0))) acc) (r1.1, false)
  if r2.2 then .unsatisfied else
  match r2.1.toposort with
  | none => .panic
  | some (order, true) => .ok (order.filter fun n => items.any (·.name = n))
  | some (_, false) => .cyclic

/-- the premises of `resolveU_sound` (Ts/ResolveSound.lean), evaluated by the driver on every compared case -/
def wfItemsCheck (items : List RItem) : Bool :=
  decide (items.map (·.name)).Nodup && decide (items.flatMap (·.provides)).Nodup &&
  items.all (fun it => decide it.requires.Nodup) &&
  items.all fun it => items.all fun it' => (it.provides ++ it.requires).all fun k => k != it'.name

end Ts
