/-! C10, deployment: model of `Pipeline.DeployItem` (internal/core/pipeline.go).  The registry is the list of item types
    in registration order (what `Registry.Summon(entity)` returns is the sub-list of the providers of the entity, in that
    order).  Items are identified by name. -/
namespace Dp

structure DItem where
  name : Nat
  provides : List Nat
  requires : List Nat
  features : List Nat
  deriving Repr, DecidableEq

def summon (reg : List DItem) (e : Nat) : List DItem := reg.filter fun it => it.provides.contains e

def enabled (feats : List Nat) (it : DItem) : Bool := it.features.all fun f => feats.contains f

/-- the inner two loops for one popped item: every not yet added, enabled provider of every requirement is added -/
def expandOne (reg : List DItem) (feats : List Nat) (h : DItem) (added : List Nat) : List DItem × List Nat :=
  (h.requires.flatMap (summon reg)).foldl (fun (acc : List DItem × List Nat) s =>
    if acc.2.contains s.name then acc
    else if enabled feats s then (acc.1 ++ [s], acc.2 ++ [s.name]) else acc) ([], added)

/-- the work-list loop; returns the items added, in order -/
def loop (reg : List DItem) (feats : List Nat) : Nat → List DItem → List Nat → List DItem → List DItem
  | 0, _, _, acc => acc
  | _ + 1, [], _, acc => acc
  | fuel + 1, h :: q, added, acc =>
    let r := expandOne reg feats h added
    loop reg feats fuel (q ++ r.1) r.2 (acc ++ r.1)

/-- `DeployItem(leaf)` on a pipeline that already holds the items named `present` and has the features `feats0` set:
the leaf's own features are switched on first; the leaf itself is always added -/
def deploy (reg : List DItem) (feats0 : List Nat) (present : List Nat) (leaf : DItem) : List DItem :=
  let feats := feats0 ++ leaf.features
  leaf :: loop reg feats (reg.length + 2) [leaf] (present ++ [leaf.name]) []

end Dp
