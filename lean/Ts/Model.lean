/-! Model of internal/toposort/toposort.go.  Nodes are naturals whose order is the order of the
    node names (the harness numbers the names in sorted order). -/
namespace Ts

structure G where
  outputs : List (Nat × List (Nat × Nat))   -- node ↦ [(child, rank)] in insertion order of the node
  inputs : List (Nat × Int)                 -- node ↦ in-degree counter (can drift below the truth, see RemoveEdge)
  deriving Repr

def G.empty : G := ⟨[], []⟩

def lookup {β} (l : List (Nat × β)) (k : Nat) : Option β := (l.find? (·.1 = k)).map (·.2)
def setKey {β} (l : List (Nat × β)) (k : Nat) (v : β) : List (Nat × β) :=
  if l.any (·.1 = k) then l.map (fun p => if p.1 = k then (k, v) else p) else l ++ [(k, v)]

def G.addNode (g : G) (n : Nat) : G × Bool :=
  if (lookup g.outputs n).isSome then (g, false)
  else (⟨g.outputs ++ [(n, [])], setKey g.inputs n 0⟩, true)

def G.addEdge (g : G) (a b : Nat) : G × Int :=
  match lookup g.outputs a with
  | none => (g, 0)
  | some m =>
    let m' := setKey m b (m.length + 1)
    let ni := (lookup g.inputs b).getD 0 + 1
    (⟨setKey g.outputs a m', setKey g.inputs b ni⟩, ni)

def G.unsafeRemoveEdge (g : G) (a b : Nat) : G :=
  let outs := match lookup g.outputs a with
    | some m => setKey g.outputs a (m.filter (·.1 ≠ b))
    | none => g.outputs
  ⟨outs, setKey g.inputs b ((lookup g.inputs b).getD 0 - 1)⟩

def G.removeEdge (g : G) (a b : Nat) : G × Bool :=
  if (lookup g.outputs a).isNone then (g, false) else (g.unsafeRemoveEdge a b, true)

def G.reindexNode (g : G) (n : Nat) : G :=
  match lookup g.outputs n with
  | none => g
  | some m =>
    let keys := (m.map (·.1)).mergeSort (· ≤ ·)
    let m' := m.map fun (c, _) => (c, (keys.findIdx (· = c)) + 1)
    ⟨setKey g.outputs n m', g.inputs⟩

/-- children of `n` ordered by rank; `none` if the ranks are not exactly 1..k (the Go code would panic
    or produce an empty name) -/
def childrenByRank (m : List (Nat × Nat)) : Option (List Nat) :=
  let k := m.length
  (List.range k).mapM fun i => (m.find? (·.2 = i + 1)).map (·.1)

/-- Kahn's algorithm as coded: sorted seed list, FIFO, children by rank -/
def G.toposort (g : G) : Option (List Nat × Bool) :=
  let s0 := ((g.outputs.map (·.1)).filter fun n => (lookup g.inputs n).getD 0 = 0).mergeSort (· ≤ ·)
  let rec go (fuel : Nat) (g : G) (S L : List Nat) : Option (G × List Nat) :=
    match fuel, S with
    | _, [] => some (g, L)
    | 0, _ => none
    | fuel + 1, n :: S =>
      match childrenByRank ((lookup g.outputs n).getD []) with
      | none => none
      | some ms =>
        let (g, S) := ms.foldl (fun (gs : G × List Nat) m =>
          let g := gs.1.unsafeRemoveEdge n m
          if (lookup g.inputs m).getD 0 = 0 then (g, gs.2 ++ [m]) else (g, gs.2)) (g, S)
        go fuel g S (L ++ [n])
  match go (g.outputs.length + (g.outputs.foldl (fun a p => a + p.2.length) 0) + 1) g s0 [] with
  | none => none
  | some (g', L) =>
    let total := g'.inputs.foldl (fun a p => a + p.2) (0 : Int)
    some (L, !(total > 0))

end Ts
