import Drv.FuDrv
import Drv.RbDrv
import Drv.PlDrv
import Drv.TsDrv
import Drv.MgDrv
import Drv.TkDrv
import Drv.LnDrv
import Drv.CdDrv
import Drv.IdnDrv
import Drv.GsDrv
import Drv.TdDrv
import Drv.HbDrv
import Drv.BcDrv
import Drv.BdDrv
import Drv.DagDrv
import Drv.RnDrv
import Drv.RbwDrv
import Drv.HbfDrv

/-- `hvdriver <domain>`: runs the line-protocol loop of one model family on stdin -/
def main (args : List String) : IO UInt32 := do
  match args with
  | "fu" :: rest => FuDrv.main rest; return 0
  | ["rb"] => RbDrv.main; return 0
  | ["pl"] => PlDrv.main; return 0
  | ["ts"] => TsDrv.main; return 0
  | ["mg"] => MgDrv.main; return 0
  | ["tk"] => TkDrv.main; return 0
  | ["ln"] => LnDrv.main; return 0
  | ["cd"] => CdDrv.main; return 0
  | ["idn"] => IdnDrv.main; return 0
  | ["gs"] => GsDrv.main; return 0
  | ["td"] => TdDrv.main; return 0
  | ["hb"] => HbDrv.main; return 0
  | ["bc"] => BcDrv.main; return 0
  | "bd" :: rest => BdDrv.main rest; return 0
  | "dag" :: rest => DagDrv.main rest; return 0
  | ["rn"] => RnDrv.main; return 0
  | ["rbw"] => RbwDrv.main; return 0
  | ["hbf"] => HbfDrv.main; return 0
  | _ => IO.eprintln "usage: hvdriver fu [fixed]|rb|pl|ts|mg|tk|ln|cd|idn|gs|td|hb"; return 2
