import Bd.Dag
import Drv.BdDrv
namespace DagDrv
open Bd

structure Cur where
  author : Nat
  eff : Nat
  merge : Bool
  err : Option String := none

def obsW (w : W) : String :=
  let bs := w.brs.mergeSort (fun a b => a.1 ≤ b.1)
  let brs := " ".intercalate (bs.map fun (b, x) =>
    let fs := x.files.mergeSort (fun a b => a.1 ≤ b.1)
    s!"B{b}[" ++ " ; ".intercalate (fs.map fun (n, f) => s!"f{n}= {BdDrv.fmtNodes f}") ++ "]")
  let tail := BdDrv.obs ⟨w.pn, 0, [], w.evs⟩
  brs ++ tail

def nats (s : String) : List Nat := (s.splitOn ",").filterMap (·.toNat?)

partial def loop (h : IO.FS.Stream) (fixed : Bool) (w : W) (c : Cur) : IO Unit := do
  let line ← h.getLine
  if line.isEmpty then return ()
  let fin := fun (r : Except String W) => match r with
    | .ok w' => do IO.println "ok"; loop h fixed w' c
    | .error e => do IO.println s!"err {e}"; loop h fixed w c
  -- the changes of one Consume call: nothing is printed until `end`; after the first error the rest is skipped
  let chg := fun (op : Op) (b : Nat) => match c.err with
    | some _ => loop h fixed w c
    | none => match doOp fixed c.merge w b c.author c.eff op with
      | .ok w' => loop h fixed w' c
      | .error e => loop h fixed w { c with err := some e }
  match (line.trim.splitOn " ").filter (· ≠ "") with
  | ["init", pn] =>
    IO.println "ok"
    loop h fixed ⟨pn.toNat!, [(1, ⟨[], 0, Route.authorMissing, 0⟩)], [(0, [])], 1, [], []⟩ c
  | ["begin", b, tick, author, m] =>
    let merge := m = "1"
    loop h fixed (beginCommit w b.toNat! tick.toNat! author.toNat! merge)
      ⟨author.toNat!, if merge then MARK else tick.toNat!, merge, none⟩
  | ["end", b, tick] =>
    (match c.err with
      | none => do IO.println "ok"; loop h fixed (endCommit w b.toNat! tick.toNat!) { c with err := none }
      | some e => do IO.println s!"err {e}"; loop h fixed w { c with err := none })
  | ["add", b, n, l] => chg (.add n.toNat! l.toNat!) b.toNat!
  | ["rm", b, n, l] => chg (.rm n.toNat! l.toNat!) b.toNat!
  | ["mod", b, n, o, nw, sc] => chg (.mod n.toNat! o.toNat! nw.toNat! (BdDrv.parseScript sc)) b.toNat!
  | ["ren", b, src, n, o, nw, sc] => chg (.ren src.toNat! n.toNat! o.toNat! nw.toNat! (BdDrv.parseScript sc)) b.toNat!
  | ["fork", b, ts] => IO.println "ok"; loop h fixed (fork w b.toNat! (nats ts)) c
  | ["merge", bs] => fin (mergeBranches w (nats bs))
  | ["drop", b] => IO.println "ok"; loop h fixed { w with brs := w.brs.filter (·.1 ≠ b.toNat!) } c
  | ["obs"] => IO.println (obsW w); loop h fixed w c
  | _ => IO.println "bad-op"; loop h fixed w c

def main (args : List String) : IO Unit := do
  loop (← IO.getStdin) (args.contains "fixed") ⟨0, [], [], 0, [], []⟩ ⟨0, 0, false, none⟩
end DagDrv
