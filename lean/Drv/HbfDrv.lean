import Hb.File
namespace HbfDrv
open HbF

def hexVal (c : Char) : Nat :=
  if c.isDigit then c.toNat - '0'.toNat else if 'a' ≤ c ∧ c ≤ 'f' then c.toNat - 'a'.toNat + 10 else 0

def unhex (s : String) : List Nat :=
  if s = "-" then [] else
  let rec go : List Char → List Nat
    | a :: b :: rest => (hexVal a * 16 + hexVal b) :: go rest
    | _ => []
  go s.toList

def hexDigit (n : Nat) : Char := if n < 10 then Char.ofNat (48 + n) else Char.ofNat (87 + n)
def tohex (l : List Nat) : String :=
  if l.isEmpty then "-" else String.ofList (l.flatMap fun b => [hexDigit (b / 16), hexDigit (b % 16)])

partial def loop (h : IO.FS.Stream) (file : List Nat) : IO Unit := do
  let line ← h.getLine
  if line.isEmpty then return ()
  match (line.trim.splitOn " ").filter (· ≠ "") with
  | "file" :: a :: b :: bufs =>
    let f := serialize a.toNat! b.toNat! (bufs.map unhex)
    IO.println (tohex f)
    loop h f
  | ["trunc", n] =>
    match deserialize 7 (file.take n.toNat!) with
    | none => IO.println "err"
    | some _ => IO.println "ok"
    loop h file
  | _ => IO.println "bad-op"; loop h file

def main : IO Unit := do loop (← IO.getStdin) []
end HbfDrv
