import Pl.OneShot
import Pl.Check
import Pl.Run
import Pl.Run2
import Pl.Hib2
import Pl.Adjacent
namespace PlDrv

/-- the shared `merges` set of the one-shot merge processor (reset by `new`) -/
initialize oneShotSeen : IO.Ref (List Nat) ← IO.mkRef []

open Pl

def parseKind : String → Option Kind
  | "C" => some .commit | "F" => some .fork | "M" => some .merge | "E" => some .emerge
  | "D" => some .delete | "H" => some .hibernate | "B" => some .boot | _ => none

/-- action syntax: K:commit:item,item,… -/
def parseAction (s : String) : Option Action := do
  match s.splitOn ":" with
  | [k, c, its] =>
    let kind ← parseKind k
    let items := (its.splitOn ",").filterMap (·.toNat?)
    some ⟨kind, c.toNat!, items⟩
  | _ => none

def parseList (s : String) : List Nat := if s = "-" then [] else (s.splitOn ",").filterMap (·.toNat?)
def parseOpt (s : String) : Option Nat := s.toNat?
def parseItem (s : String) : Option Item :=
  match s.splitOn "/" with
  | [p, r, f, a, b, c, d] => some ⟨parseList p, parseList r, f.contains 'f', f.contains 's', parseOpt a, parseOpt b, parseOpt c, parseOpt d⟩
  | _ => none

partial def loop (h : IO.FS.Stream) : IO Unit := do
  let line ← h.getLine
  if line.isEmpty then return ()
  let ws := (line.trim.splitOn " ").filter (· ≠ "")
  match ws with
  | ["new"] => oneShotSeen.set []; IO.println "ok"
  | ["call", c, np] =>
    let (r, seen') := OneShot.should (← oneShotSeen.get) c.toNat! np.toNat!
    oneShotSeen.set seen'
    IO.println s!"{r}"
  | "gc" :: acts =>
    let plan := acts.filterMap parseAction
    IO.println (fmt (collectGarbage plan))
  | "hb" :: d :: acts =>
    let plan := acts.filterMap parseAction
    IO.println (fmt (insertHibernateBoot plan d.toNat!))
  | "hb2" :: d :: acts =>
    let plan := acts.filterMap parseAction
    IO.println (fmt (insertHB2 plan d.toNat!))
  | "chk" :: ps :: rs :: acts =>
    -- ps = p,p;p;;…  (parents of commit i, ';'-separated, '-' for none); rs = retained commits or '*'
    let parents := (ps.splitOn ";").map fun s => if s = "-" then [] else (s.splitOn ",").filterMap (·.toNat?)
    let plan := acts.filterMap parseAction
    let retained := if rs = "*" then List.range parents.length else (rs.splitOn ",").filterMap (·.toNat?)
    if !retainedOK parents retained then IO.println "bad incomplete" else
    match checkPlan true parents retained plan with
    | .ok _ => IO.println "ok"
    | .error _ =>
      match checkPlan false parents retained plan with
      | .ok _ => IO.println "bad extra-replay-only"
      | .error _ => IO.println "bad incomplete"
  | "run2" :: its :: ts :: n :: acts =>
    let items := (its.splitOn ";").filterMap parseItem
    let times := (ts.splitOn ",").filterMap (·.toInt?)
    let plan := acts.filterMap parseAction
    IO.println (run2 items times n.toNat! plan).fmt
  | "adj" :: acts =>
    -- the adjacency premise of `isMerge_of_adjOK`, evaluated on a plan of the real planner
    IO.println s!"{adjOK (acts.filterMap parseAction)}"
  | "run" :: its :: ts :: n :: acts =>
    let items := (its.splitOn ";").filterMap parseItem
    let times := (ts.splitOn ",").filterMap (·.toInt?)
    let plan := acts.filterMap parseAction
    IO.println (run items times n.toNat! plan).fmt
  | _ => IO.println "bad-op"
  loop h

def main : IO Unit := do loop (← IO.getStdin)

end PlDrv
