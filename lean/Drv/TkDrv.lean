import Tk.Basic
namespace TkDrv
open Tk
partial def loop (h : IO.FS.Stream) : IO Unit := do
  let line ← h.getLine
  if line.isEmpty then return ()
  let ws := (line.trim.splitOn " ").filter (· ≠ "")
  match ws with
  | ["floor", t, d] => IO.println s!"{floorTime t.toInt! d.toInt!}"
  | ["tick", t0, t, d, prev] => IO.println s!"{tickOf t0.toInt! t.toInt! d.toInt! prev.toInt!}"
  | _ => IO.println "bad-op"
  loop h
def main : IO Unit := do loop (← IO.getStdin)

end TkDrv
