import Tk.Basic
import Tk.Registry
namespace TkDrv
open Tk
/-- state of one TicksSinceStart item with its branch copies: tick size (ns), shared tick0 and registry, previous tick
    per branch -/
structure TS where
  d : Int
  tick0 : Int
  reg : Reg
  prev : List (Nat × Int)
  deriving Inhabited

def fmtReg (r : Reg) : String :=
  let ticks := (r.map (·.1)).eraseDups.mergeSort (· ≤ ·)
  " ".intercalate (ticks.map fun t => s!"{t}:[{",".intercalate ((regGet r t).map toString)}]")

initialize tsRef : IO.Ref TS ← IO.mkRef ⟨1, 0, [], []⟩

partial def loop (h : IO.FS.Stream) : IO Unit := do
  let line ← h.getLine
  if line.isEmpty then return ()
  let ws := (line.trim.splitOn " ").filter (· ≠ "")
  match ws with
  | ["floor", t, d] => IO.println s!"{floorTime t.toInt! d.toInt!}"
  | ["tick", t0, t, d, prev] => IO.println s!"{tickOf t0.toInt! t.toInt! d.toInt! prev.toInt!}"
  | ["tnew", hours] => tsRef.set ⟨hours.toInt! * 3600000000000, 0, [], [(0, 0)]⟩; IO.println "ok"
  | ["tfork", src, dst] =>
    let st ← tsRef.get
    let p := ((st.prev.find? (·.1 = src.toNat!)).map (·.2)).getD 0
    tsRef.set { st with prev := (dst.toNat!, p) :: st.prev.filter (·.1 ≠ dst.toNat!) }
    IO.println "ok"
  | "tmerge" :: _ => IO.println "ok"      -- TicksSinceStart embeds core.NoopMerger: merging branches changes no tick state
  | ["tcons", b, c, np, t, idx] =>
    let st ← tsRef.get
    let t := t.toInt!
    let tick0 := if idx.toNat! = 0 then floorTime t st.d else st.tick0
    let p := ((st.prev.find? (·.1 = b.toNat!)).map (·.2)).getD 0
    let tick := tickOf tick0 t st.d p
    let reg := record st.reg tick c.toNat! np.toNat!
    tsRef.set ⟨st.d, tick0, reg, (b.toNat!, tick) :: st.prev.filter (·.1 ≠ b.toNat!)⟩
    IO.println s!"{tick} | {fmtReg reg}"
  | _ => IO.println "bad-op"
  loop h
def main : IO Unit := do loop (← IO.getStdin)

end TkDrv
