import Hb.Basic
namespace HbDrv
open Hb

def fmtL (l : List Nat) : String := ",".intercalate (l.map toString)
def fmtState (a : Alloc) : String :=
  let st := match a.storage with
    | none => "nil"
    | some l => "[" ++ ";".intercalate (l.map fun (n : Node) => s!"{n.key},{n.val},{n.left},{n.parent},{n.right},{if n.black then 1 else 0}") ++ "]"
  let gp := match a.gaps with | none => "nil" | some g => "[" ++ fmtL g ++ "]"
  let dt := " ".intercalate (a.data.map fun d => match d with | none => "nil" | some l => "[" ++ fmtL l ++ "]")
  s!"st={st} gaps={gp} hl={a.hibLen} hg={a.hibGapsLen} data={dt}"

def parseNodes (s : String) : List Node :=
  if s = "-" then [] else (s.splitOn ";").filterMap fun e =>
    match (e.splitOn ",").map (·.toNat!) with
    | [k, v, l, p, r, b] => some ⟨k, v, l, p, r, b = 1⟩
    | _ => none

partial def loop (h : IO.FS.Stream) (a : Alloc) (file : Option File) : IO Unit := do
  let line ← h.getLine
  if line.isEmpty then return ()
  let step := fun (r : R Alloc) (file : Option File) => match r with
    | .ok a' => do IO.println (fmtState a'); loop h a' file
    | .panic m => do IO.println s!"panic {m}"; loop h a file
    | .err m => do IO.println s!"err {m}"; loop h a file
  match (line.trim.splitOn " ").filter (· ≠ "") with
  | ["load", thr, st, gaps] =>
    let g := if gaps = "-" then [] else (gaps.splitOn ",").map (·.toNat!)
    let a' : Alloc := { a with threshold := thr.toNat!, storage := some (parseNodes st), gaps := some g }
    IO.println (fmtState a'); loop h a' file
  | ["new"] => IO.println "ok"; loop h ⟨0, some [], some [], 0, 0, List.replicate 7 none⟩ none
  | ["hib"] => step (hibernate a) file
  | ["boot"] => step (boot a) file
  | ["ser"] =>
    match serialize a with
    | .ok (a', f) => IO.println (fmtState a'); loop h a' (some f)
    | .panic m => IO.println s!"panic {m}"; loop h a file
    | .err m => IO.println s!"err {m}"; loop h a file
  | ["deser"] =>
    match file with
    | some f => step (deserialize a f) file
    | none => IO.println "err no-file"; loop h a file
  | _ => IO.println "bad-op"; loop h a file

def main : IO Unit := do loop (← IO.getStdin) ⟨0, some [], some [], 0, 0, List.replicate 7 none⟩ none

end HbDrv
