import Idn.Descr
import Idn.Basic
import Idn.Merge
import Idn.MergeIndex
import Idn.CouplesMerge
import Idn.DevsConsume
import Idn.Devs
namespace IdnDrv
open Idn
partial def loop (h : IO.FS.Stream) : IO Unit := do
  let line ← h.getLine
  if line.isEmpty then return ()
  let ws := (line.trim.splitOn " ").filter (· ≠ "")
  match ws with
  | "gen" :: cs =>
    let commits := cs.filterMap fun c => match c.splitOn ":" with
      | [n, e] => some (n.toNat!, e.toNat!)
      | _ => none
    let st := generate commits
    let ids := commits.map fun c => (consume st.dict c).getD 999999
    let sd := generateD commits
    let ds := (List.range st.size).map fun i => ",".intercalate (((descr sd i).mergeSort (· ≤ ·)).map toString)
    IO.println s!"{st.size} {ids} {";".intercalate ds}"
  | ["mrg", a, b] =>
    -- lists: entries separated by ';', tokens by '|'; "-" = empty list; "_" = empty token
    let parse := fun (s : String) => if s = "-" then [] else
      (s.splitOn ";").map fun e => (e.splitOn "|").map fun t => if t = "_" then "" else t
    let (idx, strs) := IdnM.mergeDicts (parse a) (parse b)
    let idx := idx.mergeSort (fun x y => x.1 ≤ y.1)
    let shw := fun (s : String) => if s = "" then "_" else s
    IO.println (";".intercalate (strs.map shw) ++ " # " ++
      " ".intercalate (idx.map fun (k, v) => s!"{shw k}={v.final},{v.first},{v.second}"))
  | ["cm", f1, l1, fm1, pm1, pf1, p1, f2, l2, fm2, pm2, pf2, p2] =>
    let strs := fun (s : String) => if s = "-" then [] else s.splitOn ","
    let ints := fun (s : String) => if s = "-" then [] else (s.splitOn ",").map (·.toInt!)
    let cells := fun (s : String) => if s = "-" then ([] : CmM.Cells) else (s.splitOn ",").filterMap fun c =>
      match c.splitOn "=" with
      | [k, v] => (match k.splitOn ":" with | [i, j] => some ((i.toNat!, j.toNat!), v.toInt!) | _ => none)
      | _ => none
    let rows := fun (s : String) => if s = "-" then ([] : List (List Nat)) else (s.splitOn ";").map fun r =>
      if r = "_" then [] else (r.splitOn ".").map (·.toNat!)
    let ppl := fun (s : String) => if s = "-" then [] else (s.splitOn ";").map fun e => e.splitOn "|"
    let r1 : CmM.Res := ⟨strs f1, ints l1, cells fm1, cells pm1, rows pf1, ppl p1⟩
    let r2 : CmM.Res := ⟨strs f2, ints l2, cells fm2, cells pm2, rows pf2, ppl p2⟩
    let o := CmM.merge r1 r2
    let shc := fun (m : CmM.Cells) =>
      ",".intercalate ((m.mergeSort (fun x y => x.1.1 < y.1.1 || (x.1.1 == y.1.1 && x.1.2 ≤ y.1.2))).map
        fun ((i, j), v) => s!"{i}:{j}={v}")
    let shr := fun (l : List (List Nat)) => ";".intercalate (l.map fun r => ".".intercalate (r.map toString))
    IO.println (",".intercalate o.files ++ " # " ++ ",".intercalate (o.lines.map toString) ++ " # " ++ shc o.fm ++ " # " ++
      shc o.pm ++ " # " ++ shr o.pf ++ " # " ++ ";".intercalate o.people)
  | "dc" :: ce :: reps =>
    let pls := fun (s : String) => match (s.splitOn "/").map (·.toInt!) with
      | [x, y, z] => (⟨x, y, z⟩ : DevsM.LS) | _ => ⟨0, 0, 0⟩
    let cs := reps.filterMap fun r => match r.splitOn ":" with
      | [h, np, au, tk, nch, mf, st] =>
        let stats := if st = "" then [] else (st.splitOn "|").filterMap fun kv => match kv.splitOn "=" with
          | [k, v] => some ((if k = "_" then "" else k), pls v) | _ => none
        some (⟨h.toNat!, np.toNat!, au.toNat!, tk.toNat!, nch.toNat!, mf = "1", stats⟩ : DevsC.Cin)
      | _ => none
    let m := (DevsC.run (ce = "1") cs).ticks
    let m := m.mergeSort (fun x y => x.1.1 < y.1.1 || (x.1.1 == y.1.1 && x.1.2 ≤ y.1.2))
    let fls := fun (l : DevsM.LS) => s!"{l.added}/{l.removed}/{l.changed}"
    IO.println (" ".intercalate (m.map fun ((tk, dv), s) =>
      let lg := (s.langs.mergeSort (fun x y => x.1 ≤ y.1)).map fun (k, v) => (if k = "" then "_" else k) ++ "=" ++ fls v
      s!"{tk}:{dv}:{s.commits}:{fls s.ls}:" ++ ",".intercalate lg))
  | ["car", b1, e1, c1, b2, e2, c2] =>
    (match CmM.Car.merge ⟨b1.toInt!, e1.toInt!, c1.toInt!⟩ ⟨b2.toInt!, e2.toInt!, c2.toInt!⟩ with
    | some c => IO.println s!"{c.begin} {c.finish} {c.commits}"
    | none => IO.println "panic")
  | ["mrgwf", a, b] =>
    let parse := fun (s : String) => if s = "-" then [] else
      (s.splitOn ";").map fun e => (e.splitOn "|").map fun t => if t = "_" then "" else t
    IO.println s!"{IdnM.premisesCheck (parse a) (parse b)}"
  | ["dev", a, b, b1, b2, ts, t1, t2] =>
    let parse := fun (s : String) => if s = "-" then [] else
      (s.splitOn ";").map fun e => (e.splitOn "|").map fun t => if t = "_" then "" else t
    let pls := fun (s : String) => match (s.splitOn "/").map (·.toInt!) with
      | [x, y, z] => (⟨x, y, z⟩ : DevsM.LS) | _ => ⟨0, 0, 0⟩
    let pt := fun (s : String) => if s = "-" then ([] : DevsM.Ticks) else
      (s.splitOn ";").filterMap fun e => match e.splitOn ":" with
        | [tk, dv, c, ls, lg] =>
          let langs := if lg = "" then [] else (lg.splitOn ",").filterMap fun kv => match kv.splitOn "=" with
            | [k, v] => some (k, pls v) | _ => none
          some ((tk.toNat!, dv.toNat!), (⟨c.toInt!, pls ls, langs⟩ : DevsM.DT))
        | _ => none
    let (m, strs) := DevsM.mergeDevs (parse a) (parse b) b1.toNat! b2.toNat! ts.toNat! (pt t1) (pt t2)
    let m := m.mergeSort (fun x y => x.1.1 < y.1.1 || (x.1.1 == y.1.1 && x.1.2 ≤ y.1.2))
    let fls := fun (l : DevsM.LS) => s!"{l.added}/{l.removed}/{l.changed}"
    let shw := fun (s : String) => if s = "" then "_" else s
    IO.println (";".intercalate (strs.map shw) ++ " # " ++ " ".intercalate (m.map fun ((tk, dv), s) =>
      let lg := (s.langs.mergeSort (fun x y => x.1 ≤ y.1)).map fun (k, v) => s!"{k}={fls v}"
      s!"{tk}:{dv}:{s.commits}:{fls s.ls}:" ++ ",".intercalate lg))
  | _ => IO.println "bad-op"
  loop h
def main : IO Unit := do loop (← IO.getStdin)

end IdnDrv
