import Idn.Descr
import Idn.Basic
import Idn.Merge
import Idn.MergeIndex
import Idn.Devs
namespace IdnDrv
open Idn
partial def loop (h : IO.FS.Stream) : IO Unit := do
  let line ← h.getLine
  if line.isEmpty then return ()
  let ws := (line.trim.splitOn " ").filter (· ≠ "")
  match ws with
  | "gen" :: cs =>
    let commits := cs.filterMap fun c => match c.splitOn ":" with
      | [n, e] => some (n.toNat!, e.toNat!)
      | _ => none
    let st := generate commits
    let ids := commits.map fun c => (consume st.dict c).getD 999999
    let sd := generateD commits
    let ds := (List.range st.size).map fun i => ",".intercalate (((descr sd i).mergeSort (· ≤ ·)).map toString)
    IO.println s!"{st.size} {ids} {";".intercalate ds}"
  | ["mrg", a, b] =>
    -- lists: entries separated by ';', tokens by '|'; "-" = empty list; "_" = empty token
    let parse := fun (s : String) => if s = "-" then [] else
      (s.splitOn ";").map fun e => (e.splitOn "|").map fun t => if t = "_" then "" else t
    let (idx, strs) := IdnM.mergeDicts (parse a) (parse b)
    let idx := idx.mergeSort (fun x y => x.1 ≤ y.1)
    let shw := fun (s : String) => if s = "" then "_" else s
    IO.println (";".intercalate (strs.map shw) ++ " # " ++
      " ".intercalate (idx.map fun (k, v) => s!"{shw k}={v.final},{v.first},{v.second}"))
  | ["mrgwf", a, b] =>
    let parse := fun (s : String) => if s = "-" then [] else
      (s.splitOn ";").map fun e => (e.splitOn "|").map fun t => if t = "_" then "" else t
    IO.println s!"{IdnM.premisesCheck (parse a) (parse b)}"
  | ["dev", a, b, b1, b2, ts, t1, t2] =>
    let parse := fun (s : String) => if s = "-" then [] else
      (s.splitOn ";").map fun e => (e.splitOn "|").map fun t => if t = "_" then "" else t
    let pls := fun (s : String) => match (s.splitOn "/").map (·.toInt!) with
      | [x, y, z] => (⟨x, y, z⟩ : DevsM.LS) | _ => ⟨0, 0, 0⟩
    let pt := fun (s : String) => if s = "-" then ([] : DevsM.Ticks) else
      (s.splitOn ";").filterMap fun e => match e.splitOn ":" with
        | [tk, dv, c, ls, lg] =>
          let langs := if lg = "" then [] else (lg.splitOn ",").filterMap fun kv => match kv.splitOn "=" with
            | [k, v] => some (k, pls v) | _ => none
          some ((tk.toNat!, dv.toNat!), (⟨c.toInt!, pls ls, langs⟩ : DevsM.DT))
        | _ => none
    let (m, strs) := DevsM.mergeDevs (parse a) (parse b) b1.toNat! b2.toNat! ts.toNat! (pt t1) (pt t2)
    let m := m.mergeSort (fun x y => x.1.1 < y.1.1 || (x.1.1 == y.1.1 && x.1.2 ≤ y.1.2))
    let fls := fun (l : DevsM.LS) => s!"{l.added}/{l.removed}/{l.changed}"
    let shw := fun (s : String) => if s = "" then "_" else s
    IO.println (";".intercalate (strs.map shw) ++ " # " ++ " ".intercalate (m.map fun ((tk, dv), s) =>
      let lg := (s.langs.mergeSort (fun x y => x.1 ≤ y.1)).map fun (k, v) => s!"{k}={fls v}"
      s!"{tk}:{dv}:{s.commits}:{fls s.ls}:" ++ ",".intercalate lg))
  | _ => IO.println "bad-op"
  loop h
def main : IO Unit := do loop (← IO.getStdin)

end IdnDrv
