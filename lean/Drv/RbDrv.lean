import Rb.Model
import Rb.Lookup
import Rb.Clone
namespace RbDrv
open RbM

partial def loop (h : IO.FS.Stream) (t : Tree) : IO Unit := do
  let line ← h.getLine
  if line.isEmpty then return ()
  let ws := line.trim.splitOn " "
  match ws with
  | ["new"] => IO.println "ok"; loop h Tree.nil
  | ["ins", k, v, id] =>
    let (t', ok) := insert t id.toNat! k.toNat! v.toNat!
    IO.println s!"{ok} {t'.dumpP 0} min={t'.minId} max={t'.maxId} n={t'.size}"
    loop h t'
  | ["del", k] =>
    let (t', fr) := delete t k.toNat!
    IO.println s!"{fr.isSome} {t'.dumpP 0} min={t'.minId} max={t'.maxId} n={t'.size}"
    loop h t'
  | ["deep", ids] =>
    -- ids = the indices the target allocator handed out, in in-order
    let l := if ids = "-" then [] else (ids.splitOn ",").filterMap (·.toNat?)
    let t' := cloneDeep t l
    IO.println s!"{t'.dumpP 0} min={t'.minId} max={t'.maxId} n={t'.size}"
    loop h t
  | ["q", k] =>
    let k := k.toNat!
    let sh := fun (o : Option (Nat × Nat × Nat)) => match o with | some (i, key, v) => s!"{i}/{key}/{v}" | none => "-"
    let g := match get t k with | some v => s!"{v}" | none => "-"
    IO.println s!"ge={sh (findGE t k)} le={sh (findLE t k)} get={g} next={sh (next t k)} prev={sh (prev t k)}"
    loop h t
  | _ => IO.println "bad-op"; loop h t

def main : IO Unit := do loop (← IO.getStdin) Tree.nil

end RbDrv
