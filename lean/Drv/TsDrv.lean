import Ts.Model
import Ts.Resolve
import Ts.Cycle
import Ts.Order
import Ts.Refine
import Ts.CycleSound
import Ts.Deploy
namespace TsDrv
open Ts

partial def loop (h : IO.FS.Stream) (g : G) : IO Unit := do
  let line ← h.getLine
  if line.isEmpty then return ()
  let ws := (line.trim.splitOn " ").filter (· ≠ "")
  match ws with
  | ["new"] => IO.println "ok"; loop h G.empty
  | ["node", n] => let (g', b) := g.addNode n.toNat!; IO.println s!"{b}"; loop h g'
  | ["edge", a, b] => let (g', r) := g.addEdge a.toNat! b.toNat!; IO.println s!"{r}"; loop h g'
  | ["rm", a, b] => let (g', r) := g.removeEdge a.toNat! b.toNat!; IO.println s!"{r}"; loop h g'
  | ["reindex", n] => IO.println "ok"; loop h (g.reindexNode n.toNat!)
  | ["sort"] =>
    match g.toposort with
    | some (L, ok) => IO.println s!"{ok} {L}"
    | none => IO.println "panic"
    loop h g     -- the harness sorts a copy
  | ["wf"] =>
    -- the premises of `Ts.G.toposort_sound/complete/cyclic`, evaluated on a build the probe declares well formed
    IO.println s!"{wfCheck g && closedCheck g}"; loop h g
  | ["cycle", seed, ans] =>
    -- ans: the list FindCycle returned (observed choice), validated against the specification
    let l := if ans = "-" then [] else (ans.splitOn ",").filterMap (·.toNat?)
    IO.println (if g.cycleAnswerOK seed.toNat! l then "ok" else "bad")
    loop h g
  | ["ord", its, ord] =>
    -- its: `p,p:r,r;…` (entity numbers; empty lists as `-`), ord: resolved positions
    let pl := fun (s : String) => if s = "-" || s = "" then [] else (s.splitOn ",").filterMap (·.toNat?)
    let items := (its.splitOn ";").filterMap fun s => match s.splitOn ":" with
      | [p, r] => some (⟨pl p, pl r⟩ : Ord.Item)
      | _ => none
    IO.println (if Ord.orderValid items (pl ord) then "ok" else "bad")
    loop h g
  | ["dep", reg, fs, present, leaf] =>
    let pl := fun (s : String) => if s = "-" then [] else (s.splitOn "+").filterMap (·.toNat?)
    let item := fun (s : String) => match s.splitOn ":" with
      | [n, p, r, f] => some (⟨n.toNat!, pl p, pl r, pl f⟩ : Dp.DItem)
      | _ => none
    let registry := (reg.splitOn ";").filterMap item
    (match item leaf with
    | some l => IO.println s!"{(Dp.deploy registry (pl fs) (pl present) l).map (·.name)}"
    | none => IO.println "bad-op")
    loop h g
  | "nop" :: _ => IO.println "ok"; loop h g
  | "res" :: its =>
    let pl := fun (s : String) => if s = "" then [] else (s.splitOn ",").filterMap (·.toNat?)
    let items := its.filterMap fun s => match s.splitOn ":" with
      | [n, p, r] => some (⟨n.toNat!, pl p, pl r⟩ : RItem)
      | _ => none
    (match resolveU items with
      | .ok o => IO.println s!"ok {o}"
      | .unsatisfied => IO.println "err unsatisfied dependency"
      | .ambiguous => IO.println "ambiguous"
      | .cyclic => IO.println "err topological sort failure"
      | .panic => IO.println "panic")
    loop h g
  | "reswf" :: its =>
    let pl := fun (s : String) => if s = "" then [] else (s.splitOn ",").filterMap (·.toNat?)
    let items := its.filterMap fun s => match s.splitOn ":" with
      | [n, p, r] => some (⟨n.toNat!, pl p, pl r⟩ : RItem)
      | _ => none
    IO.println s!"{wfItemsCheck items}"
    loop h g
  | _ => IO.println "bad-op"; loop h g

def main : IO Unit := do loop (← IO.getStdin) G.empty

end TsDrv
