import Rb.World
import Rb.Lookup
namespace RbwDrv
open RbM RbW

def fmtArena (o : Option Arena) : String :=
  match o with
  | some a => s!"size={a.size} gaps=[{",".intercalate (a.gaps.map toString)}] used={a.used}"
  | none => "no-arena"

def fmtTree (w : W) (t : Nat) : String :=
  match w.tree t with
  | some (a, tr) => s!"{tr.dumpP 0} min={tr.minId} max={tr.maxId} n={tr.size} | {fmtArena (w.arena a)}"
  | none => "no-tree"

partial def loop (h : IO.FS.Stream) (w : W) : IO Unit := do
  let line ← h.getLine
  if line.isEmpty then return ()
  let ws := (line.trim.splitOn " ").filter (· ≠ "")
  let bad := fun (_ : Unit) => do IO.println "model-reject"; loop h w
  match ws with
  | ["new"] => IO.println "ok"; loop h ⟨[(0, ⟨0, []⟩)], []⟩
  | ["alloc", a] => IO.println "ok"; loop h (w.setArena a.toNat! ⟨0, []⟩)
  | ["tree", t, a] => IO.println "ok"; loop h (w.setTree t.toNat! a.toNat! Tree.nil)
  | ["ins", t, k, v, id] =>
    match w.insert t.toNat! k.toNat! v.toNat! id.toNat! with
    | some (w', ok) => IO.println s!"{ok} {fmtTree w' t.toNat!}"; loop h w'
    | none => bad ()
  | ["del", t, k] =>
    match w.delete t.toNat! k.toNat! with
    | some (w', ok) => IO.println s!"{ok} {fmtTree w' t.toNat!}"; loop h w'
    | none => bad ()
  | ["erase", t] =>
    match w.erase t.toNat! with
    | some w' => IO.println s!"{fmtTree w' t.toNat!}"; loop h w'
    | none => bad ()
  | ["deep", t, t2, a2, ids] =>
    let l := if ids = "-" then [] else (ids.splitOn ",").filterMap (·.toNat?)
    match w.deep t.toNat! t2.toNat! a2.toNat! l with
    | some w' => IO.println s!"{fmtTree w' t2.toNat!}"; loop h w'
    | none => bad ()
  | ["clone", a, a2] =>
    match w.cloneArena a.toNat! a2.toNat! with
    | some w' => IO.println s!"{fmtArena (w'.arena a2.toNat!)}"; loop h w'
    | none => bad ()
  | ["shallow", t, t2, a2] =>
    match w.shallow t.toNat! t2.toNat! a2.toNat! with
    | some w' => IO.println s!"{fmtTree w' t2.toNat!}"; loop h w'
    | none => bad ()
  | ["obs", t] => IO.println (fmtTree w t.toNat!); loop h w
  | _ => IO.println "bad-op"; loop h w

def main : IO Unit := do loop (← IO.getStdin) default
end RbwDrv
