import Bd.Basic
namespace BdDrv
open Bd

def fmtNodes (ns : List Fu.Node) : String :=
  " ".intercalate (ns.map fun (k, v) => s!"{k}:{if v = Fu.END then "E" else toString v}")

def parseScript (s : String) : List (EK × Nat) :=
  if s = "-" then [] else (s.splitOn ",").filterMap fun e =>
    match e.toList with
    | 'e' :: ds => some (.eq, (String.ofList ds).toNat!)
    | 'i' :: ds => some (.ins, (String.ofList ds).toNat!)
    | 'd' :: ds => some (.del, (String.ofList ds).toNat!)
    | _ => none

def obs (s : BSt) : String :=
  let fs := s.files.mergeSort (fun a b => a.1 ≤ b.1)
  let files := " ; ".intercalate (fs.map fun (n, f) => s!"f{n}= {fmtNodes f}")
  match Route.run s.pn s.evs with
  | none => files ++ " | route-panic"
  | some a =>
    let g := a.global.mergeSort (fun x y => x.1.1 < y.1.1 || (x.1.1 == y.1.1 && x.1.2 ≤ y.1.2))
    let pe := a.people.mergeSort (fun x y => x.1.1 < y.1.1 || (x.1.1 == y.1.1 && (x.1.2.1 < y.1.2.1 || (x.1.2.1 == y.1.2.1 && x.1.2.2 ≤ y.1.2.2))))
    let mx := a.matrix.mergeSort (fun x y => x.1.1 < y.1.1 || (x.1.1 == y.1.1 && x.1.2 ≤ y.1.2))
    files ++ " | G " ++ " ".intercalate (g.map fun ((c, p), v) => s!"{c}/{p}={v}") ++ " P " ++
      " ".intercalate (pe.map fun ((a, c, p), v) => s!"{a}/{c}/{p}={v}") ++ " M " ++
      " ".intercalate (mx.map fun ((o, n), v) => s!"{o}/{n}={v}")

partial def loop (h : IO.FS.Stream) (fixed : Bool) (s : BSt) : IO Unit := do
  let line ← h.getLine
  if line.isEmpty then return ()
  let fin := fun (r : Except String BSt) => match r with
    | .ok s' => do IO.println "ok"; loop h fixed s'
    | .error e => do IO.println s!"err {e}"; loop h fixed s
  match (line.trim.splitOn " ").filter (· ≠ "") with
  | ["init", pn] => IO.println "ok"; loop h fixed ⟨pn.toNat!, 0, [], []⟩
  | ["begin", tick, author] =>
    IO.println "ok"; loop h fixed { s with time := pack s.pn author.toNat! tick.toNat! }
  | ["add", n, l] => fin (insertion fixed s n.toNat! l.toNat!)
  | ["rm", n, l] => fin (deletion fixed s n.toNat! l.toNat!)
  | ["mod", n, o, nw, sc] => fin (modification fixed s n.toNat! o.toNat! nw.toNat! (parseScript sc))
  | ["ren", src, n, o, nw, sc] => fin (renamed fixed s src.toNat! n.toNat! o.toNat! nw.toNat! (parseScript sc))
  | ["obs"] => IO.println (obs s); loop h fixed s
  | _ => IO.println "bad-op"; loop h fixed s

def main (args : List String) : IO Unit := do loop (← IO.getStdin) (args.contains "fixed") ⟨0, 0, [], []⟩
end BdDrv
