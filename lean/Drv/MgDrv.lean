import Mg.Basic
namespace MgDrv
open Mg

def parseList (s : String) : List Nat := if s = "-" then [] else (s.splitOn ",").filterMap (·.toNat?)

/-- line: `merge day mine other1 other2 …` (comma separated values) -/
partial def loop (h : IO.FS.Stream) : IO Unit := do
  let line ← h.getLine
  if line.isEmpty then return ()
  let ws := (line.trim.splitOn " ").filter (· ≠ "")
  match ws with
  | "merge" :: day :: mine :: others =>
    let day := day.toNat!
    let mine := parseList mine
    let others := others.map parseList
    if others.all (fun o => o.length == mine.length) then
      let cols := mine.zipIdx.map fun (p : Nat × Nat) => resolve day p.1 (others.map fun (o : List Nat) => o.getD p.2 0)
      let vals := cols.map (·.1)
      let reports := (cols.map (·.2)).foldl (· + ·) 0
      IO.println s!"ok {vals} reports={reports}"
    else IO.println "panic"
  | _ => IO.println "bad-op"
  loop h

def main : IO Unit := do loop (← IO.getStdin)

end MgDrv
