import Ln.Basic
import Ln.Commit
import Ln.Strip
import Bd.Valid
namespace LnDrv
open Ln
/-- comma separated bytes; a token `n*b` stands for `n` repetitions of byte `b` -/
def parseBytes (s : String) : List Nat := if s = "-" then [] else
  (s.splitOn ",").flatMap fun t =>
    match t.splitOn "*" with
    | [n, b] => List.replicate n.toNat! b.toNat!
    | [b] => match b.toNat? with | some x => [x] | none => []
    | _ => []
partial def loop (h : IO.FS.Stream) : IO Unit := do
  let line ← h.getLine
  if line.isEmpty then return ()
  let ws := (line.trim.splitOn " ").filter (· ≠ "")
  match ws with
  | ["lines", b] =>
    let bs := parseBytes b
    IO.println s!"{countLines bs} {(splitLines bs).length} {(splitLines bs).map (·.length)}"
  | ["strip", b] =>
    let r := stripWS (parseBytes b)
    IO.println s!"{r} {countLines r}"
  | "stats" :: es =>
    let edits := es.filterMap fun e =>
      match e.splitOn ":" with
      | ["E", n] => some (Edit.equal n.toNat!)
      | ["I", n] => some (Edit.insert n.toNat!)
      | ["D", n] => some (Edit.delete n.toNat!)
      | _ => none
    let r := lineStats edits
    IO.println s!"{r.added} {r.removed} {r.changed}"
  | ["vs", o, n, sc] =>
    -- old / new: line ids separated by ','; script: E3,D1,I2 …
    let ids := fun (t : String) => if t = "-" then ([] : List Nat) else (t.splitOn ",").filterMap (·.toNat?)
    let script := if sc = "-" then [] else (sc.splitOn ",").filterMap fun e =>
      let k := (e.drop 1).toNat!
      match e.get 0 with
      | 'E' => some (Bd.EK.eq, k) | 'I' => some (Bd.EK.ins, k) | 'D' => some (Bd.EK.del, k) | _ => none
    IO.println (if Bd.validScript script (ids o) (ids n) then "ok" else "bad")
  | "commit" :: mg :: cs =>
    -- change: I:name:lines|b   D:name:lines|b   M:name:E3,I2,D1 (or M:name:- for an empty script)
    let parseScript := fun (t : String) => if t = "-" then [] else (t.splitOn ",").filterMap fun e =>
      let n := (e.drop 1).toNat!
      match e.get 0 with
      | 'E' => some (Edit.equal n) | 'I' => some (Edit.insert n) | 'D' => some (Edit.delete n) | _ => none
    let chgs := cs.filterMap fun c => match c.splitOn ":" with
      | ["I", n, l] => some (Chg.ins n.toNat! l.toNat?)
      | ["D", n, l] => some (Chg.del n.toNat! l.toNat?)
      | ["M", n, t] => some (Chg.mod n.toNat! (parseScript t))
      | _ => none
    let res := (consume (mg = "1") chgs).mergeSort (fun a b => a.1 ≤ b.1)
    IO.println (if res.isEmpty then "-" else " ".intercalate (res.map fun (n, st) => s!"{n}={st.added}/{st.removed}/{st.changed}"))
  | _ => IO.println "bad-op"
  loop h
def main : IO Unit := do loop (← IO.getStdin)

end LnDrv
