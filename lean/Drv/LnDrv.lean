import Ln.Basic
namespace LnDrv
open Ln
/-- comma separated bytes; a token `n*b` stands for `n` repetitions of byte `b` -/
def parseBytes (s : String) : List Nat := if s = "-" then [] else
  (s.splitOn ",").flatMap fun t =>
    match t.splitOn "*" with
    | [n, b] => List.replicate n.toNat! b.toNat!
    | [b] => match b.toNat? with | some x => [x] | none => []
    | _ => []
partial def loop (h : IO.FS.Stream) : IO Unit := do
  let line ← h.getLine
  if line.isEmpty then return ()
  let ws := (line.trim.splitOn " ").filter (· ≠ "")
  match ws with
  | ["lines", b] =>
    let bs := parseBytes b
    IO.println s!"{countLines bs} {(splitLines bs).length} {(splitLines bs).map (·.length)}"
  | "stats" :: es =>
    let edits := es.filterMap fun e =>
      match e.splitOn ":" with
      | ["E", n] => some (Edit.equal n.toNat!)
      | ["I", n] => some (Edit.insert n.toNat!)
      | ["D", n] => some (Edit.delete n.toNat!)
      | _ => none
    let r := lineStats edits
    IO.println s!"{r.added} {r.removed} {r.changed}"
  | _ => IO.println "bad-op"
  loop h
def main : IO Unit := do loop (← IO.getStdin)

end LnDrv
