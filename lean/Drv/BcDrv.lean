import Td.Blob
namespace BcDrv
open Bc

def parseEnt (s : String) : Ent :=
  match s.splitOn "." with
  | [h, fl] => ⟨h.toNat!, fl.contains 's', !fl.contains 'x', fl.contains 'c'⟩
  | _ => ⟨0, false, false, false⟩

def parseChg (s : String) : Option Chg :=
  match s.splitOn ":" with
  | ["A", t] => some (.ins (parseEnt t))
  | ["D", f] => some (.del (parseEnt f))
  | ["M", ft] => match ft.splitOn ">" with
    | [f, t] => some (.mod (parseEnt f) (parseEnt t))
    | _ => none
  | _ => none

partial def loop (h : IO.FS.Stream) (prev : Cache) : IO Unit := do
  let line ← h.getLine
  if line.isEmpty then return ()
  match (line.trim.splitOn " ").filter (· ≠ "") with
  | ["new"] => IO.println "ok"; loop h []
  | "bc" :: chs =>
    match consume prev (chs.filterMap parseChg) with
    | none => IO.println "err"; loop h prev
    | some st =>
      let out := st.out.mergeSort (fun a b => a.1 ≤ b.1)
      IO.println (" ".intercalate (out.map fun (k, v) => s!"{k}:" ++ (match v with | .blob => "ok" | .zero => "zero")))
      loop h st.next
  | _ => IO.println "bad-op"; loop h prev

def main : IO Unit := do loop (← IO.getStdin) []
end BcDrv
