import Gs.Basic
import Gs.Route
namespace GsDrv
open Gs

/-- line: `g <fixed> <S> <G> <lastTick|-> tick:t=v,t=v;tick:…` -/
def parseH (s : String) : Sparse :=
  if s = "-" then [] else
  (s.splitOn ";").filterMap fun e =>
    match e.splitOn ":" with
    | [tk, ms] => some (tk.toNat!, if ms = "" then [] else (ms.splitOn ",").filterMap fun kv =>
        match kv.splitOn "=" with
        | [t, v] => some (t.toNat!, v.toInt!)
        | _ => none)
    | _ => none

partial def loopIO (h : IO.FS.Stream) : IO Unit := do
  let line ← h.getLine
  if line.isEmpty then return ()
  match (line.trim.splitOn " ").filter (· ≠ "") with
  | ["g", f, s, g, lt, hs] =>
    match group (f = "1") s.toNat! g.toNat! (parseH hs) lt.toNat? with
    | .panic m => IO.println s!"panic {m}"
    | .dense rows lt => IO.println s!"{lt} {rows}"
  | ["rt", pn, evs] =>
    let es := if evs = "-" then [] else (evs.splitOn ";").filterMap fun e => match e.splitOn "," with
      | [c, p, d] => some (⟨c.toNat!, p.toNat!, d.toInt!⟩ : Route.Ev) | _ => none
    match Route.run pn.toNat! es with
    | none => IO.println "panic"
    | some a =>
      let g := a.global.mergeSort (fun x y => x.1.1 < y.1.1 || (x.1.1 == y.1.1 && x.1.2 ≤ y.1.2))
      let pe := a.people.mergeSort (fun x y => x.1.1 < y.1.1 || (x.1.1 == y.1.1 && (x.1.2.1 < y.1.2.1 || (x.1.2.1 == y.1.2.1 && x.1.2.2 ≤ y.1.2.2))))
      let mx := a.matrix.mergeSort (fun x y => x.1.1 < y.1.1 || (x.1.1 == y.1.1 && x.1.2 ≤ y.1.2))
      IO.println ("G " ++ " ".intercalate (g.map fun ((c, p), v) => s!"{c}/{p}={v}") ++ " P " ++
        " ".intercalate (pe.map fun ((a, c, p), v) => s!"{a}/{c}/{p}={v}") ++ " M " ++
        " ".intercalate (mx.map fun ((o, n), v) => s!"{o}/{n}={v}"))
  | _ => IO.println "bad-op"
  loopIO h

def main : IO Unit := do loopIO (← IO.getStdin)

end GsDrv
