import Cd.Basic
import Cd.Couples
namespace CdDrv
open Cd
def parseInts (s : String) : List Int := if s = "-" then [] else (s.splitOn ",").filterMap (·.toInt?)
partial def loop (h : IO.FS.Stream) : IO Unit := do
  let line ← h.getLine
  if line.isEmpty then return ()
  let ws := (line.trim.splitOn " ").filter (· ≠ "")
  match ws with
  | ["row", r] => let row := parseInts r; IO.println s!"{decRow row.length (encRow row)}"
  | ["csr", ncols, rows] =>
    let m := (rows.splitOn ";").map parseInts
    IO.println s!"{fromCSR m.length ncols.toNat! (toCSR m)}"
  | ["ccsr", rows] =>
    -- rows: `c=v,c=v;…`, an empty row is `-`, a matrix without rows is `.`
    let parseRow := fun (r : String) => if r = "-" then ([] : CdC.Row) else
      (r.splitOn ",").filterMap fun e => match e.splitOn "=" with
        | [c, v] => match c.toNat?, v.toInt? with
          | some c, some v => some (c, v)
          | _, _ => none
        | _ => none
    let m := if rows = "." then [] else (rows.splitOn ";").map parseRow
    let back := CdC.decode (CdC.encode m)
    let fmtRow := fun (r : CdC.Row) => if r.isEmpty then "-" else ",".intercalate (r.map fun (c, v) => s!"{c}={v}")
    IO.println (if back.isEmpty then "." else ";".intercalate (back.map fmtRow))
  | ["nop"] => IO.println "ok"
  | _ => IO.println "bad-op"
  loop h
def main : IO Unit := do loop (← IO.getStdin)

end CdDrv
