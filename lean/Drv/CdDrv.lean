import Cd.Basic
import Cd.Couples
import Cd.Devs
namespace CdDrv
open Cd
def parseInts (s : String) : List Int := if s = "-" then [] else (s.splitOn ",").filterMap (·.toInt?)
partial def loop (h : IO.FS.Stream) : IO Unit := do
  let line ← h.getLine
  if line.isEmpty then return ()
  let ws := (line.trim.splitOn " ").filter (· ≠ "")
  match ws with
  | ["row", r] => let row := parseInts r; IO.println s!"{decRow row.length (encRow row)}"
  | ["csr", ncols, rows] =>
    let m := (rows.splitOn ";").map parseInts
    IO.println s!"{fromCSR m.length ncols.toNat! (toCSR m)}"
  | ["ccsr", rows] =>
    -- rows: `c=v,c=v;…`, an empty row is `-`, a matrix without rows is `.`
    let parseRow := fun (r : String) => if r = "-" then ([] : CdC.Row) else
      (r.splitOn ",").filterMap fun e => match e.splitOn "=" with
        | [c, v] => match c.toNat?, v.toInt? with
          | some c, some v => some (c, v)
          | _, _ => none
        | _ => none
    let m := if rows = "." then [] else (rows.splitOn ";").map parseRow
    let back := CdC.decode (CdC.encode m)
    let fmtRow := fun (r : CdC.Row) => if r.isEmpty then "-" else ",".intercalate (r.map fun (c, v) => s!"{c}={v}")
    IO.println (if back.isEmpty then "." else ";".intercalate (back.map fmtRow))
  | ["dvs", am, ts] =>
    -- ts: `tick:dev:commits:a/r/c:lang=a/r/c|…;…` (language "" is `_`), `-` = no entries; entries grouped by tick
    let pls := fun (s : String) => match (s.splitOn "/").map (·.toInt!) with
      | [a, r, c] => (⟨a, r, c⟩ : CdD.LS) | _ => ⟨0, 0, 0⟩
    let ents := if ts = "-" then [] else (ts.splitOn ";").filterMap fun e => match e.splitOn ":" with
      | [tk, dv, c, ls, lg] =>
        let langs := if lg = "" then [] else (lg.splitOn "|").filterMap fun kv => match kv.splitOn "=" with
          | [k, v] => some ((if k = "_" then "" else k), pls v) | _ => none
        some (tk.toInt!, dv.toInt!, (⟨c.toInt!, pls ls, langs⟩ : CdD.DT))
      | _ => none
    let ticks : CdD.Ticks := ents.foldl (fun acc (tk, dv, st) =>
      match acc.getLast? with
      | some (tk', ds) => if tk' = tk then acc.dropLast ++ [(tk', ds ++ [(dv, st)])] else acc ++ [(tk, [(dv, st)])]
      | none => [(tk, [(dv, st)])]) []
    let fls := fun (l : CdD.LS) => s!"{l.added}/{l.removed}/{l.changed}"
    let shw := fun (t : CdD.Ticks) =>
      let flat := t.flatMap fun (tk, ds) => ds.map fun (dv, st) => (tk, dv, st)
      let flat := flat.mergeSort (fun x y => x.1 < y.1 || (x.1 == y.1 && x.2.1 ≤ y.2.1))
      if flat.isEmpty then "-" else ";".intercalate (flat.map fun (tk, dv, st) =>
        let lg := (st.langs.mergeSort (fun x y => x.1 ≤ y.1)).map fun (k, v) => (if k = "" then "_" else k) ++ "=" ++ fls v
        s!"{tk}:{dv}:{st.commits}:{fls st.ls}:" ++ "|".intercalate lg)
    let m := CdD.encode am.toInt! ticks
    IO.println (shw m ++ " # " ++ shw (CdD.decode am.toInt! m))
  | ["nop"] => IO.println "ok"
  | _ => IO.println "bad-op"
  loop h
def main : IO Unit := do loop (← IO.getStdin)

end CdDrv
