import Cd.Basic
namespace CdDrv
open Cd
def parseInts (s : String) : List Int := if s = "-" then [] else (s.splitOn ",").filterMap (·.toInt?)
partial def loop (h : IO.FS.Stream) : IO Unit := do
  let line ← h.getLine
  if line.isEmpty then return ()
  let ws := (line.trim.splitOn " ").filter (· ≠ "")
  match ws with
  | ["row", r] => let row := parseInts r; IO.println s!"{decRow row.length (encRow row)}"
  | ["csr", ncols, rows] =>
    let m := (rows.splitOn ";").map parseInts
    IO.println s!"{fromCSR m.length ncols.toNat! (toCSR m)}"
  | _ => IO.println "bad-op"
  loop h
def main : IO Unit := do loop (← IO.getStdin)

end CdDrv
