import Rn.Basic
import Rn.Stage2
namespace RnDrv
open Rn

def parse (s : String) : List Nat := if s = "-" then [] else (s.splitOn ",").filterMap (·.toNat?)
def fmt (l : List Nat) : String := if l.isEmpty then "-" else ",".intercalate (l.map toString)

/-- line: `scan <added> <deleted>` (comma lists of hash numbers or `-`); `nop` → ok -/
partial def loop (h : IO.FS.Stream) : IO Unit := do
  let line ← h.getLine
  if line.isEmpty then return ()
  match (line.trim.splitOn " ").filter (· ≠ "") with
  | ["scan", a, d] =>
    let (m, sa, sd) := scan ((parse a).mergeSort (· ≤ ·)) ((parse d).mergeSort (· ≤ ·))
    IO.println s!"m:{fmt m} a:{fmt sa} d:{fmt sd}"
  | ["rn2", ds, as, ms] =>
    -- ds / as: `id:hash,…` of the deleted / added files, ms: the reported renames `d>a,…`
    let pairs := fun (s : String) => if s = "-" then [] else (s.splitOn ",").filterMap fun t =>
      match t.splitOn ":" with
      | [i, hsh] => some (i.toNat!, hsh.toNat!)
      | _ => none
    let dl := pairs ds
    let al := pairs as
    let look := fun (l : List (Nat × Nat)) (i : Nat) => ((l.find? (·.1 = i)).map (·.2)).getD 0
    let mt := if ms = "-" then [] else (ms.splitOn ",").filterMap fun t =>
      match t.splitOn ">" with
      | [d, a] => some (d.toNat!, a.toNat!)
      | _ => none
    let del := dl.map (·.1)
    let add := al.map (·.1)
    if !resultOK del add (look dl) (look al) mt ((dl ++ al).map (·.2)).eraseDups then IO.println "bad"
    else match applyMatches del add mt with
      | some (d', a') => IO.println s!"ok d:{fmt (d'.mergeSort (· ≤ ·))} a:{fmt (a'.mergeSort (· ≤ ·))}"
      | none => IO.println "bad"
  | ["nop"] => IO.println "ok"
  | _ => IO.println "bad-op"
  loop h

def main : IO Unit := do loop (← IO.getStdin)
end RnDrv
