import Rn.Basic
namespace RnDrv
open Rn

def parse (s : String) : List Nat := if s = "-" then [] else (s.splitOn ",").filterMap (·.toNat?)
def fmt (l : List Nat) : String := if l.isEmpty then "-" else ",".intercalate (l.map toString)

/-- line: `scan <added> <deleted>` (comma lists of hash numbers or `-`); `nop` → ok -/
partial def loop (h : IO.FS.Stream) : IO Unit := do
  let line ← h.getLine
  if line.isEmpty then return ()
  match (line.trim.splitOn " ").filter (· ≠ "") with
  | ["scan", a, d] =>
    let (m, sa, sd) := scan ((parse a).mergeSort (· ≤ ·)) ((parse d).mergeSort (· ≤ ·))
    IO.println s!"m:{fmt m} a:{fmt sa} d:{fmt sd}"
  | ["nop"] => IO.println "ok"
  | _ => IO.println "bad-op"
  loop h

def main : IO Unit := do loop (← IO.getStdin)
end RnDrv
