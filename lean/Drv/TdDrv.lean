import Td.Basic
namespace TdDrv
open Td

def parseFile (s : String) : Option File :=
  match s.splitOn "=" with
  | [p, rest] => match rest.splitOn "." with
    | [h, m, fl] => some ⟨p, h.toNat!, m.toNat!, fl.contains 's', fl.contains 'v', fl.contains 'r'⟩
    | _ => none
  | _ => none

def fmtSide (o : Option File) : String := match o with | some f => s!"{f.hash}.{f.mode}" | none => "-"

/-- per-branch item state: `fork` copies the state of the source branch (TreeDiff forks by copy) -/
abbrev Brs := List (Nat × St)
def getBr (bs : Brs) (b : Nat) : St := ((bs.find? (·.1 = b)).map (·.2)).getD ⟨none, none⟩
def setBr (bs : Brs) (b : Nat) (s : St) : Brs := (b, s) :: bs.filter (·.1 ≠ b)

partial def loop (h : IO.FS.Stream) (cfg : Cfg) (bs : Brs) : IO Unit := do
  let line ← h.getLine
  if line.isEmpty then return ()
  let commit := fun (b : Nat) (c ps fs : String) => do
    let parents := if ps = "-" then [] else (ps.splitOn ",").filterMap (·.toNat?)
    let tree := if fs = "-" then [] else (fs.splitOn ";").filterMap parseFile
    match consume cfg (getBr bs b) c.toNat! parents tree with
    | .error e => IO.println s!"err {e}"; loop h cfg bs
    | .ok (s', chs) =>
      let strs := (chs.map fun c => s!"{c.name}:{fmtSide c.src}>{fmtSide c.dst}").mergeSort (fun a b => a ≤ b)
      IO.println (" ".intercalate strs)
      loop h cfg (setBr bs b s')
  match (line.trim.splitOn " ").filter (· ≠ "") with
  | ["cfg", skip, rx, rxe] =>
    loop h ⟨if skip = "-" then [] else skip.splitOn ",", rx = "1", rxe = "1"⟩ []
  | ["commit", c, ps, fs] => commit 0 c ps fs
  | ["bcommit", b, c, ps, fs] => commit b.toNat! c ps fs
  | ["fork", src, dsts] =>
    let st := getBr bs src.toNat!
    IO.println "ok"
    loop h cfg (((dsts.splitOn ",").filterMap (·.toNat?)).foldl (fun acc d => setBr acc d st) bs)
  | _ => IO.println "bad-op"; loop h cfg bs

def main : IO Unit := do loop (← IO.getStdin) ⟨[], false, false⟩ []

end TdDrv
