import Td.Basic
namespace TdDrv
open Td

def parseFile (s : String) : Option File :=
  match s.splitOn "=" with
  | [p, rest] => match rest.splitOn "." with
    | [h, m, fl] => some ⟨p, h.toNat!, m.toNat!, fl.contains 's', fl.contains 'v', fl.contains 'r'⟩
    | _ => none
  | _ => none

def fmtSide (o : Option File) : String := match o with | some f => s!"{f.hash}.{f.mode}" | none => "-"

partial def loop (h : IO.FS.Stream) (cfg : Cfg) (s : St) : IO Unit := do
  let line ← h.getLine
  if line.isEmpty then return ()
  match (line.trim.splitOn " ").filter (· ≠ "") with
  | ["cfg", skip, rx, rxe] =>
    loop h ⟨if skip = "-" then [] else skip.splitOn ",", rx = "1", rxe = "1"⟩ ⟨none, none⟩
  | ["commit", c, ps, fs] =>
    let parents := if ps = "-" then [] else (ps.splitOn ",").filterMap (·.toNat?)
    let tree := if fs = "-" then [] else (fs.splitOn ";").filterMap parseFile
    match consume cfg s c.toNat! parents tree with
    | .error e => IO.println s!"err {e}"; loop h cfg s
    | .ok (s', chs) =>
      let strs := (chs.map fun c => s!"{c.name}:{fmtSide c.src}>{fmtSide c.dst}").mergeSort (fun a b => a ≤ b)
      IO.println (" ".intercalate strs)
      loop h cfg s'
  | _ => IO.println "bad-op"; loop h cfg s

def main : IO Unit := do loop (← IO.getStdin) ⟨[], false, false⟩ ⟨none, none⟩

end TdDrv
