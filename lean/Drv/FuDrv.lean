import Fu.Basic
namespace FuDrv
open Fu

def parseNat (s : String) : Nat := s.trim.toNat!

def fmtNodes (ns : List Node) : String :=
  " ".intercalate (ns.map fun (k, v) => s!"{k}:{if v = END then "E" else toString v}")

def fmtEm (es : List (Nat × Nat × Int)) : String :=
  " ".intercalate (es.map fun (c, p, d) => s!"({c},{p},{d})")

partial def loop (h : IO.FS.Stream) (fixed : Bool) (st : List Node) : IO Unit := do
  let line ← h.getLine
  if line.isEmpty then return ()
  let ws := line.trim.splitOn " "
  match ws with
  | ["new", t, l] =>
    let f := newFile (parseNat t) (parseNat l)
    IO.println s!"ok {fmtNodes f}"
    loop h fixed f
  | ["upd", t, p, i, d] =>
    -- updateTime panics when a report's previous value carries the merge mark and differs from the stamp:
    -- by `delLoop_emits` the reports of the delete loop are exactly the lines of the deleted segment
    if markClash st (parseNat t) (parseNat p) (parseNat d) then
      IO.println "panic"
      loop h fixed st
    else
    match update fixed st (parseNat t) (parseNat p) (parseNat i) (parseNat d) with
    | .ok (ns, em) =>
      IO.println s!"ok {fmtNodes ns} | {fmtEm em}"
      loop h fixed ns
    | .reject m =>
      IO.println s!"panic"
      loop h fixed st
  | _ => IO.println "bad-op"; loop h fixed st

def main (args : List String) : IO Unit := do
  loop (← IO.getStdin) (args.contains "fixed") []

end FuDrv
