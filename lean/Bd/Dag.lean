import Bd.Basic
import Mg.Basic
/-! BurndownAnalysis on several branches: Consume (normal and merge mode), Fork, Merge (leaves/burndown.go).
    Shared by all copies: the histories (`evs`), the `deletions` set; shared until reassigned: `mergedFiles`. -/
namespace Bd

def MARK : Nat := 16383

structure Br where
  files : List (Nat × List Fu.Node)
  tick : Nat
  mergedAuthor : Nat
  mref : Nat                                  -- which mergedFiles object this copy points to
  deriving Repr

structure W where
  pn : Nat
  brs : List (Nat × Br)
  heap : List (Nat × List (Nat × Bool))       -- mergedFiles objects
  nextRef : Nat
  deletions : List Nat
  evs : List Route.Ev
  deriving Repr

def W.br (w : W) (b : Nat) : Br := ((w.brs.find? (·.1 = b)).map (·.2)).getD ⟨[], 0, Route.authorMissing, 0⟩
def W.setBr (w : W) (b : Nat) (x : Br) : W := { w with brs := (b, x) :: w.brs.filter (·.1 ≠ b) }
def W.mf (w : W) (r : Nat) : List (Nat × Bool) := ((w.heap.find? (·.1 = r)).map (·.2)).getD []
def W.setMf (w : W) (r name : Nat) (v : Bool) : W :=
  { w with heap := (r, (name, v) :: (w.mf r).filter (·.1 ≠ name)) :: w.heap.filter (·.1 ≠ r) }

def brFile (x : Br) (name : Nat) : Option (List Fu.Node) := (x.files.find? (·.1 = name)).map (·.2)
def brSet (x : Br) (name : Nat) (f : List Fu.Node) : Br := { x with files := (name, f) :: x.files.filter (·.1 ≠ name) }
def brDrop (x : Br) (name : Nat) : Br := { x with files := x.files.filter (·.1 ≠ name) }

inductive Op
  | add (name lines : Nat) | rm (name lines : Nat) | mod (name oldL newL : Nat) (script : List (EK × Nat))
  /-- a rename reported together with an edit: the file `src` appears as `name` with the given edit script -/
  | ren (src name oldL newL : Nat) (script : List (EK × Nat))

def markMf (w : W) (merge : Bool) (b name : Nat) (v : Bool) : W :=
  if merge then w.setMf (w.br b).mref name v else w

def doInsert (fixed merge : Bool) (w : W) (b author eff name lines : Nat) : Except String W :=
  let x := w.br b
  match brFile x name with
  | some _ => .error "file already exists"
  | none =>
    let time := pack w.pn author eff
    let w := (w.setBr b (brSet x name (Fu.newFile time lines)))
    let w := { w with evs := w.evs ++ toEvs (Fu.emit time time lines), deletions := w.deletions.filter (· ≠ name) }
    .ok (markMf w merge b name true)

/-- the edit of a tracked file `f` that is (now) called `name` on branch `b` -/
def doEdit (fixed : Bool) (w : W) (b author eff name oldL newL : Nat) (script : List (EK × Nat)) (f : List Fu.Node) :
    Except String W :=
  if fileLen f ≠ oldL then .error "integrity src" else
  match translate script 0 (.eq, 0) [] with
  | .error e => .error e
  | .ok us =>
    match applyUpds fixed (pack w.pn author eff) us f w.evs with
    | .error e => .error e
    | .ok (f', evs) =>
      if fileLen f' ≠ newL then .error "integrity dst"
      else .ok { (w.setBr b (brSet (w.br b) name f')) with evs := evs }

/-- one change of one commit on branch b; `eff` = the commit's tick, or MARK in merge mode -/
def doOp (fixed merge : Bool) (w : W) (b author eff : Nat) : Op → Except String W
  | .add name lines => doInsert fixed merge w b author eff name lines
  | .rm name lines =>
    let x := w.br b
    match brFile x name with
    | none => .ok w
    | some f =>
      let t := if merge ∧ ¬ w.deletions.contains name then 0 else eff
      match applyUpds fixed (pack w.pn author t) [(0, 0, lines)] f w.evs with
      | .error e => .error e
      | .ok (_, evs) =>
        let w := { (w.setBr b (brDrop x name)) with evs := evs, deletions := name :: w.deletions.filter (· ≠ name) }
        .ok (markMf w merge b name false)
  | .mod name oldL newL script =>
    let w := markMf w merge b name true
    match brFile (w.br b) name with
    | none => doInsert fixed merge w b author eff name newL
    | some f => doEdit fixed w b author eff name oldL newL script f
  | .ren src name oldL newL script =>
    -- handleModification: the new name is recorded as touched; an unknown old name makes it an insertion;
    -- otherwise handleRename moves the file (overwriting whatever was tracked under the new name), takes the new name
    -- off the deletions and, in merge mode, records the old name as gone; then the edit proceeds under the new name
    let w := markMf w merge b name true
    match brFile (w.br b) src with
    | none => doInsert fixed merge w b author eff name newL
    | some f =>
      let w := { (w.setBr b (brSet (brDrop (w.br b) src) name f)) with deletions := w.deletions.filter (· ≠ name) }
      let w := markMf w merge b src false
      doEdit fixed w b author eff name oldL newL script f

/-- start of Consume: tick bookkeeping and, in merge mode, a fresh mergedFiles object -/
def beginCommit (w : W) (b tick author : Nat) (merge : Bool) : W :=
  let x := w.br b
  if merge then
    let w := { w with heap := (w.nextRef, []) :: w.heap, nextRef := w.nextRef + 1 }
    w.setBr b { x with mref := w.nextRef - 1, mergedAuthor := author }
  else w.setBr b { x with tick := tick, mergedAuthor := Route.authorMissing }

def endCommit (w : W) (b tick : Nat) : W := w.setBr b { (w.br b) with tick := tick }

def fork (w : W) (b : Nat) (targets : List Nat) : W :=
  targets.foldl (fun w t => w.setBr t (w.br b)) w

/-- run-length encoding of a line array back into interval nodes -/
def rle (ls : List Nat) : List Fu.Node :=
  let rec go (i : Nat) (prev : Option Nat) : List Nat → List Fu.Node
    | [] => [(i, Fu.END)]
    | v :: rest => (if prev = some v then [] else [(i, v)]) ++ go (i + 1) (some v) rest
  go 0 none ls

def transpose (ols : List (List Nat)) (i : Nat) : List Nat := ols.map (·.getD i 0)

def mergeFile (day : Nat) (mine : List Nat) (others : List (List Nat)) : Option (List Nat × Nat) :=
  if others.any (·.length ≠ mine.length) then none else
  let rs := mine.zipIdx.map fun (l, i) => Mg.resolve day l (transpose others i)
  some (rs.map (·.1), (rs.map (·.2)).sum)

def insertSortedN (x : Nat) : List Nat → List Nat
  | [] => [x]
  | y :: ys => if x < y then x :: y :: ys else if x = y then y :: ys else y :: insertSortedN x ys

def mergeKey (bs : List Nat) (flags : List (Nat × Bool)) (day : Nat) (w : W) (key : Nat) : Except String W :=
  let val := flags.any fun p => p.1 = key && p.2
  if !val then .ok (bs.foldl (fun w b => w.setBr b (brDrop (w.br b) key)) w)
  else
    let fs := bs.filterMap fun b => brFile (w.br b) key
    match fs with
    | [] => .ok w
    | f0 :: others =>
      match mergeFile day (Fu.flat f0) (others.map Fu.flat) with
      | none => .error "panic"
      | some (lines, nrep) =>
        let nodes := rle lines
        let w := bs.foldl (fun w b => w.setBr b (brSet (w.br b) key nodes)) w
        .ok { w with evs := w.evs ++ (if Mg.isMark day then [] else List.replicate nrep ⟨day, day, 1⟩) }

def mergeBranches (w : W) (bs : List Nat) : Except String W :=
  match bs with
  | [] => .ok w
  | b0 :: _ =>
    let flags := bs.flatMap fun b => w.mf (w.br b).mref
    let keys := flags.foldl (fun ks p => insertSortedN p.1 ks) []
    let day := pack w.pn (w.br b0).mergedAuthor (w.br b0).tick
    match keys.foldlM (mergeKey bs flags day) w with
    | .error e => .error e
    | .ok w => .ok (w.setBr b0 { (w.br b0) with mergedAuthor := Route.authorMissing })

end Bd
