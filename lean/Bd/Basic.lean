import Fu.Basic
import Gs.Route
/-! Model of BurndownAnalysis.Consume on one branch for non-merge commits (leaves/burndown.go):
    handleInsertion / handleDeletion / handleModification with the edit-script loop. -/
namespace Bd

inductive EK | eq | ins | del
  deriving DecidableEq, Repr

abbrev Upd := Nat × Nat × Nat         -- position, inserted, deleted

/-- the edit loop of handleModification: the `Update` calls it issues, or an error -/
def translate : List (EK × Nat) → Nat → (EK × Nat) → List Upd → Except String (List Upd)
  | [], pos, pending, acc =>
    if pending.2 > 0 then
      (if pending.1 = .ins then .ok (acc ++ [(pos, pending.2, 0)]) else .ok (acc ++ [(pos, 0, pending.2)]))
    else .ok acc
  | (k, n) :: rest, pos, pending, acc =>
    match k with
    | .eq =>
      if pending.2 > 0 then
        (if pending.1 = .ins then translate rest (pos + pending.2 + n) (.eq, 0) (acc ++ [(pos, pending.2, 0)])
         else translate rest (pos + n) (.eq, 0) (acc ++ [(pos, 0, pending.2)]))
      else translate rest (pos + n) pending acc
    | .ins =>
      if pending.2 > 0 then
        (if pending.1 = .ins then .error "DiffInsert may not appear after DiffInsert"
         else translate rest (pos + n) (.eq, 0) (acc ++ [(pos, n, pending.2)]))
      else translate rest pos (.ins, n) acc
    | .del =>
      if pending.2 > 0 then .error "DiffDelete may not appear after DiffInsert/DiffDelete"
      else translate rest pos (.del, n) acc

structure BSt where
  pn : Nat
  time : Nat                              -- packed (author, tick) of the current commit
  files : List (Nat × List Fu.Node)
  evs : List Route.Ev                     -- every (current, previous, delta) report so far
  deriving Repr

def getFile (s : BSt) (name : Nat) : Option (List Fu.Node) := (s.files.find? (·.1 = name)).map (·.2)
def setFile (s : BSt) (name : Nat) (f : List Fu.Node) : BSt :=
  { s with files := (name, f) :: s.files.filter (·.1 ≠ name) }
def dropFile (s : BSt) (name : Nat) : BSt := { s with files := s.files.filter (·.1 ≠ name) }

def pack (pn author tick : Nat) : Nat := if pn = 0 then tick else (tick &&& 16383) ||| (author <<< 14)

def toEvs (em : List (Nat × Nat × Int)) : List Route.Ev := em.map fun (c, p, d) => ⟨c, p, d⟩

def fileLen (f : List Fu.Node) : Nat := match f.getLast? with | some (k, _) => k | none => 0

def insertion (fixed : Bool) (s : BSt) (name lines : Nat) : Except String BSt :=
  match getFile s name with
  | some _ => .error "file already exists"
  | none => .ok { (setFile s name (Fu.newFile s.time lines)) with evs := s.evs ++ [⟨s.time, s.time, lines⟩] }

def applyUpds (fixed : Bool) (t : Nat) : List Upd → List Fu.Node → List Route.Ev → Except String (List Fu.Node × List Route.Ev)
  | [], f, evs => .ok (f, evs)
  | (p, i, d) :: rest, f, evs =>
    match Fu.update fixed f t p i d with
    | .ok (f', em) => applyUpds fixed t rest f' (evs ++ toEvs em)
    | .reject _ => .error "panic"

def deletion (fixed : Bool) (s : BSt) (name lines : Nat) : Except String BSt :=
  match getFile s name with
  | none => .ok s
  | some f =>
    match applyUpds fixed s.time [(0, 0, lines)] f s.evs with
    | .ok (_, evs) => .ok { (dropFile s name) with evs := evs }
    | .error e => .error e

def modification (fixed : Bool) (s : BSt) (name oldL newL : Nat) (script : List (EK × Nat)) : Except String BSt :=
  match getFile s name with
  | none => insertion fixed s name newL
  | some f =>
    if fileLen f ≠ oldL then .error "integrity src" else
    match translate script 0 (.eq, 0) [] with
    | .error e =>
      -- the calls issued before the error have already been applied; the run stops here anyway
      .error e
    | .ok us =>
      match applyUpds fixed s.time us f s.evs with
      | .error e => .error e
      | .ok (f', evs) =>
        if fileLen f' ≠ newL then .error "integrity dst" else .ok { (setFile s name f') with evs := evs }

/-- handleRename: the tracked file moves to its new name (whatever was tracked there is overwritten) -/
def renameFile (s : BSt) (src name : Nat) (f : List Fu.Node) : BSt := setFile (dropFile s src) name f

/-- a rename reported together with an edit (handleModification with From.Name ≠ To.Name): an unknown old name makes it
an insertion under the new name; otherwise the file is renamed and then edited under the new name -/
def renamed (fixed : Bool) (s : BSt) (src name oldL newL : Nat) (script : List (EK × Nat)) : Except String BSt :=
  match getFile s src with
  | none => insertion fixed s name newL
  | some f => modification fixed (renameFile s src name f) name oldL newL script

end Bd
