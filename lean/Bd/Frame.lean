import Bd.MergeSame
namespace Bd

theorem br_setMf (w : W) (r name : Nat) (v : Bool) (b : Nat) : (w.setMf r name v).br b = w.br b := rfl

theorem br_markMf (w : W) (merge : Bool) (b name : Nat) (v : Bool) (b' : Nat) :
    (markMf w merge b name v).br b' = w.br b' := by
  unfold markMf; split <;> rfl

theorem doInsert_frame (fixed merge : Bool) (w w' : W) (b author eff name lines : Nat)
    (h : doInsert fixed merge w b author eff name lines = .ok w') (b' : Nat) (hb : b' ≠ b) :
    w'.br b' = w.br b' := by
  unfold doInsert at h
  simp only at h
  split at h
  · simp at h
  · simp at h; subst h
    rw [br_markMf]
    show (W.setBr w b _).br b' = _
    exact br_setBr_other _ _ _ _ hb

theorem doEdit_frame (fixed : Bool) (w w' : W) (b author eff name oldL newL : Nat) (script : List (EK × Nat))
    (f : List Fu.Node) (h : doEdit fixed w b author eff name oldL newL script f = .ok w') (b' : Nat) (hb : b' ≠ b) :
    w'.br b' = w.br b' := by
  unfold doEdit at h
  split at h
  · simp at h
  · split at h
    · simp at h
    · split at h
      · simp at h
      · split at h
        · simp at h
        · simp at h; subst h
          show (W.setBr w b _).br b' = _
          exact br_setBr_other _ _ _ _ hb

/-- **C08 (burndown)**: one change of a commit replayed on branch `b` leaves every other branch copy exactly
    as it was — files, tick and merge bookkeeping — whatever the change and whether or not it succeeds. -/
theorem doOp_frame (fixed merge : Bool) (w w' : W) (b author eff : Nat) (op : Op)
    (h : doOp fixed merge w b author eff op = .ok w') (b' : Nat) (hb : b' ≠ b) :
    w'.br b' = w.br b' := by
  cases op with
  | add name lines => exact doInsert_frame fixed merge w w' b author eff name lines h b' hb
  | rm name lines =>
    simp only [doOp] at h
    split at h
    · simp at h; subst h; rfl
    · split at h
      · simp at h
      · simp at h; subst h
        rw [br_markMf]
        show (W.setBr w b _).br b' = _
        exact br_setBr_other _ _ _ _ hb
  | mod name oldL newL script =>
    simp only [doOp] at h
    split at h
    · have := doInsert_frame fixed merge _ w' b author eff name newL h b' hb
      rw [this, br_markMf]
    · have := doEdit_frame fixed _ w' b author eff name oldL newL script _ h b' hb
      rw [this, br_markMf]
  | ren src name oldL newL script =>
    simp only [doOp] at h
    split at h
    · have := doInsert_frame fixed merge _ w' b author eff name newL h b' hb
      rw [this, br_markMf]
    · have := doEdit_frame fixed _ w' b author eff name oldL newL script _ h b' hb
      rw [this, br_markMf]
      show (W.setBr (markMf w merge b name true) b _).br b' = _
      rw [br_setBr_other _ _ _ _ hb, br_markMf]

theorem beginCommit_frame (w : W) (b tick author : Nat) (merge : Bool) (b' : Nat) (hb : b' ≠ b) :
    (beginCommit w b tick author merge).br b' = w.br b' := by
  unfold beginCommit
  simp only
  split
  · show (W.setBr _ b _).br b' = _
    rw [br_setBr_other _ _ _ _ hb]; rfl
  · exact br_setBr_other _ _ _ _ hb

theorem endCommit_frame (w : W) (b tick : Nat) (b' : Nat) (hb : b' ≠ b) :
    (endCommit w b tick).br b' = w.br b' := br_setBr_other _ _ _ _ hb

end Bd
