import Bd.Rle
/-! C01 / C07, the file-level core of "conflict-free merges reproduce the ground truth": when a merge commit has been
    replayed on every branch, each copy of a file holds, line by line, either the line's true origin (the branch knew
    the line already) or the merge mark (the line was written by the replay of the merge commit on that branch).  If the
    copies never *disagree* on a real value - that is what conflict-free means at this level - `File.Merge` installs
    exactly the true array: a line some copy knows keeps its true value and is not reported again, a line no copy knows
    is a line of the merge commit itself, stamped with the merge value and reported once. -/
namespace Bd
open Mg Fu

/-- one line, some copy knows its origin `t`, no copy claims another one -/
theorem resolve_known (day l : Nat) (ols : List Nat) (t : Nat) (ht : isMark t = false)
    (hall : ∀ v ∈ l :: ols, isMark v = true ∨ v = t) (hone : t ∈ l :: ols) :
    Mg.resolve day l ols = (t, 0) := by
  rw [resolve_spec]
  have hs := bestFrom_spec ols (start l)
  cases hb : bestFrom (start l) ols with
  | none =>
    rw [hb] at hs
    obtain ⟨h1, h2⟩ := hs
    exfalso
    rcases List.mem_cons.1 hone with h | h
    · unfold start at h1
      rw [← h, ht] at h1
      simp at h1
    · have := h2 t h
      rw [ht] at this
      simp at this
  | some b =>
    rw [hb] at hs
    obtain ⟨h1, _, _⟩ := hs
    have hbt : b = t := by
      rcases h1 with h1 | ⟨h1, h2⟩
      · unfold start at h1
        by_cases hm : isMark l = true
        · simp [hm] at h1
        · simp only [hm, Bool.false_eq_true, if_false, Option.some.injEq] at h1
          rcases hall l List.mem_cons_self with h | h
          · exact absurd h hm
          · rw [← h1, h]
      · rcases hall b (List.mem_cons_of_mem _ h1) with h | h
        · rw [h2] at h; simp at h
        · exact h
    simp [hbt]

/-- one line that no copy knows: it is a line of the merge commit, stamped with the merge value -/
theorem resolve_unknown (day l : Nat) (ols : List Nat) (hall : ∀ v ∈ l :: ols, isMark v = true) :
    Mg.resolve day l ols = (day, if isMark day then 0 else 1) := by
  rw [resolve_spec]
  have hs := bestFrom_spec ols (start l)
  cases hb : bestFrom (start l) ols with
  | none => rfl
  | some b =>
    rw [hb] at hs
    obtain ⟨h1, _, _⟩ := hs
    exfalso
    rcases h1 with h1 | ⟨h1, h2⟩
    · unfold start at h1
      have := hall l List.mem_cons_self
      simp [this] at h1
    · have := hall b (List.mem_cons_of_mem _ h1)
      rw [h2] at this
      simp at this

theorem transpose_mem (others : List (List Nat)) (i : Nat) (v : Nat) (h : v ∈ transpose others i) :
    ∃ o ∈ others, v = o.getD i 0 := by
  unfold transpose at h
  obtain ⟨o, ho, rfl⟩ := List.mem_map.1 h
  exact ⟨o, ho, rfl⟩

/-- **conflict-free merge of one file**: the copies have the length of the true array; at every line each copy holds the
true value or the mark; where some copy holds the true value the merged line is that value, where none does it is the
merge value `day`.  (`flat (rle …)` is the interval list `File.Merge` installs in every branch, `merged_nodes_pointwise`.) -/
theorem mergeFile_conflict_free (day : Nat) (mine : List Nat) (others : List (List Nat)) (truth : List Nat)
    (hlen : ∀ c ∈ mine :: others, c.length = truth.length)
    (htruth : ∀ t ∈ truth, isMark t = false)
    (hall : ∀ c ∈ mine :: others, ∀ i (hi : i < truth.length), isMark (c.getD i 0) = true ∨ c.getD i 0 = truth[i]) :
    ∃ lines n, mergeFile day mine others = some (lines, n) ∧ lines.length = truth.length ∧
      ∀ i (hi : i < truth.length),
        (flat (rle lines))[i]? =
          some (if ∃ c ∈ mine :: others, c.getD i 0 = truth[i] then truth[i] else day) := by
  have hml : mine.length = truth.length := hlen mine List.mem_cons_self
  have hsome : ∃ r, mergeFile day mine others = some r := by
    unfold mergeFile
    split
    · rename_i hbad
      exfalso
      simp only [List.any_eq_true, decide_eq_true_eq, ne_eq] at hbad
      obtain ⟨o, ho, hne⟩ := hbad
      exact hne ((hlen o (List.mem_cons_of_mem _ ho)).trans hml.symm)
    · exact ⟨_, rfl⟩
  obtain ⟨⟨lines, n⟩, hm⟩ := hsome
  obtain ⟨hl1, _, hl3⟩ := mergeFile_lines day mine others lines n hm
  refine ⟨lines, n, hm, hl1.trans hml, ?_⟩
  intro i hi
  rw [flat_rle]
  have hi' : i < mine.length := by omega
  rw [hl3 i hi']
  -- the values of all copies at line i
  have hmine : mine[i] = mine.getD i 0 := by simp [List.getD, List.getElem?_eq_getElem hi']
  have hvals : ∀ v ∈ mine[i] :: transpose others i, ∃ c ∈ mine :: others, v = c.getD i 0 := by
    intro v hv
    rcases List.mem_cons.1 hv with rfl | hv
    · exact ⟨mine, List.mem_cons_self, hmine⟩
    · obtain ⟨o, ho, rfl⟩ := transpose_mem others i v hv
      exact ⟨o, List.mem_cons_of_mem _ ho, rfl⟩
  by_cases hk : ∃ c ∈ mine :: others, c.getD i 0 = truth[i]
  · rw [if_pos hk]
    have hone : truth[i] ∈ mine[i] :: transpose others i := by
      obtain ⟨c, hc, hct⟩ := hk
      rcases List.mem_cons.1 hc with rfl | hc
      · rw [← hct, hmine]; exact List.mem_cons_self
      · apply List.mem_cons_of_mem
        unfold transpose
        exact List.mem_map.2 ⟨c, hc, hct⟩
    have := resolve_known day mine[i] (transpose others i) truth[i] (htruth _ (List.getElem_mem hi))
      (by
        intro v hv
        obtain ⟨c, hc, rfl⟩ := hvals v hv
        exact hall c hc i hi) hone
    rw [this]
  · rw [if_neg hk]
    have := resolve_unknown day mine[i] (transpose others i) (by
      intro v hv
      obtain ⟨c, hc, rfl⟩ := hvals v hv
      rcases hall c hc i hi with h | h
      · exact h
      · exact absurd ⟨c, hc, h⟩ hk)
    rw [this]

/-! ## how many lines the merge reports -/

theorem sum_zipIdx (g : Nat → Nat → Nat) (P : Nat → Bool) (w : Nat) : ∀ (l : List Nat) (k : Nat),
    (∀ j (hj : j < l.length), g l[j] (k + j) = if P (k + j) then w else 0) →
    ((l.zipIdx k).map (fun p => g p.1 p.2)).sum = w * ((List.range' k l.length).filter P).length := by
  intro l
  induction l with
  | nil => intro k _; simp
  | cons a l ih =>
    intro k h
    have h0 := h 0 (by simp)
    simp only [List.getElem_cons_zero, Nat.add_zero] at h0
    have ht := ih (k + 1) (by
      intro j hj
      have := h (j + 1) (by simp; omega)
      simp only [List.getElem_cons_succ] at this
      rw [show k + 1 + j = k + (j + 1) by omega]
      exact this)
    simp only [List.zipIdx_cons, List.map_cons, List.sum_cons, List.length_cons, List.range'_succ, List.filter_cons]
    rw [ht, h0]
    cases hp : P k <;> simp [hp, Nat.mul_add, Nat.add_comm]

/-- does some copy know the origin of line `i`? -/
def knownAt (copies : List (List Nat)) (truth : List Nat) (i : Nat) : Bool :=
  copies.any fun c => c.getD i 0 == truth.getD i 0

/-- **reports of a conflict-free merge**: exactly the lines no copy knows are reported, once each (and none at all if the
merge value is itself the mark, i.e. during a nested merge) -/
theorem mergeFile_conflict_free_reports (day : Nat) (mine : List Nat) (others : List (List Nat)) (truth : List Nat)
    (hlen : ∀ c ∈ mine :: others, c.length = truth.length)
    (htruth : ∀ t ∈ truth, isMark t = false)
    (hall : ∀ c ∈ mine :: others, ∀ i (hi : i < truth.length), isMark (c.getD i 0) = true ∨ c.getD i 0 = truth[i])
    (lines : List Nat) (n : Nat) (hm : mergeFile day mine others = some (lines, n)) :
    n = (if isMark day then 0 else 1) *
      ((List.range truth.length).filter fun i => !knownAt (mine :: others) truth i).length := by
  have hml : mine.length = truth.length := hlen mine List.mem_cons_self
  unfold mergeFile at hm
  split at hm
  · simp at hm
  · simp only [Option.some.injEq, Prod.mk.injEq] at hm
    obtain ⟨_, hn⟩ := hm
    rw [← hn, List.map_map]
    have key := sum_zipIdx (fun l i => (Mg.resolve day l (transpose others i)).2)
      (fun i => !knownAt (mine :: others) truth i) (if isMark day then 0 else 1) mine 0 (by
        intro j hj
        have hjt : j < truth.length := by omega
        simp only [Nat.zero_add]
        have hmine : mine[j] = mine.getD j 0 := by simp [List.getD, List.getElem?_eq_getElem hj]
        have htj : truth.getD j 0 = truth[j] := by simp [List.getD, List.getElem?_eq_getElem hjt]
        have hvals : ∀ v ∈ mine[j] :: transpose others j, ∃ c ∈ mine :: others, v = c.getD j 0 := by
          intro v hv
          rcases List.mem_cons.1 hv with rfl | hv
          · exact ⟨mine, List.mem_cons_self, hmine⟩
          · obtain ⟨o, ho, rfl⟩ := transpose_mem others j v hv
            exact ⟨o, List.mem_cons_of_mem _ ho, rfl⟩
        by_cases hk : knownAt (mine :: others) truth j = true
        · simp only [hk, Bool.not_true, Bool.false_eq_true, if_false]
          unfold knownAt at hk
          simp only [List.any_eq_true, beq_iff_eq] at hk
          obtain ⟨c, hc, hct⟩ := hk
          rw [htj] at hct
          have hone : truth[j] ∈ mine[j] :: transpose others j := by
            rcases List.mem_cons.1 hc with rfl | hc
            · rw [← hct, hmine]; exact List.mem_cons_self
            · apply List.mem_cons_of_mem
              unfold transpose
              exact List.mem_map.2 ⟨c, hc, hct⟩
          rw [resolve_known day mine[j] (transpose others j) truth[j] (htruth _ (List.getElem_mem hjt))
            (by
              intro v hv
              obtain ⟨c', hc', rfl⟩ := hvals v hv
              exact hall c' hc' j hjt) hone]
        · simp only [Bool.not_eq_true] at hk
          simp only [hk, Bool.not_false, if_true]
          rw [resolve_unknown day mine[j] (transpose others j) (by
            intro v hv
            obtain ⟨c', hc', rfl⟩ := hvals v hv
            rcases hall c' hc' j hjt with h | h
            · exact h
            · exfalso
              unfold knownAt at hk
              rw [List.any_eq_false] at hk
              have := hk c' hc'
              rw [htj, h] at this
              simp at this)])
    rw [hml] at key
    rw [List.range_eq_range']
    exact key

/-- the hypotheses are satisfiable and the conclusion is what the model computes: line 0 is known to the first copy (value 5),
line 1 to nobody (both copies carry the mark) and becomes a line of the merge commit (value 9, reported once) -/
example : mergeFile 9 [5, 16383] [[16383, 16383]] = some ([5, 9], 1) := by decide

end Bd
