import Bd.Script
import Fu.History
import Fu.History2
import Fu.Sampled
import Fu.Guards
/-! C01, linear histories of a whole repository (several files; insertions, deletions and modifications with arbitrary
    edit scripts — repeated lines included): the state of `BurndownAnalysis.Consume` (model `Bd`, one branch) refines a
    plain map from file names to line arrays, and the reported deltas keep a running histogram equal to the histogram
    of all tracked lines.

    * `applyUpds_spec` — a successful run of `Update` calls turns the tracked file into the spliced array and reports
      exactly the change of the histogram (validity of every call follows from its success, `update_rejects`).
    * `insertion_spec`, `deletion_spec`, `modification_spec` — the three kinds of change.
    * `Inv` and `step_inv` — the invariant over a whole history.

  Consequences at every commit of a linear history: no value has a negative count, and the total of all reports equals
  the number of tracked lines (`total_nonneg`, `total_lines`): non-negativity and the row sums of the property. -/
namespace Bd
open Fu

/-- events as (cur, prev, delta) triples -/
def evTriples (evs : List Route.Ev) : List (Nat × Nat × Int) := evs.map fun e => (e.cur, e.prev, e.delta)

theorem evTriples_toEvs (em : List (Nat × Nat × Int)) : evTriples (toEvs em) = em := by
  unfold evTriples toEvs
  induction em with
  | nil => rfl
  | cons e em ih => obtain ⟨c, p, d⟩ := e; simp [ih]

theorem evTriples_append (a b : List Route.Ev) : evTriples (a ++ b) = evTriples a ++ evTriples b := by
  simp [evTriples]

theorem splice_eq (t : Nat) (arr : List Nat) (p i d : Nat) : Bd.splice t arr (p, i, d) = Fu.splice arr t p i d := rfl

theorem splice_noop (t : Nat) (arr : List Nat) (p : Nat) : Bd.splice t arr (p, 0, 0) = arr := by
  simp [Bd.splice]

/-- a successful sequence of `Update` calls -/
theorem applyUpds_spec (t : Nat) (ht : t < END) (hmt : NoMark t) : ∀ (us : List Upd) (f : List Node)
    (evs : List Route.Ev) (f' : List Node) (evs' : List Route.Ev), Good f →
    applyUpds true t us f evs = .ok (f', evs') →
    Good f' ∧ flat f' = us.foldl (Bd.splice t) (flat f) ∧
    ∃ em, evs' = evs ++ toEvs em ∧ (∀ e ∈ em, e.1 = t) ∧
      ∀ v, (List.count v (flat f') : Int) = List.count v (flat f) + emSum em v := by
  intro us
  induction us with
  | nil =>
    intro f evs f' evs' hg h
    simp only [applyUpds, Except.ok.injEq, Prod.mk.injEq] at h
    obtain ⟨rfl, rfl⟩ := h
    exact ⟨hg, rfl, [], by simp [toEvs], by simp, by intro v; simp [emSum]⟩
  | cons u us ih =>
    intro f evs f' evs' hg h
    obtain ⟨p, i, d⟩ := u
    simp only [applyUpds] at h
    cases hu : update true f t p i d with
    | reject m => simp [hu] at h
    | ok r =>
      obtain ⟨f1, em1⟩ := r
      simp only [hu] at h
      by_cases hz : i = 0 ∧ d = 0
      · -- a call that inserts and deletes nothing returns at once
        have hup : update true f t p i d = .ok (f, []) := by unfold update; rw [if_pos hz]
        rw [hup] at hu
        simp only [Res.ok.injEq, Prod.mk.injEq] at hu
        obtain ⟨rfl, rfl⟩ := hu
        obtain ⟨h1, h2, em, h3, h4, h5⟩ := ih f _ f' evs' hg h
        refine ⟨h1, ?_, em, ?_, h4, h5⟩
        · simp only [List.foldl_cons]
          obtain ⟨rfl, rfl⟩ := hz
          rw [splice_noop]; exact h2
        · simpa [toEvs] using h3
      · -- validity of the call follows from its success
        have hr : p + d ≤ lastKey f := by
          apply Decidable.byContradiction
          intro hbad
          have := update_rejects f t p i d hg.1 hz (by omega)
          rw [hu] at this
          simp [Res.isReject] at this
        obtain ⟨f2, em2, hup2, hflat, hwf1, _⟩ := update_ok f t p i d hg.1 ht hr hz
        rw [hu] at hup2
        simp only [Res.ok.injEq, Prod.mk.injEq] at hup2
        obtain ⟨rfl, rfl⟩ := hup2
        have hd := update_deltas f t p i d hg.1 ht hmt (innerNoMark_of_flat f hg.1.sorted hg.2) hr hz f1 em1 hu
        have hcur := update_cur f t p i d f1 em1 hu
        have hg1 : Good f1 := ⟨hwf1, by rw [hflat]; exact splice_noMark _ _ _ _ _ hg.2 hmt⟩
        obtain ⟨h1, h2, em, h3, h4, h5⟩ := ih f1 _ f' evs' hg1 h
        refine ⟨h1, ?_, em1 ++ em, ?_, ?_, ?_⟩
        · simp only [List.foldl_cons]
          rw [splice_eq, ← hflat]; exact h2
        · rw [h3]; simp [toEvs, List.append_assoc]
        · intro e he
          rcases List.mem_append.1 he with he | he
          · exact hcur e he
          · exact h4 e he
        · intro v
          rw [h5 v, hd v, emSum_append]; omega

/-- the repository as a plain map: file name ↦ array of per-line values -/
abbrev World := List (Nat × List Nat)

def wGet (w : World) (name : Nat) : Option (List Nat) := (w.find? (·.1 = name)).map (·.2)
def wSet (w : World) (name : Nat) (a : List Nat) : World := (name, a) :: w.filter (·.1 ≠ name)
def wDrop (w : World) (name : Nat) : World := w.filter (·.1 ≠ name)

/-- lines with value `v` over all files -/
def wCount (w : World) (v : Nat) : Int := (w.map fun p => (List.count v p.2 : Int)).sum

/-- the state refines the world: same files, each tracked file is well formed, free of merge marks and flattens to the
    array; the reports so far add up, per value, to the number of lines carrying it -/
structure Inv (s : BSt) (w : World) : Prop where
  names : s.files.map (·.1) = w.map (·.1)
  files : ∀ name f, (name, f) ∈ s.files → Good f ∧ (name, flat f) ∈ w
  nodup : (w.map (·.1)).Nodup
  hist : ∀ v, emSum (evTriples s.evs) v = wCount w v

theorem wCount_cons (name : Nat) (a : List Nat) (w : World) (v : Nat) :
    wCount ((name, a) :: w) v = List.count v a + wCount w v := by
  simp [wCount]

theorem wCount_filter_absent (w : World) (name : Nat) (v : Nat) (h : ∀ p ∈ w, p.1 ≠ name) :
    wCount (w.filter (·.1 ≠ name)) v = wCount w v := by
  rw [List.filter_eq_self.2 (by intro p hp; simpa using h p hp)]

theorem wCount_filter_present (w : World) (name : Nat) (a : List Nat) (v : Nat) (hnd : (w.map (·.1)).Nodup)
    (hm : (name, a) ∈ w) : wCount (w.filter (·.1 ≠ name)) v + List.count v a = wCount w v := by
  induction w with
  | nil => simp at hm
  | cons p w ih =>
    simp only [List.map_cons, List.nodup_cons] at hnd
    obtain ⟨pn, pa⟩ := p
    rcases List.mem_cons.1 hm with heq | hm'
    · simp only [Prod.mk.injEq] at heq
      obtain ⟨rfl, rfl⟩ := heq
      have habs : ∀ q ∈ w, q.1 ≠ name := by
        intro q hq he
        apply hnd.1
        rw [← he]
        exact List.mem_map.2 ⟨q, hq, rfl⟩
      simp only [List.filter_cons, ne_eq, not_true_eq_false, decide_false, Bool.false_eq_true, if_false]
      rw [wCount_filter_absent w name v habs, wCount_cons]; omega
    · have hne : pn ≠ name := by
        intro he
        apply hnd.1
        rw [he]
        exact List.mem_map.2 ⟨(name, a), hm', rfl⟩
      simp only [List.filter_cons, ne_eq, hne, not_false_eq_true, decide_true, if_true]
      rw [wCount_cons, wCount_cons]
      have := ih hnd.2 hm'
      simp only [ne_eq] at this
      omega

end Bd

namespace Bd
open Fu

theorem map_fst_filter {β : Type} (l : List (Nat × β)) (n : Nat) :
    (l.filter (·.1 ≠ n)).map (·.1) = (l.map (·.1)).filter (· ≠ n) := by
  rw [List.filter_map]
  rfl

theorem getFile_mem (s : BSt) (name : Nat) (f : List Node) (h : getFile s name = some f) : (name, f) ∈ s.files := by
  unfold getFile at h
  cases hf : s.files.find? (·.1 = name) with
  | none => simp [hf] at h
  | some p =>
    simp only [hf, Option.map_some, Option.some.injEq] at h
    have hm := List.mem_of_find?_eq_some hf
    have hk : p.1 = name := by simpa using List.find?_some hf
    obtain ⟨pn, pf⟩ := p
    simp only at hk h
    subst hk; subst h
    exact hm

theorem getFile_none_absent (s : BSt) (name : Nat) (h : getFile s name = none) : ∀ p ∈ s.files, p.1 ≠ name := by
  unfold getFile at h
  cases hf : s.files.find? (·.1 = name) with
  | some p => simp [hf] at h
  | none =>
    rw [List.find?_eq_none] at hf
    intro p hp
    simpa using hf p hp

theorem emSum_evs_append (evs : List Route.Ev) (em : List (Nat × Nat × Int)) (v : Nat) :
    emSum (evTriples (evs ++ toEvs em)) v = emSum (evTriples evs) v + emSum em v := by
  rw [evTriples_append, evTriples_toEvs, emSum_append]

theorem count_replicate_int (v t n : Nat) : (List.count v (List.replicate n t) : Int) = if t = v then (n : Int) else 0 := by
  rw [List.count_replicate]
  by_cases h : t = v
  · simp [h]
  · have : ¬ (t == v) = true := by simpa using h
    simp [h, this]

/-- the state after replacing / adding the tracked file `name` -/
theorem inv_set (s : BSt) (w : World) (name : Nat) (f' : List Node) (evs' : List Route.Ev) (a' : List Nat)
    (h : Inv s w) (hg : Good f') (hfl : flat f' = a')
    (hh : ∀ v, emSum (evTriples evs') v = wCount (wSet w name a') v) :
    Inv { (setFile s name f') with evs := evs' } (wSet w name a') := by
  refine ⟨?_, ?_, ?_, hh⟩
  · simp only [setFile, wSet, List.map_cons, map_fst_filter, h.names]
  · intro n f hm
    simp only [setFile, List.mem_cons, Prod.mk.injEq, List.mem_filter] at hm
    rcases hm with ⟨rfl, rfl⟩ | ⟨hm, hne⟩
    · exact ⟨hg, by simp [wSet, hfl]⟩
    · obtain ⟨h1, h2⟩ := h.files n f hm
      refine ⟨h1, ?_⟩
      simp only [wSet, List.mem_cons, Prod.mk.injEq, List.mem_filter]
      right
      exact ⟨h2, by simpa using hne⟩
  · simp only [wSet, List.map_cons, map_fst_filter, List.nodup_cons, List.mem_filter]
    exact ⟨by simp, h.nodup.filter _⟩

/-- **C01 (file added)**: a new file of `lines` lines stamped with the commit's value -/
theorem insertion_spec (s s' : BSt) (w : World) (name lines : Nat) (h : Inv s w)
    (ht : s.time < END) (hmt : NoMark s.time) (hr : insertion true s name lines = .ok s') :
    Inv s' (wSet w name (List.replicate lines s.time)) := by
  unfold insertion at hr
  cases hf : getFile s name with
  | some f => simp [hf] at hr
  | none =>
    simp only [hf, Except.ok.injEq] at hr
    subst hr
    obtain ⟨hwf, hflat⟩ := newFile_wf s.time lines
    have habsent : ∀ p ∈ w, p.1 ≠ name := by
      intro p hp he
      have : name ∈ w.map (·.1) := by rw [← he]; exact List.mem_map.2 ⟨p, hp, rfl⟩
      rw [← h.names] at this
      obtain ⟨q, hq, hqn⟩ := List.mem_map.1 this
      exact getFile_none_absent s name hf q hq hqn
    apply inv_set s w name _ _ _ h ⟨hwf, by rw [hflat]; intro x hx; rw [(List.mem_replicate.1 hx).2]; exact hmt⟩ hflat
    intro v
    have : evTriples (s.evs ++ [⟨s.time, s.time, (lines : Int)⟩]) = evTriples s.evs ++ [(s.time, s.time, (lines : Int))] := by
      simp [evTriples]
    rw [this, emSum_append, h.hist v]
    simp only [wSet, wCount_cons, wCount_filter_absent w name v habsent, count_replicate_int]
    simp only [emSum, List.foldl_cons, List.foldl_nil]
    split <;> omega

/-- **C01 (file modified)**: the tracked array becomes the array the edit script denotes, inserted lines stamped with
    the commit's value; the script must not consume more old lines than the file has (the line-count contract C11) -/
theorem modification_spec (s s' : BSt) (w : World) (name oldL newL : Nat) (script : List (EK × Nat)) (f : List Node)
    (h : Inv s w) (ht : s.time < END) (hmt : NoMark s.time) (hf : getFile s name = some f)
    (hcons : consumed script ≤ (flat f).length)
    (hr : modification true s name oldL newL script = .ok s') :
    Inv s' (wSet w name (expected s.time script (flat f))) := by
  unfold modification at hr
  simp only [hf] at hr
  split at hr
  · simp at hr
  · cases htr : translate script 0 (.eq, 0) [] with
    | error e => simp [htr] at hr
    | ok us =>
      simp only [htr] at hr
      cases hap : applyUpds true s.time us f s.evs with
      | error e => simp [hap] at hr
      | ok r =>
        obtain ⟨f', evs'⟩ := r
        simp only [hap] at hr
        split at hr
        · simp at hr
        · simp only [Except.ok.injEq] at hr
          subst hr
          obtain ⟨hg, _⟩ := h.files name f (getFile_mem s name f hf)
          obtain ⟨hg', hfl, em, hevs, _, hcnt⟩ := applyUpds_spec s.time ht hmt us f s.evs f' evs' hg hap
          have hreal := translate_realises s.time script (flat f) us htr hcons
          apply inv_set s w name f' evs' _ h hg' (by rw [hfl, hreal])
          intro v
          rw [hevs, emSum_evs_append, h.hist v]
          have hmem : (name, flat f) ∈ w := (h.files name f (getFile_mem s name f hf)).2
          have := wCount_filter_present w name (flat f) v h.nodup hmem
          simp only [wSet, wCount_cons]
          have hc := hcnt v
          rw [hfl, hreal] at hc
          omega

end Bd

namespace Bd
open Fu

theorem inv_drop (s : BSt) (w : World) (name : Nat) (evs' : List Route.Ev) (h : Inv s w)
    (hh : ∀ v, emSum (evTriples evs') v = wCount (wDrop w name) v) :
    Inv { (dropFile s name) with evs := evs' } (wDrop w name) := by
  refine ⟨?_, ?_, ?_, hh⟩
  · simp only [dropFile, wDrop, map_fst_filter, h.names]
  · intro n f hm
    simp only [dropFile, List.mem_filter] at hm
    obtain ⟨h1, h2⟩ := h.files n f hm.1
    refine ⟨h1, ?_⟩
    simp only [wDrop, List.mem_filter]
    exact ⟨h2, by simpa using hm.2⟩
  · simp only [wDrop, map_fst_filter]
    exact h.nodup.filter _

/-- **C01 (file deleted)**: all lines of the file are reported as removed; `lines` is the line count of the old blob,
    which equals the tracked length (the line-count contract C11) -/
theorem deletion_spec (s s' : BSt) (w : World) (name lines : Nat) (f : List Node)
    (h : Inv s w) (ht : s.time < END) (hmt : NoMark s.time) (hf : getFile s name = some f)
    (hl : lines = (flat f).length) (hr : deletion true s name lines = .ok s') :
    Inv s' (wDrop w name) := by
  unfold deletion at hr
  simp only [hf] at hr
  cases hap : applyUpds true s.time [(0, 0, lines)] f s.evs with
  | error e => simp [hap] at hr
  | ok r =>
    obtain ⟨f', evs'⟩ := r
    simp only [hap, Except.ok.injEq] at hr
    subst hr
    obtain ⟨hg, hmem⟩ := h.files name f (getFile_mem s name f hf)
    obtain ⟨_, hfl, em, hevs, _, hcnt⟩ := applyUpds_spec s.time ht hmt _ f s.evs f' evs' hg hap
    apply inv_drop s w name evs' h
    intro v
    rw [hevs, emSum_evs_append, h.hist v]
    have hempty : flat f' = [] := by
      rw [hfl]; simp [Bd.splice, hl]
    have hc := hcnt v
    rw [hempty] at hc
    have := wCount_filter_present w name (flat f) v h.nodup hmem
    simp only [wDrop]
    simp only [List.count_nil, Int.natCast_zero] at hc
    omega

/-- a change of a commit, as `Consume` sees it -/
inductive Change where
  | add (name lines : Nat)
  | rm (name lines : Nat)
  | mod (name oldL newL : Nat) (script : List (EK × Nat))
  | ren (src name oldL newL : Nat) (script : List (EK × Nat))

def applyChange (s : BSt) : Change → Except String BSt
  | .add n l => insertion true s n l
  | .rm n l => deletion true s n l
  | .mod n o nl sc => modification true s n o nl sc
  | .ren src n o nl sc => renamed true s src n o nl sc

/-- the same change on the plain map (`t` = value of the commit) -/
def specChange (t : Nat) (w : World) : Change → World
  | .add n l => wSet w n (List.replicate l t)
  | .rm n _ => wDrop w n
  | .mod n _ nl sc =>
    match wGet w n with
    | some a => wSet w n (expected t sc a)
    | none => wSet w n (List.replicate nl t)
  | .ren src n _ nl sc =>
    match wGet w src with
    | some a => wSet (wDrop w src) n (expected t sc a)
    | none => wSet w n (List.replicate nl t)

/-- what the property assumes of a change: declared line counts agree with the tracked file (C11) -/
def changeOK (w : World) : Change → Prop
  | .add _ _ => True
  | .rm n l => ∀ a, wGet w n = some a → l = a.length
  | .mod n _ _ sc => ∀ a, wGet w n = some a → consumed sc ≤ a.length
  -- a rename goes to a name that is not tracked (git cannot report anything else), and is a real rename
  | .ren src n _ _ sc => src ≠ n ∧ ∀ a, wGet w src = some a → consumed sc ≤ a.length ∧ wGet w n = none

theorem wGet_of_mem (w : World) (name : Nat) (a : List Nat) (hnd : (w.map (·.1)).Nodup) (hm : (name, a) ∈ w) :
    wGet w name = some a := by
  unfold wGet
  induction w with
  | nil => simp at hm
  | cons p w ih =>
    simp only [List.map_cons, List.nodup_cons] at hnd
    obtain ⟨pn, pa⟩ := p
    rcases List.mem_cons.1 hm with heq | hm'
    · simp only [Prod.mk.injEq] at heq
      obtain ⟨rfl, rfl⟩ := heq
      simp [List.find?_cons]
    · have hne : ¬ pn = name := by
        intro he; apply hnd.1; rw [he]; exact List.mem_map.2 ⟨(name, a), hm', rfl⟩
      simp only [List.find?_cons, hne, decide_false]
      exact ih hnd.2 hm'

theorem wGet_none_of_absent (s : BSt) (w : World) (name : Nat) (h : Inv s w) (hf : getFile s name = none) :
    wGet w name = none := by
  unfold wGet
  have : w.find? (fun p => decide (p.1 = name)) = none := by
    rw [List.find?_eq_none]
    intro p hp
    have : p.1 ∈ w.map (·.1) := List.mem_map.2 ⟨p, hp, rfl⟩
    rw [← h.names] at this
    obtain ⟨q, hq, hqn⟩ := List.mem_map.1 this
    have := getFile_none_absent s name hf q hq
    simp only [decide_eq_true_eq]
    intro he; exact this (hqn.trans he)
  simp [this]

theorem insertion_time (s s' : BSt) (n l : Nat) (hr : insertion true s n l = .ok s') : s'.time = s.time := by
  unfold insertion at hr
  split at hr
  · simp at hr
  · simp only [Except.ok.injEq] at hr; subst hr; rfl

theorem deletion_time (s s' : BSt) (n l : Nat) (hr : deletion true s n l = .ok s') : s'.time = s.time := by
  unfold deletion at hr
  repeat' (split at hr)
  all_goals first | (simp at hr; done) | (simp only [Except.ok.injEq] at hr; subst hr; rfl)

theorem modification_time (s s' : BSt) (n o nl : Nat) (sc : List (EK × Nat))
    (hr : modification true s n o nl sc = .ok s') : s'.time = s.time := by
  unfold modification at hr
  split at hr
  · exact insertion_time s s' n nl hr
  · repeat' (split at hr)
    all_goals first | (simp at hr; done) | (simp only [Except.ok.injEq] at hr; subst hr; rfl)

theorem wGet_none_absent (w : World) (name : Nat) (h : wGet w name = none) : ∀ p ∈ w, p.1 ≠ name := by
  intro p hp he
  unfold wGet at h
  cases hfd : w.find? (fun p => decide (p.1 = name)) with
  | none => rw [List.find?_eq_none] at hfd; exact absurd he (by simpa using hfd p hp)
  | some q => simp [hfd] at h

theorem getFile_setFile_same (s : BSt) (name : Nat) (f : List Node) : getFile (setFile s name f) name = some f := by
  simp [getFile, setFile, List.find?_cons]

theorem wGet_wSet_same (w : World) (name : Nat) (a : List Nat) : wGet (wSet w name a) name = some a := by
  simp [wGet, wSet, List.find?_cons]

theorem wSet_wSet (w : World) (name : Nat) (a b : List Nat) : wSet (wSet w name a) name b = wSet w name b := by
  simp only [wSet, List.filter_cons, ne_eq, not_true_eq_false, decide_false, Bool.false_eq_true, if_false, List.filter_filter,
    Bool.and_self]

/-- **C01 (file renamed)**: moving a tracked file to a name that is not tracked keeps the refinement - same lines, no report -/
theorem rename_inv (s : BSt) (w : World) (src name : Nat) (f : List Node) (h : Inv s w) (hf : getFile s src = some f)
    (hne : src ≠ name) (hfree : wGet w name = none) :
    Inv (renameFile s src name f) (wSet (wDrop w src) name (flat f)) := by
  have hmem := getFile_mem s src f hf
  obtain ⟨hgood, hw⟩ := h.files src f hmem
  have habs := wGet_none_absent w name hfree
  refine ⟨?_, ?_, ?_, ?_⟩
  · simp only [renameFile, setFile, dropFile, wSet, wDrop, List.map_cons, map_fst_filter, h.names]
  · intro n g hm
    simp only [renameFile, setFile, dropFile, List.mem_cons, Prod.mk.injEq, List.mem_filter] at hm
    rcases hm with ⟨rfl, rfl⟩ | ⟨⟨hm, hn1⟩, hn2⟩
    · exact ⟨hgood, by simp [wSet]⟩
    · obtain ⟨h1, h2⟩ := h.files n g hm
      refine ⟨h1, ?_⟩
      simp only [wSet, wDrop, List.mem_cons, Prod.mk.injEq, List.mem_filter]
      right
      exact ⟨⟨h2, by simpa using hn1⟩, by simpa using hn2⟩
  · simp only [wSet, wDrop, List.map_cons, map_fst_filter, List.nodup_cons, List.mem_filter]
    exact ⟨by simp, (h.nodup.filter _).filter _⟩
  · intro v
    show emSum (evTriples s.evs) v = _
    rw [h.hist v]
    have habs' : ∀ p ∈ wDrop w src, p.1 ≠ name := fun p hp => habs p (List.mem_filter.1 hp).1
    simp only [wSet, wCount_cons]
    rw [wCount_filter_absent (wDrop w src) name v habs']
    have := wCount_filter_present w src (flat f) v h.nodup hw
    simp only [wDrop]
    omega

/-- **C01 (one change)**: whatever the change, a successful `Consume` step keeps the refinement -/
theorem change_inv (s s' : BSt) (w : World) (c : Change) (h : Inv s w) (ht : s.time < END) (hmt : NoMark s.time)
    (hok : changeOK w c) (hr : applyChange s c = .ok s') : Inv s' (specChange s.time w c) ∧ s'.time = s.time := by
  cases c with
  | add n l =>
    simp only [applyChange] at hr
    exact ⟨insertion_spec s s' w n l h ht hmt hr, insertion_time s s' n l hr⟩
  | rm n l =>
    simp only [applyChange] at hr
    refine ⟨?_, deletion_time s s' n l hr⟩
    cases hf : getFile s n with
    | none =>
      have hs : s' = s := by unfold deletion at hr; simp [hf] at hr; exact hr.symm
      subst hs
      have hw := wGet_none_of_absent s' w n h hf
      simp only [specChange, wDrop]
      have habs : ∀ p ∈ w, p.1 ≠ n := by
        intro p hp he
        unfold wGet at hw
        cases hfd : w.find? (fun p => decide (p.1 = n)) with
        | none => rw [List.find?_eq_none] at hfd; exact absurd he (by simpa using hfd p hp)
        | some q => simp [hfd] at hw
      rw [List.filter_eq_self.2 (by intro p hp; simpa using habs p hp)]
      exact h
    | some f =>
      have hmem := (h.files n f (getFile_mem s n f hf)).2
      have hl := hok (flat f) (wGet_of_mem w n (flat f) h.nodup hmem)
      exact deletion_spec s s' w n l f h ht hmt hf hl hr
  | mod n o nl sc =>
    simp only [applyChange] at hr
    refine ⟨?_, modification_time s s' n o nl sc hr⟩
    cases hf : getFile s n with
    | none =>
      have hw := wGet_none_of_absent s w n h hf
      have hr' : insertion true s n nl = .ok s' := by unfold modification at hr; simpa [hf] using hr
      simp only [specChange, hw]
      exact insertion_spec s s' w n nl h ht hmt hr'
    | some f =>
      have hmem := (h.files n f (getFile_mem s n f hf)).2
      have hw := wGet_of_mem w n (flat f) h.nodup hmem
      have hc := hok (flat f) hw
      simp only [specChange, hw]
      exact modification_spec s s' w n o nl sc f h ht hmt hf hc hr
  | ren src n o nl sc =>
    simp only [applyChange] at hr
    obtain ⟨hne, hok⟩ := hok
    cases hf : getFile s src with
    | none =>
      have hw := wGet_none_of_absent s w src h hf
      have hr' : insertion true s n nl = .ok s' := by unfold renamed at hr; simpa [hf] using hr
      simp only [specChange, hw]
      exact ⟨insertion_spec s s' w n nl h ht hmt hr', insertion_time s s' n nl hr'⟩
    | some f =>
      have hmem := (h.files src f (getFile_mem s src f hf)).2
      have hw := wGet_of_mem w src (flat f) h.nodup hmem
      obtain ⟨hc, hfree⟩ := hok (flat f) hw
      have hr' : modification true (renameFile s src n f) n o nl sc = .ok s' := by
        unfold renamed at hr; simpa [hf] using hr
      have hi := rename_inv s w src n f h hf hne hfree
      have ht' : (renameFile s src n f).time = s.time := rfl
      have hm := modification_spec (renameFile s src n f) s' _ n o nl sc f hi (ht' ▸ ht) (ht' ▸ hmt)
        (getFile_setFile_same _ n f) hc hr'
      rw [wSet_wSet, ht'] at hm
      simp only [specChange, hw]
      exact ⟨hm, (modification_time _ s' n o nl sc hr').trans ht'⟩

end Bd

namespace Bd
open Fu

/-- one commit of a linear history: the value its lines are stamped with (tick, or tick packed with the author) and
    its changes -/
structure Commit where
  time : Nat
  changes : List Change

def runChanges (s : BSt) (cs : List Change) : Except String BSt := cs.foldlM applyChange s

def changesOK (t : Nat) : World → List Change → Prop
  | _, [] => True
  | w, c :: cs => changeOK w c ∧ changesOK t (specChange t w c) cs

theorem changes_inv (cs : List Change) : ∀ (s s' : BSt) (w : World), Inv s w → s.time < END → NoMark s.time →
    changesOK s.time w cs → runChanges s cs = .ok s' →
    Inv s' (cs.foldl (specChange s.time) w) ∧ s'.time = s.time := by
  induction cs with
  | nil =>
    intro s s' w h _ _ _ hr
    simp only [runChanges, List.foldlM_nil, pure, Except.pure, Except.ok.injEq] at hr
    subst hr; exact ⟨h, rfl⟩
  | cons c cs ih =>
    intro s s' w h ht hmt hok hr
    simp only [runChanges, List.foldlM_cons, bind, Except.bind] at hr
    split at hr
    · simp at hr
    · rename_i s1 hs1
      obtain ⟨h1, ht1⟩ := change_inv s s1 w c h ht hmt hok.1 hs1
      have := ih s1 s' _ h1 (by rw [ht1]; exact ht) (by rw [ht1]; exact hmt) (by rw [ht1]; exact hok.2) hr
      rw [ht1] at this
      exact ⟨this.1, this.2⟩

def runHistory (s : BSt) : List Commit → Except String BSt
  | [] => .ok s
  | c :: cs =>
    match runChanges { s with time := c.time } c.changes with
    | .error e => .error e
    | .ok s1 => runHistory s1 cs

def specHistory (w : World) : List Commit → World
  | [] => w
  | c :: cs => specHistory (c.changes.foldl (specChange c.time) w) cs

def historyOK : World → List Commit → Prop
  | _, [] => True
  | w, c :: cs => c.time < END ∧ NoMark c.time ∧ changesOK c.time w c.changes ∧
      historyOK (c.changes.foldl (specChange c.time) w) cs

/-- **C01 (linear history, whole repository)**: replaying any linear history whose declared line counts are consistent
    (C11) keeps every tracked file equal to the plain array of its per-line values and the reports equal, per value, to
    the number of lines carrying it -/
theorem history_inv (cs : List Commit) : ∀ (s s' : BSt) (w : World), Inv s w → historyOK w cs →
    runHistory s cs = .ok s' → Inv s' (specHistory w cs) := by
  induction cs with
  | nil => intro s s' w h _ hr; simp only [runHistory, Except.ok.injEq] at hr; subst hr; exact h
  | cons c cs ih =>
    intro s s' w h hok hr
    simp only [runHistory] at hr
    split at hr
    · simp at hr
    · rename_i s1 hs1
      obtain ⟨ht, hmt, hch, hrest⟩ := hok
      have h0 : Inv { s with time := c.time } w := ⟨h.names, h.files, h.nodup, h.hist⟩
      obtain ⟨h1, _⟩ := changes_inv c.changes _ s1 w h0 ht hmt hch hs1
      exact ih s1 s' _ h1 hrest hr

theorem inv_init (pn : Nat) : Inv ⟨pn, 0, [], []⟩ [] :=
  ⟨rfl, by intro n f h; simp at h, by simp, by intro v; simp [evTriples, emSum, wCount]⟩

theorem wCount_nonneg (w : World) (v : Nat) : 0 ≤ wCount w v := by
  induction w with
  | nil => simp [wCount]
  | cons p w ih =>
    obtain ⟨n, a⟩ := p
    rw [wCount_cons]
    have : (0 : Int) ≤ (List.count v a : Int) := Int.natCast_nonneg _
    omega

/-- **C01 (non-negativity)**: at every point of such a history, for every value (tick, or tick and author), the reports
    so far sum to a non-negative number — the number of lines currently carrying that value -/
theorem hist_nonneg (s : BSt) (w : World) (h : Inv s w) (v : Nat) : 0 ≤ emSum (evTriples s.evs) v := by
  rw [h.hist v]
  exact wCount_nonneg w v

end Bd

namespace Bd
open Fu

/-- duplicate-free list of the elements of a list -/
def nub : List Nat → List Nat
  | [] => []
  | x :: xs => x :: (nub xs).filter (· ≠ x)

theorem mem_nub (l : List Nat) (y : Nat) : y ∈ nub l ↔ y ∈ l := by
  induction l with
  | nil => simp [nub]
  | cons x xs ih =>
    simp only [nub, List.mem_cons, List.mem_filter, ih, ne_eq, decide_eq_true_eq]
    constructor
    · rintro (h | ⟨h, _⟩)
      · exact .inl h
      · exact .inr h
    · rintro (h | h)
      · exact .inl h
      · by_cases hy : y = x
        · exact .inl hy
        · exact .inr ⟨h, hy⟩

theorem nodup_nub (l : List Nat) : (nub l).Nodup := by
  induction l with
  | nil => simp [nub]
  | cons x xs ih =>
    simp only [nub, List.nodup_cons, List.mem_filter, ne_eq, not_true_eq_false, decide_false, Bool.false_eq_true,
      and_false, not_false_eq_true, true_and]
    exact ih.filter _

theorem sum_zero (S : List Nat) : (S.map fun _ => (0 : Int)).sum = 0 := by
  induction S with
  | nil => rfl
  | cons y S ih => simp [ih]

/-- over a duplicate-free list that contains `x`, the indicator of `x` sums to one -/
theorem sum_indicator (S : List Nat) (x : Nat) (c : Int) (hnd : S.Nodup) (hx : x ∈ S) :
    (S.map fun v => if x = v then c else 0).sum = c := by
  induction S with
  | nil => simp at hx
  | cons y S ih =>
    simp only [List.nodup_cons] at hnd
    simp only [List.map_cons, List.sum_cons]
    rcases List.mem_cons.1 hx with rfl | hx'
    · have : (S.map fun v => if x = v then c else 0).sum = 0 := by
        have hz : ∀ v ∈ S, (if x = v then c else 0) = 0 := by
          intro v hv; have : ¬ x = v := fun e => hnd.1 (e ▸ hv); simp [this]
        rw [List.map_congr_left hz]; exact sum_zero S
      simp [this]
    · have : ¬ x = y := fun e => hnd.1 (e ▸ hx')
      simp [this, ih hnd.2 hx']

theorem sum_map_add (S : List Nat) (f g : Nat → Int) :
    (S.map fun v => f v + g v).sum = (S.map f).sum + (S.map g).sum := by
  induction S with
  | nil => simp
  | cons y S ih => simp only [List.map_cons, List.sum_cons, ih]; omega

/-- summing the per-value counts over a duplicate-free list of all values gives the length -/
theorem sum_counts (S : List Nat) (l : List Nat) (hnd : S.Nodup) (hs : ∀ x ∈ l, x ∈ S) :
    (S.map fun v => (List.count v l : Int)).sum = l.length := by
  induction l with
  | nil => simpa using sum_zero S
  | cons x l ih =>
    have h1 : ∀ v, (List.count v (x :: l) : Int) = List.count v l + (if x = v then 1 else 0) := by
      intro v
      rw [List.count_cons]
      by_cases h : x = v
      · simp [h]
      · have : ¬ (x == v) = true := by simpa using h
        simp [h, this]
    rw [List.map_congr_left (fun v _ => h1 v), sum_map_add, ih (fun y hy => hs y (by simp [hy])),
      sum_indicator S x 1 hnd (hs x (by simp))]
    simp

def evTotal (em : List (Nat × Nat × Int)) : Int := (em.map (·.2.2)).sum

theorem emSum_cons (e : Nat × Nat × Int) (em : List (Nat × Nat × Int)) (v : Nat) :
    emSum (e :: em) v = (if e.2.1 = v then e.2.2 else 0) + emSum em v := by
  have := emSum_append [e] em v
  simp only [List.singleton_append] at this
  rw [this]
  simp [emSum]

/-- summing the per-value report sums over a duplicate-free list of all previous values gives the total of all reports -/
theorem sum_emSum (S : List Nat) (em : List (Nat × Nat × Int)) (hnd : S.Nodup) (hs : ∀ e ∈ em, e.2.1 ∈ S) :
    (S.map fun v => emSum em v).sum = evTotal em := by
  induction em with
  | nil =>
    have : ∀ v ∈ S, emSum [] v = 0 := by intro v _; simp [emSum]
    rw [List.map_congr_left this]; simpa [evTotal] using sum_zero S
  | cons e em ih =>
    rw [List.map_congr_left (fun v _ => emSum_cons e em v), sum_map_add, ih (fun y hy => hs y (by simp [hy])),
      sum_indicator S e.2.1 e.2.2 hnd (hs e (by simp))]
    simp [evTotal]

def wLines (w : World) : Int := (w.map fun p => (p.2.length : Int)).sum

theorem sum_wCount (S : List Nat) (w : World) (hnd : S.Nodup) (hs : ∀ p ∈ w, ∀ x ∈ p.2, x ∈ S) :
    (S.map fun v => wCount w v).sum = wLines w := by
  induction w with
  | nil =>
    have : ∀ v ∈ S, wCount [] v = 0 := by intro v _; simp [wCount]
    rw [List.map_congr_left this]; simpa [wLines] using sum_zero S
  | cons p w ih =>
    obtain ⟨n, a⟩ := p
    rw [List.map_congr_left (fun v _ => wCount_cons n a w v), sum_map_add,
      ih (fun q hq => hs q (by simp [hq])), sum_counts S a hnd (hs (n, a) (by simp))]
    simp [wLines]

/-- **C01 (row sums)**: at every point of a linear history with consistent line counts the total of all reports equals the
    number of lines of all tracked files — the last row of the burndown matrix sums to the text lines at HEAD -/
theorem total_lines (s : BSt) (w : World) (h : Inv s w) : evTotal (evTriples s.evs) = wLines w := by
  let S := nub ((evTriples s.evs).map (·.2.1) ++ w.flatMap (·.2))
  have hnd : S.Nodup := nodup_nub _
  have h1 := sum_emSum S (evTriples s.evs) hnd (by
    intro e he
    exact (mem_nub _ _).2 (List.mem_append_left _ (List.mem_map.2 ⟨e, he, rfl⟩)))
  have h2 := sum_wCount S w hnd (by
    intro p hp x hx
    exact (mem_nub _ _).2 (List.mem_append_right _ (List.mem_flatMap.2 ⟨p, hp, hx⟩)))
  rw [← h1, ← h2]
  exact congrArg List.sum (List.map_congr_left (fun v _ => h.hist v))

end Bd

namespace Bd
open Fu

/-- the reports added between two states all carry the current value `t` -/
def Tagged (s s' : BSt) (t : Nat) : Prop :=
  ∃ em, evTriples s'.evs = evTriples s.evs ++ em ∧ ∀ e ∈ em, e.1 = t

theorem tagged_refl (s : BSt) (t : Nat) : Tagged s s t := ⟨[], by simp, by simp⟩

theorem tagged_trans {s1 s2 s3 : BSt} {t : Nat} (h1 : Tagged s1 s2 t) (h2 : Tagged s2 s3 t) : Tagged s1 s3 t := by
  obtain ⟨e1, he1, ht1⟩ := h1
  obtain ⟨e2, he2, ht2⟩ := h2
  refine ⟨e1 ++ e2, by rw [he2, he1, List.append_assoc], ?_⟩
  intro e he
  rcases List.mem_append.1 he with he | he
  · exact ht1 e he
  · exact ht2 e he

theorem insertion_tagged (s s' : BSt) (n l : Nat) (hr : insertion true s n l = .ok s') : Tagged s s' s.time := by
  unfold insertion at hr
  split at hr
  · simp at hr
  · simp only [Except.ok.injEq] at hr
    subst hr
    exact ⟨[(s.time, s.time, (l : Int))], by simp [evTriples], by simp⟩

theorem applyUpds_tagged (t : Nat) (ht : t < END) (hmt : NoMark t) (us : List Upd) (f : List Node)
    (evs : List Route.Ev) (f' : List Node) (evs' : List Route.Ev) (hg : Good f)
    (h : applyUpds true t us f evs = .ok (f', evs')) :
    ∃ em, evTriples evs' = evTriples evs ++ em ∧ ∀ e ∈ em, e.1 = t := by
  obtain ⟨_, _, em, hevs, hcur, _⟩ := applyUpds_spec t ht hmt us f evs f' evs' hg h
  exact ⟨em, by rw [hevs, evTriples_append, evTriples_toEvs], hcur⟩

theorem modification_tagged (s s' : BSt) (n o nl : Nat) (sc : List (EK × Nat))
    (hgood : ∀ f, getFile s n = some f → Good f) (ht : s.time < END) (hmt : NoMark s.time)
    (hr : modification true s n o nl sc = .ok s') : Tagged s s' s.time := by
  unfold modification at hr
  cases hf : getFile s n with
  | none => simp only [hf] at hr; exact insertion_tagged s s' n nl hr
  | some f =>
    simp only [hf] at hr
    split at hr
    · simp at hr
    · cases htr : translate sc 0 (.eq, 0) [] with
      | error e => simp [htr] at hr
      | ok us =>
        simp only [htr] at hr
        cases hap : applyUpds true s.time us f s.evs with
        | error e => simp [hap] at hr
        | ok r =>
          obtain ⟨f', evs'⟩ := r
          simp only [hap] at hr
          split at hr
          · simp at hr
          · simp only [Except.ok.injEq] at hr
            subst hr
            exact applyUpds_tagged s.time ht hmt us f s.evs f' evs' (hgood f hf) hap

theorem change_tagged (s s' : BSt) (w : World) (c : Change) (h : Inv s w) (ht : s.time < END) (hmt : NoMark s.time)
    (hr : applyChange s c = .ok s') : Tagged s s' s.time := by
  cases c with
  | add n l => exact insertion_tagged s s' n l hr
  | rm n l =>
    simp only [applyChange] at hr
    unfold deletion at hr
    cases hf : getFile s n with
    | none => simp only [hf, Except.ok.injEq] at hr; subst hr; exact tagged_refl _ _
    | some f =>
      simp only [hf] at hr
      cases hap : applyUpds true s.time [(0, 0, l)] f s.evs with
      | error e => simp [hap] at hr
      | ok r =>
        obtain ⟨f', evs'⟩ := r
        simp only [hap, Except.ok.injEq] at hr
        subst hr
        exact applyUpds_tagged s.time ht hmt _ f s.evs f' evs' (h.files n f (getFile_mem s n f hf)).1 hap
  | mod n o nl sc =>
    simp only [applyChange] at hr
    exact modification_tagged s s' n o nl sc (fun f hf => (h.files n f (getFile_mem s n f hf)).1) ht hmt hr
  | ren src n o nl sc =>
    simp only [applyChange] at hr
    unfold renamed at hr
    cases hf : getFile s src with
    | none => simp only [hf] at hr; exact insertion_tagged s s' n nl hr
    | some f =>
      simp only [hf] at hr
      have hg : Good f := (h.files src f (getFile_mem s src f hf)).1
      have := modification_tagged (renameFile s src n f) s' n o nl sc (by
        intro f' hf'
        rw [renameFile, getFile_setFile_same] at hf'
        simp only [Option.some.injEq] at hf'
        exact hf' ▸ hg) ht hmt hr
      exact this

theorem changes_tagged (cs : List Change) : ∀ (s s' : BSt) (w : World), Inv s w → s.time < END → NoMark s.time →
    changesOK s.time w cs → runChanges s cs = .ok s' → Tagged s s' s.time := by
  induction cs with
  | nil =>
    intro s s' w _ _ _ _ hr
    simp only [runChanges, List.foldlM_nil, pure, Except.pure, Except.ok.injEq] at hr
    subst hr; exact tagged_refl _ _
  | cons c cs ih =>
    intro s s' w h ht hmt hok hr
    simp only [runChanges, List.foldlM_cons, bind, Except.bind] at hr
    split at hr
    · simp at hr
    · rename_i s1 hs1
      obtain ⟨h1, ht1⟩ := change_inv s s1 w c h ht hmt hok.1 hs1
      have t1 := change_tagged s s1 w c h ht hmt hs1
      have t2 := ih s1 s' _ h1 (by rw [ht1]; exact ht) (by rw [ht1]; exact hmt) (by rw [ht1]; exact hok.2) hr
      rw [ht1] at t2
      exact tagged_trans t1 t2

/-- **C01 (sample rows, whole repository, linear history)**: if the values of successive commits never decrease (ticks of a
    linear history; `time` is the plain tick when people are not tracked), then for every sample point `T` and every
    birth value `v` the reports with current value ≤ `T` add up to the number of lines carrying `v` in the repository as
    it stands after the last commit with value ≤ `T`.  Hence each cell of each sample row counts exactly the lines alive
    at that sample. -/
theorem sampled_rows (cs : List Commit) : ∀ (s s' : BSt) (w : World), Inv s w → historyOK w cs →
    cs.Pairwise (fun a b => a.time ≤ b.time) → runHistory s cs = .ok s' →
    ∀ (T v : Nat), (∀ e ∈ evTriples s.evs, e.1 ≤ T) → (∀ c ∈ cs, ∀ e ∈ evTriples s.evs, e.1 ≤ c.time) →
      emSumUpTo T (evTriples s'.evs) v = wCount (specHistory w (cs.takeWhile fun c => c.time ≤ T)) v := by
  induction cs with
  | nil =>
    intro s s' w h _ _ hr T v hall _
    simp only [runHistory, Except.ok.injEq] at hr
    subst hr
    simp only [List.takeWhile_nil, specHistory]
    rw [emSumUpTo_all T _ v hall, h.hist v]
  | cons c cs ih =>
    intro s s' w h hok hsorted hr T v hall hle
    simp only [runHistory] at hr
    split at hr
    · simp at hr
    · rename_i s1 hs1
      obtain ⟨ht, hmt, hch, hrest⟩ := hok
      have h0 : Inv { s with time := c.time } w := ⟨h.names, h.files, h.nodup, h.hist⟩
      obtain ⟨h1, _⟩ := changes_inv c.changes _ s1 w h0 ht hmt hch hs1
      obtain ⟨em, hem, hcur⟩ := changes_tagged c.changes _ s1 w h0 ht hmt hch hs1
      simp only at hem hcur
      have hs' := (List.pairwise_cons.1 hsorted)
      by_cases hT : c.time ≤ T
      · -- this commit is included in the sample
        simp only [List.takeWhile_cons, hT, decide_true, if_true, specHistory]
        apply ih s1 s' _ h1 hrest hs'.2 hr T v
        · intro e he
          rw [hem] at he
          rcases List.mem_append.1 he with he | he
          · exact hall e he
          · rw [hcur e he]; exact hT
        · intro c' hc' e he
          rw [hem] at he
          rcases List.mem_append.1 he with he | he
          · exact hle c' (by simp [hc']) e he
          · rw [hcur e he]; exact hs'.1 c' hc'
      · -- every later commit has a larger value: none of their reports is counted
        have hT' : T < c.time := by omega
        simp only [List.takeWhile_cons, hT, decide_false, Bool.false_eq_true, if_false, specHistory]
        -- reports after state s all carry values > T
        have hlater : ∀ (cs' : List Commit) (s2 s3 : BSt) (w2 : World), Inv s2 w2 → historyOK w2 cs' →
            (∀ c' ∈ cs', T < c'.time) → runHistory s2 cs' = .ok s3 →
            ∃ em', evTriples s3.evs = evTriples s2.evs ++ em' ∧ ∀ e ∈ em', T < e.1 := by
          intro cs'
          induction cs' with
          | nil =>
            intro s2 s3 w2 _ _ _ hr2
            simp only [runHistory, Except.ok.injEq] at hr2
            subst hr2
            exact ⟨[], by simp, by simp⟩
          | cons c2 cs2 ih2 =>
            intro s2 s3 w2 hi2 hok2 hgt hr2
            simp only [runHistory] at hr2
            split at hr2
            · simp at hr2
            · rename_i s4 hs4
              obtain ⟨ht2, hmt2, hch2, hrest2⟩ := hok2
              have h02 : Inv { s2 with time := c2.time } w2 := ⟨hi2.names, hi2.files, hi2.nodup, hi2.hist⟩
              obtain ⟨h12, _⟩ := changes_inv c2.changes _ s4 w2 h02 ht2 hmt2 hch2 hs4
              obtain ⟨em2, hem2, hcur2⟩ := changes_tagged c2.changes _ s4 w2 h02 ht2 hmt2 hch2 hs4
              simp only at hem2 hcur2
              obtain ⟨em3, hem3, hgt3⟩ := ih2 s4 s3 _ h12 hrest2 (fun c' hc' => hgt c' (by simp [hc'])) hr2
              refine ⟨em2 ++ em3, by rw [hem3, hem2, List.append_assoc], ?_⟩
              intro e he
              rcases List.mem_append.1 he with he | he
              · rw [hcur2 e he]; exact hgt c2 (by simp)
              · exact hgt3 e he
        have hr0 : runHistory s (c :: cs) = .ok s' := by
          simp only [runHistory, hs1]; exact hr
        obtain ⟨em', hem', hgt'⟩ := hlater (c :: cs) s s' w h ⟨ht, hmt, hch, hrest⟩
          (by intro c' hc'; rcases List.mem_cons.1 hc' with rfl | hc'
              · exact hT'
              · have := hs'.1 c' hc'; omega) hr0
        rw [hem', emSumUpTo_append, emSumUpTo_all T _ v hall, emSumUpTo_none T em' v hgt', h.hist v]
        simp

end Bd
