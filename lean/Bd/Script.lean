import Bd.Basic
/-! The edit loop of handleModification realises the edit script on the line array. -/
namespace Bd

variable {α : Type}

/-- what `File.Update(t, p, i, d)` does to the flattened line array (C03: `update_refines_splice`) -/
def splice (v : α) (arr : List α) (u : Upd) : List α :=
  arr.take u.1 ++ List.replicate u.2.1 v ++ arr.drop (u.1 + u.2.2)

/-- the meaning of an edit script on the old lines -/
def expected (v : α) : List (EK × Nat) → List α → List α
  | [], old => old
  | (.eq, n) :: r, old => old.take n ++ expected v r (old.drop n)
  | (.del, n) :: r, old => expected v r (old.drop n)
  | (.ins, n) :: r, old => List.replicate n v ++ expected v r old

/-- old lines a script consumes -/
def consumed : List (EK × Nat) → Nat
  | [] => 0
  | (.ins, _) :: r => consumed r
  | (_, n) :: r => n + consumed r

theorem splice_at (v : α) (done rest : List α) (i d : Nat) :
    splice v (done ++ rest) (done.length, i, d) = done ++ List.replicate i v ++ rest.drop d := by
  simp [splice, List.take_append, List.drop_append]

theorem translate_acc (s : List (EK × Nat)) : ∀ (pos : Nat) (p : EK × Nat) (acc : List Upd),
    translate s pos p acc = (translate s pos p []).map (acc ++ ·) := by
  induction s with
  | nil =>
    intro pos p acc
    simp only [translate]
    split
    · split <;> simp [Except.map]
    · simp [Except.map]
  | cons e s ih =>
    intro pos p acc
    obtain ⟨k, n⟩ := e
    cases k with
    | eq =>
      simp only [translate]
      split
      · split
        · rw [ih _ _ (acc ++ _), ih _ _ ([] ++ _)]
          cases translate s _ _ [] <;> simp [Except.map]
        · rw [ih _ _ (acc ++ _), ih _ _ ([] ++ _)]
          cases translate s _ _ [] <;> simp [Except.map]
      · exact ih _ _ _
    | ins =>
      simp only [translate]
      split
      · split
        · simp [Except.map]
        · rw [ih _ _ (acc ++ _), ih _ _ ([] ++ _)]
          cases translate s _ _ [] <;> simp [Except.map]
      · exact ih _ _ _
    | del =>
      simp only [translate]
      split
      · simp [Except.map]
      · exact ih _ _ _

/-- pending effect on the part of the array to the right of the cursor -/
def pend (v : α) (p : EK × Nat) (s : List (EK × Nat)) (rest : List α) : List α :=
  if p.2 = 0 then expected v s rest
  else if p.1 = .ins then List.replicate p.2 v ++ expected v s rest
  else expected v s (rest.drop p.2)

def pendNeed (p : EK × Nat) : Nat := if p.2 > 0 ∧ p.1 ≠ .ins then p.2 else 0

theorem translate_spec (v : α) (s : List (EK × Nat)) :
    ∀ (done rest : List α) (p : EK × Nat) (us : List Upd),
    translate s done.length p [] = .ok us →
    pendNeed p + consumed s ≤ rest.length →
    us.foldl (splice v) (done ++ rest) = done ++ pend v p s rest := by
  induction s with
  | nil =>
    intro done rest p us h _
    simp only [translate] at h
    unfold pend
    split at h
    · rename_i hp
      have hp0 : ¬ p.2 = 0 := by omega
      split at h
      · rename_i hi
        simp at h; subst h
        simp only [List.nil_append, List.foldl_cons, List.foldl_nil, splice_at, hp0, if_false, hi, if_true, expected]
        simp
      · rename_i hi
        simp at h; subst h
        simp only [List.nil_append, List.foldl_cons, List.foldl_nil, splice_at, hp0, if_false, hi, expected]
        simp
    · rename_i hp
      have hp0 : p.2 = 0 := by omega
      simp at h; subst h
      simp [hp0, expected]
  | cons e s ih =>
    intro done rest p us h hlen
    obtain ⟨k, n⟩ := e
    cases k with
    | eq =>
      simp only [translate] at h
      simp only [consumed] at hlen
      split at h
      · rename_i hp
        have hp0 : ¬ p.2 = 0 := by omega
        split at h
        · -- pending insert, then an equal run
          rename_i hi
          rw [translate_acc] at h
          cases ht : translate s (done.length + p.2 + n) (.eq, 0) [] with
          | error e => simp [ht, Except.map] at h
          | ok us' =>
            simp [ht, Except.map] at h; subst h
            simp only [List.foldl_cons, splice_at, List.drop_zero]
            have hn : n ≤ rest.length := by omega
            have e1 : done ++ List.replicate p.2 v ++ rest =
                (done ++ List.replicate p.2 v ++ rest.take n) ++ rest.drop n := by
              simp [List.append_assoc]
            rw [e1]
            have hl : (done ++ List.replicate p.2 v ++ rest.take n).length = done.length + p.2 + n := by
              simp [List.length_take]; omega
            have := ih (done ++ List.replicate p.2 v ++ rest.take n) (rest.drop n) (.eq, 0) us' (by rw [hl]; exact ht)
              (by simp [pendNeed, List.length_drop]; simp [pendNeed] at hlen; omega)
            rw [this]
            simp [pend, hp0, hi, expected, List.append_assoc]
        · -- pending delete, then an equal run
          rename_i hi
          rw [translate_acc] at h
          cases ht : translate s (done.length + n) (.eq, 0) [] with
          | error e => simp [ht, Except.map] at h
          | ok us' =>
            simp [ht, Except.map] at h; subst h
            simp only [List.foldl_cons, splice_at, List.replicate_zero, List.append_nil]
            have hneed : pendNeed p = p.2 := by simp [pendNeed, hp, hi]
            have hn : n ≤ (rest.drop p.2).length := by simp [List.length_drop]; omega
            have e1 : done ++ rest.drop p.2 = (done ++ (rest.drop p.2).take n) ++ (rest.drop p.2).drop n := by
              rw [List.append_assoc, List.take_append_drop]
            rw [e1]
            have hl : (done ++ (rest.drop p.2).take n).length = done.length + n := by
              simp [List.length_take]; omega
            have := ih (done ++ (rest.drop p.2).take n) ((rest.drop p.2).drop n) (.eq, 0) us' (by rw [hl]; exact ht)
              (by simp [pendNeed, List.length_drop]; omega)
            rw [this]
            simp [pend, hp0, hi, expected, List.append_assoc]
      · -- nothing pending
        rename_i hp
        have hp0 : p.2 = 0 := by omega
        have hn : n ≤ rest.length := by omega
        have e1 : done ++ rest = (done ++ rest.take n) ++ rest.drop n := by simp [List.append_assoc]
        rw [e1]
        have hl : (done ++ rest.take n).length = done.length + n := by simp [List.length_take]; omega
        have := ih (done ++ rest.take n) (rest.drop n) p us (by rw [hl]; exact h)
          (by simp [pendNeed, hp0, List.length_drop]; omega)
        rw [this]
        simp [pend, hp0, expected, List.append_assoc]
    | ins =>
      simp only [translate] at h
      simp only [consumed] at hlen
      split at h
      · rename_i hp
        have hp0 : ¬ p.2 = 0 := by omega
        split at h
        · simp at h
        · -- pending delete followed by an insert: one replacing Update
          rename_i hi
          rw [translate_acc] at h
          cases ht : translate s (done.length + n) (.eq, 0) [] with
          | error e => simp [ht, Except.map] at h
          | ok us' =>
            simp [ht, Except.map] at h; subst h
            simp only [List.foldl_cons, splice_at]
            have hneed : pendNeed p = p.2 := by simp [pendNeed, hp, hi]
            have e1 : done ++ List.replicate n v ++ rest.drop p.2 = (done ++ List.replicate n v) ++ rest.drop p.2 := by simp
            rw [e1]
            have hl : (done ++ List.replicate n v).length = done.length + n := by simp
            have := ih (done ++ List.replicate n v) (rest.drop p.2) (.eq, 0) us' (by rw [hl]; exact ht)
              (by simp [pendNeed, List.length_drop]; omega)
            rw [this]
            simp [pend, hp0, hi, expected, List.append_assoc]
      · -- becomes the pending insert
        rename_i hp
        have hp0 : p.2 = 0 := by omega
        have := ih done rest (.ins, n) us h (by simp [pendNeed]; simp [pendNeed, hp0] at hlen; omega)
        rw [this]
        by_cases hn : n = 0
        · subst hn; simp [pend, hp0, expected]
        · simp [pend, hp0, hn, expected]
    | del =>
      simp only [translate] at h
      simp only [consumed] at hlen
      split at h
      · simp at h
      · rename_i hp
        have hp0 : p.2 = 0 := by omega
        have := ih done rest (.del, n) us h (by
          simp only [pendNeed]; simp [pendNeed, hp0] at hlen
          split <;> omega)
        rw [this]
        by_cases hn : n = 0
        · subst hn; simp [pend, hp0, expected]
        · simp [pend, hp0, hn, expected]

/-- **C01 / C11 glue**: when the edit loop accepts a script that consumes no more than the old lines, the
    `Update` calls it issues turn the old line array into the array the script describes, with every
    inserted line carrying the commit's value. -/
theorem translate_realises (v : α) (s : List (EK × Nat)) (old : List α) (us : List Upd)
    (h : translate s 0 (.eq, 0) [] = .ok us) (hlen : consumed s ≤ old.length) :
    us.foldl (splice v) old = expected v s old := by
  have := translate_spec v s [] old (.eq, 0) us (by simpa using h) (by simpa [pendNeed] using hlen)
  simpa [pend] using this

end Bd
