import Bd.MergeTruth
import Bd.Linear
import Bd.Valid
import Fu.MergeMode
/-! C01, the step that makes a merge conflict-free: the replay of a merge commit on one parent branch.

    In merge mode `BurndownAnalysis.Consume` stamps the lines it writes with the merge mark.  So when a branch holds the
    true array of its parent version of a file and the merge commit's diff against that parent is the script `s`, the copy
    after the replay holds, line by line, the parent's true value on the lines the script keeps and the mark on the lines
    the script inserts - and it reports nothing.  If the merged version's true array is "the parent's array on the kept
    lines, anything on the inserted ones" (`rebuild s parent ins` - what *clean union of its parents* means for one parent),
    the copy is conflict-free in the sense `mergeFile_conflict_free` and `mergeBranches_conflict_free` ask for. -/
namespace Bd
open Mg Fu

/-- line by line: the copy holds the stamp `v` or the true value -/
def MarkOr (v : Nat) : List Nat → List Nat → Prop
  | [], [] => True
  | a :: as, b :: bs => (a = v ∨ a = b) ∧ MarkOr v as bs
  | _, _ => False

theorem markOr_refl (v : Nat) : ∀ l, MarkOr v l l
  | [] => trivial
  | _ :: l => ⟨.inr rfl, markOr_refl v l⟩

theorem markOr_append (v : Nat) : ∀ (a b c d : List Nat), MarkOr v a b → MarkOr v c d → MarkOr v (a ++ c) (b ++ d)
  | [], [], _, _, _, h => h
  | _ :: as, _ :: bs, c, d, h1, h2 => ⟨h1.1, markOr_append v as bs c d h1.2 h2⟩
  | [], _ :: _, _, _, h, _ => h.elim
  | _ :: _, [], _, _, h, _ => h.elim

theorem markOr_replicate (v : Nat) : ∀ (n : Nat) (l : List Nat), l.length = n → MarkOr v (List.replicate n v) l
  | 0, [], _ => trivial
  | n + 1, _ :: l, h => ⟨.inl rfl, markOr_replicate v n l (by simpa using h)⟩
  | 0, _ :: _, h => by simp at h
  | _ + 1, [], h => by simp at h

theorem markOr_length (v : Nat) : ∀ (a b : List Nat), MarkOr v a b → a.length = b.length
  | [], [], _ => rfl
  | _ :: as, _ :: bs, h => by simp [markOr_length v as bs h.2]
  | [], _ :: _, h => h.elim
  | _ :: _, [], h => h.elim

theorem markOr_get (v : Nat) : ∀ (a b : List Nat), MarkOr v a b → ∀ i (hi : i < b.length), a.getD i 0 = v ∨ a.getD i 0 = b[i]
  | [], [], _, i, hi => by simp at hi
  | x :: as, y :: bs, h, i, hi => by
    cases i with
    | zero => simpa using h.1
    | succ i =>
      have := markOr_get v as bs h.2 i (by simpa using hi)
      simpa using this
  | [], _ :: _, h, _, _ => h.elim
  | _ :: _, [], h, _, _ => h.elim

/-- lines a script inserts -/
def insCount : List (EK × Nat) → Nat
  | [] => 0
  | (.ins, n) :: r => n + insCount r
  | (_, _) :: r => insCount r

/-- **what a script stamped with `v` leaves, against what the merged version truly is**: on a script that consumes exactly
    the old lines and with exactly as many inserted true values as the script inserts, the stamped array has the stamp or
    the true value at every line -/
theorem expected_markOr (v : Nat) (s : List (EK × Nat)) : ∀ (old ins : List Nat),
    consumed s = old.length → insCount s = ins.length →
    MarkOr v (expected v s old) (rebuild s old ins) := by
  induction s with
  | nil =>
    intro old ins hc _
    simp only [consumed] at hc
    have : old = [] := List.eq_nil_of_length_eq_zero hc.symm
    subst this
    simp [expected, rebuild, MarkOr]
  | cons e r ih =>
    intro old ins hc hi
    obtain ⟨k, n⟩ := e
    cases k with
    | eq =>
      simp only [consumed] at hc
      simp only [insCount] at hi
      simp only [expected, rebuild]
      exact markOr_append v _ _ _ _ (markOr_refl v _) (ih _ ins (by simp; omega) hi)
    | del =>
      simp only [consumed] at hc
      simp only [insCount] at hi
      simp only [expected, rebuild]
      exact ih _ ins (by simp; omega) hi
    | ins =>
      simp only [consumed] at hc
      simp only [insCount] at hi
      simp only [expected, rebuild]
      exact markOr_append v _ _ _ _ (markOr_replicate v n _ (by simp; omega)) (ih old _ hc (by simp; omega))

/-- a successful sequence of `Update` calls stamped with the merge mark: the array is spliced as always, nothing is
    reported -/
theorem applyUpds_mark_spec (t : Nat) (ht : t < END) (hm : t % (Fu.MARK + 1) = Fu.MARK) : ∀ (us : List Upd) (f : List Node)
    (evs : List Route.Ev) (f' : List Node) (evs' : List Route.Ev), WF2 f →
    applyUpds true t us f evs = .ok (f', evs') →
    WF2 f' ∧ flat f' = us.foldl (Bd.splice t) (flat f) ∧ evs' = evs := by
  intro us
  induction us with
  | nil =>
    intro f evs f' evs' hg h
    simp only [applyUpds, Except.ok.injEq, Prod.mk.injEq] at h
    obtain ⟨rfl, rfl⟩ := h
    exact ⟨hg, rfl, rfl⟩
  | cons u us ih =>
    intro f evs f' evs' hg h
    obtain ⟨p, i, d⟩ := u
    simp only [applyUpds] at h
    cases hu : update true f t p i d with
    | reject m => simp [hu] at h
    | ok r =>
      obtain ⟨f1, em1⟩ := r
      simp only [hu] at h
      have hsil : em1 = [] := update_mark_silent true f t p i d hm f1 em1 hu
      subst hsil
      by_cases hz : i = 0 ∧ d = 0
      · have hup : update true f t p i d = .ok (f, []) := by unfold update; rw [if_pos hz]
        rw [hup] at hu
        simp only [Res.ok.injEq, Prod.mk.injEq] at hu
        obtain ⟨rfl, _⟩ := hu
        obtain ⟨h1, h2, h3⟩ := ih f _ f' evs' hg h
        refine ⟨h1, ?_, ?_⟩
        · simp only [List.foldl_cons]
          obtain ⟨rfl, rfl⟩ := hz
          rw [splice_noop]; exact h2
        · simpa [toEvs] using h3
      · have hr : p + d ≤ lastKey f := by
          apply Decidable.byContradiction
          intro hbad
          have := update_rejects f t p i d hg hz (by omega)
          rw [hu] at this
          simp [Res.isReject] at this
        obtain ⟨f2, em2, hup2, hflat, hwf1, _⟩ := update_ok f t p i d hg ht hr hz
        rw [hu] at hup2
        simp only [Res.ok.injEq, Prod.mk.injEq] at hup2
        obtain ⟨rfl, _⟩ := hup2
        obtain ⟨h1, h2, h3⟩ := ih f1 _ f' evs' hwf1 h
        refine ⟨h1, ?_, ?_⟩
        · simp only [List.foldl_cons]
          rw [splice_eq, ← hflat]; exact h2
        · simpa [toEvs] using h3

theorem isMark_of_mod (t : Nat) (hm : t % (Fu.MARK + 1) = Fu.MARK) : isMark t = true := by
  unfold isMark tick
  simp only [Mg.MARK, Fu.MARK] at *
  simp [hm]

/-- **the replay of a merge commit on one parent branch** (the edit of one file in merge mode): the branch holds the
    parent's array `flat f`; the merge commit's diff against this parent is `script`; `ins` are the true values of the
    lines the script inserts (whatever they are - lines of the other parents, or of the merge commit itself).  Then the
    edit succeeds silently and leaves a copy that is conflict-free with respect to the merged version's true array
    `rebuild script (flat f) ins`: same length, and at every line the mark or the true value. -/
theorem replay_conflict_free (t : Nat) (ht : t < END) (hm : t % (Fu.MARK + 1) = Fu.MARK)
    (f : List Node) (hwf : WF2 f) (script : List (EK × Nat)) (us : List Upd)
    (htr : translate script 0 (.eq, 0) [] = .ok us)
    (ins : List Nat) (hc : consumed script = (flat f).length) (hi : insCount script = ins.length)
    (evs : List Route.Ev) (f' : List Node) (evs' : List Route.Ev) (h : applyUpds true t us f evs = .ok (f', evs')) :
    evs' = evs ∧ WF2 f' ∧ (flat f').length = (rebuild script (flat f) ins).length ∧
    ∀ i (hi : i < (rebuild script (flat f) ins).length),
      isMark ((flat f').getD i 0) = true ∨ (flat f').getD i 0 = (rebuild script (flat f) ins)[i] := by
  obtain ⟨h1, h2, h3⟩ := applyUpds_mark_spec t ht hm us f evs f' evs' hwf h
  have hreal := translate_realises t script (flat f) us htr (by omega)
  rw [hreal] at h2
  have hmo := expected_markOr t script (flat f) ins hc hi
  rw [← h2] at hmo
  refine ⟨h3, h1, markOr_length t _ _ hmo, ?_⟩
  intro i hi'
  rcases markOr_get t _ _ hmo i hi' with e | e
  · left; rw [e]; exact isMark_of_mod t hm
  · right; exact e

/-- where every line no copy knows is a line of the merge commit itself (true value = the merge value), the array a
    conflict-free merge installs *is* the true array -/
theorem mergedTruth_eq_truth (copies : List (List Nat)) (truth : List Nat) (day : Nat)
    (h : ∀ i (hi : i < truth.length), knownAt copies truth i = false → truth[i] = day) :
    mergedTruth copies truth day = truth := by
  apply List.ext_getElem?
  intro i
  unfold mergedTruth
  by_cases hi : i < truth.length
  · rw [List.getElem?_map, List.getElem?_range hi]
    simp only [Option.map_some]
    have hg : truth.getD i 0 = truth[i] := by simp [List.getD, List.getElem?_eq_getElem hi]
    cases hk : knownAt copies truth i with
    | true => simp [List.getElem?_eq_getElem hi]
    | false => simp [List.getElem?_eq_getElem hi, h i hi hk]
  · rw [List.getElem?_eq_none (by simp; omega), List.getElem?_eq_none (by omega)]

/-- non-vacuity: a two-line parent array [5, 6]; the merge commit keeps line 0, drops line 1 and inserts two lines.  With
    true values [8, 9] for the inserted lines the merged version is [5, 8, 9]; the replay stamped 16383 leaves
    [5, 16383, 16383] -/
example : expected 16383 [(.eq, 1), (.del, 1), (.ins, 2)] [5, 6] = [5, 16383, 16383] ∧
    rebuild [(.eq, 1), (.del, 1), (.ins, 2)] [5, 6] [8, 9] = [5, 8, 9] ∧
    consumed [(.eq, 1), (.del, 1), (.ins, 2)] = 2 ∧ insCount [(.eq, 1), (.del, 1), (.ins, 2)] = 2 := by decide

/-- the copy of one file on one parent branch after the replay of the merge commit in merge mode: some parent array `flat f`,
    some script of the merge commit against it that keeps the parent's values on the kept lines of `truth` -/
def Replayed (t : Nat) (truth c : List Nat) : Prop :=
  ∃ (f : List Node) (script : List (EK × Nat)) (us : List Upd) (ins : List Nat) (evs : List Route.Ev) (f' : List Node)
    (evs' : List Route.Ev),
    WF2 f ∧ translate script 0 (.eq, 0) [] = .ok us ∧ consumed script = (flat f).length ∧ insCount script = ins.length ∧
    applyUpds true t us f evs = .ok (f', evs') ∧ truth = rebuild script (flat f) ins ∧ c = flat f'

/-- a conflict-free `mergeFile` returns `mergedTruth` itself -/
theorem mergeFile_conflict_free_eq (day : Nat) (mine : List Nat) (others : List (List Nat)) (truth : List Nat)
    (hlen : ∀ c ∈ mine :: others, c.length = truth.length)
    (htruth : ∀ t ∈ truth, isMark t = false)
    (hall : ∀ c ∈ mine :: others, ∀ i (hi : i < truth.length), isMark (c.getD i 0) = true ∨ c.getD i 0 = truth[i]) :
    mergeFile day mine others = some (mergedTruth (mine :: others) truth day,
      (if isMark day then 0 else 1) * unknownCount (mine :: others) truth) := by
  obtain ⟨lines, n, hm, hll, hpt⟩ := mergeFile_conflict_free day mine others truth hlen htruth hall
  have hn := mergeFile_conflict_free_reports day mine others truth hlen htruth hall lines n hm
  have hlines : lines = mergedTruth (mine :: others) truth day := by
    apply List.ext_getElem?
    intro i
    by_cases hi : i < truth.length
    · have := hpt i hi
      rw [flat_rle] at this
      rw [this]
      unfold mergedTruth
      rw [List.getElem?_map, List.getElem?_range hi]
      simp only [Option.map_some]
      have hg : truth.getD i 0 = truth[i] := by simp [List.getD, List.getElem?_eq_getElem hi]
      by_cases hk : knownAt (mine :: others) truth i = true
      · rw [if_pos hk, if_pos ((knownAt_iff _ _ _ hi).1 hk), hg]
      · have hk' : ¬ ∃ c ∈ mine :: others, c.getD i 0 = truth[i] := fun h => hk ((knownAt_iff _ _ _ hi).2 h)
        rw [if_neg hk, if_neg hk']
    · have h1 : lines[i]? = none := List.getElem?_eq_none (by omega)
      have h2 : (mergedTruth (mine :: others) truth day)[i]? = none :=
        List.getElem?_eq_none (by unfold mergedTruth; simp; omega)
      rw [h1, h2]
  rw [hm, hlines, hn]
  rfl

/-- **C01, one file through one clean merge**: every branch copy is the merge-mode replay (stamp `t`, a mark) of the merge
    commit's script against that parent's true array, all scripts rebuilding the same true array `truth` of the merged
    version (each parent's values survive on the lines kept from it); `truth` carries no mark; the lines no parent knows
    are lines of the merge commit, born at the merge value `day`.  Then `File.Merge` installs exactly `truth` and reports
    exactly one line per line born in the merge commit (none while `day` is itself a mark, i.e. inside a nested merge). -/
theorem merge_step_truth (t day : Nat) (ht : t < END) (hm : t % (Fu.MARK + 1) = Fu.MARK)
    (mine : List Nat) (others : List (List Nat)) (truth : List Nat)
    (hrep : ∀ c ∈ mine :: others, Replayed t truth c)
    (htruth : ∀ x ∈ truth, isMark x = false)
    (hnew : ∀ i (hi : i < truth.length), knownAt (mine :: others) truth i = false → truth[i] = day) :
    mergeFile day mine others = some (truth, (if isMark day then 0 else 1) * unknownCount (mine :: others) truth) := by
  have hcf : ∀ c ∈ mine :: others, c.length = truth.length ∧
      ∀ i (hi : i < truth.length), isMark (c.getD i 0) = true ∨ c.getD i 0 = truth[i] := by
    intro c hc
    obtain ⟨f, script, us, ins, evs, f', evs', hwf, htr, hcons, hins, happ, rfl, rfl⟩ := hrep c hc
    obtain ⟨_, _, h3, h4⟩ := replay_conflict_free t ht hm f hwf script us htr ins hcons hins evs f' evs' happ
    exact ⟨h3, h4⟩
  rw [mergeFile_conflict_free_eq day mine others truth (fun c hc => (hcf c hc).1) htruth (fun c hc => (hcf c hc).2),
    mergedTruth_eq_truth _ _ _ hnew]

/-- the stamp of a merge-mode replay carries the mark, whatever author it packs -/
theorem pack_mark (pn author : Nat) : pack pn author MARK % (Fu.MARK + 1) = Fu.MARK := by
  unfold pack
  split
  · decide
  · have h1 : (Fu.MARK + 1) = 2 ^ 14 := by decide
    rw [h1, Nat.or_mod_two_pow, Nat.shiftLeft_eq, Nat.mul_mod_left]
    decide

/-- **the same step on the multi-branch model** (`doEdit`, the function `kdag` compares with `handleModification` of the real
    `BurndownAnalysis` in merge mode): the edit of a tracked file on branch `b` during the replay of a merge commit reports
    nothing and leaves on `b`, under the file's name, a copy that is conflict-free with respect to
    `rebuild script (flat f) ins` -/
theorem doEdit_merge_conflict_free (w w' : W) (b author name oldL newL : Nat) (script : List (EK × Nat)) (f : List Node)
    (ht : pack w.pn author MARK < END) (hwf : WF2 f)
    (ins : List Nat) (hc : consumed script = (flat f).length) (hi : insCount script = ins.length)
    (h : doEdit true w b author MARK name oldL newL script f = .ok w') :
    w'.evs = w.evs ∧ ∃ f', brFile (w'.br b) name = some f' ∧ WF2 f' ∧
      (flat f').length = (rebuild script (flat f) ins).length ∧
      ∀ i (hi : i < (rebuild script (flat f) ins).length),
        isMark ((flat f').getD i 0) = true ∨ (flat f').getD i 0 = (rebuild script (flat f) ins)[i] := by
  unfold doEdit at h
  split at h
  · cases h
  · split at h
    · cases h
    · rename_i us htr
      split at h
      · cases h
      · rename_i f' evs' happ
        split at h
        · cases h
        · simp only [Except.ok.injEq] at h
          subst h
          obtain ⟨h1, h2, h3, h4⟩ := replay_conflict_free (pack w.pn author MARK) ht (pack_mark w.pn author) f hwf script us htr
            ins hc hi w.evs f' evs' happ
          refine ⟨h1, f', ?_, h2, h3, h4⟩
          simp only [br_evs]
          rw [br_setBr_same]
          simp [brFile_brSet]

/-- a file that the merge commit has and this parent has not: the merge-mode insertion reports nothing and leaves a copy
    made of marks only - conflict-free with respect to whatever the true array of that length is -/
theorem doInsert_merge_conflict_free (w w' : W) (b author name lines : Nat)
    (h : doInsert true true w b author MARK name lines = .ok w') :
    w'.evs = w.evs ∧ ∃ f', brFile (w'.br b) name = some f' ∧ WF2 f' ∧ (flat f').length = lines ∧
      ∀ v ∈ flat f', isMark v = true := by
  unfold doInsert at h
  simp only at h
  split at h
  · cases h
  · simp only [Except.ok.injEq] at h
    subst h
    have hm := pack_mark w.pn author
    obtain ⟨hwf, hflat⟩ := newFile_wf (pack w.pn author MARK) lines
    refine ⟨?_, Fu.newFile (pack w.pn author MARK) lines, ?_, hwf, by rw [hflat]; simp, ?_⟩
    · simp only [markMf, if_true]
      show (w.evs ++ toEvs (Fu.emit _ _ _)) = w.evs
      rw [emit_mark _ _ _ hm]
      simp [toEvs]
    · simp only [markMf, if_true]
      show brFile ((w.setBr b (brSet (w.br b) name (Fu.newFile (pack w.pn author MARK) lines))).br b) name = _
      rw [br_setBr_same]
      simp [brFile_brSet]
    · intro v hv
      rw [hflat] at hv
      rw [(List.mem_replicate.1 hv).2]
      exact isMark_of_mod _ hm

end Bd
