import Bd.ConflictFree
import Bd.MergeSame
/-! C01 / C07, analysis level: `BurndownAnalysis.Merge` on a conflict-free merge installs the *true* line array in every
    participating branch, for every file the merge commit touched, and reports exactly the lines no branch knew.

    This lifts `mergeFile_conflict_free` (one file, line arrays) through `mergeKey` (one file name, all branches) and
    `mergeBranches` (all file names flagged by the replay of the merge commit on any branch). -/
namespace Bd
open Mg Fu

/-- the line arrays of the copies of file `key` held by the listed branches, in branch order -/
def copiesOf (w : W) (bs : List Nat) (key : Nat) : List (List Nat) :=
  (bs.filterMap fun b => brFile (w.br b) key).map Fu.flat

/-- conflict-free at file `key`: every copy has the length of the true array and holds, line by line, the true origin
    or the merge mark; the true array itself carries no mark -/
def ConflictFreeAt (w : W) (bs : List Nat) (key : Nat) (truth : List Nat) : Prop :=
  (∀ t ∈ truth, isMark t = false) ∧
  ∀ c ∈ copiesOf w bs key, c.length = truth.length ∧
    ∀ i (hi : i < truth.length), isMark (c.getD i 0) = true ∨ c.getD i 0 = truth[i]

/-- the array a conflict-free merge must install: the true origin where some copy knows it, the merge value elsewhere -/
def mergedTruth (copies : List (List Nat)) (truth : List Nat) (day : Nat) : List Nat :=
  (List.range truth.length).map fun i => if knownAt copies truth i then truth.getD i 0 else day

/-- number of lines of the true array no copy knows -/
def unknownCount (copies : List (List Nat)) (truth : List Nat) : Nat :=
  ((List.range truth.length).filter fun i => !knownAt copies truth i).length

/-- is `key` flagged as present by the replay of the merge commit on some branch? (`mergeKey`'s `val`) -/
def flagged (flags : List (Nat × Bool)) (key : Nat) : Bool := flags.any fun p => p.1 = key && p.2

/-- the file every participating branch must hold after the merge -/
def expectedFile (val : Bool) (copies : List (List Nat)) (truth : List Nat) (day : Nat) : Option (List Fu.Node) :=
  if val && !copies.isEmpty then some (rle (mergedTruth copies truth day)) else none

/-- the reports the merge of one file must add -/
def expectedReports (val : Bool) (copies : List (List Nat)) (truth : List Nat) (day : Nat) : List Route.Ev :=
  if val && !copies.isEmpty && !isMark day then List.replicate (unknownCount copies truth) ⟨day, day, 1⟩ else []

theorem copiesOf_congr (w w0 : W) (bs : List Nat) (key : Nat)
    (h : ∀ b, brFile (w.br b) key = brFile (w0.br b) key) : copiesOf w bs key = copiesOf w0 bs key := by
  unfold copiesOf
  have : (fun b => brFile (w.br b) key) = fun b => brFile (w0.br b) key := funext h
  rw [this]

theorem knownAt_iff (copies : List (List Nat)) (truth : List Nat) (i : Nat) (hi : i < truth.length) :
    knownAt copies truth i = true ↔ ∃ c ∈ copies, c.getD i 0 = truth[i] := by
  unfold knownAt
  have : truth.getD i 0 = truth[i] := by simp [List.getD, List.getElem?_eq_getElem hi]
  simp only [List.any_eq_true, beq_iff_eq, this]

/-- **one file name**: whatever the flag says and whoever holds the file, a conflict-free `mergeKey` succeeds, leaves the
    expected file in every listed branch, touches no other file name, and appends exactly the expected reports -/
theorem mergeKey_conflict_free (bs : List Nat) (flags : List (Nat × Bool)) (day : Nat) (w : W) (key : Nat)
    (truth : List Nat) (hcf : flagged flags key = true → ConflictFreeAt w bs key truth) :
    ∃ w', mergeKey bs flags day w key = .ok w' ∧
      (∀ b ∈ bs, brFile (w'.br b) key = expectedFile (flagged flags key) (copiesOf w bs key) truth day) ∧
      (∀ k, k ≠ key → ∀ b, brFile (w'.br b) k = brFile (w.br b) k) ∧
      w'.evs = w.evs ++ expectedReports (flagged flags key) (copiesOf w bs key) truth day := by
  unfold mergeKey
  simp only
  have hval : (flags.any fun p => p.1 = key && p.2) = flagged flags key := rfl
  rw [hval]
  cases hv : flagged flags key with
  | false =>
    simp only [Bool.not_false, if_true]
    refine ⟨_, rfl, ?_, ?_, ?_⟩
    · intro b hb
      have hf := foldl_setBr (fun x => brDrop x key) (brDrop_idem key) bs w
      rw [hf b]
      simp [hb, brFile_brDrop, expectedFile]
    · intro k hk b
      have hf := foldl_setBr (fun x => brDrop x key) (brDrop_idem key) bs w
      rw [hf b]
      by_cases hb : b ∈ bs
      · simp only [hb, if_true, brFile_brDrop]
        rw [if_neg (fun e : key = k => hk e.symm)]
      · simp [hb]
    · have : ∀ (bs : List Nat) (w : W),
          (bs.foldl (fun w b => w.setBr b (brDrop (w.br b) key)) w).evs = w.evs := by
        intro bs
        induction bs with
        | nil => intro w; rfl
        | cons b bs ih => intro w; simp only [List.foldl_cons]; rw [ih]; rfl
      rw [this]
      simp [expectedReports]
  | true =>
    simp only [Bool.not_true, Bool.false_eq_true, if_false]
    have hcf := hcf hv
    cases hfs : (bs.filterMap fun b => brFile (w.br b) key) with
    | nil =>
      have hc : copiesOf w bs key = [] := by unfold copiesOf; rw [hfs]; rfl
      refine ⟨_, rfl, ?_, fun _ _ _ => rfl, ?_⟩
      · intro b hb
        rw [hc]
        cases hcb : brFile (w.br b) key with
        | none => simp [expectedFile]
        | some f =>
          have : f ∈ bs.filterMap fun b => brFile (w.br b) key := List.mem_filterMap.2 ⟨b, hb, hcb⟩
          rw [hfs] at this; simp at this
      · rw [hc]; simp [expectedReports]
    | cons f0 others =>
      have hc : copiesOf w bs key = Fu.flat f0 :: others.map Fu.flat := by unfold copiesOf; rw [hfs]; rfl
      obtain ⟨htruth, hall⟩ := hcf
      rw [hc] at hall
      have hlen : ∀ c ∈ Fu.flat f0 :: others.map Fu.flat, c.length = truth.length := fun c hc => (hall c hc).1
      have hall' : ∀ c ∈ Fu.flat f0 :: others.map Fu.flat, ∀ i (hi : i < truth.length),
          isMark (c.getD i 0) = true ∨ c.getD i 0 = truth[i] := fun c hc => (hall c hc).2
      obtain ⟨lines, n, hm, hll, hpt⟩ :=
        mergeFile_conflict_free day (Fu.flat f0) (others.map Fu.flat) truth hlen htruth hall'
      have hn := mergeFile_conflict_free_reports day (Fu.flat f0) (others.map Fu.flat) truth hlen htruth hall' lines n hm
      have hlines : lines = mergedTruth (Fu.flat f0 :: others.map Fu.flat) truth day := by
        apply List.ext_getElem?
        intro i
        by_cases hi : i < truth.length
        · have := hpt i hi
          rw [flat_rle] at this
          rw [this]
          unfold mergedTruth
          rw [List.getElem?_map, List.getElem?_range hi]
          simp only [Option.map_some]
          have hg : truth.getD i 0 = truth[i] := by simp [List.getD, List.getElem?_eq_getElem hi]
          by_cases hk : knownAt (Fu.flat f0 :: others.map Fu.flat) truth i = true
          · rw [if_pos hk, if_pos ((knownAt_iff _ _ _ hi).1 hk), hg]
          · have hk' : ¬ ∃ c ∈ Fu.flat f0 :: others.map Fu.flat, c.getD i 0 = truth[i] :=
              fun h => hk ((knownAt_iff _ _ _ hi).2 h)
            rw [if_neg hk, if_neg hk']
        · have h1 : lines[i]? = none := List.getElem?_eq_none (by omega)
          have h2 : (mergedTruth (Fu.flat f0 :: others.map Fu.flat) truth day)[i]? = none :=
            List.getElem?_eq_none (by unfold mergedTruth; simp; omega)
          rw [h1, h2]
      simp only [hm]
      refine ⟨_, rfl, ?_, ?_, ?_⟩
      · intro b hb
        have hf := foldl_setBr (fun x => brSet x key (rle lines)) (brSet_idem key (rle lines)) bs w
        simp only [br_evs]
        rw [hf b, hc]
        unfold expectedFile
        rw [← hlines]
        simp [hb, brFile_brSet]
      · intro k hk b
        have hf := foldl_setBr (fun x => brSet x key (rle lines)) (brSet_idem key (rle lines)) bs w
        simp only [br_evs]
        rw [hf b]
        by_cases hb : b ∈ bs
        · simp only [hb, if_true, brFile_brSet]
          rw [if_neg (fun e : key = k => hk e.symm)]
        · simp [hb]
      · have hev : ∀ (bs : List Nat) (w : W),
            (bs.foldl (fun w b => w.setBr b (brSet (w.br b) key (rle lines))) w).evs = w.evs := by
          intro bs
          induction bs with
          | nil => intro w; rfl
          | cons b bs ih => intro w; simp only [List.foldl_cons]; rw [ih]; rfl
        simp only [hev]
        rw [hc]
        unfold expectedReports unknownCount
        cases hd : isMark day with
        | true => simp
        | false =>
          rw [hn, hd]
          simp

theorem conflictFreeAt_congr (w w0 : W) (bs : List Nat) (key : Nat) (truth : List Nat)
    (h : ∀ b, brFile (w.br b) key = brFile (w0.br b) key) :
    ConflictFreeAt w bs key truth ↔ ConflictFreeAt w0 bs key truth := by
  unfold ConflictFreeAt
  rw [copiesOf_congr w w0 bs key h]

/-- **all flagged file names, in order**: the fold of `mergeKey` over a strictly increasing key list -/
theorem foldKeys_conflict_free (bs : List Nat) (flags : List (Nat × Bool)) (day : Nat) (T : Nat → List Nat) (w0 : W)
    (keys : List Nat) (hk : keys.Pairwise (· < ·))
    (hcf : ∀ k ∈ keys, flagged flags k = true → ConflictFreeAt w0 bs k (T k)) :
    ∀ (w : W), (∀ k ∈ keys, ∀ b, brFile (w.br b) k = brFile (w0.br b) k) →
    ∃ w', keys.foldlM (mergeKey bs flags day) w = .ok w' ∧
      (∀ k ∈ keys, ∀ b ∈ bs, brFile (w'.br b) k = expectedFile (flagged flags k) (copiesOf w0 bs k) (T k) day) ∧
      (∀ k, k ∉ keys → ∀ b, brFile (w'.br b) k = brFile (w.br b) k) ∧
      w'.evs = w.evs ++ keys.flatMap fun k => expectedReports (flagged flags k) (copiesOf w0 bs k) (T k) day := by
  induction keys with
  | nil => intro w _; exact ⟨w, rfl, by simp, fun _ _ _ => rfl, by simp⟩
  | cons key keys ih =>
    intro w hsame
    have hp := List.pairwise_cons.1 hk
    have hnot : key ∉ keys := fun hm => Nat.lt_irrefl _ (hp.1 key hm)
    have hs0 : ∀ b, brFile (w.br b) key = brFile (w0.br b) key := hsame key List.mem_cons_self
    obtain ⟨w1, h1, a1, a2, a3⟩ := mergeKey_conflict_free bs flags day w key (T key)
      (fun hv => (conflictFreeAt_congr w w0 bs key (T key) hs0).2 (hcf key List.mem_cons_self hv))
    rw [copiesOf_congr w w0 bs key hs0] at a1 a3
    obtain ⟨w', h2, i1, i2, i3⟩ := ih hp.2 (fun k hkm => hcf k (List.mem_cons_of_mem _ hkm)) w1 (by
      intro k hkm b
      have hne : k ≠ key := fun e => hnot (e ▸ hkm)
      rw [a2 k hne b]
      exact hsame k (List.mem_cons_of_mem _ hkm) b)
    refine ⟨w', ?_, ?_, ?_, ?_⟩
    · simp only [List.foldlM_cons, h1, bind, Except.bind]
      exact h2
    · intro k hkm b hb
      rcases List.mem_cons.1 hkm with rfl | hkm
      · rw [i2 k hnot b]; exact a1 b hb
      · exact i1 k hkm b hb
    · intro k hkn b
      have h2' : k ∉ keys := fun hm => hkn (List.mem_cons_of_mem _ hm)
      have h3 : k ≠ key := fun e => hkn (e ▸ List.mem_cons_self)
      rw [i2 k h2' b, a2 k h3 b]
    · rw [i3, a3, List.flatMap_cons, List.append_assoc]

/-- the file names `BurndownAnalysis.Merge` visits: every name flagged on some branch, once, in increasing order -/
def mergeKeys (flags : List (Nat × Bool)) : List Nat := flags.foldl (fun ks p => insertSortedN p.1 ks) []

theorem mergeKeys_sorted (flags : List (Nat × Bool)) : (mergeKeys flags).Pairwise (· < ·) := by
  unfold mergeKeys
  suffices hs : ∀ (l : List (Nat × Bool)) (acc : List Nat), acc.Pairwise (· < ·) →
      (l.foldl (fun ks p => insertSortedN p.1 ks) acc).Pairwise (· < ·) from hs flags [] (by simp)
  intro l
  induction l with
  | nil => intro acc h; exact h
  | cons p l ih => intro acc h; exact ih _ (nodup_insertSortedN p.1 acc h)

theorem mem_mergeKeys (flags : List (Nat × Bool)) (k : Nat) : k ∈ mergeKeys flags ↔ ∃ v, (k, v) ∈ flags := by
  unfold mergeKeys
  suffices hs : ∀ (l : List (Nat × Bool)) (acc : List Nat),
      k ∈ l.foldl (fun ks p => insertSortedN p.1 ks) acc ↔ (∃ v, (k, v) ∈ l) ∨ k ∈ acc by
    rw [hs flags []]; simp
  intro l
  induction l with
  | nil => intro acc; simp
  | cons p l ih =>
    intro acc
    simp only [List.foldl_cons]
    rw [ih, mem_insertSortedN]
    constructor
    · rintro (⟨v, hv⟩ | rfl | h)
      · exact .inl ⟨v, List.mem_cons_of_mem _ hv⟩
      · exact .inl ⟨p.2, List.mem_cons_self⟩
      · exact .inr h
    · rintro (⟨v, hv⟩ | h)
      · rcases List.mem_cons.1 hv with e | hv
        · exact .inr (.inl (by rw [← e]))
        · exact .inl ⟨v, hv⟩
      · exact .inr (.inr h)

/-- the flags the replays of the merge commit left on the listed branches -/
def mergeFlags (w : W) (bs : List Nat) : List (Nat × Bool) := bs.flatMap fun b => w.mf (w.br b).mref

/-- the value `BurndownAnalysis.Merge` stamps on the lines no branch knows: merge author and tick of the first branch -/
def mergeDay (w : W) (b0 : Nat) : Nat := pack w.pn (w.br b0).mergedAuthor (w.br b0).tick

/-- **C01 / C07, the whole `BurndownAnalysis.Merge`**: if, for every file name flagged as present, the branch copies are
    conflict-free with respect to a true array `T k`, the merge succeeds; afterwards every participating branch holds, for
    every flagged name, exactly the run-length encoding of the true array (true origin where some branch knew the line,
    merge author and tick where none did; no file where the name is flagged as absent or nobody holds it); every other
    file name is untouched on every branch; and the reports appended are, name by name in increasing order, one per
    line that no branch knew. -/
theorem mergeBranches_conflict_free (w : W) (b0 : Nat) (rest : List Nat) (T : Nat → List Nat)
    (hcf : ∀ k, flagged (mergeFlags w (b0 :: rest)) k = true → ConflictFreeAt w (b0 :: rest) k (T k)) :
    ∃ w', mergeBranches w (b0 :: rest) = .ok w' ∧
      (∀ k, (∃ v, (k, v) ∈ mergeFlags w (b0 :: rest)) → ∀ b ∈ b0 :: rest,
        brFile (w'.br b) k =
          expectedFile (flagged (mergeFlags w (b0 :: rest)) k) (copiesOf w (b0 :: rest) k) (T k) (mergeDay w b0)) ∧
      (∀ k, (¬ ∃ v, (k, v) ∈ mergeFlags w (b0 :: rest)) → ∀ b, brFile (w'.br b) k = brFile (w.br b) k) ∧
      w'.evs = w.evs ++ (mergeKeys (mergeFlags w (b0 :: rest))).flatMap fun k =>
        expectedReports (flagged (mergeFlags w (b0 :: rest)) k) (copiesOf w (b0 :: rest) k) (T k) (mergeDay w b0) := by
  obtain ⟨w1, hf, c1, c2, c3⟩ := foldKeys_conflict_free (b0 :: rest) (mergeFlags w (b0 :: rest)) (mergeDay w b0) T w
    (mergeKeys (mergeFlags w (b0 :: rest))) (mergeKeys_sorted _) (fun k _ hv => hcf k hv) w (fun _ _ _ => rfl)
  have e : ∀ b k, brFile ((w1.setBr b0 { (w1.br b0) with mergedAuthor := Route.authorMissing }).br b) k =
      brFile (w1.br b) k := by
    intro b k
    by_cases hb : b = b0
    · subst hb; rw [br_setBr_same]; rfl
    · rw [br_setBr_other _ _ _ _ hb]
  refine ⟨w1.setBr b0 { (w1.br b0) with mergedAuthor := Route.authorMissing }, ?_, ?_, ?_, ?_⟩
  · unfold mergeBranches
    simp only
    unfold mergeFlags mergeKeys mergeDay at hf
    rw [hf]
  · intro k hk b hb
    rw [e]
    exact c1 k ((mem_mergeKeys _ k).2 hk) b hb
  · intro k hk b
    rw [e]
    exact c2 k (fun h => hk ((mem_mergeKeys _ k).1 h)) b
  · exact c3

/-- a clean union of the parents with nothing new: every line is known to some branch, so the merged file is the true
    array itself and the merge reports nothing for it -/
theorem mergedTruth_all_known (copies : List (List Nat)) (truth : List Nat) (day : Nat)
    (h : ∀ i, i < truth.length → knownAt copies truth i = true) :
    mergedTruth copies truth day = truth ∧ unknownCount copies truth = 0 := by
  refine ⟨?_, ?_⟩
  · apply List.ext_getElem?
    intro i
    unfold mergedTruth
    by_cases hi : i < truth.length
    · rw [List.getElem?_map, List.getElem?_range hi]
      simp [h i hi, List.getD, List.getElem?_eq_getElem hi]
    · rw [List.getElem?_eq_none (by simp; omega), List.getElem?_eq_none (by omega)]
  · unfold unknownCount
    rw [List.length_eq_zero_iff, List.filter_eq_nil_iff]
    intro i hi
    simp [h i (List.mem_range.1 hi)]

/-- after a conflict-free merge whose merge value is a real tick, the merged array carries no mark: the state is again one
    the linear-history theorems (`history_inv`, `sampled_rows`) start from -/
theorem mergedTruth_noMark (copies : List (List Nat)) (truth : List Nat) (day : Nat)
    (htruth : ∀ t ∈ truth, isMark t = false) (hday : isMark day = false) :
    ∀ v ∈ mergedTruth copies truth day, isMark v = false := by
  intro v hv
  unfold mergedTruth at hv
  obtain ⟨i, hi, rfl⟩ := List.mem_map.1 hv
  have hi' := List.mem_range.1 hi
  split
  · have : truth.getD i 0 = truth[i] := by simp [List.getD, List.getElem?_eq_getElem hi']
    rw [this]; exact htruth _ (List.getElem_mem hi')
  · exact hday

/-- the hypotheses are satisfiable on a concrete two-branch world and the model computes what the theorem says: branch 1
    knows line 0 (value 5) and got line 1 from the merge commit (mark); branch 2 got both from it; merged = [5, day] -/
example :
    let w : W := ⟨0, [(1, ⟨[(7, rle [5, MARK])], 3, 0, 10⟩), (2, ⟨[(7, rle [MARK, MARK])], 3, 0, 11⟩)],
      [(10, [(7, true)]), (11, [(7, true)])], 12, [], []⟩
    (match mergeBranches w [1, 2] with
     | .ok w' => (brFile (w'.br 1) 7).map Fu.flat == some (mergedTruth (copiesOf w [1, 2] 7) [5, 9] (mergeDay w 1)) &&
                 (brFile (w'.br 2) 7).map Fu.flat == some (mergedTruth (copiesOf w [1, 2] 7) [5, 9] (mergeDay w 1)) &&
                 w'.evs.length == unknownCount (copiesOf w [1, 2] 7) [5, 9]
     | .error _ => false) = true := by decide

end Bd
