import Bd.Script
namespace Bd

/-- C11's canonical form: between two equal runs at most one deletion followed by at most one insertion;
    `p` = the kind of the last non-equal edit since the last equal run -/
def canon : Option EK → List (EK × Nat) → Bool
  | _, [] => true
  | _, (.eq, _) :: r => canon none r
  | none, (.del, _) :: r => canon (some .del) r
  | none, (.ins, _) :: r => canon (some .ins) r
  | some .del, (.ins, _) :: r => canon (some .ins) r
  | some _, _ :: _ => false

/-- how the loop's `pending` edit represents `p` -/
def Rep (p : Option EK) (pending : EK × Nat) : Prop :=
  match p with
  | none => pending.2 = 0
  | some .del => pending.1 = .del ∧ pending.2 > 0
  | some .ins => pending.2 = 0 ∨ (pending.1 = .ins ∧ pending.2 > 0)   -- after del+ins nothing is pending
  | some .eq => False

/-- **C11 → C01**: the edit loop of the burndown analysis never rejects a canonical script -/
theorem translate_ok_of_canon (s : List (EK × Nat)) (hpos : ∀ e ∈ s, e.2 > 0) :
    ∀ (p : Option EK) (pos : Nat) (pending : EK × Nat) (acc : List Upd),
    canon p s = true → Rep p pending → ∃ us, translate s pos pending acc = .ok us := by
  induction s with
  | nil =>
    intro p pos pending acc _ _
    simp only [translate]
    split
    · split <;> exact ⟨_, rfl⟩
    · exact ⟨_, rfl⟩
  | cons e s ih =>
    intro p pos pending acc hc hr
    obtain ⟨k, n⟩ := e
    have hn : n > 0 := hpos (k, n) (by simp)
    have hs : ∀ e ∈ s, e.2 > 0 := fun e he => hpos e (by simp [he])
    cases k with
    | eq =>
      have hc' : canon none s = true := by cases p <;> simpa [canon] using hc
      simp only [translate]
      split
      · split
        · exact ih hs none _ _ _ hc' (by simp [Rep])
        · exact ih hs none _ _ _ hc' (by simp [Rep])
      · rename_i hz
        exact ih hs none _ _ _ hc' (by simp [Rep]; omega)
    | ins =>
      simp only [translate]
      cases p with
      | none =>
        have hc' : canon (some .ins) s = true := by simpa [canon] using hc
        have hz : ¬ pending.2 > 0 := by simp [Rep] at hr; omega
        simp only [hz, if_false]
        exact ih hs (some .ins) _ _ _ hc' (by simp [Rep, hn])
      | some q =>
        cases q with
        | eq => simp [Rep] at hr
        | ins => simp [canon] at hc
        | del =>
          have hc' : canon (some .ins) s = true := by simpa [canon] using hc
          obtain ⟨h1, h2⟩ := hr
          simp only [h2, if_true, h1]
          simp only [show ¬ (EK.del = EK.ins) by decide, if_false]
          exact ih hs (some .ins) _ _ _ hc' (by simp [Rep])
    | del =>
      simp only [translate]
      cases p with
      | none =>
        have hc' : canon (some .del) s = true := by simpa [canon] using hc
        have hz : ¬ pending.2 > 0 := by simp [Rep] at hr; omega
        simp only [hz, if_false]
        exact ih hs (some .del) _ _ _ hc' (by simp [Rep, hn])
      | some q => cases q <;> simp [canon] at hc

end Bd
