import Bd.Dag
namespace Bd

theorem find_filter_ne {β : Type} (l : List (Nat × β)) (k k' : Nat) (e : ¬ k = k') :
    (l.filter (fun x => decide (x.1 ≠ k))).find? (fun x => decide (x.1 = k')) = l.find? (fun x => decide (x.1 = k')) := by
  induction l with
  | nil => rfl
  | cons a l ih =>
    by_cases h1 : a.1 = k
    · have hd : decide (a.1 ≠ k) = false := by simp [h1]
      have h2 : decide (a.1 = k') = false := by
        simp only [decide_eq_false_iff_not]; intro h3; exact e (h1 ▸ h3)
      rw [List.filter_cons, hd]
      simp only [Bool.false_eq_true, if_false, List.find?_cons, h2]
      exact ih
    · have hd : decide (a.1 ≠ k) = true := by simp [h1]
      rw [List.filter_cons, hd]
      simp only [if_true, List.find?_cons]
      rw [ih]

theorem br_evs (w : W) (e : List Route.Ev) (b : Nat) : ({ w with evs := e } : W).br b = w.br b := rfl

theorem br_setBr_same (w : W) (b : Nat) (x : Br) : (w.setBr b x).br b = x := by
  simp [W.br, W.setBr]

theorem br_setBr_other (w : W) (b b' : Nat) (x : Br) (h : b' ≠ b) : (w.setBr b x).br b' = w.br b' := by
  unfold W.br W.setBr
  have hb : ¬ b = b' := fun e => h e.symm
  simp only [List.find?_cons, hb, decide_false]
  rw [find_filter_ne w.brs b b' hb]

/-- apply an idempotent change `g` to the listed branches -/
theorem foldl_setBr (g : Br → Br) (hg : ∀ x, g (g x) = g x) (bs : List Nat) :
    ∀ (w : W) (b' : Nat),
    (bs.foldl (fun w b => w.setBr b (g (w.br b))) w).br b' = if b' ∈ bs then g (w.br b') else w.br b' := by
  induction bs with
  | nil => intro w b'; simp
  | cons b bs ih =>
    intro w b'
    simp only [List.foldl_cons]
    rw [ih]
    by_cases h1 : b' = b
    · subst h1
      rw [br_setBr_same]
      by_cases h2 : b' ∈ bs <;> simp [h2, hg]
    · rw [br_setBr_other _ _ _ _ h1]
      simp [h1]

theorem brFile_brSet (x : Br) (k k' : Nat) (f : List Fu.Node) :
    brFile (brSet x k f) k' = if k = k' then some f else brFile x k' := by
  unfold brFile brSet
  by_cases e : k = k'
  · subst e; simp
  · simp only [List.find?_cons, e, decide_false]
    rw [find_filter_ne x.files k k' e]
    simp [e]

theorem brFile_brDrop (x : Br) (k k' : Nat) :
    brFile (brDrop x k) k' = if k = k' then none else brFile x k' := by
  unfold brFile brDrop
  by_cases e : k = k'
  · subst e
    simp only [if_true]
    have : (x.files.filter (fun p => decide (p.1 ≠ k))).find? (fun p => decide (p.1 = k)) = none := by
      rw [List.find?_eq_none]
      intro p hp
      have := (List.mem_filter.1 hp).2
      simpa using this
    simp [this]
  · simp only [if_neg e]
    rw [find_filter_ne x.files k k' e]

theorem brSet_idem (k : Nat) (f : List Fu.Node) (x : Br) : brSet (brSet x k f) k f = brSet x k f := by
  simp [brSet, List.filter_cons, List.filter_filter]

theorem brDrop_idem (k : Nat) (x : Br) : brDrop (brDrop x k) k = brDrop x k := by
  simp [brDrop, List.filter_filter]

/-- all listed branches agree on file `k` -/
def Agree (w : W) (bs : List Nat) (k : Nat) : Prop :=
  ∀ b1 ∈ bs, ∀ b2 ∈ bs, brFile (w.br b1) k = brFile (w.br b2) k

theorem mergeKey_spec (bs : List Nat) (flags : List (Nat × Bool)) (day : Nat) (w w' : W) (key : Nat)
    (h : mergeKey bs flags day w key = .ok w') :
    Agree w' bs key ∧ ∀ k, k ≠ key → ∀ b, brFile (w'.br b) k = brFile (w.br b) k := by
  unfold mergeKey at h
  simp only at h
  split at h
  · -- flag false everywhere: dropped in every branch
    simp at h; subst h
    have hf := foldl_setBr (fun x => brDrop x key) (brDrop_idem key) bs w
    refine ⟨?_, ?_⟩
    · intro b1 h1 b2 h2
      rw [hf b1, hf b2]; simp [h1, h2, brFile_brDrop]
    · intro k hk b
      rw [hf b]
      by_cases hb : b ∈ bs
      · simp only [hb, if_true, brFile_brDrop]
        rw [if_neg (fun e : key = k => hk e.symm)]
      · simp [hb]
  · split at h
    · -- nobody has the file
      rename_i hfs
      simp at h; subst h
      refine ⟨?_, fun _ _ _ => rfl⟩
      intro b1 h1 b2 h2
      have hn : ∀ b ∈ bs, brFile (w.br b) key = none := by
        intro b hb
        cases hc : brFile (w.br b) key with
        | none => rfl
        | some f =>
          have : f ∈ bs.filterMap fun b => brFile (w.br b) key := List.mem_filterMap.2 ⟨b, hb, hc⟩
          rw [hfs] at this; simp at this
      rw [hn b1 h1, hn b2 h2]
    · split at h
      · simp at h
      · rename_i lines nrep _
        simp at h; subst h
        have hf := foldl_setBr (fun x => brSet x key (rle lines)) (brSet_idem key (rle lines)) bs w
        refine ⟨?_, ?_⟩
        · intro b1 h1 b2 h2
          simp only [br_evs]
          rw [hf b1, hf b2]; simp [h1, h2, brFile_brSet]
        · intro k hk b
          simp only [br_evs]
          rw [hf b]
          by_cases hb : b ∈ bs
          · simp only [hb, if_true, brFile_brSet]
            rw [if_neg (fun e : key = k => hk e.symm)]
          · simp [hb]

theorem mem_insertSortedN (x y : Nat) (l : List Nat) : y ∈ insertSortedN x l ↔ y = x ∨ y ∈ l := by
  induction l with
  | nil => simp [insertSortedN]
  | cons z zs ih =>
    unfold insertSortedN
    split
    · simp
    · split
      · rename_i h; subst h; simp
      · simp only [List.mem_cons, ih]
        constructor
        · rintro (h | h | h) <;> simp [h]
        · rintro (h | h | h) <;> simp [h]

theorem nodup_insertSortedN (x : Nat) (l : List Nat) (h : l.Pairwise (· < ·)) : (insertSortedN x l).Pairwise (· < ·) := by
  induction l with
  | nil => simp [insertSortedN]
  | cons z zs ih =>
    unfold insertSortedN
    have hz := List.pairwise_cons.1 h
    split
    · rename_i hlt
      refine List.pairwise_cons.2 ⟨?_, h⟩
      intro a ha
      rcases List.mem_cons.1 ha with rfl | ha
      · exact hlt
      · exact Nat.lt_trans hlt (hz.1 a ha)
    · split
      · exact h
      · rename_i h1 h2
        refine List.pairwise_cons.2 ⟨?_, ih hz.2⟩
        intro a ha
        rcases (mem_insertSortedN x a zs).1 ha with rfl | ha
        · omega
        · exact hz.1 a ha

theorem foldKeys_spec (bs : List Nat) (flags : List (Nat × Bool)) (day : Nat) (keys : List Nat)
    (hk : keys.Pairwise (· < ·)) :
    ∀ (w w' : W), keys.foldlM (mergeKey bs flags day) w = .ok w' →
    (∀ k ∈ keys, Agree w' bs k) ∧ ∀ k, k ∉ keys → ∀ b, brFile (w'.br b) k = brFile (w.br b) k := by
  induction keys with
  | nil => intro w w' h; simp [List.foldlM] at h; cases h; simp
  | cons key keys ih =>
    intro w w' h
    simp only [List.foldlM_cons] at h
    cases h1 : mergeKey bs flags day w key with
    | error e => simp [h1, bind, Except.bind] at h
    | ok w1 =>
      simp [h1, bind, Except.bind] at h
      have hp := List.pairwise_cons.1 hk
      obtain ⟨a1, a2⟩ := mergeKey_spec bs flags day w w1 key h1
      obtain ⟨i1, i2⟩ := ih hp.2 w1 w' h
      have hnot : key ∉ keys := fun hm => Nat.lt_irrefl _ (hp.1 key hm)
      refine ⟨?_, ?_⟩
      · intro k hkm
        rcases List.mem_cons.1 hkm with rfl | hkm
        · intro b1 hb1 b2 hb2
          rw [i2 k hnot b1, i2 k hnot b2]; exact a1 b1 hb1 b2 hb2
        · exact i1 k hkm
      · intro k hkn b
        have h2 : k ∉ keys := fun hm => hkn (List.mem_cons_of_mem _ hm)
        have h3 : k ≠ key := fun e => hkn (e ▸ List.mem_cons_self)
        rw [i2 k h2 b, a2 k h3 b]

/-- **C07 (analysis level)**: after a successful merge every participating branch holds the same interval
    list (or none) for every file flagged by the merge commit on any of the branches. -/
theorem merge_all_identical (w w' : W) (bs : List Nat) (h : mergeBranches w bs = .ok w')
    (k : Nat) (hk : ∃ b ∈ bs, ∃ v, (k, v) ∈ w.mf (w.br b).mref) : Agree w' bs k := by
  unfold mergeBranches at h
  cases bs with
  | nil => obtain ⟨b, hb, _⟩ := hk; simp at hb
  | cons b0 rest =>
    simp only at h
    generalize hfl : ((b0 :: rest).flatMap fun b => w.mf (w.br b).mref) = flags at h
    generalize hks : flags.foldl (fun ks p => insertSortedN p.1 ks) [] = keys at h
    have hsorted : keys.Pairwise (· < ·) := by
      rw [← hks]
      suffices hs : ∀ (l : List (Nat × Bool)) (acc : List Nat), acc.Pairwise (· < ·) →
          (l.foldl (fun ks p => insertSortedN p.1 ks) acc).Pairwise (· < ·) from hs flags [] (by simp)
      intro l
      induction l with
      | nil => intro acc h; exact h
      | cons p l ih => intro acc h; exact ih _ (nodup_insertSortedN p.1 acc h)
    have hmem : k ∈ keys := by
      obtain ⟨b, hb, v, hv⟩ := hk
      have hin : (k, v) ∈ flags := by rw [← hfl]; exact List.mem_flatMap.2 ⟨b, hb, hv⟩
      rw [← hks]
      suffices hs : ∀ (l : List (Nat × Bool)) (acc : List Nat), ((k, v) ∈ l ∨ k ∈ acc) →
          k ∈ l.foldl (fun ks p => insertSortedN p.1 ks) acc from hs flags [] (.inl hin)
      intro l
      induction l with
      | nil => intro acc h; rcases h with h | h; simp at h; exact h
      | cons p l ih =>
        intro acc h
        simp only [List.foldl_cons]
        apply ih
        rcases h with h | h
        · rcases List.mem_cons.1 h with rfl | h
          · exact .inr ((mem_insertSortedN _ _ _).2 (.inl rfl))
          · exact .inl h
        · exact .inr ((mem_insertSortedN _ _ _).2 (.inr h))
    cases hf : keys.foldlM (mergeKey (b0 :: rest) flags (pack w.pn (w.br b0).mergedAuthor (w.br b0).tick)) w with
    | error e => simp [hf] at h
    | ok w1 =>
      simp [hf] at h; subst h
      have := (foldKeys_spec (b0 :: rest) flags _ keys hsorted w w1 hf).1 k hmem
      intro b1 h1 b2 h2
      have e : ∀ b, brFile ((w1.setBr b0 { (w1.br b0) with mergedAuthor := Route.authorMissing }).br b) k = brFile (w1.br b) k := by
        intro b
        by_cases hb : b = b0
        · subst hb; rw [br_setBr_same]; rfl
        · rw [br_setBr_other _ _ _ _ hb]
      rw [e b1, e b2]; exact this b1 h1 b2 h2

end Bd
