import Bd.Dag
import Fu.Flat
/-! C07, lift of the per-line merge law to interval lists: the analysis-level merge flattens the copies, resolves line
    by line (`Mg.resolve`, about which `resolve_spec` / `bestFrom_spec` are proved) and re-encodes the result as interval
    nodes with `rle`.  `flat_rle` shows that nothing is lost in the re-encoding, `mergeFile_lines` that the merged array
    is the per-line resolution — so the tracked file after the merge *is* the pointwise law. -/
namespace Bd
open Fu

theorem flat_go (ls : List Nat) : ∀ (i j v : Nat), j ≤ i →
    flat ((j, v) :: rle.go i (some v) ls) = List.replicate (i - j) v ++ ls := by
  induction ls with
  | nil =>
    intro i j v hji
    simp [rle.go, flat_cons_cons]
  | cons x rest ih =>
    intro i j v hji
    by_cases hx : x = v
    · subst hx
      simp only [rle.go, if_true, List.nil_append]
      rw [ih (i + 1) j x (by omega)]
      have : i + 1 - j = (i - j) + 1 := by omega
      rw [this, List.replicate_succ']
      simp
    · have hne : ¬ (some v = some x) := by
        intro h; exact hx (Option.some.inj h).symm
      simp only [rle.go, hne, if_false, List.singleton_append]
      rw [flat_cons_cons, ih (i + 1) i x (by omega)]
      have : i + 1 - i = 1 := by omega
      simp [this]

/-- re-encoding a line array as interval nodes and flattening it again gives the array back -/
theorem flat_rle (ls : List Nat) : flat (rle ls) = ls := by
  cases ls with
  | nil => simp [rle, rle.go]
  | cons x rest =>
    have hne : ¬ ((none : Option Nat) = some x) := by simp
    simp only [rle, rle.go, hne, if_false, List.singleton_append]
    rw [flat_go rest 1 0 x (by omega)]
    simp

/-- the merged line array is the line-by-line resolution of the copies, and it has the length of the copies -/
theorem mergeFile_lines (day : Nat) (mine : List Nat) (others : List (List Nat)) (lines : List Nat) (n : Nat)
    (h : mergeFile day mine others = some (lines, n)) :
    lines.length = mine.length ∧ (∀ o ∈ others, o.length = mine.length) ∧
    ∀ i (hi : i < mine.length), lines[i]? = some (Mg.resolve day mine[i] (transpose others i)).1 := by
  unfold mergeFile at h
  split at h
  · simp at h
  · rename_i hlen
    simp only [Option.some.injEq, Prod.mk.injEq] at h
    obtain ⟨rfl, _⟩ := h
    refine ⟨by simp, ?_, ?_⟩
    · intro o ho
      simp only [List.any_eq_true, not_exists, not_and, decide_eq_true_eq, ne_eq, Decidable.not_not] at hlen
      have := hlen o ho
      simpa using this
    · intro i hi
      simp [List.getElem?_map, List.getElem?_zipIdx, hi]

/-- **C07 (analysis level)**: the interval list installed by the merge flattens to the per-line resolution -/
theorem merged_nodes_pointwise (day : Nat) (mine : List Nat) (others : List (List Nat)) (lines : List Nat) (n : Nat)
    (h : mergeFile day mine others = some (lines, n)) :
    (flat (rle lines)).length = mine.length ∧
    ∀ i (hi : i < mine.length), (flat (rle lines))[i]? = some (Mg.resolve day mine[i] (transpose others i)).1 := by
  rw [flat_rle]
  exact ⟨(mergeFile_lines day mine others lines n h).1, (mergeFile_lines day mine others lines n h).2.2⟩

end Bd
