import Bd.Canon
import Bd.Script
/-! C11: a validator for the edit scripts `FileDiff` produces, and what acceptance means.

  A script is a list of runs (equal / delete / insert, with a line count); `old` and `new` are the line lists of the two
  versions (lines as the diff sees them).  `validScript` is run by the correspondence on every diff the real
  `FileDiff.Consume` returns; `validScript_sound` is the obligation: an accepted script
  * reproduces the new version from the old one (`expected` applied to `old`, reading inserted lines from `new`),
    in particular every equal run covers identical lines,
  * consumes exactly the old lines and produces exactly the new ones (the line-count contract),
  * has the canonical shape, so the burndown edit loop accepts it (`translate_ok_of_canon`). -/
namespace Bd

variable {α : Type} [DecidableEq α]

/-- walk the script over both versions -/
def walk : List (EK × Nat) → List α → List α → Bool
  | [], old, new => old.isEmpty && new.isEmpty
  | (.eq, n) :: r, old, new =>
    decide (n ≤ old.length) && decide (n ≤ new.length) && decide (old.take n = new.take n) && walk r (old.drop n) (new.drop n)
  | (.del, n) :: r, old, new => decide (n ≤ old.length) && walk r (old.drop n) new
  | (.ins, n) :: r, old, new => decide (n ≤ new.length) && walk r old (new.drop n)

def validScript (s : List (EK × Nat)) (old new : List α) : Bool :=
  s.all (fun e => decide (e.2 > 0)) && canon none s && walk s old new

/-- lines of the old / new version a script accounts for -/
def oldLines : List (EK × Nat) → Nat
  | [] => 0
  | (.ins, _) :: r => oldLines r
  | (_, n) :: r => n + oldLines r
def newLines : List (EK × Nat) → Nat
  | [] => 0
  | (.del, _) :: r => newLines r
  | (_, n) :: r => n + newLines r

/-- rebuild the new version: equal runs are copied from the old version, inserted runs are read from `ins` (the lines
    the script inserts, in order), deleted runs are dropped -/
def rebuild : List (EK × Nat) → List α → List α → List α
  | [], _, _ => []
  | (.eq, n) :: r, old, ins => old.take n ++ rebuild r (old.drop n) ins
  | (.del, n) :: r, old, ins => rebuild r (old.drop n) ins
  | (.ins, n) :: r, old, ins => ins.take n ++ rebuild r old (ins.drop n)

/-- the inserted lines of an accepted script, in order -/
def inserted : List (EK × Nat) → List α → List α
  | [], _ => []
  | (.eq, n) :: r, new => inserted r (new.drop n)
  | (.del, _) :: r, new => inserted r new
  | (.ins, n) :: r, new => new.take n ++ inserted r (new.drop n)

theorem walk_counts (s : List (EK × Nat)) : ∀ (old new : List α), walk s old new = true →
    oldLines s = old.length ∧ newLines s = new.length := by
  induction s with
  | nil =>
    intro old new h
    simp only [walk, Bool.and_eq_true, List.isEmpty_iff] at h
    simp [oldLines, newLines, h.1, h.2]
  | cons e s ih =>
    intro old new h
    obtain ⟨k, n⟩ := e
    cases k with
    | eq =>
      simp only [walk, Bool.and_eq_true, decide_eq_true_eq] at h
      obtain ⟨⟨⟨h1, h2⟩, _⟩, h4⟩ := h
      have := ih _ _ h4
      simp only [oldLines, newLines, List.length_drop] at this ⊢
      omega
    | del =>
      simp only [walk, Bool.and_eq_true, decide_eq_true_eq] at h
      have := ih _ _ h.2
      simp only [oldLines, newLines, List.length_drop] at this ⊢
      omega
    | ins =>
      simp only [walk, Bool.and_eq_true, decide_eq_true_eq] at h
      have := ih _ _ h.2
      simp only [oldLines, newLines, List.length_drop] at this ⊢
      omega

theorem walk_rebuild (s : List (EK × Nat)) : ∀ (old new : List α), walk s old new = true →
    rebuild s old (inserted s new) = new := by
  induction s with
  | nil =>
    intro old new h
    simp only [walk, Bool.and_eq_true, List.isEmpty_iff] at h
    simp [rebuild, h.2]
  | cons e s ih =>
    intro old new h
    obtain ⟨k, n⟩ := e
    cases k with
    | eq =>
      simp only [walk, Bool.and_eq_true, decide_eq_true_eq] at h
      obtain ⟨⟨⟨_, _⟩, h3⟩, h4⟩ := h
      simp only [rebuild, inserted]
      rw [ih _ _ h4, h3, List.take_append_drop]
    | del =>
      simp only [walk, Bool.and_eq_true, decide_eq_true_eq] at h
      simp only [rebuild, inserted]
      exact ih _ _ h.2
    | ins =>
      simp only [walk, Bool.and_eq_true, decide_eq_true_eq] at h
      simp only [rebuild, inserted]
      rw [List.take_append_of_le_length (by simp; omega), List.drop_append_of_le_length (by simp; omega)]
      simp only [List.take_take, Nat.min_self, List.drop_take, Nat.sub_self, List.take_zero, List.nil_append]
      rw [ih _ _ h.2, List.take_append_drop]

/-- **C11 (validator soundness)**: an accepted script has positive run lengths and the canonical shape (hence is never
    rejected by the burndown edit loop), accounts for exactly the old and the new line count, and turns the old version
    into the new one — equal runs are literally the same lines -/
theorem validScript_sound (s : List (EK × Nat)) (old new : List α) (h : validScript s old new = true) :
    (∀ e ∈ s, e.2 > 0) ∧ canon none s = true ∧
    oldLines s = old.length ∧ newLines s = new.length ∧
    rebuild s old (inserted s new) = new ∧
    ∃ us, translate s 0 (.eq, 0) [] = .ok us := by
  simp only [validScript, Bool.and_eq_true, List.all_eq_true, decide_eq_true_eq] at h
  obtain ⟨⟨hpos, hcanon⟩, hwalk⟩ := h
  obtain ⟨h1, h2⟩ := walk_counts s old new hwalk
  refine ⟨hpos, hcanon, h1, h2, walk_rebuild s old new hwalk, ?_⟩
  exact translate_ok_of_canon s hpos none 0 (.eq, 0) [] hcanon (by simp [Rep])

end Bd
