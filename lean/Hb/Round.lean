import Hb.Basic
namespace Hb

theorem getD_map {α : Type} (l : List α) (f : α → Nat) (i : Nat) (h : i < l.length) :
    (l.map f).getD i 0 = f (l[i]) := by
  simp [List.getD_eq_getElem?_getD, h]

theorem interleave_deinterleave (st : List Node) (tail : List (Option (List Nat))) :
    interleave st.length (deinterleave st ++ tail) = st := by
  apply List.ext_getElem
  · simp [interleave]
  · intro i h1 h2
    simp only [interleave, List.getElem_map, List.getElem_range]
    have hi : i < st.length := h2
    simp only [deinterleave, List.cons_append, List.getD_cons_zero, List.getD_cons_succ, Option.getD_some]
    rw [getD_map _ _ _ hi, getD_map _ _ _ hi, getD_map _ _ _ hi, getD_map _ _ _ hi, getD_map _ _ _ hi,
      getD_map _ _ _ hi]
    cases hb : st[i].black <;> simp [hb] <;> (cases h : st[i]; simp_all)

/-- **C06-T3 / C09 (memory)**: booting a hibernated allocator restores exactly the state before hibernation,
    whatever the threshold. -/
theorem boot_hibernate (a : Alloc) (h : Awake a) : ∃ x, hibernate a = .ok x ∧ boot x = .ok a := by
  obtain ⟨h1, h2, h3, h4, h5⟩ := h
  obtain ⟨thr, storage, gaps, hl, hg, data⟩ := a
  simp only at h1 h2 h3 h4 h5
  subst h3 h4 h5
  cases storage with
  | none => simp at h1
  | some st =>
  cases gaps with
  | none => simp at h2
  | some g =>
  unfold hibernate
  simp only [Nat.lt_irrefl, if_false, Option.getD_some]
  by_cases c1 : st.length < thr
  · exact ⟨⟨thr, some st, some g, 0, 0, List.replicate 7 none⟩, by simp [c1], by simp [boot]⟩
  · by_cases c2 : st.length = 0
    · exact ⟨⟨thr, some st, some g, 0, 0, List.replicate 7 none⟩, by simp [c1, c2], by simp [boot]⟩
    · refine ⟨_, by simp only [c1, c2, if_false]; rfl, ?_⟩
      have hpos : st.length ≠ 0 := c2
      by_cases c3 : g.length > 0
      · simp only [boot, hpos, if_false, c3, if_true]
        simp only [deinterleave, List.cons_append, List.getD_cons_zero, Option.isNone_some, Bool.false_eq_true,
          if_false]
        congr 1
        simp only [Alloc.mk.injEq, true_and, and_true]
        refine ⟨?_, ?_, ?_⟩
        · exact congrArg some (interleave_deinterleave st _)
        · simp [List.getD_cons_succ]
        · simp [List.replicate]
      · have hg0 : g = [] := by
          cases g with
          | nil => rfl
          | cons _ _ => simp at c3
        subst hg0
        simp only [boot, hpos, if_false]
        simp only [deinterleave, List.cons_append, List.getD_cons_zero, Option.isNone_some, Bool.false_eq_true,
          if_false]
        congr 1
        simp only [Alloc.mk.injEq, true_and, and_true]
        refine ⟨?_, ?_, ?_⟩
        · exact congrArg some (interleave_deinterleave st _)
        · simp
        · simp [List.replicate]

/-- D13 at the allocator level: an allocator that did not really hibernate cannot be serialized -/
theorem serialize_after_noop (a : Alloc) (h : Awake a)
    (hs : (a.storage.getD []).length < a.threshold ∨ (a.storage.getD []).length = 0) :
    ∃ x, hibernate a = .ok x ∧ ∃ m, serialize x = .panic m := by
  obtain ⟨h1, h2, h3, h4, h5⟩ := h
  obtain ⟨thr, storage, gaps, hl, hg, data⟩ := a
  simp only at h1 h2 h3 h4 h5 hs
  subst h3 h4 h5
  cases storage with
  | none => simp at h1
  | some st =>
    simp only [Option.getD_some] at hs
    unfold hibernate
    simp only [Nat.lt_irrefl, if_false, Option.getD_some]
    by_cases c1 : st.length < thr
    · exact ⟨⟨thr, some st, gaps, 0, 0, List.replicate 7 none⟩, by simp [c1], _, by simp [serialize]; rfl⟩
    · have c2 : st.length = 0 := by rcases hs with h | h; exact absurd h c1; exact h
      exact ⟨⟨thr, some st, gaps, 0, 0, List.replicate 7 none⟩, by simp [c1, c2], _, by simp [serialize]; rfl⟩

end Hb
