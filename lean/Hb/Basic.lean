/-! Model of Allocator.Hibernate / Boot / Serialize / Deserialize (internal/rbtree/rbtree.go) on the raw arena.
    LZ4 (CompressUInt32Slice / DecompressUInt32Slice) is taken as the identity on uint32 slices. -/
namespace Hb

structure Node where
  key : Nat
  val : Nat
  left : Nat
  parent : Nat
  right : Nat
  black : Bool
  deriving DecidableEq, Repr

structure Alloc where
  threshold : Nat
  storage : Option (List Node)      -- none = nil slice
  gaps : Option (List Nat)          -- none = nil map, some = keys ascending
  hibLen : Nat
  hibGapsLen : Nat
  data : List (Option (List Nat))   -- the 7 hibernatedData buffers, none = nil
  deriving DecidableEq, Repr

def deinterleave (st : List Node) : List (Option (List Nat)) :=
  [some (st.map (·.key)), some (st.map (·.val)), some (st.map (·.left)), some (st.map (·.parent)),
   some (st.map (·.right)), some (st.map fun n => if n.black then 1 else 0)]

def interleave (n : Nat) (d : List (Option (List Nat))) : List Node :=
  let b := fun (i : Nat) => (d.getD i none).getD []
  (List.range n).map fun i =>
    ⟨(b 0).getD i 0, (b 1).getD i 0, (b 2).getD i 0, (b 3).getD i 0, (b 4).getD i 0, decide ((b 5).getD i 0 > 0)⟩

inductive R (α : Type) | ok (a : α) | panic (msg : String) | err (msg : String)
  deriving Repr

def hibernate (a : Alloc) : R Alloc :=
  if a.hibLen > 0 then .panic "cannot hibernate an already hibernated Allocator" else
  let st := a.storage.getD []
  if st.length < a.threshold then .ok a else
  if st.length = 0 then .ok { a with hibLen := 0 } else
  let g := a.gaps.getD []
  .ok { a with
    hibLen := st.length
    storage := none
    data := deinterleave st ++ [if g.length > 0 then some g else a.data.getD 6 none]
    hibGapsLen := if g.length > 0 then g.length else a.hibGapsLen
    gaps := none }

def boot (a : Alloc) : R Alloc :=
  if a.hibLen = 0 then .ok a else
  if (a.data.getD 0 none).isNone then .panic "cannot boot a serialized Allocator" else
  let gaps := if a.hibGapsLen > 0 then ((a.data.getD 6 none).getD []).take a.hibGapsLen else []
  .ok { a with
    gaps := some gaps
    storage := some (interleave a.hibLen a.data)
    data := List.replicate 6 none ++ [if a.hibGapsLen > 0 then none else a.data.getD 6 none]
    hibGapsLen := 0
    hibLen := 0 }

/-- the file: both lengths and the seven buffers -/
structure File where
  hibLen : Nat
  hibGapsLen : Nat
  bufs : List (List Nat)
  deriving DecidableEq, Repr

def serialize (a : Alloc) : R (Alloc × File) :=
  if a.storage.isSome then .panic "serialization requires the hibernated state" else
  .ok ({ a with data := List.replicate 7 none }, ⟨a.hibLen, a.hibGapsLen, a.data.map (·.getD [])⟩)

def deserialize (a : Alloc) (f : File) : R Alloc :=
  if a.storage.isSome then .panic "deserialization requires the hibernated state" else
  .ok { a with hibLen := f.hibLen, hibGapsLen := f.hibGapsLen, data := f.bufs.map some }

/-- an allocator in normal use -/
def Awake (a : Alloc) : Prop :=
  a.storage.isSome ∧ a.gaps.isSome ∧ a.hibLen = 0 ∧ a.hibGapsLen = 0 ∧ a.data = List.replicate 7 none

end Hb
