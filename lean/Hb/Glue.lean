import Hb.Disk
/-! C09: the glue of `BurndownAnalysis.Hibernate` / `Boot` (leaves/burndown.go, after fix ec6ad61) around the allocator:
    the arena is written to a file only when hibernation to disk is configured AND the allocator really hibernated
    (it held nodes before and holds none after); `Boot` reads the file back (if one was recorded), removes it, and
    boots.  What the file system returns for the recorded name is an input (`none` = the file is gone or cannot be
    parsed: `Hb.prefix_fails` shows on the byte level that every cut file is refused by `Deserialize`). -/
namespace Hb

/-- `Allocator.Size()` -/
def size (a : Alloc) : Nat := (a.storage.getD []).length

def hibernateB (toDisk : Bool) (a : Alloc) : R (Alloc × Option File) :=
  let size0 := size a
  match hibernate a with
  | .ok a' =>
    if toDisk && decide (size0 > 0) && decide (size a' = 0) then
      match serialize a' with
      | .ok (a'', f) => .ok (a'', some f)
      | .panic m => .panic m
      | .err m => .err m
    else .ok (a', none)
  | .panic m => .panic m
  | .err m => .err m

def bootB (a : Alloc) (recorded : Bool) (onDisk : Option File) : R Alloc :=
  if recorded then
    match onDisk with
    | none => .err "the hibernation file cannot be read"
    | some f =>
      match deserialize a f with
      | .ok a' => boot a'
      | .panic m => .panic m
      | .err m => .err m
  else boot a

/-- **C09, burndown glue**: for every allocator in normal use, every threshold and both settings of hibernation to
disk, `Hibernate` succeeds, records a file exactly when the arena really left memory and disk hibernation is on, and
`Boot` with that file intact gives back the same arena, gap set and counters -/
theorem glue_roundtrip (toDisk : Bool) (a : Alloc) (h : Awake' a) :
    ∃ a' fo, hibernateB toDisk a = .ok (a', fo) ∧
      (fo.isSome ↔ (toDisk = true ∧ a.threshold ≤ size a ∧ size a ≠ 0)) ∧
      ∃ y, bootB a' fo.isSome fo = .ok y ∧ SameArena a y := by
  by_cases hreal : a.threshold ≤ size a ∧ size a ≠ 0
  · -- the allocator really hibernates
    obtain ⟨x, x', f, x'', y, h1, h2, h3, h4, h5⟩ := disk_roundtrip a h hreal
    obtain ⟨xm, ym, m1, m2, m3⟩ := boot_hibernate' a h
    have hx : xm = x := by rw [h1] at m1; injection m1 with e; exact e.symm
    subst hx
    have hsz : size xm = 0 := by
      obtain ⟨thr, storage, gaps, hl, hg, data⟩ := a
      obtain ⟨a1, a2, a3, a4⟩ := h
      simp only at a1 a2 a3 a4 hreal
      subst a3 a4
      cases storage with
      | none => simp at a1
      | some st =>
        simp only [size, Option.getD_some] at hreal
        have c1 : ¬ st.length < thr := by omega
        simp only [hibernate, Nat.lt_irrefl, if_false, Option.getD_some, c1, hreal.2] at h1
        injection h1 with e
        rw [← e]; simp [size]
    cases toDisk with
    | true =>
      refine ⟨x', some f, ?_, by simp [hreal], y, ?_, h5⟩
      · have hpos : size a > 0 := by omega
        simp only [hibernateB, h1, Bool.true_and, hpos, hsz, decide_true, Bool.and_self, if_true, h2]
      · simp only [bootB, Option.isSome_some, if_true, h3, h4]
    | false =>
      refine ⟨xm, none, ?_, by simp, ym, ?_, m3⟩
      · simp only [hibernateB, h1, Bool.false_and, Bool.false_eq_true, if_false]
      · simp only [bootB, Option.isSome_none, Bool.false_eq_true, if_false, m2]
  · -- below the threshold or empty: the arena stays in memory, nothing is written
    obtain ⟨xm, ym, m1, m2, m3⟩ := boot_hibernate' a h
    have hkeep : size a = 0 ∨ size xm ≠ 0 := by
      obtain ⟨thr, storage, gaps, hl, hg, data⟩ := a
      obtain ⟨a1, a2, a3, a4⟩ := h
      simp only at a1 a2 a3 a4 hreal
      subst a3 a4
      cases storage with
      | none => simp at a1
      | some st =>
        simp only [size, Option.getD_some] at hreal ⊢
        by_cases h0 : st.length = 0
        · exact Or.inl h0
        · right
          have c1 : st.length < thr := by omega
          simp only [hibernate, Nat.lt_irrefl, if_false, Option.getD_some, c1, if_true] at m1
          injection m1 with e
          rw [← e]; simpa using h0
    refine ⟨xm, none, ?_, ?_, ym, ?_, m3⟩
    · simp only [hibernateB, m1]
      rcases hkeep with h0 | h0
      · simp [h0]
      · simp [h0]
    · simp only [Option.isSome_none, Bool.false_eq_true, false_iff, not_and]
      intro _ h1 h2
      exact hreal ⟨h1, h2⟩
    · simp only [bootB, Option.isSome_none, Bool.false_eq_true, if_false, m2]

/-- a recorded file that is gone or unreadable makes `Boot` fail: it never continues on an arena it could not restore -/
theorem glue_missing_file (a : Alloc) : ∃ m, bootB a true none = .err m := ⟨_, rfl⟩

end Hb
