import Hb.Round
namespace Hb

/-- in normal use: arena and gap set present, nothing hibernated (the buffers may hold stale empties) -/
def Awake' (a : Alloc) : Prop := a.storage.isSome ∧ a.gaps.isSome ∧ a.hibLen = 0 ∧ a.hibGapsLen = 0

def SameArena (a b : Alloc) : Prop :=
  b.storage = a.storage ∧ b.gaps = a.gaps ∧ b.hibLen = a.hibLen ∧ b.hibGapsLen = a.hibGapsLen ∧ b.threshold = a.threshold

theorem take_self (g : List Nat) : g.take g.length = g := List.take_length

/-- **C09 (memory)**: hibernate then boot gives back the same arena, gap set and counters -/
theorem boot_hibernate' (a : Alloc) (h : Awake' a) :
    ∃ x y, hibernate a = .ok x ∧ boot x = .ok y ∧ SameArena a y := by
  obtain ⟨h1, h2, h3, h4⟩ := h
  obtain ⟨thr, storage, gaps, hl, hg, data⟩ := a
  simp only at h1 h2 h3 h4
  subst h3 h4
  cases storage with
  | none => simp at h1
  | some st =>
  cases gaps with
  | none => simp at h2
  | some g =>
  unfold hibernate
  simp only [Nat.lt_irrefl, if_false, Option.getD_some]
  by_cases c1 : st.length < thr
  · exact ⟨⟨thr, some st, some g, 0, 0, data⟩, ⟨thr, some st, some g, 0, 0, data⟩, by simp [c1], by simp [boot],
      rfl, rfl, rfl, rfl, rfl⟩
  · by_cases c2 : st.length = 0
    · exact ⟨⟨thr, some st, some g, 0, 0, data⟩, ⟨thr, some st, some g, 0, 0, data⟩, by simp [c1, c2], by simp [boot],
        rfl, rfl, rfl, rfl, rfl⟩
    · have hpos : st.length ≠ 0 := c2
      refine ⟨_, _, by simp only [c1, c2, if_false]; rfl, by
        simp only [boot, hpos, if_false]
        simp only [deinterleave, List.cons_append, List.getD_cons_zero, Option.isNone_some, Bool.false_eq_true,
          if_false]
        rfl, ?_⟩
      refine ⟨?_, ?_, rfl, rfl, rfl⟩
      · exact congrArg some (interleave_deinterleave st _)
      · by_cases c3 : g.length > 0
        · simp [c3, deinterleave]
        · have : g = [] := by cases g <;> simp_all
          subst this; simp

/-- **C09 (disk)**: hibernate, write out, read back, boot — same arena, provided the allocator really hibernated -/
theorem disk_roundtrip (a : Alloc) (h : Awake' a)
    (hreal : a.threshold ≤ (a.storage.getD []).length ∧ (a.storage.getD []).length ≠ 0) :
    ∃ x x' f x'' y, hibernate a = .ok x ∧ serialize x = .ok (x', f) ∧ deserialize x' f = .ok x'' ∧
      boot x'' = .ok y ∧ SameArena a y := by
  obtain ⟨h1, h2, h3, h4⟩ := h
  obtain ⟨thr, storage, gaps, hl, hg, data⟩ := a
  simp only at h1 h2 h3 h4 hreal
  subst h3 h4
  cases storage with
  | none => simp at h1
  | some st =>
  cases gaps with
  | none => simp at h2
  | some g =>
  simp only [Option.getD_some] at hreal
  have c1 : ¬ st.length < thr := by omega
  have hpos : st.length ≠ 0 := hreal.2
  refine ⟨_, _, _, _, _, by unfold hibernate; simp only [Nat.lt_irrefl, if_false, Option.getD_some, c1, hpos]; rfl,
    by simp only [serialize, Option.isSome_none, Bool.false_eq_true, if_false]; rfl,
    by simp only [deserialize, Option.isSome_none, Bool.false_eq_true, if_false]; rfl,
    by
      simp only [boot, hpos, if_false]
      simp only [deinterleave, List.cons_append, List.map_cons, Option.getD_some, List.getD_cons_zero,
        Option.isNone_some, Bool.false_eq_true, if_false]
      rfl, ?_⟩
  refine ⟨?_, ?_, rfl, rfl, rfl⟩
  · have := interleave_deinterleave st
      (List.map (some ∘ fun x => x.getD []) ([] ++ [if g.length > 0 then some g else data.getD 6 none]))
    simp only [deinterleave, List.cons_append, List.nil_append] at this ⊢
    exact congrArg some this
  · by_cases c3 : g.length > 0
    · simp [c3, deinterleave]
    · have : g = [] := by cases g <;> simp_all
      subst this; simp

end Hb
