/-! C06 / C09: the byte-level format of a serialized allocator (`Allocator.Serialize` / `Deserialize`).

    file = varint(hibernatedStorageLen) ++ varint(hibernatedGapsLen) ++ for each of the 7 buffers: varint(len) ++ bytes

  `varint` is go-git's `binary.WriteVariableWidthInt` (the offset encoding of git pack files); the compressed
  buffers are arbitrary byte strings here (LZ4 is not modelled).  A read of `x > 0` bytes fails at end of file or on
  a short read, a read of 0 bytes succeeds — as `os.File.Read` behaves.

  Proved: `deserialize_serialize` (reading back a complete file returns what was written) and `prefix_fails`
  (EVERY strict prefix of a file is refused — a truncated hibernation file never yields an allocator). -/
namespace HbF

/-- the loop of `WriteVariableWidthInt`: prepend continuation bytes -/
def encGo : Nat → List Nat → List Nat
  | 0, buf => buf
  | n + 1, buf => encGo (n / 128) ((128 + n % 128) :: buf)
decreasing_by omega

def encVar (n : Nat) : List Nat := encGo (n / 128) [n % 128]

/-- the loop of `ReadVariableWidthInt` after a byte with the continuation bit -/
def readGo : Nat → List Nat → Option (Nat × List Nat)
  | _, [] => none
  | v, c :: rest =>
    if c ≥ 128 then readGo ((v + 1) * 128 + c % 128) rest else some ((v + 1) * 128 + c % 128, rest)

def readVar : List Nat → Option (Nat × List Nat)
  | [] => none
  | c :: rest => if c ≥ 128 then readGo (c % 128) rest else some (c % 128, rest)

theorem readVar_cons_cont (c : Nat) (rest : List Nat) (h : c ≥ 128) :
    readVar (c :: rest) = readGo (c % 128) rest := by simp [readVar, h]

theorem readVar_cons_last (c : Nat) (rest : List Nat) (h : c < 128) :
    readVar (c :: rest) = some (c, rest) := by
  have : ¬ c ≥ 128 := by omega
  have hm : c % 128 = c := by omega
  simp [readVar, this, hm]

theorem readGo_cons_cont (v c : Nat) (rest : List Nat) (h : c ≥ 128) :
    readGo v (c :: rest) = readGo ((v + 1) * 128 + c % 128) rest := by simp [readGo, h]

theorem readGo_cons_last (v c : Nat) (rest : List Nat) (h : c < 128) :
    readGo v (c :: rest) = some ((v + 1) * 128 + c, rest) := by
  have : ¬ c ≥ 128 := by omega
  have hm : c % 128 = c := by omega
  simp [readGo, this, hm]

theorem read_encGo (m : Nat) (buf tail : List Nat) :
    readVar (encGo m buf ++ tail) =
      if m = 0 then readVar (buf ++ tail) else readGo (m - 1) (buf ++ tail) := by
  induction m using Nat.strongRecOn generalizing buf with
  | _ m ih =>
    cases m with
    | zero => simp [encGo]
    | succ n =>
      rw [encGo, ih (n / 128) (by omega)]
      have hc : 128 + n % 128 ≥ 128 := by omega
      have hmod : (128 + n % 128) % 128 = n % 128 := by omega
      by_cases hq : n / 128 = 0
      · have hn : n % 128 = n := by omega
        rw [if_pos hq, List.cons_append, readVar_cons_cont _ _ hc, hmod, hn]
        simp
      · have hv : (n / 128 - 1 + 1) * 128 + n % 128 = n := by
          have : n / 128 - 1 + 1 = n / 128 := by omega
          rw [this]; omega
        rw [if_neg hq, List.cons_append, readGo_cons_cont _ _ _ hc, hmod, hv]
        simp

/-- reading back a written integer, whatever follows -/
theorem readVar_encVar (n : Nat) (tail : List Nat) : readVar (encVar n ++ tail) = some (n, tail) := by
  unfold encVar
  rw [read_encGo]
  have hlt : n % 128 < 128 := by omega
  by_cases hq : n / 128 = 0
  · have hn : n % 128 = n := by omega
    rw [if_pos hq, List.cons_append, readVar_cons_last _ _ hlt, hn]; rfl
  · have hv : (n / 128 - 1 + 1) * 128 + n % 128 = n := by
      have : n / 128 - 1 + 1 = n / 128 := by omega
      rw [this]; omega
    rw [if_neg hq, List.cons_append, readGo_cons_last _ _ _ hlt, hv]; rfl

theorem encGo_shape (m : Nat) (buf : List Nat) :
    ∃ pre, encGo m buf = pre ++ buf ∧ ∀ b ∈ pre, b ≥ 128 := by
  induction m using Nat.strongRecOn generalizing buf with
  | _ m ih =>
    cases m with
    | zero => exact ⟨[], by simp [encGo]⟩
    | succ n =>
      rw [encGo]
      obtain ⟨pre, hp, hall⟩ := ih (n / 128) (by omega) ((128 + n % 128) :: buf)
      refine ⟨pre ++ [128 + n % 128], by simp [hp], ?_⟩
      intro b hb
      rcases List.mem_append.mp hb with hb | hb
      · exact hall b hb
      · simp at hb; omega

theorem readGo_allCont (v : Nat) (l : List Nat) (h : ∀ b ∈ l, b ≥ 128) : readGo v l = none := by
  induction l generalizing v with
  | nil => rfl
  | cons c rest ih =>
    have hc := h c (by simp)
    simp only [readGo, hc, if_true]
    exact ih _ (fun b hb => h b (by simp [hb]))

theorem readVar_allCont (l : List Nat) (h : ∀ b ∈ l, b ≥ 128) : readVar l = none := by
  cases l with
  | nil => rfl
  | cons c rest =>
    have hc := h c (by simp)
    simp only [readVar, hc, if_true]
    exact readGo_allCont _ _ (fun b hb => h b (by simp [hb]))

/-- an integer's encoding: continuation bytes followed by exactly one final byte -/
theorem encVar_shape (n : Nat) : ∃ pre, encVar n = pre ++ [n % 128] ∧ ∀ b ∈ pre, b ≥ 128 :=
  encGo_shape _ _

/-- a truncated integer is refused -/
theorem readVar_prefix (n k : Nat) (hk : k < (encVar n).length) : readVar ((encVar n).take k) = none := by
  obtain ⟨pre, he, hall⟩ := encVar_shape n
  rw [he] at hk ⊢
  have hk' : k ≤ pre.length := by simp at hk; omega
  rw [List.take_append_of_le_length hk']
  exact readVar_allCont _ (fun b hb => hall b (List.mem_of_mem_take hb))

/-- `file.Read(make([]byte, x))`: fails at end of file and on a short read, a zero-length read succeeds -/
def readBytes (x : Nat) (l : List Nat) : Option (List Nat × List Nat) :=
  if l.length < x then none else some (l.take x, l.drop x)

def encBufs : List (List Nat) → List Nat
  | [] => []
  | b :: bs => encVar b.length ++ b ++ encBufs bs

/-- read `k` length-prefixed buffers -/
def readBufs : Nat → List Nat → Option (List (List Nat) × List Nat)
  | 0, l => some ([], l)
  | k + 1, l =>
    match readVar l with
    | none => none
    | some (x, l1) =>
      match readBytes x l1 with
      | none => none
      | some (b, l2) =>
        match readBufs k l2 with
        | none => none
        | some (bs, l3) => some (b :: bs, l3)

def serialize (hibLen gapsLen : Nat) (bufs : List (List Nat)) : List Nat :=
  encVar hibLen ++ (encVar gapsLen ++ encBufs bufs)

/-- `Deserialize` reads the two lengths and then exactly `k` buffers (k = 7 in the code) -/
def deserialize (k : Nat) (file : List Nat) : Option (Nat × Nat × List (List Nat)) :=
  match readVar file with
  | none => none
  | some (a, l1) =>
    match readVar l1 with
    | none => none
    | some (b, l2) =>
      match readBufs k l2 with
      | none => none
      | some (bs, _) => some (a, b, bs)

theorem readBufs_encBufs (bufs : List (List Nat)) (tail : List Nat) :
    readBufs bufs.length (encBufs bufs ++ tail) = some (bufs, tail) := by
  induction bufs with
  | nil => simp [readBufs, encBufs]
  | cons b bs ih =>
    have h1 : encBufs (b :: bs) ++ tail = encVar b.length ++ (b ++ (encBufs bs ++ tail)) := by
      simp [encBufs, List.append_assoc]
    simp only [List.length_cons, readBufs, h1, readVar_encVar]
    have h2 : readBytes b.length (b ++ (encBufs bs ++ tail)) = some (b, encBufs bs ++ tail) := by
      simp [readBytes]
    simp [h2, ih]

theorem deserialize_serialize (a b : Nat) (bufs : List (List Nat)) :
    deserialize bufs.length (serialize a b bufs) = some (a, b, bufs) := by
  unfold deserialize serialize
  rw [readVar_encVar]
  simp only
  rw [readVar_encVar]
  simp only
  have := readBufs_encBufs bufs []
  simp only [List.append_nil] at this
  rw [this]

/-- truncating inside the buffers -/
theorem readBufs_prefix (bufs : List (List Nat)) (n : Nat) (hn : n < (encBufs bufs).length) :
    readBufs bufs.length ((encBufs bufs).take n) = none := by
  induction bufs generalizing n with
  | nil => simp [encBufs] at hn
  | cons b bs ih =>
    simp only [List.length_cons, readBufs]
    by_cases h1 : n < (encVar b.length).length
    · -- cut inside the length prefix
      have : (encBufs (b :: bs)).take n = (encVar b.length).take n := by
        simp only [encBufs, List.append_assoc]
        rw [List.take_append_of_le_length (by omega)]
      rw [this, readVar_prefix _ _ h1]
    · have hle : (encVar b.length).length ≤ n := by omega
      have e1 : (encBufs (b :: bs)).take n =
          encVar b.length ++ ((b ++ encBufs bs).take (n - (encVar b.length).length)) := by
        simp only [encBufs, List.append_assoc]
        rw [List.take_append]
        rw [List.take_of_length_le hle]
      rw [e1, readVar_encVar]
      simp only
      by_cases h2 : n - (encVar b.length).length < b.length
      · -- cut inside the buffer body: short read
        have hshort : ((b ++ encBufs bs).take (n - (encVar b.length).length)).length < b.length := by
          simp [List.length_take]; omega
        have hrb : readBytes b.length ((b ++ encBufs bs).take (n - (encVar b.length).length)) = none := by
          unfold readBytes; rw [if_pos hshort]
        rw [hrb]
      · have hle2 : b.length ≤ n - (encVar b.length).length := by omega
        have e2 : (b ++ encBufs bs).take (n - (encVar b.length).length) =
            b ++ (encBufs bs).take (n - (encVar b.length).length - b.length) := by
          rw [List.take_append, List.take_of_length_le hle2]
        rw [e2]
        have h3 : readBytes b.length (b ++ (encBufs bs).take (n - (encVar b.length).length - b.length)) =
            some (b, (encBufs bs).take (n - (encVar b.length).length - b.length)) := by
          simp [readBytes]
        rw [h3]
        simp only
        have hlen : n - (encVar b.length).length - b.length < (encBufs bs).length := by
          simp [encBufs] at hn; omega
        rw [ih _ hlen]

/-- **C06-T5**: every strict prefix of a serialized allocator is refused by `Deserialize` -/
theorem prefix_fails (a b : Nat) (bufs : List (List Nat)) (n : Nat)
    (hn : n < (serialize a b bufs).length) :
    deserialize bufs.length ((serialize a b bufs).take n) = none := by
  unfold deserialize serialize at *
  by_cases h1 : n < (encVar a).length
  · rw [List.take_append_of_le_length (by omega), readVar_prefix _ _ h1]
  · have hle : (encVar a).length ≤ n := by omega
    rw [List.take_append, List.take_of_length_le hle, readVar_encVar]
    simp only
    by_cases h2 : n - (encVar a).length < (encVar b).length
    · rw [List.take_append_of_le_length (by omega), readVar_prefix _ _ h2]
    · have hle2 : (encVar b).length ≤ n - (encVar a).length := by omega
      rw [List.take_append, List.take_of_length_le hle2, readVar_encVar]
      simp only
      have hlen : n - (encVar a).length - (encVar b).length < (encBufs bufs).length := by
        simp at hn; omega
      rw [readBufs_prefix _ _ hlen]

/-- non-vacuity: a concrete 7-buffer file reads back, and it has strict prefixes to which `prefix_fails` applies -/
example : deserialize 7 (serialize 300 2 [[1, 2], [], [3], [4, 5, 6], [], [7], [200, 9]]) =
    some (300, 2, [[1, 2], [], [3], [4, 5, 6], [], [7], [200, 9]]) :=
  deserialize_serialize 300 2 [[1, 2], [], [3], [4, 5, 6], [], [7], [200, 9]]

example (a b : Nat) (bufs : List (List Nat)) : 0 < (serialize a b bufs).length := by
  obtain ⟨pre, he, _⟩ := encVar_shape a
  simp [serialize, he]; omega

end HbF
