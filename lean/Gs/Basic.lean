/-! Model of BurndownAnalysis.groupSparseHistory (leaves/burndown.go). -/
namespace Gs

abbrev Sparse := List (Nat × List (Nat × Int))     -- tick ↦ (birth tick ↦ delta); ticks strictly ascending

def addAt (row : List Int) (x : Nat) (v : Int) : List Int := row.set x (row.getD x 0 + v)

/-- `for t, value := range history[tick] { sample[t/G] += value }` -/
def addAll (G : Nat) (row : List Int) (m : List (Nat × Int)) : List Int :=
  m.foldl (fun r (t, v) => addAt r (t / G) v) row

/-- rows prevsi+1..si := copy of row prevsi -/
def fillRows (rows : List (List Int)) (prevsi si : Nat) : List (List Int) :=
  let state := rows.getD prevsi []
  (List.range rows.length).map (fun i =>
    let dst := rows.getD i []
    if prevsi < i ∧ i ≤ si then state.take dst.length ++ dst.drop state.length else dst)

def loop (S G : Nat) : List (Nat × List (Nat × Int)) → List (List Int) → Nat → List (List Int)
  | [], rows, _ => rows
  | (tick, m) :: rest, rows, prevsi =>
    let si := tick / S
    let rows := if si > prevsi then fillRows rows prevsi si else rows
    let prevsi := if si > prevsi then si else prevsi
    loop S G rest (rows.set si (addAll G (rows.getD si []) m)) prevsi

def tooLate (lastTick : Option Nat) (mx : Nat) : Bool :=
  match lastTick with | some lt => decide (mx > lt) | none => false

inductive Out | dense (rows : List (List Int)) (lastTick : Nat) | panic (msg : String)

/-- `fixed = true`: every one of the `samples` rows is allocated (repair of D1) -/
def group (fixed : Bool) (S G : Nat) (h : Sparse) (lastTick : Option Nat) : Out :=
  match h.getLast? with
  | none => .panic "empty history"
  | some (mx, _) =>
    if tooLate lastTick mx then .panic "ticks corruption" else
    let lt := lastTick.getD mx
    let h' := if mx < lt then h ++ [(lt, [])] else h
    let samples := lt / S + 1
    let bands := lt / G + 1
    if !fixed && decide (bands > samples) then .panic "index out of range" else
    let alloc := if fixed then samples else bands
    let rows := (List.range samples).map (fun i => if i < alloc then List.replicate bands (0 : Int) else [])
    -- an unallocated row that is written to panics in Go
    let touched := h'.any (fun (tick, m) => decide (tick / S ≥ alloc) && !m.isEmpty)
    if touched then .panic "index out of range" else
    .dense (loop S G h' rows 0) lt

end Gs
