import Gs.Route
namespace Route

def keys {κ : Type} (t : Tab κ) : List κ := t.map (·.1)

theorem upd_not_mem {κ : Type} [DecidableEq κ] (t : Tab κ) (k : κ) (d : Int) (h : k ∉ keys t) :
    (t.map fun (k', v) => if k' = k then (k', v + d) else (k', v)) = t := by
  induction t with
  | nil => rfl
  | cons e t ih =>
    obtain ⟨k', v⟩ := e
    simp only [keys, List.map_cons, List.mem_cons, not_or] at h
    simp only [List.map_cons]
    rw [if_neg (fun e => h.1 e.symm), ih h.2]

theorem upd_keys {κ : Type} [DecidableEq κ] (t : Tab κ) (k : κ) (d : Int) :
    keys (t.map fun (k', v) => if k' = k then (k', v + d) else (k', v)) = keys t := by
  unfold keys
  rw [List.map_map]
  apply List.map_congr_left
  intro e _
  obtain ⟨k', v⟩ := e
  simp only [Function.comp]
  split <;> rfl

theorem tot_upd {κ : Type} [DecidableEq κ] (t : Tab κ) (k : κ) (d : Int) (hn : (keys t).Nodup) (hk : k ∈ keys t) :
    tot (t.map fun (k', v) => if k' = k then (k', v + d) else (k', v)) = tot t + d := by
  induction t with
  | nil => simp [keys] at hk
  | cons e t ih =>
    obtain ⟨k', v⟩ := e
    simp only [keys, List.map_cons, List.nodup_cons] at hn
    simp only [keys, List.map_cons, List.mem_cons] at hk
    simp only [List.map_cons, tot, List.sum_cons]
    by_cases hkk : k' = k
    · subst hkk
      rw [if_pos rfl, upd_not_mem t k' d hn.1]; simp only []; omega
    · rw [if_neg hkk]
      have hk' : k ∈ keys t := by
        rcases hk with h | h
        · exact absurd h.symm hkk
        · exact h
      have := ih hn.2 hk'
      simp only [tot] at this
      rw [this]; simp only []; omega

theorem bump_spec {κ : Type} [DecidableEq κ] (t : Tab κ) (k : κ) (d : Int) (hn : (keys t).Nodup) :
    tot (bump t k d) = tot t + d ∧ (keys (bump t k d)).Nodup := by
  unfold bump
  cases hfind : t.find? (·.1 = k) with
  | some e =>
    have hk : k ∈ keys t := by
      have h1 := List.mem_of_find?_eq_some hfind
      have h2 := List.find?_some hfind
      simp only [decide_eq_true_eq] at h2
      rw [← h2]; exact List.mem_map_of_mem h1
    exact ⟨tot_upd t k d hn hk, by rw [upd_keys]; exact hn⟩
  | none =>
    have hk : k ∉ keys t := by
      intro hk
      obtain ⟨e, he, hek⟩ := List.mem_map.1 hk
      have := List.find?_eq_none.1 hfind e he
      simp [hek] at this
    refine ⟨by simp [tot, List.sum_append], ?_⟩
    simp only [keys, List.map_append, List.map_cons, List.map_nil]
    rw [List.nodup_append]
    refine ⟨hn, by simp, ?_⟩
    intro a ha b hb
    simp at hb; subst hb
    intro e; exact hk (e ▸ ha)

def Good (a : Acc) : Prop := (keys a.global).Nodup ∧ (keys a.people).Nodup ∧ (keys a.matrix).Nodup

/-- does the report carry a known previous author? -/
def known (pn : Nat) (e : Ev) : Bool := pn != 0 && (unpack pn e.prev).1 != authorMissing

theorem step_spec (pn : Nat) (a a' : Acc) (e : Ev) (hg : Good a) (h : step pn a e = some a') :
    Good a' ∧ tot a'.global = tot a.global + e.delta ∧
    tot a'.people = tot a.people + (if known pn e then e.delta else 0) ∧
    tot a'.matrix = tot a.matrix + (if known pn e then e.delta else 0) := by
  unfold step at h
  obtain ⟨g1, g2, g3⟩ := hg
  have hb := bump_spec a.global ((unpack pn e.cur).2, (unpack pn e.prev).2) e.delta g1
  by_cases c0 : pn = 0
  · simp only [c0, if_true] at h
    simp at h; subst h
    have hb' := hb; simp only [c0] at hb'
    exact ⟨⟨hb'.2, g2, g3⟩, hb'.1, by simp [known, c0], by simp [known, c0]⟩
  · simp only [c0, if_false] at h
    by_cases c1 : (unpack pn e.prev).1 = authorMissing
    · simp only [c1, if_true] at h
      simp at h; subst h
      exact ⟨⟨hb.2, g2, g3⟩, hb.1, by simp [known, c1], by simp [known, c1]⟩
    · simp only [c1, if_false] at h
      by_cases c2 : (unpack pn e.prev).1 ≥ pn
      · simp [c2] at h
      · simp only [c2, if_false] at h
        simp at h; subst h
        have hp := bump_spec a.people ((unpack pn e.prev).1, (unpack pn e.cur).2, (unpack pn e.prev).2) e.delta g2
        have hm := bump_spec a.matrix ((unpack pn e.prev).1,
          if (unpack pn e.cur).1 = (unpack pn e.prev).1 ∧ e.delta > 0 then authorSelf else (unpack pn e.cur).1) e.delta g3
        have hk : known pn e = true := by simp [known, c0, c1]
        exact ⟨⟨hb.2, hp.2, hm.2⟩, hb.1, by simp [hk, hp.1], by simp [hk, hm.1]⟩

/-- **C01 bookkeeping**: the global history accounts for every reported delta; the per-developer histories and
    the ownership matrix both account for exactly the deltas whose previous author is known — so they agree
    with each other, and with the global history when every line has a known author. -/
theorem run_totals (pn : Nat) (evs : List Ev) (a : Acc) (h : run pn evs = some a) :
    tot a.global = (evs.map (·.delta)).sum ∧
    tot a.people = (evs.map fun e => if known pn e then e.delta else 0).sum ∧
    tot a.matrix = tot a.people := by
  unfold run at h
  suffices hs : ∀ (evs : List Ev) (a0 a : Acc), Good a0 → evs.foldlM (step pn) a0 = some a →
      Good a ∧ tot a.global = tot a0.global + (evs.map (·.delta)).sum ∧
      tot a.people = tot a0.people + (evs.map fun e => if known pn e then e.delta else 0).sum ∧
      tot a.matrix = tot a0.matrix + (evs.map fun e => if known pn e then e.delta else 0).sum by
    have := hs evs ⟨[], [], []⟩ a ⟨by simp [keys], by simp [keys], by simp [keys]⟩ h
    obtain ⟨_, h1, h2, h3⟩ := this
    simp only [tot, List.map_nil, List.sum_nil, Int.zero_add] at h1 h2 h3
    exact ⟨h1, h2, by simp only [tot]; rw [h3, h2]⟩
  intro evs
  induction evs with
  | nil => intro a0 a hg h; simp [List.foldlM] at h; subst h; simp [hg]
  | cons e evs ih =>
    intro a0 a hg h
    simp only [List.foldlM_cons] at h
    cases hs : step pn a0 e with
    | none => simp [hs] at h
    | some a1 =>
      simp [hs] at h
      obtain ⟨g1, s1, s2, s3⟩ := step_spec pn a0 a1 e hg hs
      obtain ⟨g2, t1, t2, t3⟩ := ih a1 a g1 h
      refine ⟨g2, ?_, ?_, ?_⟩
      · rw [t1, s1]; simp only [List.map_cons, List.sum_cons]; omega
      · rw [t2, s2]; simp only [List.map_cons, List.sum_cons]; omega
      · rw [t3, s3]; simp only [List.map_cons, List.sum_cons]; omega

end Route
