/-! Model of the burndown delta routing (leaves/burndown.go): updateGlobal, updateAuthor, updateMatrix applied
    to every (currentTime, previousTime, delta) report of File.Update. -/
namespace Route

def authorMissing : Nat := 2 ^ 18 - 2
def authorSelf : Nat := 2 ^ 18 - 3

/-- unpackPersonWithTick -/
def unpack (peopleNumber : Nat) (v : Nat) : Nat × Nat :=
  if peopleNumber = 0 then (authorMissing, v) else (v >>> 14, v &&& 16383)

structure Ev where
  cur : Nat
  prev : Nat
  delta : Int
  deriving Repr

abbrev Tab (κ : Type) := List (κ × Int)

def bump {κ : Type} [DecidableEq κ] (t : Tab κ) (k : κ) (d : Int) : Tab κ :=
  match t.find? (·.1 = k) with
  | some _ => t.map fun (k', v) => if k' = k then (k', v + d) else (k', v)
  | none => t ++ [(k, d)]

structure Acc where
  global : Tab (Nat × Nat)            -- (current tick, birth tick)
  people : Tab (Nat × Nat × Nat)      -- (previous author, current tick, birth tick)
  matrix : Tab (Nat × Nat)            -- (old author, new author or authorSelf)
  deriving Repr

inductive Res | ok (a : Acc) | panic

def step (pn : Nat) (a : Acc) (e : Ev) : Option Acc :=
  let (newA, curT) := unpack pn e.cur
  let (oldA, prevT) := unpack pn e.prev
  let g := bump a.global (curT, prevT) e.delta
  if pn = 0 then some { a with global := g } else           -- only updateGlobal is installed
  if oldA = authorMissing then some { a with global := g } else
  if oldA ≥ pn then none else                               -- index out of range in peopleHistories / matrix
  let newA' := if newA = oldA ∧ e.delta > 0 then authorSelf else newA
  some ⟨g, bump a.people (oldA, curT, prevT) e.delta, bump a.matrix (oldA, newA') e.delta⟩

def run (pn : Nat) (evs : List Ev) : Option Acc :=
  evs.foldlM (step pn) ⟨[], [], []⟩

def tot {κ : Type} (t : Tab κ) : Int := (t.map (·.2)).sum

end Route
