import Gs.Top
open Gs
#print axioms group_spec
#print axioms loop_spec
-- non-vacuity: a concrete well-formed history
example : WF [(0, [(0, 5)]), (4, [(0, -2), (4, 7)])] := by
  refine ⟨by simp, ?_⟩
  intro e he kv hk
  simp at he
  rcases he with rfl | rfl <;> simp at hk <;> (try rcases hk with rfl | rfl) <;> simp_all
-- D1 witness on the pinned allocation: sampling 1 < granularity 2, last tick 3
example : (match group false 1 2 [(0, [(0, 5)]), (3, [(3, 1)])] none with | .panic _ => true | _ => false) = true := by decide
example : (match group true 1 2 [(0, [(0, 5)]), (3, [(3, 1)])] none with | .dense r _ => r == [[5,0],[5,0],[5,0],[5,1]] | _ => false) = true := by decide
