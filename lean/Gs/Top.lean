import Gs.Loop
namespace Gs

/-- well-formed sparse history: ticks ascending, every birth tick ≤ its tick -/
def WF (h : Sparse) : Prop :=
  h.Pairwise (fun a b => a.1 ≤ b.1) ∧ ∀ e ∈ h, ∀ kv ∈ e.2, kv.1 ≤ e.1

theorem cellSpec_nil_row (S G : Nat) (h : Sparse) (lt y x : Nat) :
    cellSpec S G (h ++ [(lt, [])]) y x = cellSpec S G h y x := by
  rw [cellSpec_append, cellSpec_single]; simp [rowSum]

/-- **C01 dense-matrix theorem** (repaired allocation): for a well-formed history whose largest tick is
    `mx`, with `lastTick` absent or ≥ `mx`, the result is a `(lt/S+1) × (lt/G+1)` matrix whose cell
    `(y, x)` is the sum of all deltas recorded at ticks of sample ≤ `y` for birth ticks of band `x`. -/
theorem group_spec (S G : Nat) (hS : 0 < S) (hG : 0 < G) (h : Sparse) (last : Nat × List (Nat × Int))
    (hlast : h.getLast? = some last) (hwf : WF h) (lastTick : Option Nat)
    (hlt : ∀ lt, lastTick = some lt → last.1 ≤ lt) :
    ∃ rows, group true S G h lastTick = .dense rows (lastTick.getD last.1) ∧
      rows.length = lastTick.getD last.1 / S + 1 ∧
      (∀ j < rows.length, (rows.getD j []).length = lastTick.getD last.1 / G + 1) ∧
      ∀ y < rows.length, ∀ x, cell rows y x = cellSpec S G h y x := by
  obtain ⟨mx, lm⟩ := last
  have hmem : (mx, lm) ∈ h := List.mem_of_getLast? hlast
  have hmax : ∀ e ∈ h, e.1 ≤ mx := by
    intro e he
    obtain ⟨pre, rfl⟩ : ∃ pre, h = pre ++ [(mx, lm)] := by
      have := List.getLast?_eq_some_iff.1 hlast; exact this
    rcases List.mem_append.1 he with hp | hp
    · exact (List.pairwise_append.1 hwf.1).2.2 e hp (mx, lm) (by simp)
    · simp at hp; subst hp; exact Nat.le_refl _
  generalize hL : lastTick.getD mx = lt
  have hmxlt : mx ≤ lt := by
    cases lastTick with
    | none => simp at hL; omega
    | some l => simp at hL; subst hL; exact hlt l rfl
  unfold group
  simp only [hlast]
  have hbad : tooLate lastTick mx = false := by
    unfold tooLate
    cases lastTick with
    | none => rfl
    | some l => have := hlt l rfl; simp at this ⊢; omega
  simp only [hbad, Bool.false_eq_true, if_false, hL, Bool.not_true, Bool.false_and, if_true]
  -- the (possibly extended) tick list
  generalize hh' : (if mx < lt then h ++ [(lt, [])] else h) = h'
  have hspec' : ∀ y x, cellSpec S G h' y x = cellSpec S G h y x := by
    intro y x; subst hh'; split
    · exact cellSpec_nil_row S G h lt y x
    · rfl
  have hpw' : h'.Pairwise (fun a b => a.1 ≤ b.1) := by
    subst hh'; split
    · rw [List.pairwise_append]
      refine ⟨hwf.1, by simp, ?_⟩
      intro a ha b hb; simp at hb; subst hb; exact Nat.le_trans (hmax a ha) hmxlt
    · exact hwf.1
  have hmem' : ∀ e ∈ h', e.1 ≤ lt ∧ ∀ kv ∈ e.2, kv.1 ≤ e.1 := by
    intro e he; subst hh'
    split at he
    · rcases List.mem_append.1 he with hp | hp
      · exact ⟨Nat.le_trans (hmax e hp) hmxlt, hwf.2 e hp⟩
      · simp at hp; subst hp; simp
    · exact ⟨Nat.le_trans (hmax e he) hmxlt, hwf.2 e he⟩
  have hlast' : ∃ e ∈ h', e.1 = lt := by
    subst hh'; split
    · exact ⟨(lt, []), by simp, rfl⟩
    · exact ⟨(mx, lm), hmem, by simp; omega⟩
  have htouched : (h'.any fun x => decide (x.1 / S ≥ lt / S + 1) && !x.2.isEmpty) = false := by
    rw [List.any_eq_false]
    intro e he
    have := (hmem' e he).1
    have : e.1 / S ≤ lt / S := Nat.div_le_div_right this
    simp; intro; omega
  simp only [htouched, Bool.false_eq_true, if_false]
  generalize hrows0 : (List.map (fun i => if i < lt / S + 1 then List.replicate (lt / G + 1) (0 : Int) else [])
      (List.range (lt / S + 1))) = rows0
  have hlen0 : rows0.length = lt / S + 1 := by subst hrows0; simp
  have hget0 : ∀ j < lt / S + 1, rows0.getD j [] = List.replicate (lt / G + 1) (0 : Int) := by
    intro j hj; subst hrows0
    simp [List.getD_eq_getElem?_getD, List.getElem?_range hj, hj]
  have := loop_spec S G (lt / G + 1) (lt / S + 1) h' [] rows0 0 hlen0 (Nat.succ_pos _)
    (by intro j hj; rw [hget0 j hj]; simp) hpw' (by intro e _; exact Nat.zero_le _)
    (by
      intro e he
      obtain ⟨h1, h2⟩ := hmem' e he
      refine ⟨Nat.lt_succ_of_le (Nat.div_le_div_right h1), ?_⟩
      intro kv hk
      exact Nat.lt_succ_of_le (Nat.div_le_div_right (Nat.le_trans (h2 kv hk) h1)))
    (by simp)
    (by
      intro y hy x
      have : y = 0 := by omega
      subst this
      unfold cell; rw [hget0 0 (Nat.succ_pos _)]
      simp [cellSpec, List.getD_eq_getElem?_getD, List.getElem?_replicate]
      split <;> rfl)
  obtain ⟨l1, l2, l3⟩ := this
  refine ⟨_, rfl, l1, by rw [l1]; exact l2, ?_⟩
  intro y hy x
  rw [l1] at hy
  obtain ⟨e, he, hel⟩ := hlast'
  have hfp : lt / S ≤ finalPrev S h' 0 := by
    have := finalPrev_ge_mem S h' 0 e he
    rw [hel] at this; exact this
  have := l3 y (by omega) x
  simp only [List.nil_append] at this
  rw [this, hspec']

end Gs
