import Gs.Spec
namespace Gs

theorem cellSpec_single (S G : Nat) (e : Nat × List (Nat × Int)) (y x : Nat) :
    cellSpec S G [e] y x = if e.1 / S ≤ y then rowSum G e.2 x else 0 := by
  simp [cellSpec]

/-- state after the optional fill step -/
theorem fill_spec (S G B n : Nat) (done : Sparse) (rows : List (List Int)) (prevsi si : Nat)
    (hlen : rows.length = n) (hp : prevsi < n) (hsi : si < n) (hle : prevsi ≤ si)
    (hrow : ∀ j < n, (rows.getD j []).length = B)
    (hdone : ∀ e ∈ done, e.1 / S ≤ prevsi)
    (hinv : ∀ y ≤ prevsi, ∀ x, cell rows y x = cellSpec S G done y x) :
    let rows1 := if si > prevsi then fillRows rows prevsi si else rows
    rows1.length = n ∧ (∀ j < n, (rows1.getD j []).length = B) ∧
    ∀ y ≤ si, ∀ x, cell rows1 y x = cellSpec S G done y x := by
  intro rows1
  by_cases hgt : si > prevsi
  · have e1 : rows1 = fillRows rows prevsi si := by simp [rows1, hgt]
    have hg : ∀ i < n, rows1.getD i [] = if prevsi < i ∧ i ≤ si then rows.getD prevsi [] else rows.getD i [] := by
      intro i hi
      rw [e1]
      exact fillRows_getD rows prevsi si i B (by omega) (by omega) (by rw [hlen]; exact hrow)
    refine ⟨by rw [e1, fillRows_length, hlen], ?_, ?_⟩
    · intro j hj
      rw [hg j hj]
      split
      · exact hrow prevsi hp
      · exact hrow j hj
    · intro y hy x
      unfold cell
      rw [hg y (by omega)]
      by_cases c : prevsi < y ∧ y ≤ si
      · rw [if_pos c]
        have := hinv prevsi (Nat.le_refl _) x
        unfold cell at this
        rw [this]
        exact cellSpec_all S G done prevsi y x hdone (fun e he => Nat.le_trans (hdone e he) (by omega))
      · rw [if_neg c]
        have := hinv y (by omega) x
        unfold cell at this
        exact this
  · have e1 : rows1 = rows := by simp [rows1, hgt]
    have : si = prevsi := by omega
    subst this
    rw [e1]
    exact ⟨hlen, hrow, hinv⟩

theorem getD_set_rows (rows : List (List Int)) (si j : Nat) (r : List Int) (hsi : si < rows.length) :
    (rows.set si r).getD j [] = if j = si then r else rows.getD j [] := by
  by_cases e : j = si
  · subst e; simp [List.getD_eq_getElem?_getD, List.getElem?_set, hsi]
  · have : ¬ si = j := fun h => e h.symm
    simp [List.getD_eq_getElem?_getD, List.getElem?_set, e, this]

theorem loop_spec (S G B n : Nat) (rest : Sparse) :
    ∀ (done : Sparse) (rows : List (List Int)) (prevsi : Nat),
    rows.length = n → prevsi < n →
    (∀ j < n, (rows.getD j []).length = B) →
    rest.Pairwise (fun a b => a.1 ≤ b.1) →
    (∀ e ∈ rest, prevsi ≤ e.1 / S) →
    (∀ e ∈ rest, e.1 / S < n ∧ ∀ kv ∈ e.2, kv.1 / G < B) →
    (∀ e ∈ done, e.1 / S ≤ prevsi) →
    (∀ y ≤ prevsi, ∀ x, cell rows y x = cellSpec S G done y x) →
    (loop S G rest rows prevsi).length = n ∧
    (∀ j < n, ((loop S G rest rows prevsi).getD j []).length = B) ∧
    ∀ y ≤ finalPrev S rest prevsi, ∀ x,
      cell (loop S G rest rows prevsi) y x = cellSpec S G (done ++ rest) y x := by
  induction rest with
  | nil =>
    intro done rows prevsi hlen hp hrow _ _ _ _ hinv
    simp only [loop, finalPrev, List.foldl_nil, List.append_nil]
    exact ⟨hlen, hrow, hinv⟩
  | cons e rest ih =>
    intro done rows prevsi hlen hp hrow hpw hge hrange hdone hinv
    obtain ⟨tick, m⟩ := e
    have hsi : tick / S < n := (hrange (tick, m) (by simp)).1
    have hle : prevsi ≤ tick / S := hge (tick, m) (by simp)
    have hm : ∀ kv ∈ m, kv.1 / G < B := (hrange (tick, m) (by simp)).2
    obtain ⟨f1, f2, f3⟩ := fill_spec S G B n done rows prevsi (tick / S) hlen hp hsi hle hrow hdone hinv
    simp only [loop]
    generalize hr1 : (if tick / S > prevsi then fillRows rows prevsi (tick / S) else rows) = rows1 at f1 f2 f3
    have hp' : (if tick / S > prevsi then tick / S else prevsi) = tick / S := by split <;> omega
    rw [hp']
    have hfp : finalPrev S ((tick, m) :: rest) prevsi = finalPrev S rest (tick / S) := by
      simp only [finalPrev, List.foldl_cons]
      congr 1
      exact Nat.max_eq_right hle
    rw [hfp]
    have happ : done ++ (tick, m) :: rest = (done ++ [(tick, m)]) ++ rest := by simp
    rw [happ]
    have hg : ∀ j, (rows1.set (tick / S) (addAll G (rows1.getD (tick / S) []) m)).getD j [] =
        if j = tick / S then addAll G (rows1.getD (tick / S) []) m else rows1.getD j [] :=
      fun j => getD_set_rows rows1 _ j _ (by omega)
    apply ih
    · simp [f1]
    · exact hsi
    · intro j hj
      rw [hg j]
      split
      · rw [addAll_length]; exact f2 _ hsi
      · exact f2 j hj
    · exact (List.pairwise_cons.1 hpw).2
    · intro e' he'
      have := (List.pairwise_cons.1 hpw).1 e' he'
      exact Nat.div_le_div_right this
    · intro e' he'; exact hrange e' (by simp [he'])
    · intro e' he'
      rcases List.mem_append.1 he' with h | h
      · exact Nat.le_trans (hdone e' h) hle
      · simp at h; subst h; exact Nat.le_refl _
    · intro y hy x
      rw [cellSpec_append, cellSpec_single]
      unfold cell
      rw [hg y]
      by_cases c : y = tick / S
      · subst c
        rw [if_pos rfl, if_pos (Nat.le_refl _)]
        rw [addAll_getD G m _ x (by intro kv hk; rw [f2 _ hsi]; exact hm kv hk)]
        have := f3 (tick / S) (Nat.le_refl _) x
        unfold cell at this
        rw [this]
      · rw [if_neg c, if_neg (by show ¬ (tick, m).1 / S ≤ y; simp only; omega)]
        have := f3 y hy x
        unfold cell at this
        rw [this]; omega

end Gs
