import Gs.Basic
namespace Gs

def rowSum (G : Nat) (m : List (Nat × Int)) (x : Nat) : Int :=
  (m.map (fun kv => if kv.1 / G = x then kv.2 else 0)).sum

/-- ground truth of one cell: everything recorded at ticks of sample ≤ y for birth band x -/
def cellSpec (S G : Nat) (h : Sparse) (y x : Nat) : Int :=
  (h.map (fun e => if e.1 / S ≤ y then rowSum G e.2 x else 0)).sum

def cell (rows : List (List Int)) (y x : Nat) : Int := (rows.getD y []).getD x 0

theorem addAt_length (row : List Int) (x : Nat) (v : Int) : (addAt row x v).length = row.length := by
  simp [addAt]

theorem addAt_getD (row : List Int) (x' x : Nat) (v : Int) (h : x' < row.length) :
    (addAt row x' v).getD x 0 = row.getD x 0 + (if x' = x then v else 0) := by
  unfold addAt
  by_cases e : x' = x
  · subst e; simp [List.getD_eq_getElem?_getD, List.getElem?_set, h]
  · simp [List.getD_eq_getElem?_getD, List.getElem?_set, e]

theorem addAll_length (G : Nat) (m : List (Nat × Int)) (row : List Int) :
    (addAll G row m).length = row.length := by
  unfold addAll
  induction m generalizing row with
  | nil => rfl
  | cons kv m ih => simp only [List.foldl_cons]; rw [ih]; exact addAt_length _ _ _

theorem addAll_getD (G : Nat) (m : List (Nat × Int)) (row : List Int) (x : Nat)
    (h : ∀ kv ∈ m, kv.1 / G < row.length) :
    (addAll G row m).getD x 0 = row.getD x 0 + rowSum G m x := by
  unfold addAll rowSum
  induction m generalizing row with
  | nil => simp
  | cons kv m ih =>
    simp only [List.foldl_cons, List.map_cons, List.sum_cons]
    rw [ih]
    · rw [addAt_getD _ _ _ _ (h kv (by simp))]; omega
    · intro kv' hk; rw [addAt_length]; exact h kv' (by simp [hk])

theorem cellSpec_append (S G : Nat) (a b : Sparse) (y x : Nat) :
    cellSpec S G (a ++ b) y x = cellSpec S G a y x + cellSpec S G b y x := by
  simp [cellSpec, List.sum_append]

theorem cellSpec_all (S G : Nat) (h : Sparse) (y y' x : Nat)
    (h1 : ∀ e ∈ h, e.1 / S ≤ y) (h2 : ∀ e ∈ h, e.1 / S ≤ y') :
    cellSpec S G h y x = cellSpec S G h y' x := by
  unfold cellSpec
  congr 1
  apply List.map_congr_left
  intro e he
  simp [h1 e he, h2 e he]

def finalPrev (S : Nat) (rest : Sparse) (p : Nat) : Nat := rest.foldl (fun p e => max p (e.1 / S)) p

theorem finalPrev_ge (S : Nat) (rest : Sparse) (p : Nat) : p ≤ finalPrev S rest p := by
  unfold finalPrev
  induction rest generalizing p with
  | nil => simp
  | cons e rest ih => simp only [List.foldl_cons]; exact Nat.le_trans (Nat.le_max_left _ _) (ih _)

theorem finalPrev_ge_mem (S : Nat) (rest : Sparse) (p : Nat) (e : Nat × List (Nat × Int)) (he : e ∈ rest) :
    e.1 / S ≤ finalPrev S rest p := by
  unfold finalPrev
  induction rest generalizing p with
  | nil => simp at he
  | cons a rest ih =>
    simp only [List.foldl_cons]
    rcases List.mem_cons.1 he with rfl | h
    · exact Nat.le_trans (Nat.le_max_right _ _) (finalPrev_ge S rest _)
    · exact ih _ h

theorem fillRows_length (rows : List (List Int)) (p si : Nat) : (fillRows rows p si).length = rows.length := by
  simp [fillRows]

theorem fillRows_getD (rows : List (List Int)) (p si i B : Nat) (hi : i < rows.length)
    (hp : p < rows.length)
    (hrow : ∀ j < rows.length, (rows.getD j []).length = B) :
    (fillRows rows p si).getD i [] = if p < i ∧ i ≤ si then rows.getD p [] else rows.getD i [] := by
  unfold fillRows
  simp only [List.getD_eq_getElem?_getD, List.getElem?_map, List.getElem?_range hi, Option.map_some,
    Option.getD_some]
  split
  · have h1 := hrow i hi
    have h2 := hrow p hp
    simp only [List.getD_eq_getElem?_getD] at h1 h2
    simp only [h1, h2]
    rw [List.take_of_length_le (by omega), List.drop_of_length_le (by omega)]; simp
  · rfl

end Gs
