/-! Model of `File.Merge` (internal/burndown/file.go) at the per-line level, and its pointwise law (C07). -/
namespace Mg

def MARK : Nat := 16383
def tick (v : Nat) : Nat := v % (MARK + 1)
def isMark (v : Nat) : Bool := tick v == MARK

/-- one iteration of the inner loop: `l` is my value, `ol` the other copy's -/
def step (l ol : Nat) : Nat :=
  if isMark ol then l
  else if isMark l || tick l > tick ol then ol
  else l

/-- reconcile my line with the other copies, in order -/
def reconcile (l : Nat) (ols : List Nat) : Nat := ols.foldl step l

/-- per-line result and the number of `(day, day, +1)` reports -/
def resolve (day l : Nat) (ols : List Nat) : Nat × Nat :=
  let r := reconcile l ols
  if isMark r then (day, if isMark day then 0 else 1) else (r, 0)

/-- specification, left to right: the earliest copy with the smallest tick among the non-marks seen -/
def pick (cur : Option Nat) (v : Nat) : Option Nat :=
  if isMark v then cur
  else match cur with
    | none => some v
    | some b => if tick v < tick b then some v else some b

def bestFrom (cur : Option Nat) (vs : List Nat) : Option Nat := vs.foldl pick cur

/-- relation between the loop accumulator and the specification state -/
def Rel (acc : Nat) (cur : Option Nat) : Prop :=
  match cur with
  | none => isMark acc = true
  | some b => acc = b ∧ isMark b = false

theorem step_rel (acc : Nat) (cur : Option Nat) (v : Nat) (h : Rel acc cur) :
    Rel (step acc v) (pick cur v) := by
  unfold step pick
  cases hv : isMark v with
  | true => simpa [hv] using h
  | false =>
    cases cur with
    | none =>
      simp only [Rel] at h
      simp [h, hv, Rel]
    | some b =>
      obtain ⟨rfl, hb⟩ := h
      simp only [hb, Bool.false_or, Bool.false_eq_true, ↓reduceIte]
      by_cases hlt : tick v < tick acc
      · simp [hlt, Rel, hv]
      · simp [hlt, Rel, hb]

theorem reconcile_rel (l : Nat) (ols : List Nat) (cur : Option Nat) (h : Rel l cur) :
    Rel (reconcile l ols) (bestFrom cur ols) := by
  induction ols generalizing l cur with
  | nil => simpa [reconcile, bestFrom] using h
  | cons v vs ih =>
    simp only [reconcile, bestFrom, List.foldl_cons]
    exact ih _ _ (step_rel l cur v h)

def start (l : Nat) : Option Nat := if isMark l then none else some l

theorem rel_start (l : Nat) : Rel l (start l) := by
  unfold start Rel; cases h : isMark l <;> simp [h]

/-- **C07-T1 (pointwise law)**: the merged line is the earliest copy with the smallest real tick,
    or the merge tick if every copy carries the mark (then exactly one line is reported). -/
theorem resolve_spec (day l : Nat) (ols : List Nat) :
    resolve day l ols =
      match bestFrom (start l) ols with
      | some b => (b, 0)
      | none => (day, if isMark day then 0 else 1) := by
  have h := reconcile_rel l ols (start l) (rel_start l)
  unfold resolve
  cases hb : bestFrom (start l) ols with
  | none => rw [hb] at h; simp only [Rel] at h; simp [h]
  | some b => rw [hb] at h; obtain ⟨e, hm⟩ := h; simp [e, hm]

/-- what `bestFrom` returns, declaratively -/
theorem bestFrom_spec (vs : List Nat) (cur : Option Nat) :
    match bestFrom cur vs with
    | none => cur = none ∧ ∀ v ∈ vs, isMark v = true
    | some b => (cur = some b ∨ (b ∈ vs ∧ isMark b = false)) ∧
                (∀ c, cur = some c → tick b ≤ tick c) ∧
                (∀ v ∈ vs, isMark v = false → tick b ≤ tick v) := by
  induction vs generalizing cur with
  | nil =>
    cases cur with
    | none => simp [bestFrom]
    | some c => simp [bestFrom]
  | cons v vs ih =>
    have := ih (pick cur v)
    simp only [bestFrom, List.foldl_cons] at this ⊢
    cases hb : List.foldl pick (pick cur v) vs with
    | none =>
      rw [hb] at this
      obtain ⟨hp, hall⟩ := this
      unfold pick at hp
      cases hv : isMark v with
      | true => simp [hv] at hp; exact ⟨hp, by intro w hw; rcases List.mem_cons.mp hw with rfl | h; exact hv; exact hall w h⟩
      | false => cases cur <;> simp [hv] at hp <;> (split at hp <;> simp at hp)
    | some b =>
      rw [hb] at this
      obtain ⟨hsrc, hle, hall⟩ := this
      unfold pick at hsrc hle
      cases hv : isMark v with
      | true =>
        simp only [hv, ↓reduceIte] at hsrc hle
        refine ⟨?_, hle, ?_⟩
        · rcases hsrc with h | h
          · exact Or.inl h
          · exact Or.inr ⟨List.mem_cons_of_mem _ h.1, h.2⟩
        · intro w hw hwm
          rcases List.mem_cons.mp hw with rfl | h
          · simp [hv] at hwm
          · exact hall w h hwm
      | false =>
        simp only [hv, Bool.false_eq_true, ↓reduceIte] at hsrc hle
        cases cur with
        | none =>
          simp only at hsrc hle
          refine ⟨Or.inr ?_, by simp, ?_⟩
          · rcases hsrc with h | h
            · simp at h; subst h; exact ⟨by simp, hv⟩
            · exact ⟨List.mem_cons_of_mem _ h.1, h.2⟩
          · intro w hw hwm
            rcases List.mem_cons.mp hw with rfl | h
            · exact hle _ rfl
            · exact hall w h hwm
        | some c =>
          simp only at hsrc hle
          by_cases hlt : tick v < tick c
          · simp only [hlt, ↓reduceIte] at hsrc hle
            refine ⟨Or.inr ?_, ?_, ?_⟩
            · rcases hsrc with h | h
              · simp at h; subst h; exact ⟨by simp, hv⟩
              · exact ⟨List.mem_cons_of_mem _ h.1, h.2⟩
            · intro c' hc'; simp at hc'; subst hc'; have := hle _ rfl; omega
            · intro w hw hwm
              rcases List.mem_cons.mp hw with rfl | h
              · exact hle _ rfl
              · exact hall w h hwm
          · simp only [hlt, ↓reduceIte] at hsrc hle
            refine ⟨?_, ?_, ?_⟩
            · rcases hsrc with h | h
              · exact Or.inl h
              · exact Or.inr ⟨List.mem_cons_of_mem _ h.1, h.2⟩
            · intro c' hc'; simp at hc'; subst hc'; exact hle _ rfl
            · intro w hw hwm
              rcases List.mem_cons.mp hw with rfl | h
              · have := hle _ rfl; omega
              · exact hall w h hwm

end Mg
