import Idn.Basic
import Idn.Descr

/-! # C16 — property theorems (statements only; proofs live in the family libraries) -/

set_option linter.unusedVariables false

namespace Props.C16

section
open Idn

theorem consume_total :
    ∀ (cs : List (Nat × Nat)) (c : Nat × Nat) (hc : c ∈ cs),
    ∃ id, consume (generate cs).dict c = some id ∧ id < (generate cs).size :=
  @Idn.consume_total
end

section
open Idn

theorem consume_same_email :
    ∀ (cs : List (Nat × Nat)) (c c' : Nat × Nat) (hc : c ∈ cs) (he : c.2 = c'.2),
    consume (generate cs).dict c = consume (generate cs).dict c' :=
  @Idn.consume_same_email
end

section
open Idn

/-- a developer's description lists exactly the names and e-mails that resolve to it -/
theorem descr_exact :
    ∀ (cs : List (Nat × Nat)) (k i : Nat),
    k ∈ descr (generateD cs) i ↔ find (generate cs).dict k = some i :=
  @Idn.descr_exact

/-- generated lists are well formed: no name or e-mail is shared by two developers -/
theorem descr_disjoint :
    ∀ (cs : List (Nat × Nat)) (k i j : Nat)
    (hi : k ∈ descr (generateD cs) i) (hj : k ∈ descr (generateD cs) j), i = j :=
  @Idn.descr_disjoint
end

end Props.C16
