import Idn.Basic
import Idn.Descr
import Idn.MergeIndex

/-! # C16 — property theorems (statements only; proofs live in the family libraries) -/

set_option linter.unusedVariables false

namespace Props.C16

section
open Idn

theorem consume_total :
    ∀ (cs : List (Nat × Nat)) (c : Nat × Nat) (hc : c ∈ cs),
    ∃ id, consume (generate cs).dict c = some id ∧ id < (generate cs).size :=
  @Idn.consume_total
end

section
open Idn

theorem consume_same_email :
    ∀ (cs : List (Nat × Nat)) (c c' : Nat × Nat) (hc : c ∈ cs) (he : c.2 = c'.2),
    consume (generate cs).dict c = consume (generate cs).dict c' :=
  @Idn.consume_same_email
end

section
open Idn

/-- a developer's description lists exactly the names and e-mails that resolve to it -/
theorem descr_exact :
    ∀ (cs : List (Nat × Nat)) (k i : Nat),
    k ∈ descr (generateD cs) i ↔ find (generate cs).dict k = some i :=
  @Idn.descr_exact

/-- generated lists are well formed: no name or e-mail is shared by two developers -/
theorem descr_disjoint :
    ∀ (cs : List (Nat × Nat)) (k i j : Nat)
    (hi : k ∈ descr (generateD cs) i) (hj : k ∈ descr (generateD cs) j), i = j :=
  @Idn.descr_disjoint
end

section
open IdnM

/-- merging (`MergeReversedDictsIdentities`): for input lists whose entries are pairwise token-disjoint (what
`descr_disjoint` establishes for generated lists) the walks are exactly the connected components of the
shares-a-name-or-e-mail relation: every identity lies inside one walk, walks share no token, no walk repeats a token,
and two tokens lie in one walk exactly when they are connected.  The merged descriptions are the walks
(`descr_eq`), so each is the union of its component's names and e-mails. -/
theorem walks_components :
    ∀ (rd1 rd2 : List Ident) (h1 : Disj rd1) (h2 : Disj rd2),
    (∀ id ∈ rd1 ++ rd2, id ≠ [] → ∃ w ∈ walks rd1 rd2, ∀ p ∈ id, p ∈ w) ∧
    (walks rd1 rd2).Pairwise (fun a b => ∀ x ∈ a, x ∉ b) ∧
    (∀ w ∈ walks rd1 rd2, w.Nodup) ∧
    (∀ w ∈ walks rd1 rd2, ∀ p ∈ w, ∀ q, q ∈ w ↔ Conn rd1 rd2 p q) :=
  @IdnM.walks_components

theorem descr_eq :
    ∀ (rd1 rd2 : List Ident), (mergeDicts rd1 rd2).2 = (walks rd1 rd2).map join :=
  @IdnM.descr_eq

/-- every input identity receives a merged index naming the walk that holds all of its tokens, and keeps the pointer to
its original position (`first` for the first list, `second` for the second) -/
theorem mergeDicts_index :
    ∀ (rd1 rd2 : List Ident) (h1 : Disj rd1) (h2 : Disj rd2)
    (hne : ∀ a ∈ rd1 ++ rd2, a ≠ [])
    (hj : ∀ a ∈ rd1 ++ rd2, ∀ b ∈ rd1 ++ rd2, join a = join b → a = b),
    (∀ (i : Nat) (a : Ident), rd1[i]? = some a → ∃ mi, lookupMI (mergeDicts rd1 rd2).1 (join a) = some mi ∧
      mi.first = (i : Int) ∧ ∃ w, (walks rd1 rd2)[mi.final]? = some w ∧ ∀ p ∈ a, p ∈ w) ∧
    (∀ (i : Nat) (a : Ident), rd2[i]? = some a → ∃ mi, lookupMI (mergeDicts rd1 rd2).1 (join a) = some mi ∧
      mi.second = (i : Int) ∧ ∃ w, (walks rd1 rd2)[mi.final]? = some w ∧ ∀ p ∈ a, p ∈ w) :=
  @IdnM.mergeDicts_index

/-- two identities share a merged index if and only if they are connected -/
theorem same_index_iff :
    ∀ (rd1 rd2 : List Ident) (h1 : Disj rd1) (h2 : Disj rd2)
    (hne : ∀ a ∈ rd1 ++ rd2, a ≠ [])
    (hj : ∀ a ∈ rd1 ++ rd2, ∀ b ∈ rd1 ++ rd2, join a = join b → a = b)
    (a b : Ident) (ha : a ∈ rd1 ++ rd2) (hb : b ∈ rd1 ++ rd2),
    ∃ ma mb, lookupMI (mergeDicts rd1 rd2).1 (join a) = some ma ∧ lookupMI (mergeDicts rd1 rd2).1 (join b) = some mb ∧
      (ma.final = mb.final ↔ ∀ p ∈ a, ∀ q ∈ b, Conn rd1 rd2 p q) :=
  @IdnM.same_index_iff

/-- the premises are decidable; the correspondence evaluates `premisesCheck` on every well-formed pair of lists -/
theorem premisesCheck_sound :
    ∀ (rd1 rd2 : List Ident) (h : premisesCheck rd1 rd2 = true),
    Disj rd1 ∧ Disj rd2 ∧ (∀ a ∈ rd1 ++ rd2, a ≠ []) ∧
    (∀ a ∈ rd1 ++ rd2, ∀ b ∈ rd1 ++ rd2, join a = join b → a = b) :=
  @IdnM.premisesCheck_sound
end

end Props.C16
