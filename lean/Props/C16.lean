import Idn.Basic

/-! # C16 — property theorems (statements only; proofs live in the family libraries) -/

set_option linter.unusedVariables false

namespace Props.C16

section
open Idn

theorem consume_total :
    ∀ (cs : List (Nat × Nat)) (c : Nat × Nat) (hc : c ∈ cs),
    ∃ id, consume (generate cs).dict c = some id ∧ id < (generate cs).size :=
  @Idn.consume_total
end

section
open Idn

theorem consume_same_email :
    ∀ (cs : List (Nat × Nat)) (c c' : Nat × Nat) (hc : c ∈ cs) (he : c.2 = c'.2),
    consume (generate cs).dict c = consume (generate cs).dict c' :=
  @Idn.consume_same_email
end

end Props.C16
