import Pl.Hib
import Pl.Erase2
import Pl.Awake

/-! # C04 — property theorems (statements only; proofs live in the family libraries) -/

set_option linter.unusedVariables false

namespace Props.C04

section
open Pl

theorem erase_insertHibernateBoot :
    ∀ (plan : List Action) (d : Nat) (h : ∀ a ∈ plan, isHB a = false),
    erase (insertHibernateBoot plan d) = plan :=
  @Pl.erase_insertHibernateBoot
end

section
open Pl

theorem erase_insertHB2 :
    ∀ (plan : List Action) (d : Nat) (h : ∀ a ∈ plan, isHB a = false),
    erase (insertHB2 plan d) = plan :=
  @Pl.erase_insertHB2
end

section
open Pl

theorem insertHB2_awake :
    ∀ (plan : List Action) (d b : Nat) (hp : PlainFor plan b),
    (insertHB2 plan d).foldl (stepB b) (some false) = some false :=
  @Pl.insertHB2_awake
end

end Props.C04
