import Pl.Hib
import Pl.Erase2
import Pl.Awake
import Pl.Lifecycle
import Pl.Gc

/-! # C04 — property theorems (statements only; proofs live in the family libraries) -/
set_option linter.unusedVariables false

namespace Props.C04

section
open Pl

theorem erase_insertHibernateBoot :
    ∀ (plan : List Action) (d : Nat) (h : ∀ a ∈ plan, isHB a = false),
    erase (insertHibernateBoot plan d) = plan :=
  @Pl.erase_insertHibernateBoot
end

section
open Pl

theorem erase_insertHB2 :
    ∀ (plan : List Action) (d : Nat) (h : ∀ a ∈ plan, isHB a = false),
    erase (insertHB2 plan d) = plan :=
  @Pl.erase_insertHB2
end

section
open Pl

theorem insertHB2_awake :
    ∀ (plan : List Action) (d b : Nat) (hp : PlainFor plan b),
    (insertHB2 plan d).foldl (stepB b) (some false) = some false :=
  @Pl.insertHB2_awake
end

section
open Pl

/-- a root branch is created only if it does not exist and was never disposed -/
theorem step_emerge_sound :
    ∀ (strict : Bool) (pa : Array (List Nat)) (anc : List (List Nat)) (s s' : St) (a : Action)
    (hk : a.kind = .emerge) (h : step strict pa anc s a = .ok s'),
    ∃ b, a.items = [b] ∧ s.get b = none ∧ b ∉ s.dead ∧ s'.get b = some ⟨[], none, false⟩ :=
  @Pl.step_emerge_sound

/-- a fork copies a live awake branch onto pairwise distinct branches that neither exist nor were disposed -/
theorem step_fork_sound :
    ∀ (strict : Bool) (pa : Array (List Nat)) (anc : List (List Nat)) (s s' : St) (a : Action)
    (hk : a.kind = .fork) (h : step strict pa anc s a = .ok s'),
    ∃ b bs br, a.items = b :: bs ∧ s.get b = some br ∧ br.hib = false ∧ bs ≠ [] ∧
      (dedup bs).length = bs.length ∧ ∀ x ∈ bs, s.get x = none ∧ x ∉ s.dead ∧ x ≠ b :=
  @Pl.step_fork_sound

/-- only a live awake branch is disposed; afterwards it is gone for good -/
theorem step_delete_sound :
    ∀ (strict : Bool) (pa : Array (List Nat)) (anc : List (List Nat)) (s s' : St) (a : Action)
    (hk : a.kind = .delete) (h : step strict pa anc s a = .ok s'),
    ∃ b br, a.items = [b] ∧ s.get b = some br ∧ br.hib = false ∧ b ∈ s'.dead ∧ s'.get b = none :=
  @Pl.step_delete_sound
end

section
open Pl

/-- garbage collection only inserts dispose actions -/
theorem erase_gc :
    ∀ (plan : List Action) (h : ∀ a ∈ plan, isDelete a = false),
    (collectGarbage plan).filter (fun a => !isDelete a) = plan :=
  @Pl.erase_gc

/-- the table behind it: `(b, i)` is recorded iff action `i` is the last one that mentions branch `b` (each branch once) -/
theorem lastMentioned_spec :
    ∀ (plan : List Action), LMInv plan plan.length (lastMentioned plan) :=
  @Pl.lastMentioned_spec

/-- the disposals of the branches recorded at index `i + j` come directly after action `i + j` -/
theorem gc_go_shape :
    ∀ (lm : List (Nat × Nat)) (ps : List Action) (i : Nat),
    collectGarbage.go lm i ps = ps.zipIdx.flatMap (fun pj =>
      pj.1 :: (((lm.filter (·.2 = i + pj.2)).map (·.1)).mergeSort (· ≤ ·)).map (fun b => (⟨.delete, 0, [b]⟩ : Action))) :=
  @Pl.gc_go_shape
end

end Props.C04
