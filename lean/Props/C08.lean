import Rb.World
import Bd.Frame

/-! # C08 — property theorems (statements only; proofs live in the family libraries) -/

set_option linter.unusedVariables false

namespace Props.C08

section
open Bd

theorem doOp_frame :
    ∀ (fixed merge : Bool) (w w' : W) (b author eff : Nat) (op : Op)
    (h : doOp fixed merge w b author eff op = .ok w') (b' : Nat) (hb : b' ≠ b),
    w'.br b' = w.br b' :=
  @Bd.doOp_frame
end

section
open Bd

theorem beginCommit_frame :
    ∀ (w : W) (b tick author : Nat) (merge : Bool) (b' : Nat) (hb : b' ≠ b),
    (beginCommit w b tick author merge).br b' = w.br b' :=
  @Bd.beginCommit_frame
end

section
open Bd

theorem endCommit_frame :
    ∀ (w : W) (b tick : Nat) (b' : Nat) (hb : b' ≠ b),
    (endCommit w b tick).br b' = w.br b' :=
  @Bd.endCommit_frame
end

section
open RbW RbM

/-- independence: an insertion into tree `t` changes no other tree (e.g. a clone living on a cloned allocator) and no
allocator other than the one `t` lives on -/
theorem insert_frame :
    ∀ (w w' : W) (t k v id : Nat) (ok : Bool) (h : w.insert t k v id = some (w', ok)),
    (∀ t2, t2 ≠ t → w'.tree t2 = w.tree t2) ∧
    (∀ a tr, w.tree t = some (a, tr) → ∀ a2, a2 ≠ a → w'.arena a2 = w.arena a2) :=
  @RbW.insert_frame

theorem delete_frame :
    ∀ (w w' : W) (t k : Nat) (ok : Bool) (h : w.delete t k = some (w', ok)),
    (∀ t2, t2 ≠ t → w'.tree t2 = w.tree t2) ∧
    (∀ a tr, w.tree t = some (a, tr) → ∀ a2, a2 ≠ a → w'.arena a2 = w.arena a2) :=
  @RbW.delete_frame
end

end Props.C08
