import Bd.Frame

/-! # C08 — property theorems (statements only; proofs live in the family libraries) -/

set_option linter.unusedVariables false

namespace Props.C08

section
open Bd

theorem doOp_frame :
    ∀ (fixed merge : Bool) (w w' : W) (b author eff : Nat) (op : Op)
    (h : doOp fixed merge w b author eff op = .ok w') (b' : Nat) (hb : b' ≠ b),
    w'.br b' = w.br b' :=
  @Bd.doOp_frame
end

section
open Bd

theorem beginCommit_frame :
    ∀ (w : W) (b tick author : Nat) (merge : Bool) (b' : Nat) (hb : b' ≠ b),
    (beginCommit w b tick author merge).br b' = w.br b' :=
  @Bd.beginCommit_frame
end

section
open Bd

theorem endCommit_frame :
    ∀ (w : W) (b tick : Nat) (b' : Nat) (hb : b' ≠ b),
    (endCommit w b tick).br b' = w.br b' :=
  @Bd.endCommit_frame
end

end Props.C08
