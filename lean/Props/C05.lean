import Rb.Iter
import Rb.Root
import Rb.RootDel
import Rb.Map
import Rb.Inv
import Rb.Lookup

/-! # C05 — property theorems (statements only; proofs live in the family libraries) -/

set_option linter.unusedVariables false

namespace Props.C05

section
open RbM
open Tree Color

theorem insert_shape :
    ∀ (t : Tree) (id k v : Nat) (h : RBShape t),
    RBShape (insert t id k v).1 :=
  @RbM.insert_shape
end

section
open RbM
open Tree Color

theorem delete_shape :
    ∀ (t : Tree) (k : Nat) (h : RBShape t),
    RBShape (delete t k).1 :=
  @RbM.delete_shape
end

section
open RbM
open Tree Color

theorem insert_toList :
    ∀ (t : Tree) (id k v : Nat) (hs : SortedKV t.toList),
    (descend k t [] = none ∧ (insert t id k v) = (t, false)) ∨
    (∃ A B, t.toList = A ++ B ∧ (insert t id k v).1.toList = A ++ (id, k, v) :: B ∧ (insert t id k v).2 = true ∧
      (∀ a ∈ A, a.2.1 < k) ∧ (∀ b ∈ B, k < b.2.1)) :=
  @RbM.insert_toList
end

section
open RbM
open Tree Color

theorem delete_toList :
    ∀ (t : Tree) (k : Nat) (hs : SortedKV t.toList),
    ((delete t k) = (t, none) ∧ ∀ i v, (i, k, v) ∉ t.toList) ∨
    (∃ A B i v, t.toList = A ++ (i, k, v) :: B ∧ (delete t k).1.toList = A ++ B ∧ (delete t k).2 = some i) :=
  @RbM.delete_toList
end

section
open RbM
open Tree Color

theorem reachable_inv :
    ∀ (ops : List RbOp),
    RBInv (ops.foldl applyOp nil) :=
  @RbM.reachable_inv
end

section
open RbM
open Tree Color

theorem findGE_spec :
    ∀ (t : Tree) (k : Nat) (hs : SortedKV t.toList),
    findGE t k = t.toList.find? (fun e => decide (k ≤ e.2.1)) :=
  @RbM.findGE_spec
end

section
open RbM
open Tree Color

theorem findLE_spec :
    ∀ (t : Tree) (k : Nat) (hs : SortedKV t.toList),
    findLE t k = t.toList.reverse.find? (fun e => decide (e.2.1 ≤ k)) :=
  @RbM.findLE_spec
end

section
open RbM
open Tree Color

/-- size, minimum, maximum, membership against the sorted in-order list -/
theorem size_spec : ∀ (t : Tree), t.size = t.toList.length := @RbM.size_spec
theorem minId_spec : ∀ (t : Tree), t.minId = (t.toList.head?.map (·.1)).getD 0 := @RbM.minId_spec
theorem maxId_spec : ∀ (t : Tree), t.maxId = (t.toList.getLast?.map (·.1)).getD 0 := @RbM.maxId_spec
theorem get_spec :
    ∀ (t : Tree) (k : Nat) (hs : SortedKV t.toList),
    get t k = (t.toList.find? (fun e => decide (e.2.1 = k))).map (·.2.2) :=
  @RbM.get_spec

/-- in-order and reverse iteration walk the sorted list one position at a time -/
theorem next_spec :
    ∀ (t : Tree) (hs : SortedKV t.toList) (i : Nat) (e : Ent) (he : t.toList[i]? = some e),
    next t e.2.1 = t.toList[i + 1]? :=
  @RbM.next_spec
theorem prev_spec :
    ∀ (t : Tree) (hs : SortedKV t.toList) (i : Nat) (e : Ent) (he : t.toList[i]? = some e),
    prev t e.2.1 = if i = 0 then none else t.toList[i - 1]? :=
  @RbM.prev_spec
end

end Props.C05
