import Ts.Kahn
import Ts.KahnComplete
import Ts.Refine
import Ts.CycleSound
import Ts.Build

/-! # C15 — property theorems (statements only; proofs live in the family libraries) -/

set_option linter.unusedVariables false

namespace Props.C15

section
open Kahn

theorem toposort_sound :
    ∀ (V : List Nat) (E : List Edge) (hVn : V.Nodup) (hEn : E.Nodup)
    (hV : ∀ e ∈ E, e.1 ∈ V ∧ e.2 ∈ V) (L : List Nat) (h : toposort V E = some (L, true)),
    L.Nodup ∧ (∀ x, x ∈ L ↔ x ∈ V) ∧ ∀ e ∈ E, Before L e.1 e.2 :=
  @Kahn.toposort_sound
end

section
open Kahn

theorem toposortP_sound :
    ∀ (pick : List Edge → Nat → List Nat) (hpick : PickOK pick)
    (V : List Nat) (E : List Edge) (hVn : V.Nodup) (hEn : E.Nodup)
    (hV : ∀ e ∈ E, e.1 ∈ V ∧ e.2 ∈ V) (L : List Nat) (h : toposortP pick V E = some (L, true)),
    L.Nodup ∧ (∀ x, x ∈ L ↔ x ∈ V) ∧ ∀ e ∈ E, Before L e.1 e.2 :=
  @Kahn.toposortP_sound
end

section
open Kahn

/-- completeness: on an acyclic graph (a rank function increasing along every edge exists) built from distinct nodes
and distinct edges the sort terminates and reports success, for every child order that is duplicate-free, uses only
existing edges and covers all out-edges -/
theorem toposortP_complete :
    ∀ (pick : List Edge → Nat → List Nat) (hpick : PickOK pick) (hall : PickAll pick)
    (V : List Nat) (E : List Edge) (hVn : V.Nodup) (hEn : E.Nodup)
    (hV : ∀ e ∈ E, e.1 ∈ V ∧ e.2 ∈ V) (hr : Ranked E),
    ∃ L, toposortP pick V E = some (L, true) :=
  @Kahn.toposortP_complete

/-- a graph with a closed walk along edges is not acyclic in that sense -/
theorem not_ranked_of_cycle :
    ∀ (E : List Edge) (c : Nat) (walk : List Nat)
    (hw : ∀ p ∈ (c :: walk).zip (walk ++ [c]), p ∈ E), ¬ Ranked E :=
  @Kahn.not_ranked_of_cycle

/-- success if and only if acyclic -/
theorem toposort_success_iff :
    ∀ (V : List Nat) (E : List Edge) (hVn : V.Nodup) (hEn : E.Nodup)
    (hV : ∀ e ∈ E, e.1 ∈ V ∧ e.2 ∈ V),
    (∃ L, toposort V E = some (L, true)) ↔ Ranked E :=
  @Kahn.toposort_success_iff
end

section
open Kahn Ts

/-- the concrete model compared with `toposort.Graph.Toposort` on every run (adjacency lists with insertion ranks,
in-degree counters, `unsafeRemoveEdge`) — soundness -/
theorem G_toposort_sound :
    ∀ (g : Ts.G), Ts.WFG g → Ts.WellRanked g g.edges [] → ∀ (L : List Nat), g.toposort = some (L, true) →
    L.Nodup ∧ (∀ x, x ∈ L ↔ x ∈ g.nodes) ∧ ∀ e ∈ g.edges, Before L e.1 e.2 :=
  @Ts.G.toposort_sound

/-- … completeness: an acyclic well-formed graph is sorted successfully -/
theorem G_toposort_complete :
    ∀ (g : Ts.G), Ts.WFG g → Ts.WellRanked g g.edges [] → Ranked g.edges → ∃ L, g.toposort = some (L, true) :=
  @Ts.G.toposort_complete

/-- … and on a graph with a cycle the sort terminates and reports failure -/
theorem G_toposort_cyclic :
    ∀ (g : Ts.G), Ts.WFG g → Ts.WellRanked g g.edges [] → ¬ Ranked g.edges → ∃ L, g.toposort = some (L, false) :=
  @Ts.G.toposort_cyclic

/-- the premises are decidable; the correspondence evaluates `wfCheck` on every well-formed build of the probe -/
theorem wfCheck_sound :
    ∀ (g : Ts.G), Ts.wfCheck g = true → Ts.WFG g ∧ Ts.WellRanked g g.edges [] :=
  @Ts.wfCheck_sound
end

section
open Ts

/-- FindCycle, existence: the checker's breadth-first search decides whether a walk from the seed back to itself exists
(graphs whose edges end in nodes of the graph; `closedCheck` is evaluated on every well-formed build) -/
theorem hasCycleThrough_iff :
    ∀ (g : Ts.G) (hc : g.Closed) (seed : Nat), g.hasCycleThrough seed = true ↔ g.Path seed seed :=
  @Ts.hasCycleThrough_iff

/-- FindCycle, answers: what the validator accepts is either the empty list while no cycle through the seed exists, or a
list that starts at the seed and is a closed walk along edges back to the seed -/
theorem cycleAnswerOK_sound :
    ∀ (g : Ts.G) (hc : g.Closed) (seed : Nat) (answer : List Nat) (h : g.cycleAnswerOK seed answer = true),
    (answer = [] ∧ ¬ g.Path seed seed) ∨
    (∃ rest, answer = seed :: rest ∧ g.Walk answer seed ∧ g.Path seed seed) :=
  @Ts.cycleAnswerOK_sound

theorem closedCheck_sound :
    ∀ (g : Ts.G) (h : Ts.closedCheck g = true), g.Closed :=
  @Ts.closedCheck_sound
end

section
open Kahn Ts

/-- graphs built by AddNode/AddEdge (all nodes, then the edges) from distinct nodes and distinct edges between them meet
the premises of the refinement theorems, have exactly these nodes and exactly these edges -/
theorem buildG_premises :
    ∀ (nodes : List Nat) (edges : List Edge) (hn : nodes.Nodup) (he : edges.Nodup)
    (hv : ∀ e ∈ edges, e.1 ∈ nodes ∧ e.2 ∈ nodes),
    WFG (buildG nodes edges) ∧ WellRanked (buildG nodes edges) (buildG nodes edges).edges [] ∧
    (buildG nodes edges).nodes = nodes ∧ (buildG nodes edges).edges.Perm edges :=
  @Ts.buildG_premises

/-- C15 on the concrete model with no premise left: success = duplicate-free list of exactly the nodes, every edge forward -/
theorem buildG_toposort_sound :
    ∀ (nodes : List Nat) (edges : List Edge) (hn : nodes.Nodup) (he : edges.Nodup)
    (hv : ∀ e ∈ edges, e.1 ∈ nodes ∧ e.2 ∈ nodes) (L : List Nat)
    (h : (buildG nodes edges).toposort = some (L, true)),
    L.Nodup ∧ (∀ x, x ∈ L ↔ x ∈ nodes) ∧ ∀ e ∈ edges, Before L e.1 e.2 :=
  @Ts.buildG_toposort_sound

/-- … and success if and only if the graph is acyclic -/
theorem buildG_toposort_iff :
    ∀ (nodes : List Nat) (edges : List Edge) (hn : nodes.Nodup) (he : edges.Nodup)
    (hv : ∀ e ∈ edges, e.1 ∈ nodes ∧ e.2 ∈ nodes),
    (∃ L, (buildG nodes edges).toposort = some (L, true)) ↔ Ranked edges :=
  @Ts.buildG_toposort_iff
end

end Props.C15
