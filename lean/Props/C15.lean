import Ts.Kahn

/-! # C15 — property theorems (statements only; proofs live in the family libraries) -/

set_option linter.unusedVariables false

namespace Props.C15

section
open Kahn

theorem toposort_sound :
    ∀ (V : List Nat) (E : List Edge) (hVn : V.Nodup) (hEn : E.Nodup)
    (hV : ∀ e ∈ E, e.1 ∈ V ∧ e.2 ∈ V) (L : List Nat) (h : toposort V E = some (L, true)),
    L.Nodup ∧ (∀ x, x ∈ L ↔ x ∈ V) ∧ ∀ e ∈ E, Before L e.1 e.2 :=
  @Kahn.toposort_sound
end

section
open Kahn

theorem toposortP_sound :
    ∀ (pick : List Edge → Nat → List Nat) (hpick : PickOK pick)
    (V : List Nat) (E : List Edge) (hVn : V.Nodup) (hEn : E.Nodup)
    (hV : ∀ e ∈ E, e.1 ∈ V ∧ e.2 ∈ V) (L : List Nat) (h : toposortP pick V E = some (L, true)),
    L.Nodup ∧ (∀ x, x ∈ L ↔ x ∈ V) ∧ ∀ e ∈ E, Before L e.1 e.2 :=
  @Kahn.toposortP_sound
end

end Props.C15
