import Ts.Kahn
import Ts.KahnComplete

/-! # C15 — property theorems (statements only; proofs live in the family libraries) -/

set_option linter.unusedVariables false

namespace Props.C15

section
open Kahn

theorem toposort_sound :
    ∀ (V : List Nat) (E : List Edge) (hVn : V.Nodup) (hEn : E.Nodup)
    (hV : ∀ e ∈ E, e.1 ∈ V ∧ e.2 ∈ V) (L : List Nat) (h : toposort V E = some (L, true)),
    L.Nodup ∧ (∀ x, x ∈ L ↔ x ∈ V) ∧ ∀ e ∈ E, Before L e.1 e.2 :=
  @Kahn.toposort_sound
end

section
open Kahn

theorem toposortP_sound :
    ∀ (pick : List Edge → Nat → List Nat) (hpick : PickOK pick)
    (V : List Nat) (E : List Edge) (hVn : V.Nodup) (hEn : E.Nodup)
    (hV : ∀ e ∈ E, e.1 ∈ V ∧ e.2 ∈ V) (L : List Nat) (h : toposortP pick V E = some (L, true)),
    L.Nodup ∧ (∀ x, x ∈ L ↔ x ∈ V) ∧ ∀ e ∈ E, Before L e.1 e.2 :=
  @Kahn.toposortP_sound
end

section
open Kahn

/-- completeness: on an acyclic graph (a rank function increasing along every edge exists) built from distinct nodes
and distinct edges the sort terminates and reports success, for every child order that is duplicate-free, uses only
existing edges and covers all out-edges -/
theorem toposortP_complete :
    ∀ (pick : List Edge → Nat → List Nat) (hpick : PickOK pick) (hall : PickAll pick)
    (V : List Nat) (E : List Edge) (hVn : V.Nodup) (hEn : E.Nodup)
    (hV : ∀ e ∈ E, e.1 ∈ V ∧ e.2 ∈ V) (hr : Ranked E),
    ∃ L, toposortP pick V E = some (L, true) :=
  @Kahn.toposortP_complete

/-- a graph with a closed walk along edges is not acyclic in that sense -/
theorem not_ranked_of_cycle :
    ∀ (E : List Edge) (c : Nat) (walk : List Nat)
    (hw : ∀ p ∈ (c :: walk).zip (walk ++ [c]), p ∈ E), ¬ Ranked E :=
  @Kahn.not_ranked_of_cycle

/-- success if and only if acyclic -/
theorem toposort_success_iff :
    ∀ (V : List Nat) (E : List Edge) (hVn : V.Nodup) (hEn : E.Nodup)
    (hV : ∀ e ∈ E, e.1 ∈ V ∧ e.2 ∈ V),
    (∃ L, toposort V E = some (L, true)) ↔ Ranked E :=
  @Kahn.toposort_success_iff
end

end Props.C15
