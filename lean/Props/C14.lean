import Pl.Summary
import Pl.Run2Spec
import Pl.IsMerge
import Pl.Adjacent

/-! # C14 — property theorems (statements only; proofs live in the family libraries) -/

set_option linter.unusedVariables false

namespace Props.C14

section
open Pl

theorem consumeAll2_ok :
    ∀ (commit idx : Nat) (im : Bool),
    ∀ (its : List Item) (insts : List Nat) (j : Nat) (pre : List (Item × Nat))
      (state : List (Nat × (Nat × Nat))) (evs : List Ev) (cc cc' : List Nat),
    StateOf state pre commit →
    consumeAll2 commit idx im j its insts state cc = .ok (evs, cc') →
    evs = specLog commit idx im pre its insts :=
  @Pl.consumeAll2_ok
end

section
open Pl

theorem stepCore_idx :
    ∀ (items : List Item) (rc : List Nat) (times : List Int) (im : Bool) (a : Action) (s c : Core)
    (evs : List Ev) (h : stepCore items rc times im a s = .ok (c, evs)),
    c.idx = s.idx + (if a.kind = .commit then 1 else 0) :=
  @Pl.stepCore_idx
end

section
open Pl

theorem runLoop2_error :
    ∀ (items : List Item) (rc : List Nat) (times : List Int) (plan : List Action)
    (i : Nat) (a : Action) (rest : List Action) (s : RS2) (m : String) (evs : List Ev)
    (h : step2 items rc times (isMerge plan i a.commit) a s = .error (m, evs)),
    runLoop2 items rc times plan i (a :: rest) s = .error (m, evs) :=
  @Pl.runLoop2_error
end

section
open Pl

theorem isMerge_iff :
    ∀ (A B : List Action) (x : Action) (c : Nat)
    (hadjB : ∀ B1 y B2, B = B1 ++ y :: B2 → IsC c y → ∀ a ∈ B1, HB a ∨ IsC c a)
    (hadjA : ∀ A1 y A2, A = A1 ++ y :: A2 → IsC c y → ∀ a ∈ A2, HB a ∨ IsC c a)
    (h0 : ∀ a A', A = a :: A' → ¬ IsC c a),
    isMerge (A ++ x :: B) A.length c = true ↔ ∃ y ∈ A ++ B, IsC c y :=
  @Pl.isMerge_iff
end

section
open Pl

/-- the run summary: committer time of the first planned commit, number of input commits, and the newest committer
time among the replayed commits -/
theorem run2_summary :
    ∀ (items : List Item) (times : List Int) (n : Nat) (plan : List Action)
    (log : List Ev) (b e : Int) (c : Nat) (fin : List (Nat × Nat))
    (h : run2 items times n plan = ⟨log, .ok (b, e, c, fin)⟩),
    b = times.getD ((plan.headD ⟨.emerge, 0, []⟩).commit) 0 ∧ c = n ∧
    (∀ t ts, commitTimes times plan = t :: ts → e = ts.foldl max t) :=
  @Pl.run2_summary
end

section
open Pl

/-- the adjacency premise as an executable check, evaluated on every plan of the real planner for a graph without a
redundant parent edge: soundness -/
theorem adjOK_sound :
    ∀ (plan : List Action) (h : adjOK plan = true) (A B : List Action) (x : Action) (c : Nat)
    (hp : plan = A ++ x :: B) (hx : IsC c x),
    (∀ B1 y B2, B = B1 ++ y :: B2 → IsC c y → ∀ a ∈ B1, HB a ∨ IsC c a) ∧
    (∀ A1 y A2, A = A1 ++ y :: A2 → IsC c y → ∀ a ∈ A2, HB a ∨ IsC c a) ∧
    (∀ a A', A = a :: A' → ¬ IsC c a) :=
  @Pl.adjOK_sound

/-- on a checked plan the merge flag is true exactly when the commit is replayed somewhere else as well -/
theorem isMerge_of_adjOK :
    ∀ (plan : List Action) (h : adjOK plan = true) (A B : List Action) (x : Action) (c : Nat)
    (hp : plan = A ++ x :: B) (hx : IsC c x),
    isMerge plan A.length c = true ↔ ∃ y ∈ A ++ B, IsC c y :=
  @Pl.isMerge_of_adjOK
end

end Props.C14
