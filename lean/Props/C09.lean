import Pl.FaultSafe
import Pl.Transparent
import Pl.SimTop
import Hb.Glue

/-! # C09 — property theorems (statements only; proofs live in the family libraries) -/

set_option linter.unusedVariables false

namespace Props.C09

section
open Pl

theorem isMerge_erase :
    ∀ (a0 : Action) (A B : List Action) (x : Action) (c : Nat)
    (h0 : isHB a0 = false) (hx : isHB x = false),
    isMerge (a0 :: A ++ x :: B) (a0 :: A).length c =
      isMerge (erase (a0 :: A) ++ x :: erase B) (erase (a0 :: A)).length c :=
  @Pl.isMerge_erase
end

section
open Pl

theorem run2_transparent :
    ∀ (items : List Item) (hn : NoHBFail items) (times : List Int) (n : Nat) (plan' : List Action)
    (h0 : ∀ a0 A, plan' = a0 :: A → isHB a0 = false),
    (run2 items times n plan').result = (run2 items times n (erase plan')).result ∧
    (run2 items times n plan').log.filter notHBev = (run2 items times n (erase plan')).log :=
  @Pl.run2_transparent
end

section
open Pl

/-- fault safety: when Hibernate / Boot calls of the items may fail (unusable directory, missing or truncated file), a run
either returns an error or returns exactly the outcome of the fault-free run — never a different result -/
theorem run2_fault_safe :
    ∀ (items : List Item) (times : List Int) (n : Nat) (plan : List Action),
    (∃ e, (run2 items times n plan).result = .error e) ∨
    run2 items times n plan = run2 (noFaults items) times n plan :=
  @Pl.run2_fault_safe
end

section
open Hb

/-- the glue of BurndownAnalysis.Hibernate/Boot around the allocator: Hibernate succeeds, a file is recorded exactly
when disk hibernation is on and the arena really left memory, and Boot with that file intact restores the arena -/
theorem glue_roundtrip :
    ∀ (toDisk : Bool) (a : Alloc) (h : Awake' a),
    ∃ a' fo, hibernateB toDisk a = .ok (a', fo) ∧
      (fo.isSome ↔ (toDisk = true ∧ a.threshold ≤ size a ∧ size a ≠ 0)) ∧
      ∃ y, bootB a' fo.isSome fo = .ok y ∧ SameArena a y :=
  @Hb.glue_roundtrip

/-- a recorded file that is gone or unreadable makes Boot fail -/
theorem glue_missing_file :
    ∀ (a : Alloc), ∃ m, bootB a true none = .err m :=
  @Hb.glue_missing_file
end

end Props.C09
