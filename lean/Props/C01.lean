import Bd.Linear
import Fu.History
import Fu.History2
import Fu.Sampled
import Gs.Top
import Gs.RouteSum
import Bd.Script
import Bd.MergeTruth
import Bd.MergeReplay

/-! # C01 — property theorems (statements only; proofs live in the family libraries) -/

set_option linter.unusedVariables false

namespace Props.C01

section
open Fu

theorem runOps_spec :
    ∀ (ops : List (Nat × Nat × Nat)),
    ∀ (ns : List Node) (t : Nat), Good ns → t < END → NoMark t →
    arrValid (flat ns) t ops →
    ∃ ns' em, runOps ns t ops = some (ns', em) ∧ Good ns' ∧ flat ns' = arrOps (flat ns) t ops ∧
      ∀ v, (List.count v (flat ns') : Int) = List.count v (flat ns) + emSum em v :=
  @Fu.runOps_spec
end

section
open Fu

theorem runCommits_spec :
    ∀ (cs : List Commit),
    ∀ (ns : List Node), Good ns → commitsValid (flat ns) cs →
    ∃ ns' em, runCommits ns cs = some (ns', em) ∧ Good ns' ∧ flat ns' = arrCommits (flat ns) cs ∧
      ∀ v, (List.count v (flat ns') : Int) = List.count v (flat ns) + emSum em v :=
  @Fu.runCommits_spec
end

section
open Fu

theorem runOps_cur :
    ∀ (ops : List (Nat × Nat × Nat)),
    ∀ (ns : List Node) (t : Nat) (ns' : List Node)
    (em : List (Nat × Nat × Int)), runOps ns t ops = some (ns', em) → ∀ e ∈ em, e.1 = t :=
  @Fu.runOps_cur
end

section
open Fu

theorem sampled_row :
    ∀ (cs : List Commit),
    ∀ (ns : List Node), Good ns → commitsValid (flat ns) cs →
    cs.Pairwise (fun a b => a.tick ≤ b.tick) →
    ∀ (ns' : List Node) (em : List (Nat × Nat × Int)), runCommits ns cs = some (ns', em) →
    ∀ (T v : Nat), (List.count v (arrCommits (flat ns) (cs.takeWhile fun c => c.tick ≤ T)) : Int) =
      List.count v (flat ns) + emSumUpTo T em v :=
  @Fu.sampled_row
end

section
open Gs

theorem group_spec :
    ∀ (S G : Nat) (hS : 0 < S) (hG : 0 < G) (h : Sparse) (last : Nat × List (Nat × Int))
    (hlast : h.getLast? = some last) (hwf : WF h) (lastTick : Option Nat)
    (hlt : ∀ lt, lastTick = some lt → last.1 ≤ lt),
    ∃ rows, group true S G h lastTick = .dense rows (lastTick.getD last.1) ∧
      rows.length = lastTick.getD last.1 / S + 1 ∧
      (∀ j < rows.length, (rows.getD j []).length = lastTick.getD last.1 / G + 1) ∧
      ∀ y < rows.length, ∀ x, cell rows y x = cellSpec S G h y x :=
  @Gs.group_spec
end

section
open Route

theorem run_totals :
    ∀ (pn : Nat) (evs : List Ev) (a : Acc) (h : run pn evs = some a),
    tot a.global = (evs.map (·.delta)).sum ∧
    tot a.people = (evs.map fun e => if known pn e then e.delta else 0).sum ∧
    tot a.matrix = tot a.people :=
  @Route.run_totals
end

section
open Bd

theorem translate_realises :
    ∀ {α : Type} (v : α) (s : List (EK × Nat)) (old : List α) (us : List Upd)
    (h : translate s 0 (.eq, 0) [] = .ok us) (hlen : consumed s ≤ old.length),
    us.foldl (splice v) old = expected v s old :=
  @Bd.translate_realises
end

section
open Bd Fu

/-- linear history of a whole repository (files added, deleted, modified by arbitrary edit scripts — repeated lines
included — with declared line counts consistent, C11): the tracked state refines the plain map file ↦ array of per-line
values and the reports add up, per value, to the number of lines carrying it -/
theorem history_inv :
    ∀ (cs : List Bd.Commit) (s s' : BSt) (w : World), Inv s w → historyOK w cs →
    runHistory s cs = .ok s' → Inv s' (specHistory w cs) :=
  @Bd.history_inv

/-- a rename reported together with an edit is one of the changes `history_inv` quantifies over (`Change.ren`, to a name
that is not tracked): moving the tracked file keeps the refinement - same lines, no report -/
theorem rename_inv :
    ∀ (s : BSt) (w : World) (src name : Nat) (f : List Fu.Node) (h : Inv s w) (hf : getFile s src = some f)
    (hne : src ≠ name) (hfree : wGet w name = none),
    Inv (renameFile s src name f) (wSet (wDrop w src) name (Fu.flat f)) :=
  @Bd.rename_inv

/-- the initial state satisfies the invariant -/
theorem inv_init : ∀ (pn : Nat), Inv ⟨pn, 0, [], []⟩ [] := @Bd.inv_init

/-- no negative count, for any value, at any point of such a history -/
theorem hist_nonneg :
    ∀ (s : BSt) (w : World) (h : Inv s w) (v : Nat), 0 ≤ emSum (evTriples s.evs) v :=
  @Bd.hist_nonneg

/-- the total of all reports is the number of tracked lines (last row sum = text lines at HEAD) -/
theorem total_lines :
    ∀ (s : BSt) (w : World) (h : Inv s w), evTotal (evTriples s.evs) = wLines w :=
  @Bd.total_lines

/-- sample rows: with non-decreasing commit values the reports with current value ≤ T add up, per birth value, to the
lines of the repository as it stands after the last commit with value ≤ T -/
theorem sampled_rows :
    ∀ (cs : List Bd.Commit) (s s' : BSt) (w : World), Inv s w → historyOK w cs →
    cs.Pairwise (fun a b => a.time ≤ b.time) → runHistory s cs = .ok s' →
    ∀ (T v : Nat), (∀ e ∈ evTriples s.evs, e.1 ≤ T) → (∀ c ∈ cs, ∀ e ∈ evTriples s.evs, e.1 ≤ c.time) →
      emSumUpTo T (evTriples s'.evs) v = wCount (specHistory w (cs.takeWhile fun c => c.time ≤ T)) v :=
  @Bd.sampled_rows
end

section
open Bd Fu Mg

/-- **the replay of a merge commit on one parent branch** (the edit of one file in merge mode, stamp `t` = a mark): the
branch holds the parent's array `flat f`, the merge commit's diff against this parent is `script`, `ins` are the true
values of the lines the script inserts.  The edit succeeds silently and leaves a copy that is conflict-free with respect
to the merged version's true array `rebuild script (flat f) ins`: same length, at every line the mark or the true value -/
theorem replay_conflict_free :
    ∀ (t : Nat) (ht : t < END) (hm : t % (Fu.MARK + 1) = Fu.MARK)
    (f : List Node) (hwf : WF2 f) (script : List (EK × Nat)) (us : List Upd)
    (htr : translate script 0 (.eq, 0) [] = .ok us)
    (ins : List Nat) (hc : consumed script = (flat f).length) (hi : insCount script = ins.length)
    (evs : List Route.Ev) (f' : List Node) (evs' : List Route.Ev) (h : applyUpds true t us f evs = .ok (f', evs')),
    evs' = evs ∧ WF2 f' ∧ (flat f').length = (rebuild script (flat f) ins).length ∧
    ∀ i (hi : i < (rebuild script (flat f) ins).length),
      isMark ((flat f').getD i 0) = true ∨ (flat f').getD i 0 = (rebuild script (flat f) ins)[i] :=
  @Bd.replay_conflict_free

/-- the stamp of a merge-mode replay carries the mark, whatever author it packs -/
theorem pack_mark : ∀ (pn author : Nat), pack pn author Bd.MARK % (Fu.MARK + 1) = Fu.MARK := @Bd.pack_mark

/-- the same step on the multi-branch model (`doEdit`, which `kdag` compares with `handleModification` of the real
`BurndownAnalysis` in merge mode): the edit of a tracked file on branch `b` during the replay of a merge commit reports
nothing and leaves on `b`, under the file's name, a copy that is conflict-free with respect to `rebuild script (flat f) ins` -/
theorem doEdit_merge_conflict_free :
    ∀ (w w' : W) (b author name oldL newL : Nat) (script : List (EK × Nat)) (f : List Node)
    (ht : pack w.pn author Bd.MARK < END) (hwf : WF2 f)
    (ins : List Nat) (hc : consumed script = (flat f).length) (hi : insCount script = ins.length)
    (h : doEdit true w b author Bd.MARK name oldL newL script f = .ok w'),
    w'.evs = w.evs ∧ ∃ f', brFile (w'.br b) name = some f' ∧ WF2 f' ∧
      (flat f').length = (rebuild script (flat f) ins).length ∧
      ∀ i (hi : i < (rebuild script (flat f) ins).length),
        isMark ((flat f').getD i 0) = true ∨ (flat f').getD i 0 = (rebuild script (flat f) ins)[i] :=
  @Bd.doEdit_merge_conflict_free

/-- a file that the merge commit has and this parent has not: the merge-mode insertion reports nothing and leaves a copy made
of marks only - conflict-free with respect to whatever the true array of that length is -/
theorem doInsert_merge_conflict_free :
    ∀ (w w' : W) (b author name lines : Nat)
    (h : doInsert true true w b author Bd.MARK name lines = .ok w'),
    w'.evs = w.evs ∧ ∃ f', brFile (w'.br b) name = some f' ∧ WF2 f' ∧ (flat f').length = lines ∧
      ∀ v ∈ flat f', isMark v = true :=
  @Bd.doInsert_merge_conflict_free

/-- **one file through one clean merge**: every branch copy is the merge-mode replay of the merge commit's script against
that parent's true array, all scripts rebuilding the same true array `truth` of the merged version; `truth` carries no
mark; the lines no parent knows are lines of the merge commit, born at the merge value `day`.  Then `File.Merge` installs
exactly `truth` and reports exactly one line per line born in the merge commit (none inside a nested merge) -/
theorem merge_step_truth :
    ∀ (t day : Nat) (ht : t < END) (hm : t % (Fu.MARK + 1) = Fu.MARK)
    (mine : List Nat) (others : List (List Nat)) (truth : List Nat)
    (hrep : ∀ c ∈ mine :: others, Replayed t truth c)
    (htruth : ∀ x ∈ truth, isMark x = false)
    (hnew : ∀ i (hi : i < truth.length), knownAt (mine :: others) truth i = false → truth[i] = day),
    mergeFile day mine others = some (truth, (if isMark day then 0 else 1) * unknownCount (mine :: others) truth) :=
  @Bd.merge_step_truth

/-- **the whole `BurndownAnalysis.Merge`**: if, for every file name flagged as present, the branch copies are
conflict-free with respect to a true array `T k`, the merge succeeds; afterwards every participating branch holds, for every
flagged name, exactly the run-length encoding of the true array (true origin where some branch knew the line, merge author
and tick where none did; no file where the name is flagged as absent or nobody holds it); every other file name is untouched
on every branch; the reports appended are, name by name in increasing order, one per line that no branch knew -/
theorem mergeBranches_conflict_free :
    ∀ (w : W) (b0 : Nat) (rest : List Nat) (T : Nat → List Nat)
    (hcf : ∀ k, flagged (mergeFlags w (b0 :: rest)) k = true → ConflictFreeAt w (b0 :: rest) k (T k)),
    ∃ w', mergeBranches w (b0 :: rest) = .ok w' ∧
      (∀ k, (∃ v, (k, v) ∈ mergeFlags w (b0 :: rest)) → ∀ b ∈ b0 :: rest,
        brFile (w'.br b) k =
          expectedFile (flagged (mergeFlags w (b0 :: rest)) k) (copiesOf w (b0 :: rest) k) (T k) (mergeDay w b0)) ∧
      (∀ k, (¬ ∃ v, (k, v) ∈ mergeFlags w (b0 :: rest)) → ∀ b, brFile (w'.br b) k = brFile (w.br b) k) ∧
      w'.evs = w.evs ++ (mergeKeys (mergeFlags w (b0 :: rest))).flatMap fun k =>
        expectedReports (flagged (mergeFlags w (b0 :: rest)) k) (copiesOf w (b0 :: rest) k) (T k) (mergeDay w b0) :=
  @Bd.mergeBranches_conflict_free

/-- where every line no copy knows is a line of the merge commit itself, the installed array *is* the true array -/
theorem mergedTruth_eq_truth :
    ∀ (copies : List (List Nat)) (truth : List Nat) (day : Nat)
    (h : ∀ i (hi : i < truth.length), knownAt copies truth i = false → truth[i] = day),
    mergedTruth copies truth day = truth :=
  @Bd.mergedTruth_eq_truth

/-- after a conflict-free merge whose merge value is a real tick the merged array carries no mark: the state is again one
the linear-history theorems start from -/
theorem mergedTruth_noMark :
    ∀ (copies : List (List Nat)) (truth : List Nat) (day : Nat)
    (htruth : ∀ t ∈ truth, isMark t = false) (hday : isMark day = false),
    ∀ v ∈ mergedTruth copies truth day, isMark v = false :=
  @Bd.mergedTruth_noMark
end

end Props.C01
