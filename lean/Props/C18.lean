import Idn.DevsSum

/-! # C18 — property theorems (statements only; proofs live in the family libraries) -/

set_option linter.unusedVariables false

namespace Props.C18

section
open DevsM

theorem mergeDevs_conserves :
    ∀ (f : DT → Int) (hf : Additive f) (rd1 rd2 : List IdnM.Ident) (b1 b2 ts : Nat) (t1 t2 : Ticks),
    sumF f (mergeDevs rd1 rd2 b1 b2 ts t1 t2).1 = sumF f t1 + sumF f t2 :=
  @DevsM.mergeDevs_conserves
end

end Props.C18
