import Idn.DevsSum
import Idn.CouplesIdentity

/-! # C18 — property theorems (statements only; proofs live in the family libraries) -/

set_option linter.unusedVariables false

namespace Props.C18

section
open DevsM

theorem mergeDevs_conserves :
    ∀ (f : DT → Int) (hf : Additive f) (rd1 rd2 : List IdnM.Ident) (b1 b2 ts : Nat) (t1 t2 : Ticks),
    sumF f (mergeDevs rd1 rd2 b1 b2 ts t1 t2).1 = sumF f t1 + sumF f t2 :=
  @DevsM.mergeDevs_conserves
end

section
open CmM IdnM

/-- couples, file matrix: every merged cell is the sum of the input cells re-indexed onto it by file name -/
theorem merge_fm_cell :
    ∀ (r1 r2 : Res) (K : Nat × Nat),
    val (merge r1 r2).fm K = landing r1.fm (fmap1 r1 r2) K + landing r2.fm (fmap2 r1 r2) K :=
  @CmM.merge_fm_cell

/-- couples, developer matrix: the same with merged developer indexes (unmatched author = extra last row/column) -/
theorem merge_pm_cell :
    ∀ (r1 r2 : Res) (K : Nat × Nat),
    val (merge r1 r2).pm K = landing r1.pm (pmap1 r1 r2) K + landing r2.pm (pmap2 r1 r2) K :=
  @CmM.merge_pm_cell

/-- totals of both coupling matrices are conserved -/
theorem merge_totals :
    ∀ (r1 r2 : Res),
    total (merge r1 r2).fm = total r1.fm + total r2.fm ∧ total (merge r1 r2).pm = total r1.pm + total r2.pm :=
  @CmM.merge_totals

/-- re-indexing by file name is faithful: the merged list holds exactly the names of both inputs, without duplicates,
and the merged index of every input file carries that file's name -/
theorem merge_files_spec :
    ∀ (r1 r2 : Res),
    (∀ s, s ∈ (merge r1 r2).files ↔ s ∈ r1.files ∨ s ∈ r2.files) ∧
    (r1.files.Nodup → r2.files.Nodup → (merge r1 r2).files.Nodup) ∧
    (∀ i s, r1.files[i]? = some s → (merge r1 r2).files[fmap1 r1 r2 i]? = some s) ∧
    (∀ i s, r2.files[i]? = some s → (merge r1 r2).files[fmap2 r1 r2 i]? = some s) :=
  @CmM.merge_files_spec

/-- line counts add up per file name -/
theorem merge_lines_spec :
    ∀ (r1 r2 : Res) (I : Nat) (name : String) (h : (merge r1 r2).files[I]? = some name),
    (merge r1 r2).lines[I]? = some (
      (if name ∈ r1.files then r1.lines.getD (r1.files.idxOf name) 0 else 0) +
      (if name ∈ r2.files then r2.lines.getD (r2.files.idxOf name) 0 else 0)) :=
  @CmM.merge_lines_spec

theorem merge_lines_at :
    ∀ (r1 r2 : Res) (h1 : r1.files.Nodup) (i : Nat) (s : String) (hi : r1.files[i]? = some s),
    (merge r1 r2).lines[fmap1 r1 r2 i]? = some (r1.lines.getD i 0 +
      (if s ∈ r2.files then r2.lines.getD (r2.files.idxOf s) 0 else 0)) :=
  @CmM.merge_lines_at

/-- touched files of a merged developer: strictly increasing, exactly the union of the re-indexed lists of the input
developers mapped to it -/
theorem merge_pf_spec :
    ∀ (r1 r2 : Res) (I : Nat) (hI : I < (merge r1 r2).people.length),
    ∃ row, (merge r1 r2).pf[I]? = some row ∧ row.Pairwise (· < ·) ∧
      ∀ F, F ∈ row ↔ Contrib r1.pf r1.people.length (pmap1 r1 r2) (fmap1 r1 r2) I F ∨
                     Contrib r2.pf r2.people.length (pmap2 r1 r2) (fmap2 r1 r2) I F :=
  @CmM.merge_pf_spec

/-- the developer re-indexing follows the merged identity: two developers are added into one merged row exactly when
their identities are connected by shared names or e-mails (premises as in C16, decidable by `premisesCheck`) -/
theorem pmap_same_iff :
    ∀ (r1 r2 : Res) (h1 : Disj r1.people) (h2 : Disj r2.people)
    (hne : ∀ a ∈ r1.people ++ r2.people, a ≠ [])
    (hj : ∀ a ∈ r1.people ++ r2.people, ∀ b ∈ r1.people ++ r2.people, join a = join b → a = b)
    (i j : Nat) (a b : Ident) (ha : r1.people[i]? = some a) (hb : r2.people[j]? = some b),
    pmap1 r1 r2 i = pmap2 r1 r2 j ↔ ∀ p ∈ a, ∀ q ∈ b, Conn r1.people r2.people p q :=
  @CmM.pmap_same_iff

theorem pmap1_walk :
    ∀ (r1 r2 : Res) (h1 : Disj r1.people) (h2 : Disj r2.people)
    (hne : ∀ a ∈ r1.people ++ r2.people, a ≠ [])
    (hj : ∀ a ∈ r1.people ++ r2.people, ∀ b ∈ r1.people ++ r2.people, join a = join b → a = b)
    (i : Nat) (a : Ident) (ha : r1.people[i]? = some a),
    ∃ w, (walks r1.people r2.people)[pmap1 r1 r2 i]? = some w ∧ ∀ p ∈ a, p ∈ w :=
  @CmM.pmap1_walk

/-- the common summary: earliest begin, latest end, sum of the commit counts; refused only when uninitialised -/
theorem car_merge_spec :
    ∀ (a b c : Car) (h : a.merge b = some c),
    c.begin ≤ a.begin ∧ c.begin ≤ b.begin ∧ (c.begin = a.begin ∨ c.begin = b.begin) ∧
    a.finish ≤ c.finish ∧ b.finish ≤ c.finish ∧ (c.finish = a.finish ∨ c.finish = b.finish) ∧
    c.commits = a.commits + b.commits :=
  @CmM.car_merge_spec

theorem car_merge_none :
    ∀ (a b : Car), a.merge b = none ↔ a.finish = 0 ∨ b.begin = 0 :=
  @CmM.car_merge_none
end

end Props.C18
