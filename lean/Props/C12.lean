import Ln.Basic
import Pl.OneShot

/-! # C12 — property theorems (statements only; proofs live in the family libraries) -/

set_option linter.unusedVariables false

namespace Props.C12

section
open Ln

theorem lineStats_conserve :
    ∀ (es : List Edit) (h : NoDoubleDelete es),
    (lineStats es).added + (lineStats es).changed = inserted es ∧
    (lineStats es).removed + (lineStats es).changed = deleted es :=
  @Ln.lineStats_conserve
end

section
open OneShot

theorem counted_once :
    ∀ (np : Nat → Nat) (replays : List Nat) (c : Nat) (hc : c ∈ replays)
    (hsingle : np c ≤ 1 → replays.count c = 1),
    (counted np replays []).count c = 1 :=
  @OneShot.counted_once
end

end Props.C12
