import Ln.Basic
import Ln.Commit
import Pl.OneShot

/-! # C12 — property theorems (statements only; proofs live in the family libraries) -/

set_option linter.unusedVariables false

namespace Props.C12

section
open Ln

theorem lineStats_conserve :
    ∀ (es : List Edit) (h : NoDoubleDelete es),
    (lineStats es).added + (lineStats es).changed = inserted es ∧
    (lineStats es).removed + (lineStats es).changed = deleted es :=
  @Ln.lineStats_conserve
end

section
open OneShot

theorem counted_once :
    ∀ (np : Nat → Nat) (replays : List Nat) (c : Nat) (hc : c ∈ replays)
    (hsingle : np c ≤ 1 → replays.count c = 1),
    (counted np replays []).count c = 1 :=
  @OneShot.counted_once
end

section
open Ln

/-- a non-merge commit as a whole: added + changed = inserted lines, removed + changed = deleted lines, summed over
the changed files (whole-file insertions and deletions included; binary files contribute nothing) -/
theorem commit_conserves :
    ∀ (cs : List Chg) (h : ∀ c ∈ cs, okChg c),
    ((consume false cs).map fun p => p.2.added + p.2.changed).sum = (cs.map chgInserted).sum ∧
    ((consume false cs).map fun p => p.2.removed + p.2.changed).sum = (cs.map chgDeleted).sum :=
  @Ln.commit_conserves
end

end Props.C12
