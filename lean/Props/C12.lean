import Ln.Basic
import Ln.Commit
import Pl.OneShot
import Idn.DevsConsume
import Pl.Listing

/-! # C12 — property theorems (statements only; proofs live in the family libraries) -/

set_option linter.unusedVariables false

namespace Props.C12

section
open Ln

theorem lineStats_conserve :
    ∀ (es : List Edit) (h : NoDoubleDelete es),
    (lineStats es).added + (lineStats es).changed = inserted es ∧
    (lineStats es).removed + (lineStats es).changed = deleted es :=
  @Ln.lineStats_conserve
end

section
open OneShot

theorem counted_once :
    ∀ (np : Nat → Nat) (replays : List Nat) (c : Nat) (hc : c ∈ replays)
    (hsingle : np c ≤ 1 → replays.count c = 1),
    (counted np replays []).count c = 1 :=
  @OneShot.counted_once
end

section
open Ln

/-- a non-merge commit as a whole: added + changed = inserted lines, removed + changed = deleted lines, summed over
the changed files (whole-file insertions and deletions included; binary files contribute nothing) -/
theorem commit_conserves :
    ∀ (cs : List Chg) (h : ∀ c ∈ cs, okChg c),
    ((consume false cs).map fun p => p.2.added + p.2.changed).sum = (cs.map chgInserted).sum ∧
    ((consume false cs).map fun p => p.2.removed + p.2.changed).sum = (cs.map chgDeleted).sum :=
  @Ln.commit_conserves
end

section
open DevsM DevsC

/-- per-developer statistics (model of DevsAnalysis.Consume over any replay sequence): for every additive statistic -
commits, added, removed, changed lines - the total over all ticks and developers is the sum of the contributions of
exactly the counted replays -/
theorem run_sum :
    ∀ (f : DT → Int) (hf : Additive f) (ce : Bool) (cs : List Cin),
    sumF f (run ce cs).ticks = ((countedFrom ce [] cs).map fun c => f (delta c)).sum :=
  @DevsC.run_sum

/-- the number of commits attributed is the number of counted replays -/
theorem run_commits :
    ∀ (ce : Bool) (cs : List Cin),
    sumF (fun d => d.commits) (run ce cs).ticks = (countedFrom ce [] cs).length :=
  @DevsC.run_commits

/-- however often a merge commit is replayed, at most one of its replays is counted -/
theorem counted_merge_once :
    ∀ (ce : Bool) (h : Nat) (cs : List Cin) (seen : List Nat),
    (∀ c ∈ cs, c.hash = h → 1 < c.parents) →
    ((countedFrom ce seen cs).filter (fun c => c.hash = h)).length ≤ (if h ∈ seen then 0 else 1) :=
  @DevsC.counted_merge_once

/-- per-language figures sum to the totals in every (tick, developer) record -/
theorem run_langs :
    ∀ (ce : Bool) (cs : List Cin), ∀ e ∈ (run ce cs).ticks, LangOK e.2 :=
  @DevsC.run_langs
end

section
open Pl

/-- the per-commit listing (a record is appended exactly when the merge flag is off): on a plan that passes the adjacency
check a commit is listed exactly when it is replayed exactly once … -/
theorem listing_iff :
    ∀ (plan : List Action) (h : adjOK plan = true) (c : Nat), c ∈ listing plan ↔ replayCount plan c = 1 :=
  @Pl.listing_iff

/-- … and it is listed once -/
theorem listing_count :
    ∀ (plan : List Action) (h : adjOK plan = true) (c : Nat), (listing plan).count c ≤ 1 :=
  @Pl.listing_count
end

end Props.C12
