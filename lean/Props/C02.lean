import Pl.Anc
import Pl.CheckSound

/-! # C02 — property theorems (statements only; proofs live in the family libraries) -/

set_option linter.unusedVariables false

namespace Props.C02

section
open Pl

theorem mem_ancestors_iff :
    ∀ (parents : List (List Nat)) (ht : Topo parents) (a c : Nat) (hc : c < parents.length),
    a ∈ (ancestors parents).getD c [] ↔ Ancestor parents a c :=
  @Pl.mem_ancestors_iff
end

section
open Pl

theorem step_commit_sound :
    ∀ (strict : Bool) (parents : List (List Nat)) (ht : Topo parents)
    (s s' : St) (a : Action) (hk : a.kind = .commit)
    (h : step strict parents.toArray (ancestors parents) s a = .ok s'),
    ∃ b br, a.items = [b] ∧ s.get b = some br ∧ br.hib = false ∧
      ((br.last = none ∧ dedup (parents.toArray.getD a.commit []) = [] ∧ br.set = []) ∨
       (∃ q, br.last = some q ∧ q ∈ dedup (parents.toArray.getD a.commit []) ∧
          (strict = true → q ∈ nonRedundant (ancestors parents) (dedup (parents.toArray.getD a.commit []))) ∧
          (q < parents.length → ∀ x, x ∈ br.set ↔ Ancestor parents x q))) :=
  @Pl.step_commit_sound
end

end Props.C02
