import Pl.Anc
import Pl.CheckSound
import Pl.PlanSound
import Pl.Component

/-! # C02 — property theorems (statements only; proofs live in the family libraries) -/

set_option linter.unusedVariables false

namespace Props.C02

section
open Pl

theorem mem_ancestors_iff :
    ∀ (parents : List (List Nat)) (ht : Topo parents) (a c : Nat) (hc : c < parents.length),
    a ∈ (ancestors parents).getD c [] ↔ Ancestor parents a c :=
  @Pl.mem_ancestors_iff
end

section
open Pl

theorem step_commit_sound :
    ∀ (strict : Bool) (parents : List (List Nat)) (ht : Topo parents)
    (s s' : St) (a : Action) (hk : a.kind = .commit)
    (h : step strict parents.toArray (ancestors parents) s a = .ok s'),
    ∃ b br, a.items = [b] ∧ s.get b = some br ∧ br.hib = false ∧
      ((br.last = none ∧ dedup (parents.toArray.getD a.commit []) = [] ∧ br.set = []) ∨
       (∃ q, br.last = some q ∧ q ∈ dedup (parents.toArray.getD a.commit []) ∧
          (strict = true → q ∈ nonRedundant (ancestors parents) (dedup (parents.toArray.getD a.commit []))) ∧
          (q < parents.length → ∀ x, x ∈ br.set ↔ Ancestor parents x q))) :=
  @Pl.step_commit_sound
end

section
open Pl

/-- an accepted merge joins >= 2 pairwise distinct live awake branches with the same last commit `m`, whose union is
exactly the computed ancestry of `m`; strict mode: one branch per non-redundant parent -/
theorem step_merge_sound :
    ∀ (strict : Bool) (parents : List (List Nat)) (s s' : St) (a : Action)
    (hk : a.kind = .merge) (h : step strict parents.toArray (ancestors parents) s a = .ok s'),
    2 ≤ a.items.length ∧ (dedup a.items).length = a.items.length ∧
    ∃ brs m, a.items.mapM s.get = some brs ∧ (∀ b ∈ brs, b.hib = false ∧ b.last = some m) ∧
      brs.foldl (fun acc b => unionSorted b.set acc) [] = (ancestors parents).getD m [] ∧
      (strict = true → a.items.length = (nonRedundant (ancestors parents) (parents.toArray.getD m [])).length) :=
  @Pl.step_merge_sound

/-- plan soundness: acceptance of a whole plan implies (1) every action is accepted in the state reached by its prefix,
(2) exactly the retained commits are replayed, (3) strict mode: once per non-redundant parent, (4) nothing is left
hibernated -/
theorem checkPlan_sound :
    ∀ (strict : Bool) (parents : List (List Nat)) (retained : List Nat) (plan : List Action)
    (h : checkPlan strict parents retained plan = .ok ()),
    ∃ sN, plan.foldlM (step strict parents.toArray (ancestors parents)) ⟨[], [], []⟩ = .ok sN ∧
      (∀ A a B, plan = A ++ a :: B → ∃ s s',
          A.foldlM (step strict parents.toArray (ancestors parents)) ⟨[], [], []⟩ = .ok s ∧
          step strict parents.toArray (ancestors parents) s a = .ok s' ∧
          B.foldlM (step strict parents.toArray (ancestors parents)) s' = .ok sN) ∧
      (∀ c ∈ retained, 1 ≤ replays plan c) ∧
      (∀ c, 1 ≤ replays plan c → c ∈ retained) ∧
      (strict = true → ∀ c ∈ retained, replays plan c = wantReplays (ancestors parents) parents.toArray c) ∧
      (∀ p ∈ sN.live, p.2.hib = false) :=
  @Pl.checkPlan_sound

/-- the retained set the validator is given (what `leaveRootComponent` kept - which of several largest components is
kept depends on map order, so it is observed, then judged by `retainedOK`): acceptance means it is exactly one connected
component of the commit graph and no connected set of commits is larger -/
theorem retainedOK_sound :
    ∀ (parents : List (List Nat)) (hr : InRange parents) (ret : List Nat) (h : retainedOK parents ret = true),
    (ret = [] ∧ parents = []) ∨
    ∃ c, c < parents.length ∧ c ∈ ret ∧ StrictSorted ret ∧ (∀ x, x ∈ ret ↔ Conn parents c x) ∧
      ∀ (d : Nat) (l : List Nat), d < parents.length → l.Nodup → (∀ x ∈ l, Conn parents d x) → l.length ≤ ret.length :=
  @Pl.retainedOK_sound

/-- `componentOf` (n rounds of neighbour expansion) is exactly the connected component -/
theorem componentOf_spec :
    ∀ (parents : List (List Nat)) (hr : InRange parents) (c : Nat) (hc : c < parents.length),
    StrictSorted (componentOf parents c) ∧ ∀ x, x ∈ componentOf parents c ↔ Conn parents c x :=
  @Pl.componentOf_spec
end

end Props.C02
