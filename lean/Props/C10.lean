import Ts.Kahn

/-! # C10 — property theorems (placeholder until the ordering theorem is proved) -/

namespace Props.C10
end Props.C10
